import ColoVerif.Proofs.LegalizeLegalCircuit
import ColoVerif.Proofs.LegalizeTrivialTop
import ColoVerif.Model.LegacyLegalize
import ColoVerif.Proofs.GeomTie
/-
C01 — legalization returns a legal placement or fails loudly.

All statements are about the definitions the driver `drv_C01` executes (`Legalize.legalizeWith`,
instantiated by the driver with the binary32 rounding `f32`; the theorems hold for every rounding
function, legality does not depend on the ordering key).  Helper lemmas:
`Proofs/LegalizeLegal{Rows,Tetris,Abacus,Base,Circuit}.lean` (legality), `Proofs/LegalizeFrame.lean`.
-/
namespace ColoVerif.C01
open ColoVerif ColoVerif.Legalize

/-- The property's domain, as a decidable predicate.  With `H` the uniform row height
(`Circuit::rowHeight`, which exists and is positive): every movable cell has a positive placed
width and a placed height that is a positive multiple of `H`, and is unturned if it has a row
polarity; the rows are pairwise disjoint, have a non-empty x-range and an unturned (N/S/FN/FS, or
no) orientation.  Fixed cells are unrestricted.  (`dom_spelled` reads it with `∃ H`, `∃ k`.) -/
def Dom (c : Circuit) : Prop :=
  0 < (Circuit.rowHeight c).getD 0 ∧
  (∀ cl ∈ c.cells, cl.fixed = false →
    0 < cl.placedWidth ∧ 0 < cl.placedHeight ∧ cl.placedHeight % (Circuit.rowHeight c).getD 0 = 0 ∧
    (cl.pol ≠ Polarity.ANY → cl.orient.isTurn = false)) ∧
  c.rows.Pairwise (fun r s => r.rect.intersects s.rect = false) ∧
  (∀ r ∈ c.rows, r.rect.minX < r.rect.maxX ∧ r.orient.isTurn = false)

instance (c : Circuit) : Decidable (Dom c) :=
  inferInstanceAs (Decidable (_ ∧ _ ∧ _ ∧ _))

/-- the statement's legality, spelled out over `computeRows`: bottom edge on a row boundary, every
row-high strip inside one free segment, no two movable cells intersect -/
def Legal (c : Circuit) : Prop :=
  (∀ H, Circuit.rowHeight c = some H → ∀ cl ∈ c.cells, cl.fixed = false →
    ∀ k : Int, 0 ≤ k → k * H < cl.placedHeight →
      ∃ r ∈ c.computeRows, r.rect.minY = cl.y + k * H ∧ r.rect.minX ≤ cl.x ∧ cl.x + cl.placedWidth ≤ r.rect.maxX) ∧
  (c.cells.filter fun cl => !cl.fixed).Pairwise fun a b => a.placement.intersects b.placement = false

-- the helper files prove the theorem for verbatim copies of the two definitions
example : Dom = DomL := rfl
example : Legal = LegalL := rfl

/-- **C01, first clause (full).**  For every circuit of the domain, every rounding function of the
ordering key (in particular the compiled binary32 one) and all parameters: whenever legalization
returns normally, the returned circuit is legal — for every movable cell and every row-high strip
`k` of it (`0 ≤ k`, `k·H` below its placed height) there is a free row segment of
`computeRows` of the *returned* circuit (the rows minus the fixed obstructions) that starts at the
strip's bottom edge `y + k·H` and contains the strip's x-range; and no two movable cells intersect.

Proof (Proofs/LegalizeLegal*.lean): (i) `importLegalization`/`writeRows`/`exportPlacement`
bookkeeping by "last writer" characterisations; (ii) `remainingRows` = free space of the rows minus
the placed macros, pairwise disjoint pieces of rows that miss every macro (C15's interval lemmas);
(iii) the Tetris invariant — `rowFreePos_` of a segment is right of every strip placed so far that
meets it, and `getPossibleIntervals` only offers positions whose strip lies in
`[rowFreePos_, maxX − w]` of one visited segment per level; (iv) Abacus: its own `check()`, which the
model executes, certifies bounds and order per segment; segments are disjoint; (v) export keeps
the turn status of every cell (so placed sizes are the ones legalized) and leaves `computeRows`
unchanged. -/
theorem legalize_legal (rnd : Rat → Rat) (p : Params) (c c' : Circuit) (hd : Dom c)
    (h : legalizeWith rnd p c = .ok c') : Legal c' :=
  legalizeWith_legal rnd p c c' hd h

/-- the same for `Circuit::legalize` as compiled (binary32 ordering key) -/
theorem legalize_legal_compiled (p : Params) (c c' : Circuit) (hd : Dom c) (h : legalize p c = .ok c') :
    Legal c' :=
  legalizeWith_legal f32 p c c' hd h

/-- the domain read as in the property's quantifier: a uniform positive row height `H`, movable
cells of positive placed width whose placed height is `k·H` with `k > 0`, pairwise disjoint
non-empty rows, polarised cells unturned — and unturned row orientations -/
theorem dom_spelled (c : Circuit) (hd : Dom c) :
    (∃ H, 0 < H ∧ Circuit.rowHeight c = some H ∧
      ∀ cl ∈ c.cells, cl.fixed = false → 0 < cl.placedWidth ∧ ∃ k : Int, 0 < k ∧ cl.placedHeight = k * H) ∧
    c.rows.Pairwise (fun r s => r.rect.intersects s.rect = false) ∧
    (∀ r ∈ c.rows, r.rect.minX < r.rect.maxX ∧ r.orient.isTurn = false) ∧
    (∀ cl ∈ c.cells, cl.fixed = false → cl.pol ≠ Polarity.ANY → cl.orient.isTurn = false) := by
  obtain ⟨h1, h2, _, h4⟩ := domL_spelled c hd
  exact ⟨h1, h2, hd.2.2.2, h4⟩

/-- non-vacuity of `legalize_legal`: a circuit of the domain — two rows of height 2, the lower one
split by a fixed obstruction, a movable two-row cell, two row-high cells (one with row polarity),
all overlapping at the origin — on which legalization returns normally and moves every cell -/
def exampleCircuit : Circuit :=
  { cells := [⟨3, 4, 0, 0, .N, false, false, .ANY⟩, ⟨2, 2, 0, 0, .N, false, false, .ANY⟩,
              ⟨2, 2, 0, 0, .FN, false, false, .SAME⟩, ⟨1, 2, 4, 0, .N, true, true, .ANY⟩],
    nets := [],
    rows := [⟨⟨0, 10, 0, 2⟩, .N⟩, ⟨⟨0, 10, 2, 4⟩, .FS⟩] }

example : Dom exampleCircuit := by decide
example : ((legalize LegacyLegalize.defaultParams exampleCircuit).toOption.map
    fun c' => c'.cells.map fun cl => (cl.x, cl.y, cl.orient)) =
    some [(0, 0, .N), (5, 0, .N), (3, 2, .FS), (4, 0, .N)] := by decide +kernel

/-- **Error or all placed.**  (1) If `legalize` returns a circuit, the parameter check passed, both
passes ran, *every* movable cell was placed, and the result is `exportPlacement` of that state —
export is only reached after `checkAllPlaced`.  (2) If both passes ran but a cell stayed unplaced
the call fails with the `checkAllPlaced` error (no partially legal result).  (3) The result differs
from the input only in x/y/orientation of movable cells: rows and nets are kept, and cell by cell
size, fixed/obstruction flags and polarity are kept and fixed cells are untouched.  In the
functional model an error carries no circuit: the input is unchanged (the C++ side of this is the
`unchanged on throw` oracle of the harness, shared with C10). -/
theorem legalize_error_or_all (rnd : Rat → Rat) (p : Params) (c : Circuit) :
    (∀ c', legalizeWith rnd p c = .ok c' →
      p.check = true ∧
      ∃ b1 b2, runTetris (fromCircuit c) (computeCellOrder rnd p.ow p.oy p.oh (fromCircuit c).cells) = .ok b1 ∧
        runAbacus b1 (computeCellOrder rnd p.ow p.oy p.oh (fromCircuit c).cells) = .ok b2 ∧
        b2.pos.all (·.placed) = true ∧ c' = exportPlacement b2 c) ∧
    (∀ b1 b2, p.check = true →
      runTetris (fromCircuit c) (computeCellOrder rnd p.ow p.oy p.oh (fromCircuit c).cells) = .ok b1 →
      runAbacus b1 (computeCellOrder rnd p.ow p.oy p.oh (fromCircuit c).cells) = .ok b2 →
      b2.pos.all (·.placed) = false → legalizeWith rnd p c = .error .notAllPlaced) ∧
    (∀ c', legalizeWith rnd p c = .ok c' →
      c'.rows = c.rows ∧ c'.nets = c.nets ∧ Pointwise SameFrame c.cells c'.cells) := by
  refine ⟨fun c' h => legalizeWith_ok rnd p c c' h, fun b1 b2 hc h1 h2 hu => legalizeWith_unplaced rnd p c b1 b2 hc h1 h2 hu, ?_⟩
  intro c' h
  obtain ⟨_, b1, b2, _, _, _, rfl⟩ := legalizeWith_ok rnd p c c' h
  exact ⟨rfl, rfl, exportCells_frame _ _⟩

/-- `Circuit::legalize` seen as the C++ sees it — a procedure on the circuit object: the object
after the call and the exception thrown, if any.  (`DetailedPlacer::legalize` works on a separate
`Legalizer`; the only write to the circuit is `exportPlacement`, evaluated after `run` returned.) -/
def legalizeInPlace (rnd : Rat → Rat) (p : Params) (c : Circuit) : Circuit × Option Err :=
  match legalizeWith rnd p c with
  | .ok c' => (c', none)
  | .error e => (c, some e)

/-- **A failed legalization leaves the circuit unchanged** (shared with C10).  If the call fails,
the error was raised by the parameter check or by `Legalizer::run` (Tetris, Abacus and its `check()`,
`checkAllPlaced`) — both before `exportPlacement`, the only place where a modified circuit is
built — so the circuit object after the call is the input, exactly. -/
theorem failed_legalize_unchanged (rnd : Rat → Rat) (p : Params) (c : Circuit) (e : Err)
    (h : legalizeWith rnd p c = .error e) :
    legalizeInPlace rnd p c = (c, some e) ∧
    ((p.check = false ∧ e = .params) ∨ (p.check = true ∧ run rnd p (fromCircuit c) = .error e)) := by
  refine ⟨by simp [legalizeInPlace, h], ?_⟩
  unfold legalizeWith at h
  by_cases hc : p.check = true
  · right
    refine ⟨hc, ?_⟩
    simp only [hc, Bool.not_true, Bool.false_eq_true, if_false] at h
    cases hr : run rnd p (fromCircuit c) with
    | error e' => rw [hr] at h; simp only [Except.error.injEq] at h; rw [h]
    | ok b => rw [hr] at h; simp at h
  · left
    have hc' : p.check = false := by simpa using hc
    simp only [hc', Bool.not_false, if_true, Except.error.injEq] at h
    exact ⟨hc', h.symm⟩

/-- non-vacuity: an overfull circuit (three cells of width 4 in one row of width 10) fails with the
`checkAllPlaced` error and is left as it was -/
example : legalizeInPlace f32 LegacyLegalize.defaultParams
    ⟨[⟨4, 2, 0, 0, .N, false, false, .ANY⟩, ⟨4, 2, 1, 0, .N, false, false, .ANY⟩, ⟨4, 2, 2, 0, .N, false, false, .ANY⟩],
     [], [⟨⟨0, 10, 0, 2⟩, .N⟩]⟩ =
    (⟨[⟨4, 2, 0, 0, .N, false, false, .ANY⟩, ⟨4, 2, 1, 0, .N, false, false, .ANY⟩, ⟨4, 2, 2, 0, .N, false, false, .ANY⟩],
      [], [⟨⟨0, 10, 0, 2⟩, .N⟩]⟩, some .notAllPlaced) := by decide +kernel

/-! ### trivial success (Proofs/LegalizeTrivial{Loop,Check,Top}.lean) -/

-- the helper files use the domain as first spelled out (`DomC`, implied by `Dom`) and a verbatim copy of `Legal`
example : Legal = LegalC := rfl

/-- **C01, third clause (full): legalization never fails when success is trivial.**  For every
circuit of the domain whose movable cells are all one row high, without row restriction (polarity
ANY) and with a valid orientation, every rounding of the ordering key and all parameters accepted
by `check`: if `W` bounds the placed widths of the movable cells (in particular `W` = the maximum
width) and their total width is at most the total width of the free row segments (`computeRows`)
less `W` per segment, then `legalize` returns normally.

Proof (Proofs/LegalizeTrivial*.lean): the Tetris pass is empty and `remainingRows` are the free
segments themselves; pigeonhole on `remainingSpace`: before every `placeCell` the segments' remaining
spaces sum to at least `#segments·W + w`, so one has room; `evaluatePlacement` accepts every segment
with room (`evaluatePlacement_accepts_room`); the early exit of `tryPlace` needs `bestRow != -1`, so
until a row has been found every row is visited, hence one is found and it was accepted; pushes
that fit keep every `RowLegalizer` feasible (C12: inside the segment, in order), the index lists
`rowToCells_` are duplicate-free, so `AbacusLegalizer::check` passes and `checkAllPlaced` finds every
cell placed. -/
theorem legalize_trivial_success (rnd : Rat → Rat) (p : Params) (c : Circuit) (hp : p.check = true) (hd : Dom c)
    (hu : ∀ cl ∈ c.cells, cl.fixed = false →
      cl.pol = Polarity.ANY ∧ cl.orient ≠ Orient.INVALID ∧ Circuit.rowHeight c = some cl.placedHeight)
    (W : Int) (hW : ∀ cl ∈ c.cells, cl.fixed = false → cl.placedWidth ≤ W)
    (hsum : ((c.cells.filter fun cl => !cl.fixed).map Cell.placedWidth).sum
      ≤ (c.computeRows.map fun r => r.rect.width).sum - (c.computeRows.length : Int) * W) :
    ∃ c', legalizeWith rnd p c = .ok c' :=
  legalizeWith_trivial rnd p c hp (domL_spelled c hd) hu W hW hsum

/-- … and what it returns is legal (`legalize_legal`) -/
theorem legalize_trivial_success_legal (rnd : Rat → Rat) (p : Params) (c : Circuit) (hp : p.check = true) (hd : Dom c)
    (hu : ∀ cl ∈ c.cells, cl.fixed = false →
      cl.pol = Polarity.ANY ∧ cl.orient ≠ Orient.INVALID ∧ Circuit.rowHeight c = some cl.placedHeight)
    (W : Int) (hW : ∀ cl ∈ c.cells, cl.fixed = false → cl.placedWidth ≤ W)
    (hsum : ((c.cells.filter fun cl => !cl.fixed).map Cell.placedWidth).sum
      ≤ (c.computeRows.map fun r => r.rect.width).sum - (c.computeRows.length : Int) * W) :
    ∃ c', legalizeWith rnd p c = .ok c' ∧ Legal c' := by
  obtain ⟨c', h⟩ := legalize_trivial_success rnd p c hp hd hu W hW hsum
  exact ⟨c', h, legalize_legal rnd p c c' hd h⟩

/-- non-vacuity of `legalize_trivial_success`: three segments ([0,4], [5,10], [0,10]: total 19), three
overlapping cells of widths 2, 2, 3 (W = 3): 7 ≤ 19 − 3·3 -/
def trivialCircuit : Circuit :=
  { cells := [⟨2, 2, 0, 0, .N, false, false, .ANY⟩, ⟨2, 2, 0, 0, .FN, false, false, .ANY⟩,
              ⟨3, 2, 1, 0, .S, false, false, .ANY⟩, ⟨1, 2, 4, 0, .N, true, true, .ANY⟩],
    nets := [],
    rows := [⟨⟨0, 10, 0, 2⟩, .N⟩, ⟨⟨0, 10, 2, 4⟩, .FS⟩] }

example : LegacyLegalize.defaultParams.check = true ∧ Dom trivialCircuit ∧
    (∀ cl ∈ trivialCircuit.cells, cl.fixed = false →
      cl.pol = Polarity.ANY ∧ cl.orient ≠ Orient.INVALID ∧ Circuit.rowHeight trivialCircuit = some cl.placedHeight) ∧
    (∀ cl ∈ trivialCircuit.cells, cl.fixed = false → cl.placedWidth ≤ 3) ∧
    ((trivialCircuit.cells.filter fun cl => !cl.fixed).map Cell.placedWidth).sum
      ≤ (trivialCircuit.computeRows.map fun r => r.rect.width).sum - (trivialCircuit.computeRows.length : Int) * 3 := by
  decide +kernel

/-- **Trivial success, local step.**  `evaluatePlacement` accepts every segment with enough
remaining space for a cell without row restriction (polarity ANY, valid orientation): the only
refusals are lack of space and an INVALID orientation. -/
theorem evaluatePlacement_accepts_room (rows : List Row) (legs : List RowLeg.State) (c : LCell) (row : Nat)
    (hp : c.pol = Polarity.ANY) (ho : c.torient ≠ Orient.INVALID) (hs : c.w ≤ (legAt legs row).remaining) :
    canEval rows legs c row = true := by
  have : ¬ ((legAt legs row).remaining < c.w) := by omega
  simp [canEval, this, getOrientation, hp, cellOrientationInRow, ho]

/-- **Pre-fix witness (F1).**  On `LegacyLegalize.turnedCircuit` (corpus/C01/case0.txt) the pre-fix
Tetris pass, which swapped width and height of the turned two-row cell, returns two movable cells
whose placements intersect; the fixed model places them side by side. -/
theorem legacy_tetris_turned_overlap :
    LegacyLegalize.placements (LegacyLegalize.legalize LegacyLegalize.defaultParams LegacyLegalize.turnedCircuit)
      = [⟨0, 2, 0, 4⟩, ⟨0, 2, 2, 6⟩] ∧
    Rect.intersects ⟨0, 2, 0, 4⟩ ⟨0, 2, 2, 6⟩ = true ∧
    LegacyLegalize.placements (legalize LegacyLegalize.defaultParams LegacyLegalize.turnedCircuit)
      = [⟨0, 2, 0, 4⟩, ⟨2, 4, 2, 6⟩] ∧
    Rect.intersects ⟨0, 2, 0, 4⟩ ⟨2, 4, 2, 6⟩ = false := by
  decide +kernel

/-- **Pre-fix witness (cost narrowing).**  `int dist = <long long>` turned the cost 40000·180000 of
moving a cell to another segment into a negative number, which beats the cost 0 of staying. -/
theorem legacy_cost_narrowing_negative : LegacyLegalize.narrowedCost = -1389934592 ∧ (0 : Int) ≤ 40000 * 180000 := by
  decide

/-- The shared geometry layer under the legalization model is *translated from the C++ source*: the
definitions of `Gen/GeomFns.lean`, regenerated on every run from the clang AST of the bodies of
`Rectangle(int,int,int,int)`, `Rectangle::height`, `isTurn`, `Circuit::x / y / orientation / isFixed / isObstruction /
placedWidth / placedHeight / placement`, are equal as functions to the hand-written `Rect.*` / `Cell.*` that
`Legalize.fromCircuit` (placed sizes, targets, orientations), the row-height tests and `Circuit.computeRows` (placements
of the fixed obstructions) are written in.  A semantic change of one of these bodies breaks this theorem. -/
theorem geometry_layer_translated :
    Gen.Geom.Rectangle_ctor = Rect.mk ∧
    Gen.Geom.Rectangle_height = Rect.height ∧
    Gen.Geom.isTurn = Orient.isTurn ∧
    Gen.Geom.Circuit_x = Cell.x ∧
    Gen.Geom.Circuit_y = Cell.y ∧
    Gen.Geom.Circuit_orientation = Cell.orient ∧
    Gen.Geom.Circuit_isFixed = Cell.fixed ∧
    Gen.Geom.Circuit_isObstruction = Cell.obstruction ∧
    Gen.Geom.Circuit_placedWidth = Cell.placedWidth ∧
    Gen.Geom.Circuit_placedHeight = Cell.placedHeight ∧
    Gen.Geom.Circuit_placement = Cell.placement :=
  ⟨GeomTie.gen_Rectangle_ctor_eq_model,
   GeomTie.gen_Rectangle_height_eq_model,
   GeomTie.gen_isTurn_eq_model,
   GeomTie.gen_Circuit_x_eq_model,
   GeomTie.gen_Circuit_y_eq_model,
   GeomTie.gen_Circuit_orientation_eq_model,
   GeomTie.gen_Circuit_isFixed_eq_model,
   GeomTie.gen_Circuit_isObstruction_eq_model,
   GeomTie.gen_Circuit_placedWidth_eq_model,
   GeomTie.gen_Circuit_placedHeight_eq_model,
   GeomTie.gen_Circuit_placement_eq_model⟩

end ColoVerif.C01
