import ColoVerif.Proofs.GridGroup
/-
C16 — density bins account for all free area; every cell is in exactly one bin.

All statements are about the definitions of `ColoVerif/Model/Grid.lean`, which `Driver/C16.lean`
executes against the C++ (`harness/h_C16.cpp`).  Predicates (`RectValid`, `overlap`, `InsideLimits`,
`HierOk`, `ParOk`, `AllocInv`) are spelled out in `Proofs/GridDefs.lean`.

Not proved here (see tools/props/C16.py PARTIAL): that the real float-driven passes are instances of the
skeleton steps (checked per explored call by the correspondence), and `coords_in_bin` (C06).
-/
namespace ColoVerif.C16
open ColoVerif ColoVerif.Grid

/-- `computeSubdivisions`: the limits are monotone, start at `min`, end at `max` — consecutive limits tile
`[min, max)`. -/
theorem subdivisions_partition (mn mx : Int) (n : Nat) (hn : 1 ≤ n) (h : mn ≤ mx) :
    (computeSubdivisions mn mx n).length = n + 1 ∧
    (computeSubdivisions mn mx n).head? = some mn ∧
    (computeSubdivisions mn mx n).getLast? = some mx ∧
    (computeSubdivisions mn mx n).Pairwise (· ≤ ·) :=
  subdivisions_partition_lem mn mx n hn h

/-- `updateBinCapacity(regions)` over monotone limits: per bin, the accumulated capacity is the sum over the
regions of the geometric area of region ∩ bin (with pairwise disjoint regions: the free area inside the bin);
for regions inside the area spanned by the limits, the bins' capacities add up to the regions' total area. -/
theorem capacity_conserved (limX limY : List Int) (regions : List Rect)
    (hX : limX.Pairwise (· ≤ ·)) (hY : limY.Pairwise (· ≤ ·)) (hxne : limX ≠ []) (hyne : limY ≠ [])
    (hv : ∀ r ∈ regions, RectValid r) :
    (∀ i j, i + 1 < limX.length → j + 1 < limY.length →
      binCapOf limX limY regions i j = (regions.map fun r => overlap r (regionOf limX limY i j)).sum) ∧
    ((∀ r ∈ regions, InsideLimits limX limY r) →
      ((capacities limX limY regions).map List.sum).sum = (regions.map Rect.area).sum) :=
  ⟨fun i j hi hj => binCap_eq_overlap limX limY regions hX hY hv i j hi hj,
   fun hin => capacities_total limX limY regions hX hY hxne hyne hv hin⟩

/-- `DensityGrid(binSize, regions)` (hence `fromIspdCircuit`, which calls it with the clipped rows), any bin
size: the limits tile the bounding box of the regions, which contains every region, and the total capacity is
the total region area. -/
theorem grid_tiles_and_conserves (binSize : Int) (regions : List Rect) (hne : regions ≠ [])
    (hv : ∀ r ∈ regions, RectValid r) :
    let g := DGrid.ofRegions binSize regions
    let a := computePlacementArea regions
    (∀ r ∈ regions, a.minX ≤ r.minX ∧ r.maxX ≤ a.maxX ∧ a.minY ≤ r.minY ∧ r.maxY ≤ a.maxY) ∧
    g.limX.head? = some a.minX ∧ g.limX.getLast? = some a.maxX ∧ g.limX.Pairwise (· ≤ ·) ∧
    g.limY.head? = some a.minY ∧ g.limY.getLast? = some a.maxY ∧ g.limY.Pairwise (· ≤ ·) ∧
    g.totalCapacity = (regions.map Rect.area).sum :=
  ofRegions_ok binSize regions hne hv

/-- `setupHierarchyHelper(n)`: every level's limits strictly increase from 0 to `n`; the coarsest level is the
single bin and the finest the grid itself (so the loop's fuel suffices); parent vectors have the right size,
list children parent after parent without skipping one; a bin lies inside its parent and the children of a
bin tile it (`HierOk`). -/
theorem hierarchy_wf (n : Nat) (hn : 1 ≤ n) : HierOk (setupHierarchy n) n :=
  hierarchy_wf_lem n hn

/-- On every state reachable from the constructor by any operation list: coarsening in x (resp. y) gives bins
whose capacity is exactly the sum of the capacities of their children in the previous view, and the
capacities of the current view add up to the capacity of the whole grid — which is `totalCapacity` for a grid
built by `DensityGrid(binSize, regions)`. -/
theorem group_capacity_exact (g : DGrid) (demand : List Int) (hx : 1 ≤ g.nbX) (hy : 1 ≤ g.nbY) (ops : List Op) :
    let s := (HState.init g demand).run ops
    (∀ p j, s.levelX + 1 < s.hx.nbLevels → p < s.coarsenX.nbX →
      s.coarsenX.binCapacity p j =
        (((List.range s.nbX).filter fun x => s.parentX x == p).map fun x => s.binCapacity x j).sum) ∧
    (∀ i p, s.levelY + 1 < s.hy.nbLevels → p < s.coarsenY.nbY →
      s.coarsenY.binCapacity i p =
        (((List.range s.nbY).filter fun y => s.parentY y == p).map fun y => s.binCapacity i y).sum) ∧
    ((List.range s.nbX).map fun x => ((List.range s.nbY).map fun y => s.binCapacity x y).sum).sum =
      g.groupCapacity 0 g.nbX 0 g.nbY ∧
    (∀ binSize regions, g = DGrid.ofRegions binSize regions → g.groupCapacity 0 g.nbX 0 g.nbY = g.totalCapacity) := by
  intro s
  have hinv : Inv g.nbX g.nbY s := inv_run ops _ (inv_init g demand hx hy)
  have hg : s.grid = g := (run_gd ops (HState.init g demand)).1
  refine ⟨fun p j hl hp => coarsenX_capacity s g.nbX hinv.hxOk hl p j hp,
    fun i p hl hp => coarsenY_capacity s g.nbY hinv.hyOk hl i p hp, ?_, ?_⟩
  · have := view_total s g.nbX g.nbY hinv.hxOk hinv.hyOk hinv.alloc.lvlX hinv.alloc.lvlY
    rw [hg] at this
    exact this
  · intro binSize regions e
    subst e
    exact groupCapacity_whole _ (ofRegions_shape binSize regions).1 (ofRegions_shape binSize regions).2

/-- The allocation invariant holds after the constructor and after any sequence of `refineX/Y`,
`coarsenX/Y` and skeleton steps — `rebisect` for every permutation and split index, `reoptimize` for every
assignment vector, `improveX/YTransport` for every assignment per row/column, and the general
`redistribute` for every choice of bins and new contents: the table has the shape of the view, no cell is
twice in a bin or in two bins, exactly the positive-demand cells are allocated, `cellBinX/Y` agree with
`binCells` and are `-1` for unallocated cells. -/
theorem alloc_inv (g : DGrid) (demand : List Int) (hx : 1 ≤ g.nbX) (hy : 1 ≤ g.nbY) (ops : List Op) :
    AllocInv ((HState.init g demand).run ops) :=
  (inv_run ops _ (inv_init g demand hx hy)).alloc

/-- `alloc_inv` cell by cell, on grids built by `DensityGrid(binSize, regions)` (no side condition): a cell of
positive demand is in exactly one bin of the current view, exactly once, and `cellBinX/Y` name that bin; any
other cell is in no bin and its `cellBinX/Y` are `-1`. -/
theorem alloc_inv_cellwise (binSize : Int) (regions : List Rect) (demand : List Int) (ops : List Op) (c : Nat) :
    let s := (HState.init (DGrid.ofRegions binSize regions) demand).run ops
    ((c < demand.length ∧ demand.getD c 0 > 0) →
      ∃ i j, i < s.nbX ∧ j < s.nbY ∧ (s.cells i j).count c = 1 ∧
        (∀ i' j', c ∈ s.cells i' j' → i' = i ∧ j' = j) ∧
        s.cbx.getD c (-1) = (i : Int) ∧ s.cby.getD c (-1) = (j : Int)) ∧
    (¬ (c < demand.length ∧ demand.getD c 0 > 0) →
      (∀ i j, c ∉ s.cells i j) ∧ s.cbx.getD c (-1) = -1 ∧ s.cby.getD c (-1) = -1) := by
  intro s
  have hpos := ofRegions_nb_pos binSize regions
  have h := alloc_inv (DGrid.ofRegions binSize regions) demand hpos.1 hpos.2 ops
  have hd : s.demand = demand := (run_gd ops (HState.init (DGrid.ofRegions binSize regions) demand)).2
  have := allocInv_explicit s h c
  unfold HState.nbCells HState.cellDemand at this
  rw [hd] at this
  exact this

/-! ### non-vacuity / sanity -/

/-- hypotheses of `capacity_conserved` are satisfiable and the conclusion is the expected number -/
example : ((capacities [0, 5, 10] [0, 4] [⟨0, 10, 0, 2⟩, ⟨2, 7, 2, 4⟩]).map List.sum).sum = 30 := by decide

example : 1 ≤ (DGrid.ofRegions 4 [⟨0, 10, 0, 2⟩, ⟨2, 7, 2, 4⟩]).nbX ∧
    1 ≤ (DGrid.ofRegions 4 [⟨0, 10, 0, 2⟩, ⟨2, 7, 2, 4⟩]).nbY := by decide

/-- a concrete run: two refinements and a rebisect that really moves a cell -/
example :
    ((HState.init (DGrid.ofRegions 4 [⟨0, 10, 0, 2⟩, ⟨2, 7, 2, 4⟩]) [3, 0, 2]).run
      [.refineX, .rebisect 0 0 1 0 [2, 0] 1]).bins = [[[2]], [[0]]] := by decide

/-- an inadmissible skeleton argument (cell 2 dropped) leaves the state alone -/
example :
    ((HState.init (DGrid.ofRegions 4 [⟨0, 10, 0, 2⟩, ⟨2, 7, 2, 4⟩]) [3, 0, 2]).run
      [.refineX, .rebisect 0 0 1 0 [0] 1]).bins = [[[0, 2]], [[]]] := by decide

end ColoVerif.C16
