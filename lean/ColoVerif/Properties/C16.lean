import ColoVerif.Proofs.GridGroup
import ColoVerif.Proofs.GridCircuit
import ColoVerif.Proofs.GridSched
import ColoVerif.Proofs.GeomTie
/-
C16 — density bins account for all free area; every cell is in exactly one bin.

All statements are about the definitions of `ColoVerif/Model/Grid.lean`, which `Driver/C16.lean`
executes against the C++ (`harness/h_C16.cpp`).  Predicates (`RectValid`, `overlap`, `InsideLimits`,
`HierOk`, `ParOk`, `AllocInv`) are spelled out in `Proofs/GridDefs.lean`.

`circuit_grid_capacity_is_free_area` discharges the hypotheses of `capacity_conserved` for the grids
`fromIspdCircuit` builds (helper lemmas: `Proofs/GridCircuit.lean`, on top of C15's interval lemmas);
`schedule_ops_preserve_alloc` instantiates `alloc_inv` on the schedules of the public passes
(`Model/GridSched.lean`, tied to the code call by call through the op-log hook H4).

Not proved here (see tools/props/C16.py PARTIAL): that the real float-driven calls are instances of the
skeleton steps and that the real passes follow the schedule model (both checked per explored call by the
correspondence), and `coords_in_bin` (C06).
-/
namespace ColoVerif.C16
open ColoVerif ColoVerif.Grid

/-- `computeSubdivisions`: the limits are monotone, start at `min`, end at `max` — consecutive limits tile
`[min, max)`. -/
theorem subdivisions_partition (mn mx : Int) (n : Nat) (hn : 1 ≤ n) (h : mn ≤ mx) :
    (computeSubdivisions mn mx n).length = n + 1 ∧
    (computeSubdivisions mn mx n).head? = some mn ∧
    (computeSubdivisions mn mx n).getLast? = some mx ∧
    (computeSubdivisions mn mx n).Pairwise (· ≤ ·) :=
  subdivisions_partition_lem mn mx n hn h

/-- `updateBinCapacity(regions)` over monotone limits: per bin, the accumulated capacity is the sum over the
regions of the geometric area of region ∩ bin (with pairwise disjoint regions: the free area inside the bin);
for regions inside the area spanned by the limits, the bins' capacities add up to the regions' total area. -/
theorem capacity_conserved (limX limY : List Int) (regions : List Rect)
    (hX : limX.Pairwise (· ≤ ·)) (hY : limY.Pairwise (· ≤ ·)) (hxne : limX ≠ []) (hyne : limY ≠ [])
    (hv : ∀ r ∈ regions, RectValid r) :
    (∀ i j, i + 1 < limX.length → j + 1 < limY.length →
      binCapOf limX limY regions i j = (regions.map fun r => overlap r (regionOf limX limY i j)).sum) ∧
    ((∀ r ∈ regions, InsideLimits limX limY r) →
      ((capacities limX limY regions).map List.sum).sum = (regions.map Rect.area).sum) :=
  ⟨fun i j hi hj => binCap_eq_overlap limX limY regions hX hY hv i j hi hj,
   fun hin => capacities_total limX limY regions hX hY hxne hyne hv hin⟩

/-- `DensityGrid(binSize, regions)` (hence `fromIspdCircuit`, which calls it with the clipped rows), any bin
size: the limits tile the bounding box of the regions, which contains every region, and the total capacity is
the total region area. -/
theorem grid_tiles_and_conserves (binSize : Int) (regions : List Rect) (hne : regions ≠ [])
    (hv : ∀ r ∈ regions, RectValid r) :
    let g := DGrid.ofRegions binSize regions
    let a := computePlacementArea regions
    (∀ r ∈ regions, a.minX ≤ r.minX ∧ r.maxX ≤ a.maxX ∧ a.minY ≤ r.minY ∧ r.maxY ≤ a.maxY) ∧
    g.limX.head? = some a.minX ∧ g.limX.getLast? = some a.maxX ∧ g.limX.Pairwise (· ≤ ·) ∧
    g.limY.head? = some a.minY ∧ g.limY.getLast? = some a.maxY ∧ g.limY.Pairwise (· ≤ ·) ∧
    g.totalCapacity = (regions.map Rect.area).sum :=
  ofRegions_ok binSize regions hne hv

/-- `setupHierarchyHelper(n)`: every level's limits strictly increase from 0 to `n`; the coarsest level is the
single bin and the finest the grid itself (so the loop's fuel suffices); parent vectors have the right size,
list children parent after parent without skipping one; a bin lies inside its parent and the children of a
bin tile it (`HierOk`). -/
theorem hierarchy_wf (n : Nat) (hn : 1 ≤ n) : HierOk (setupHierarchy n) n :=
  hierarchy_wf_lem n hn

/-- On every state reachable from the constructor by any operation list: coarsening in x (resp. y) gives bins
whose capacity is exactly the sum of the capacities of their children in the previous view, and the
capacities of the current view add up to the capacity of the whole grid — which is `totalCapacity` for a grid
built by `DensityGrid(binSize, regions)`. -/
theorem group_capacity_exact (g : DGrid) (demand : List Int) (hx : 1 ≤ g.nbX) (hy : 1 ≤ g.nbY) (ops : List Op) :
    let s := (HState.init g demand).run ops
    (∀ p j, s.levelX + 1 < s.hx.nbLevels → p < s.coarsenX.nbX →
      s.coarsenX.binCapacity p j =
        (((List.range s.nbX).filter fun x => s.parentX x == p).map fun x => s.binCapacity x j).sum) ∧
    (∀ i p, s.levelY + 1 < s.hy.nbLevels → p < s.coarsenY.nbY →
      s.coarsenY.binCapacity i p =
        (((List.range s.nbY).filter fun y => s.parentY y == p).map fun y => s.binCapacity i y).sum) ∧
    ((List.range s.nbX).map fun x => ((List.range s.nbY).map fun y => s.binCapacity x y).sum).sum =
      g.groupCapacity 0 g.nbX 0 g.nbY ∧
    (∀ binSize regions, g = DGrid.ofRegions binSize regions → g.groupCapacity 0 g.nbX 0 g.nbY = g.totalCapacity) := by
  intro s
  have hinv : Inv g.nbX g.nbY s := inv_run ops _ (inv_init g demand hx hy)
  have hg : s.grid = g := (run_gd ops (HState.init g demand)).1
  refine ⟨fun p j hl hp => coarsenX_capacity s g.nbX hinv.hxOk hl p j hp,
    fun i p hl hp => coarsenY_capacity s g.nbY hinv.hyOk hl i p hp, ?_, ?_⟩
  · have := view_total s g.nbX g.nbY hinv.hxOk hinv.hyOk hinv.alloc.lvlX hinv.alloc.lvlY
    rw [hg] at this
    exact this
  · intro binSize regions e
    subst e
    exact groupCapacity_whole _ (ofRegions_shape binSize regions).1 (ofRegions_shape binSize regions).2

/-- The allocation invariant holds after the constructor and after any sequence of `refineX/Y`,
`coarsenX/Y` and skeleton steps — `rebisect` for every permutation and split index, `reoptimize` for every
assignment vector, `improveX/YTransport` for every assignment per row/column, and the general
`redistribute` for every choice of bins and new contents: the table has the shape of the view, no cell is
twice in a bin or in two bins, exactly the positive-demand cells are allocated, `cellBinX/Y` agree with
`binCells` and are `-1` for unallocated cells. -/
theorem alloc_inv (g : DGrid) (demand : List Int) (hx : 1 ≤ g.nbX) (hy : 1 ≤ g.nbY) (ops : List Op) :
    AllocInv ((HState.init g demand).run ops) :=
  (inv_run ops _ (inv_init g demand hx hy)).alloc

/-- `alloc_inv` cell by cell, on grids built by `DensityGrid(binSize, regions)` (no side condition): a cell of
positive demand is in exactly one bin of the current view, exactly once, and `cellBinX/Y` name that bin; any
other cell is in no bin and its `cellBinX/Y` are `-1`. -/
theorem alloc_inv_cellwise (binSize : Int) (regions : List Rect) (demand : List Int) (ops : List Op) (c : Nat) :
    let s := (HState.init (DGrid.ofRegions binSize regions) demand).run ops
    ((c < demand.length ∧ demand.getD c 0 > 0) →
      ∃ i j, i < s.nbX ∧ j < s.nbY ∧ (s.cells i j).count c = 1 ∧
        (∀ i' j', c ∈ s.cells i' j' → i' = i ∧ j' = j) ∧
        s.cbx.getD c (-1) = (i : Int) ∧ s.cby.getD c (-1) = (j : Int)) ∧
    (¬ (c < demand.length ∧ demand.getD c 0 > 0) →
      (∀ i j, c ∉ s.cells i j) ∧ s.cbx.getD c (-1) = -1 ∧ s.cby.getD c (-1) = -1) := by
  intro s
  have hpos := ofRegions_nb_pos binSize regions
  have h := alloc_inv (DGrid.ofRegions binSize regions) demand hpos.1 hpos.2 ops
  have hd : s.demand = demand := (run_gd ops (HState.init (DGrid.ofRegions binSize regions) demand)).2
  have := allocInv_explicit s h c
  unfold HState.nbCells HState.cellDemand at this
  rw [hd] at this
  exact this

/-- **Capacity = free row area, for circuits.**  For a circuit whose rows have the C01 domain shape
(`RowsDom`: uniform positive row height, rows pairwise non-intersecting, non-empty x-ranges — the row part of
`C01.Dom`, verbatim) and a non-negative `sideMargin` (mantissa ≥ 0), any cells, any obstructions, any
`sizeFactor`: the regions `DensityGrid::fromIspdCircuit` hands to the constructor — the free segments of
`Circuit::computeRows` (C15) wider than twice the margin, shortened by the margin on both sides; with the
code's fallbacks when that leaves nothing — are a non-empty list of valid rectangles, pairwise
non-intersecting, all inside the area spanned by the grid limits.  Hence, without side conditions:
the total capacity is the sum of the areas of the clipped free segments; the capacity of every bin is the sum
over the segments of area(segment ∩ bin), which — the segments being disjoint — is the number of unit
squares of the bin that lie in a clipped free segment (`coveredArea`). -/
theorem circuit_grid_capacity_is_free_area (c : Circuit) (sfMant sfExp smMant smExp : Int)
    (hd : RowsDom c) (hm : 0 ≤ smMant) :
    let margin := floatMulTrunc smMant smExp (minCellHeight c)
    let R := ispdRegions c margin
    let g := DGrid.fromIspdCircuit c sfMant sfExp smMant smExp
    0 ≤ margin ∧
    (clippedRows c.computeRows margin ≠ [] → R = clippedRows c.computeRows margin) ∧
    (∀ q, q ∈ clippedRows c.computeRows margin ↔ ∃ s ∈ c.computeRows, 2 * margin < s.rect.width ∧
      q = ⟨s.rect.minX + margin, s.rect.maxX - margin, s.rect.minY, s.rect.maxY⟩) ∧
    R ≠ [] ∧ (∀ r ∈ R, RectValid r) ∧ R.Pairwise (fun a b => a.intersects b = false) ∧
    (∀ r ∈ R, InsideLimits g.limX g.limY r) ∧
    g.totalCapacity = (R.map Rect.area).sum ∧
    (∀ i j, i < g.nbX → j < g.nbY →
      g.binCapacity i j = (R.map fun r => overlap r (g.region i j)).sum ∧
      g.binCapacity i j = coveredArea R (g.region i j)) := by
  intro margin R g
  have hm' : 0 ≤ margin := floatMulTrunc_nonneg _ _ _ hm (Int.le_of_lt (minCellHeight_pos c))
  obtain ⟨hne, hv, hp⟩ := ispdRegions_ok c margin hd hm'
  have hg : g = DGrid.ofRegions (floatMulTrunc sfMant sfExp (minCellHeight c)) R := rfl
  obtain ⟨hin, hx0, hx1, hX, hy0, hy1, hY, htot⟩ :=
    ofRegions_ok (floatMulTrunc sfMant sfExp (minCellHeight c)) R hne hv
  rw [← hg] at hx0 hx1 hX hy0 hy1 hY htot
  refine ⟨hm', ispdRegions_main c margin, mem_clippedRows _ margin, hne, hv,
    hp.imp (fun h => (disj_iff_intersects _ _).mp h), ?_, htot, ?_⟩
  · intro r hr
    obtain ⟨a1, a2, a3, a4⟩ := hin r hr
    simp only [InsideLimits, headD_of_head? _ _ hx0, getLastD_of_getLast? _ _ hx1, headD_of_head? _ _ hy0,
      getLastD_of_getLast? _ _ hy1]
    exact ⟨a1, a2, a3, a4⟩
  · intro i j hi hj
    have hi' : i + 1 < g.limX.length := by simp only [DGrid.nbX] at hi; omega
    have hj' : j + 1 < g.limY.length := by simp only [DGrid.nbY] at hj; omega
    have e1 : g.binCapacity i j = (R.map fun r => overlap r (g.region i j)).sum := by
      rw [hg, ofRegions_binCapacity _ R i j (by rw [← hg]; exact hi) (by rw [← hg]; exact hj), ← hg]
      exact binCap_eq_overlap g.limX g.limY R hX hY hv i j hi' hj'
    refine ⟨e1, ?_⟩
    rw [e1]
    exact sum_overlap_eq_covered R hp _ (regionOf_valid g.limX g.limY hX hY i j hi' hj')

/-- **Every schedule of a public pass preserves the allocation invariant.**  `passCalls p v choices pass` is the
list of private redistribution calls and level changes that `improve()` / `refine()` / `run()` /
`runCoarsening()` / `runRefinement()` make when started in view `v` with integer parameters `p` (and, for the
first loop of `runCoarsening`, float decisions `choices`): which bin groups are visited, in which order —
line / square / diagonal windows with the sizes, strides and overlaps of the parameters, neighbour pairs after
a refinement.  Whatever fills the float-dependent holes of the calls (`holes`: sort order and split of every
`rebisect`, assignment vector of every `reoptimize`, assignments of every transport row/column), after any
history `ops`, the state after the pass satisfies `AllocInv` — a direct corollary of `alloc_inv`, which
holds for every operation list.  Moreover the view after the pass is the one the schedule alone determines
(holes do not influence the control flow). -/
theorem schedule_ops_preserve_alloc (g : DGrid) (demand : List Int) (hx : 1 ≤ g.nbX) (hy : 1 ≤ g.nbY)
    (ops : List Op) (p : LegParams) (pass : Pass) (choices : List (Bool × Bool)) (holes : Nat → Hole) :
    let s := (HState.init g demand).run ops
    let s' := s.run (fill (passCalls p s.view choices pass) holes)
    AllocInv s' ∧ s'.view = s.view.run (passCalls p s.view choices pass) := by
  intro s s'
  refine ⟨?_, run_fill_view _ s holes⟩
  show AllocInv (((HState.init g demand).run ops).run _)
  rw [← run_append]
  exact alloc_inv g demand hx hy _

/-- The bin groups of the schedules are well-formed (`Call.WF`): every `reoptimize` of `improve()` — square,
line and diagonal windows, clipped at the border — and of `improveSquareNeighbours` names pairwise distinct
bins of the current `nbX × nbY` view, and every `rebisect` of `improveX/YNeighbours` two different bins of the
view.  So the admissibility test of the skeleton (`redistOk`: distinct bins inside the view) never fails
because of the schedule, for any parameters (accepted by the parameter check or not). -/
theorem schedule_calls_wellformed (p : LegParams) (v : View) (sameX sameY : Bool) :
    (∀ c ∈ Sched.improve p v, c.WF v.nbX v.nbY) ∧
    (∀ c ∈ Sched.improveXNeighbours v sameX, c.WF v.nbX v.nbY) ∧
    (∀ c ∈ Sched.improveYNeighbours v sameY, c.WF v.nbX v.nbY) ∧
    (∀ c ∈ Sched.improveSquareNeighbours v sameX sameY, c.WF v.nbX v.nbY) :=
  ⟨improve_wf p v, improveXNeighbours_wf v sameX, improveYNeighbours_wf v sameY,
   improveSquareNeighbours_wf v sameX sameY⟩

/-! ### non-vacuity / sanity -/

/-- a circuit of the domain of `circuit_grid_capacity_is_free_area`: two abutting rows of height 4, an
obstruction cutting the lower one; margin 1 (`sideMargin` 0.25 = 1·2⁻², cell height 4), bin size 8 -/
def demoCircuit : Circuit :=
  ⟨[⟨2, 4, 0, 0, .N, false, true, .ANY⟩, ⟨3, 4, 8, 0, .N, true, true, .ANY⟩], [],
   [⟨⟨0, 20, 0, 4⟩, .N⟩, ⟨⟨0, 20, 4, 8⟩, .FS⟩]⟩

example : RowsDom demoCircuit := by decide
example : ispdRegions demoCircuit (floatMulTrunc 1 (-2) (minCellHeight demoCircuit)) =
    [⟨1, 7, 0, 4⟩, ⟨12, 19, 0, 4⟩, ⟨1, 19, 4, 8⟩] := by decide
example : DGrid.fromIspdCircuit demoCircuit 2 0 1 (-2) = ⟨[1, 10, 19], [0, 8], [[60], [64]]⟩ := by decide
example : coveredArea [⟨1, 7, 0, 4⟩, ⟨12, 19, 0, 4⟩, ⟨1, 19, 4, 8⟩] ⟨10, 19, 0, 8⟩ = 64 := by decide

/-- the schedule of `improve()` on a 3 × 2 view: lines of 2 with overlap 1, one step, no square/diagonal pass -/
example : Sched.improveStep ⟨1, 2, 1, 1, 1, 1, 1, false⟩ 3 2 =
    [.reoptimize [(0, 0), (1, 0)], .reoptimize [(0, 1), (1, 1)], .reoptimize [(2, 0)], .reoptimize [(2, 1)],
     .reoptimize [(0, 0), (0, 1)], .reoptimize [(1, 0), (1, 1)], .reoptimize [(2, 0), (2, 1)],
     .reoptimize [(1, 0), (2, 0)], .reoptimize [(1, 1), (2, 1)],
     .reoptimize [(0, 1)], .reoptimize [(1, 1)], .reoptimize [(2, 1)]] := by decide

/-- hypotheses of `capacity_conserved` are satisfiable and the conclusion is the expected number -/
example : ((capacities [0, 5, 10] [0, 4] [⟨0, 10, 0, 2⟩, ⟨2, 7, 2, 4⟩]).map List.sum).sum = 30 := by decide

example : 1 ≤ (DGrid.ofRegions 4 [⟨0, 10, 0, 2⟩, ⟨2, 7, 2, 4⟩]).nbX ∧
    1 ≤ (DGrid.ofRegions 4 [⟨0, 10, 0, 2⟩, ⟨2, 7, 2, 4⟩]).nbY := by decide

/-- a concrete run: two refinements and a rebisect that really moves a cell -/
example :
    ((HState.init (DGrid.ofRegions 4 [⟨0, 10, 0, 2⟩, ⟨2, 7, 2, 4⟩]) [3, 0, 2]).run
      [.refineX, .rebisect 0 0 1 0 [2, 0] 1]).bins = [[[2]], [[0]]] := by decide

/-- an inadmissible skeleton argument (cell 2 dropped) leaves the state alone -/
example :
    ((HState.init (DGrid.ofRegions 4 [⟨0, 10, 0, 2⟩, ⟨2, 7, 2, 4⟩]) [3, 0, 2]).run
      [.refineX, .rebisect 0 0 1 0 [0] 1]).bins = [[[0, 2]], [[]]] := by decide

/-- The shared geometry layer under the density-grid model is *translated from the C++ source*: the definitions
of `Gen/GeomFns.lean`, regenerated on every run from the clang AST of the bodies of `Rectangle(int,int,int,int)`,
`Rectangle::width / height / area / intersects / intersection`, `isTurn`, `Circuit::isFixed / isObstruction /
placedWidth / placedHeight / placement / area` and of the loops of `Circuit::rowHeight()` and
`Circuit::computePlacementArea()`, are equal to the hand-written `Rect.*` / `Cell.*` / `Circuit.rowHeight` /
`Circuit.placementArea` that bin capacities (`intersects`, `intersection`, `area`), `DGrid.ofCircuit` and the cell
demands are written in — `computePlacementArea` under the decidable hypothesis that the row coordinates are C++
`int`s (its INT_MAX / INT_MIN sentinels; `GeomTie.RowsInInt`, non-vacuity example in `Proofs/GeomTie.lean`).  A
semantic change of one of these bodies breaks this theorem. -/
theorem geometry_layer_translated :
    Gen.Geom.Rectangle_ctor = Rect.mk ∧
    Gen.Geom.Rectangle_width = Rect.width ∧
    Gen.Geom.Rectangle_height = Rect.height ∧
    Gen.Geom.Rectangle_area = Rect.area ∧
    Gen.Geom.Rectangle_intersects = Rect.intersects ∧
    Gen.Geom.Rectangle_intersection = Rect.intersection ∧
    Gen.Geom.isTurn = Orient.isTurn ∧
    Gen.Geom.Circuit_isFixed = Cell.fixed ∧
    Gen.Geom.Circuit_isObstruction = Cell.obstruction ∧
    Gen.Geom.Circuit_placedWidth = Cell.placedWidth ∧
    Gen.Geom.Circuit_placedHeight = Cell.placedHeight ∧
    Gen.Geom.Circuit_placement = Cell.placement ∧
    (∀ cl : Cell, Gen.Geom.Circuit_area cl = cl.w * cl.h) ∧
    Gen.Geom.Circuit_rowHeight = Circuit.rowHeight ∧
    (∀ c : Circuit, GeomTie.RowsInInt c → Gen.Geom.Circuit_computePlacementArea c = c.placementArea) :=
  ⟨GeomTie.gen_Rectangle_ctor_eq_model,
   GeomTie.gen_Rectangle_width_eq_model,
   GeomTie.gen_Rectangle_height_eq_model,
   GeomTie.gen_Rectangle_area_eq_model,
   GeomTie.gen_Rectangle_intersects_eq_model,
   GeomTie.gen_Rectangle_intersection_eq_model,
   GeomTie.gen_isTurn_eq_model,
   GeomTie.gen_Circuit_isFixed_eq_model,
   GeomTie.gen_Circuit_isObstruction_eq_model,
   GeomTie.gen_Circuit_placedWidth_eq_model,
   GeomTie.gen_Circuit_placedHeight_eq_model,
   GeomTie.gen_Circuit_placement_eq_model,
   (fun _ => rfl),
   GeomTie.gen_Circuit_rowHeight_eq_model,
   GeomTie.gen_Circuit_computePlacementArea_eq_model⟩

end ColoVerif.C16
