import ColoVerif.Proofs.ExportFrame
import ColoVerif.Gen.WriteSets
/-
C03 — placement only moves movable cells; everything else is untouched.

`Export.Frame orientFree c c'` (Model/Export.lean) says: `c'` has the same nets (pins, offsets,
weights), the same rows, the same number of cells, and every cell of `c'` has the width, height,
fixed flag, obstruction flag and polarity of the corresponding cell of `c`; a fixed cell is
identical; when `orientFree = false` every orientation is unchanged as well.  So only
`x`, `y` (and `orient` when `orientFree`) of non-fixed cells may differ.

The export functions are the definitions the driver `drv_C03` executes against the real
`GlobalPlacer::exportPlacement`, `Legalizer::exportPlacement`, `DetailedPlacement::exportPlacement`
(harness/h_C03.cpp); `Gen.WriteSets` is regenerated from /repo/src on every run.
-/
namespace ColoVerif.C03
open ColoVerif.Export ColoVerif.Gen.WriteSets

/-- `GlobalPlacer::exportPlacement(circuit, xplace, yplace)`, for ANY vectors: only x / y of
non-fixed cells can change (orientations included in the frame). -/
theorem export_frame_global (c : Circuit) (xs ys : List Rat) : Frame false c (exportGlobal c xs ys) :=
  exportGlobal_frame c xs ys

/-- `Legalizer::exportPlacement`, for ANY result vectors and any `nbCells()`, whether it returns
or throws half-way ("Circuit does not match legalizer for export"): only x / y / orientation of
non-fixed cells can change. -/
theorem export_frame_legal (c : Circuit) (L : LegVectors) : Frame true c (exportLegal c L).2 :=
  exportLegal_frame c L

/-- `DetailedPlacement::exportPlacement`, for ANY `cellIndex_` (negative entries, repeated or
out-of-range cells) and position/orientation vectors. -/
theorem export_frame_detailed (c : Circuit) (D : DetVectors) : Frame true c (exportDetailed c D) :=
  exportDetailed_frame c D

/-- Global placement leaves every orientation (fixed or not) unchanged. -/
theorem global_keeps_orientation (c : Circuit) (xs ys : List Rat) (i : Nat) :
    ((exportGlobal c xs ys).cell i).orient = (c.cell i).orient :=
  ((exportGlobal_frame c xs ys).2.2.2 i).2.2.2.2.2.2 rfl

/-- Any stage or composition of stages — any sequence of exports (one per callback, one at the
end), cut short anywhere by an exception — respects the frame, whatever the outcome. -/
theorem stages_frame (ws : List Write) (o : Outcome) (c : Circuit) : Frame true c (runStage ws o c).2 :=
  runWrites_frame ws c

/-- … and a sequence of global-placement exports keeps all orientations. -/
theorem global_stage_frame (ws : List Write) (h : ∀ w ∈ ws, w.isGlobal = true) (o : Outcome) (c : Circuit) :
    Frame false c (runStage ws o c).2 :=
  runWrites_frame_global ws h c

/-- `GlobalPlacer::exportPlacement(circuit)` — the final export of global placement: the blend
(binary32 arithmetic, `exportBlending` of any value) of ANY lower-bound / upper-bound vectors. -/
theorem export_frame_global_blend (c : Circuit) (G : GlobalVectors) : Frame false c (exportGlobalBlend c G) :=
  exportGlobalBlend_frame c G

/-- `GlobalPlacer::place` as a whole, with or without a callback: any number of placements exposed
through `GlobalPlacer::callback` (each one an export when a callback is installed, nothing
otherwise), then the blended export — and any prefix of that sequence, which is what an exception
(thrown by the callback at any index, or by the placer) leaves behind.  Positions of movable cells
only; every orientation is kept. -/
theorem global_place_frame (hasCallback : Bool) (exposed : List (List Rat × List Rat)) (G : GlobalVectors) (c : Circuit) :
    Frame false c (placeGlobalBody hasCallback exposed G c) ∧
    ∀ k, Frame false c (runWrites ((placeGlobalWrites hasCallback exposed G).take k) c) := by
  refine ⟨?_, fun k => ?_⟩
  · rw [placeGlobalBody_eq_writes]
    exact runWrites_frame_global _ (placeGlobalWrites_isGlobal _ _ _) c
  · exact runWrites_frame_global _ (fun w hw => placeGlobalWrites_isGlobal _ _ _ w (List.mem_of_mem_take hw)) c

/-- `DetailedPlacer::place` as a whole (legalizer export, one export per callback, final export) and
every prefix of it. -/
theorem detailed_place_frame (hasCallback : Bool) (L : LegVectors) (exposed : List DetVectors) (D : DetVectors) (c : Circuit) :
    Frame true c (placeDetailedBody hasCallback L exposed D c) ∧
    ∀ k, Frame true c (runWrites ((placeDetailedWrites hasCallback L exposed D).take k) c) := by
  refine ⟨?_, fun k => runWrites_frame _ c⟩
  rw [placeDetailedBody_eq_writes]
  exact runWrites_frame _ c

/-- The wrappers `Circuit::placeGlobal / legalize / placeDetailed` (src/coloquinte.cpp): the
`InUseGuard` holds `isInUse_` set for the duration of the body and undoes it when the call ends, by
return or by exception.  For both guard shapes the translator accepts (set/clear, `restores = false`;
save/set/restore, `restores = true`), whatever the body (any sequence of exports, any outcome): the
outcome is the body's, the circuit satisfies the frame, and `isInUse_` after the call equals its
value before the call — always for the restore shape, and for the set/clear shape whenever the call was
entered with the flag clear (otherwise that shape leaves it clear).  C10 `busy_released` is the same fact
on the translated API. -/
theorem guarded_call_frame (restores : Bool) (ws : List Write) (o : Outcome) (s : Guarded) :
    (withInUseGuard restores (runStage ws o) s).1 = o ∧
    Frame true s.c (withInUseGuard restores (runStage ws o) s).2.c ∧
    (s.inUse = false → (withInUseGuard restores (runStage ws o) s).2.inUse = s.inUse) ∧
    (restores = true → (withInUseGuard restores (runStage ws o) s).2.inUse = s.inUse) ∧
    (restores = false → (withInUseGuard restores (runStage ws o) s).2.inUse = false) := by
  refine ⟨rfl, runWrites_frame ws s.c, fun h => ?_, fun h => ?_, fun h => ?_⟩
  · cases restores
    · exact h.symm
    · rfl
  · subst h; rfl
  · subst h; rfl

/-- non-vacuity: a nested call (entered with the flag set) under the restore shape keeps the flag, under
the set/clear shape it would drop it; a top-level call ends with the flag clear under both. -/
example :
    (withInUseGuard true (runStage [] .threw) ⟨true, default⟩).2.inUse = true ∧
    (withInUseGuard false (runStage [] .threw) ⟨true, default⟩).2.inUse = false ∧
    (withInUseGuard true (runStage [] .returned) ⟨false, default⟩).2.inUse = false ∧
    (withInUseGuard false (runStage [] .returned) ⟨false, default⟩).2.inUse = false := by
  decide

/-- non-vacuity of the callback path: with a callback the exposed placement is exported (the movable
cell moves to round(5 − 0.5·2), round(6 − 0.5·4) before the final export overwrites it), without
one it is not; `blendPlacement` with weight 1/2 of 3 and 4 is 3.5. -/
example : (globalCallback true ⟨[⟨2, 4, 0, 0, .N, false, false, .ANY⟩], [], []⟩ [5] [6]).cells.map (fun cl => (cl.x, cl.y)) = [(4, 4)] ∧
    (globalCallback false ⟨[⟨2, 4, 0, 0, .N, false, false, .ANY⟩], [], []⟩ [5] [6]).cells.map (fun cl => (cl.x, cl.y)) = [(0, 0)] := by
  decide +kernel

example : blendPlacement (1 / 2) [3] [4] = [7 / 2] ∧ blendPlacement 0 [3] [4] = [3] ∧ blendPlacement 1 [3] [4] = [4] ∧
    blendEntry (1 / 10) 1 3 = 6 / 5 + 1 / 20971520 := by
  decide +kernel

/-- non-vacuity: the hypothesis of `global_stage_frame` is satisfiable, and the frame is not the
identity — a movable cell really moves (and turns) while the fixed cell stays. -/
example : ∀ w ∈ [Write.global [5, 5] [6, 6]], w.isGlobal = true := by simp [Write.isGlobal]

example :
    (runWrites [Write.legal ⟨1, [4], [5], [.FS], [true]⟩]
        ⟨[⟨2, 4, 7, 7, .E, true, true, .ANY⟩, ⟨2, 4, 0, 0, .N, false, false, .ANY⟩], [], []⟩).cells.map
      (fun cl => (cl.x, cl.y, cl.orient)) = [(7, 7, .E), (4, 5, .FS)] := by decide

def _root_.ColoVerif.Gen.WriteSets.Target.allowed : Target → Bool
  | .cellX_ | .cellY_ | .cellOrientation_ | .hasCellSizeUpdate_ | .hasNetUpdate_ | .isInUse_ => true
  | _ => false

def _root_.ColoVerif.Gen.WriteSets.Target.isInUse : Target → Bool
  | .isInUse_ => true
  | _ => false

def _root_.ColoVerif.Gen.WriteSets.Kind.isScoped : Kind → Bool
  | .scoped | .scopedRestore => true
  | _ => false

/-- the guard shape found at a site: does its destructor put the saved value back? -/
def _root_.ColoVerif.Gen.WriteSets.Kind.restores : Kind → Bool
  | .scopedRestore => true
  | _ => false

def _root_.ColoVerif.Gen.WriteSets.Target.isCellVector : Target → Bool
  | .cellX_ | .cellY_ | .cellOrientation_ => true
  | _ => false

def _root_.ColoVerif.Gen.WriteSets.Target.isOrientation : Target → Bool
  | .cellOrientation_ => true
  | _ => false

def _root_.ColoVerif.Gen.WriteSets.Guard.protects : Guard → Bool
  | .skipContinue | .ifNotFixed => true
  | .none => false

def _root_.ColoVerif.Gen.WriteSets.Kind.isElement : Kind → Bool
  | .element => true
  | _ => false

/-- Over the table regenerated from the source — every assignment to / mutation of a `Circuit` member
and every non-const `Circuit` method call inside the *analysed functions*: all of src/place_global and
src/place_detailed plus every overload of the placement entry points `Circuit::place`, `placeGlobal`,
`legalize`, `placeDetailed` (src/coloquinte.hpp, src/coloquinte.cpp):
* every write targets one of `cellX_, cellY_, cellOrientation_, hasCellSizeUpdate_, hasNetUpdate_, isInUse_`;
* nothing on the global-placement path (src/place_global and the overloads of `Circuit::placeGlobal`)
  targets `cellOrientation_`, and that path hands its circuit only to functions on the same path;
* every write to a cell vector is an element write inside a loop that skips fixed cells
  (`if (fixed(i)) continue;` before it, or inside `if (!fixed(i))`), indexed by the tested variable;
* a non-const `Circuit &` (or `*this`) is only ever handed to functions that are themselves analysed;
* the table is not empty (it contains cell-vector writes);
* `isInUse_` is written only through a scoped flag guard (an automatic `InUseGuard` object of the
  function body: set by its constructor, cleared — or put back to the saved value — by its destructor on
  return and on exception; the translator checks the class has exactly one of these two shapes and
  rejects anything else), and nothing else is written that way;
* the three wrappers (and whatever overloads exist) were found and analysed (the translator fails otherwise);
* nowhere in /repo/src is there a `const_cast`, `reinterpret_cast`, C-style pointer/reference cast or a
  `mutable` field of `Circuit`, so the const `Circuit` methods the analysed functions reach
  (`reachedConstMethods`) and every function given a `const Circuit &` cannot write a member.
Together: on any path of a placement call inside the library, every write to a `Circuit` member is a
row of `writeSites`.  (The user's callback is user code.) -/
theorem writes_table_closed :
    (∀ s ∈ writeSites, s.target.allowed = true) ∧
    (∀ s ∈ writeSites, s.inPlaceGlobal = true → s.target.isOrientation = false) ∧
    (∀ h ∈ handOvers, h.inPlaceGlobal = true → h.calleeInPlaceGlobal = true) ∧
    (∀ s ∈ writeSites, s.target.isCellVector = true → s.guard.protects = true ∧ s.kind.isElement = true) ∧
    (∀ h ∈ handOvers, h.calleeAnalysed = true) ∧
    (writeSites.any (fun s => s.target.isCellVector)) = true ∧
    (∀ s ∈ writeSites, s.target.isInUse = true ↔ s.kind.isScoped = true) ∧
    (writeSites.any (fun s => s.target.isInUse)) = true ∧
    3 ≤ entryPoints.length ∧
    constEscapes.length = 0 := by
  decide

/-- `guarded_call_frame` for the guard shape actually found in the tree, site by site: at every `isInUse_`
site of the regenerated table, a call entered with the flag clear — or any call, when the site's guard is
of the restore shape — leaves `isInUse_` as it found it, and the frame holds. -/
theorem guarded_call_frame_on_tree (site : WriteSite) (_ : site ∈ writeSites) (_ : site.target.isInUse = true)
    (ws : List Write) (o : Outcome) (s : Guarded) (h : s.inUse = false ∨ site.kind.restores = true) :
    (withInUseGuard site.kind.restores (runStage ws o) s).2.inUse = s.inUse ∧
    Frame true s.c (withInUseGuard site.kind.restores (runStage ws o) s).2.c := by
  obtain ⟨_, hf, h1, h2, _⟩ := guarded_call_frame site.kind.restores ws o s
  exact ⟨h.elim h1 h2, hf⟩

/-- non-vacuity: the table has such a site -/
example : ∃ site ∈ writeSites, site.target.isInUse = true := by decide

end ColoVerif.C03
