import ColoVerif.Proofs.ExportFrame
import ColoVerif.Gen.WriteSets
/-
C03 — placement only moves movable cells; everything else is untouched.

`Export.Frame orientFree c c'` (Model/Export.lean) says: `c'` has the same nets (pins, offsets,
weights), the same rows, the same number of cells, and every cell of `c'` has the width, height,
fixed flag, obstruction flag and polarity of the corresponding cell of `c`; a fixed cell is
identical; when `orientFree = false` every orientation is unchanged as well.  So only
`x`, `y` (and `orient` when `orientFree`) of non-fixed cells may differ.

The export functions are the definitions the driver `drv_C03` executes against the real
`GlobalPlacer::exportPlacement`, `Legalizer::exportPlacement`, `DetailedPlacement::exportPlacement`
(harness/h_C03.cpp); `Gen.WriteSets` is regenerated from /repo/src on every run.
-/
namespace ColoVerif.C03
open ColoVerif.Export ColoVerif.Gen.WriteSets

/-- `GlobalPlacer::exportPlacement(circuit, xplace, yplace)`, for ANY vectors: only x / y of
non-fixed cells can change (orientations included in the frame). -/
theorem export_frame_global (c : Circuit) (xs ys : List Rat) : Frame false c (exportGlobal c xs ys) :=
  exportGlobal_frame c xs ys

/-- `Legalizer::exportPlacement`, for ANY result vectors and any `nbCells()`, whether it returns
or throws half-way ("Circuit does not match legalizer for export"): only x / y / orientation of
non-fixed cells can change. -/
theorem export_frame_legal (c : Circuit) (L : LegVectors) : Frame true c (exportLegal c L).2 :=
  exportLegal_frame c L

/-- `DetailedPlacement::exportPlacement`, for ANY `cellIndex_` (negative entries, repeated or
out-of-range cells) and position/orientation vectors. -/
theorem export_frame_detailed (c : Circuit) (D : DetVectors) : Frame true c (exportDetailed c D) :=
  exportDetailed_frame c D

/-- Global placement leaves every orientation (fixed or not) unchanged. -/
theorem global_keeps_orientation (c : Circuit) (xs ys : List Rat) (i : Nat) :
    ((exportGlobal c xs ys).cell i).orient = (c.cell i).orient :=
  ((exportGlobal_frame c xs ys).2.2.2 i).2.2.2.2.2.2 rfl

/-- Any stage or composition of stages — any sequence of exports (one per callback, one at the
end), cut short anywhere by an exception — respects the frame, whatever the outcome. -/
theorem stages_frame (ws : List Write) (o : Outcome) (c : Circuit) : Frame true c (runStage ws o c).2 :=
  runWrites_frame ws c

/-- … and a sequence of global-placement exports keeps all orientations. -/
theorem global_stage_frame (ws : List Write) (h : ∀ w ∈ ws, w.isGlobal = true) (o : Outcome) (c : Circuit) :
    Frame false c (runStage ws o c).2 :=
  runWrites_frame_global ws h c

/-- non-vacuity: the hypothesis of `global_stage_frame` is satisfiable, and the frame is not the
identity — a movable cell really moves (and turns) while the fixed cell stays. -/
example : ∀ w ∈ [Write.global [5, 5] [6, 6]], w.isGlobal = true := by simp [Write.isGlobal]

example :
    (runWrites [Write.legal ⟨1, [4], [5], [.FS], [true]⟩]
        ⟨[⟨2, 4, 7, 7, .E, true, true, .ANY⟩, ⟨2, 4, 0, 0, .N, false, false, .ANY⟩], [], []⟩).cells.map
      (fun cl => (cl.x, cl.y, cl.orient)) = [(7, 7, .E), (4, 5, .FS)] := by decide

def _root_.ColoVerif.Gen.WriteSets.Target.allowed : Target → Bool
  | .cellX_ | .cellY_ | .cellOrientation_ | .hasCellSizeUpdate_ | .hasNetUpdate_ => true
  | _ => false

def _root_.ColoVerif.Gen.WriteSets.Target.isCellVector : Target → Bool
  | .cellX_ | .cellY_ | .cellOrientation_ => true
  | _ => false

def _root_.ColoVerif.Gen.WriteSets.Target.isOrientation : Target → Bool
  | .cellOrientation_ => true
  | _ => false

def _root_.ColoVerif.Gen.WriteSets.Guard.protects : Guard → Bool
  | .skipContinue | .ifNotFixed => true
  | .none => false

def _root_.ColoVerif.Gen.WriteSets.Kind.isElement : Kind → Bool
  | .element => true
  | _ => false

/-- Over the table regenerated from the source (every assignment to / mutation of a `Circuit`
member and every non-const `Circuit` method call inside src/place_global and src/place_detailed):
* every write targets one of `cellX_, cellY_, cellOrientation_, hasCellSizeUpdate_, hasNetUpdate_`;
* nothing in src/place_global targets `cellOrientation_`, and place_global hands its circuit only to
  place_global functions;
* every write to a cell vector is an element write inside a loop that skips fixed cells
  (`if (fixed(i)) continue;` before it, or inside `if (!fixed(i))`), indexed by the tested variable;
* a non-const `Circuit &` is only ever handed to functions that are themselves in the table's scope;
* the table is not empty (it contains cell-vector writes). -/
theorem writes_table_closed :
    (∀ s ∈ writeSites, s.target.allowed = true) ∧
    (∀ s ∈ writeSites, s.inPlaceGlobal = true → s.target.isOrientation = false) ∧
    (∀ h ∈ handOvers, h.inPlaceGlobal = true → h.calleeInPlaceGlobal = true) ∧
    (∀ s ∈ writeSites, s.target.isCellVector = true → s.guard.protects = true ∧ s.kind.isElement = true) ∧
    (∀ h ∈ handOvers, h.calleeAnalysed = true) ∧
    (writeSites.any (fun s => s.target.isCellVector)) = true := by
  decide

end ColoVerif.C03
