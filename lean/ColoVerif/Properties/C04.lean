import ColoVerif.Model.Circuit
import ColoVerif.Gen.OrientTables
import ColoVerif.Model.OrientRule
import ColoVerif.Model.LegacyOrientRule
import ColoVerif.Properties.C01
import ColoVerif.Proofs.OrientLegalize
import ColoVerif.Proofs.OrientDetailed
/-
C04 — row polarity and orientation constraints: the table-level theorems, and (second half of the
file) the two algorithm clauses `legalize_orient` / `detailed_orient` over the executable models of
legalization (`Model/Legalize.lean`, tied to the C++ by the C01 stream) and of detailed placement
(`Model/DetPlace.lean`, tied by the C02 primitives stream and history replay).  Helper lemmas:
`Proofs/OrientLegalize.lean`, `Proofs/OrientDetailed.lean`.

`ColoVerif.Gen.*` is regenerated from /repo's C++ on every run (tools/gen/OrientTables.py),
so every theorem below is re-checked against what the source says now: a changed table entry
breaks `gen_tables_eq_model` (and usually one of the structural facts as well).

Everything is a finite statement over `Orient` (10 values) × `Polarity` (5 values) and is
closed by kernel evaluation (`decide`).
-/
namespace ColoVerif.C04
open ColoVerif

/-- `o` is one of the eight real orientations. -/
def IsEight (o : Orient) : Prop := o ∈ Orient.eight

instance (o : Orient) : Decidable (IsEight o) := by unfold IsEight; infer_instance

/-- the orientations a *row* may have in the placement domain (C01): unturned -/
def rowOrients : List Orient := [.N, .S, .FN, .FS]

/-! ### tie between the generated tables and the hand-written model -/

/-- The numeric values of the enumerators are the ones the shared `Orient.code` /
`Polarity.code` (used by every harness stream) assume. -/
theorem gen_enum_codes :
    (∀ p ∈ Gen.orientCodes, p.1.code = p.2) ∧ (∀ p ∈ Gen.polarityCodes, p.1.code = p.2) ∧
    Gen.orientCodes.map (·.1) = Orient.all ∧ Gen.polarityCodes.map (·.1) = Polarity.all := by
  decide

/-- The definitions generated from the C++ equal the hand-written shared model
(`Orient.isTurn`, `Orient.opposite`, `cellOrientationInRow`, `Circuit.xFlipped/yFlipped`)
on their whole (finite) domains. -/
theorem gen_tables_eq_model :
    (∀ o : Orient, Gen.isTurn o = o.isTurn) ∧
    (∀ o : Orient, Gen.oppositeRowOrientation o = o.opposite) ∧
    (∀ (p : Polarity) (o : Orient), Gen.cellOrientationInRow p o = cellOrientationInRow p o) ∧
    (∀ o : Orient, Gen.xFlipped o = Circuit.xFlipped o) ∧
    (∀ o : Orient, Gen.yFlipped o = Circuit.yFlipped o) := by
  refine ⟨?_, ?_, ?_, ?_, ?_⟩
  · intro o; cases o <;> rfl
  · intro o; cases o <;> rfl
  · intro p o; cases p <;> cases o <;> rfl
  · intro o; cases o <;> rfl
  · intro o; cases o <;> rfl

/-- The generated pin-offset / placed-size functions equal the shared `Circuit` model for every
cell and pin (all orientations, all integers). -/
theorem gen_pin_offsets_eq_model (cl : Cell) (p : Pin) :
    Gen.placedWidth cl.orient cl.w cl.h = cl.placedWidth ∧
    Gen.placedHeight cl.orient cl.w cl.h = cl.placedHeight ∧
    Gen.pinXOffset cl.orient cl.w cl.h p.xo p.yo = Circuit.pinXOffset cl p ∧
    Gen.pinYOffset cl.orient cl.w cl.h p.xo p.yo = Circuit.pinYOffset cl p := by
  cases cl with
  | mk w h x y orient fixed obstruction pol =>
    cases orient <;>
      simp [Gen.placedWidth, Gen.placedHeight, Gen.pinXOffset, Gen.pinYOffset, Gen.isTurn, Gen.xFlipped,
        Gen.yFlipped, Cell.placedWidth, Cell.placedHeight, Circuit.pinXOffset, Circuit.pinYOffset,
        Orient.isTurn, Circuit.xFlipped, Circuit.yFlipped]

/-- The `abort()` at the end of the C++ `cellOrientationInRow` is unreachable for enumerator
arguments (the generated partial function is defined everywhere). -/
theorem cellOrientationInRow_never_aborts :
    ∀ (p : Polarity) (o : Orient), (Gen.cellOrientationInRow? p o).isSome = true := by
  intro p o; cases p <;> cases o <;> rfl

/-! ### the property's table clauses -/

/-- For a declared polarity the table answers with one of the eight orientations or
`INVALID`, never the "keep" marker `UNKNOWN` (for a row orientation among the eight);
for `ANY` it answers `UNKNOWN` whatever the row. -/
theorem orientInRow_total :
    (∀ (p : Polarity) (o : Orient), p ≠ .ANY → IsEight o →
        IsEight (Gen.cellOrientationInRow p o) ∨ Gen.cellOrientationInRow p o = .INVALID) ∧
    (∀ (p : Polarity) (o : Orient), p ≠ .ANY → Gen.cellOrientationInRow p o ≠ .UNKNOWN ∨ o = .UNKNOWN) ∧
    (∀ o : Orient, Gen.cellOrientationInRow .ANY o = .UNKNOWN) := by
  refine ⟨?_, ?_, ?_⟩
  · intro p o; cases p <;> cases o <;> decide
  · intro p o; cases p <;> cases o <;> decide
  · intro o; cases o <;> rfl

/-- `oppositeRowOrientation` is an involution on the eight orientations, maps them to the
eight, has no fixed point among them, and sends `INVALID`/`UNKNOWN` to `INVALID`. -/
theorem opposite_involutive :
    (∀ o : Orient, IsEight o → Gen.oppositeRowOrientation (Gen.oppositeRowOrientation o) = o) ∧
    (∀ o : Orient, IsEight o → IsEight (Gen.oppositeRowOrientation o)) ∧
    (∀ o : Orient, IsEight o → Gen.oppositeRowOrientation o ≠ o) ∧
    (∀ o : Orient, ¬ IsEight o → Gen.oppositeRowOrientation o = .INVALID) := by
  refine ⟨?_, ?_, ?_, ?_⟩ <;> intro o <;> cases o <;> decide

/-! ### facts used by the legalizer / detailed-placement invariants (C01, C02) -/

/-- The prescribed orientation never changes the footprint class of the cell relative to the
row: it is turned exactly when the row is turned.  In particular, on the placement domain
(unturned rows N/S/FN/FS) a polarised cell is never turned, so its placed size is its
declared size whatever row it lands on. -/
theorem orientInRow_preserves_turn :
    ∀ (p : Polarity) (o : Orient), IsEight o → IsEight (Gen.cellOrientationInRow p o) →
      Gen.isTurn (Gen.cellOrientationInRow p o) = Gen.isTurn o := by
  intro p o; cases p <;> cases o <;> decide

/-- SAME and OPPOSITE cells can enter every row with a real orientation: they are never
`INVALID` (so only NW / SE cells have forbidden rows). -/
theorem same_opposite_never_invalid :
    ∀ o : Orient, IsEight o →
      IsEight (Gen.cellOrientationInRow .SAME o) ∧ IsEight (Gen.cellOrientationInRow .OPPOSITE o) := by
  intro o; cases o <;> decide

/-- NW and SE partition the eight row orientations: each row admits exactly one of the two,
and an admitted cell takes the row's own orientation. -/
theorem nw_se_partition :
    ∀ o : Orient, IsEight o →
      ((Gen.cellOrientationInRow .NW o = o ∧ Gen.cellOrientationInRow .SE o = .INVALID) ∨
       (Gen.cellOrientationInRow .NW o = .INVALID ∧ Gen.cellOrientationInRow .SE o = o)) := by
  intro o; cases o <;> decide

/-- On the placement domain: which unturned rows admit which polarity (the exact "forbidden
row" relation the fixed detailed placement must respect). -/
theorem forbidden_rows_unturned :
    (rowOrients.filter fun o => Gen.cellOrientationInRow .NW o == .INVALID) = [.S, .FS] ∧
    (rowOrients.filter fun o => Gen.cellOrientationInRow .SE o == .INVALID) = [.N, .FN] := by
  decide

/-- The prescribed orientation depends only on (polarity, row orientation): re-placing a cell
on a row of the same orientation gives back the same orientation (idempotence used by C11 and
by the "orientation-preserving move" classifier of C05), and a SAME cell re-oriented for the
row orientation it already has is unchanged. -/
theorem orientInRow_idempotent :
    ∀ (p : Polarity) (o : Orient), IsEight o → IsEight (Gen.cellOrientationInRow p o) → p ≠ .OPPOSITE →
      Gen.cellOrientationInRow p (Gen.cellOrientationInRow p o) = Gen.cellOrientationInRow p o := by
  intro p o; cases p <;> cases o <;> decide

/-- OPPOSITE twice is the row orientation again. -/
theorem opposite_twice_same :
    ∀ o : Orient, IsEight o →
      Gen.cellOrientationInRow .OPPOSITE (Gen.cellOrientationInRow .OPPOSITE o) = Gen.cellOrientationInRow .SAME o := by
  intro o; cases o <;> decide

/-- `oppositeRowOrientation` mirrors about the x axis: it toggles the y-flip of pin offsets and
keeps the x-flip and the turn (so a cell placed OPPOSITE in a flipped row has its pins where a
SAME cell has them in an unflipped row). -/
theorem opposite_is_x_axis_mirror :
    ∀ o : Orient, IsEight o →
      Gen.isTurn (Gen.oppositeRowOrientation o) = Gen.isTurn o ∧
      Gen.yFlipped (Gen.oppositeRowOrientation o) = (!Gen.yFlipped o) ∧
      Gen.xFlipped (Gen.oppositeRowOrientation o) = Gen.xFlipped o := by
  intro o; cases o <;> decide

/-- The eight orientations are exactly the eight combinations of (turn, xFlipped, yFlipped):
the triple determines the orientation. -/
theorem orientation_determined_by_flags :
    ∀ a b : Orient, IsEight a → IsEight b →
      Gen.isTurn a = Gen.isTurn b → Gen.xFlipped a = Gen.xFlipped b → Gen.yFlipped a = Gen.yFlipped b → a = b := by
  intro a b; cases a <;> cases b <;> decide

/-! ### the orientation rule of the legalizers and of detailed placement -/

open OrientRule in
/-- On an allowed row (any of the eight row orientations) a cell with a declared polarity
receives exactly the orientation its polarity prescribes, which is one of the eight (never
`INVALID`, never `UNKNOWN`); a cell without polarity keeps the orientation it had. -/
theorem assigned_orientation_correct :
    ∀ (pol : Polarity) (row cur : Orient), IsEight row → rowAllowed pol row = true →
      (pol ≠ .ANY → assignedOrientation pol row cur = Gen.cellOrientationInRow pol row ∧
                     IsEight (assignedOrientation pol row cur)) ∧
      (pol = .ANY → assignedOrientation pol row cur = cur) := by
  intro pol row cur; cases pol <;> cases row <;> cases cur <;> decide

open OrientRule in
/-- The guard is exact: for a cell that currently has a real orientation, the orientation rule
produces `INVALID` if and only if the row is not allowed — refusing precisely the rows with
`cellOrientationInRow = INVALID` is necessary and sufficient (this is the condition added by
`fix: c04-invalid-rows`). -/
theorem assigned_invalid_iff_not_allowed :
    ∀ (pol : Polarity) (row cur : Orient), IsEight row → IsEight cur →
      (assignedOrientation pol row cur = .INVALID ↔ rowAllowed pol row = false) := by
  intro pol row cur; cases pol <;> cases row <;> cases cur <;> decide

open OrientRule in
/-- Only NW / SE cells have forbidden rows; on the placement domain (rows N/S/FN/FS) every cell
has at least one allowed kind of row, and rows of alternating N/FS orientation admit NW on the N
rows and SE on the FS rows only. -/
theorem allowed_rows :
    (∀ row : Orient, IsEight row → rowAllowed .ANY row = true ∧ rowAllowed .SAME row = true ∧ rowAllowed .OPPOSITE row = true) ∧
    rowOrients.map (rowAllowed .NW) = [true, false, true, false] ∧
    rowOrients.map (rowAllowed .SE) = [false, true, false, true] := by
  refine ⟨?_, by decide, by decide⟩
  intro row; cases row <;> decide

open OrientRule in
/-- Pre-fix witness (F4): with the guard detailed placement used before `fix: c04-invalid-rows`
(every row accepted) an NW cell with orientation N moved to an FS row — the 2-row / 1-cell
circuit of corpus/C04 — ends with `CellOrientation::INVALID`; the fixed guard refuses that row. -/
theorem detailed_orient_fails_unfixed :
    legacyRowAllowed .NW .FS = true ∧ assignedOrientation .NW .FS .N = .INVALID ∧ rowAllowed .NW .FS = false := by
  decide

/-! ### the algorithms: legalization

Model `Legalize` (the definitions `drv_C01` executes; `tetrisPerSegmentOrientation = true`, i.e. the
tree with `fix: c04-tetris-row-orientation`).  The model's `cellOrientationInRow` is the generated
table (`gen_tables_eq_model`). -/

section LegalizeOrient
open Legalize

/-- `r` is the free row segment (`computeRows`: the rows minus the fixed obstructions) under the
bottom edge of `cl`: it starts at the cell's y and contains the cell's x-range -/
def UnderBottom (c : Circuit) (cl : Cell) (r : Row) : Prop :=
  r ∈ c.computeRows ∧ r.rect.minY = cl.y ∧ r.rect.minX ≤ cl.x ∧ cl.x + cl.placedWidth ≤ r.rect.maxX

/-- **C04, legalization clause (full).**  For every circuit of the C01 domain, every rounding of the
ordering key and all parameters: whenever legalization returns normally,

* every movable cell of the result that declares a polarity sits on the bottom edge of exactly one
  free row segment `r` (`UnderBottom`, unique); that segment is not forbidden for its polarity
  (`cellOrientationInRow pol r.orient ≠ INVALID`), the cell's orientation is not INVALID, and it is
  exactly `cellOrientationInRow pol r.orient` as soon as the row has an orientation (for a row whose
  orientation is the marker UNKNOWN a SAME cell is left as it was — that is what `getOrientation`
  does; rows N/S/FN/FS: `legalize_orient_oriented_rows`);
* every movable cell without polarity (ANY) has the orientation it had in the input (cell by cell,
  in the order of the circuit).

Proof (Proofs/OrientLegalize.lean): Abacus — `writeRows` gives a cell the orientation of the segment
that lists it, a cell is listed only in the `bestRow` of `placeCell`, which `evaluatePlacement`
accepted (INVALID refused), and `check()` certifies the cell is inside that segment; Tetris —
`attemptPlacement` only returns positions inside a segment with a valid orientation, and because
the segments are sorted by (minY, minX) and disjoint the `while` loop of `placeCell` stops at
exactly that segment; sub-segments of `remainingRows` have the orientation of the `computeRows`
segment they are cut from; export writes the status of the m-th movable cell to the m-th movable cell. -/
theorem legalize_orient (rnd : Rat → Rat) (p : Params) (c c' : Circuit) (hd : C01.Dom c)
    (h : legalizeWith rnd p c = .ok c') :
    (∀ cl ∈ c'.cells, cl.fixed = false → cl.pol ≠ Polarity.ANY →
      ∃ r, UnderBottom c' cl r ∧ (∀ r', UnderBottom c' cl r' → r' = r) ∧
        cellOrientationInRow cl.pol r.orient ≠ Orient.INVALID ∧ cl.orient ≠ Orient.INVALID ∧
        (r.orient ≠ Orient.UNKNOWN → cl.orient = cellOrientationInRow cl.pol r.orient)) ∧
    Pointwise (fun a b => a.fixed = false → a.pol = Polarity.ANY → b.orient = a.orient) c.cells c'.cells := by
  obtain ⟨hrows, hpw⟩ := legalizeWith_orient rnd p c c' hd h
  have hH : 0 < (Circuit.rowHeight c).getD 0 := hd.1
  have hRc := dom_rowsOK c hd
  constructor
  · intro cl hcl hfx hpol
    obtain ⟨a, _, hab⟩ := pointwise_mem_right hpw cl hcl
    have haf : a.fixed = false := by
      cases hf : a.fixed with
      | false => rfl
      | true =>
        have := hab.1 hf
        rw [this, hf] at hfx
        cases hfx
    obtain ⟨_, hp, hw, hwpos, r, hr, g1, g2, g3, ho, hni⟩ := hab.2 haf
    rw [← hp] at ho
    refine ⟨r, ⟨by rw [hrows]; exact hr, g1, g2, g3⟩, ?_, ?_, hni, ?_⟩
    · rintro r' ⟨m1, m2, m3, m4⟩
      rw [hrows] at m1
      exact seg_unique _ hH _ hRc r r' hr m1 cl.x cl.placedWidth cl.y (by rw [hw]; exact hwpos)
        ⟨g1, g2, g3⟩ ⟨m2, m3, m4⟩
    · intro hinv
      rw [hinv] at ho
      simp only [reduceCtorEq, if_false] at ho
      exact hni ho
    · intro hro
      rw [if_neg (DetPlace.table_known cl.pol r.orient hpol hro)] at ho
      exact ho
  · refine hpw.imp ?_
    intro a b hab hfx hany
    obtain ⟨_, _, _, _, r, _, _, _, _, ho, _⟩ := hab.2 hfx
    rw [hany] at ho
    simpa [cellOrientationInRow] using ho

/-- the same for `Circuit::legalize` as compiled (binary32 ordering key) -/
theorem legalize_orient_compiled (p : Params) (c c' : Circuit) (hd : C01.Dom c) (h : legalize p c = .ok c') :
    (∀ cl ∈ c'.cells, cl.fixed = false → cl.pol ≠ Polarity.ANY →
      ∃ r, UnderBottom c' cl r ∧ (∀ r', UnderBottom c' cl r' → r' = r) ∧
        cellOrientationInRow cl.pol r.orient ≠ Orient.INVALID ∧ cl.orient ≠ Orient.INVALID ∧
        (r.orient ≠ Orient.UNKNOWN → cl.orient = cellOrientationInRow cl.pol r.orient)) ∧
    Pointwise (fun a b => a.fixed = false → a.pol = Polarity.ANY → b.orient = a.orient) c.cells c'.cells :=
  legalize_orient f32 p c c' hd h

/-- **The property's quantifier (rows with an orientation, e.g. N/S/FN/FS).**  If no row of the
circuit has the marker UNKNOWN as orientation, every polarised movable cell of the result has
exactly `cellOrientationInRow pol (orientation of the segment under its bottom edge)` — in terms of
the table generated from the C++ — and that is one of the eight real orientations. -/
theorem legalize_orient_oriented_rows (rnd : Rat → Rat) (p : Params) (c c' : Circuit) (hd : C01.Dom c)
    (hro : ∀ r ∈ c.rows, r.orient ≠ Orient.UNKNOWN) (h : legalizeWith rnd p c = .ok c') :
    ∀ cl ∈ c'.cells, cl.fixed = false → cl.pol ≠ Polarity.ANY →
      ∃ r, UnderBottom c' cl r ∧ cl.orient = Gen.cellOrientationInRow cl.pol r.orient ∧ IsEight cl.orient := by
  intro cl hcl hfx hpol
  obtain ⟨r, hu, _, hinv, _, heq⟩ := (legalize_orient rnd p c c' hd h).1 cl hcl hfx hpol
  have hr : r.orient ≠ Orient.UNKNOWN := by
    have hrows : c'.rows = c.rows := ((C01.legalize_error_or_all rnd p c).2.2 c' h).1
    have hm := hu.1
    simp only [Circuit.computeRows, List.mem_flatMap, Row.freespace, List.mem_map] at hm
    obtain ⟨r0, hr0, iv, _, rfl⟩ := hm
    rw [hrows] at hr0
    exact hro r0 hr0
  have e := heq hr
  refine ⟨r, hu, by rw [gen_tables_eq_model.2.2.1]; exact e, ?_⟩
  rw [e]
  revert hinv hr hpol
  generalize cl.pol = q
  generalize r.orient = o
  cases q <;> cases o <;> decide

/-- non-vacuity: two rows (N below FS), the lower one split by a fixed obstruction; an NW cell whose
target is on the FS row, an SE cell whose target is on the N row, an OPPOSITE cell, a cell without
polarity oriented S, and a two-row SAME cell.  Legalization returns; NW ends on the N row as N, SE on
the FS row as FS, OPPOSITE on the N row as FS, the ANY cell (moved) is still S. -/
def legCircuit : Circuit :=
  { cells := [⟨2, 2, 0, 2, .N, false, false, .NW⟩, ⟨2, 2, 0, 0, .N, false, false, .SE⟩,
              ⟨2, 2, 4, 0, .N, false, false, .OPPOSITE⟩, ⟨2, 2, 6, 2, .S, false, false, .ANY⟩,
              ⟨3, 4, 7, 0, .N, false, false, .SAME⟩, ⟨1, 2, 3, 0, .N, true, true, .ANY⟩],
    nets := [],
    rows := [⟨⟨0, 12, 0, 2⟩, .N⟩, ⟨⟨0, 12, 2, 4⟩, .FS⟩] }

example : C01.Dom legCircuit ∧ (∀ r ∈ legCircuit.rows, r.orient ≠ Orient.UNKNOWN) := by decide
example : ((legalize LegacyLegalize.defaultParams legCircuit).toOption.map
    fun c' => c'.cells.map fun cl => (cl.x, cl.y, cl.orient)) =
    some [(0, 0, .N), (0, 2, .FS), (4, 0, .FS), (5, 2, .S), (7, 0, .N), (3, 0, .N)] := by decide +kernel

/-- rows and cell of corpus/C04 witness w1 -/
def w1Rows : List Row := [⟨⟨0, 5, 0, 2⟩, .N⟩, ⟨⟨5, 20, 0, 2⟩, .S⟩, ⟨⟨0, 20, 2, 4⟩, .N⟩]
def w1Cell : LCell := ⟨3, 4, .SAME, 10, 0, .N⟩

/-- **Pre-fix witness (Tetris, corpus/C04 w1).**  Before `fix: c04-tetris-row-orientation`
`TetrisLegalizer::placeCell` took the orientation of the *first* segment at the chosen y
(`closestRow(y)`, the `else` branches `attemptFirstSeg` / `startRow` kept in the model): on the rows
`[0,5)` N, `[5,20)` S, `[0,20)` N above, the two-row SAME cell with target (10, 0) is offered x = 10
— inside the S segment — and receives N, not `cellOrientationInRow SAME S = S`; the fixed code finds
segment 1 and assigns S. -/
theorem tetris_orient_fails_unfixed :
    attemptFirstSeg (Tetris.init w1Rows) w1Cell 0 = some 10 ∧
    getOrientation (Tetris.init w1Rows).rows w1Cell (startRow (Tetris.init w1Rows).rows 0) = Orient.N ∧
    orientRow (Tetris.init w1Rows).rows 10 0 = 1 ∧
    (tetrisPlace (Tetris.init w1Rows) w1Cell).2 = ⟨10, 0, cellOrientationInRow .SAME .S, true⟩ ∧
    cellOrientationInRow .SAME .S ≠ Orient.N := by
  decide +kernel

end LegalizeOrient

/-! ### the algorithms: detailed placement

Model `DetPlace` (the definitions `drv_C02` executes and the history replay of hook H3 re-runs), with
`isRowAllowed` of `fix: c04-invalid-rows`.  `Inv` (C02) is every test of `DetailedPlacement::check()`
— including the orientation test — plus orientation ≠ INVALID; `C02.inv_run` proves it for every
state reached by any sequence of swap / insert / shift / reorder moves. -/

section DetailedOrient
open DetPlace DetPlace.State

/-- what C04 demands of a state of detailed placement: every optimised (not ignored) cell is linked
in a valid row segment whose y is the cell's y (the row its bottom edge sits on), that segment is
allowed for its polarity, its orientation is not INVALID, and if it declares a polarity it has
exactly the orientation the table prescribes for that segment (as soon as the segment has an
orientation) -/
def DetOrientOK (s : State) : Prop :=
  ∀ c : Int, s.validCell c → s.isIgnored c = false →
    s.row c ≠ -1 ∧ s.validRow (s.row c) ∧ s.y c = s.rowY (s.row c) ∧
    s.isRowAllowed c (s.row c) = true ∧ s.orient c ≠ Orient.INVALID ∧
    (s.pol c ≠ Polarity.ANY → s.rowOrient (s.row c) ≠ Orient.UNKNOWN →
      s.orient c = cellOrientationInRow (s.pol c) (s.rowOrient (s.row c)))

/-- **Orientation is part of the invariant.**  In any state satisfying `Inv` — also the transient
ones inside a move, where some cells are unplaced — every *placed* cell is an optimised cell at the
y of its segment, the segment is allowed for its polarity (never a forbidden row), the orientation is
not INVALID and is the prescribed one for a declared polarity. -/
theorem detailed_orient_placed {s : State} (h : Inv s) {c : Int} (hc : s.validCell c) (hp : s.row c ≠ -1) :
    s.validRow (s.row c) ∧ s.isIgnored c = false ∧ s.y c = s.rowY (s.row c) ∧
    s.isRowAllowed c (s.row c) = true ∧ s.orient c ≠ Orient.INVALID ∧
    (s.pol c ≠ Polarity.ANY → s.rowOrient (s.row c) ≠ Orient.UNKNOWN →
      s.orient c = cellOrientationInRow (s.pol c) (s.rowOrient (s.row c))) :=
  inv_orient h hc hp

/-- **C04, detailed-placement clause (full over the model).**  From any state that satisfies `Inv`
and has every optimised cell placed (what the constructor `fromIspdCircuit` returns: it ends with
`check()`; the driver evaluates the decidable `Inv` on every instance), for every history of moves
with arbitrary arguments that the code performs without throwing: the final state — what
`placeDetailed` exports on return — and the state after every prefix of the history — in particular
every state exposed to a `PlacementStep::Detailed` callback — satisfy `DetOrientOK`. -/
theorem detailed_orient {s t : State} {ops : List Op} (hi : Inv s) (hp : s.allPlaced = true)
    (e : s.run ops = .ok t) :
    DetOrientOK t ∧ ∀ ops1 ops2, ops = ops1 ++ ops2 → ∃ u, s.run ops1 = .ok u ∧ DetOrientOK u := by
  have key : ∀ (u : State) (l : List Op), s.run l = .ok u → DetOrientOK u := by
    intro u l el c hc hig
    have hiu := run_inv hi el
    have hpu := (allPlaced_iff u).1 (run_allPlaced el hp) c hc (by simpa [isIgnored] using hig)
    obtain ⟨a1, _, a3, a4, a5, a6⟩ := inv_orient hiu hc hpu
    exact ⟨hpu, a1, a3, a4, a5, a6⟩
  refine ⟨key t ops e, ?_⟩
  intro ops1 ops2 hops
  subst hops
  obtain ⟨u, e1, _⟩ := run_prefix ops1 ops2 e
  exact ⟨u, e1, key u ops1 e1⟩

/-- **Cells without polarity, ignored cells.**  Along every history polarities never change, a cell
without polarity (ANY) keeps the orientation it had (`place` writes `cellOrientation_` only when the
table answers something else than the keep marker UNKNOWN), and a cell detailed placement does not
optimise (fixed, multi-row, macro: width −1) keeps orientation and position. -/
theorem detailed_orient_kept {s t : State} {ops : List Op} (e : s.run ops = .ok t) :
    t.pol = s.pol ∧ (∀ d, s.pol d = Polarity.ANY → t.orient d = s.orient d) ∧
    (∀ d, s.isIgnored d = true → t.orient d = s.orient d ∧ t.x d = s.x d ∧ t.y d = s.y d) := by
  have k := run_keep e
  have f := run_frame e
  refine ⟨k.pol, k.any, fun d hd => ?_⟩
  have := f.2 d (by simpa [isIgnored] using hd)
  exact ⟨this.2.2, this.1, this.2.1⟩

/-- … and primitive by primitive: `unplace`, `place`, and each optimiser move (`swap`, `insert`,
`shift`, `RowReordering::writeback`) leave the orientation of every cell without polarity as it was -/
theorem detailed_any_kept_by_primitives :
    (∀ (s : State) (c d : Int), s.pol d = Polarity.ANY → (s.unplace c).orient d = s.orient d) ∧
    (∀ (s t : State) (c r p x d : Int), s.place c r p x = .ok t → s.pol d = Polarity.ANY → t.orient d = s.orient d) ∧
    (∀ (s t : State) (op : Op) (d : Int), s.step op = .ok t → s.pol d = Polarity.ANY → t.orient d = s.orient d) :=
  ⟨fun s c d h => (unplace_keep s c).any d h, fun _ _ _ _ _ _ d e h => (place_keep e).any d h,
   fun _ _ _ d e h => (step_keep e).any d h⟩

/-- **The detailed-placement clause in circuit terms.**  Let `s` be the state `fromIspdCircuit`
builds from circuit `c` and `t` any state a history of moves reaches from it (same hypotheses as
`detailed_orient`).  The circuit exposed at `t` (`exportPlacement t c`, what a callback and the
caller of `placeDetailed` see) differs from `c`, for its `i`-th cell `cl` if movable, as follows:
polarity kept; without polarity the orientation is the one of `c`; a cell that is not one row high
(not optimised) keeps its orientation; a one-row-high cell is linked in the valid segment
`t.row i` of the row segments — unchanged: the sorted free segments of the circuit's rows minus
fixed obstructions and multi-row cells —, its y is that segment's y, the segment is not forbidden
for its polarity, its orientation is not INVALID and — with a polarity, on a segment that has an
orientation — it is exactly `cellOrientationInRow pol (segment orientation)`. -/
theorem detailed_orient_exported (c : Circuit) (s t : State) (ops : List Op)
    (e0 : fromIspdCircuit c = .ok s) (hi : Inv s) (hp : s.allPlaced = true) (e : s.run ops = .ok t) :
    (∃ h, c.rowHeight = some h ∧ t.rows = DetPlace.sortRows (c.computeRows
      ((c.cells.filter fun cl => !cl.fixed && cl.placedHeight ≠ h).map Cell.placement))) ∧
    ∀ (i : Nat) (cl : Cell), c.cells[i]? = some cl → cl.fixed = false →
      ∃ cl', (exportPlacement t c).cells[i]? = some cl' ∧ cl'.pol = cl.pol ∧
        (cl.pol = Polarity.ANY → cl'.orient = cl.orient) ∧
        (c.rowHeight ≠ some cl.placedHeight → cl'.orient = cl.orient) ∧
        (c.rowHeight = some cl.placedHeight → cl.placedWidth ≠ -1 →
          t.validRow (t.row (Int.ofNat i)) ∧ cl'.y = t.rowY (t.row (Int.ofNat i)) ∧
          cellOrientationInRow cl.pol (t.rowOrient (t.row (Int.ofNat i))) ≠ Orient.INVALID ∧
          cl'.orient ≠ Orient.INVALID ∧
          (cl.pol ≠ Polarity.ANY → t.rowOrient (t.row (Int.ofNat i)) ≠ Orient.UNKNOWN →
            cl'.orient = cellOrientationInRow cl.pol (t.rowOrient (t.row (Int.ofNat i))))) := by
  obtain ⟨h, hrh, hn, hrows, hf⟩ := fromIspd_fields c s e0
  have k := run_keep e
  have f := run_frame e
  have hD := (detailed_orient hi hp e).1
  refine ⟨⟨h, hrh, by rw [k.rows, hrows]⟩, ?_⟩
  intro i cl hcl hfx
  obtain ⟨hpol, hor, hw⟩ := hf i cl hcl
  have hex := export_cell t c i cl hcl
  simp only [hfx, Bool.false_eq_true, if_false] at hex hw
  refine ⟨_, hex, rfl, ?_, ?_, ?_⟩
  · intro hany
    show t.orient (Int.ofNat i) = cl.orient
    rw [k.any _ (by rw [hpol]; exact hany), hor]
  · intro hne
    show t.orient (Int.ofNat i) = cl.orient
    have hne' : cl.placedHeight ≠ h := by
      intro he; apply hne; rw [hrh, he]
    rw [if_pos hne'] at hw
    rw [(f.2 _ hw).2.2, hor]
  · intro heq hwne
    have hh : cl.placedHeight = h := by
      rw [hrh] at heq; injection heq with heq; exact heq.symm
    rw [if_neg (by simp [hh])] at hw
    have hvc : t.validCell (Int.ofNat i) := by
      have := (List.getElem?_eq_some_iff.mp hcl).1
      unfold validCell
      rw [k.nCells, hn]
      simp only [Int.ofNat_eq_natCast]
      omega
    have hig : t.isIgnored (Int.ofNat i) = false := by
      simp only [isIgnored, k.width, hw]
      simpa using hwne
    obtain ⟨_, a1, a2, a3, a4, a5⟩ := hD _ hvc hig
    have hpt : t.pol (Int.ofNat i) = cl.pol := by rw [k.pol, hpol]
    rw [hpt] at a5
    have a3' : cellOrientationInRow cl.pol (t.rowOrient (t.row (Int.ofNat i))) ≠ Orient.INVALID := by
      unfold isRowAllowed at a3
      rw [hpt] at a3
      simpa using a3
    exact ⟨a1, a2, a3', a4, a5⟩

/-- non-vacuity: two rows (N below FS); an NW cell and a cell without polarity oriented S on the N
row, a SAME cell on the FS row, an ignored two-row cell.  The constructor's state satisfies `Inv`
with every optimised cell placed; a history of all four kinds of moves runs and ends with the SAME
cell on the N row re-oriented N, the ANY cell on the FS row still S, the NW cell on the N row;
inserting the NW cell into the FS row is refused (the C++ `insert` throws: `canInsert` is false). -/
def detTiny : Circuit :=
  { cells := [⟨2, 2, 0, 0, .N, false, false, .NW⟩, ⟨3, 2, 4, 0, .S, false, false, .ANY⟩,
              ⟨2, 2, 1, 2, .FS, false, false, .SAME⟩, ⟨2, 4, 8, 0, .N, false, false, .ANY⟩],
    nets := [],
    rows := [⟨⟨0, 10, 0, 2⟩, .N⟩, ⟨⟨0, 10, 2, 4⟩, .FS⟩] }

def detOps : List Op :=
  [.swap 0 1, .insert 2 0 0, .shift [(2, 6)], .reorder [1, 0] [⟨0, -1, [(0, 0), (1, 2)]⟩], .insert 1 1 (-1)]

example : (match fromIspdCircuit detTiny with
           | .ok s => decide (Inv s) && s.allPlaced && s.isIgnored 3 &&
                      (match s.run detOps with
                       | .ok t => ([0, 1, 2] : List Int).map (fun i => (t.row i, t.orient i)) == [(0, .N), (1, .S), (0, .N)]
                       | .error _ => false) &&
                      (match s.step (.insert 0 1 (-1)) with | .error .runtime => true | _ => false)
           | .error _ => false) = true := by decide

end DetailedOrient

end ColoVerif.C04
