import ColoVerif.Model.Circuit
import ColoVerif.Gen.OrientTables
import ColoVerif.Model.OrientRule
import ColoVerif.Model.LegacyOrientRule
/-
C04 — row polarity and orientation constraints: the table-level theorems.

`ColoVerif.Gen.*` is regenerated from /repo's C++ on every run (tools/gen/OrientTables.py),
so every theorem below is re-checked against what the source says now: a changed table entry
breaks `gen_tables_eq_model` (and usually one of the structural facts as well).

Everything is a finite statement over `Orient` (10 values) × `Polarity` (5 values) and is
closed by kernel evaluation (`decide`).
-/
namespace ColoVerif.C04
open ColoVerif

/-- `o` is one of the eight real orientations. -/
def IsEight (o : Orient) : Prop := o ∈ Orient.eight

instance (o : Orient) : Decidable (IsEight o) := by unfold IsEight; infer_instance

/-- the orientations a *row* may have in the placement domain (C01): unturned -/
def rowOrients : List Orient := [.N, .S, .FN, .FS]

/-! ### tie between the generated tables and the hand-written model -/

/-- The numeric values of the enumerators are the ones the shared `Orient.code` /
`Polarity.code` (used by every harness stream) assume. -/
theorem gen_enum_codes :
    (∀ p ∈ Gen.orientCodes, p.1.code = p.2) ∧ (∀ p ∈ Gen.polarityCodes, p.1.code = p.2) ∧
    Gen.orientCodes.map (·.1) = Orient.all ∧ Gen.polarityCodes.map (·.1) = Polarity.all := by
  decide

/-- The definitions generated from the C++ equal the hand-written shared model
(`Orient.isTurn`, `Orient.opposite`, `cellOrientationInRow`, `Circuit.xFlipped/yFlipped`)
on their whole (finite) domains. -/
theorem gen_tables_eq_model :
    (∀ o : Orient, Gen.isTurn o = o.isTurn) ∧
    (∀ o : Orient, Gen.oppositeRowOrientation o = o.opposite) ∧
    (∀ (p : Polarity) (o : Orient), Gen.cellOrientationInRow p o = cellOrientationInRow p o) ∧
    (∀ o : Orient, Gen.xFlipped o = Circuit.xFlipped o) ∧
    (∀ o : Orient, Gen.yFlipped o = Circuit.yFlipped o) := by
  refine ⟨?_, ?_, ?_, ?_, ?_⟩
  · intro o; cases o <;> rfl
  · intro o; cases o <;> rfl
  · intro p o; cases p <;> cases o <;> rfl
  · intro o; cases o <;> rfl
  · intro o; cases o <;> rfl

/-- The generated pin-offset / placed-size functions equal the shared `Circuit` model for every
cell and pin (all orientations, all integers). -/
theorem gen_pin_offsets_eq_model (cl : Cell) (p : Pin) :
    Gen.placedWidth cl.orient cl.w cl.h = cl.placedWidth ∧
    Gen.placedHeight cl.orient cl.w cl.h = cl.placedHeight ∧
    Gen.pinXOffset cl.orient cl.w cl.h p.xo p.yo = Circuit.pinXOffset cl p ∧
    Gen.pinYOffset cl.orient cl.w cl.h p.xo p.yo = Circuit.pinYOffset cl p := by
  cases cl with
  | mk w h x y orient fixed obstruction pol =>
    cases orient <;>
      simp [Gen.placedWidth, Gen.placedHeight, Gen.pinXOffset, Gen.pinYOffset, Gen.isTurn, Gen.xFlipped,
        Gen.yFlipped, Cell.placedWidth, Cell.placedHeight, Circuit.pinXOffset, Circuit.pinYOffset,
        Orient.isTurn, Circuit.xFlipped, Circuit.yFlipped]

/-- The `abort()` at the end of the C++ `cellOrientationInRow` is unreachable for enumerator
arguments (the generated partial function is defined everywhere). -/
theorem cellOrientationInRow_never_aborts :
    ∀ (p : Polarity) (o : Orient), (Gen.cellOrientationInRow? p o).isSome = true := by
  intro p o; cases p <;> cases o <;> rfl

/-! ### the property's table clauses -/

/-- For a declared polarity the table answers with one of the eight orientations or
`INVALID`, never the "keep" marker `UNKNOWN` (for a row orientation among the eight);
for `ANY` it answers `UNKNOWN` whatever the row. -/
theorem orientInRow_total :
    (∀ (p : Polarity) (o : Orient), p ≠ .ANY → IsEight o →
        IsEight (Gen.cellOrientationInRow p o) ∨ Gen.cellOrientationInRow p o = .INVALID) ∧
    (∀ (p : Polarity) (o : Orient), p ≠ .ANY → Gen.cellOrientationInRow p o ≠ .UNKNOWN ∨ o = .UNKNOWN) ∧
    (∀ o : Orient, Gen.cellOrientationInRow .ANY o = .UNKNOWN) := by
  refine ⟨?_, ?_, ?_⟩
  · intro p o; cases p <;> cases o <;> decide
  · intro p o; cases p <;> cases o <;> decide
  · intro o; cases o <;> rfl

/-- `oppositeRowOrientation` is an involution on the eight orientations, maps them to the
eight, has no fixed point among them, and sends `INVALID`/`UNKNOWN` to `INVALID`. -/
theorem opposite_involutive :
    (∀ o : Orient, IsEight o → Gen.oppositeRowOrientation (Gen.oppositeRowOrientation o) = o) ∧
    (∀ o : Orient, IsEight o → IsEight (Gen.oppositeRowOrientation o)) ∧
    (∀ o : Orient, IsEight o → Gen.oppositeRowOrientation o ≠ o) ∧
    (∀ o : Orient, ¬ IsEight o → Gen.oppositeRowOrientation o = .INVALID) := by
  refine ⟨?_, ?_, ?_, ?_⟩ <;> intro o <;> cases o <;> decide

/-! ### facts used by the legalizer / detailed-placement invariants (C01, C02) -/

/-- The prescribed orientation never changes the footprint class of the cell relative to the
row: it is turned exactly when the row is turned.  In particular, on the placement domain
(unturned rows N/S/FN/FS) a polarised cell is never turned, so its placed size is its
declared size whatever row it lands on. -/
theorem orientInRow_preserves_turn :
    ∀ (p : Polarity) (o : Orient), IsEight o → IsEight (Gen.cellOrientationInRow p o) →
      Gen.isTurn (Gen.cellOrientationInRow p o) = Gen.isTurn o := by
  intro p o; cases p <;> cases o <;> decide

/-- SAME and OPPOSITE cells can enter every row with a real orientation: they are never
`INVALID` (so only NW / SE cells have forbidden rows). -/
theorem same_opposite_never_invalid :
    ∀ o : Orient, IsEight o →
      IsEight (Gen.cellOrientationInRow .SAME o) ∧ IsEight (Gen.cellOrientationInRow .OPPOSITE o) := by
  intro o; cases o <;> decide

/-- NW and SE partition the eight row orientations: each row admits exactly one of the two,
and an admitted cell takes the row's own orientation. -/
theorem nw_se_partition :
    ∀ o : Orient, IsEight o →
      ((Gen.cellOrientationInRow .NW o = o ∧ Gen.cellOrientationInRow .SE o = .INVALID) ∨
       (Gen.cellOrientationInRow .NW o = .INVALID ∧ Gen.cellOrientationInRow .SE o = o)) := by
  intro o; cases o <;> decide

/-- On the placement domain: which unturned rows admit which polarity (the exact "forbidden
row" relation the fixed detailed placement must respect). -/
theorem forbidden_rows_unturned :
    (rowOrients.filter fun o => Gen.cellOrientationInRow .NW o == .INVALID) = [.S, .FS] ∧
    (rowOrients.filter fun o => Gen.cellOrientationInRow .SE o == .INVALID) = [.N, .FN] := by
  decide

/-- The prescribed orientation depends only on (polarity, row orientation): re-placing a cell
on a row of the same orientation gives back the same orientation (idempotence used by C11 and
by the "orientation-preserving move" classifier of C05), and a SAME cell re-oriented for the
row orientation it already has is unchanged. -/
theorem orientInRow_idempotent :
    ∀ (p : Polarity) (o : Orient), IsEight o → IsEight (Gen.cellOrientationInRow p o) → p ≠ .OPPOSITE →
      Gen.cellOrientationInRow p (Gen.cellOrientationInRow p o) = Gen.cellOrientationInRow p o := by
  intro p o; cases p <;> cases o <;> decide

/-- OPPOSITE twice is the row orientation again. -/
theorem opposite_twice_same :
    ∀ o : Orient, IsEight o →
      Gen.cellOrientationInRow .OPPOSITE (Gen.cellOrientationInRow .OPPOSITE o) = Gen.cellOrientationInRow .SAME o := by
  intro o; cases o <;> decide

/-- `oppositeRowOrientation` mirrors about the x axis: it toggles the y-flip of pin offsets and
keeps the x-flip and the turn (so a cell placed OPPOSITE in a flipped row has its pins where a
SAME cell has them in an unflipped row). -/
theorem opposite_is_x_axis_mirror :
    ∀ o : Orient, IsEight o →
      Gen.isTurn (Gen.oppositeRowOrientation o) = Gen.isTurn o ∧
      Gen.yFlipped (Gen.oppositeRowOrientation o) = (!Gen.yFlipped o) ∧
      Gen.xFlipped (Gen.oppositeRowOrientation o) = Gen.xFlipped o := by
  intro o; cases o <;> decide

/-- The eight orientations are exactly the eight combinations of (turn, xFlipped, yFlipped):
the triple determines the orientation. -/
theorem orientation_determined_by_flags :
    ∀ a b : Orient, IsEight a → IsEight b →
      Gen.isTurn a = Gen.isTurn b → Gen.xFlipped a = Gen.xFlipped b → Gen.yFlipped a = Gen.yFlipped b → a = b := by
  intro a b; cases a <;> cases b <;> decide

/-! ### the orientation rule of the legalizers and of detailed placement -/

open OrientRule in
/-- On an allowed row (any of the eight row orientations) a cell with a declared polarity
receives exactly the orientation its polarity prescribes, which is one of the eight (never
`INVALID`, never `UNKNOWN`); a cell without polarity keeps the orientation it had. -/
theorem assigned_orientation_correct :
    ∀ (pol : Polarity) (row cur : Orient), IsEight row → rowAllowed pol row = true →
      (pol ≠ .ANY → assignedOrientation pol row cur = Gen.cellOrientationInRow pol row ∧
                     IsEight (assignedOrientation pol row cur)) ∧
      (pol = .ANY → assignedOrientation pol row cur = cur) := by
  intro pol row cur; cases pol <;> cases row <;> cases cur <;> decide

open OrientRule in
/-- The guard is exact: for a cell that currently has a real orientation, the orientation rule
produces `INVALID` if and only if the row is not allowed — refusing precisely the rows with
`cellOrientationInRow = INVALID` is necessary and sufficient (this is the condition added by
`fix: c04-invalid-rows`). -/
theorem assigned_invalid_iff_not_allowed :
    ∀ (pol : Polarity) (row cur : Orient), IsEight row → IsEight cur →
      (assignedOrientation pol row cur = .INVALID ↔ rowAllowed pol row = false) := by
  intro pol row cur; cases pol <;> cases row <;> cases cur <;> decide

open OrientRule in
/-- Only NW / SE cells have forbidden rows; on the placement domain (rows N/S/FN/FS) every cell
has at least one allowed kind of row, and rows of alternating N/FS orientation admit NW on the N
rows and SE on the FS rows only. -/
theorem allowed_rows :
    (∀ row : Orient, IsEight row → rowAllowed .ANY row = true ∧ rowAllowed .SAME row = true ∧ rowAllowed .OPPOSITE row = true) ∧
    rowOrients.map (rowAllowed .NW) = [true, false, true, false] ∧
    rowOrients.map (rowAllowed .SE) = [false, true, false, true] := by
  refine ⟨?_, by decide, by decide⟩
  intro row; cases row <;> decide

open OrientRule in
/-- Pre-fix witness (F4): with the guard detailed placement used before `fix: c04-invalid-rows`
(every row accepted) an NW cell with orientation N moved to an FS row — the 2-row / 1-cell
circuit of corpus/C04 — ends with `CellOrientation::INVALID`; the fixed guard refuses that row. -/
theorem detailed_orient_fails_unfixed :
    legacyRowAllowed .NW .FS = true ∧ assignedOrientation .NW .FS .N = .INVALID ∧ rowAllowed .NW .FS = false := by
  decide

end ColoVerif.C04
