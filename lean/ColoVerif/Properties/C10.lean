import ColoVerif.Gen.Api
import ColoVerif.Gen.ApiSizes
import ColoVerif.Gen.ApiExpansion
import ColoVerif.Gen.WriteSets
import ColoVerif.Proofs.BusyLemmas
import ColoVerif.Proofs.BusySizes
import ColoVerif.Proofs.NetsValue
import ColoVerif.Proofs.NetsValueTie
import ColoVerif.Model.LegacyBusy
import ColoVerif.Properties.C01
/-
C10 — busy-circuit protocol and exception safety of placement calls.

The theorems are about `Gen.Api.setters` / `Gen.Api.placementCalls`, regenerated from
`src/coloquinte.cpp` on every run, under the semantics of `Model/Busy.lean` (which the driver
`drv_C10` executes on the traces observed by `harness/h_C10.cpp`).
-/
namespace ColoVerif.C10
open ColoVerif.ApiIR ColoVerif.Busy ColoVerif.Gen

/-- The structural setters.  This list is part of the specification (properties.jsonl, C10) and is
written by hand; it is not derived from the source. -/
def structuralSetters : List String :=
  ["addNet", "setNets", "setRows", "setupRows", "setCellIsFixed", "setCellIsObstruction", "setCellRowPolarity"]

/-- Every structural setter exists in the translated API (so the quantifier of `busy_refuses`
ranges over all seven). -/
theorem structural_setters_translated :
    ∀ n ∈ structuralSetters, (lookup Api.setters n).isSome = true := by decide

/-- The translated placement calls are exactly the three public ones. -/
theorem placement_calls_translated :
    Api.placementCalls.map (·.name) = ["placeGlobal", "legalize", "placeDetailed"] := by decide

/-- While the circuit is in use every structural setter throws — for all arguments — and leaves the
circuit equal (no member written, flag unchanged): in the translated body the busy guard precedes
the first write, return or call. -/
theorem busy_refuses :
    ∀ f ∈ Api.setters, f.name ∈ structuralSetters →
      ∀ (env : Env) (st : St), st.inUse = true → exec noCall env f.body st = ⟨.thrown, st, []⟩ := by
  intro f hf hn env st hu
  have key : ∀ f ∈ Api.setters, f.name ∈ structuralSetters → guardFirst f.body = true := by decide
  exact exec_guardFirst noCall env f.body st (key f hf hn) hu

/-- While a placement call is in progress the flag stays set: across any trace of callbacks, each
running any setters with any arguments (no setter touches the flag) and any *nested placement calls*
on the same circuit, to any depth, however they end (each placement call puts the flag back to what
it was when it started).  Traces are prefix-closed, so this is the state at every point of every
callback of every stage, and `busy_refuses` applies there. -/
theorem busy_in_every_callback :
    ∀ (t : Tr) (st : St), st.inUse = true → (runTr Api.setters Api.placementCalls t st).st.inUse = true := by
  intro t st hu
  have k1 : ∀ f ∈ Api.setters, flagFree f.body = true := by decide
  have k2 : ∀ f ∈ Api.placementCalls, restoringFirst f.body = true := by decide
  rw [runTr_flag Api.setters Api.placementCalls k1 k2 t st, hu]

/-- A placement call is: run the stage with the flag set, then give the flag the value it had when
the call started — whether the stage returned or threw.  (So the stage of an outermost call, and of
a call nested in a callback alike, runs busy; with `busy_in_every_callback` it is busy throughout.) -/
theorem placement_runs_stage_busy :
    ∀ f ∈ Api.placementCalls, ∀ (t : Tr) (st : St),
      execPlacement Api.setters Api.placementCalls f.body t st =
        (runTr Api.setters Api.placementCalls t { st with inUse := true }).restore st.inUse := by
  intro f hf t st
  have key : ∀ f ∈ Api.placementCalls, restoringCall f.body = true := by decide
  obtain ⟨n, hn⟩ := exec_restoringCall (fun _ s => runTr Api.setters Api.placementCalls t s) emptyEnv f.body (key f hf) st
  exact hn

/-- After the OUTERMOST placement call (one that started on a circuit not in use) has ended — by
return, by an exception of a callback at any index, by an exception of the stage at any point
(infeasible legalization, rejected parameters, …), after any nested calls — the circuit is no longer
in use.  For every stage trace and every initial state that is not in use. -/
theorem busy_released :
    ∀ f ∈ Api.placementCalls, ∀ (t : Tr) (st : St), st.inUse = false →
      (execPlacement Api.setters Api.placementCalls f.body t st).st.inUse = false := by
  intro f hf t st h0
  have key : ∀ f ∈ Api.placementCalls, guardedFirst f.body = true := by decide
  exact exec_guardedFirst _ emptyEnv f.body st (key f hf) h0

/-- A placement call made while another one is in progress (from a callback) does not release the
circuit when it ends, by return or by exception: the flag is what it was. -/
theorem nested_call_keeps_busy :
    ∀ f ∈ Api.placementCalls, ∀ (t : Tr) (st : St),
      (execPlacement Api.setters Api.placementCalls f.body t st).st.inUse = st.inUse := by
  intro f hf t st
  have key : ∀ f ∈ Api.placementCalls, restoringFirst f.body = true := by decide
  exact exec_restoringFirst _ emptyEnv f.body st (key f hf)

/-- … and the call itself is refused to nobody: it ends by return or by the exception, it is never
stuck (an exception thrown inside propagates to the caller): if every way to the end of the stage
finds it throwing, the call does not return normally. -/
theorem exception_propagates :
    ∀ f ∈ Api.placementCalls, ∀ (t : Tr) (st : St), t.endsThrowing = true →
      (execPlacement Api.setters Api.placementCalls f.body t st).out ≠ .normal := by
  intro f hf t st ht
  have key : ∀ f ∈ Api.placementCalls, guardedCall f.body = true := by decide
  exact execPlacement_propagates Api.setters Api.placementCalls f.body (key f hf) t ht st

/-- A placement call whose callbacks invoke (any) translated setters and placement calls ends by return
or by an exception: no path of the translated API aborts or gets stuck (no `assert` is left in a setter). -/
theorem placement_returns_or_throws :
    ∀ f ∈ Api.placementCalls, ∀ (t : Tr) (st : St), t.known Api.setters Api.placementCalls = true →
      (execPlacement Api.setters Api.placementCalls f.body t st).out = .normal ∨
      (execPlacement Api.setters Api.placementCalls f.body t st).out = .thrown := by
  intro f hf t st hk
  have k1 : ∀ f ∈ Api.placementCalls, guardedCall f.body = true := by decide
  have k2 : ∀ f ∈ Api.setters, assertFree f.body = true := by decide
  exact execPlacement_out Api.setters Api.placementCalls k2 k1 f.body (k1 f hf) t st hk

/-- **Third clause: a legalization that failed has left the placement exactly as it was** — restated
from C01 (`C01.failed_legalize_unchanged`), over the legalization model that `drv_C01` executes
against `Circuit::legalize`: `legalizeInPlace` is the call as the C++ sees it (the circuit object after
the call and the exception, if any).  If the call fails, for whatever reason (rejected parameters,
Tetris/Abacus failure, a cell that could not be placed), the circuit after the call is the circuit
before it — every cell position and orientation, and everything else; the error was raised before
`exportPlacement`, the only writer.  For every circuit, all parameters, every rounding of the ordering key. -/
theorem failed_legalize_leaves_placement (rnd : Rat → Rat) (p : Legalize.Params) (c : ColoVerif.Circuit) (e : Legalize.Err)
    (h : Legalize.legalizeWith rnd p c = .error e) :
    (C01.legalizeInPlace rnd p c).1 = c ∧ (C01.legalizeInPlace rnd p c).2 = some e ∧
    ((p.check = false ∧ e = .params) ∨ (p.check = true ∧ Legalize.run rnd p (Legalize.fromCircuit c) = .error e)) := by
  obtain ⟨h1, h2⟩ := C01.failed_legalize_unchanged rnd p c e h
  exact ⟨by rw [h1], by rw [h1], h2⟩

/-! Non-vacuity: a concrete trace.  The callback calls `setRows` (refused, nothing written), then
`legalize` on the same circuit (its stage throws: the nested call ends by the exception, circuit
still in use), `setRows` again (still refused) and then throws; the outer call ends with the
exception and the flag cleared. -/
example :
    ∀ f ∈ Api.placementCalls, f.name = "placeDetailed" →
    execPlacement Api.setters Api.placementCalls f.body
      (.setter ⟨"setRows", ⟨3, 0, [⟨2, [], 0⟩]⟩⟩ (.nested "legalize" (.done true)
        (.setter ⟨"setRows", ⟨3, 0, [⟨2, [], 0⟩]⟩⟩ (.cbEnd true (.done false))))) ⟨false, []⟩
      = ⟨.thrown, ⟨false, []⟩, ["set setRows throw:runtime_error w=0", "end throw inuse=1",
                                 "set setRows throw:runtime_error w=0"]⟩ := by decide

example : ∃ f ∈ Api.setters, f.name ∈ structuralSetters := by decide
example : (Tr.cbEnd true (.done false)).endsThrowing = true := by decide

/-! ## "… and the circuit is internally consistent": the sizes of the member vectors

The theorems below are about `Gen.ApiSizes` (every setter, the constructor and the expansion API with the effect
of each member write on the length of the written member — regenerated from `src/coloquinte.cpp` on every run),
`Gen.Api.placementCalls` and `Gen.WriteSets.writeSites`, under the size semantics of `Model/BusySizes.lean`
(which `drv_C10` executes for every setter call the harness makes: `szset`). -/
section Sizes
open ColoVerif.BusySizes

/-- Forgetting the size effects gives back the skeletons the other theorems of C10/C19 are about: the sized setters
are `Gen.Api.setters`, the sized constructor is `Gen.ApiExpansion.constructors`, each sized expansion method is in
`Gen.ApiExpansion.validated` and every method there that writes a member has a sized version; a written `netLimits_`
always comes with its new last element. -/
theorem sized_tables_erase_to_api :
    ApiSizes.setters.map SFn.erased = Api.setters.map FnDef.view ∧
    ApiSizes.constructors.map SFn.erased = ApiExpansion.constructors.map FnDef.view ∧
    (∀ f ∈ ApiSizes.expansion, (ApiExpansion.validated.map FnDef.view).contains f.erased = true) ∧
    (∀ g ∈ ApiExpansion.validated, (g.body.any fun s => match s with | .assign _ => true | _ => false) = true →
      (ApiSizes.expansion.map (·.name)).contains g.name = true) ∧
    (∀ f ∈ ApiSizes.setters ++ ApiSizes.constructors ++ ApiSizes.expansion, f.body.all SStmt.wf = true) := by
  decide

/-- Every public non-const method of `Circuit` (`Gen.ApiExpansion.publicMutators`: the whole class surface) is one of:
a setter, a placement call, an expansion method — the three kinds of `ApiCall` —, an inline `(int effort)` wrapper that
only calls placement calls, or a method whose skeleton writes no member (the Disruption methods).  So a history of
`ApiCall`s is any history of calls of the public API. -/
theorem every_public_mutator_is_an_api_call :
    ∀ m ∈ ApiExpansion.publicMutators,
      (ApiSizes.setters.map (·.name)).contains m.1 = true ∨ (Api.placementCalls.map (·.name)).contains m.1 = true ∨
      (ApiSizes.expansion.map (·.name)).contains m.1 = true ∨
      (ApiExpansion.effortWrappers.any fun w => w.1 == m.1 &&
        w.2.all fun c => (Api.placementCalls.map (·.name)).contains c.1) = true ∨
      (ApiExpansion.validated.any fun g => g.name == m.1 &&
        g.body.all fun s => match s with | .assign _ => false | _ => true) = true := by
  decide

/-- the member a write site of the placers targets (`none`: the in-use flag or a method call) -/
def targetMember : WriteSets.Target → Option String
  | .cellX_ => some "cellX_"
  | .cellY_ => some "cellY_"
  | .cellOrientation_ => some "cellOrientation_"
  | .hasCellSizeUpdate_ => some "hasCellSizeUpdate_"
  | .hasNetUpdate_ => some "hasNetUpdate_"
  | .otherField n => some n
  | .isInUse_ => none
  | .method _ => none

def siteWrite (w : WriteSets.WriteSite) : Option (String × WKind) :=
  match w.kind, targetMember w.target with
  | .element, some m => some (m, .element)
  | .whole, some m => some (m, .whole)
  | _, _ => none

/-- what the placers (everything reachable from the three placement calls) write, from `Gen.WriteSets` -/
def placerWrites : List (String × WKind) := WriteSets.writeSites.filterMap siteWrite

/-- a write site is an element write or a whole write of a data member, or the scoped guard of the flag — not a
non-const method call on the circuit or on one of its members -/
def siteUnderstood (w : WriteSets.WriteSite) : Bool :=
  match w.kind, w.target with
  | .scoped, .isInUse_ => true
  | .scopedRestore, .isInUse_ => true
  | .element, t => (targetMember t).isSome
  | .whole, t => (targetMember t).isSome
  | _, _ => false

/-- **The placers cannot change a length.**  Every site at which the code reachable from the placement calls can
modify the circuit is an element write `member[i] = …` (which cannot change `member.size()`), a whole write of a
member that is not one of the vectors of the invariant (the two scalar update flags), or the scoped in-use guard.
There is no `resize`/`push_back`/`clear`/whole assignment of a vector and no call of a non-const `Circuit` method. -/
theorem placer_writes_keep_lengths :
    WriteSets.writeSites.all siteUnderstood = true ∧
    (∀ p ∈ placerWrites, p.2 = WKind.whole → p.1 ∉ trackedMembers) ∧
    WriteSets.constEscapes.length = 0 := by
  decide

/-- the tables of the public API, all regenerated from the source -/
def apiTables : Tables := ⟨ApiSizes.setters, ApiSizes.expansion, Api.placementCalls, placerWrites⟩

/-- **The constructor establishes the invariant.**  `Circuit(n)` on a default-constructed object (every vector
empty): for `n ≥ 0` it returns with `nbCells() = n`, the circuit not in use and consistent sizes; for `n < 0` it throws
(no object exists). -/
theorem constructor_sizes_consistent :
    ∀ f ∈ ApiSizes.constructors, ∀ (args : List Arg) (free : Int),
      (0 ≤ (argAt args 0).ival →
        (execS noCallS args free f.body ⟨false, Sz.empty⟩).out = .normal ∧
        (execS noCallS args free f.body ⟨false, Sz.empty⟩).st.inUse = false ∧
        (execS noCallS args free f.body ⟨false, Sz.empty⟩).st.sz.nbCells = (argAt args 0).ival ∧
        SizesConsistent (execS noCallS args free f.body ⟨false, Sz.empty⟩).st.sz) ∧
      ((argAt args 0).ival < 0 → (execS noCallS args free f.body ⟨false, Sz.empty⟩).out = .thrown) := by
  simp only [ApiSizes.constructors, List.forall_mem_cons]
  repeat' apply And.intro
  all_goals first
    | exact fun x hx => absurd hx List.not_mem_nil
    | (intro args free
       simp only [execS, cond_lt, Expr.eval, envOf_arg]
       constructor
       · intro h
         rw [if_neg (by omega)]
         refine ⟨rfl, rfl, ?_, ?_⟩
         · simp [applyEff, LExpr.eval, Sz.set, Sz.nbCells, Sz.empty]
         · constructor <;> simp [applyEff, LExpr.eval, Sz.set, Sz.nbCells, Sz.nbNets, Sz.nbPins, Sz.empty]
       · intro h
         rw [if_pos (by omega)])

set_option linter.unusedSimpArgs false in
/-- **Every setter and every expansion method preserves the invariant** — for all arguments (a vector argument has a
non-negative `size()`), in every state (in use or not), whether the call returns, returns early or throws at any of
its checks. -/
theorem setter_preserves_sizes :
    ∀ f ∈ ApiSizes.setters ++ ApiSizes.expansion, ∀ (args : List Arg) (free : Int) (st : SSt),
      ArgsOk args → SizesConsistent st.sz → SizesConsistent (execS noCallS args free f.body st).st.sz := by
  simp only [ApiSizes.setters, ApiSizes.expansion, List.cons_append, List.nil_append, List.forall_mem_cons]
  repeat' apply And.intro
  all_goals first
    | exact fun x hx => absurd hx List.not_mem_nil
    | (intro args free st ha hc
       have a0 := argLen_nonneg ha 0
       have a1 := argLen_nonneg ha 1
       have a2 := argLen_nonneg ha 2
       have a3 := argLen_nonneg ha 3
       have a4 := argLen_nonneg ha 4
       have hc' := hc
       obtain ⟨h1, h2, h3, h4, h5, h6, h7, h8, h9, h10, h11, h12⟩ := hc'
       simp only [Sz.nbCells, Sz.nbNets, Sz.nbPins] at h1 h2 h3 h4 h5 h6 h7 h8 h9 h10 h11 h12
       simp only [execS, cond_eq, cond_lt, cond_le, cond_or, cond_and, cond_not, cond_empty, Expr.eval, envOf_arg,
         envOf_nbCells, envOf_nbNets]
       repeat' refine res_ite (P := fun r => SizesConsistent r.st.sz) (fun _ => ?_) (fun _ => ?_)
       all_goals first
         | exact hc
         | (constructor <;>
             simp [applyEff, LExpr.eval, Sz.set, Sz.nbCells, Sz.nbNets, Sz.nbPins] at * <;> omega))

/-- … as a statement about calls by name (`runFnS`; a name that is not in the table leaves the circuit alone). -/
theorem api_call_preserves_sizes :
    ∀ (c : ApiCall) (st : SSt), c.argsOk → SizesConsistent st.sz → SizesConsistent (runApi apiTables c st).st.sz := by
  intro c st ha h
  have hs := setter_preserves_sizes
  refine runApi_preserves SizesConsistent apiTables ?_ ?_ ?_ c st ha h
  · exact runFnS_preserves _ _ (fun f hf => hs f (List.mem_append_left _ hf))
  · exact runFnS_preserves _ _ (fun f hf => hs f (List.mem_append_right _ hf))
  · intro m n s hm hc
    exact consistent_set_untracked n (placer_writes_keep_lengths.2.1 (m, .whole) hm rfl) hc

/-- **The sizes are consistent after any history.**  Start from the constructor (with any argument it accepts) and
make any finite sequence of calls of the public API, each with arbitrary arguments: setters (accepted, refused by one
of their checks, refused because the circuit is busy), expansion calls, and placement calls whose stage is an
arbitrary trace — callbacks that call any setters and any *nested placement calls* to any depth, element/whole writes
by the placers at the sites of `Gen.WriteSets`, exceptions of setters, callbacks, nested calls and stages at any point.
The circuit the last call leaves has consistent sizes.  Histories and traces are prefix-closed, so this holds after
every call of the history and at every point inside every stage. -/
theorem sizes_consistent_after_any_history :
    ∀ (ctor : SCall) (cs : List ApiCall),
      (runCtorS ApiSizes.constructors ctor).out = .normal → (∀ c ∈ cs, c.argsOk) →
      SizesConsistent (runHistory apiTables cs (runCtorS ApiSizes.constructors ctor).st).sz := by
  intro ctor cs hn ha
  have h0 : SizesConsistent (runCtorS ApiSizes.constructors ctor).st.sz := by
    unfold runCtorS runFnS lookupS at hn ⊢
    cases hf : ApiSizes.constructors.find? (fun f => f.name == ctor.name) with
    | none => rw [hf] at hn; cases hn
    | some f =>
      rw [hf] at hn
      simp only [] at hn ⊢
      have hc := constructor_sizes_consistent f (List.mem_of_find?_eq_some hf) ctor.args ctor.free
      by_cases hneg : 0 ≤ (argAt ctor.args 0).ival
      · exact (hc.1 hneg).2.2.2
      · rw [hc.2 (by omega)] at hn; cases hn
  have hs := setter_preserves_sizes
  refine runHistory_preserves SizesConsistent apiTables ?_ ?_ ?_ cs _ ha h0
  · exact runFnS_preserves _ _ (fun f hf => hs f (List.mem_append_left _ hf))
  · exact runFnS_preserves _ _ (fun f hf => hs f (List.mem_append_right _ hf))
  · intro m n s hm hc
    exact consistent_set_untracked n (placer_writes_keep_lengths.2.1 (m, .whole) hm rfl) hc

/-- **The size clauses of `Circuit::check()` follow from the invariant.**  `Gen.ApiSizes.checkClauses` is `check()` as
translated from the source (13 `if (c) throw` clauses) and `Gen.ApiSizes.getters` the inline `nbCells()`/`nbNets()`/
`nbPins()`.  (1) The getters are what the model reads from the sizes.  (2) Twelve clauses compare sizes (the seven
per-cell vectors `check()` looks at against `nbCells()`, `netLimits_.empty()`, `netWeights_` against `nbNets()`, the three
per-pin vectors against `nbPins()`) and are `checkSizeClauses`; exactly one, `netLimits_.front() != 0`, is about a value
and is not covered (nor are the values C10 does not speak about: sortedness of the limits, pin cells in range — C19 has
the refusals).  (3) On consistent sizes no size clause fires.  (4) Conversely the size clauses say everything the
invariant says except `cellRowPolarity_.size() == nbCells()`, which `check()` omits and the invariant has. -/
theorem check_size_clauses_hold :
    (∀ s : Sz, getterVal ApiSizes.getters s "nbCells" = s.nbCells ∧ getterVal ApiSizes.getters s "nbNets" = s.nbNets ∧
      getterVal ApiSizes.getters s "nbPins" = s.nbPins) ∧
    (∀ s : Sz, ApiSizes.checkClauses.filterMap (·.fires ApiSizes.getters s) = (checkSizeClauses s).map (·.1)) ∧
    ApiSizes.checkClauses.filter (fun c => (c.fires ApiSizes.getters Sz.empty).isNone) = [.frontNe "netLimits_" 0] ∧
    (∀ s : Sz, SizesConsistent s → ∀ c ∈ ApiSizes.checkClauses, c.fires ApiSizes.getters s ≠ some true) ∧
    (∀ s : Sz, checkPasses (checkSizeClauses s) = true ∧ s.len "cellRowPolarity_" = s.nbCells ∧ 0 ≤ s.len "netLimits_" ↔
      SizesConsistent s) := by
  have h2 : ∀ s : Sz, ApiSizes.checkClauses.filterMap (·.fires ApiSizes.getters s) = (checkSizeClauses s).map (·.1) :=
    fun s => rfl
  refine ⟨fun s => ⟨rfl, rfl, rfl⟩, h2, by decide, ?_, checkSizeClauses_pass_iff⟩
  intro s hs c hc hfire
  have hp := checkSizeClauses_pass hs
  have hm : true ∈ ApiSizes.checkClauses.filterMap (·.fires ApiSizes.getters s) :=
    List.mem_filterMap.mpr ⟨c, hc, hfire⟩
  rw [h2 s, List.mem_map] at hm
  obtain ⟨it, hit, ht⟩ := hm
  unfold checkPasses at hp
  have := List.all_eq_true.mp hp it hit
  simp [ht] at this

/-! Non-vacuity.  The constructor returns for `n = 3`; a history with a refused `setCellX` (wrong length), an
`addNet`, an `expandCellsByFactor`, and a `placeDetailed` whose callback calls `setCellY`, a nested `legalize` (whose
stage writes `cellX_[i]` and throws) and then throws itself; the arguments are well-formed; the result is consistent
(by `decide` on the executable form) and has 3 cells, 1 net, 2 pins. -/
def exampleHistory : List ApiCall := [
  .setter ⟨"setCellX", [⟨4, [], 0⟩], 0⟩,
  .setter ⟨"addNet", [⟨2, [0, 2], 0⟩, ⟨2, [], 0⟩, ⟨2, [], 0⟩, ⟨0, [], 0⟩], 0⟩,
  .expansion ⟨"expandCellsByFactor", [⟨3, [], 0⟩], 0⟩,
  .placement "placeDetailed"
    (.write "hasNetUpdate_" .whole 0 (.setter ⟨"setCellY", [⟨3, [], 0⟩], 0⟩
      (.nested "legalize" (.write "cellX_" .element 0 (.done true)) (.cbEnd true (.done false)))))]

example : (runCtorS ApiSizes.constructors ⟨"Circuit", [⟨0, [], 3⟩], 0⟩).out = .normal := by decide
example : ∀ c ∈ exampleHistory, c.argsOk := by
  simp [exampleHistory, ApiCall.argsOk, STr.argsOk, ArgsOk]
example : (runHistory apiTables exampleHistory (runCtorS ApiSizes.constructors ⟨"Circuit", [⟨0, [], 3⟩], 0⟩).st).sz.toList
    = [3, 3, 3, 3, 3, 3, 3, 3, 2, 1, 2, 2, 2, 0, 2] := by decide
/-- … and the invariant is not trivially true: a `cellX_` of the wrong length violates it. -/
example : ¬ SizesConsistent (Sz.ofList [3, 3, 3, 3, 3, 4, 3, 3, 1, 0, 0, 0, 0, 0, 0]) := by
  rw [← consistent_iff]; decide

end Sizes

/-! ## Net arrays: the VALUE clauses of "internally consistent"

`Model/NetsValue.lean` is the constructor, `Circuit::addNet` and `Circuit::setNets` on the values of `netLimits_` and
`pinCells_` (and the lengths of the offset / weight vectors), statement for statement; `drv_C10` runs it against the
real object on histories of valid and malformed calls (`nv*` lines: outcome, both arrays and the three lengths compared
after every call).  `Wf` is the value invariant; the 13th clause of `Circuit::check()` is its `front` field. -/
section Nets
open ColoVerif.NetsValue

/-- The constructor establishes the value invariant (for every cell count the constructor accepts — and the others). -/
theorem nets_wf_constructor (n : Int) : Wf (NetsValue.init n) := init_wf n

/-- An accepted `addNet` — any cells, any offset lengths — keeps the invariant. -/
theorem nets_wf_addNet (s s' : Nets) (cells : List Int) (nxo nyo : Nat) (h : Wf s)
    (hr : addNet s cells nxo nyo = some s') : Wf s' := addNet_wf h hr

/-- An accepted `setNets` establishes the invariant whatever the circuit held before (no hypothesis on `s`). -/
theorem nets_wf_setNets (s s' : Nets) (limits cells : List Int) (nxo nyo nwt : Nat)
    (hr : setNets s limits cells nxo nyo nwt = some s') : Wf s' := setNets_wf hr

/-- A refused net call changes nothing (in the model the refusal precedes every write; the driver compares the real
arrays after every refused call). -/
theorem refused_net_call_changes_nothing (s : Nets) (o : Op) (h : apply? s o = none) : step s o = s := by
  simp [step, h]

/-- **After any history** of `addNet` / `setNets` / `setNetWeights` calls, accepted or refused, with any arguments, the net arrays are
well formed: `netLimits_` starts at 0 (the 13th clause of `check()`), is non-decreasing and ends at `pinCells_.size()`,
every pin names an existing cell, and the offset / weight vectors have matching lengths. -/
theorem nets_wf_after_any_history (n : Int) (ops : List Op) : Wf (run (NetsValue.init n) ops) :=
  run_wf (init_wf n) ops

/-- The 13th clause of `Circuit::check()`, `netLimits_.front() == 0`, after any history. -/
theorem check_front_clause_holds (n : Int) (ops : List Op) :
    (run (NetsValue.init n) ops).limits.head? = some 0 := (nets_wf_after_any_history n ops).front

/-- **Every read the net getters make is in bounds and names an existing cell**, after any history: for every net
`net < nbNets()` the pin count is non-negative and for every `i < nbPinsNet(net)` the index `netLimits_[net] + i` used
by `pinCell` / `pinXOffset` / `pinYOffset` lies inside the per-pin vectors and `pinCell(net, i)` is a cell of the
circuit. -/
theorem net_getters_in_range (n : Int) (ops : List Op) (net : Nat)
    (hn : (net : Int) < nbNets (run (NetsValue.init n) ops)) :
    0 ≤ nbPinsNet (run (NetsValue.init n) ops) net ∧
    ∀ i : Nat, (i : Int) < nbPinsNet (run (NetsValue.init n) ops) net →
      0 ≤ pinIndex (run (NetsValue.init n) ops) net i ∧
      pinIndex (run (NetsValue.init n) ops) net i < (run (NetsValue.init n) ops).pins.length ∧
      (run (NetsValue.init n) ops).nx = (run (NetsValue.init n) ops).pins.length ∧
      (run (NetsValue.init n) ops).ny = (run (NetsValue.init n) ops).pins.length ∧
      0 ≤ pinCell (run (NetsValue.init n) ops) net i ∧ pinCell (run (NetsValue.init n) ops) net i < n := by
  have hw := nets_wf_after_any_history n ops
  have hc : (run (NetsValue.init n) ops).nbCells = n := run_nbCells _ ops
  obtain ⟨h0, hi⟩ := getters_in_range hw net hn
  refine ⟨h0, fun i hlt => ?_⟩
  obtain ⟨a, b, c, d⟩ := hi i hlt
  exact ⟨a, b, hw.xLen, hw.yLen, c, by rw [hc] at d; exact d⟩

/-- Non-vacuity: a history with a refused `addNet` (pin 5 of 3 cells), two accepted ones, a refused `setNets` (limits
not starting at 0) and an accepted one; the result has 2 nets, 3 pins. -/
example : run (NetsValue.init 3) [.add [0, 5] 2 2, .add [0, 2] 2 2, .add [1] 1 1, .set [1, 2] [0, 1] 2 2 0,
      .set [0, 1, 3] [2, 0, 1] 3 3 0, .weights 3, .weights 2]
    = ⟨3, [0, 1, 3], [2, 0, 1], 3, 3, 2⟩ := by decide
/-- … and the invariant is not trivially true: limits that do not start at 0, or a pin naming no cell, violate it. -/
example : ¬ Wf ⟨3, [1, 2], [0], 1, 1, 1⟩ ∧ ¬ Wf ⟨3, [0, 1], [3], 1, 1, 1⟩ := by decide

/-- **The hand-written value model of `addNet` agrees with the skeleton regenerated from the source**, for all states and
all arguments: the translated body of `addNet` (`Gen/ApiSizes.lean`), run by the size semantics on the abstraction
`absSz` of the value state, throws exactly when `NetsValue.addNet` refuses, and leaves exactly the lengths of
`netLimits_`, `netWeights_`, `pinCells_`, `pinXOffsets_`, `pinYOffsets_` and the `netLimits_.back()` of the value
model's result.  So the three validation steps of the hand model (length test, pin range, empty net) and its five
length effects are re-derived from `src/coloquinte.cpp` on every run.  -/
theorem addNet_value_model_matches_translation (s : Nets) (cells : List Int) (nxo nyo : Nat) :
    ∀ f ∈ ApiSizes.setters, f.name = "addNet" →
      ((BusySizes.execS BusySizes.noCallS (addArgs cells nxo nyo) 0 f.body ⟨false, absSz s⟩).out = .thrown
          ↔ addNet s cells nxo nyo = none) ∧
      netView (BusySizes.execS BusySizes.noCallS (addArgs cells nxo nyo) 0 f.body ⟨false, absSz s⟩).st.sz
        = netView (absSz (step s (.add cells nxo nyo))) := addNet_refines s cells nxo nyo

/-- The same for `setNets`: its four validation blocks (limits non-empty / starting at 0 / sorted; `limits.back()` against
the three pin vectors; the weights length; the pin range) and its six length effects, for all states and arguments. -/
theorem setNets_value_model_matches_translation (s : Nets) (limits cells : List Int) (nxo nyo nwt : Nat) :
    ∀ f ∈ ApiSizes.setters, f.name = "setNets" →
      ((BusySizes.execS BusySizes.noCallS (setArgs limits cells nxo nyo nwt) 0 f.body ⟨false, absSz s⟩).out = .thrown
          ↔ setNets s limits cells nxo nyo nwt = none) ∧
      netView (BusySizes.execS BusySizes.noCallS (setArgs limits cells nxo nyo nwt) 0 f.body ⟨false, absSz s⟩).st.sz
        = netView (absSz (step s (.set limits cells nxo nyo nwt))) := setNets_refines s limits cells nxo nyo nwt

/-- **The nets partition the pins**, after any history: the pin counts `nbPinsNet(n)` of the `nbNets()` nets add up to
`nbPins()` — together with `net_getters_in_range`, iterating "for every net, for every pin of the net" visits every entry of
the per-pin vectors exactly once. -/
theorem nets_partition_pins (n : Int) (ops : List Op) :
    ((List.range (nbNets (run (NetsValue.init n) ops)).toNat).map (nbPinsNet (run (NetsValue.init n) ops))).sum
      = nbPins (run (NetsValue.init n) ops) ∧
    nbPins (run (NetsValue.init n) ops) = (run (NetsValue.init n) ops).pins.length :=
  ⟨pins_partitioned (nets_wf_after_any_history n ops), (nets_wf_after_any_history n ops).backPins⟩

/-- The value invariant implies the five net clauses of the size invariant on the abstraction: `netLimits_` non-empty, one
weight per net, the three per-pin vectors of `nbPins() = netLimits_.back()` entries — the two invariants agree where they
overlap. -/
theorem nets_wf_implies_size_clauses (s : Nets) (h : Wf s) :
    1 ≤ (absSz s).len "netLimits_" ∧ (absSz s).len "netWeights_" = (absSz s).nbNets ∧
    (absSz s).len "pinCells_" = (absSz s).nbPins ∧ (absSz s).len "pinXOffsets_" = (absSz s).nbPins ∧
    (absSz s).len "pinYOffsets_" = (absSz s).nbPins := by
  have h1 := List.length_pos_iff.mpr h.nonempty
  have h2 := h.wLen
  have h3 := h.backPins
  have h4 := h.xLen
  have h5 := h.yLen
  simp only [absSz, BusySizes.Sz.nbNets, BusySizes.Sz.nbPins]
  simp
  omega

/-- … and for `setNetWeights` (length test, assignment). -/
theorem setNetWeights_value_model_matches_translation (s : Nets) (nwt : Nat) :
    ∀ f ∈ ApiSizes.setters, f.name = "setNetWeights" →
      ((BusySizes.execS BusySizes.noCallS [⟨nwt, [], 0⟩] 0 f.body ⟨false, absSz s⟩).out = .thrown
          ↔ setNetWeights s nwt = none) ∧
      netView (BusySizes.execS BusySizes.noCallS [⟨nwt, [], 0⟩] 0 f.body ⟨false, absSz s⟩).st.sz
        = netView (absSz (step s (.weights nwt))) := setNetWeights_refines s nwt

/-- non-vacuity: the table has an `addNet` entry -/
example : (∃ f ∈ ApiSizes.setters, f.name = "addNet") ∧ ∃ f ∈ ApiSizes.setters, f.name = "setNets" := by decide

end Nets

end ColoVerif.C10
