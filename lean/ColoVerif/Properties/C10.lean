import ColoVerif.Gen.Api
import ColoVerif.Proofs.BusyLemmas
import ColoVerif.Model.LegacyBusy
import ColoVerif.Properties.C01
/-
C10 — busy-circuit protocol and exception safety of placement calls.

The theorems are about `Gen.Api.setters` / `Gen.Api.placementCalls`, regenerated from
`src/coloquinte.cpp` on every run, under the semantics of `Model/Busy.lean` (which the driver
`drv_C10` executes on the traces observed by `harness/h_C10.cpp`).
-/
namespace ColoVerif.C10
open ColoVerif.ApiIR ColoVerif.Busy ColoVerif.Gen

/-- The structural setters.  This list is part of the specification (properties.jsonl, C10) and is
written by hand; it is not derived from the source. -/
def structuralSetters : List String :=
  ["addNet", "setNets", "setRows", "setupRows", "setCellIsFixed", "setCellIsObstruction", "setCellRowPolarity"]

/-- Every structural setter exists in the translated API (so the quantifier of `busy_refuses`
ranges over all seven). -/
theorem structural_setters_translated :
    ∀ n ∈ structuralSetters, (lookup Api.setters n).isSome = true := by decide

/-- The translated placement calls are exactly the three public ones. -/
theorem placement_calls_translated :
    Api.placementCalls.map (·.name) = ["placeGlobal", "legalize", "placeDetailed"] := by decide

/-- While the circuit is in use every structural setter throws — for all arguments — and leaves the
circuit equal (no member written, flag unchanged): in the translated body the busy guard precedes
the first write, return or call. -/
theorem busy_refuses :
    ∀ f ∈ Api.setters, f.name ∈ structuralSetters →
      ∀ (env : Env) (st : St), st.inUse = true → exec noCall env f.body st = ⟨.thrown, st, []⟩ := by
  intro f hf hn env st hu
  have key : ∀ f ∈ Api.setters, f.name ∈ structuralSetters → guardFirst f.body = true := by decide
  exact exec_guardFirst noCall env f.body st (key f hf hn) hu

/-- While a placement call is in progress the flag stays set: across any trace of callbacks, each
running any setters with any arguments (no setter touches the flag) and any *nested placement calls*
on the same circuit, to any depth, however they end (each placement call puts the flag back to what
it was when it started).  Traces are prefix-closed, so this is the state at every point of every
callback of every stage, and `busy_refuses` applies there. -/
theorem busy_in_every_callback :
    ∀ (t : Tr) (st : St), st.inUse = true → (runTr Api.setters Api.placementCalls t st).st.inUse = true := by
  intro t st hu
  have k1 : ∀ f ∈ Api.setters, flagFree f.body = true := by decide
  have k2 : ∀ f ∈ Api.placementCalls, restoringFirst f.body = true := by decide
  rw [runTr_flag Api.setters Api.placementCalls k1 k2 t st, hu]

/-- A placement call is: run the stage with the flag set, then give the flag the value it had when
the call started — whether the stage returned or threw.  (So the stage of an outermost call, and of
a call nested in a callback alike, runs busy; with `busy_in_every_callback` it is busy throughout.) -/
theorem placement_runs_stage_busy :
    ∀ f ∈ Api.placementCalls, ∀ (t : Tr) (st : St),
      execPlacement Api.setters Api.placementCalls f.body t st =
        (runTr Api.setters Api.placementCalls t { st with inUse := true }).restore st.inUse := by
  intro f hf t st
  have key : ∀ f ∈ Api.placementCalls, restoringCall f.body = true := by decide
  obtain ⟨n, hn⟩ := exec_restoringCall (fun _ s => runTr Api.setters Api.placementCalls t s) emptyEnv f.body (key f hf) st
  exact hn

/-- After the OUTERMOST placement call (one that started on a circuit not in use) has ended — by
return, by an exception of a callback at any index, by an exception of the stage at any point
(infeasible legalization, rejected parameters, …), after any nested calls — the circuit is no longer
in use.  For every stage trace and every initial state that is not in use. -/
theorem busy_released :
    ∀ f ∈ Api.placementCalls, ∀ (t : Tr) (st : St), st.inUse = false →
      (execPlacement Api.setters Api.placementCalls f.body t st).st.inUse = false := by
  intro f hf t st h0
  have key : ∀ f ∈ Api.placementCalls, guardedFirst f.body = true := by decide
  exact exec_guardedFirst _ emptyEnv f.body st (key f hf) h0

/-- A placement call made while another one is in progress (from a callback) does not release the
circuit when it ends, by return or by exception: the flag is what it was. -/
theorem nested_call_keeps_busy :
    ∀ f ∈ Api.placementCalls, ∀ (t : Tr) (st : St),
      (execPlacement Api.setters Api.placementCalls f.body t st).st.inUse = st.inUse := by
  intro f hf t st
  have key : ∀ f ∈ Api.placementCalls, restoringFirst f.body = true := by decide
  exact exec_restoringFirst _ emptyEnv f.body st (key f hf)

/-- … and the call itself is refused to nobody: it ends by return or by the exception, it is never
stuck (an exception thrown inside propagates to the caller): if every way to the end of the stage
finds it throwing, the call does not return normally. -/
theorem exception_propagates :
    ∀ f ∈ Api.placementCalls, ∀ (t : Tr) (st : St), t.endsThrowing = true →
      (execPlacement Api.setters Api.placementCalls f.body t st).out ≠ .normal := by
  intro f hf t st ht
  have key : ∀ f ∈ Api.placementCalls, guardedCall f.body = true := by decide
  exact execPlacement_propagates Api.setters Api.placementCalls f.body (key f hf) t ht st

/-- A placement call whose callbacks invoke (any) translated setters and placement calls ends by return
or by an exception: no path of the translated API aborts or gets stuck (no `assert` is left in a setter). -/
theorem placement_returns_or_throws :
    ∀ f ∈ Api.placementCalls, ∀ (t : Tr) (st : St), t.known Api.setters Api.placementCalls = true →
      (execPlacement Api.setters Api.placementCalls f.body t st).out = .normal ∨
      (execPlacement Api.setters Api.placementCalls f.body t st).out = .thrown := by
  intro f hf t st hk
  have k1 : ∀ f ∈ Api.placementCalls, guardedCall f.body = true := by decide
  have k2 : ∀ f ∈ Api.setters, assertFree f.body = true := by decide
  exact execPlacement_out Api.setters Api.placementCalls k2 k1 f.body (k1 f hf) t st hk

/-- **Third clause: a legalization that failed has left the placement exactly as it was** — restated
from C01 (`C01.failed_legalize_unchanged`), over the legalization model that `drv_C01` executes
against `Circuit::legalize`: `legalizeInPlace` is the call as the C++ sees it (the circuit object after
the call and the exception, if any).  If the call fails, for whatever reason (rejected parameters,
Tetris/Abacus failure, a cell that could not be placed), the circuit after the call is the circuit
before it — every cell position and orientation, and everything else; the error was raised before
`exportPlacement`, the only writer.  For every circuit, all parameters, every rounding of the ordering key. -/
theorem failed_legalize_leaves_placement (rnd : Rat → Rat) (p : Legalize.Params) (c : ColoVerif.Circuit) (e : Legalize.Err)
    (h : Legalize.legalizeWith rnd p c = .error e) :
    (C01.legalizeInPlace rnd p c).1 = c ∧ (C01.legalizeInPlace rnd p c).2 = some e ∧
    ((p.check = false ∧ e = .params) ∨ (p.check = true ∧ Legalize.run rnd p (Legalize.fromCircuit c) = .error e)) := by
  obtain ⟨h1, h2⟩ := C01.failed_legalize_unchanged rnd p c e h
  exact ⟨by rw [h1], by rw [h1], h2⟩

/-! Non-vacuity: a concrete trace.  The callback calls `setRows` (refused, nothing written), then
`legalize` on the same circuit (its stage throws: the nested call ends by the exception, circuit
still in use), `setRows` again (still refused) and then throws; the outer call ends with the
exception and the flag cleared. -/
example :
    ∀ f ∈ Api.placementCalls, f.name = "placeDetailed" →
    execPlacement Api.setters Api.placementCalls f.body
      (.setter ⟨"setRows", ⟨3, 0, [⟨2, [], 0⟩]⟩⟩ (.nested "legalize" (.done true)
        (.setter ⟨"setRows", ⟨3, 0, [⟨2, [], 0⟩]⟩⟩ (.cbEnd true (.done false))))) ⟨false, []⟩
      = ⟨.thrown, ⟨false, []⟩, ["set setRows throw:runtime_error w=0", "end throw inuse=1",
                                 "set setRows throw:runtime_error w=0"]⟩ := by decide

example : ∃ f ∈ Api.setters, f.name ∈ structuralSetters := by decide
example : (Tr.cbEnd true (.done false)).endsThrowing = true := by decide

end ColoVerif.C10
