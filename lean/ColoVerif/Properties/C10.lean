import ColoVerif.Gen.Api
import ColoVerif.Proofs.BusyLemmas
import ColoVerif.Model.LegacyBusy
/-
C10 — busy-circuit protocol and exception safety of placement calls.

The theorems are about `Gen.Api.setters` / `Gen.Api.placementCalls`, regenerated from
`src/coloquinte.cpp` on every run, under the semantics of `Model/Busy.lean` (which the driver
`drv_C10` executes on the traces observed by `harness/h_C10.cpp`).
-/
namespace ColoVerif.C10
open ColoVerif.ApiIR ColoVerif.Busy ColoVerif.Gen

/-- The structural setters.  This list is part of the specification (properties.jsonl, C10) and is
written by hand; it is not derived from the source. -/
def structuralSetters : List String :=
  ["addNet", "setNets", "setRows", "setupRows", "setCellIsFixed", "setCellIsObstruction", "setCellRowPolarity"]

/-- Every structural setter exists in the translated API (so the quantifier of `busy_refuses`
ranges over all seven). -/
theorem structural_setters_translated :
    ∀ n ∈ structuralSetters, (lookup Api.setters n).isSome = true := by decide

/-- The translated placement calls are exactly the three public ones. -/
theorem placement_calls_translated :
    Api.placementCalls.map (·.name) = ["placeGlobal", "legalize", "placeDetailed"] := by decide

/-- While the circuit is in use every structural setter throws — for all arguments — and leaves the
circuit equal (no member written, flag unchanged): in the translated body the busy guard precedes
the first write, return or call. -/
theorem busy_refuses :
    ∀ f ∈ Api.setters, f.name ∈ structuralSetters →
      ∀ (env : Env) (st : St), st.inUse = true → exec noCall env f.body st = ⟨.thrown, st, []⟩ := by
  intro f hf hn env st hu
  have key : ∀ f ∈ Api.setters, f.name ∈ structuralSetters → guardFirst f.body = true := by decide
  exact exec_guardFirst noCall env f.body st (key f hf hn) hu

/-- During a placement call the flag stays set across any sequence of callbacks, each running any
setters with any arguments (no setter touches the flag): `busy_refuses` therefore applies inside
every callback of every stage. -/
theorem busy_in_every_callback :
    ∀ (cbs : List Callback) (st : St), st.inUse = true → (runCallbacks Api.setters cbs st).st.inUse = true := by
  intro cbs st hu
  have key : ∀ f ∈ Api.setters, flagFree f.body = true := by decide
  rw [runCallbacks_flag Api.setters key cbs st, hu]

/-- After a placement call has ended — by return, by an exception of a callback at any index, by an
exception of the stage at any point (infeasible legalization, rejected parameters, …) — the circuit
is no longer in use.  For every stage trace and every initial state. -/
theorem busy_released :
    ∀ f ∈ Api.placementCalls, ∀ (sg : Stage) (st : St),
      (execPlacement Api.setters f.body sg st).st.inUse = false := by
  intro f hf sg st
  have key : ∀ f ∈ Api.placementCalls, guardedFirst f.body = true := by decide
  exact exec_guardedFirst _ emptyEnv f.body st (key f hf)

/-- … and the call itself is refused to nobody: it ends by return or by the exception, it is never
stuck (an exception thrown inside propagates to the caller). -/
theorem exception_propagates :
    ∀ f ∈ Api.placementCalls, ∀ (cbs : List Callback) (st : St),
      (execPlacement Api.setters f.body ⟨cbs, true⟩ st).out ≠ .normal := by
  intro f hf cbs st
  have key : ∀ f ∈ Api.placementCalls, guardedCall f.body = true := by decide
  exact execPlacement_propagates Api.setters f.body (key f hf) cbs st

/-- A placement call whose callbacks invoke (any) translated setters ends by return or by an exception:
no path of the translated API aborts or gets stuck (no `assert` is left in a setter). -/
theorem placement_returns_or_throws :
    ∀ f ∈ Api.placementCalls, ∀ (sg : Stage) (st : St), (∀ cb ∈ sg.cbs, cb.known Api.setters) →
      (execPlacement Api.setters f.body sg st).out = .normal ∨ (execPlacement Api.setters f.body sg st).out = .thrown := by
  intro f hf sg st hk
  have k1 : ∀ f ∈ Api.placementCalls, guardedCall f.body = true := by decide
  have k2 : ∀ f ∈ Api.setters, assertFree f.body = true := by decide
  exact execPlacement_out Api.setters k2 f.body (k1 f hf) sg st hk

/-! Non-vacuity: a concrete trace.  The callback calls `setRows` (refused, nothing written) and
then throws; the call ends with the exception and the flag cleared. -/
example :
    execPlacement Api.setters [.scopeGuard, .call "GlobalPlacer::place"]
      ⟨[⟨[⟨"setRows", ⟨3, 0, [⟨2, [], 0⟩]⟩⟩], true⟩], false⟩ ⟨false, []⟩
      = ⟨.thrown, ⟨false, []⟩, ["set setRows throw:runtime_error w=0"]⟩ := by decide

example : ∃ f ∈ Api.setters, f.name ∈ structuralSetters := by decide

end ColoVerif.C10
