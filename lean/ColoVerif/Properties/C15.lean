import ColoVerif.Proofs.Freespace
import ColoVerif.Proofs.GeomTie
/-
C15 — free row space is exactly the rows minus fixed obstructions.

All theorems are about `Row.freespace` / `Circuit.computeRows` of `Model/Freespace.lean`, the
definitions the driver `drv_C15` executes against `Row::freespace` / `Circuit::computeRows`.
They hold for *all* rows and obstacle lists (no well-formedness hypotheses), with the conventions
of the code: an obstacle is read with min/max put in order on both axes (`Freespace.Obstructs`),
a row's x-range is `[lo, hi) = [min minX maxX, max minX maxX)` (for a well-formed row this is
`[minX, maxX)`, see `lo_wf`/`hi_wf`), and a row with `maxY ≤ minY` has no free space.
-/
namespace ColoVerif.C15
open ColoVerif ColoVerif.Freespace

/-- Every returned segment is a non-empty x-range inside the row's x-range (and exists only for
rows of positive height). -/
theorem freespace_inside (r : Row) (obs : List Rect) (s : Row) (hs : s ∈ r.freespace obs) :
    lo r.rect ≤ s.rect.minX ∧ s.rect.minX < s.rect.maxX ∧ s.rect.maxX ≤ hi r.rect ∧
    r.rect.minY < r.rect.maxY := by
  obtain ⟨iv, hiv, rfl⟩ := (Row.mem_freespace r obs s).mp hs
  obtain ⟨h0, h1, h2, h3⟩ := freeIntervals_inside r.rect obs iv hiv
  exact ⟨h1, h2, h3, h0⟩

/-- The segments come left to right and are pairwise disjoint — in fact strictly separated: a later
segment starts strictly after the end of an earlier one. -/
theorem freespace_disjoint_sorted (r : Row) (obs : List Rect) :
    (r.freespace obs).Pairwise (fun a b => a.rect.maxX < b.rect.minX) := by
  simp only [Row.freespace]
  rw [List.pairwise_map]
  exact freeIntervals_pairwise r.rect obs

/-- Every segment has exactly the row's y-range and keeps its orientation. -/
theorem freespace_full_height_orient (r : Row) (obs : List Rect) (s : Row) (hs : s ∈ r.freespace obs) :
    s.rect.minY = r.rect.minY ∧ s.rect.maxY = r.rect.maxY ∧ s.orient = r.orient := by
  obtain ⟨iv, _, rfl⟩ := (Row.mem_freespace r obs s).mp hs
  exact ⟨rfl, rfl, rfl⟩

/-- No column of a segment is touched by any obstacle; hence the segment does not intersect
(`Rectangle::intersects`) any obstacle that has an interior, nor the normalisation of any obstacle
at all. -/
theorem freespace_misses_obstacles (r : Row) (obs : List Rect) (s : Row) (hs : s ∈ r.freespace obs)
    (o : Rect) (ho : o ∈ obs) :
    (∀ x, s.rect.minX ≤ x → x < s.rect.maxX → ¬ Obstructs r.rect o x) ∧
    (o.minX < o.maxX → o.minY < o.maxY → s.rect.intersects o = false) ∧
    (o.normalize.minX < o.normalize.maxX → o.normalize.minY < o.normalize.maxY →
      s.rect.intersects o.normalize = false) := by
  obtain ⟨iv, hiv, rfl⟩ := (Row.mem_freespace r obs s).mp hs
  have hin := freeIntervals_inside r.rect obs iv hiv
  have hcol : ∀ x, iv.1 ≤ x → x < iv.2 → ¬ Obstructs r.rect o x :=
    fun x h1 h2 => freeIntervals_misses r.rect obs iv hiv x h1 h2 o ho
  refine ⟨hcol, ?_, ?_⟩
  · intro hw hh
    apply Bool.eq_false_iff.mpr
    intro hint
    simp only [Rect.intersects, Bool.and_eq_true, decide_eq_true_eq] at hint
    -- the column max iv.1 o.minX lies in both
    apply hcol (max iv.1 o.minX) (by omega) (by omega)
    simp only [Obstructs]
    omega
  · simp only [normalize_minX, normalize_maxX, normalize_minY, normalize_maxY]
    intro hw hh
    apply Bool.eq_false_iff.mpr
    intro hint
    simp only [Rect.intersects, Bool.and_eq_true, decide_eq_true_eq] at hint
    simp only [normalize_minX, normalize_maxX, normalize_minY, normalize_maxY] at hint
    apply hcol (max iv.1 (min o.minX o.maxX)) (by omega) (by omega)
    simp only [Obstructs]
    omega

/-- Every column of the row (positive height) that no obstacle touches lies in some segment. -/
theorem freespace_complete (r : Row) (obs : List Rect) (x : Int) (hy : r.rect.minY < r.rect.maxY)
    (hx1 : lo r.rect ≤ x) (hx2 : x < hi r.rect) (hfree : ∀ o ∈ obs, ¬ Obstructs r.rect o x) :
    ∃ s ∈ r.freespace obs, s.rect.minX ≤ x ∧ x < s.rect.maxX := by
  obtain ⟨iv, hiv, h⟩ := freeIntervals_complete r.rect obs x hy hx1 hx2 hfree
  exact ⟨_, (Row.mem_freespace r obs _).mpr ⟨iv, hiv, rfl⟩, h⟩

/-- Maximality.  (1) No segment can be extended: it starts at the row's lower end or right after a
column touched by an obstacle, and it ends at the row's upper end or at a touched column.
(2) Two consecutive segments are separated by a touched column. -/
theorem freespace_maximal (r : Row) (obs : List Rect) :
    (∀ s ∈ r.freespace obs,
      (s.rect.minX = lo r.rect ∨ ∃ o ∈ obs, Obstructs r.rect o (s.rect.minX - 1)) ∧
      (s.rect.maxX = hi r.rect ∨ ∃ o ∈ obs, Obstructs r.rect o s.rect.maxX)) ∧
    (∀ l₁ a b l₂, r.freespace obs = l₁ ++ a :: b :: l₂ →
      ∃ x, a.rect.maxX ≤ x ∧ x < b.rect.minX ∧ ∃ o ∈ obs, Obstructs r.rect o x) := by
  have h1 : ∀ s ∈ r.freespace obs,
      (s.rect.minX = lo r.rect ∨ ∃ o ∈ obs, Obstructs r.rect o (s.rect.minX - 1)) ∧
      (s.rect.maxX = hi r.rect ∨ ∃ o ∈ obs, Obstructs r.rect o s.rect.maxX) := by
    intro s hs
    obtain ⟨iv, hiv, rfl⟩ := (Row.mem_freespace r obs s).mp hs
    exact freeIntervals_maximal r.rect obs iv hiv
  refine ⟨h1, ?_⟩
  intro l₁ a b l₂ heq
  have hp := freespace_disjoint_sorted r obs
  rw [heq, List.pairwise_append] at hp
  have hab : a.rect.maxX < b.rect.minX := (List.pairwise_cons.mp hp.2.1).1 b (by simp)
  have ha : a ∈ r.freespace obs := by rw [heq]; simp
  have hb : b ∈ r.freespace obs := by rw [heq]; simp
  have hbin := freespace_inside r obs b hb
  rcases (h1 a ha).2 with h | h
  · omega
  · exact ⟨a.rect.maxX, Int.le_refl _, hab, h⟩

/-- `computeRows` is the concatenation, in row order, of the rows' free space with respect to the
extra obstacles and the placements of the cells that are fixed *and* obstructions — so the six
theorems above apply to each of its segments with `obs := extra ++ c.obstacles`. -/
theorem computeRows_segments (c : Circuit) (extra : List Rect) (s : Row) :
    s ∈ c.computeRows extra ↔ ∃ r ∈ c.rows, s ∈ r.freespace (extra ++ c.obstacles) := by
  simp only [Circuit.computeRows, List.mem_flatMap]

/-- Which obstacles the circuit contributes: exactly the placements of fixed obstruction cells. -/
theorem obstacles_mem (c : Circuit) (o : Rect) :
    o ∈ c.obstacles ↔ ∃ cl ∈ c.cells, cl.fixed = true ∧ cl.obstruction = true ∧ o = cl.placement := by
  simp only [Circuit.obstacles, List.mem_map, List.mem_filter, Bool.and_eq_true]
  constructor
  · rintro ⟨cl, ⟨h1, h2, h3⟩, rfl⟩; exact ⟨cl, h1, h2, h3, rfl⟩
  · rintro ⟨cl, h1, h2, h3, rfl⟩; exact ⟨cl, ⟨h1, h2, h3⟩, rfl⟩

/-- Movable cells and fixed cells flagged as non-obstructions do not influence the result: inserting,
deleting or changing such cells in any way (`SameUpToIgnored`) leaves `computeRows` unchanged. -/
theorem computeRows_ignores (c c' : Circuit) (extra : List Rect) (hrows : c.rows = c'.rows)
    (hcells : SameUpToIgnored c.cells c'.cells) : c.computeRows extra = c'.computeRows extra := by
  simp only [Circuit.computeRows, hrows, Circuit.obstacles_congr c c' hcells]

/-- Pointwise form: same number of cells and, index by index, the same cell or two cells that are
both movable or non-obstructions (whatever their sizes, positions, orientations, flags). -/
theorem computeRows_ignores_pointwise (c c' : Circuit) (extra : List Rect) (hrows : c.rows = c'.rows)
    (hlen : c.cells.length = c'.cells.length)
    (h : ∀ i, i < c.cells.length → c.cell i = c'.cell i ∨ ((c.cell i).ignored ∧ (c'.cell i).ignored)) :
    c.computeRows extra = c'.computeRows extra :=
  computeRows_ignores c c' extra hrows (SameUpToIgnored.of_pointwise _ _ hlen h)

/-- In particular all ignored cells can be deleted. -/
theorem computeRows_ignores_delete (c : Circuit) (extra : List Rect) :
    c.computeRows extra =
      ({ c with cells := c.cells.filter (fun cl => cl.fixed && cl.obstruction) } : Circuit).computeRows extra := by
  simp only [Circuit.computeRows, Circuit.obstacles, List.filter_filter, Bool.and_self]

/-! Reading aids and non-vacuity. -/

/-- for a well-formed row the x-range is `[minX, maxX)` -/
theorem lo_wf (r : Rect) (h : r.minX ≤ r.maxX) : lo r = r.minX := by simp only [lo]; omega
theorem hi_wf (r : Rect) (h : r.minX ≤ r.maxX) : hi r = r.maxX := by simp only [hi]; omega

/-- for a well-formed obstacle, `Obstructs` is: positive height, open y-ranges meet, `x` in its x-range -/
theorem obstructs_wf (row o : Rect) (x : Int) (hx : o.minX ≤ o.maxX) (hy : o.minY ≤ o.maxY) :
    Obstructs row o x ↔
      (o.minY < o.maxY ∧ o.minY < row.maxY ∧ row.minY < o.maxY ∧ o.minX ≤ x ∧ x < o.maxX) := by
  simp only [Obstructs]; omega

-- the hypotheses of the theorems are satisfiable, and the model computes what the C++ prints
example : (⟨⟨0, 10, 0, 4⟩, .FS⟩ : Row).freespace [⟨7, 8, 0, 4⟩, ⟨3, 5, 1, 2⟩, ⟨1, 2, -3, 9⟩] =
    [⟨⟨0, 1, 0, 4⟩, .FS⟩, ⟨⟨2, 3, 0, 4⟩, .FS⟩, ⟨⟨5, 7, 0, 4⟩, .FS⟩, ⟨⟨8, 10, 0, 4⟩, .FS⟩] := by decide
example : Obstructs ⟨0, 10, 0, 4⟩ ⟨5, 3, 2, 1⟩ 4 := by simp only [Obstructs]; omega
example : ¬ Obstructs ⟨0, 10, 0, 4⟩ ⟨3, 5, 2, 2⟩ 4 := by simp only [Obstructs]; omega
example : SameUpToIgnored [⟨1, 1, 0, 0, .N, false, true, .ANY⟩, ⟨2, 2, 0, 0, .N, true, true, .ANY⟩]
    [⟨2, 2, 0, 0, .N, true, true, .ANY⟩, ⟨9, 9, 5, 5, .E, true, false, .SAME⟩] :=
  .dropLeft rfl (.keep _ (.dropRight rfl .nil))

/-- The shared geometry layer this property's model is written in is *translated from the C++ source*:
the definitions of `Gen/GeomFns.lean`, regenerated on every run from the clang AST of the bodies of
`Rectangle::Rectangle / width / height / intersects / contains / intersection`,
`Circuit::isFixed / isObstruction / x / y / orientation / placedWidth / placedHeight / placement` and
`isTurn`, are equal as functions to the hand-written `Rect.*` / `Cell.*` used by `Row.freespace`,
`Circuit.obstacles` (`Cell.placement` of the cells with `fixed && obstruction`) and by the statements
above (`Rect.intersects`).  A semantic change of one of these bodies breaks this theorem.  (That
`Row::freespace` itself — boost::polygon — computes the model's list remains the correspondence stream's job.) -/
theorem geometry_layer_translated :
    Gen.Geom.Rectangle_ctor = Rect.mk ∧ Gen.Geom.Rectangle_ctor0 = ⟨0, 0, 0, 0⟩ ∧
    Gen.Geom.Rectangle_width = Rect.width ∧ Gen.Geom.Rectangle_height = Rect.height ∧
    Gen.Geom.Rectangle_intersects = Rect.intersects ∧ Gen.Geom.Rectangle_contains = Rect.contains ∧
    Gen.Geom.Rectangle_intersection = Rect.intersection ∧
    Gen.Geom.isTurn = Orient.isTurn ∧
    Gen.Geom.Circuit_isFixed = Cell.fixed ∧ Gen.Geom.Circuit_isObstruction = Cell.obstruction ∧
    Gen.Geom.Circuit_x = Cell.x ∧ Gen.Geom.Circuit_y = Cell.y ∧ Gen.Geom.Circuit_orientation = Cell.orient ∧
    Gen.Geom.Circuit_placedWidth = Cell.placedWidth ∧ Gen.Geom.Circuit_placedHeight = Cell.placedHeight ∧
    Gen.Geom.Circuit_placement = Cell.placement :=
  ⟨GeomTie.gen_Rectangle_ctor_eq_model, GeomTie.gen_Rectangle_ctor0_eq_model.2,
   GeomTie.gen_Rectangle_width_eq_model, GeomTie.gen_Rectangle_height_eq_model,
   GeomTie.gen_Rectangle_intersects_eq_model, GeomTie.gen_Rectangle_contains_eq_model,
   GeomTie.gen_Rectangle_intersection_eq_model, GeomTie.gen_isTurn_eq_model,
   GeomTie.gen_Circuit_isFixed_eq_model, GeomTie.gen_Circuit_isObstruction_eq_model,
   GeomTie.gen_Circuit_x_eq_model, GeomTie.gen_Circuit_y_eq_model, GeomTie.gen_Circuit_orientation_eq_model,
   GeomTie.gen_Circuit_placedWidth_eq_model, GeomTie.gen_Circuit_placedHeight_eq_model,
   GeomTie.gen_Circuit_placement_eq_model⟩

/-- The two whole-circuit row queries are translated from the source, loops included
(`Gen.Geom.Circuit_computePlacementArea`, `Gen.Geom.Circuit_rowHeight`: `List.foldl`s of named step functions
generated from the clang AST of coloquinte.cpp):
* `Circuit::rowHeight()` equals the model's `Circuit.rowHeight` for every circuit (`none` = throws: no rows, or
  rows of different heights);
* `Circuit::computePlacementArea()` starts its min/max from `std::numeric_limits<int>::max()/min()`, so it equals
  `Circuit.placementArea` when the row coordinates are C++ `int`s (`GeomTie.RowsInInt`, decidable; only the first
  row's matter, and over unbounded `Int` a coordinate beyond INT_MAX would be clipped by the sentinel);
* for a circuit without rows both sides are `Rectangle(0, 0, 0, 0)` resp. `none`, with no hypothesis. -/
theorem geometry_loops_translated :
    Gen.Geom.Circuit_rowHeight = Circuit.rowHeight ∧
    (∀ c : Circuit, GeomTie.RowsInInt c → Gen.Geom.Circuit_computePlacementArea c = c.placementArea) ∧
    (∀ c : Circuit, c.rows = [] →
      Gen.Geom.Circuit_computePlacementArea c = ⟨0, 0, 0, 0⟩ ∧ c.placementArea = ⟨0, 0, 0, 0⟩ ∧
      Gen.Geom.Circuit_rowHeight c = none ∧ c.rowHeight = none) :=
  ⟨GeomTie.gen_Circuit_rowHeight_eq_model, GeomTie.gen_Circuit_computePlacementArea_eq_model, GeomTie.gen_no_rows⟩

-- non-vacuity of `RowsInInt`, and what the generated loops compute
example :
    let c : Circuit := ⟨[], [], [⟨⟨0, 10, 0, 4⟩, .N⟩, ⟨⟨-5, 8, 4, 8⟩, .FS⟩]⟩
    GeomTie.RowsInInt c ∧ Gen.Geom.Circuit_computePlacementArea c = ⟨-5, 10, 0, 8⟩ ∧
      Gen.Geom.Circuit_rowHeight c = some 4 := by decide

end ColoVerif.C15
