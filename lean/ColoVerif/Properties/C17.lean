import ColoVerif.Model.NetAsm
import ColoVerif.Model.LegacyNetAsm
import ColoVerif.Proofs.NetAsmScale
import ColoVerif.Proofs.NetAsmLsq
import ColoVerif.Model.NetTopology
import ColoVerif.Proofs.NetTopology
import ColoVerif.Proofs.NetAsmModels
import ColoVerif.Proofs.NetAsmFinalize
import ColoVerif.Proofs.NetAsmHomog
import ColoVerif.Proofs.NetTopologyF32
/-
C17 — the continuous solver of global placement honours real-valued net weights.

All statements are about `NetAsm.assemble`, the model the driver `drv_C17` executes and the
harness compares with the triplets/rhs captured from the real `MatrixCreator` (hook H2), and
they go through `Gen.NetWeightType.store`, the storage conversion regenerated from the declared
element type of `NetModel::netWeight_` on every run: with `std::vector<int>` the proofs below
stop type-checking (`store_exact` is no longer `rfl`).

The second half is about `NetTopology.topology`, the model of `NetModel::xTopology/yTopology`
(which circuit nets are stored, with which pins and which weight) that the driver executes on the
circuits of the topology stream and the harness compares with the real `NetModel`'s accessors.

Proved over `Rat` (exact arithmetic).  Not proved: float rounding inside the assembly and
convergence of Eigen's conjugate gradient.  The int → float conversions of `xTopology/yTopology`
*are* modelled (binary32 rounding, `Legalize.f32`).
-/
namespace ColoVerif.C17
open ColoVerif.NetAsm ColoVerif.NetTopology

/-- **Homogeneity of the assembly.**  Scaling all net weights (as passed to `NetModel::addNet`)
and all penalty strengths by `k` scales every matrix entry and every right-hand-side entry by `k`
and leaves the structure (unknowns, initial guess, non-zero flags) unchanged — for every net
list, offsets, placement, `ε`, penalty target/cutoff and each of the five assembly variants
(`createStar(topo)`, B2B, star, clique, light star). -/
theorem assembly_homogeneous (k : Rat) (m : Mode) (nbCells : Nat) (raws : List RawNet)
    (pl : List Rat) (ε : Rat) (pen : Option Penalty) :
    assemble m nbCells (raws.map (RawNet.scale k)) pl ε (pen.map (Penalty.scale k))
      = (assemble m nbCells raws pl ε pen).scale k :=
  assemble_scale k m nbCells raws pl ε pen

/-- Hence, for `k ≠ 0`, the scaled and the unscaled weights give linear systems `A x = b` with
the same solution set. -/
theorem solution_set_scale_invariant (k : Rat) (hk : k ≠ 0) (m : Mode) (nbCells : Nat)
    (raws : List RawNet) (pl : List Rat) (ε : Rat) (pen : Option Penalty) (x : Nat → Rat) :
    Solves (assemble m nbCells (raws.map (RawNet.scale k)) pl ε (pen.map (Penalty.scale k))) x
      ↔ Solves (assemble m nbCells raws pl ε pen) x := by
  rw [assembly_homogeneous]
  exact solves_scale k hk _ x

/-- The hypotheses of the least-squares theorems: stored cells are `-1` or valid, weights are
non-negative (stated on the nets with the weights the caller passed). -/
def WellFormed (nbCells : Nat) (raws : List RawNet) : Prop :=
  ∀ n ∈ buildWith (fun w => w) raws, NetOk nbCells n ∧ 0 ≤ n.weight

/-- **Two-pin nets and the initial star model are weighted least squares.**  The system assembled
by `NetModel::solveStar(params)` (two-pin nets: `addBipoint`; larger nets: a star with its own
unknown) is the normal-equation system of the documented quadratic `Q0` *with the real-valued
weights the caller passed*:  `Q(x + t) = Q(x) + 2⟨A x - b, t⟩ + ⟨A t, t⟩` for all `x, t`, i.e.
`A x - b = ½∇Q(x)` — the pull of a net on a cell is proportional to its weight. -/
theorem bipoint_star_is_least_squares (nbCells : Nat) (raws : List RawNet) (pl : List Rat) (ε : Rat)
    (h : WellFormed nbCells raws) :
    IsHalfGradient (assemble .star0 nbCells raws pl ε none)
      (fun x => Q0 x nbCells (buildWith (fun w => w) raws)) := by
  have e : Gen.NetWeightType.store = fun w => w := funext store_exact
  unfold assemble assembleWith assembleNets addPenaltyOpt
  rw [e]
  exact (create_star0_inv nbCells _ pl ε h).grad

/-- … with a positive semidefinite matrix, so every solution of `A x = b` is a global minimiser of
that quadratic: the initial placement is the weighted least-squares optimum. -/
theorem star_solution_minimizes (nbCells : Nat) (raws : List RawNet) (pl : List Rat) (ε : Rat)
    (h : WellFormed nbCells raws) (x : Nat → Rat)
    (hx : Solves (assemble .star0 nbCells raws pl ε none) x) (y : Nat → Rat) :
    Q0 x nbCells (buildWith (fun w => w) raws) ≤ Q0 y nbCells (buildWith (fun w => w) raws) := by
  have e : Gen.NetWeightType.store = fun w => w := funext store_exact
  have inv := create_star0_inv nbCells (buildWith (fun w => w) raws) pl ε h
  unfold assemble assembleWith assembleNets addPenaltyOpt at hx
  rw [e] at hx
  exact inv_solution_minimizes _ _ inv x hx y

/-- Hypothesis of the two-pin theorem: well-formed, and every stored net has two pins. -/
def TwoPin (nbCells : Nat) (raws : List RawNet) : Prop :=
  ∀ n ∈ buildWith (fun w => w) raws, NetOk nbCells n ∧ 0 ≤ n.weight ∧ n.pins.length ≤ 2

/-- **Two-pin nets in the re-weighted star and light-star models** (`NetModel::solve(pl, params)`):
the system is the normal-equation system of `Σ (W / max ε |p0(pl) - p1(pl)|) (p0 - p1)²` with the
real-valued weights `W`, its matrix is positive semidefinite, and every solution of `A x = b`
minimises that quadratic. -/
theorem two_pin_nets_are_least_squares (m : Mode) (hm : m = .star ∨ m = .lightStar) (nbCells : Nat)
    (raws : List RawNet) (pl : List Rat) (ε : Rat) (h : TwoPin nbCells raws) :
    IsHalfGradient (assemble m nbCells raws pl ε none)
        (fun x => QBip pl ε x (buildWith (fun w => w) raws))
      ∧ ∀ x, Solves (assemble m nbCells raws pl ε none) x →
          ∀ y, QBip pl ε x (buildWith (fun w => w) raws) ≤ QBip pl ε y (buildWith (fun w => w) raws) := by
  have e : Gen.NetWeightType.store = fun w => w := funext store_exact
  have inv := create_twopin_inv m hm nbCells (buildWith (fun w => w) raws) pl ε h
  unfold assemble assembleWith assembleNets addPenaltyOpt
  rw [e]
  exact ⟨inv.grad, fun x hx y => inv_solution_minimizes _ _ inv x hx y⟩

/-- Pre-fix behaviour (F12, `std::vector<int> netWeight_`), kept in `Model/LegacyNetAsm.lean`:
a net of weight ½ assembles the zero matrix and zero right-hand side, whereas the real-valued
assembly gives the entry ½ and right-hand side 5. -/
theorem weights_truncated :
    (Legacy.assembleLegacy .star0 1 Legacy.halfNet [] 1 none).triplets = [(0, 0, 0)]
      ∧ (Legacy.assembleLegacy .star0 1 Legacy.halfNet [] 1 none).rhs = [0]
      ∧ (assembleWith (fun w => w) .star0 1 Legacy.halfNet [] 1 none).triplets = [(0, 0, 1 / 2)]
      ∧ (assembleWith (fun w => w) .star0 1 Legacy.halfNet [] 1 none).rhs = [5] :=
  Legacy.weights_truncated_witness

/-- … and the pre-fix assembly is not homogeneous. -/
theorem legacy_assembly_not_homogeneous :
    (Legacy.assembleLegacy .star0 1 (Legacy.halfNet.map (RawNet.scale 2)) [] 1 none).triplets
      ≠ ((Legacy.assembleLegacy .star0 1 Legacy.halfNet [] 1 none).scale 2).triplets :=
  Legacy.legacy_not_homogeneous

/-! ### from the circuit to the solver: `NetModel::xTopology` / `yTopology` -/

/-- **Every net kept by `xTopology`/`yTopology` carries the weight of the circuit net it came
from.**  `keptIdx c` is the explicit index map from `NetModel` nets to circuit nets: it has one
entry per stored net, is strictly increasing (order-preserving), enumerates exactly the
non-degenerate circuit nets (`IsKept`: a movable pin plus a second movable pin or a fixed pin — so
only empty nets, pads-only nets and dangling single pins are skipped), and the `k`-th stored net
has the weight `Circuit::netWeight` and the pins of circuit net `(keptIdx c)[k]` — for every
circuit, on both axes. -/
theorem topology_weights_faithful (a : Axis) (c : Circuit) :
    (topology a c).length = (keptIdx c).length
      ∧ List.Pairwise (fun i j => i < j) (keptIdx c)
      ∧ (∀ i : Nat, i ∈ keptIdx c ↔ ∃ n, c.nets[i]? = some n ∧ IsKept c n = true)
      ∧ ∀ k i : Nat, (keptIdx c)[k]? = some i →
          ∃ n, c.nets[i]? = some n ∧ (topology a c)[k]? = some (⟨netWeight n, storedPins a c n⟩ : NetAsm.Net) := by
  rw [topology_eq_circuitNets]
  refine ⟨?_, keptIdxFrom_pairwise c c.nets 0, ?_, ?_⟩
  · unfold circuitNets keptIdx
    rw [List.length_map, keptIdxFrom_length]
  · intro i
    unfold keptIdx
    rw [keptIdxFrom_mem]
    simp
  · intro k i h
    obtain ⟨_, n, hn, hf⟩ := keptIdxFrom_get c (fun n => (⟨netWeight n, storedPins a c n⟩ : NetAsm.Net)) c.nets 0 k i h
    exact ⟨n, by simpa using hn, hf⟩

/-- **The pins of a stored net**: the pins of the circuit net on movable cells, in order, with the
offset to the cell centre (`offset - ½ placedWidth`), followed by the fixed pins folded into their
minimum and maximum position (`RangeOf`: both are positions of fixed pins of the net and bound all
of them), clamped to the placement area, one pin if the two coincide (`withFixed`). -/
theorem topology_pins_faithful (a : Axis) (c : Circuit) (n : ColoVerif.Net) :
    storedPins a c n
        = withFixed ((n.pins.filter (fun p => !(c.cell p.cell).fixed)).map (movablePin a c))
            (clampRange a c (walkPins a c n).range)
      ∧ RangeOf (fixedPositions a c n) (walkPins a c n).range := by
  refine ⟨?_, walkPins_rangeOf a c n⟩
  unfold storedPins
  rw [rawOf_pins]
  rfl

/-- **Least squares at the circuit level.**  The system that `solveStar(params)` assembles from
the `NetModel` returned by `xTopology(circuit)` / `yTopology(circuit)` is the normal-equation
system of `circuitQ`, the documented quadratic built from the circuit's *own* weights
(`Σ_{non-degenerate nets n} netWeight(n) · …`): `A x - b = ½∇Q(x)`. -/
theorem circuit_star_is_least_squares (a : Axis) (c : Circuit) (pl : List Rat) (ε : Rat)
    (h : CircuitOk c) :
    IsHalfGradient (assembleNets .star0 c.cells.length (topology a c) pl ε none) (circuitQ a c) := by
  have wf : WellFormed c.cells.length (rawNets a c) := by
    unfold WellFormed
    rw [buildWith_id_rawNets]
    exact circuitNets_wellFormed a c h
  have := bipoint_star_is_least_squares c.cells.length (rawNets a c) pl ε wf
  rw [buildWith_id_rawNets] at this
  exact this

/-- … and every exact solution of that system minimises the circuit's weighted quadratic: the
initial placement of a circuit is the weighted least-squares optimum for the circuit's weights. -/
theorem circuit_star_solution_minimizes (a : Axis) (c : Circuit) (pl : List Rat) (ε : Rat)
    (h : CircuitOk c) (x : Nat → Rat)
    (hx : Solves (assembleNets .star0 c.cells.length (topology a c) pl ε none) x) (y : Nat → Rat) :
    circuitQ a c x ≤ circuitQ a c y := by
  have wf : WellFormed c.cells.length (rawNets a c) := by
    unfold WellFormed
    rw [buildWith_id_rawNets]
    exact circuitNets_wellFormed a c h
  have := star_solution_minimizes c.cells.length (rawNets a c) pl ε wf x hx y
  rw [buildWith_id_rawNets] at this
  exact this

/-! ### the finalized system (what hook H2 observes and Eigen receives) -/

/-- Cells of the stored nets are `-1` or valid (`NetModel::check`); no condition on the weights. -/
def CellsOk (nbCells : Nat) (raws : List RawNet) : Prop :=
  ∀ n ∈ buildWith (fun w => w) raws, NetOk nbCells n

/-- **Homogeneity of the finalized system.**  `MatrixCreator::finalize` prepends (newest first) the
regularisation entries `regEntries` — `(i, i, 1e-8f)` for the unknowns whose non-zero flag is still
false — to the assembled triplets and touches nothing else.  The flags do not depend on the weights,
so the finalized system for the weights `k·W` has the *same* regularisation entries, every other
entry and the right-hand side multiplied by `k`, and the same dimensions and initial guess — for
all inputs and all five variants. -/
theorem finalized_assembly_homogeneous (k : Rat) (m : Mode) (nbCells : Nat) (raws : List RawNet)
    (pl : List Rat) (ε : Rat) (pen : Option Penalty) :
    (finalize (assemble m nbCells (raws.map (RawNet.scale k)) pl ε (pen.map (Penalty.scale k)))).mat
        = regEntries (assemble m nbCells raws pl ε pen)
          ++ (assemble m nbCells raws pl ε pen).mat.map (fun t => (t.1, t.2.1, k * t.2.2))
      ∧ (finalize (assemble m nbCells raws pl ε pen)).mat
        = regEntries (assemble m nbCells raws pl ε pen) ++ (assemble m nbCells raws pl ε pen).mat
      ∧ (finalize (assemble m nbCells (raws.map (RawNet.scale k)) pl ε (pen.map (Penalty.scale k)))).rhs
        = (finalize (assemble m nbCells raws pl ε pen)).rhs.map (fun v => k * v)
      ∧ (finalize (assemble m nbCells (raws.map (RawNet.scale k)) pl ε (pen.map (Penalty.scale k)))).initial
        = (finalize (assemble m nbCells raws pl ε pen)).initial
      ∧ (finalize (assemble m nbCells (raws.map (RawNet.scale k)) pl ε (pen.map (Penalty.scale k)))).matSize
        = (finalize (assemble m nbCells raws pl ε pen)).matSize
      ∧ (finalize (assemble m nbCells (raws.map (RawNet.scale k)) pl ε (pen.map (Penalty.scale k)))).nbCells
        = (finalize (assemble m nbCells raws pl ε pen)).nbCells := by
  rw [assembly_homogeneous]
  refine ⟨?_, finalize_mat _, ?_, ?_, ?_, ?_⟩
  · rw [finalize_mat, regEntries_scale]; rfl
  · rw [finalize_rhs, finalize_rhs]; rfl
  · rw [finalize_initial, finalize_initial]; rfl
  · rw [finalize_matSize, finalize_matSize]; rfl
  · rw [finalize_nbCells, finalize_nbCells]; rfl

/-- **The regularisation entries are inert.**  Each of them sits on the diagonal of a row that no
pin has touched: the row has no assembled entry and a zero right-hand side, so it reads
`1e-8 · x_i = 0` whatever the weights are (valid cell indices). -/
theorem regularisation_rows_inert (m : Mode) (nbCells : Nat) (raws : List RawNet) (pl : List Rat) (ε : Rat)
    (pen : Option Penalty) (h : CellsOk nbCells raws) :
    ∀ e ∈ regEntries (assemble m nbCells raws pl ε pen),
      e = (e.1, e.1, tiny) ∧ e.1 < (assemble m nbCells raws pl ε pen).matSize
        ∧ (∀ t ∈ (assemble m nbCells raws pl ε pen).mat, t.1 ≠ e.1)
        ∧ (assemble m nbCells raws pl ε pen).rhs.getD e.1 0 = 0 := by
  have e : Gen.NetWeightType.store = fun w => w := funext store_exact
  have fin : FinInv (assemble m nbCells raws pl ε pen) := by
    unfold assemble assembleWith
    rw [e]
    exact assembleNets_fin m nbCells _ pl ε pen h
  intro t ht
  obtain ⟨a, b, c⟩ := mem_regEntries _ t ht
  refine ⟨a, b, ?_, fin.zero _ c⟩
  intro u hu heq
  have := (fin.rows u hu).2
  rw [heq, c] at this
  exact Bool.noConfusion this

/-- **`finalize` is harmless under scaling**: for `k ≠ 0` the *finalized* systems — the objects
handed to Eigen and observed by hook H2 — assembled from the weights `W` and `k·W` (net weights and
penalty strengths) have the same solution set. -/
theorem finalize_scale_invariant (k : Rat) (hk : k ≠ 0) (m : Mode) (nbCells : Nat) (raws : List RawNet)
    (pl : List Rat) (ε : Rat) (pen : Option Penalty) (h : CellsOk nbCells raws) (x : Nat → Rat) :
    Solves (finalize (assemble m nbCells (raws.map (RawNet.scale k)) pl ε (pen.map (Penalty.scale k)))) x
      ↔ Solves (finalize (assemble m nbCells raws pl ε pen)) x := by
  have e : Gen.NetWeightType.store = fun w => w := funext store_exact
  have fin : FinInv (assemble m nbCells raws pl ε pen) := by
    unfold assemble assembleWith
    rw [e]
    exact assembleNets_fin m nbCells _ pl ε pen h
  rw [assembly_homogeneous]
  exact solves_finalize_scale k hk _ fin x

/-! ### every net model is weighted least squares -/

/-- **All four re-weighted net models (B2B, star, clique, light star), the initial star model, and
the penalty.**  The system assembled by `solveStar(params)`, `solve(pl, params)` or
`solveWithPenalty(pl, target, strength, params)` is the normal-equation system of
`QModel + penQ`: the documented quadratic of the selected net model — a sum over the nets of
springs whose stiffness is the net's real-valued weight `W` (times the model's constant:
`2/(nb(nb−1))`, `1/(nb−1)`, `1/nb`) divided by `max ε |distance in pl|`, *frozen* at the placement
`pl` the model is built around — plus the penalty springs `strength_i / max(|pl_i − target_i|, cutoff)`.
`Q(x + t) = Q(x) + 2⟨A x − b, t⟩ + ⟨A t, t⟩`, i.e. `A x − b = ½∇Q(x)`: the pull of a net on a cell
is proportional to its weight, in every model. -/
theorem net_models_are_least_squares (m : Mode) (nbCells : Nat) (raws : List RawNet) (pl : List Rat)
    (ε : Rat) (pen : Option Penalty) (h : WellFormed nbCells raws) (hε : 0 ≤ ε) (hp : PenaltyOk pen) :
    IsHalfGradient (assemble m nbCells raws pl ε pen)
      (fun x => QModel m pl ε x nbCells (buildWith (fun w => w) raws) + penQ pl pen nbCells x) := by
  have e : Gen.NetWeightType.store = fun w => w := funext store_exact
  unfold assemble assembleWith
  rw [e]
  exact (assembleNets_inv m nbCells _ pl ε hε pen hp h).grad

/-- … with a positive semidefinite matrix: every exact solution of `A x = b` is a global minimiser
of that quadratic. -/
theorem net_model_solution_minimizes (m : Mode) (nbCells : Nat) (raws : List RawNet) (pl : List Rat)
    (ε : Rat) (pen : Option Penalty) (h : WellFormed nbCells raws) (hε : 0 ≤ ε) (hp : PenaltyOk pen)
    (x : Nat → Rat) (hx : Solves (assemble m nbCells raws pl ε pen) x) (y : Nat → Rat) :
    QModel m pl ε x nbCells (buildWith (fun w => w) raws) + penQ pl pen nbCells x
      ≤ QModel m pl ε y nbCells (buildWith (fun w => w) raws) + penQ pl pen nbCells y := by
  have e : Gen.NetWeightType.store = fun w => w := funext store_exact
  have inv := assembleNets_inv m nbCells (buildWith (fun w => w) raws) pl ε hε pen hp h
  unfold assemble assembleWith at hx
  rw [e] at hx
  exact inv_solution_minimizes _ _ inv x hx y

/-- **The finalized system** — the object handed to Eigen and observed by hook H2 — is the
normal-equation system of the same quadratic plus `regQ`, the regularisation `1e-8 · x_i²` of the
unknowns no pin has touched, and every exact solution of the finalized system minimises it. -/
theorem finalized_system_is_least_squares (m : Mode) (nbCells : Nat) (raws : List RawNet) (pl : List Rat)
    (ε : Rat) (pen : Option Penalty) (h : WellFormed nbCells raws) (hε : 0 ≤ ε) (hp : PenaltyOk pen) :
    IsHalfGradient (finalize (assemble m nbCells raws pl ε pen))
        (fun x => QModel m pl ε x nbCells (buildWith (fun w => w) raws) + penQ pl pen nbCells x
          + regQ (assemble m nbCells raws pl ε pen) x)
      ∧ ∀ x, Solves (finalize (assemble m nbCells raws pl ε pen)) x → ∀ y,
          QModel m pl ε x nbCells (buildWith (fun w => w) raws) + penQ pl pen nbCells x
              + regQ (assemble m nbCells raws pl ε pen) x
            ≤ QModel m pl ε y nbCells (buildWith (fun w => w) raws) + penQ pl pen nbCells y
              + regQ (assemble m nbCells raws pl ε pen) y := by
  have e : Gen.NetWeightType.store = fun w => w := funext store_exact
  have inv := finalize_inv _ _ (assembleNets_inv m nbCells (buildWith (fun w => w) raws) pl ε hε pen hp h)
  unfold assemble assembleWith
  rw [e]
  exact ⟨inv.grad, fun x hx y => inv_solution_minimizes _ _ inv x hx y⟩

/-- **The quadratic is linear in the weights**: multiplying all net weights and penalty strengths by
`k` multiplies `QModel + penQ` by `k` (so each net's term, hence its pull, is proportional to its
own weight). -/
theorem model_quadratic_homogeneous (k : Rat) (m : Mode) (nbCells : Nat) (raws : List RawNet) (pl : List Rat)
    (ε : Rat) (pen : Option Penalty) (x : Nat → Rat) :
    QModel m pl ε x nbCells (buildWith (fun w => w) (raws.map (RawNet.scale k)))
        + penQ pl (pen.map (Penalty.scale k)) nbCells x
      = k * (QModel m pl ε x nbCells (buildWith (fun w => w) raws) + penQ pl pen nbCells x) := by
  rw [buildWith_scale k _ (fun _ => rfl), QModel_scale, penQ_scale]
  ring

/-- **What each model says about a two-pin net.**  In the star, light-star and clique models, and
in the B2B model when the two pins are at different positions in `pl`, a two-pin net of weight `W`
is the single spring `(W / max ε |p0(pl) − p1(pl)|) (p0 − p1)²`.  In the B2B model with
*coincident* pins the minimum and the maximum pin are the same pin and the other one is tied to it
twice: the net pulls with twice that stiffness (still proportional to `W`). -/
theorem two_pin_net_quadratic (pl : List Rat) (ε : Rat) (x : Nat → Rat) (sv : Nat) (w : Rat) (p0 p1 : NetAsm.Pin) :
    netQ .star pl ε x sv ⟨w, [p0, p1]⟩ = bipTerm pl ε x ⟨w, [p0, p1]⟩
      ∧ netQ .lightStar pl ε x sv ⟨w, [p0, p1]⟩ = bipTerm pl ε x ⟨w, [p0, p1]⟩
      ∧ netQ .clique pl ε x sv ⟨w, [p0, p1]⟩ = bipTerm pl ε x ⟨w, [p0, p1]⟩
      ∧ (pinPos pl p0 ≠ pinPos pl p1 → netQ .b2b pl ε x sv ⟨w, [p0, p1]⟩ = bipTerm pl ε x ⟨w, [p0, p1]⟩)
      ∧ (pinPos pl p0 = pinPos pl p1 → netQ .b2b pl ε x sv ⟨w, [p0, p1]⟩ = 2 * bipTerm pl ε x ⟨w, [p0, p1]⟩) :=
  ⟨star_two_pin pl ε x sv w p0 p1, lightStar_two_pin pl ε x sv w p0 p1, clique_two_pin pl ε x w p0 p1,
   b2b_two_pin_distinct pl ε x w p0 p1, b2b_two_pin_coincident pl ε x w p0 p1⟩

/-! ### … at the circuit level -/

/-- **Two-pin nets at the circuit level.**  When every non-degenerate circuit net is stored with two
pins, the system that `solve(pl, params)` (star or light-star model) assembles from the `NetModel`
returned by `xTopology(circuit)` / `yTopology(circuit)` is the normal-equation system of
`Σ (W / max ε |p0(pl) − p1(pl)|) (p0 − p1)²` over the non-degenerate nets *with the circuit's own
weights* `W = Circuit::netWeight`, and every exact solution minimises it. -/
theorem circuit_two_pin_nets_are_least_squares (a : Axis) (c : Circuit) (m : Mode)
    (hm : m = .star ∨ m = .lightStar) (pl : List Rat) (ε : Rat) (h : CircuitOk c)
    (h2 : ∀ n ∈ circuitNets a c, n.pins.length ≤ 2) :
    IsHalfGradient (assembleNets m c.cells.length (topology a c) pl ε none)
        (fun x => QBip pl ε x (circuitNets a c))
      ∧ ∀ x, Solves (assembleNets m c.cells.length (topology a c) pl ε none) x →
          ∀ y, QBip pl ε x (circuitNets a c) ≤ QBip pl ε y (circuitNets a c) := by
  have tp : TwoPin c.cells.length (rawNets a c) := by
    unfold TwoPin
    rw [buildWith_id_rawNets]
    intro n hn
    obtain ⟨h1, h3⟩ := circuitNets_wellFormed a c h n hn
    exact ⟨h1, h3, h2 n hn⟩
  have := two_pin_nets_are_least_squares m hm c.cells.length (rawNets a c) pl ε tp
  rw [buildWith_id_rawNets] at this
  exact this

/-- **Every net model at the circuit level**, with or without penalty: the system assembled from
`xTopology(circuit)` / `yTopology(circuit)` is the normal-equation system of the model's documented
quadratic over the non-degenerate circuit nets with the circuit's own weights, and exact solutions
minimise it. -/
theorem circuit_net_models_are_least_squares (a : Axis) (c : Circuit) (m : Mode) (pl : List Rat) (ε : Rat)
    (pen : Option Penalty) (h : CircuitOk c) (hε : 0 ≤ ε) (hp : PenaltyOk pen) :
    IsHalfGradient (assembleNets m c.cells.length (topology a c) pl ε pen)
        (fun x => QModel m pl ε x c.cells.length (circuitNets a c) + penQ pl pen c.cells.length x)
      ∧ ∀ x, Solves (assembleNets m c.cells.length (topology a c) pl ε pen) x →
          ∀ y, QModel m pl ε x c.cells.length (circuitNets a c) + penQ pl pen c.cells.length x
            ≤ QModel m pl ε y c.cells.length (circuitNets a c) + penQ pl pen c.cells.length y := by
  have wf : WellFormed c.cells.length (rawNets a c) := by
    unfold WellFormed
    rw [buildWith_id_rawNets]
    exact circuitNets_wellFormed a c h
  have g := net_models_are_least_squares m c.cells.length (rawNets a c) pl ε pen wf hε hp
  have mn := net_model_solution_minimizes m c.cells.length (rawNets a c) pl ε pen wf hε hp
  rw [buildWith_id_rawNets] at g mn
  exact ⟨g, mn⟩

/-! ### int → float conversions of `xTopology` / `yTopology` -/

/-- **Below 2^24 the conversions are exact.**  If every integer that `xTopology`/`yTopology` converts
to `float` for a pin (its offset, the placed size of its cell, twice the offset minus the size — the
numerator of the offset to the centre —, its position on a fixed cell) is at most 2^24 in magnitude, the stored pins and the clamping bounds are the exact rational values; above,
they are the binary32 roundings the model computes (and the topology stream checks on coordinates up
to 2^26). -/
theorem topology_exact_below_2p24 (a : Axis) (c : Circuit) (p : ColoVerif.Pin)
    (ho : SmallInt (pinOffset a (c.cell p.cell) p)) (hs : SmallInt (placedSize a (c.cell p.cell)))
    (hd : SmallInt (2 * pinOffset a (c.cell p.cell) p - placedSize a (c.cell p.cell)))
    (hp : SmallInt (cellPos a (c.cell p.cell) + pinOffset a (c.cell p.cell) p)) :
    movablePin a c p = ((p.cell : Int),
        ((pinOffset a (c.cell p.cell) p : Int) : Rat) - (1 / 2 : Rat) * ((placedSize a (c.cell p.cell) : Int) : Rat))
      ∧ fixedPos a c p = ((cellPos a (c.cell p.cell) + pinOffset a (c.cell p.cell) p : Int) : Rat) :=
  ⟨movablePin_exact a c p ho hs hd, fixedPos_exact a c p hp⟩

/-- … and the rounding is real: the pin of a pad at `x = 2^24 + 1` is stored at `2^24`. -/
theorem topology_rounds_above_2p24 :
    fixedPos .x ⟨[⟨0, 0, 16777217, 0, .N, true, false, .ANY⟩], [], []⟩ ⟨0, 0, 0⟩ = 16777216 := by
  decide +kernel

/-! ### non-vacuity -/

/-- A three-pin net of weight ¾ plus a two-pin net of weight ½ on two cells. -/
def sampleRaws : List RawNet :=
  [⟨3 / 4, [((0 : Int), (1 : Rat)), ((1 : Int), (-2 : Rat)), ((-1 : Int), (7 : Rat))], none⟩,
   ⟨1 / 2, [((1 : Int), (0 : Rat))], some ((3 : Rat), (3 : Rat))⟩]

/-- `WellFormed` is satisfiable by a non-trivial instance (fractional weights, a star net). -/
example : WellFormed 2 sampleRaws := by
  intro n hn
  have : buildWith (fun w => w) sampleRaws =
      [⟨3 / 4, [((0 : Int), (1 : Rat)), ((1 : Int), (-2 : Rat)), ((-1 : Int), (7 : Rat))]⟩,
       ⟨1 / 2, [((1 : Int), (0 : Rat)), ((-1 : Int), (3 : Rat))]⟩] := by decide +kernel
  rw [this] at hn
  simp only [List.mem_cons, List.not_mem_nil, or_false] at hn
  rcases hn with rfl | rfl
  · refine ⟨?_, by decide +kernel⟩
    intro p hp
    simp only [List.mem_cons, List.not_mem_nil, or_false] at hp
    rcases hp with rfl | rfl | rfl <;> simp
  · refine ⟨?_, by decide +kernel⟩
    intro p hp
    simp only [List.mem_cons, List.not_mem_nil, or_false] at hp
    rcases hp with rfl | rfl <;> simp

/-- `TwoPin` is satisfiable (a fractional-weight two-pin net between two cells and one to a fixed pin). -/
example : TwoPin 2 [⟨3 / 8, [((0 : Int), (1 : Rat)), ((1 : Int), (0 : Rat))], none⟩,
                    ⟨5 / 2, [((1 : Int), (0 : Rat))], some ((3 : Rat), (3 : Rat))⟩] := by
  intro n hn
  have : buildWith (fun w => w) [⟨3 / 8, [((0 : Int), (1 : Rat)), ((1 : Int), (0 : Rat))], none⟩,
                    ⟨5 / 2, [((1 : Int), (0 : Rat))], some ((3 : Rat), (3 : Rat))⟩] =
      [⟨3 / 8, [((0 : Int), (1 : Rat)), ((1 : Int), (0 : Rat))]⟩,
       ⟨5 / 2, [((1 : Int), (0 : Rat)), ((-1 : Int), (3 : Rat))]⟩] := by decide +kernel
  rw [this] at hn
  simp only [List.mem_cons, List.not_mem_nil, or_false] at hn
  rcases hn with rfl | rfl
  · refine ⟨?_, by decide +kernel, by decide⟩
    intro p hp
    simp only [List.mem_cons, List.not_mem_nil, or_false] at hp
    rcases hp with rfl | rfl <;> simp
  · refine ⟨?_, by decide +kernel, by decide⟩
    intro p hp
    simp only [List.mem_cons, List.not_mem_nil, or_false] at hp
    rcases hp with rfl | rfl <;> simp

/-- The homogeneity statement is about non-trivial systems: the sample assembles 7 triplets with
an auxiliary star unknown, and weight ¾ really is in the matrix (entry ¾ / 3 = ¼). -/
example : (assemble .star0 2 sampleRaws [] 1 none).triplets
    = [(0, 2, -(1/4)), (2, 0, -(1/4)), (0, 0, 1/4), (2, 2, 1/4),
       (1, 2, -(1/4)), (2, 1, -(1/4)), (1, 1, 1/4), (2, 2, 1/4), (2, 2, 1/4), (1, 1, 1/2)] := by
  decide +kernel

/-- Two movable cells and a pad; nets: a two-pin net of weight 3/4, a *dangling* pin, a pads-only
net, then a net of weight 5/2 from cell 1 to the pad and a net of weight 1/8 between the cells. -/
def sampleCircuit : Circuit :=
  { cells := [⟨4, 2, 0, 0, .N, false, false, .ANY⟩, ⟨2, 2, 0, 0, .FN, false, false, .ANY⟩,
              ⟨0, 0, 7, 1, .N, true, false, .ANY⟩],
    rows := [⟨⟨0, 10, 0, 2⟩, .N⟩],
    nets := [⟨3, -2, [⟨0, 1, 0⟩, ⟨1, 0, 1⟩]⟩, ⟨7, 0, [⟨0, 0, 0⟩]⟩, ⟨9, 0, [⟨2, 0, 0⟩, ⟨2, 1, 1⟩]⟩,
             ⟨5, -1, [⟨1, 1, 1⟩, ⟨2, 0, 0⟩]⟩, ⟨1, -3, [⟨1, 2, 0⟩, ⟨0, 4, 2⟩]⟩] }

/-- `CircuitOk` is satisfiable by a circuit with degenerate nets interleaved. -/
example : CircuitOk sampleCircuit := by
  intro n hn
  simp only [sampleCircuit, List.mem_cons, List.not_mem_nil, or_false] at hn
  rcases hn with rfl | rfl | rfl | rfl | rfl <;> refine ⟨by decide, ?_⟩ <;> intro p hp <;>
    simp only [List.mem_cons, List.not_mem_nil, or_false] at hp
  · rcases hp with rfl | rfl <;> decide
  · rcases hp with rfl; decide
  · rcases hp with rfl | rfl <;> decide
  · rcases hp with rfl | rfl <;> decide
  · rcases hp with rfl | rfl <;> decide

/-- On it the index map skips nets 1 and 2, and the stored nets carry the weights 3/4, 5/2, 1/8 of
circuit nets 0, 3, 4 (not those of nets 0, 1, 2), with centre offsets and the pad as a fixed pin. -/
example : keptIdx sampleCircuit = [0, 3, 4]
    ∧ topology .x sampleCircuit =
      [⟨3 / 4, [((0 : Int), (-1 : Rat)), ((1 : Int), (1 : Rat))]⟩,
       ⟨5 / 2, [((1 : Int), (0 : Rat)), ((-1 : Int), (7 : Rat))]⟩,
       ⟨1 / 8, [((1 : Int), (-1 : Rat)), ((0 : Int), (2 : Rat))]⟩] := by
  decide +kernel

/-- `CellsOk` follows from `WellFormed` (so the sample above satisfies it) … -/
example (nb : Nat) (raws : List RawNet) (h : WellFormed nb raws) : CellsOk nb raws := fun n hn => (h n hn).1

/-- … and `finalize` really adds something the scaling does not touch: with three cells of which
the last is on no net, the finalized sample has the extra entry `(2, 2, 1e-8f)`, the same for the
weights `W` and `7·W`. -/
example : regEntries (assemble .b2b 3 sampleRaws [0, 0, 0] 1 none) = [(2, 2, tiny)]
    ∧ regEntries (assemble .b2b 3 (sampleRaws.map (RawNet.scale 7)) [0, 0, 0] 1 none) = [(2, 2, tiny)] := by
  decide +kernel

/-- `PenaltyOk` is satisfiable by a non-trivial penalty (fractional strengths, one of them zero). -/
example : PenaltyOk (some ⟨[3, -1], [1 / 4, 0], 2⟩) := by
  intro p hp i
  cases hp
  match i with
  | 0 => decide +kernel
  | 1 => decide +kernel
  | (j + 2) => simp

/-- The B2B double connection is in the assembled matrix the driver prints: a two-pin net of weight
`3/4` whose pins coincide in `pl` (both at 5) assembles *two* blocks of stiffness `3/4 / ε`, a net
with distinct pins one block of stiffness `3/4 / |distance|`. -/
example : (assemble .b2b 2 [⟨3 / 4, [((0 : Int), (0 : Rat)), ((1 : Int), (0 : Rat))], none⟩] [5, 5] 1 none).triplets
      = [(1, 0, -(3/4)), (0, 1, -(3/4)), (1, 1, 3/4), (0, 0, 3/4),
         (1, 0, -(3/4)), (0, 1, -(3/4)), (1, 1, 3/4), (0, 0, 3/4)]
    ∧ (assemble .b2b 2 [⟨3 / 4, [((0 : Int), (0 : Rat)), ((1 : Int), (0 : Rat))], none⟩] [5, 8] 1 none).triplets
      = [(1, 0, -(1/4)), (0, 1, -(1/4)), (1, 1, 1/4), (0, 0, 1/4)] := by
  decide +kernel

/-- The two-pin hypothesis of the circuit-level theorem holds on the sample circuit (three kept
nets, all stored with two pins), on both axes. -/
example : (∀ n ∈ circuitNets .x sampleCircuit, n.pins.length ≤ 2)
    ∧ (∀ n ∈ circuitNets .y sampleCircuit, n.pins.length ≤ 2) := by
  decide +kernel

/-- `SmallInt` hypotheses of `topology_exact_below_2p24`: any pin of the sample circuit. -/
example : SmallInt (pinOffset .x (sampleCircuit.cell 1) ⟨1, 1, 1⟩) ∧ SmallInt (placedSize .x (sampleCircuit.cell 1))
    ∧ SmallInt (2 * pinOffset .x (sampleCircuit.cell 1) ⟨1, 1, 1⟩ - placedSize .x (sampleCircuit.cell 1)) := by
  unfold SmallInt
  decide

end ColoVerif.C17
