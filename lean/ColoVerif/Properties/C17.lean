import ColoVerif.Model.NetAsm
import ColoVerif.Model.LegacyNetAsm
import ColoVerif.Proofs.NetAsmScale
import ColoVerif.Proofs.NetAsmLsq
import ColoVerif.Model.NetTopology
import ColoVerif.Proofs.NetTopology
/-
C17 — the continuous solver of global placement honours real-valued net weights.

All statements are about `NetAsm.assemble`, the model the driver `drv_C17` executes and the
harness compares with the triplets/rhs captured from the real `MatrixCreator` (hook H2), and
they go through `Gen.NetWeightType.store`, the storage conversion regenerated from the declared
element type of `NetModel::netWeight_` on every run: with `std::vector<int>` the proofs below
stop type-checking (`store_exact` is no longer `rfl`).

The second half is about `NetTopology.topology`, the model of `NetModel::xTopology/yTopology`
(which circuit nets are stored, with which pins and which weight) that the driver executes on the
circuits of the topology stream and the harness compares with the real `NetModel`'s accessors.

Proved over `Rat` (exact arithmetic).  Not proved: float rounding, convergence of Eigen's
conjugate gradient, and the `finalize` regularisation entries (`1e-8` on rows no pin touches;
they are not scaled, their rows are otherwise empty).
-/
namespace ColoVerif.C17
open ColoVerif.NetAsm ColoVerif.NetTopology

/-- **Homogeneity of the assembly.**  Scaling all net weights (as passed to `NetModel::addNet`)
and all penalty strengths by `k` scales every matrix entry and every right-hand-side entry by `k`
and leaves the structure (unknowns, initial guess, non-zero flags) unchanged — for every net
list, offsets, placement, `ε`, penalty target/cutoff and each of the five assembly variants
(`createStar(topo)`, B2B, star, clique, light star). -/
theorem assembly_homogeneous (k : Rat) (m : Mode) (nbCells : Nat) (raws : List RawNet)
    (pl : List Rat) (ε : Rat) (pen : Option Penalty) :
    assemble m nbCells (raws.map (RawNet.scale k)) pl ε (pen.map (Penalty.scale k))
      = (assemble m nbCells raws pl ε pen).scale k :=
  assemble_scale k m nbCells raws pl ε pen

/-- Hence, for `k ≠ 0`, the scaled and the unscaled weights give linear systems `A x = b` with
the same solution set. -/
theorem solution_set_scale_invariant (k : Rat) (hk : k ≠ 0) (m : Mode) (nbCells : Nat)
    (raws : List RawNet) (pl : List Rat) (ε : Rat) (pen : Option Penalty) (x : Nat → Rat) :
    Solves (assemble m nbCells (raws.map (RawNet.scale k)) pl ε (pen.map (Penalty.scale k))) x
      ↔ Solves (assemble m nbCells raws pl ε pen) x := by
  rw [assembly_homogeneous]
  exact solves_scale k hk _ x

/-- The hypotheses of the least-squares theorems: stored cells are `-1` or valid, weights are
non-negative (stated on the nets with the weights the caller passed). -/
def WellFormed (nbCells : Nat) (raws : List RawNet) : Prop :=
  ∀ n ∈ buildWith (fun w => w) raws, NetOk nbCells n ∧ 0 ≤ n.weight

/-- **Two-pin nets and the initial star model are weighted least squares.**  The system assembled
by `NetModel::solveStar(params)` (two-pin nets: `addBipoint`; larger nets: a star with its own
unknown) is the normal-equation system of the documented quadratic `Q0` *with the real-valued
weights the caller passed*:  `Q(x + t) = Q(x) + 2⟨A x - b, t⟩ + ⟨A t, t⟩` for all `x, t`, i.e.
`A x - b = ½∇Q(x)` — the pull of a net on a cell is proportional to its weight. -/
theorem bipoint_star_is_least_squares (nbCells : Nat) (raws : List RawNet) (pl : List Rat) (ε : Rat)
    (h : WellFormed nbCells raws) :
    IsHalfGradient (assemble .star0 nbCells raws pl ε none)
      (fun x => Q0 x nbCells (buildWith (fun w => w) raws)) := by
  have e : Gen.NetWeightType.store = fun w => w := funext store_exact
  unfold assemble assembleWith assembleNets addPenaltyOpt
  rw [e]
  exact (create_star0_inv nbCells _ pl ε h).grad

/-- … with a positive semidefinite matrix, so every solution of `A x = b` is a global minimiser of
that quadratic: the initial placement is the weighted least-squares optimum. -/
theorem star_solution_minimizes (nbCells : Nat) (raws : List RawNet) (pl : List Rat) (ε : Rat)
    (h : WellFormed nbCells raws) (x : Nat → Rat)
    (hx : Solves (assemble .star0 nbCells raws pl ε none) x) (y : Nat → Rat) :
    Q0 x nbCells (buildWith (fun w => w) raws) ≤ Q0 y nbCells (buildWith (fun w => w) raws) := by
  have e : Gen.NetWeightType.store = fun w => w := funext store_exact
  have inv := create_star0_inv nbCells (buildWith (fun w => w) raws) pl ε h
  unfold assemble assembleWith assembleNets addPenaltyOpt at hx
  rw [e] at hx
  exact inv_solution_minimizes _ _ inv x hx y

/-- Hypothesis of the two-pin theorem: well-formed, and every stored net has two pins. -/
def TwoPin (nbCells : Nat) (raws : List RawNet) : Prop :=
  ∀ n ∈ buildWith (fun w => w) raws, NetOk nbCells n ∧ 0 ≤ n.weight ∧ n.pins.length ≤ 2

/-- **Two-pin nets in the re-weighted star and light-star models** (`NetModel::solve(pl, params)`):
the system is the normal-equation system of `Σ (W / max ε |p0(pl) - p1(pl)|) (p0 - p1)²` with the
real-valued weights `W`, its matrix is positive semidefinite, and every solution of `A x = b`
minimises that quadratic. -/
theorem two_pin_nets_are_least_squares (m : Mode) (hm : m = .star ∨ m = .lightStar) (nbCells : Nat)
    (raws : List RawNet) (pl : List Rat) (ε : Rat) (h : TwoPin nbCells raws) :
    IsHalfGradient (assemble m nbCells raws pl ε none)
        (fun x => QBip pl ε x (buildWith (fun w => w) raws))
      ∧ ∀ x, Solves (assemble m nbCells raws pl ε none) x →
          ∀ y, QBip pl ε x (buildWith (fun w => w) raws) ≤ QBip pl ε y (buildWith (fun w => w) raws) := by
  have e : Gen.NetWeightType.store = fun w => w := funext store_exact
  have inv := create_twopin_inv m hm nbCells (buildWith (fun w => w) raws) pl ε h
  unfold assemble assembleWith assembleNets addPenaltyOpt
  rw [e]
  exact ⟨inv.grad, fun x hx y => inv_solution_minimizes _ _ inv x hx y⟩

/-- Pre-fix behaviour (F12, `std::vector<int> netWeight_`), kept in `Model/LegacyNetAsm.lean`:
a net of weight ½ assembles the zero matrix and zero right-hand side, whereas the real-valued
assembly gives the entry ½ and right-hand side 5. -/
theorem weights_truncated :
    (Legacy.assembleLegacy .star0 1 Legacy.halfNet [] 1 none).triplets = [(0, 0, 0)]
      ∧ (Legacy.assembleLegacy .star0 1 Legacy.halfNet [] 1 none).rhs = [0]
      ∧ (assembleWith (fun w => w) .star0 1 Legacy.halfNet [] 1 none).triplets = [(0, 0, 1 / 2)]
      ∧ (assembleWith (fun w => w) .star0 1 Legacy.halfNet [] 1 none).rhs = [5] :=
  Legacy.weights_truncated_witness

/-- … and the pre-fix assembly is not homogeneous. -/
theorem legacy_assembly_not_homogeneous :
    (Legacy.assembleLegacy .star0 1 (Legacy.halfNet.map (RawNet.scale 2)) [] 1 none).triplets
      ≠ ((Legacy.assembleLegacy .star0 1 Legacy.halfNet [] 1 none).scale 2).triplets :=
  Legacy.legacy_not_homogeneous

/-! ### from the circuit to the solver: `NetModel::xTopology` / `yTopology` -/

/-- **Every net kept by `xTopology`/`yTopology` carries the weight of the circuit net it came
from.**  `keptIdx c` is the explicit index map from `NetModel` nets to circuit nets: it has one
entry per stored net, is strictly increasing (order-preserving), enumerates exactly the
non-degenerate circuit nets (`IsKept`: a movable pin plus a second movable pin or a fixed pin — so
only empty nets, pads-only nets and dangling single pins are skipped), and the `k`-th stored net
has the weight `Circuit::netWeight` and the pins of circuit net `(keptIdx c)[k]` — for every
circuit, on both axes. -/
theorem topology_weights_faithful (a : Axis) (c : Circuit) :
    (topology a c).length = (keptIdx c).length
      ∧ List.Pairwise (fun i j => i < j) (keptIdx c)
      ∧ (∀ i : Nat, i ∈ keptIdx c ↔ ∃ n, c.nets[i]? = some n ∧ IsKept c n = true)
      ∧ ∀ k i : Nat, (keptIdx c)[k]? = some i →
          ∃ n, c.nets[i]? = some n ∧ (topology a c)[k]? = some (⟨netWeight n, storedPins a c n⟩ : NetAsm.Net) := by
  rw [topology_eq_circuitNets]
  refine ⟨?_, keptIdxFrom_pairwise c c.nets 0, ?_, ?_⟩
  · unfold circuitNets keptIdx
    rw [List.length_map, keptIdxFrom_length]
  · intro i
    unfold keptIdx
    rw [keptIdxFrom_mem]
    simp
  · intro k i h
    obtain ⟨_, n, hn, hf⟩ := keptIdxFrom_get c (fun n => (⟨netWeight n, storedPins a c n⟩ : NetAsm.Net)) c.nets 0 k i h
    exact ⟨n, by simpa using hn, hf⟩

/-- **The pins of a stored net**: the pins of the circuit net on movable cells, in order, with the
offset to the cell centre (`offset - ½ placedWidth`), followed by the fixed pins folded into their
minimum and maximum position (`RangeOf`: both are positions of fixed pins of the net and bound all
of them), clamped to the placement area, one pin if the two coincide (`withFixed`). -/
theorem topology_pins_faithful (a : Axis) (c : Circuit) (n : ColoVerif.Net) :
    storedPins a c n
        = withFixed ((n.pins.filter (fun p => !(c.cell p.cell).fixed)).map (movablePin a c))
            (clampRange a c (walkPins a c n).range)
      ∧ RangeOf (fixedPositions a c n) (walkPins a c n).range := by
  refine ⟨?_, walkPins_rangeOf a c n⟩
  unfold storedPins
  rw [rawOf_pins]
  rfl

/-- **Least squares at the circuit level.**  The system that `solveStar(params)` assembles from
the `NetModel` returned by `xTopology(circuit)` / `yTopology(circuit)` is the normal-equation
system of `circuitQ`, the documented quadratic built from the circuit's *own* weights
(`Σ_{non-degenerate nets n} netWeight(n) · …`): `A x - b = ½∇Q(x)`. -/
theorem circuit_star_is_least_squares (a : Axis) (c : Circuit) (pl : List Rat) (ε : Rat)
    (h : CircuitOk c) :
    IsHalfGradient (assembleNets .star0 c.cells.length (topology a c) pl ε none) (circuitQ a c) := by
  have wf : WellFormed c.cells.length (rawNets a c) := by
    unfold WellFormed
    rw [buildWith_id_rawNets]
    exact circuitNets_wellFormed a c h
  have := bipoint_star_is_least_squares c.cells.length (rawNets a c) pl ε wf
  rw [buildWith_id_rawNets] at this
  exact this

/-- … and every exact solution of that system minimises the circuit's weighted quadratic: the
initial placement of a circuit is the weighted least-squares optimum for the circuit's weights. -/
theorem circuit_star_solution_minimizes (a : Axis) (c : Circuit) (pl : List Rat) (ε : Rat)
    (h : CircuitOk c) (x : Nat → Rat)
    (hx : Solves (assembleNets .star0 c.cells.length (topology a c) pl ε none) x) (y : Nat → Rat) :
    circuitQ a c x ≤ circuitQ a c y := by
  have wf : WellFormed c.cells.length (rawNets a c) := by
    unfold WellFormed
    rw [buildWith_id_rawNets]
    exact circuitNets_wellFormed a c h
  have := star_solution_minimizes c.cells.length (rawNets a c) pl ε wf x hx y
  rw [buildWith_id_rawNets] at this
  exact this

/-! ### non-vacuity -/

/-- A three-pin net of weight ¾ plus a two-pin net of weight ½ on two cells. -/
def sampleRaws : List RawNet :=
  [⟨3 / 4, [((0 : Int), (1 : Rat)), ((1 : Int), (-2 : Rat)), ((-1 : Int), (7 : Rat))], none⟩,
   ⟨1 / 2, [((1 : Int), (0 : Rat))], some ((3 : Rat), (3 : Rat))⟩]

/-- `WellFormed` is satisfiable by a non-trivial instance (fractional weights, a star net). -/
example : WellFormed 2 sampleRaws := by
  intro n hn
  have : buildWith (fun w => w) sampleRaws =
      [⟨3 / 4, [((0 : Int), (1 : Rat)), ((1 : Int), (-2 : Rat)), ((-1 : Int), (7 : Rat))]⟩,
       ⟨1 / 2, [((1 : Int), (0 : Rat)), ((-1 : Int), (3 : Rat))]⟩] := by decide +kernel
  rw [this] at hn
  simp only [List.mem_cons, List.not_mem_nil, or_false] at hn
  rcases hn with rfl | rfl
  · refine ⟨?_, by decide +kernel⟩
    intro p hp
    simp only [List.mem_cons, List.not_mem_nil, or_false] at hp
    rcases hp with rfl | rfl | rfl <;> simp
  · refine ⟨?_, by decide +kernel⟩
    intro p hp
    simp only [List.mem_cons, List.not_mem_nil, or_false] at hp
    rcases hp with rfl | rfl <;> simp

/-- `TwoPin` is satisfiable (a fractional-weight two-pin net between two cells and one to a fixed pin). -/
example : TwoPin 2 [⟨3 / 8, [((0 : Int), (1 : Rat)), ((1 : Int), (0 : Rat))], none⟩,
                    ⟨5 / 2, [((1 : Int), (0 : Rat))], some ((3 : Rat), (3 : Rat))⟩] := by
  intro n hn
  have : buildWith (fun w => w) [⟨3 / 8, [((0 : Int), (1 : Rat)), ((1 : Int), (0 : Rat))], none⟩,
                    ⟨5 / 2, [((1 : Int), (0 : Rat))], some ((3 : Rat), (3 : Rat))⟩] =
      [⟨3 / 8, [((0 : Int), (1 : Rat)), ((1 : Int), (0 : Rat))]⟩,
       ⟨5 / 2, [((1 : Int), (0 : Rat)), ((-1 : Int), (3 : Rat))]⟩] := by decide +kernel
  rw [this] at hn
  simp only [List.mem_cons, List.not_mem_nil, or_false] at hn
  rcases hn with rfl | rfl
  · refine ⟨?_, by decide +kernel, by decide⟩
    intro p hp
    simp only [List.mem_cons, List.not_mem_nil, or_false] at hp
    rcases hp with rfl | rfl <;> simp
  · refine ⟨?_, by decide +kernel, by decide⟩
    intro p hp
    simp only [List.mem_cons, List.not_mem_nil, or_false] at hp
    rcases hp with rfl | rfl <;> simp

/-- The homogeneity statement is about non-trivial systems: the sample assembles 7 triplets with
an auxiliary star unknown, and weight ¾ really is in the matrix (entry ¾ / 3 = ¼). -/
example : (assemble .star0 2 sampleRaws [] 1 none).triplets
    = [(0, 2, -(1/4)), (2, 0, -(1/4)), (0, 0, 1/4), (2, 2, 1/4),
       (1, 2, -(1/4)), (2, 1, -(1/4)), (1, 1, 1/4), (2, 2, 1/4), (2, 2, 1/4), (1, 1, 1/2)] := by
  decide +kernel

/-- Two movable cells and a pad; nets: a two-pin net of weight 3/4, a *dangling* pin, a pads-only
net, then a net of weight 5/2 from cell 1 to the pad and a net of weight 1/8 between the cells. -/
def sampleCircuit : Circuit :=
  { cells := [⟨4, 2, 0, 0, .N, false, false, .ANY⟩, ⟨2, 2, 0, 0, .FN, false, false, .ANY⟩,
              ⟨0, 0, 7, 1, .N, true, false, .ANY⟩],
    rows := [⟨⟨0, 10, 0, 2⟩, .N⟩],
    nets := [⟨3, -2, [⟨0, 1, 0⟩, ⟨1, 0, 1⟩]⟩, ⟨7, 0, [⟨0, 0, 0⟩]⟩, ⟨9, 0, [⟨2, 0, 0⟩, ⟨2, 1, 1⟩]⟩,
             ⟨5, -1, [⟨1, 1, 1⟩, ⟨2, 0, 0⟩]⟩, ⟨1, -3, [⟨1, 2, 0⟩, ⟨0, 4, 2⟩]⟩] }

/-- `CircuitOk` is satisfiable by a circuit with degenerate nets interleaved. -/
example : CircuitOk sampleCircuit := by
  intro n hn
  simp only [sampleCircuit, List.mem_cons, List.not_mem_nil, or_false] at hn
  rcases hn with rfl | rfl | rfl | rfl | rfl <;> refine ⟨by decide, ?_⟩ <;> intro p hp <;>
    simp only [List.mem_cons, List.not_mem_nil, or_false] at hp
  · rcases hp with rfl | rfl <;> decide
  · rcases hp with rfl; decide
  · rcases hp with rfl | rfl <;> decide
  · rcases hp with rfl | rfl <;> decide
  · rcases hp with rfl | rfl <;> decide

/-- On it the index map skips nets 1 and 2, and the stored nets carry the weights 3/4, 5/2, 1/8 of
circuit nets 0, 3, 4 (not those of nets 0, 1, 2), with centre offsets and the pad as a fixed pin. -/
example : keptIdx sampleCircuit = [0, 3, 4]
    ∧ topology .x sampleCircuit =
      [⟨3 / 4, [((0 : Int), (-1 : Rat)), ((1 : Int), (1 : Rat))]⟩,
       ⟨5 / 2, [((1 : Int), (0 : Rat)), ((-1 : Int), (7 : Rat))]⟩,
       ⟨1 / 8, [((1 : Int), (-1 : Rat)), ((0 : Int), (2 : Rat))]⟩] := by
  decide +kernel

end ColoVerif.C17
