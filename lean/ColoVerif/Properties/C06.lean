import ColoVerif.Proofs.SpreadCoord
import ColoVerif.Proofs.SpreadGrid
import ColoVerif.Proofs.SpreadExport
import ColoVerif.Proofs.SpreadFree
import ColoVerif.Proofs.GlobalLoop
import ColoVerif.Proofs.SpreadFWitness
import ColoVerif.Proofs.SpreadFCoord
import ColoVerif.Proofs.GeomTie
import ColoVerif.Gen.Params
/-
C06 — global placement stays inside the placement area and exports the blend.

All theorems are about the definitions of `ColoVerif/Model/Spread.lean`, which `drv_C06`
executes against `HierarchicalDensityPlacement::spreadCoordX/Y`, `simpleCoordX/Y`,
`DensityGrid::fromIspdCircuit` and (end to end) `Circuit::placeGlobal`.

The first block is over `Rat` (the C++ expressions evaluated exactly).  The block "binary32" is about
`ColoVerif/Model/SpreadF.lean`: `spreadCells`/`spreadCoordX/Y` as compiled, every operation followed by one
round-to-nearest-even to binary32, including the clamp of fixes/c06-spread-clamp.diff; `drv_C06` (op `spreadf`)
compares it with the real `spreadCoordX/Y` float for float, exactly.  With the clamp every binary32 coordinate is
in the closed bin for ALL inputs (`spreadF_inside_closed_bin`, lifted to every cell by `ubF_every_cell_inside` and
to the exposed centre by `ubF_exposed_centre`).  Before the fix (`Model/LegacySpreadF.lean`) a coordinate could
leave the bin, by more than one half for adversarial demand mixes (`legacy_spreadF_can_leave_bin`,
`legacy_spreadF_can_exceed_half`).  Not proved: finiteness of the conjugate-gradient iterates, absence of
exceptions; see `tools/props/C06.py`.

The last block is about the control logic of `GlobalPlacer::run` (`ColoVerif/Model/GlobalLoop.lean`):
the float solves and values enter as an oracle trace, everything else (initial solves, stop test,
penalty-update back-off, inner solves, the three geometric recurrences, final `runUB`, the
exception of `checkFinitePlacement`) is the model `GlobalLoop.run`, which `drv_C06` replays against
the callbacks of `Circuit::placeGlobal` and, with hook H5, against the logged per-iteration floats.
-/
namespace ColoVerif.C06
open ColoVerif ColoVerif.Spread

/-- `spreadCells`: with non-negative demands and `lo < hi`, the coordinate returned for a cell of
positive demand lies strictly between `lo` and `hi` (whatever the targets are). -/
theorem spread_inside (targets demands : List Rat) (lo hi : Rat)
    (hlen : demands.length = targets.length) (hnn : ∀ d ∈ demands, 0 ≤ d) (hlh : lo < hi)
    (i : Nat) (hi' : i < targets.length) (hpos : 0 < demands.getD i 0) :
    lo < (spreadCells targets demands lo hi).getD i 0 ∧
    (spreadCells targets demands lo hi).getD i 0 < hi :=
  spreadCells_inside targets demands lo hi hlen hnn hlh i hi' hpos

/-- non-vacuity of `spread_inside` -/
example : (0 : Rat) < (spreadCells [1, 0] [1, 3] 0 4).getD 0 0 ∧ (spreadCells [1, 0] [1, 3] 0 4).getD 0 0 < 4 :=
  spread_inside [1, 0] [1, 3] 0 4 rfl
    (by intro d hd; simp at hd; rcases hd with rfl | rfl <;> norm_num) (by norm_num) 0 (by simp) (by simp)

/-- The bins of the grid built by `DensityGrid::fromIspdCircuit` (margin ≥ 0; the free rows
`computeRows()` are well-formed rectangles inside the bounding box `box` of the circuit's rows,
whose coordinates are C++ ints): every bin limit, on both axes, lies inside `box`.  The
hierarchical views only select limits of this grid, so every bin interval of every view lies in
the rows' bounding box.  Covers the fallbacks taken when the margin removes every row. -/
theorem bins_inside_area (margin binSize : Int) (freeRows rows : List Rect) (box : Rect)
    (hm : 0 ≤ margin) (hne : rows ≠ [])
    (hbox : computePlacementArea rows = box) (hwf : box.minX ≤ box.maxX ∧ box.minY ≤ box.maxY)
    (hint : Rect.IsInt box) (hfree : ∀ r ∈ freeRows, Rect.Within box r) :
    Rect.Within box (mkGrid binSize (gridRegions margin freeRows rows)).area ∧
    (∀ l ∈ (mkGrid binSize (gridRegions margin freeRows rows)).limX, box.minX ≤ l ∧ l ≤ box.maxX) ∧
    (∀ l ∈ (mkGrid binSize (gridRegions margin freeRows rows)).limY, box.minY ≤ l ∧ l ≤ box.maxY) := by
  have hreg : gridRegions margin freeRows rows ≠ [] := by
    unfold gridRegions
    split
    · split
      · split
        · rename_i h; exact absurd (List.isEmpty_iff.mp h) hne
        · simp
      · rename_i h; exact isEmpty_false_ne_nil _ (by simpa using h)
    · rename_i h; exact isEmpty_false_ne_nil _ (by simpa using h)
  have hw := area_within _ box hreg hint (gridRegions_within margin hm freeRows rows box hbox hwf hfree)
  exact ⟨hw, mem_limX_within binSize _ box hw⟩

/-- non-vacuity of `bins_inside_area`: one row `[0,20]×[0,4]`, margin 3, bins of size 5 -/
example : ∀ l ∈ (mkGrid 5 (gridRegions 3 [⟨0, 20, 0, 4⟩] [⟨0, 20, 0, 4⟩])).limX, (0 : Int) ≤ l ∧ l ≤ 20 :=
  (bins_inside_area 3 5 [⟨0, 20, 0, 4⟩] [⟨0, 20, 0, 4⟩] ⟨0, 20, 0, 4⟩ (by decide) (by simp) (by decide)
    (by decide) (by unfold Rect.IsInt intMax intMin; decide)
    (by intro r hr; simp at hr; subst hr; unfold Rect.Within; decide)).2.1

/-- Self-contained form over the shared circuit model: for a circuit with at least one row whose
rows are well-formed rectangles with C++ `int` coordinates, every bin limit of the grid built by
`DensityGrid::fromIspdCircuit` from `computeRows()` (any non-negative margin, any bin size)
lies inside the bounding box of the circuit's rows. -/
theorem bins_inside_rows_bbox (c : Circuit) (margin binSize : Int) (hm : 0 ≤ margin) (hne : c.rows ≠ [])
    (hwf : ∀ r ∈ c.rows, Rect.Within ⟨intMin, intMax, intMin, intMax⟩ r.rect) :
    (∀ l ∈ (mkGrid binSize (gridRegions margin (c.computeRows.map (·.rect)) (c.rows.map (·.rect)))).limX,
      (computePlacementArea (c.rows.map (·.rect))).minX ≤ l ∧ l ≤ (computePlacementArea (c.rows.map (·.rect))).maxX) ∧
    (∀ l ∈ (mkGrid binSize (gridRegions margin (c.computeRows.map (·.rect)) (c.rows.map (·.rect)))).limY,
      (computePlacementArea (c.rows.map (·.rect))).minY ≤ l ∧ l ≤ (computePlacementArea (c.rows.map (·.rect))).maxY) := by
  have hne' : c.rows.map (·.rect) ≠ [] := by simpa using hne
  have hwf' : ∀ r ∈ c.rows.map (·.rect), Rect.Within ⟨intMin, intMax, intMin, intMax⟩ r := by
    intro r hr
    obtain ⟨row, hrow, rfl⟩ := List.mem_map.mp hr
    exact hwf row hrow
  have hrows := rows_within_bbox _ hne' hwf'
  have hbox0 := area_within _ ⟨intMin, intMax, intMin, intMax⟩ hne'
    (by unfold Rect.IsInt intMin intMax; decide) hwf'
  have hfree : ∀ r ∈ c.computeRows.map (·.rect), Rect.Within (computePlacementArea (c.rows.map (·.rect))) r := by
    intro r hr
    obtain ⟨fr, hfr, rfl⟩ := List.mem_map.mp hr
    exact computeRows_within c [] _ (fun row hrow => hrows row.rect (List.mem_map.mpr ⟨row, hrow, rfl⟩)) fr hfr
  have hint : Rect.IsInt (computePlacementArea (c.rows.map (·.rect))) := by
    unfold Rect.Within at hbox0
    unfold Rect.IsInt
    simp only at hbox0
    omega
  have hwfb : (computePlacementArea (c.rows.map (·.rect))).minX ≤ (computePlacementArea (c.rows.map (·.rect))).maxX ∧
      (computePlacementArea (c.rows.map (·.rect))).minY ≤ (computePlacementArea (c.rows.map (·.rect))).maxY := by
    unfold Rect.Within at hbox0
    omega
  exact (bins_inside_area margin binSize _ _ _ hm hne' rfl hwfb hint hfree).2

/-! ### The hypothesis `0 ≤ margin` is discharged by the parameter check (fix 07db192)

`bins_inside_area` needs a non-negative margin — a hypothesis the proof forced, and the signal of a defect: until fix
07db192 `RoughLegalizationParameters::check()` accepted any `sideMargin`, and a negative one made the clipped rows (hence
the bins, hence the upper-bound placements) extend beyond the rows (`negative_margin_leaves_rows`).  The check
conditions are regenerated from `src/parameters.cpp` on every run (`Gen/Params.lean`); removing the bound again breaks
`accepted_side_margin_in_range`. -/

/-- `int margin = sideMargin * minCellHeight;` in `DensityGrid::fromIspdCircuit`: the `double` parameter is converted to
`float` at the call, the `int` height to `float` for the product, the product is rounded and truncated.  `rnd` is any
rounding that maps non-negative values to non-negative values (every IEEE rounding mode does). -/
def marginOf (rnd : Rat → Rat) (sideMargin : Rat) (minCellHeight : Int) : Int :=
  truncRat (rnd (rnd sideMargin * rnd minCellHeight))

theorem truncRat_nonneg {q : Rat} (h : 0 ≤ q) : 0 ≤ truncRat q := by
  unfold truncRat
  exact Int.tdiv_nonneg (Rat.num_nonneg.mpr h) (Int.natCast_nonneg _)

/-- Every `RoughLegalizationParameters` record that passes the translated `check()` has its side margin in [0, 100]. -/
theorem accepted_side_margin_in_range (p : Gen.Params.RoughLegalizationParameters) (h : p.check = true) :
    0 ≤ p.sideMargin ∧ p.sideMargin ≤ 100 := by
  unfold Gen.Params.RoughLegalizationParameters.check ApiIR.checkPasses at h
  have hm := List.all_eq_true.mp h
    (((decide (p.sideMargin < (0 : Rat))) || (decide (p.sideMargin > (100 : Rat)))),
      "Rough legalization side margin should be non-negative and small (a few standard cell heights)")
    (by simp [Gen.Params.RoughLegalizationParameters.checkItems])
  simp only [Bool.not_eq_true', Bool.or_eq_false_iff, decide_eq_false_iff_not, Rat.not_lt, gt_iff_lt] at hm
  exact hm

/-- The hypotheses of the control-loop theorems below that restrict *parameters* (`nbInitialSteps < maxNbSteps` in
`zero_wirelength_exits_first_step`; a positive update distance and a back-off of at least 1 in the penalty schedule) are
what the translated `GlobalPlacerParameters::check()` enforces. -/
theorem accepted_global_step_counts (p : Gen.Params.GlobalPlacerParameters) (h : p.check = true) :
    0 ≤ p.nbInitialSteps ∧ p.nbInitialSteps < p.maxNbSteps ∧ 1 ≤ p.nbStepsBeforeRoughLegalization ∧
    0 < p.penaltyUpdateDistance ∧ 1 ≤ p.penaltyUpdateBackoff := by
  unfold Gen.Params.GlobalPlacerParameters.check ApiIR.checkPasses at h
  have hall := List.all_eq_true.mp h
  have h1 := hall ((decide ((p.nbInitialSteps : Rat) < (0 : Rat))), "Invalid number of initial steps")
    (by simp [Gen.Params.GlobalPlacerParameters.checkItems])
  have h2 := hall ((decide ((p.nbInitialSteps : Rat) ≥ (p.maxNbSteps : Rat))), "Number of initial steps should be lower than max number")
    (by simp [Gen.Params.GlobalPlacerParameters.checkItems])
  have h3 := hall ((decide ((p.nbStepsBeforeRoughLegalization : Rat) < (1 : Rat))), "Number of steps per legalization should be positive")
    (by simp [Gen.Params.GlobalPlacerParameters.checkItems])
  have h4 := hall ((decide (p.penaltyUpdateDistance ≤ (0 : Rat))), "Invalid penalty update distance (should be positive)")
    (by simp [Gen.Params.GlobalPlacerParameters.checkItems])
  have h5 := hall ((decide (p.penaltyUpdateBackoff < (1 : Rat))), "Invalid penalty update backoff (should be at least 1)")
    (by simp [Gen.Params.GlobalPlacerParameters.checkItems])
  simp only [Bool.not_eq_true', decide_eq_false_iff_not, Rat.not_lt, Rat.not_le, ge_iff_le] at h1 h2 h3 h4 h5
  refine ⟨by exact_mod_cast h1, by exact_mod_cast h2, by exact_mod_cast h3, h4, h5⟩

/-- … hence the margin `fromIspdCircuit` computes from an accepted parameter set is non-negative, whatever the smallest
cell height (positive, or `INT_MAX` when no cell has a positive height). -/
theorem accepted_margin_nonneg (rnd : Rat → Rat) (hr : ∀ q, 0 ≤ q → 0 ≤ rnd q)
    (p : Gen.Params.RoughLegalizationParameters) (h : p.check = true) (minCellHeight : Int) (hH : 0 ≤ minCellHeight) :
    0 ≤ marginOf rnd p.sideMargin minCellHeight := by
  unfold marginOf
  apply truncRat_nonneg
  apply hr
  apply Rat.mul_nonneg (hr _ (accepted_side_margin_in_range p h).1)
  apply hr
  exact_mod_cast hH

/-- **For every parameter set the check accepts**, every bin limit of the grid of `DensityGrid::fromIspdCircuit` lies
inside the bounding box of the rows: `bins_inside_rows_bbox` with its margin hypothesis discharged. -/
theorem bins_inside_rows_bbox_accepted_params (c : Circuit) (rnd : Rat → Rat) (hr : ∀ q, 0 ≤ q → 0 ≤ rnd q)
    (p : Gen.Params.RoughLegalizationParameters) (h : p.check = true) (minCellHeight : Int) (hH : 0 ≤ minCellHeight)
    (binSize : Int) (hne : c.rows ≠ [])
    (hwf : ∀ r ∈ c.rows, Rect.Within ⟨intMin, intMax, intMin, intMax⟩ r.rect) :
    (∀ l ∈ (mkGrid binSize (gridRegions (marginOf rnd p.sideMargin minCellHeight) (c.computeRows.map (·.rect))
        (c.rows.map (·.rect)))).limX,
      (computePlacementArea (c.rows.map (·.rect))).minX ≤ l ∧ l ≤ (computePlacementArea (c.rows.map (·.rect))).maxX) ∧
    (∀ l ∈ (mkGrid binSize (gridRegions (marginOf rnd p.sideMargin minCellHeight) (c.computeRows.map (·.rect))
        (c.rows.map (·.rect)))).limY,
      (computePlacementArea (c.rows.map (·.rect))).minY ≤ l ∧ l ≤ (computePlacementArea (c.rows.map (·.rect))).maxY) :=
  bins_inside_rows_bbox c _ binSize (accepted_margin_nonneg rnd hr p h minCellHeight hH) hne hwf

/-- non-vacuity: the rough-legalization parameters of every effort 1..9 (the translated default table) pass the check,
so `accepted_*` speak about them. -/
example : ∀ e ∈ Gen.Params.defaults, e.2.global.roughLegalization.check = true := by decide +kernel

theorem minCellHeight_pos (heights : List Int) : 0 < minCellHeight heights := by
  unfold minCellHeight
  have key : ∀ (l : List Int) (m : Int), 0 < m → 0 < l.foldl (fun m h => if h > 0 then min h m else m) m := by
    intro l
    induction l with
    | nil => intro m hm; simpa
    | cons a r ih =>
      intro m hm
      simp only [List.foldl_cons]
      apply ih
      split
      · rename_i ha; exact Int.lt_min.mpr ⟨ha, hm⟩
      · exact hm
  exact key heights intMax (by unfold intMax; decide)

/-- The same about the function the driver EXECUTES against `DensityGrid::fromIspdCircuit` (`gridFromRows`: margin and bin
size computed from the side margin, the size factor and the cell heights as the code does, over exact products): for every
accepted `RoughLegalizationParameters`, every circuit with rows, every list of cell heights and every size factor, all
bin limits lie inside the bounding box of the rows. -/
theorem grid_of_accepted_params_inside_rows (c : Circuit) (p : Gen.Params.RoughLegalizationParameters)
    (h : p.check = true) (heights : List Int) (sizeFactor : Rat) (hne : c.rows ≠ [])
    (hwf : ∀ r ∈ c.rows, Rect.Within ⟨intMin, intMax, intMin, intMax⟩ r.rect) :
    (∀ l ∈ (gridFromRows (c.computeRows.map (·.rect)) (c.rows.map (·.rect)) heights sizeFactor p.sideMargin).limX,
      (computePlacementArea (c.rows.map (·.rect))).minX ≤ l ∧ l ≤ (computePlacementArea (c.rows.map (·.rect))).maxX) ∧
    (∀ l ∈ (gridFromRows (c.computeRows.map (·.rect)) (c.rows.map (·.rect)) heights sizeFactor p.sideMargin).limY,
      (computePlacementArea (c.rows.map (·.rect))).minY ≤ l ∧ l ≤ (computePlacementArea (c.rows.map (·.rect))).maxY) := by
  unfold gridFromRows
  refine bins_inside_rows_bbox c _ _ ?_ hne hwf
  apply truncRat_nonneg
  apply Rat.mul_nonneg (accepted_side_margin_in_range p h).1
  exact_mod_cast Int.le_of_lt (minCellHeight_pos heights)

/-- Witness of the defect repaired by fix 07db192 (kernel-evaluated on the model the driver executes): with margin −3
— `sideMargin = -3`, accepted before the fix, on cells of height 1 — the grid built over the single row `[0,20]×[0,4]`
reaches from −3 to 23. -/
theorem negative_margin_leaves_rows :
    (mkGrid 5 (gridRegions (-3) [⟨0, 20, 0, 4⟩] [⟨0, 20, 0, 4⟩])).area.minX = -3 ∧
    (mkGrid 5 (gridRegions (-3) [⟨0, 20, 0, 4⟩] [⟨0, 20, 0, 4⟩])).area.maxX = 23 := by decide

/-- non-vacuity of `bins_inside_rows_bbox`: a circuit with one row and a fixed obstruction -/
example :
    let c : Circuit := ⟨[⟨4, 4, 8, 0, .N, true, true, .ANY⟩], [], [⟨⟨0, 20, 0, 4⟩, .N⟩]⟩
    ∀ l ∈ (mkGrid 5 (gridRegions 1 (c.computeRows.map (·.rect)) (c.rows.map (·.rect)))).limX,
      (computePlacementArea (c.rows.map (·.rect))).minX ≤ l ∧ l ≤ (computePlacementArea (c.rows.map (·.rect))).maxX :=
  (bins_inside_rows_bbox ⟨[⟨4, 4, 8, 0, .N, true, true, .ANY⟩], [], [⟨⟨0, 20, 0, 4⟩, .N⟩]⟩ 1 5 (by decide) (by simp)
    (by intro r hr; simp at hr; subst hr; unfold Rect.Within intMin intMax; decide)).1

/-- `spreadCoordX/Y`: if every bin of the loop has `lo < hi`, no cell is allocated to two bins
(nor twice to one) and cell indices are in range — the invariant `HierarchicalDensityPlacement::
check` asserts, C16 —, and demands are non-negative, then every positive-demand cell of a bin
gets a coordinate strictly inside that bin. -/
theorem spread_coord_inside (n : Nat) (aLo aHi : Int) (bins : List Bin) (target : List Rat) (demand : List Int)
    (hdem : ∀ c, 0 ≤ demand.getD c 0) (hlh : ∀ b ∈ bins, b.lo < b.hi)
    (hnd : (bins.flatMap fun b => b.cells).Nodup) (hr : ∀ b ∈ bins, ∀ c ∈ b.cells, c < n) :
    ∀ b ∈ bins, ∀ c ∈ b.cells, 0 < demand.getD c 0 →
      (b.lo : Rat) < (spreadCoord n aLo aHi bins target demand).getD c 0 ∧
      (spreadCoord n aLo aHi bins target demand).getD c 0 < (b.hi : Rat) := by
  intro b hb c hc hpos
  exact (binLoop_inside target demand hdem n bins (initCoords n aLo aHi target) (initCoords_length _ _ _ _)
    hlh hnd hr).2.1 b hb c hc hpos

/-- A cell that is in no bin (zero demand: fixed cells, movable cells of zero area) keeps its
target clamped to the extent `[aLo, aHi]` of the placement area. -/
theorem spread_coord_unassigned (n : Nat) (aLo aHi : Int) (bins : List Bin) (target : List Rat) (demand : List Int)
    (hdem : ∀ c, 0 ≤ demand.getD c 0) (hlh : ∀ b ∈ bins, b.lo < b.hi)
    (hnd : (bins.flatMap fun b => b.cells).Nodup) (hr : ∀ b ∈ bins, ∀ c ∈ b.cells, c < n)
    (c : Nat) (hc : c < n) (hno : ∀ b ∈ bins, c ∉ b.cells) :
    (spreadCoord n aLo aHi bins target demand).getD c 0 = clampTo aLo aHi (target.getD c 0) := by
  rw [← initCoords_getD n aLo aHi target c hc]
  exact (binLoop_inside target demand hdem n bins (initCoords n aLo aHi target) (initCoords_length _ _ _ _)
    hlh hnd hr).2.2 c hno

/-- Composition: an upper-bound placement (`spreadCoordX` or `spreadCoordY` of the legalizer)
computed over bins whose limits are limits of the grid of `fromIspdCircuit` keeps the centre of
every cell that is allocated to a bin and has positive demand strictly inside the rows'
bounding box (`lims`/`A`/`B` are `limX`/`box.minX`/`box.maxX` or the y counterparts, as
provided by `bins_inside_area`). -/
theorem ub_centre_inside (lims : List Int) (A B : Int) (hl : ∀ l ∈ lims, A ≤ l ∧ l ≤ B)
    (n : Nat) (aLo aHi : Int) (bins : List Bin) (target : List Rat) (demand : List Int)
    (hdem : ∀ c, 0 ≤ demand.getD c 0)
    (hb : ∀ b ∈ bins, b.lo ∈ lims ∧ b.hi ∈ lims ∧ b.lo < b.hi)
    (hnd : (bins.flatMap fun b => b.cells).Nodup) (hr : ∀ b ∈ bins, ∀ c ∈ b.cells, c < n) :
    ∀ b ∈ bins, ∀ c ∈ b.cells, 0 < demand.getD c 0 →
      (A : Rat) < (spreadCoord n aLo aHi bins target demand).getD c 0 ∧
      (spreadCoord n aLo aHi bins target demand).getD c 0 < (B : Rat) := by
  intro b hbm c hc hpos
  obtain ⟨h1, h2⟩ := spread_coord_inside n aLo aHi bins target demand hdem (fun b hb' => (hb b hb').2.2) hnd hr b hbm c hc hpos
  have ha : (A : Rat) ≤ (b.lo : Rat) := by exact_mod_cast (hl b.lo (hb b hbm).1).1
  have hb' : (b.hi : Rat) ≤ (B : Rat) := by exact_mod_cast (hl b.hi (hb b hbm).2.1).2
  constructor <;> linarith

/-- non-vacuity of `ub_centre_inside`: two bins `[0,5]`, `[5,10]` with cells `{0,2}` and `{1}` -/
example : (0 : Rat) < (spreadCoord 3 0 10 [⟨0, 5, [0, 2]⟩, ⟨5, 10, [1]⟩] [7, 1, 3] [2, 4, 6]).getD 2 0 ∧
    (spreadCoord 3 0 10 [⟨0, 5, [0, 2]⟩, ⟨5, 10, [1]⟩] [7, 1, 3] [2, 4, 6]).getD 2 0 < 10 :=
  ub_centre_inside [0, 5, 10] 0 10 (by decide) 3 0 10 [⟨0, 5, [0, 2]⟩, ⟨5, 10, [1]⟩] [7, 1, 3] [2, 4, 6]
    (by
      intro c
      rw [List.getD_eq_getElem?_getD]
      match c with
      | 0 | 1 | 2 => decide
      | c + 3 => simp)
    (by decide) (by decide) (by decide) ⟨0, 5, [0, 2]⟩ (by simp) 2 (by simp) (by decide)

/-- Every cell: with the invariant that bins hold only cells of positive demand (the
constructor of `HierarchicalDensityPlacement` and `updateCellDemand` guarantee it), *every*
cell index — in a bin or not, in particular movable cells of zero area — gets an upper-bound
coordinate inside `[A, B]`, provided the extent `[aLo, aHi]` of the placement area is made of
grid limits. -/
theorem ub_every_cell_inside (lims : List Int) (A B : Int) (hl : ∀ l ∈ lims, A ≤ l ∧ l ≤ B)
    (n : Nat) (aLo aHi : Int) (ha : aLo ∈ lims ∧ aHi ∈ lims ∧ aLo ≤ aHi)
    (bins : List Bin) (target : List Rat) (demand : List Int)
    (hdem : ∀ c, 0 ≤ demand.getD c 0)
    (hb : ∀ b ∈ bins, b.lo ∈ lims ∧ b.hi ∈ lims ∧ b.lo < b.hi)
    (hnd : (bins.flatMap fun b => b.cells).Nodup) (hr : ∀ b ∈ bins, ∀ c ∈ b.cells, c < n)
    (hposbin : ∀ b ∈ bins, ∀ c ∈ b.cells, 0 < demand.getD c 0) :
    ∀ c, c < n →
      (A : Rat) ≤ (spreadCoord n aLo aHi bins target demand).getD c 0 ∧
      (spreadCoord n aLo aHi bins target demand).getD c 0 ≤ (B : Rat) := by
  intro c hc
  by_cases hex : ∃ b ∈ bins, c ∈ b.cells
  · obtain ⟨b, hbm, hcm⟩ := hex
    obtain ⟨h1, h2⟩ := ub_centre_inside lims A B hl n aLo aHi bins target demand hdem hb hnd hr b hbm c hcm
      (hposbin b hbm c hcm)
    exact ⟨le_of_lt h1, le_of_lt h2⟩
  · have hno : ∀ b ∈ bins, c ∉ b.cells := fun b hbm hcm => hex ⟨b, hbm, hcm⟩
    rw [spread_coord_unassigned n aLo aHi bins target demand hdem (fun b hb' => (hb b hb').2.2) hnd hr c hc hno]
    obtain ⟨c1, c2⟩ := clampTo_bounds aLo aHi ha.2.2 (target.getD c 0)
    have a1 : (A : Rat) ≤ (aLo : Rat) := by exact_mod_cast (hl aLo ha.1).1
    have a2 : (aHi : Rat) ≤ (B : Rat) := by exact_mod_cast (hl aHi ha.2.1).2
    constructor <;> linarith

/-- What a callback exposes of such a placement: the exported lower-left corner
`round(v − w/2)` puts the exposed centre `x + w/2` within one half of the float centre, hence
inside the bounding box enlarged by one half — the tolerance used by the direct oracle. -/
theorem ub_exposed_centre (v : Rat) (w A B : Int) (hA : (A : Rat) ≤ v) (hB : v ≤ (B : Rat)) :
    (A : Rat) - 1 / 2 ≤ (exportCoord v w : Rat) + (1 / 2) * (w : Rat) ∧
    (exportCoord v w : Rat) + (1 / 2) * (w : Rat) ≤ (B : Rat) + 1 / 2 := by
  obtain ⟨h1, h2⟩ := round_err (v - (1 / 2) * (w : Rat))
  unfold exportCoord
  constructor <;> linarith

/-! ### binary32: `spreadCells` / `spreadCoordX/Y` as compiled (`Model/SpreadF.lean`) -/

open ColoVerif.SpreadF in
/-- `spreadCells` in binary32, ALL inputs (any targets, any demands — negative, huge, inexact —, any running
share, whatever the roundings do): with `lo ≤ hi` the coordinate returned for a cell of positive demand lies in
the CLOSED bin `[lo, hi]`.  (The strict containment of `spread_inside` does not survive rounding: a coordinate
can sit on the edge.) -/
theorem spreadF_inside_closed_bin (targets demands : List Rat) (lo hi : Rat) (hlh : lo ≤ hi)
    (i : Nat) (hi' : i < targets.length) (hpos : 0 < demands.getD i 0) :
    lo ≤ (spreadCellsF targets demands lo hi).getD i 0 ∧ (spreadCellsF targets demands lo hi).getD i 0 ≤ hi :=
  spreadCellsF_inside targets demands lo hi hlh i hi' hpos

open ColoVerif.SpreadF in
/-- non-vacuity of `spreadF_inside_closed_bin`, on the input that broke the pre-fix code: the last cell is now
placed on the edge `4000000` (kernel-evaluated: `LegacySpreadF.witness_drift_fixed`) -/
example : (spreadCellsF [0, 1, 2, 3, 4, 5, 6, 7, 8, 9] [16776988, 1, 1, 1, 1, 1, 1, 2, 2, 2] 0 4000000).getD 9 0 ≤ 4000000 :=
  (spreadF_inside_closed_bin _ _ 0 4000000 (by norm_num) 9 (by simp) (by simp)).2

open ColoVerif.SpreadF in
/-- `spreadCoordX/Y` in binary32: if every bin of the loop has `lo ≤ hi`, no cell is allocated to two bins (nor
twice to one) and cell indices are in range — the invariant `HierarchicalDensityPlacement::check` asserts, C16 —,
then every positive-demand cell of a bin gets a coordinate in `[(float) lo, (float) hi]`.  No hypothesis on the
sign or size of the other demands. -/
theorem spreadF_coord_inside (n : Nat) (aLo aHi : Int) (bins : List Bin) (target : List Rat) (demand : List Int)
    (hlh : ∀ b ∈ bins, b.lo ≤ b.hi)
    (hnd : (bins.flatMap fun b => b.cells).Nodup) (hr : ∀ b ∈ bins, ∀ c ∈ b.cells, c < n) :
    ∀ b ∈ bins, ∀ c ∈ b.cells, 0 < demand.getD c 0 →
      fl (b.lo : Rat) ≤ (spreadCoordF n aLo aHi bins target demand).getD c 0 ∧
      (spreadCoordF n aLo aHi bins target demand).getD c 0 ≤ fl (b.hi : Rat) := by
  intro b hb c hc hpos
  exact (binLoopF_inside target demand n bins (initCoordsF n aLo aHi target) (initCoordsF_length _ _ _ _)
    hlh hnd hr).2.1 b hb c hc hpos

open ColoVerif.SpreadF in
/-- A cell that is in no bin keeps its target clamped to `[(float) aLo, (float) aHi]` (comparisons only). -/
theorem spreadF_coord_unassigned (n : Nat) (aLo aHi : Int) (bins : List Bin) (target : List Rat) (demand : List Int)
    (hlh : ∀ b ∈ bins, b.lo ≤ b.hi)
    (hnd : (bins.flatMap fun b => b.cells).Nodup) (hr : ∀ b ∈ bins, ∀ c ∈ b.cells, c < n)
    (c : Nat) (hc : c < n) (hno : ∀ b ∈ bins, c ∉ b.cells) :
    (spreadCoordF n aLo aHi bins target demand).getD c 0 = clampF aLo aHi (target.getD c 0) := by
  rw [← initCoordsF_getD n aLo aHi target c hc]
  exact (binLoopF_inside target demand n bins (initCoordsF n aLo aHi target) (initCoordsF_length _ _ _ _)
    hlh hnd hr).2.2 c hno

open ColoVerif.SpreadF in
/-- Every cell, binary32 (the float analogue of `ub_every_cell_inside`).  Hypotheses, exactly as in the `Rat`
version: from C16's invariant — no cell in two bins (`hnd`), indices in range (`hr`), bins hold only cells of
positive demand (`hposbin`), every bin limit and the extent `[aLo, aHi]` of the placement area are grid limits
(`hb`, `ha`) —; from `bins_inside_area` — grid limits lie in `[A, B]` (`hl`) —; and one more for binary32 — the
limits convert exactly to `float`, `|l| ≤ 2^24` (`hex`; C06's coordinates are below `2^22`).  Conclusion: every
cell index, in a bin or not, gets an upper-bound coordinate in `[A, B]`. -/
theorem ubF_every_cell_inside (lims : List Int) (A B : Int) (hl : ∀ l ∈ lims, A ≤ l ∧ l ≤ B)
    (hex : ∀ l ∈ lims, |l| ≤ 2 ^ 24)
    (n : Nat) (aLo aHi : Int) (ha : aLo ∈ lims ∧ aHi ∈ lims ∧ aLo ≤ aHi)
    (bins : List Bin) (target : List Rat) (demand : List Int)
    (hb : ∀ b ∈ bins, b.lo ∈ lims ∧ b.hi ∈ lims ∧ b.lo ≤ b.hi)
    (hnd : (bins.flatMap fun b => b.cells).Nodup) (hr : ∀ b ∈ bins, ∀ c ∈ b.cells, c < n)
    (hposbin : ∀ b ∈ bins, ∀ c ∈ b.cells, 0 < demand.getD c 0) :
    ∀ c, c < n →
      (A : Rat) ≤ (spreadCoordF n aLo aHi bins target demand).getD c 0 ∧
      (spreadCoordF n aLo aHi bins target demand).getD c 0 ≤ (B : Rat) := by
  intro c hc
  have hlh : ∀ b ∈ bins, b.lo ≤ b.hi := fun b hb' => (hb b hb').2.2
  by_cases hexi : ∃ b ∈ bins, c ∈ b.cells
  · obtain ⟨b, hbm, hcm⟩ := hexi
    obtain ⟨h1, h2⟩ := spreadF_coord_inside n aLo aHi bins target demand hlh hnd hr b hbm c hcm (hposbin b hbm c hcm)
    rw [fl_int _ (hex _ (hb b hbm).1)] at h1
    rw [fl_int _ (hex _ (hb b hbm).2.1)] at h2
    have a1 : (A : Rat) ≤ (b.lo : Rat) := by exact_mod_cast (hl b.lo (hb b hbm).1).1
    have a2 : (b.hi : Rat) ≤ (B : Rat) := by exact_mod_cast (hl b.hi (hb b hbm).2.1).2
    constructor <;> linarith
  · have hno : ∀ b ∈ bins, c ∉ b.cells := fun b hbm hcm => hexi ⟨b, hbm, hcm⟩
    rw [spreadF_coord_unassigned n aLo aHi bins target demand hlh hnd hr c hc hno]
    obtain ⟨c1, c2⟩ := clampF_bounds aLo aHi ha.2.2 (target.getD c 0)
    rw [fl_int _ (hex _ ha.1)] at c1
    rw [fl_int _ (hex _ ha.2.1)] at c2
    have a1 : (A : Rat) ≤ (aLo : Rat) := by exact_mod_cast (hl aLo ha.1).1
    have a2 : (aHi : Rat) ≤ (B : Rat) := by exact_mod_cast (hl aHi ha.2.1).2
    constructor <;> linarith

open ColoVerif.SpreadF in
/-- non-vacuity of `ubF_every_cell_inside`: two bins `[0,5]`, `[5,10]` with cells `{0,2}` and `{1}`, cell 3 in no bin -/
example : (0 : Rat) ≤ (spreadCoordF 4 0 10 [⟨0, 5, [0, 2]⟩, ⟨5, 10, [1]⟩] [7, 1, 3, 99] [2, 4, 6, 0]).getD 3 0 ∧
    (spreadCoordF 4 0 10 [⟨0, 5, [0, 2]⟩, ⟨5, 10, [1]⟩] [7, 1, 3, 99] [2, 4, 6, 0]).getD 3 0 ≤ ((10 : Int) : Rat) :=
  ubF_every_cell_inside [0, 5, 10] 0 10 (by decide) (by decide) 4 0 10 (by decide)
    [⟨0, 5, [0, 2]⟩, ⟨5, 10, [1]⟩] [7, 1, 3, 99] [2, 4, 6, 0] (by decide) (by decide) (by decide) (by decide) 3 (by decide)

/-- The "up to rounding" of the statement in its general form: for any `x` with `A − ε ≤ x ≤ B + ε`, `ε < 1/2`,
`A B` integers and an integer width `w`, the exported position `p = round(x − w/2)` (half away from zero) has its
centre `p + w/2` in `[A − 1/2, B + 1/2]` (`2p + w` is an integer strictly between `2A − 2` and `2B + 2`).  With
`ε = 0` this is `ub_exposed_centre`; it also shows that an excursion below one half would be invisible. -/
theorem exposed_centre_within_half (x ε : Rat) (w A B : Int) (hε : ε < 1 / 2)
    (hA : (A : Rat) - ε ≤ x) (hB : x ≤ (B : Rat) + ε) :
    (A : Rat) - 1 / 2 ≤ (exportCoord x w : Rat) + (1 / 2) * (w : Rat) ∧
    (exportCoord x w : Rat) + (1 / 2) * (w : Rat) ≤ (B : Rat) + 1 / 2 :=
  ColoVerif.SpreadF.exposed_within_half x ε w A B hε hA hB

/-- non-vacuity of `exposed_centre_within_half`: `x = 10.4` is outside `[0, 10]`, width 3: exported 9, centre 10.5 -/
example : (exportCoord (52 / 5) 3 : Rat) + (1 / 2) * ((3 : Int) : Rat) ≤ ((10 : Int) : Rat) + 1 / 2 :=
  (exposed_centre_within_half (52 / 5) (2 / 5) 3 0 10 (by norm_num) (by norm_num) (by norm_num)).2

open ColoVerif.SpreadF in
/-- What a callback exposes of a binary32 upper-bound placement (hypotheses of `ubF_every_cell_inside`): for
every cell and every integer placed width `w`, the exposed centre `round(v − w/2) + w/2` lies in the rows'
bounding box enlarged by one half — exactly the tolerance of the direct oracle (`exposed_centre_within_half`
with `ε = 0`). -/
theorem ubF_exposed_centre (lims : List Int) (A B : Int) (hl : ∀ l ∈ lims, A ≤ l ∧ l ≤ B)
    (hex : ∀ l ∈ lims, |l| ≤ 2 ^ 24)
    (n : Nat) (aLo aHi : Int) (ha : aLo ∈ lims ∧ aHi ∈ lims ∧ aLo ≤ aHi)
    (bins : List Bin) (target : List Rat) (demand : List Int)
    (hb : ∀ b ∈ bins, b.lo ∈ lims ∧ b.hi ∈ lims ∧ b.lo ≤ b.hi)
    (hnd : (bins.flatMap fun b => b.cells).Nodup) (hr : ∀ b ∈ bins, ∀ c ∈ b.cells, c < n)
    (hposbin : ∀ b ∈ bins, ∀ c ∈ b.cells, 0 < demand.getD c 0) (w : Int) :
    ∀ c, c < n →
      (A : Rat) - 1 / 2 ≤ (exportCoord ((spreadCoordF n aLo aHi bins target demand).getD c 0) w : Rat) + (1 / 2) * (w : Rat) ∧
      (exportCoord ((spreadCoordF n aLo aHi bins target demand).getD c 0) w : Rat) + (1 / 2) * (w : Rat) ≤ (B : Rat) + 1 / 2 := by
  intro c hc
  obtain ⟨h1, h2⟩ := ubF_every_cell_inside lims A B hl hex n aLo aHi ha bins target demand hb hnd hr hposbin c hc
  exact exposed_centre_within_half _ 0 w A B (by norm_num) (by linarith) (by linarith)

open ColoVerif.SpreadF in
/-- non-vacuity of `ubF_exposed_centre` (same data as above, cell 1 of width 3) -/
example : (exportCoord ((spreadCoordF 4 0 10 [⟨0, 5, [0, 2]⟩, ⟨5, 10, [1]⟩] [7, 1, 3, 99] [2, 4, 6, 0]).getD 1 0) 3 : Rat)
    + (1 / 2) * ((3 : Int) : Rat) ≤ ((10 : Int) : Rat) + 1 / 2 :=
  (ubF_exposed_centre [0, 5, 10] 0 10 (by decide) (by decide) 4 0 10 (by decide)
    [⟨0, 5, [0, 2]⟩, ⟨5, 10, [1]⟩] [7, 1, 3, 99] [2, 4, 6, 0] (by decide) (by decide) (by decide) (by decide) 3 1 (by decide)).2

/-! ### the pre-fix `spreadCells` (`Model/LegacySpreadF.lean`, before fixes/c06-spread-clamp.diff) -/

open ColoVerif.LegacySpreadF in
/-- Before the clamp the binary32 coordinate of a positive-demand cell could lie strictly OUTSIDE the closed
bin, on both sides (kernel-evaluated): three cells of demands 2, 8222228, 1 in the bin `[0, 2]` — the last one
was placed at `2 + 2^-22`; two cells of demands 4, 2858381 in `[3946, 3970]` — the first one at `3946 − 2^-12`. -/
theorem legacy_spreadF_can_leave_bin :
    (2 : Rat) < (spreadCellsF [0, 1, 2] [2, 8222228, 1] 0 2).getD 2 0 ∧
    (spreadCellsF [0, 1] [4, 2858381] 3946 3970).getD 0 0 < (3946 : Rat) := by
  rw [witness_up, witness_low]
  constructor <;> norm_num

open ColoVerif.LegacySpreadF in
/-- …and by more than one half, so that the export rounding did NOT absorb it: ten cells of demands
16776988, 1×6, 2×3 (total just below 2^24, targets increasing) in the bin `[0, 4000000]`: every addition to the
running share rounds up, it ends at `1 + 3·2^-22`, the last cell was placed at `4000002.5` and the exported
centre of a zero-width cell there is `4000003 > 4000000 + 1/2`. -/
theorem legacy_spreadF_can_exceed_half :
    finalShareF [0, 1, 2, 3, 4, 5, 6, 7, 8, 9] [16776988, 1, 1, 1, 1, 1, 1, 2, 2, 2] 0 4000000 = 1 + 3 / 4194304 ∧
    (4000000 : Rat) + 1 / 2 <
      (exportCoord ((spreadCellsF [0, 1, 2, 3, 4, 5, 6, 7, 8, 9] [16776988, 1, 1, 1, 1, 1, 1, 2, 2, 2] 0 4000000).getD 9 0) 0 : Rat)
        + (1 / 2) * ((0 : Int) : Rat) := by
  rw [witness_drift.1, witness_drift.2]
  have : exportCoord (8000005 / 2) 0 = 4000003 := by decide +kernel
  rw [this]; norm_num

/-- `GlobalPlacer::exportPlacement(circuit)`: on each axis the returned coordinate of a movable
cell is `round((1−β)·lb + β·ub − size/2)` (the `β = 0` and `β = 1` short-cuts of
`blendPlacement` agree with the formula); fixed cells keep their coordinate. -/
theorem export_is_blend (fixed : List Bool) (old : List Int) (lb ub : List Rat) (size : List Int)
    (beta : Rat) (i : Nat) (hf : i < fixed.length) (ho : i < old.length) (hl : i < lb.length)
    (hu : i < ub.length) (hs : i < size.length) (hlu : lb.length = ub.length) :
    (exportFinal fixed old lb ub size beta).getD i 0 =
      if fixed.getD i true then old.getD i 0
      else roundHalfAway ((1 - beta) * lb.getD i 0 + beta * ub.getD i 0 - (1 / 2) * (size.getD i 0 : Rat)) := by
  unfold exportFinal
  rw [exportAxis_getD fixed old _ size i hf ho (by rw [blend_length lb ub beta hlu]; exact hl) hs,
    blend_getD lb ub beta i hl hu]
  rfl

/-- non-vacuity of `export_is_blend` -/
example : (exportFinal [false] [0] [3] [7] [2] (1 / 2)).getD 0 0 =
    roundHalfAway ((1 - 1 / 2) * 3 + 1 / 2 * 7 - 1 / 2 * ((2 : Int) : Rat)) := by
  have := export_is_blend [false] [0] [3] [7] [2] (1 / 2) 0 (by simp) (by simp) (by simp) (by simp) (by simp) rfl
  simpa using this

/-- The statement's "up to rounding", derived: callbacks expose `LB = round(lb − w/2)` and
`UB = round(ub − w/2)`; the returned `round((1−β)·lb + β·ub − w/2)` differs from the blend of
the exposed integers by at most `(|1−β| + |β| + 1)/2` — three roundings.  (Over `Rat`; the
harness adds the four single-precision roundings of `blendPlacement`.) -/
theorem export_blend_observable (lb ub beta : Rat) (w : Int) :
    ((roundHalfAway ((1 - beta) * lb + beta * ub - (1 / 2) * (w : Rat)) : Int) : Rat)
      - ((1 - beta) * (exportCoord lb w : Rat) + beta * (exportCoord ub w : Rat)) ≤ blendBound beta ∧
    -(blendBound beta) ≤ ((roundHalfAway ((1 - beta) * lb + beta * ub - (1 / 2) * (w : Rat)) : Int) : Rat)
      - ((1 - beta) * (exportCoord lb w : Rat) + beta * (exportCoord ub w : Rat)) := by
  obtain ⟨r1, r2⟩ := round_err ((1 - beta) * lb + beta * ub - (1 / 2) * (w : Rat))
  obtain ⟨a1, a2⟩ := round_err (lb - (1 / 2) * (w : Rat))
  obtain ⟨b1, b2⟩ := round_err (ub - (1 / 2) * (w : Rat))
  unfold exportCoord blendBound
  -- e1 = LB − (lb − w/2), e2 = UB − (ub − w/2) ∈ [−1/2, 1/2]; (1−β)·e1 and β·e2 are bounded by
  -- |1−β|/2 and |β|/2
  have k1 : ∀ (c e : Rat), -(1 / 2) ≤ e → e ≤ 1 / 2 →
      c * e ≤ (if c < 0 then -c else c) / 2 ∧ -((if c < 0 then -c else c) / 2) ≤ c * e := by
    intro c e h1 h2
    split
    · rename_i hc
      constructor <;> nlinarith
    · rename_i hc
      have hc' : 0 ≤ c := not_lt.mp hc
      constructor <;> nlinarith
  obtain ⟨p1, p2⟩ := k1 (1 - beta) ((roundHalfAway (lb - (1 / 2) * (w : Rat)) : Rat) - (lb - (1 / 2) * (w : Rat)))
    (by linarith) (by linarith)
  obtain ⟨q1, q2⟩ := k1 beta ((roundHalfAway (ub - (1 / 2) * (w : Rat)) : Rat) - (ub - (1 / 2) * (w : Rat)))
    (by linarith) (by linarith)
  constructor <;> nlinarith

/-! ### the control loop of `GlobalPlacer::run` -/

open ColoVerif.GlobalLoop in
/-- The loop terminates within the step limit, whatever the float code returns and whatever the
roundings are: at most `maxNbSteps - nbInitialSteps` iterations, and correspondingly bounded numbers
of callbacks (UpperBound: one per iteration plus the final one; LowerBound: the initial solves plus
`nbStepsBeforeRoughLegalization` per iteration; PenaltyUpdate: at most one per iteration). -/
theorem loop_terminates (R : Rounding) (p : Params) (o : Oracle) :
    (run R p o).iterations ≤ p.maxNbSteps - p.nbInitialSteps ∧
    (run R p o).updates ≤ (run R p o).iterations ∧
    (run R p o).events.count .ub ≤ (p.maxNbSteps - p.nbInitialSteps) + 1 ∧
    (run R p o).events.count .lb ≤ (p.nbInitialSteps + 1) + (p.maxNbSteps - p.nbInitialSteps) * p.nbInner ∧
    (run R p o).events.count .pu ≤ p.maxNbSteps - p.nbInitialSteps ∧
    (run R p o).events.length ≤
      (p.nbInitialSteps + 1) + (p.maxNbSteps - p.nbInitialSteps) * p.nbInner + 2 * (p.maxNbSteps - p.nbInitialSteps) + 1 := by
  obtain ⟨a, b, c, d, e⟩ := runWith_bounds (stopTest R p o) R p o
  refine ⟨a, b, c, d, e, ?_⟩
  rw [length_eq_counts]
  show List.count Ev.lb (runWith (stopTest R p o) R p o).events + List.count Ev.ub (runWith (stopTest R p o) R p o).events +
    List.count Ev.pu (runWith (stopTest R p o) R p o).events ≤ _
  omega

open ColoVerif.GlobalLoop in
/-- The repaired defect (commit 0d89981): when the initial solves succeed and the first upper bound
has no wirelength (`ub ≤ 0`), the loop is left at its first iteration by the `noWirelength` clause,
whatever `lb`, `dist` and the tolerances are.  The update block is never executed: the loop
variables keep their initial values, and the callbacks are the initial LowerBounds, the iteration's
UpperBound and the final UpperBound. -/
theorem zero_wirelength_exits_first_step (R : Rounding) (p : Params) (o : Oracle)
    (hinit : ∀ i, i ≤ p.nbInitialSteps → o.initOk i = true) (hsteps : p.nbInitialSteps < p.maxNbSteps)
    (hub : o.ub 0 ≤ 0) :
    (run R p o).exit = .stop .noWirelength ∧ (run R p o).iterations = 1 ∧ (run R p o).updates = 0 ∧
    (run R p o).events = List.replicate (p.nbInitialSteps + 1) .lb ++ [.ub, .ub] ∧
    (run R p o).trail = [initVars R p o] := by
  obtain ⟨f, hf⟩ : ∃ f, p.maxNbSteps - p.nbInitialSteps = f + 1 := ⟨p.maxNbSteps - p.nbInitialSteps - 1, by omega⟩
  have e : run R p o = finish (initSt R p o) [.ub] (.stop .noWirelength) 1 0 := by
    unfold run
    rw [runWith_ok _ R p o hinit, hf]
    exact loopWith_stop_first R p o f _ hub
  rw [e]
  simp [finish, initSt]

open ColoVerif.GlobalLoop in
/-- The loop variables follow the recurrences: when the initial solves succeed, the trail of
`(penalty_, penaltyCutoffDistance_, approximationDistance_)` recorded by the loop is, entry `k`, the
initial values updated `k` times (`varsAfter`, with the roundings `R` of the C++ arithmetic), for
`k = 0 … updates`. -/
theorem recurrences_rounded (R : Rounding) (p : Params) (o : Oracle)
    (hinit : ∀ i, i ≤ p.nbInitialSteps → o.initOk i = true) :
    (run R p o).trail = (List.range ((run R p o).updates + 1)).map (varsAfter R p o) :=
  runWith_trail (stopTest R p o) R p o hinit

open ColoVerif.GlobalLoop in
/-- …and in exact arithmetic the recurrences are the closed forms `penalty · f^k`,
`avgLen · cutoff · g^k`, `avgLen · approx · h^k`. -/
theorem recurrences_closed_form (p : Params) (o : Oracle)
    (hinit : ∀ i, i ≤ p.nbInitialSteps → o.initOk i = true) :
    (run Rounding.exact p o).trail = (List.range ((run Rounding.exact p o).updates + 1)).map
      (fun k => ⟨penaltyAfter p k, cutoffAfter p o.avgLen k, approxAfter p o.avgLen k⟩) := by
  rw [recurrences_rounded Rounding.exact p o hinit]
  exact List.map_congr_left (fun k _ => varsAfter_exact p o k)

open ColoVerif.GlobalLoop in
/-- Soundness of the KF-C06-1 classifier `drift_out_of_numeric_box` as an explanation: if it is
false for every `k` up to the number of completed updates, then (exact arithmetic, positive average
cell length) the loop variables were inside the numeric box at every point of the run: approximation
distance in `[0.1, 1e3]` and cutoff distance `≥ 0.1` average cell lengths, penalty below `2^128`,
penalty-to-cutoff ratio strictly between `2^-24` and `2^64`.  A failure on such a run is therefore not
explained by the recurrences. -/
theorem drift_box_sound (p : Params) (o : Oracle)
    (hinit : ∀ i, i ≤ p.nbInitialSteps → o.initOk i = true) (havg : 0 < o.avgLen)
    (h : ∀ k, k ≤ (run Rounding.exact p o).updates → driftOutOfBox p k = false) :
    ∀ v ∈ (run Rounding.exact p o).trail, InBox o.avgLen v := by
  intro v hv
  rw [recurrences_closed_form p o hinit] at hv
  obtain ⟨k, hk, rfl⟩ := List.mem_map.mp hv
  exact inBox_of_not_drift p o.avgLen havg k (h k (by have := List.mem_range.mp hk; omega))

open ColoVerif.GlobalLoop in
/-- The pre-fix stop test (`Model/LegacyGlobalLoop.lean`) on a circuit without wirelength
(`ub = lb = 0` throughout), with the distance test not firing and every solve succeeding: `0/0` is
not below the gap tolerance, the loop runs to the step limit and applies the recurrences
`maxNbSteps - nbInitialSteps` times — the defect that made the float penalty overflow. -/
theorem legacy_zero_wirelength_runs_all_steps (R : Rounding) (p : Params) (o : Oracle) (hR : R.f 0 = 0)
    (hinit : ∀ i, i ≤ p.nbInitialSteps → o.initOk i = true) (hok : ∀ j i, o.lbOk j i = true)
    (hlb0 : o.lb0 = 0) (hub : ∀ j, o.ub j = 0) (hlb : ∀ j, o.lb j = 0)
    (hd : ∀ j, ¬ o.dist j < distTol R p o) :
    (legacyRun R p o).exit = .stepLimit ∧ (legacyRun R p o).updates = p.maxNbSteps - p.nbInitialSteps ∧
    (legacyRun R p o).trail = (List.range (p.maxNbSteps - p.nbInitialSteps + 1)).map (varsAfter R p o) := by
  have e : legacyRun R p o = _ := runWith_ok (legacyStopTest R p o) R p o hinit
  have h := legacy_loop_all R p o hR hub hlb hd hok (p.maxNbSteps - p.nbInitialSteps) 0 (initSt R p o) hlb0
  have ht := runWith_trail (legacyStopTest R p o) R p o hinit
  rw [← e] at h
  refine ⟨h.1, by rw [h.2]; omega, ?_⟩
  show (runWith (legacyStopTest R p o) R p o).trail = _
  rw [ht]
  show (List.range ((legacyRun R p o).updates + 1)).map _ = _
  rw [h.2]; simp

namespace LoopExamples
open ColoVerif.GlobalLoop

/-- effort-like parameters: 2 initial steps, 12 steps, update factor 2 (for small numbers) -/
def p0 : Params := ⟨2, 12, 1, 1 / 20, 2, 1, 2, 1 / 50, 2, 5, 1, 1, 9 / 10⟩
/-- a circuit without wirelength: every value is 0, the cells are 3 average lengths from their targets -/
def oZero : Oracle := ⟨3, fun _ => true, 0, fun _ => 0, fun _ => 10, fun _ _ => true, fun _ => 0⟩
/-- a run whose gap closes at the fourth iteration -/
def oGap : Oracle := ⟨3, fun _ => true, 10, fun j => 100 - 20 * j, fun j => 30 - j, fun _ _ => true, fun j => 30 + 10 * j⟩

/-- non-vacuity of `zero_wirelength_exits_first_step`, and the contrast with the legacy loop on the
same oracle: the current loop stops at once and leaves the penalty at 1/50, the legacy loop runs
all 10 iterations and multiplies it by 2^10 -/
example : (run Rounding.exact p0 oZero).exit = .stop .noWirelength ∧ (run Rounding.exact p0 oZero).updates = 0 :=
  have h := zero_wirelength_exits_first_step Rounding.exact p0 oZero (fun _ _ => rfl) (by decide) (by decide +kernel)
  ⟨h.1, h.2.2.1⟩

example : (legacyRun Rounding.exact p0 oZero).exit = .stepLimit ∧ (legacyRun Rounding.exact p0 oZero).updates = 10 :=
  have h := legacy_zero_wirelength_runs_all_steps Rounding.exact p0 oZero rfl (fun _ _ => rfl) (fun _ _ => rfl) rfl
    (fun _ => rfl) (fun _ => rfl) (fun _ => by show ¬ ((10 : Rat) < distTol Rounding.exact p0 oZero); decide +kernel)
  ⟨h.1, h.2.1⟩

example : ((legacyRun Rounding.exact p0 oZero).trail.map (·.penalty)).getLast? = some (1024 / 50) := by decide +kernel

/-- non-vacuity of `loop_terminates` / `recurrences_closed_form` / `drift_box_sound` on a run with
several iterations: 4 iterations, 3 updates, stopped by the gap test, inside the box -/
example : (run Rounding.exact p0 oGap).exit = .stop .gap ∧ (run Rounding.exact p0 oGap).updates = 3 ∧
    (run Rounding.exact p0 oGap).events = [.lb, .lb, .lb, .ub, .lb, .ub, .lb, .ub, .lb, .ub, .ub] := by decide +kernel

example : ∀ v ∈ (run Rounding.exact p0 oGap).trail, InBox 3 v :=
  drift_box_sound p0 oGap (fun _ _ => rfl) (by decide +kernel) (by
    have e : (run Rounding.exact p0 oGap).updates = 3 := by decide +kernel
    rw [e]
    intro k hk
    have : k = 0 ∨ k = 1 ∨ k = 2 ∨ k = 3 := by omega
    rcases this with rfl | rfl | rfl | rfl <;> decide +kernel)

/-- the classifier does fire: with the same parameters the approximation distance `0.9^k` falls below 0.1 at
`k = 22` — and the IEEE roundings differ from exact arithmetic already at the first update -/
example : driftOutOfBox p0 22 = true ∧ driftOutOfBox p0 21 = false := by decide +kernel

example : (varsAfter Rounding.ieee p0 oGap 1).approx ≠ (varsAfter Rounding.exact p0 oGap 1).approx := by decide +kernel

end LoopExamples

/-- The geometry layer under the placement-area and bin-region statements (`bins_inside_area`,
`bins_inside_rows_bbox`, `ub_*`) is *translated from the C++ source*: the definitions of `Gen/GeomFns.lean`,
regenerated on every run from the clang AST of `Rectangle(int,int,int,int)`, `Rectangle::width / height / area /
intersects / contains / intersection`, `Circuit::isFixed / isObstruction / placement` and of the loop of
`Circuit::computePlacementArea()`, equal the hand-written `Rect.*` / `Cell.*` / `Circuit.placementArea` the C06
models are written in (`computePlacementArea` under the decidable hypothesis that the row coordinates are C++
`int`s, `GeomTie.RowsInInt`).  A semantic change of one of these bodies breaks this theorem. -/
theorem geometry_layer_translated :
    Gen.Geom.Rectangle_ctor = Rect.mk ∧
    Gen.Geom.Rectangle_width = Rect.width ∧
    Gen.Geom.Rectangle_height = Rect.height ∧
    Gen.Geom.Rectangle_area = Rect.area ∧
    Gen.Geom.Rectangle_intersects = Rect.intersects ∧
    Gen.Geom.Rectangle_intersection = Rect.intersection ∧
    Gen.Geom.Circuit_isFixed = Cell.fixed ∧
    Gen.Geom.Circuit_isObstruction = Cell.obstruction ∧
    Gen.Geom.Circuit_placement = Cell.placement ∧
    (∀ c : Circuit, GeomTie.RowsInInt c → Gen.Geom.Circuit_computePlacementArea c = c.placementArea) :=
  ⟨GeomTie.gen_Rectangle_ctor_eq_model,
   GeomTie.gen_Rectangle_width_eq_model,
   GeomTie.gen_Rectangle_height_eq_model,
   GeomTie.gen_Rectangle_area_eq_model,
   GeomTie.gen_Rectangle_intersects_eq_model,
   GeomTie.gen_Rectangle_intersection_eq_model,
   GeomTie.gen_Circuit_isFixed_eq_model,
   GeomTie.gen_Circuit_isObstruction_eq_model,
   GeomTie.gen_Circuit_placement_eq_model,
   GeomTie.gen_Circuit_computePlacementArea_eq_model⟩

end ColoVerif.C06
