import ColoVerif.Proofs.CheckedRowLeg
import ColoVerif.Proofs.CheckedCores
import ColoVerif.Model.LegacyChecked
/-
C07 — placement calls return or throw; never crash or invoke undefined behaviour.

Theorems for the modelled integer cores: on the C07 domain (coordinates within ±2^22 =
±4194304, positive widths, pushes that fit) the *checked* models — which carry the C++ type
of every sub-expression and the source's `assert`s — never return a `Fault` and return exactly
the value of the unbounded models used by the other properties: `checked = .ok unchecked`.

Termination: every checked function is defined by structural recursion (on the bound queue,
on the cell lists, on the loop counter), so the loops they mirror terminate; Lean accepted the
definitions without fuel.

The rest of the library (Eigen, boost::polygon, lemon, iostream, float→int conversions, the
glue between the cores) is NOT covered by these theorems: it is monitored by the sanitized
fault oracle of `harness/h_C07.cpp` only (see `tools/props/C07.py`, PARTIAL).
-/
namespace ColoVerif.C07
open ColoVerif.RowLeg ColoVerif.Checked

/-- A fresh row legalizer over a segment inside ±2^22 is in the domain. -/
theorem rowleg_new_in_domain (b e : Int) (hb : -4194304 ≤ b) (he : e ≤ 4194304) (hbe : b ≤ e) :
    Dom (State.new b e) := dom_new b e hb he hbe

/-- **Row legalizer: no fault.**  In a state of the domain (`Dom`: segment ends within ±2^22,
positive widths that fit, at most 2^15 cells — see `Dom`), a cost query or a push of a cell of
positive width that fits, with a target within ±2^22, and reading the placement back

* never overflows `int`/`long long`, never trips one of the five `assert`s (with assertions
  enabled, `asr = true`, or disabled),
* returns exactly what the unbounded model returns,
* and leaves a state of the domain (for `push`: as long as fewer than 2^15 cells were pushed),

so the statement chains over any sequence of operations starting from `rowleg_new_in_domain`. -/
theorem rowleg_no_fault (asr : Bool) (s : State) (w t : Int) (hd : Dom s) (hw : 0 < w)
    (hfit : w ≤ s.remaining) (ht1 : -4194304 ≤ t) (ht2 : t ≤ 4194304) :
    getCostC asr s w t = .ok (getCost s w t) ∧
    pushC asr s w t = .ok (push s w t) ∧
    placementC asr s = .ok (placement s) ∧
    Dom (getCost s w t).2 ∧
    (s.widthsRev.length < maxCells → Dom (push s w t).2) :=
  ⟨getCostC_eq asr hd hw hfit ht1 ht2, pushC_eq asr hd hw hfit ht1 ht2, placementC_eq asr hd,
   getCost_dom hd hw hfit, fun hn => push_dom hd hw hfit hn⟩

/-- operations of a row-legalizer client -/
inductive Op
  | cost (w t : Int)
  | push (w t : Int)
  | place

/-- run a sequence of operations on the unbounded model: the answers and the final state -/
def run : State → List Op → List (List Int) × State
  | s, [] => ([], s)
  | s, .cost w t :: ops => ([(getCost s w t).1] :: (run (getCost s w t).2 ops).1, (run (getCost s w t).2 ops).2)
  | s, .push w t :: ops =>
    ([(RowLeg.push s w t).1] :: (run (RowLeg.push s w t).2 ops).1, (run (RowLeg.push s w t).2 ops).2)
  | s, .place :: ops => (placement s :: (run s ops).1, (run s ops).2)

/-- run the same sequence on the checked model: the first fault, or the answers and the final state -/
def runC (asr : Bool) : State → List Op → Except Fault (List (List Int) × State)
  | s, [] => .ok ([], s)
  | s, .cost w t :: ops =>
    match getCostC asr s w t with
    | .error f => .error f
    | .ok r =>
      match runC asr r.2 ops with
      | .error f => .error f
      | .ok rs => .ok ([r.1] :: rs.1, rs.2)
  | s, .push w t :: ops =>
    match pushC asr s w t with
    | .error f => .error f
    | .ok r =>
      match runC asr r.2 ops with
      | .error f => .error f
      | .ok rs => .ok ([r.1] :: rs.1, rs.2)
  | s, .place :: ops =>
    match placementC asr s with
    | .error f => .error f
    | .ok p =>
      match runC asr s ops with
      | .error f => .error f
      | .ok rs => .ok (p :: rs.1, rs.2)

/-- the operations a client of the domain issues: positive widths that fit in what remains,
targets within ±2^22, at most 2^15 cells in total -/
def OpsOk : State → List Op → Prop
  | _, [] => True
  | s, .cost w t :: ops =>
    0 < w ∧ w ≤ s.remaining ∧ -4194304 ≤ t ∧ t ≤ 4194304 ∧ OpsOk (getCost s w t).2 ops
  | s, .push w t :: ops =>
    0 < w ∧ w ≤ s.remaining ∧ -4194304 ≤ t ∧ t ≤ 4194304 ∧ s.widthsRev.length < maxCells ∧
      OpsOk (RowLeg.push s w t).2 ops
  | s, .place :: ops => OpsOk s ops

instance decOpsOk : (s : State) → (ops : List Op) → Decidable (OpsOk s ops)
  | _, [] => isTrue trivial
  | s, .cost w t :: ops => by
    unfold OpsOk; have := decOpsOk (getCost s w t).2 ops; exact inferInstance
  | s, .push w t :: ops => by
    unfold OpsOk; have := decOpsOk (RowLeg.push s w t).2 ops; exact inferInstance
  | s, .place :: ops => by
    unfold OpsOk; exact decOpsOk s ops

/-- **Whole sessions.**  From a state of the domain (in particular a fresh legalizer over a
segment within ±2^22), every sequence of in-domain operations runs through the checked model
without a fault and with the unbounded model's answers at every step. -/
theorem rowleg_session_no_fault (asr : Bool) (ops : List Op) :
    ∀ s, Dom s → OpsOk s ops → runC asr s ops = .ok (run s ops) := by
  induction ops with
  | nil => intro s _ _; rfl
  | cons op ops ih =>
    intro s hd hok
    cases op with
    | cost w t =>
      obtain ⟨hw, hfit, ht1, ht2, hrest⟩ := hok
      have h := rowleg_no_fault asr s w t hd hw hfit ht1 ht2
      simp only [runC, run, h.1, ih _ h.2.2.2.1 hrest]
    | push w t =>
      obtain ⟨hw, hfit, ht1, ht2, hn, hrest⟩ := hok
      have h := rowleg_no_fault asr s w t hd hw hfit ht1 ht2
      simp only [runC, run, h.2.1, ih _ (h.2.2.2.2 hn) hrest]
    | place =>
      simp only [runC, run, placementC_eq asr hd, ih s hd hok]

/-- non-vacuity: a two-cell session at the far end of the range (conflict, clamped at the
segment end) satisfies the hypotheses, and the checked model answers -/
example : OpsOk (State.new (-4194304) 4194304)
    [.cost 4194304 4194304, .push 4194304 4194304, .push 4194304 4194304, .place] := by
  decide

example : (runC true (State.new (-4194304) 4194304)
    [.cost 4194304 4194304, .push 4194304 4194304, .push 4194304 4194304, .place]).toOption.map (·.1) =
    some [[17592186044416], [17592186044416], [35184372088832], [-4194304, 0]] := by
  decide


/-! ### termination -/

/-- **Termination** of the row-legalizer loops is by construction: `scanC`, `placeRevC` (and
`subdivLoopC`, `placementsC`) are structural recursions — one recursive call on the tail of the
bound queue per `bounds.pop()`, one per cell, one per loop index — which Lean's termination
checker accepted without fuel.  What can be *stated* is that the loop consumes exactly the popped
prefix of the queue: the bounds still queued and the bounds passed partition the queue, whatever
the inputs. -/
theorem rowleg_terminates (width tgt lim climit : Int) (bs : List Bound) (slope curPos curCost : Int) :
    (scan width tgt lim climit bs slope curPos curCost []).passed ++
      (scan width tgt lim climit bs slope curPos curCost []).rest = bs := by
  have key : ∀ (bs : List Bound) (slope curPos curCost : Int) (passed : List Bound),
      (scan width tgt lim climit bs slope curPos curCost passed).passed ++
        (scan width tgt lim climit bs slope curPos curCost passed).rest = passed.reverse ++ bs := by
    intro bs
    induction bs with
    | nil => intros; simp [scan]
    | cons t rest ih =>
      intro slope curPos curCost passed
      rw [scan]
      split
      · rw [ih]; simp
      · simp
  simpa using key bs slope curPos curCost []

/-! ### computeSubdivisions -/

/-- **computeSubdivisions: no fault** (src/utils/helpers.hpp with
fixes/c07-subdivisions-int-overflow.diff).  For an interval within ±2^22 and any positive bin
count that leaves room for `number + 1` in an `int`, no operation overflows, the division is
never by zero, the five assertions hold, and the result is the unbounded one. -/
theorem subdivisions_no_fault (asr : Bool) (mn mx number : Int) (h1 : -4194304 ≤ mn) (h2 : mx ≤ 4194304)
    (hle : mn ≤ mx) (hn1 : 1 ≤ number) (hn2 : number ≤ 2147483646) :
    subdivisionsC asr mn mx number = .ok (subdivisions mn mx number) :=
  subdivisionsC_ok asr h1 h2 hle hn1 hn2

example : subdivisionsC true (-4194304) 4194304 4 = .ok [-4194304, -2097152, 0, 2097152, 4194304] := by decide

/-- **Witness (pre-fix code).**  With the `int` arithmetic of the unrepaired
`computeSubdivisions`, the in-domain call `computeSubdivisions(-4194304, 4194304, 256)` —
the one `DensityGrid::updateBinsToSize` makes for a 2^23-wide placement area and 2^15-wide bins —
overflows at `i = 256`.  (This is what the harness observes on the unfixed tree.) -/
theorem legacy_subdivisions_overflow :
    Legacy.subdivAtC (-4194304) 4194304 256 256 =
      .error (.intOverflow "computeSubdivisions: i * (max - min)") := by decide

/-! ### Abacus cost arithmetic -/

/-- **Abacus: no fault.**  (src/place_detailed/abacus_legalizer.cpp with
fixes/c11-abacus-cost-narrowing.diff.)  For a row legalizer in the domain, a cell of positive
width and a target within ±2^22: `evaluatePlacement` (remaining-space test, 64-bit cost) never
faults and equals the unbounded model; and the distance `placeCell` derives from it
(`xDist + cellWidth * |row.minY - targetY|`, rows and targets within ±2^22) fits in 64 bits. -/
theorem abacus_no_fault (asr : Bool) (s : State) (w t rowMinY targetY : Int) (hd : Dom s) (hw : 0 < w)
    (hw2 : w ≤ 8388608) (ht1 : -4194304 ≤ t) (ht2 : t ≤ 4194304)
    (hr1 : -4194304 ≤ rowMinY) (hr2 : rowMinY ≤ 4194304) (hy1 : -4194304 ≤ targetY) (hy2 : targetY ≤ 4194304) :
    evalPlacementC asr s w t = .ok (evalPlacement s w t) ∧
    placeCostC w rowMinY targetY (evalPlacement s w t).1.2 =
      .ok (placeCost w rowMinY targetY (evalPlacement s w t).1.2) := by
  refine ⟨evalPlacementC_ok asr hd hw ht1 ht2, ?_⟩
  apply placeCostC_ok (by omega) hw2 hr1 hr2 hy1 hy2
  · unfold evalPlacement
    split
    · simp
    · exact (getCost_bound hd hw (by omega) ht1 ht2).1
  · unfold evalPlacement
    split
    · simp
    · exact (getCost_bound hd hw (by omega) ht1 ht2).2

/-- **Witness (pre-fix code).**  `int dist = getCost(…)`: a 2^21-wide cell whose target lies 2^22
left of an empty row [0, 2^22] costs 2^43, which the unrepaired `evaluatePlacement` narrowed
to `int` (to 0: the row looked free of charge). -/
theorem legacy_abacus_narrowing :
    Legacy.evalPlacementC true (State.new 0 4194304) 2097152 (-4194304) =
      .error (.intOverflow "evaluatePlacement: int dist = getCost()") ∧
    evalPlacementC true (State.new 0 4194304) 2097152 (-4194304) =
      .ok ((true, 8796093022208), State.new 0 4194304) := by decide

/-- **Witness (code before commit 6923697, finding F9).**  `width * abs(finalAbsPos - targetAbsPos)`
as `int * int` overflows for a 2^22-wide cell displaced by 2^22. -/
theorem legacy_rowleg_int_product_overflow :
    Legacy.retC 4194304 0 (-4194304) = .error (.intOverflow "getDisplacement: width * abs (int)") := by decide

/-! ### Row::freespace / Circuit::computeRows -/

/-- **Freespace: no fault.**  The only arithmetic on the way to `Row::freespace` is
`Circuit::placement` (`x + placedWidth`, `y + placedHeight`); for cells within ±2^22 with sizes
in [0, 2^22] it cannot overflow, and the checked `computeRows` equals the model's.  The interval
subtraction itself (boost::polygon in the C++) compares and copies coordinates: every output
coordinate is a row end or an obstacle end (`C15`), so nothing new can overflow there — but boost's
internals are monitored by the sanitizers only. -/
theorem freespace_no_fault (c : Circuit) (h : ∀ cl ∈ c.cells, CellOk cl) :
    computeRowsC c = .ok c.computeRows := computeRowsC_ok c h

example : CellOk ⟨4194304, 512, -4194304, 4194304 - 512, .N, true, true, .ANY⟩ := by
  unfold CellOk; decide

end ColoVerif.C07
