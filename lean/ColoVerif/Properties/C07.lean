import ColoVerif.Proofs.CheckedRowLeg
import ColoVerif.Proofs.CheckedCores
import ColoVerif.Proofs.CheckedTetris
import ColoVerif.Proofs.CheckedIncrNet
import ColoVerif.Proofs.CheckedFlow
import ColoVerif.Proofs.CheckedDetPlaceRun
import ColoVerif.Proofs.Transp1dSorter
import ColoVerif.Proofs.CheckedTranspTree
import ColoVerif.Proofs.CheckedTranspCosts
import ColoVerif.Proofs.CheckedTransp1dScale
import ColoVerif.Model.LegacyChecked
import ColoVerif.Proofs.CheckedGridHier
/-
C07 — placement calls return or throw; never crash or invoke undefined behaviour.

Theorems for the modelled integer cores: on the C07 domain (coordinates within ±2^22 =
±4194304, positive widths, pushes that fit) the *checked* models — which carry the C++ type
of every sub-expression and the source's `assert`s — never return a `Fault` and return exactly
the value of the unbounded models used by the other properties: `checked = .ok unchecked`.

Termination: every checked function is defined by structural recursion (on the bound queue,
on the cell lists, on the loop counter), so the loops they mirror terminate; Lean accepted the
definitions without fuel.

The rest of the library (Eigen, boost::polygon, lemon, iostream, float→int conversions, the
glue between the cores) is NOT covered by these theorems: it is monitored by the sanitized
fault oracle of `harness/h_C07.cpp` only (see `tools/props/C07.py`, PARTIAL).
-/
namespace ColoVerif.C07
open ColoVerif.RowLeg ColoVerif.Checked

/-- A fresh row legalizer over a segment inside ±2^22 is in the domain. -/
theorem rowleg_new_in_domain (b e : Int) (hb : -4194304 ≤ b) (he : e ≤ 4194304) (hbe : b ≤ e) :
    Dom (State.new b e) := dom_new b e hb he hbe

/-- **Row legalizer: no fault.**  In a state of the domain (`Dom`: segment ends within ±2^22,
positive widths that fit, at most 2^15 cells — see `Dom`), a cost query or a push of a cell of
positive width that fits, with a target within ±2^22, and reading the placement back

* never overflows `int`/`long long`, never trips one of the five `assert`s (with assertions
  enabled, `asr = true`, or disabled),
* returns exactly what the unbounded model returns,
* and leaves a state of the domain (for `push`: as long as fewer than 2^15 cells were pushed),

so the statement chains over any sequence of operations starting from `rowleg_new_in_domain`. -/
theorem rowleg_no_fault (asr : Bool) (s : State) (w t : Int) (hd : Dom s) (hw : 0 < w)
    (hfit : w ≤ s.remaining) (ht1 : -4194304 ≤ t) (ht2 : t ≤ 4194304) :
    getCostC asr s w t = .ok (getCost s w t) ∧
    pushC asr s w t = .ok (push s w t) ∧
    placementC asr s = .ok (placement s) ∧
    Dom (getCost s w t).2 ∧
    (s.widthsRev.length < maxCells → Dom (push s w t).2) :=
  ⟨getCostC_eq asr hd hw hfit ht1 ht2, pushC_eq asr hd hw hfit ht1 ht2, placementC_eq asr hd,
   getCost_dom hd hw hfit, fun hn => push_dom hd hw hfit hn⟩

/-- operations of a row-legalizer client -/
inductive Op
  | cost (w t : Int)
  | push (w t : Int)
  | place

/-- run a sequence of operations on the unbounded model: the answers and the final state -/
def run : State → List Op → List (List Int) × State
  | s, [] => ([], s)
  | s, .cost w t :: ops => ([(getCost s w t).1] :: (run (getCost s w t).2 ops).1, (run (getCost s w t).2 ops).2)
  | s, .push w t :: ops =>
    ([(RowLeg.push s w t).1] :: (run (RowLeg.push s w t).2 ops).1, (run (RowLeg.push s w t).2 ops).2)
  | s, .place :: ops => (placement s :: (run s ops).1, (run s ops).2)

/-- run the same sequence on the checked model: the first fault, or the answers and the final state -/
def runC (asr : Bool) : State → List Op → Except Fault (List (List Int) × State)
  | s, [] => .ok ([], s)
  | s, .cost w t :: ops =>
    match getCostC asr s w t with
    | .error f => .error f
    | .ok r =>
      match runC asr r.2 ops with
      | .error f => .error f
      | .ok rs => .ok ([r.1] :: rs.1, rs.2)
  | s, .push w t :: ops =>
    match pushC asr s w t with
    | .error f => .error f
    | .ok r =>
      match runC asr r.2 ops with
      | .error f => .error f
      | .ok rs => .ok ([r.1] :: rs.1, rs.2)
  | s, .place :: ops =>
    match placementC asr s with
    | .error f => .error f
    | .ok p =>
      match runC asr s ops with
      | .error f => .error f
      | .ok rs => .ok (p :: rs.1, rs.2)

/-- the operations a client of the domain issues: positive widths that fit in what remains,
targets within ±2^22, at most 2^15 cells in total -/
def OpsOk : State → List Op → Prop
  | _, [] => True
  | s, .cost w t :: ops =>
    0 < w ∧ w ≤ s.remaining ∧ -4194304 ≤ t ∧ t ≤ 4194304 ∧ OpsOk (getCost s w t).2 ops
  | s, .push w t :: ops =>
    0 < w ∧ w ≤ s.remaining ∧ -4194304 ≤ t ∧ t ≤ 4194304 ∧ s.widthsRev.length < maxCells ∧
      OpsOk (RowLeg.push s w t).2 ops
  | s, .place :: ops => OpsOk s ops

instance decOpsOk : (s : State) → (ops : List Op) → Decidable (OpsOk s ops)
  | _, [] => isTrue trivial
  | s, .cost w t :: ops => by
    unfold OpsOk; have := decOpsOk (getCost s w t).2 ops; exact inferInstance
  | s, .push w t :: ops => by
    unfold OpsOk; have := decOpsOk (RowLeg.push s w t).2 ops; exact inferInstance
  | s, .place :: ops => by
    unfold OpsOk; exact decOpsOk s ops

/-- **Whole sessions.**  From a state of the domain (in particular a fresh legalizer over a
segment within ±2^22), every sequence of in-domain operations runs through the checked model
without a fault and with the unbounded model's answers at every step. -/
theorem rowleg_session_no_fault (asr : Bool) (ops : List Op) :
    ∀ s, Dom s → OpsOk s ops → runC asr s ops = .ok (run s ops) := by
  induction ops with
  | nil => intro s _ _; rfl
  | cons op ops ih =>
    intro s hd hok
    cases op with
    | cost w t =>
      obtain ⟨hw, hfit, ht1, ht2, hrest⟩ := hok
      have h := rowleg_no_fault asr s w t hd hw hfit ht1 ht2
      simp only [runC, run, h.1, ih _ h.2.2.2.1 hrest]
    | push w t =>
      obtain ⟨hw, hfit, ht1, ht2, hn, hrest⟩ := hok
      have h := rowleg_no_fault asr s w t hd hw hfit ht1 ht2
      simp only [runC, run, h.2.1, ih _ (h.2.2.2.2 hn) hrest]
    | place =>
      simp only [runC, run, placementC_eq asr hd, ih s hd hok]

/-- non-vacuity: a two-cell session at the far end of the range (conflict, clamped at the
segment end) satisfies the hypotheses, and the checked model answers -/
example : OpsOk (State.new (-4194304) 4194304)
    [.cost 4194304 4194304, .push 4194304 4194304, .push 4194304 4194304, .place] := by
  decide

example : (runC true (State.new (-4194304) 4194304)
    [.cost 4194304 4194304, .push 4194304 4194304, .push 4194304 4194304, .place]).toOption.map (·.1) =
    some [[17592186044416], [17592186044416], [35184372088832], [-4194304, 0]] := by
  decide


/-! ### termination -/

/-- **Termination** of the row-legalizer loops is by construction: `scanC`, `placeRevC` (and
`subdivLoopC`, `placementsC`) are structural recursions — one recursive call on the tail of the
bound queue per `bounds.pop()`, one per cell, one per loop index — which Lean's termination
checker accepted without fuel.  What can be *stated* is that the loop consumes exactly the popped
prefix of the queue: the bounds still queued and the bounds passed partition the queue, whatever
the inputs. -/
theorem rowleg_terminates (width tgt lim climit : Int) (bs : List Bound) (slope curPos curCost : Int) :
    (scan width tgt lim climit bs slope curPos curCost []).passed ++
      (scan width tgt lim climit bs slope curPos curCost []).rest = bs := by
  have key : ∀ (bs : List Bound) (slope curPos curCost : Int) (passed : List Bound),
      (scan width tgt lim climit bs slope curPos curCost passed).passed ++
        (scan width tgt lim climit bs slope curPos curCost passed).rest = passed.reverse ++ bs := by
    intro bs
    induction bs with
    | nil => intros; simp [scan]
    | cons t rest ih =>
      intro slope curPos curCost passed
      rw [scan]
      split
      · rw [ih]; simp
      · simp
  simpa using key bs slope curPos curCost []

/-! ### computeSubdivisions -/

/-- **computeSubdivisions: no fault** (src/utils/helpers.hpp with
fixes/c07-subdivisions-int-overflow.diff).  For an interval within ±2^22 and any positive bin
count that leaves room for `number + 1` in an `int`, no operation overflows, the division is
never by zero, the five assertions hold, and the result is the unbounded one. -/
theorem subdivisions_no_fault (asr : Bool) (mn mx number : Int) (h1 : -4194304 ≤ mn) (h2 : mx ≤ 4194304)
    (hle : mn ≤ mx) (hn1 : 1 ≤ number) (hn2 : number ≤ 2147483646) :
    subdivisionsC asr mn mx number = .ok (subdivisions mn mx number) :=
  subdivisionsC_ok asr h1 h2 hle hn1 hn2

example : subdivisionsC true (-4194304) 4194304 4 = .ok [-4194304, -2097152, 0, 2097152, 4194304] := by decide

/-- **Witness (pre-fix code).**  With the `int` arithmetic of the unrepaired
`computeSubdivisions`, the in-domain call `computeSubdivisions(-4194304, 4194304, 256)` —
the one `DensityGrid::updateBinsToSize` makes for a 2^23-wide placement area and 2^15-wide bins —
overflows at `i = 256`.  (This is what the harness observes on the unfixed tree.) -/
theorem legacy_subdivisions_overflow :
    Legacy.subdivAtC (-4194304) 4194304 256 256 =
      .error (.intOverflow "computeSubdivisions: i * (max - min)") := by decide

/-! ### Abacus cost arithmetic -/

/-- **Abacus: no fault.**  (src/place_detailed/abacus_legalizer.cpp with
fixes/c11-abacus-cost-narrowing.diff.)  For a row legalizer in the domain, a cell of positive
width and a target within ±2^22: `evaluatePlacement` (remaining-space test, 64-bit cost) never
faults and equals the unbounded model; and the distance `placeCell` derives from it
(`xDist + cellWidth * |row.minY - targetY|`, rows and targets within ±2^22) fits in 64 bits. -/
theorem abacus_no_fault (asr : Bool) (s : State) (w t rowMinY targetY : Int) (hd : Dom s) (hw : 0 < w)
    (hw2 : w ≤ 8388608) (ht1 : -4194304 ≤ t) (ht2 : t ≤ 4194304)
    (hr1 : -4194304 ≤ rowMinY) (hr2 : rowMinY ≤ 4194304) (hy1 : -4194304 ≤ targetY) (hy2 : targetY ≤ 4194304) :
    evalPlacementC asr s w t = .ok (evalPlacement s w t) ∧
    placeCostC w rowMinY targetY (evalPlacement s w t).1.2 =
      .ok (placeCost w rowMinY targetY (evalPlacement s w t).1.2) := by
  refine ⟨evalPlacementC_ok asr hd hw ht1 ht2, ?_⟩
  apply placeCostC_ok (by omega) hw2 hr1 hr2 hy1 hy2
  · unfold evalPlacement
    split
    · simp
    · exact (getCost_bound hd hw (by omega) ht1 ht2).1
  · unfold evalPlacement
    split
    · simp
    · exact (getCost_bound hd hw (by omega) ht1 ht2).2

/-- **Witness (pre-fix code).**  `int dist = getCost(…)`: a 2^21-wide cell whose target lies 2^22
left of an empty row [0, 2^22] costs 2^43, which the unrepaired `evaluatePlacement` narrowed
to `int` (to 0: the row looked free of charge). -/
theorem legacy_abacus_narrowing :
    Legacy.evalPlacementC true (State.new 0 4194304) 2097152 (-4194304) =
      .error (.intOverflow "evaluatePlacement: int dist = getCost()") ∧
    evalPlacementC true (State.new 0 4194304) 2097152 (-4194304) =
      .ok ((true, 8796093022208), State.new 0 4194304) := by decide

/-- **Witness (code before commit 6923697, finding F9).**  `width * abs(finalAbsPos - targetAbsPos)`
as `int * int` overflows for a 2^22-wide cell displaced by 2^22. -/
theorem legacy_rowleg_int_product_overflow :
    Legacy.retC 4194304 0 (-4194304) = .error (.intOverflow "getDisplacement: width * abs (int)") := by decide

/-! ### Row::freespace / Circuit::computeRows -/

/-- **Freespace: no fault.**  The only arithmetic on the way to `Row::freespace` is
`Circuit::placement` (`x + placedWidth`, `y + placedHeight`); for cells within ±2^22 with sizes
in [0, 2^22] it cannot overflow, and the checked `computeRows` equals the model's.  The interval
subtraction itself (boost::polygon in the C++) compares and copies coordinates: every output
coordinate is a row end or an obstacle end (`C15`), so nothing new can overflow there — but boost's
internals are monitored by the sanitizers only. -/
theorem freespace_no_fault (c : Circuit) (h : ∀ cl ∈ c.cells, CellOk cl) :
    computeRowsC c = .ok c.computeRows := computeRowsC_ok c h

example : CellOk ⟨4194304, 512, -4194304, 4194304 - 512, .N, true, true, .ANY⟩ := by
  unfold CellOk; decide

/-! ### TetrisLegalizer (and LegalizerBase::closestRow) -/

open ColoVerif.Legalize in
/-- **Tetris: no fault, one cell.**  (src/place_detailed/tetris_legalizer.cpp, `closestRow` of
legalizer.cpp.)  In a legalizer state of the domain (`TDom`: at least one row, row coordinates and
free positions within ±2^22, row height in [1, 2^23]) placing a cell of the domain (`CellOkT`:
placed width in [0, 2^22], height ≤ 2^22, target within ±2^29 — what `placeGlobal` can hand over)
evaluates every `int` expression of `placeCell`, `attemptPlacement`, `getPossibleIntervals`,
`instanciateCell` and `closestRow` (`targetY - y`, `std::abs(…) + std::abs(…)`, `e + width`,
`rows_[r].maxX - w`, `y + rowHeight()`, `x + w`, …) without overflow and without an out-of-range
row access, returns exactly the unbounded model's result, and leaves a state of the domain. -/
theorem tetris_place_no_fault (t : Tetris) (c : LCell) (hd : TDom t) (hc : CellOkT c) :
    tetrisPlaceC t c = .ok (tetrisPlace t c) ∧ TDom (tetrisPlace t c).1 :=
  tetrisPlaceC_ok hd hc

open ColoVerif.Legalize in
/-- **Tetris: no fault, whole run.**  Constructor (`rowHeight()` = `maxY - minY`) and
`TetrisLegalizer::run` over any list of cells of the domain, for any non-empty set of rows with
all four coordinates within ±2^22 and positive height.  Termination: `tetrisRunC` and every
function below it is a structural recursion (over the cells, the rows, the intervals, or the same
fuel `h + 1` as the unbounded model, which suffices because `rowHeight() ≥ 1`). -/
theorem tetris_no_fault (rows : List Row) (cells : List LCell) (hne : rows ≠ [])
    (hr : ∀ r ∈ rows, RowOkFull r) (hc : ∀ c ∈ cells, CellOkT c) :
    andThen (Tetris.initC rows) (fun t => tetrisRunC t cells) = .ok (tetrisRun (Tetris.init rows) cells) := by
  have h1 := initC_ok hne hr
  rw [h1.1]
  exact tetrisRunC_ok cells _ h1.2 hc

open ColoVerif.Legalize in
/-- non-vacuity: two stacked rows at the corner of the range, a two-row cell targeted at the
opposite corner of the target range and a one-row cell -/
example :
    andThen (Tetris.initC [⟨⟨4194204, 4194304, 4194284, 4194294⟩, .N⟩, ⟨⟨4194204, 4194304, 4194294, 4194304⟩, .FS⟩])
      (fun t => tetrisRunC t [⟨30, 20, .ANY, -536870912, -536870912, .N⟩, ⟨50, 10, .SAME, 4194304, 4194304, .N⟩]) =
    .ok [⟨4194204, 4194284, .N, true⟩, ⟨4194254, 4194294, .FS, true⟩] := by decide

open ColoVerif.Legalize in
/-- **Witness (beyond the domain).**  A target at `INT_MIN` — what the unrepaired `placeGlobal`
exported for a NaN position (fixed by ff24028) — makes `std::abs(targetX - x)` overflow in
`TetrisLegalizer::placeCell`: the checked model reports the fault UBSan reported. -/
theorem tetris_overflow_beyond_domain :
    andThen (Tetris.initC [⟨⟨0, 10, 0, 1⟩, .N⟩]) (fun t => tetrisRunC t [⟨1, 1, .ANY, -2147483648, 0, .N⟩]) =
      .error (.intOverflow "placeCell: std::abs(targetX - x)") := by decide

/-! ### IncrNetModel (wirelength bookkeeping of the detailed placer) -/

/-- **Pin offsets: no fault.**  `Circuit::pinXOffset/pinYOffset` (`placedWidth - offs` for flipped
orientations) on a cell and a pin of the domain; the results lie within ±2^23. -/
theorem pin_offset_no_fault (cl : Cell) (p : Pin) (hc : CellOk cl) (hp : PinOk p) :
    pinXOffsetC cl p = .ok (Circuit.pinXOffset cl p) ∧ pinYOffsetC cl p = .ok (Circuit.pinYOffset cl p) ∧
    -8388608 ≤ Circuit.pinXOffset cl p ∧ Circuit.pinXOffset cl p ≤ 8388608 ∧
    -8388608 ≤ Circuit.pinYOffset cl p ∧ Circuit.pinYOffset cl p ≤ 8388608 :=
  ⟨(pinXOffsetC_ok hc hp).1, (pinYOffsetC_ok hc hp).1, (pinXOffsetC_ok hc hp).2.1, (pinXOffsetC_ok hc hp).2.2,
   (pinYOffsetC_ok hc hp).2.1, (pinYOffsetC_ok hc hp).2.2⟩

open ColoVerif.IncrNet in
/-- **IncrNetModel: no fault, one update.**  (src/place_detailed/incr_net_model.cpp.)  In a model
of the domain (`DomC`: positions within ±2^23, offsets within ±2^24, no empty net, fewer than 2^31
nets, stored net bounds ordered and within ±2^25, `value_` consistent) `updateCellPos(cell, pos)`
with `|pos| ≤ 2^23` evaluates `cellPos_[c] + netPinOffset` (int), the three `int` differences of
`recomputeNet` and the `long long` accumulation without overflow, equals the unbounded model and
stays in the domain. -/
theorem incrnet_update_no_fault (m : Model) (cell : Nat) (pos : Int) (hd : m.DomC)
    (hp : -8388608 ≤ pos ∧ pos ≤ 8388608) (hnets : ∀ n ∈ m.cellNetList cell, n < m.nbNets) :
    m.updateCellPosC cell pos = .ok (m.updateCellPos cell pos) ∧ (m.updateCellPos cell pos).DomC :=
  updateCellPosC_ok m cell pos hd hp hnets

open ColoVerif.IncrNet in
/-- **IncrNetModel: no fault on circuits of the domain.**  For a circuit whose cells lie within
±2^22 with sizes in [0, 2^22] and whose pin offsets are within ±2^22, building the x and y
topologies for any subset of cells (`int pos = circuit.x(cell) + offset` for the other cells,
`computeNetMinMaxPos`, `computeValue`: `second - first` in `int`, sum in `long long`) and then any
sequence of `updateCellPos` calls with positions within ±2^23 never faults; the values are the
unbounded model's (which `C09` proves to be the HPWL). -/
theorem incrnet_no_fault (c : Circuit) (cells : List Nat) (ops : List (Nat × Int)) (hc : CircuitOk c)
    (hops : ∀ o ∈ ops, -8388608 ≤ o.2 ∧ o.2 ≤ 8388608) :
    xTopologyC c cells = .ok (xTopology c cells) ∧ yTopologyC c cells = .ok (yTopology c cells) ∧
    IncrNet.runC ops (xTopology c cells) = .ok (IncrNet.run (xTopology c cells) ops) ∧
    IncrNet.runC ops (yTopology c cells) = .ok (IncrNet.run (yTopology c cells) ops) := by
  have hx : ∀ cl ∈ c.cells, -4194304 ≤ cl.x ∧ cl.x ≤ 4194304 := fun cl h => by
    have := hc.cells cl h; unfold CellOk at this; omega
  have hy : ∀ cl ∈ c.cells, -4194304 ≤ cl.y ∧ cl.y ≤ 4194304 := fun cl h => by
    have := hc.cells cl h; unfold CellOk at this; omega
  have hox : ∀ n ∈ c.nets, ∀ p ∈ n.pins, -8388608 ≤ Circuit.pinXOffset (c.cell p.cell) p ∧
      Circuit.pinXOffset (c.cell p.cell) p ≤ 8388608 :=
    fun n hn p hp => (pinXOffsetC_ok (hc.cell p.cell) (hc.pins n hn p hp)).2
  have hoy : ∀ n ∈ c.nets, ∀ p ∈ n.pins, -8388608 ≤ Circuit.pinYOffset (c.cell p.cell) p ∧
      Circuit.pinYOffset (c.cell p.cell) p ≤ 8388608 :=
    fun n hn p hp => (pinYOffsetC_ok (hc.cell p.cell) (hc.pins n hn p hp)).2
  have hpx : ∀ i, -4194304 ≤ (c.cell i).x ∧ (c.cell i).x ≤ 4194304 := fun i => by
    have := hc.cell i; unfold CellOk at this; omega
  have hpy : ∀ i, -4194304 ≤ (c.cell i).y ∧ (c.cell i).y ≤ 4194304 := fun i => by
    have := hc.cell i; unfold CellOk at this; omega
  exact ⟨(xTopologyC_ok c cells hx hox hc.nets).1, (yTopologyC_ok c cells hy hoy hc.nets).1,
    (topology_runC_ok Circuit.pinXOffset (·.x) c cells hpx hox hc.nets ops hops).1,
    (topology_runC_ok Circuit.pinYOffset (·.y) c cells hpy hoy hc.nets ops hops).1⟩

open ColoVerif.IncrNet in
/-- **Witnesses (beyond the domain).**  A pin at `INT_MAX + 1` overflows `cellPos_[c] +
netPinOffset`; a net without pins (which `IncrNetModelBuilder::addNet` never creates) would make
`computeValue` evaluate `INT_MIN - INT_MAX`. -/
theorem incrnet_overflow_beyond_domain :
    overflowWitness.computeNetMinMaxPosC 0 =
      .error (.intOverflow "computeNetMinMaxPos: cellPos_[c] + netPinOffset") ∧
    (Builder.mk 1 [0, 0] [] []).buildC [0] =
      .error (.intOverflow "computeValue: minMaxPos.second - minMaxPos.first") := by
  constructor <;> decide

/-! ### DetailedPlacement (the data structure every detailed-placement move goes through) -/

open ColoVerif.DetPlace ColoVerif.DetPlace.State in
/-- **DetailedPlacement: no fault, one query or move.**  (src/place_detailed/detailed_placement.cpp.)
In a state of the domain (`DomC`: optimised cells and row ends within ±2^22, widths ≥ 0, links that
are −1 or an optimised cell) the feasibility tests (`siteEnd - siteBegin`, `e2 - b2`, `x + width`),
the midpoint computations (`(boundaryBefore + boundaryAfter - width) / 2`,
`(siteEnd - width + siteBegin) / 2`: three `int` operations each) and the moves `insert` / `swap`
(with their `assert(isPlaced(c))`, assertions enabled or not, and every vector index) evaluate
without fault, return what the unbounded model returns (a C++ `std::runtime_error` is a value, not
a fault), and an accepted move leaves a state of the domain. -/
theorem detplace_no_fault {s : DetPlace.State} (h : s.DomC) (asr : Bool) {c1 c2 r p : Int} (h1 : s.LiveC c1)
    (h2 : s.LiveC c2) (vr : s.validRow r) (hp : s.LinkC p) :
    s.canInsertC c1 r p = .ok (s.canInsert c1 r p) ∧
    s.positionOnInsertC c1 r p = .ok (s.positionOnInsert c1 r p) ∧
    s.insertC c1 r p = .ok (s.insert c1 r p) ∧
    s.canSwapC asr c1 c2 = .ok (s.canSwap c1 c2) ∧
    s.swapC asr c1 c2 = .ok (s.swap c1 c2) ∧
    (s.row c1 ≠ -1 → s.row c2 ≠ -1 → s.positionsOnSwapC asr c1 c2 = .ok (s.positionsOnSwap c1 c2)) ∧
    (∀ t, s.insert c1 r p = .ok t → t.DomC) ∧ (∀ t, s.swap c1 c2 = .ok t → t.DomC) :=
  ⟨canInsertC_ok h h1 vr hp, positionOnInsertC_ok h h1 vr hp, insertC_ok h h1 vr hp, canSwapC_ok h asr h1 h2,
   swapC_ok h asr h1 h2, fun r1 r2 => positionsOnSwapC_ok h asr h1 h2 r1 r2,
   fun _ e => insert_DomC h h1 vr hp e, fun _ e => swap_DomC h h1 h2 e⟩

open ColoVerif.DetPlace ColoVerif.DetPlace.State in
/-- **DetailedPlacement: no fault along any history.**  From a state satisfying the structural
invariant of `C02` with rows within ±2^22 and every optimised cell placed — in particular the state
`fromIspdCircuit` builds for a legal circuit of the domain (`fromIspdCircuit_DomC`) — after *any*
sequence of accepted swaps, inserts, shifts and reorderings (`State.run`), the queries and moves
above still evaluate without fault.  (The arithmetic of the callers in place_detailed.cpp — shift
and reordering searches — is outside the modelled core.) -/
theorem detplace_history_no_fault {s t : DetPlace.State} (h : Inv s) (hr : RowsC s) (hap : Lg.AllPlaced s)
    {ops : List DetPlace.Op} (e : s.run ops = .ok t) (asr : Bool) {c1 c2 r p : Int} (h1 : t.LiveC c1) (h2 : t.LiveC c2)
    (vr : t.validRow r) (hp : t.LinkC p) :
    t.canInsertC c1 r p = .ok (t.canInsert c1 r p) ∧
    t.positionOnInsertC c1 r p = .ok (t.positionOnInsert c1 r p) ∧
    t.insertC c1 r p = .ok (t.insert c1 r p) ∧
    t.canSwapC asr c1 c2 = .ok (t.canSwap c1 c2) ∧
    t.swapC asr c1 c2 = .ok (t.swap c1 c2) ∧
    (t.row c1 ≠ -1 → t.row c2 ≠ -1 → t.positionsOnSwapC asr c1 c2 = .ok (t.positionsOnSwap c1 c2)) :=
  run_no_fault h hr hap e asr h1 h2 vr hp

open ColoVerif.DetPlace ColoVerif.DetPlace.State in
/-- **Witnesses (beyond the domain).**  A predecessor at `x = INT_MAX` overflows
`cellX(pred) + cellWidth(pred)`; rows `[-2·10^9, 2·10^9]` overflow `siteEnd - siteBegin`. -/
theorem detplace_overflow_beyond_domain :
    farState.siteBeginC 0 0 = .error (.intOverflow "siteBegin: cellX(pred) + cellWidth(pred)") ∧
    wideState.canInsertC 0 1 (-1) =
      .error (.intOverflow "canInsert: siteEnd(row, pred) - siteBegin(row, pred)") :=
  ⟨siteBeginC_far, canInsertC_wide⟩

/-! ### Transportation1d (the default rough-legalization transport) -/

open ColoVerif.Transp1d in
/-- **1-D transportation: no out-of-range access, termination.**  (src/place_global/transportation_1d.cpp,
as called by `DensityLegalizer::improveXTransport/improveYTransport` after `balanceDemand`.)  The
model of `Transportation1d::assign` returns `Err.indexOutOfRange` wherever the C++ would index a
vector out of range (in particular `D[currentSink + 1]` in the rounding walk of
`computeAssignment`, the loop a supply-1 source flush against the end of a full line of bins would
overrun if the midpoint were rounded up) and `Err.outOfFuel` if the `while` loop of `push` did not
terminate.  For every instance with as many supplies as sources, as many demands as sinks,
non-negative supplies and demands and total supply ≤ total demand — zero and unit supplies
included — neither happens, and there is one sink per source.  (Proved for `C14`; restated here
because out-of-bounds accesses and non-termination are C07 events.  Signed overflow of the
`long long` position / slope arithmetic is `transp1d_arith_no_fault` below.) -/
theorem transp1d_no_fault (pb : Problem) (h1 : pb.s.length = pb.u.length) (h2 : pb.d.length = pb.v.length)
    (h3 : ∀ x ∈ pb.s, 0 ≤ x) (h4 : ∀ x ∈ pb.d, 0 ≤ x) (h5 : pb.s.sum ≤ pb.d.sum) :
    ∃ a, assign pb = .ok a ∧ a.length = pb.u.length := by
  obtain ⟨a, e, hl, _⟩ := assign_total pb ((checkOk_iff pb).mpr ⟨h1, h2, h3, h4, h5⟩)
  exact ⟨a, e, hl⟩

open ColoVerif.Transp1d in
/-- non-vacuity: two unit cells, the second one flush against the end of a full line of two bins -/
example : assign ⟨[0, 10], [0, 10], [1, 1], [1, 1]⟩ = .ok [0, 1] := by decide

open ColoVerif.Transp1d in
/-- **1-D transportation: no signed `long long` overflow.**  (src/place_global/transportation_1d.{hpp,cpp}:
`Transportation1d pb(u, v, s, d); pb.balanceDemand(); pb.assign();`, the sequence of
`DensityLegalizer::improveXTransport / improveYTransport`.)  The checked twin `balanceThenAssignC`
(Model/Transp1dChecked.lean) types every `long long` operation of the sequence — `totalSupply` /
`totalDemand` accumulations, `missing / nbSinks()`, `added * nbSinks()`, the prefix sums `D`, `S`,
`cost = std::abs(u[i] - v[j])`, the four-term `delta`, `slope += events.top().second`,
`getSlope() + cost(i, j)`, every `D[..] - S[..]`, `p[i] + S[i] + s[i] / 2`, `totalDemand() - S[p.size()]`.
On the decidable domain `T1dDom` (one supply per source, one demand per sink, at least one sink, fewer than
`2^31 − 1` of each, positions of magnitude at most `2^60 − 1`, non-negative supplies and demands with
totals at most `2^61 − 1`) it never faults and returns what the unbounded model (C14) returns, which is
an assignment with one sink per source.  The slope accumulations do not depend on the number of
sources: `Σ |slope of the queued events|` is bounded by `6·max|position|` (sink events telescope over the
sorted sinks, source events over the sorted sources; merging never increases the sum). -/
theorem transp1d_arith_no_fault (pb : Problem) (h : T1dDom pb) :
    balanceThenAssignC pb = .ok (balanceThenAssign pb) ∧
      ∃ a, balanceThenAssign pb = .ok a ∧ a.length = pb.u.length := by
  obtain ⟨a, _, e2, hl⟩ := assignC_total pb h
  exact ⟨Transp1d.assignC_eq pb h, a, e2, hl⟩

open ColoVerif.Transp1d in
/-- non-vacuity: width-1 scale (positions ~2^55), unsorted sources, a zero supply, demand to balance -/
example : T1dDom ⟨[36028797018963968, -36028797018963968, 7, 100], [0, 10, 20], [2, 1, 0, 3], [1, 1, 1]⟩ ∧
    balanceThenAssignC ⟨[36028797018963968, -36028797018963968, 7, 100], [0, 10, 20], [2, 1, 0, 3], [1, 1, 1]⟩
      = .ok (.ok [2, 0, 0, 1]) := by decide

open ColoVerif.Transp1d in
/-- **Witness beyond the domain**: with positions ±1.5·2^62 the first `+` of `delta`
(transportation_1d.hpp:233) overflows; UBSan stops the real code at the same line. -/
theorem transp1d_overflow_beyond_domain :
    balanceThenAssignC ⟨[0, 1], [-6917529027641081856, 6917529027641081856], [2, 2], [1, 3]⟩
      = .error (.intOverflow "delta: cost(i,j+1) + cost(i+1,j)") := by decide

open ColoVerif.Transp1d in
/-- **The instances `improveXTransport / improveYTransport` build are in the domain.**  With the scaling of
density_legalizer.cpp modelled over exact rationals (`Model/Transp1dScale.lean`:
`float factor = 1.0e8 / width`, `u = std::round(factor * target)`, `v = std::round(factor * binCentre)`),
a placement area of width at least 1, `float` targets and bin centres of magnitude at most `2^29`
(`GlobalPlacer::checkFinitePlacement` rejects `|x| > 2^28`, the targets are blends with weights in
`[-0.1, 0.9]` of such a position and one inside the area), `int` cell demands and `long long` capacities
that are non-negative with totals at most `2^61 − 1`: `|u|, |v| ≤ 2^56`, and the checked run never faults. -/
theorem transp1d_scaled_no_fault (width : Int) (hw : 1 ≤ width) (targets centres : List Rat)
    (demands caps : List Int)
    (ht : ∀ x ∈ targets, -536870912 ≤ x ∧ x ≤ 536870912)
    (hc : ∀ x ∈ centres, -536870912 ≤ x ∧ x ≤ 536870912)
    (hl1 : demands.length = targets.length) (hl2 : caps.length = centres.length)
    (hm : 0 < centres.length) (hn1 : targets.length < 2147483647) (hn2 : centres.length < 2147483647)
    (hs : ∀ x ∈ demands, 0 ≤ x) (hd : ∀ x ∈ caps, 0 ≤ x)
    (hss : demands.sum ≤ 2305843009213693951) (hds : caps.sum ≤ 2305843009213693951) :
    balanceThenAssignC (scaledProblem width targets centres demands caps)
      = .ok (balanceThenAssign (scaledProblem width targets centres demands caps)) :=
  scaled_assignC_eq width hw targets centres demands caps ht hc hl1 hl2 hm hn1 hn2 hs hd hss hds

/-! ### fixed-point costs of the general transportation solver -/

/-- the label sums of `updateTree` / `bestSink` at a state characterised by C13's invariants -/
def TreeSumsFit : Prop :=
  ∀ (p : Transp.Problem) (alloc : Transp.Mat) (qs : Transp.Queues) (rem : List Int) (d : Nat → Int) (C : Int),
    Transp.Mid p alloc qs rem → Transp.Pot p alloc rem d → (∀ i, i < p.nbSinks → d i ≤ Transp.intMax) →
    (∀ i j, i < p.nbSinks → j < p.nbSources → 0 ≤ p.cost i j ∧ p.cost i j ≤ C) → 0 ≤ C → 2 * C ≤ Transp.intMax →
    (∀ i, i < p.nbSinks → 0 < p.capacity i) →
    (∃ t, Transp.updateTreeC p qs rem = .ok t ∧ Transp.updateTree p qs rem = .ok t ∧
      ((∃ f, f < p.nbSinks ∧ rem.getD f 0 > 0) → ∀ src, src < p.nbSources →
        Transp.bestSinkC p t.sendCost src = .ok (Transp.bestSink p t.sendCost src)))

open ColoVerif.Transp in
/-- **Transportation fixed-point costs: the path sums fit at every state of the run.**
(src/place_global/transportation.cpp; `CostType = int`.)  At every state at which the solver calls
`updateTree` — characterised by the invariants `Mid` / `Pot` of the C13 termination proof — with stored
costs in `[0, C]` and `2·C ≤ INT_MAX`: every `movingCost(i, bestVisit) + sendingCost_[bestVisit]` of the
label-correcting search is a representable `int` although the labels start at `INT_MAX` (the selected
label is always within `[0, C]`: `pickVisit` takes a minimum and a sink with free capacity has label 0),
the checked `updateTree` returns the unbounded model's tree, and — while some sink has capacity left —
every `sendingCost_[i] + cost(i, src)` of `bestSink` fits as well.  (The lemma the whole-run theorem
`transp_costs_fit` below uses at each augmentation.) -/
theorem transp_tree_sums_fit : TreeSumsFit := by
  intro p alloc qs rem d C hm hp hdle hC hC0 h2C hcap
  obtain ⟨t, h1, h2, spec⟩ := updateTreeC_at_mid p alloc qs rem d hm hp hdle C hC h2C hC0 hcap
  refine ⟨t, h1, h2, ?_⟩
  intro hfree src hs
  exact bestSinkC_ok p rem (wOf qs) d C C t spec hp.nn hC0 hfree src (fun i hi => hC i src hi hs)
    (by have im : intMax = 2147483647 := rfl; omega)

open ColoVerif.Transp in
/-- **The whole successive-shortest-path run: no fault, checked = unbounded.**
(`solver.increaseCapacity(); solver.solve(); solver.toAssignment()` of `DensityLegalizer::reoptimize`;
checked twin `assignC`, Model/TranspRunChecked.lean: `int` cost differences and label sums with the
`INT_MAX` sentinel, `long long` demands / capacities / allocations, every partial sum of the
`std::accumulate`s, `missing / nbSinks()`, the `assert`s.)  On the decidable domain `assignDomOk` —
`check()` passes, there is a sink, no stored cost is negative, C13's `costBoundOk` (`3·cost < INT_MAX`),
total demand and total capacity at most `2^61` — with assertions enabled or not, the checked sequence
returns exactly the assignment of the unbounded model, and the problem handed to `solve()` satisfies
the precondition `WellFormed` of C13's `ssp_terminates` / `ssp_optimal` (so the plan behind the
assignment is feasible and of minimum cost). -/
theorem transp_run_no_fault (asr : Bool) (p : Problem) (h : assignDomOk p = true) :
    C13.WellFormed p.increaseCapacity ∧
    ∃ a, Transp.assign p = .ok a ∧ Transp.assignC asr p = .ok a := by
  have hd := assignDom_of_ok p h
  exact ⟨wellFormed_increaseCapacity p hd, Transp.assignC_eq asr p hd⟩

open ColoVerif.Transp in
/-- non-vacuity of `transp_run_no_fault`: two bins, three cells, demand above capacity -/
example : assignDomOk (Problem.make [2, 1] [2, 1, 2] [[0, 536870912, 7], [536870912, 0, 9]]) = true := by decide

open ColoVerif.Transp in
/-- **`transp_costs_fit` (full): the transportation that `DensityLegalizer::reoptimize` builds never faults.**
For the `float` cost matrix `fc` of `reoptimize` (`reoptCostsC`: `distance(bx − cx, by − cy)` with any of the
six cost models and a penalty factor `≥ 0`, every `float` operation rounded as IEEE-754 binary32 — finite on
the C07 domain by `transp_float_costs_finite`), at least one and at most `2^31` bins, and `long long` capacities /
`int` demands whose totals are at most `2^61`:

* `costsFromIntegers` is defined: every `std::round(cost * conversionFactor_)` (binary64 arithmetic) is
  an integer in `[0, 2^29]`, so its conversion to `int` is not undefined;
* then either `check()` throws `std::runtime_error` (a cell without area) — an allowed outcome — or
* the problem is in the domain of `transp_run_no_fault` (in particular C13's `costBoundOk` holds and
  `solve()` runs on a `WellFormed` problem: the loop with `ssp_optimal` is closed), and the checked
  `increaseCapacity(); solve(); toAssignment()` returns the unbounded model's assignment without a fault,
  with assertions enabled or disabled. -/
theorem transp_costs_fit (asr : Bool) (m : CostModel) (qf : Rat) (bins cells : List (Rat × Rat))
    (caps dems : List Int) (fc : List (List Rat))
    (hq : 0 ≤ qf) (hfc : reoptCostsC m qf bins cells = .ok fc)
    (hb1 : 1 ≤ bins.length) (hb : bins.length ≤ 2147483648)
    (hcapQ : caps.sum ≤ 2305843009213693952) (hdemQ : dems.sum ≤ 2305843009213693952) :
    ∃ costs, costsFromIntegersC fc = .ok costs ∧
      (((Problem.make caps dems costs).check = false ∧
          reoptTransportC asr caps dems fc = .ok .throwRuntimeError) ∨
       ((Problem.make caps dems costs).check = true ∧ assignDomOk (Problem.make caps dems costs) = true ∧
         C13.WellFormed (Problem.make caps dems costs).increaseCapacity ∧
         ∃ a, Transp.assign (Problem.make caps dems costs) = .ok a ∧
           reoptTransportC asr caps dems fc = .ok (.assignment a))) := by
  obtain ⟨hlen, hrange⟩ := reoptCostsC_range m qf bins cells fc hq hfc
  obtain ⟨costs, h1, h2⟩ := reoptTransportC_no_fault asr caps dems fc (by omega) (by omega) hrange hcapQ hdemQ
  refine ⟨costs, h1, ?_⟩
  rcases h2 with h | ⟨hc, hd, a, ha, hr⟩
  · exact Or.inl h
  · exact Or.inr ⟨hc, assignDomOk_of _ hd, wellFormed_increaseCapacity _ hd, a, ha, hr⟩

open ColoVerif.Transp in
/-- non-vacuity of `transp_costs_fit`: L1 costs of two bins at (1/2, 1/2), (21/2, 1/2) and two cells are
finite, and their fixed-point image is `[[26843546, 241591910], [268435456, 53687091]]` -/
example : reoptCostsC .L1 0 [(1/2, 1/2), (21/2, 1/2)] [(1, 0), (9, 1)] = .ok [[1, 9], [10, 2]] ∧
    costsFromIntegersC [[1, 9], [10, 2]] = .ok [[26843546, 241591910], [268435456, 53687091]] := by
  decide +kernel

open ColoVerif.Transp in
/-- **No `float` of `reoptimize`'s cost evaluation overflows to infinity on the C07 domain** (all six cost
models): bin centres and cell targets of magnitude at most `2^30` (the placement area lies within `2^22`;
`GlobalPlacer::checkFinitePlacement` keeps the targets below `2^29`), penalty factor in `[0, 1]` for L1 / L2 /
LInf and `0` for the squared models, as `GlobalPlacer::GlobalPlacer` sets it (`quadraticPenalty / (width +
height)`, `quadraticPenalty ≤ 1`).  Hence the hypothesis `reoptCostsC … = .ok fc` of `transp_costs_fit` holds.
(For L2 the bound uses `f32sqrt q ≤ 8·B` for `q ≤ B²`, proved for the rational `sqrtf` of `Model/F64.lean`;
that this `sqrtf` is *correctly rounded* is validated by execution only — it does not matter for the bound.) -/
theorem transp_float_costs_finite (m : CostModel) (qf : Rat)
    (bins cells : List (Rat × Rat)) (hq0 : 0 ≤ qf) (hq1 : qf ≤ 1) (hq : m.linear = false → qf = 0)
    (hb : ∀ b, b ∈ bins → rabs b.1 ≤ 1073741824 ∧ rabs b.2 ≤ 1073741824)
    (hc : ∀ c, c ∈ cells → rabs c.1 ≤ 1073741824 ∧ rabs c.2 ≤ 1073741824) :
    ∃ fc, reoptCostsC m qf bins cells = .ok fc :=
  reoptCostsC_finite m qf bins cells hq0 hq1 hq hb hc

open ColoVerif.Transp in
/-- **Witness (why the labels matter).**  `sendingCost_` is initialised to `INT_MAX`: adding a cost
to such a label — which `bestSink` would do for an unreached sink, e.g. if it were called with no
capacity left anywhere — overflows. -/
theorem transp_sentinel_overflow :
    bestSinkC ⟨[1], [1], [[1]], [[0]]⟩ [2147483647] 0 =
      .error (.intOverflow "bestSink: sendingCost_[i] + pb_.cost(i, src)") := by decide

open ColoVerif.Transp in
/-- **Witness (why the costs must be non-negative).**  C13's `costBoundOk` (`3·|cost| < INT_MAX`) admits
signed costs; with them a label and an edge of `updateTree` can both reach `2·|cost|`, and
`movingCost(i, bestVisit) + sendingCost_[bestVisit]` overflows `int` for `|cost| > INT_MAX/4` although the
unbounded model (and C13's optimality theorem) is unaffected.  The state below — sink 1 full with label
`1431655764`, the queue of sink 2 towards sink 1 topped by a cost of `1431655764` — is the one the
`int`-cost constructor reaches on capacities `[1,1,1]`, demands `[1,1]`, costs `[[-c,-c],[-c,c],[c,c]]`,
`c = 715827882` (stream H of the harness; UBSan stops the real code at transportation.cpp:502).
`costsFromIntegers` never produces such costs (`transp_costs_fit`). -/
theorem transp_signed_costs_overflow :
    (match relaxC #[#[], #[], #[#[], #[⟨1431655764, 0⟩], #[]]] [1, 0, 0] 1 1 2
        ⟨[0, 1431655764, 2147483647], [none, some 0, none], [false, true, false]⟩ with
      | .error f => decide (f = .intOverflow "updateTree: movingCost(i, bestVisit) + sendingCost_[bestVisit]")
      | .ok _ => false) = true := by decide

/-! ### DensityGrid / HierarchicalDensityPlacement: the integer bookkeeping of the density grid -/

open ColoVerif.Grid in
/-- **DensityGrid constructor: no fault.**  (src/place_global/density_grid.cpp, `DensityGrid(binSize, regions)`;
checked twin `DGrid.ofRegionsC`, Model/GridChecked.lean.)  For at most 2^16 regions, each a well-formed
rectangle with coordinates within ±2^22 (`RectOk`), and a bin size of at least 1: the `int` extents
`placementArea_.width() / maxSize`, both `computeSubdivisions` calls, the `int` sums `binLimit_[i] +
binLimit_[i + 1]` of `updateBinCenters`, the `int` differences and 64-bit products of `updateBinCapacity()`,
every `Rectangle::intersection(…).area()` (two `int` subtractions, one 64-bit product) and every
`binCapacity_[i][j] +=` of `updateBinCapacity(regions)`, the `assert`s of `binLimitX/Y`, `updateBinCapacity`
and `check()` and every vector index evaluate without fault, assertions enabled or not, and the grid is the
one of the unbounded model (whose capacities C16 proves to be the region areas).  The capacity table has the
grid's shape.  (The `float` halves of `updateBinCenters` and of `fromIspdCircuit` are not modelled.) -/
theorem grid_capacity_no_fault (asr : Bool) (binSize : Int) (regions : List Rect) (hb : 1 ≤ binSize)
    (hr : ∀ r ∈ regions, RectOk r) (hn : regions.length ≤ 65536) :
    DGrid.ofRegionsC asr binSize regions = .ok (DGrid.ofRegions binSize regions) ∧
    CapShape (DGrid.ofRegions binSize regions) :=
  ⟨ofRegionsC_ok asr binSize regions hb hr hn, capacities_shape _ _ regions⟩

open ColoVerif.Grid in
/-- non-vacuity: two half-planes of the whole ±2^22 square, 2^21-wide bins (a 4 × 4 grid of 2^42-area bins) -/
example : (∀ r ∈ [(⟨-4194304, 4194304, -4194304, 0⟩ : Rect), ⟨-4194304, 4194304, 0, 4194304⟩], RectOk r) ∧
    (DGrid.ofRegionsC true 2097152 [⟨-4194304, 4194304, -4194304, 0⟩, ⟨-4194304, 4194304, 0, 4194304⟩]).toOption.map
      (fun g => (g.limX, g.binCapacity 3 3)) = some ([-4194304, -2097152, 0, 2097152, 4194304], 4398046511104) := by
  decide +kernel

open ColoVerif.Grid in
/-- **totalCapacity(): no fault.**  On any grid whose capacity table has the grid's shape, with non-negative
capacities and a total that fits a `long long` (on the grid `grid_capacity_no_fault` builds the total is the
total region area — C16 `grid_tiles_and_conserves` — hence at most 2^16 · 2^46), `totalCapacity()` indexes
in range and none of its partial sums overflows. -/
theorem grid_total_capacity_no_fault (g : DGrid) (hs : CapShape g)
    (hnn : ∀ i j, i < g.nbX → j < g.nbY → 0 ≤ g.binCapacity i j) (ht : g.totalCapacity ≤ 9223372036854775807) :
    g.totalCapacityC = .ok g.totalCapacity := totalCapacityC_ok g hs hnn ht

open ColoVerif.Grid in
example : (DGrid.mk [0, 5, 10] [0, 4] [[16], [14]]).totalCapacityC = .ok 30 := by decide

open ColoVerif.Grid in
/-- **Demands and usage: no fault.**  `HierarchicalDensityPlacement::fromIspdCircuit` narrows the `long long`
area of every movable cell to the `int` element type of `cellDemand_`: no value is lost when the areas fit an
`int` (`CellAreaOk`, the C07 domain: cell areas below 2^31).  With at most 2^20 cells and demands in
`[0, 2^31)` (`DemandOk`), `totalDemand()` never overflows; and `binUsage(x, y)` on a bin of the table whose
cells are cell indices (at most 2^20 of them — under C16's `AllocInv` a bin holds each cell at most once)
passes `cellDemand`'s assertion, indexes in range and never overflows.  All equal the unbounded model. -/
theorem grid_usage_no_fault (asr : Bool) (c : Circuit) (s : HState) (x y : Nat)
    (hc : ∀ cl ∈ c.cells, CellAreaOk cl) (hd : DemandOk s.demand)
    (hx : x < s.bins.length) (hy : y < (s.bins.getD x []).length)
    (hcells : ∀ k ∈ s.cells x y, k < s.nbCells) (hlen : (s.cells x y).length ≤ 1048576) :
    circuitDemandsC c = .ok (circuitDemands c) ∧
    s.totalDemandC = .ok s.demand.sum ∧
    s.binUsageC asr x y = .ok (s.binUsage x y) :=
  ⟨circuitDemandsC_ok c hc, totalDemandC_ok s hd, binUsageC_ok asr s x y hx hy hcells hlen hd⟩

open ColoVerif.Grid in
/-- non-vacuity: a single-bin placement over three cells of area 2^31 − 1, 0 and 12 -/
example : DemandOk [2147483647, 0, 12] ∧
    (HState.init ⟨[0, 5, 10], [0, 4], [[16], [14]]⟩ [2147483647, 0, 12]).binUsageC true 0 0 = .ok 2147483659 ∧
    (HState.init ⟨[0, 5, 10], [0, 4], [[16], [14]]⟩ [2147483647, 0, 12]).totalDemandC = .ok 2147483659 := by
  decide

open ColoVerif.Grid in
/-- **Witness (beyond the domain).**  A movable cell of 2^16 × 2^15 has area 2^31: the narrowing to `int` in
`fromIspdCircuit` loses the value (the C++ stores `INT_MIN`). -/
theorem grid_demand_narrowing_beyond_domain :
    cellDemandOfC ⟨65536, 32768, 0, 0, .N, false, false, .ANY⟩ =
      .error (.intOverflow "fromIspdCircuit: demands.push_back(circuit.area(i)) (long long -> int)") := by decide

open ColoVerif.Grid in
/-- **refine / coarsen: no fault.**  In every state satisfying C16's invariant `Grid.Inv` (the allocation
invariant and well-formed hierarchies over `nX × nY` fine bins — what `alloc_inv` proves for every state
reachable from the constructor), with `int`-sized level counts: `refineX/refineY` at a level ≥ 1 and
`coarsenX/coarsenY` below the top level pass their assertion, compute `levelX_ ± 1` without overflow, index
`xLimits_[lvl]`, `parentX_[lvl][i]`, `binCells_[p][j]`, `newCells[p][j]` and, in `updateCellToBin()`,
`cellBinX_[c]` in range, and return the unbounded model's state (which satisfies `Grid.Inv` again). -/
theorem grid_refine_no_fault (asr : Bool) (s : HState) (nX nY : Nat) (h : Inv nX nY s)
    (hnx : s.hx.nbLevels ≤ 2147483647) (hny : s.hy.nbLevels ≤ 2147483647) :
    (1 ≤ s.levelX → s.refineXC asr = .ok s.refineX) ∧
    (1 ≤ s.levelY → s.refineYC asr = .ok s.refineY) ∧
    (s.levelX + 1 < s.hx.nbLevels → s.coarsenXC asr = .ok s.coarsenX) ∧
    (s.levelY + 1 < s.hy.nbLevels → s.coarsenYC asr = .ok s.coarsenY) :=
  ⟨fun hl => refineXC_ok asr s nX nY h hl hnx, fun hl => refineYC_ok asr s nX nY h hl hny,
   fun hl => coarsenXC_ok asr s nX nY h hl hnx, fun hl => coarsenYC_ok asr s nX nY h hl hny⟩

open ColoVerif.Grid in
/-- non-vacuity: the state the constructor builds over a 2 × 1 grid satisfies the invariant, is at level 1 in
x, and the checked `refineX` answers -/
example : Inv 2 1 (HState.init ⟨[0, 5, 10], [0, 4], [[16], [14]]⟩ [3, 0, 12]) ∧
    1 ≤ (HState.init ⟨[0, 5, 10], [0, 4], [[16], [14]]⟩ [3, 0, 12]).levelX ∧
    ((HState.init ⟨[0, 5, 10], [0, 4], [[16], [14]]⟩ [3, 0, 12]).refineXC true).toOption.map (·.bins) =
      some [[[0, 2]], [[]]] :=
  ⟨inv_init ⟨[0, 5, 10], [0, 4], [[16], [14]]⟩ [3, 0, 12] (by decide) (by decide), by decide, by decide⟩

open ColoVerif.Grid in
/-- **Witnesses (beyond the domain / outside the contract).**  A placement area wider than `INT_MAX` overflows
`Rectangle::width()`; an area `[2^30, 2^31 − 1]` overflows the `int` sum of `updateBinCenters`; three regions of
`(2^31 − 1)²` overflow the 64-bit accumulation of `updateBinCapacity(regions)`; `refineX()` at level 0 trips its
assertion and, without assertions, indexes `xLimits_[-1]`. -/
theorem grid_overflow_beyond_domain :
    DGrid.ofRegionsC true 1000 [⟨-1073741824, 1073741824, 0, 10⟩] =
      .error (.intOverflow "Rectangle::width: max - min") ∧
    DGrid.ofRegionsC true 1073741824 [⟨1073741824, 2147483647, 0, 10⟩] =
      .error (.intOverflow "updateBinCenters: binLimit_[i] + binLimit_[i + 1]") ∧
    DGrid.ofRegionsC true 2147483647 [⟨-1073741824, 1073741823, -1073741824, 1073741823⟩,
        ⟨-1073741824, 1073741823, -1073741824, 1073741823⟩, ⟨-1073741824, 1073741823, -1073741824, 1073741823⟩] =
      .error (.intOverflow "updateBinCapacity: binCapacity_[i][j] += intersection.area()") ∧
    (HState.init ⟨[0, 10], [0, 4], [[40]]⟩ [3]).refineXC true = .error (.assertFailed "refineX: levelX_ >= 1") ∧
    (HState.init ⟨[0, 10], [0, 4], [[40]]⟩ [3]).refineXC false =
      .error (.indexOutOfRange "refineX: xLimits_[levelX_]") := by
  decide +kernel

open ColoVerif.Grid in
/-- **binCapacity(BinGroup): no fault.**  (`DensityGrid::binCapacity(BinGroup)`, what
`HierarchicalDensityPlacement::binCapacity(x, y)` evaluates through `getGroup`.)  On a grid of consistent shape
with non-negative capacities whose total fits a `long long`, every group of bins inside the grid is summed with
all indices in range and without overflow (a group holds at most the total: `groupCapacity_le_total`). -/
theorem grid_group_capacity_no_fault (g : DGrid) (hs : CapShape g)
    (hnn : ∀ i j, i < g.nbX → j < g.nbY → 0 ≤ g.binCapacity i j) (ht : g.totalCapacity ≤ 9223372036854775807)
    (x0 x1 y0 y1 : Nat) (hx : x0 ≤ x1) (hx1 : x1 ≤ g.nbX) (hy : y0 ≤ y1) (hy1 : y1 ≤ g.nbY) :
    g.groupCapacityC x0 x1 y0 y1 = .ok (g.groupCapacity x0 x1 y0 y1) :=
  groupCapacityC_ok g hs hnn ht x0 x1 y0 y1 hx hx1 hy hy1

open ColoVerif.Grid in
example : (DGrid.mk [0, 5, 10] [0, 4] [[16], [14]]).groupCapacityC 1 2 0 1 = .ok 14 := by decide

open ColoVerif.Grid in
/-- **The constructed grid satisfies the hypotheses of the capacity theorems.**  On the domain of
`grid_capacity_no_fault` the grid `DensityGrid(binSize, regions)` builds has non-negative capacities and a total
of at most `2^16 · 2^46 = 2^62` (the total is the sum of the region areas, C16), so `totalCapacity()` - and by
`grid_group_capacity_no_fault` every `binCapacity(BinGroup)` - evaluates on it without fault, with no further
hypothesis. -/
theorem grid_total_capacity_of_constructed_grid (binSize : Int) (regions : List Rect) (hb : 1 ≤ binSize)
    (hr : ∀ r ∈ regions, RectOk r) (hn : regions.length ≤ 65536) :
    (DGrid.ofRegions binSize regions).totalCapacityC = .ok (DGrid.ofRegions binSize regions).totalCapacity ∧
    CapShape (DGrid.ofRegions binSize regions) ∧
    (∀ i j, i < (DGrid.ofRegions binSize regions).nbX → j < (DGrid.ofRegions binSize regions).nbY →
      0 ≤ (DGrid.ofRegions binSize regions).binCapacity i j) ∧
    0 ≤ (DGrid.ofRegions binSize regions).totalCapacity ∧
    (DGrid.ofRegions binSize regions).totalCapacity ≤ 4611686018427387904 :=
  ⟨ofRegions_totalCapacityC binSize regions hb hr hn, capacities_shape _ _ regions,
   (ofRegions_capacity_bounds binSize regions hb hr hn).1, (ofRegions_capacity_bounds binSize regions hb hr hn).2.1,
   (ofRegions_capacity_bounds binSize regions hb hr hn).2.2⟩

open ColoVerif.Grid in
/-- **check()'s usage accumulation: no fault, and the assertion holds.**  In every state satisfying C16's
invariant `Grid.Inv`, with demands of the domain (`DemandOk`: at most 2^20 cells, demands in `[0, 2^31)`):
every `binUsage(i, j)` of the view (that a bin holds at most 2^20 cells is derived from `AllocInv`: no cell
twice, every cell an index), the 64-bit accumulation `usage += binUsage(i, j)` and `totalDemand()` evaluate
without fault, `assert(usage == totalDemand())` holds, and the value is the sum of the demands. -/
theorem grid_usage_sum_no_fault (asr : Bool) (s : HState) (nX nY : Nat) (h : Inv nX nY s) (hd : DemandOk s.demand) :
    s.usageSumC asr = .ok s.demand.sum := usageSumC_ok asr s nX nY h hd

open ColoVerif.Grid in
example : DemandOk [2147483647, 0, 12] ∧
    (HState.init ⟨[0, 5, 10], [0, 4], [[16], [14]]⟩ [2147483647, 0, 12]).refineX.usageSumC true = .ok 2147483659 := by
  decide

/-- one operation of a hierarchical-placement session through the checked twins; the redistribution
skeletons (`rebisect`, `reoptimize`, transports, `setBinCells`) only move cell lists (C16) -/
def gridApplyC (asr : Bool) (s : Grid.HState) : Grid.Op → Except Fault Grid.HState
  | .refineX => s.refineXC asr
  | .refineY => s.refineYC asr
  | .coarsenX => s.coarsenXC asr
  | .coarsenY => s.coarsenYC asr
  | op => .ok (s.apply op)

/-- a whole session through the checked twins: the first fault, or the final state -/
def gridRunC (asr : Bool) : Grid.HState → List Grid.Op → Except Fault Grid.HState
  | s, [] => .ok s
  | s, op :: ops =>
    match gridApplyC asr s op with
    | .error f => .error f
    | .ok t => gridRunC asr t ops

/-- the contract of one call: refine above level 0, coarsen below the top level, `int`-sized level counts -/
def GridStepOk (s : Grid.HState) : Grid.Op → Prop
  | .refineX => 1 ≤ s.levelX ∧ s.hx.nbLevels ≤ 2147483647
  | .refineY => 1 ≤ s.levelY ∧ s.hy.nbLevels ≤ 2147483647
  | .coarsenX => s.levelX + 1 < s.hx.nbLevels ∧ s.hx.nbLevels ≤ 2147483647
  | .coarsenY => s.levelY + 1 < s.hy.nbLevels ∧ s.hy.nbLevels ≤ 2147483647
  | _ => True

/-- every call of the session is made within its contract -/
def GridOpsOk : Grid.HState → List Grid.Op → Prop
  | _, [] => True
  | s, op :: ops => GridStepOk s op ∧ GridOpsOk (s.apply op) ops

open ColoVerif.Grid in
/-- **Whole sessions.**  From any state satisfying C16's invariant (in particular the constructor's state,
`inv_init`), every sequence of refine / coarsen calls made within their contracts, interleaved with arbitrary
redistribution steps, runs through the checked twins without a fault and ends in the unbounded model's state
(`HState.run`, the object of C16's `alloc_inv`). -/
theorem grid_session_no_fault (asr : Bool) (nX nY : Nat) (ops : List Grid.Op) :
    ∀ s : HState, Inv nX nY s → GridOpsOk s ops → gridRunC asr s ops = .ok (s.run ops) := by
  induction ops with
  | nil => intro s _ _; rfl
  | cons op ops ih =>
    intro s h hok
    obtain ⟨hstep, hrest⟩ := hok
    have hnext := ih (s.apply op) (inv_apply s h op) hrest
    have hstepC : gridApplyC asr s op = .ok (s.apply op) := by
      cases op with
      | refineX => exact refineXC_ok asr s nX nY h hstep.1 hstep.2
      | refineY => exact refineYC_ok asr s nX nY h hstep.1 hstep.2
      | coarsenX => exact coarsenXC_ok asr s nX nY h hstep.1 hstep.2
      | coarsenY => exact coarsenYC_ok asr s nX nY h hstep.1 hstep.2
      | _ => rfl
    simp only [gridRunC, hstepC, hnext, HState.run, List.foldl_cons]

open ColoVerif.Grid in
/-- non-vacuity: refine then coarsen again on the constructor's state of a 2 × 1 grid -/
example : GridOpsOk (HState.init ⟨[0, 5, 10], [0, 4], [[16], [14]]⟩ [3, 0, 12]) [.refineX, .coarsenX] ∧
    (gridRunC true (HState.init ⟨[0, 5, 10], [0, 4], [[16], [14]]⟩ [3, 0, 12]) [.refineX, .coarsenX]).toOption.map (·.bins) =
      some [[[0, 2]]] := by
  refine ⟨⟨⟨?_, ?_⟩, ⟨?_, ?_⟩, trivial⟩, ?_⟩ <;> decide

end ColoVerif.C07
