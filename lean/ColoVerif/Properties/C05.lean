import ColoVerif.Proofs.DetOpt
/-!
# C05 — detailed placement never worsens wirelength

Model: the acceptance rules of `DetailedPlacer` (Model/DetOpt.lean) over the `DetPlace` moves, for
any objective that depends on the cell positions only (`Value`; this is what `IncrNetModel`
computes, its pin offsets being frozen when it is built).

The property itself is **false on the tree** (known finding KF-C05-1): `Circuit::hpwl()` uses the
current orientation of every cell, `IncrNetModel` the one at construction; `hpwl_can_increase`
exhibits it.  What is proved is monotonicity of the optimiser's own value along accepted moves.
-/
namespace ColoVerif.C05
open ColoVerif ColoVerif.DetPlace ColoVerif.DetPlace.State

/-- the state after a swap is exactly the one `valueOnSwap` evaluated (x from `positionsOnSwap`,
y of the other cell), on an invariant state -/
theorem swap_value_eq (V : Value) {s t : State} (h : Inv s) {c1 c2 : Int}
    (hc1 : s.validCell c1) (hc2 : s.validCell c2) (e : s.swap c1 c2 = .ok t) :
    s.valueOnSwap V c1 c2 = some (t.value V) := by
  have hpos := swap_positions e
  -- swap succeeded, so canSwap said true and both cells are placed
  have hcan : s.canSwap c1 c2 = .ok true := by
    unfold State.swap at e
    split at e
    · cases e
    · cases e
    · assumption
  have hpl : s.row c1 ≠ -1 ∧ s.row c2 ≠ -1 ∧ c1 ≠ c2 := by
    unfold canSwap at hcan
    by_cases h1 : s.isPlaced c1 = true
    · by_cases h2 : s.isPlaced c2 = true
      · by_cases h3 : c1 = c2
        · simp [h1, h2, h3] at hcan
        · exact ⟨(isPlaced_iff s c1).1 h1, (isPlaced_iff s c2).1 h2, h3⟩
      · simp [h1, h2] at hcan
    · simp [h1] at hcan
  have y1 : s.y c1 = s.rowY (s.row c1) := by
    have := h.cell hc1; unfold CellOk at this; exact (this.2 hpl.1).2.2.2
  have y2 : s.y c2 = s.rowY (s.row c2) := by
    have := h.cell hc2; unfold CellOk at this; exact (this.2 hpl.2.1).2.2.2
  have ex : t.x = upd (upd s.x c1 (s.positionsOnSwap c1 c2).1.1) c2 (s.positionsOnSwap c1 c2).2.1 := by
    funext d
    rw [(hpos d).1]
    by_cases hd2 : d = c2
    · subst hd2; simp [upd, Ne.symm hpl.2.2]
    · by_cases hd1 : d = c1
      · subst hd1; simp [upd, hd2]
      · simp [upd, hd1, hd2]
  have py : (s.positionsOnSwap c1 c2).1.2 = s.y c2 ∧ (s.positionsOnSwap c1 c2).2.2 = s.y c1 := by
    unfold positionsOnSwap; split
    · exact ⟨rfl, rfl⟩
    · split <;> exact ⟨rfl, rfl⟩
  have ey : t.y = upd (upd s.y c1 (s.positionsOnSwap c1 c2).1.2) c2 (s.positionsOnSwap c1 c2).2.2 := by
    funext d
    rw [(hpos d).2, py.1, py.2, y1, y2]
    by_cases hd2 : d = c2
    · subst hd2; simp [upd, Ne.symm hpl.2.2]
    · by_cases hd1 : d = c1
      · subst hd1; simp [upd, hd2]
      · simp [upd, hd1, hd2]
  unfold valueOnSwap State.value
  rw [hcan, ex, ey]

/-- the state after an insert is exactly the one `valueOnInsert` evaluated -/
theorem insert_value_eq (V : Value) {s t : State} {c r p : Int} (e : s.insert c r p = .ok t) :
    s.valueOnInsert V c r p = some (t.value V) := by
  have hpos := insert_positions e
  have hcan : s.canInsert c r p = .ok true := by
    unfold State.insert at e
    split at e
    · cases e
    · cases e
    · assumption
  have ex : t.x = upd s.x c (s.positionOnInsert c r p).1 := by
    funext d; rw [(hpos d).1]; simp [upd]
  have ey : t.y = upd s.y c (s.positionOnInsert c r p).2 := by
    funext d; rw [(hpos d).2]; simp [upd]
  unfold valueOnInsert State.value
  rw [hcan, ex, ey]

/-- a swap performed by `bestSwap` / `bestSwapUpdate` strictly decreases the optimiser's value -/
theorem accepted_move_decreases (V : Value) {s t : State} (h : Inv s) {c b : Int} {cands : List Int}
    (hc : s.validCell c) (hb : s.validCell b)
    (hch : s.bestSwapChoice V c cands = some b) (e : s.swap c b = .ok t) :
    t.value V < s.value V := by
  obtain ⟨v, hv, hlt⟩ := scan_some (best := none) (by intro c hc; cases hc) hch b rfl
  rw [swap_value_eq V h hc hb e] at hv
  injection hv with hv
  omega

/-- the same for `bestInsert` -/
theorem accepted_insert_decreases (V : Value) {s t : State} {c r b : Int} {cands : List Int}
    (hch : s.bestInsertChoice V c r cands = some b) (e : s.insert c r b = .ok t) :
    t.value V < s.value V := by
  obtain ⟨v, hv, hlt⟩ := scan_some (best := none) (by intro c hc; cases hc) hch b rfl
  rw [insert_value_eq V e] at hv
  injection hv with hv
  omega

/-- `RowReordering`: either nothing is written (the state is returned as it is — state equality, not
only value), or the written leaf was evaluated strictly below the value before the pass -/
theorem reorder_not_worse (V : Value) (s : State) (cells : List Int) (leaves : List Leaf) :
    (s.reorderDecision V cells leaves = .ok s) ∨
    ∃ leaf, leaf ∈ leaves ∧ leaf.value < s.value V ∧
      s.reorderDecision V cells leaves = s.reorderWriteback cells leaf.regions := by
  unfold reorderDecision
  have spec := keepBest_spec (s.value V) leaves none (s.value V) (Int.le_refl _) (by intro l hl; cases hl)
  have mem : ∀ (ls : List Leaf) (b : Int) (l0 : Option Leaf), (∀ l, l0 = some l → l ∈ leaves) → (∀ l ∈ ls, l ∈ leaves) →
      ∀ l, (keepBest b ls l0).2 = some l → l ∈ leaves := by
    intro ls
    induction ls with
    | nil => intro b l0 h0 _ l hl; exact h0 l hl
    | cons x xs ih =>
      intro b l0 h0 hs l hl
      unfold keepBest at hl
      split at hl
      · exact ih _ _ (by intro l' hl'; injection hl' with hl'; exact hl' ▸ hs x (List.mem_cons_self ..))
          (fun l' hl' => hs l' (List.mem_cons_of_mem _ hl')) l hl
      · exact ih _ _ h0 (fun l' hl' => hs l' (List.mem_cons_of_mem _ hl')) l hl
  cases hk : (keepBest (s.value V) leaves none).2 with
  | none => exact Or.inl rfl
  | some leaf =>
    refine Or.inr ⟨leaf, mem leaves _ none (by intro l hl; cases hl) (fun l hl => hl) leaf hk, (spec.2 leaf hk).2, rfl⟩

/-- a history of moves each of which does not increase the value -/
inductive Monotone (V : Value) : State → State → Prop
  | refl (s) : Monotone V s s
  | step {s t u} : Monotone V s t → u.value V ≤ t.value V → Monotone V s u

/-- Honest partial statement of C05: along any history whose moves are accepted swaps / inserts
(`accepted_move_decreases`), reordering write-backs of a strictly better leaf whose evaluation is
faithful, or shifts that do not increase the value (NetworkSimplex optimality — assumed), the
optimiser's value never increases.  Not covered: that this value equals `Circuit::hpwl()` — true
only while no cell's orientation differs from the one the incremental model was built with
(KF-C05-1). -/
theorem hpwl_monotone_partial (V : Value) {s t : State} (m : Monotone V s t) : t.value V ≤ s.value V := by
  induction m with
  | refl => exact Int.le_refl _
  | step _ hle ih => exact Int.le_trans hle ih

/-- full strength (false on the tree, see `hpwl_can_increase`): the HPWL of the exported circuit
never increases along any history the optimiser performs -/
def hpwl_monotone_full_statement : Prop :=
  ∀ (c : Circuit) (s t : State) (ops : List Op), fromIspdCircuit c = .ok s → s.run ops = .ok t →
    (exportPlacement t c).hpwl ≤ (exportPlacement s c).hpwl

/-- the circuit with the positions of `a` and the orientations of `b`: what the incremental net
model "sees" when its offsets were frozen at `b` -/
def withOrientOf (a b : Circuit) : Circuit :=
  { a with cells := List.zipWith (fun ca cb => { ca with orient := cb.orient }) a.cells b.cells }

/-- KF-C05-1 witness: rows N / FS; cell 0 (SAME polarity) sits on the FS row with a pin at the
bottom (two nets to a fixed pin below the rows) and a pin at the top (one net to a fixed pin above).
Inserting it into the N row at the same x shortens the two lower nets by 2 each and, *with the pin
offsets frozen*, lengthens the upper one by 2: the optimiser's value drops from 10 to 8 and the move
is accepted.  But the cell is re-oriented FS → N, both pins flip vertically, and the real HPWL goes
from 10 to 14. -/
def kfBefore : Circuit :=
  { cells := [⟨2, 2, 4, 2, .FS, false, false, .SAME⟩, ⟨1, 1, 4, -3, .N, true, false, .ANY⟩,
              ⟨1, 1, 4, 4, .N, true, false, .ANY⟩],
    nets := [⟨1, 0, [⟨0, 0, 2⟩, ⟨1, 0, 0⟩]⟩, ⟨1, 0, [⟨0, 0, 2⟩, ⟨1, 0, 0⟩]⟩, ⟨1, 0, [⟨0, 0, 0⟩, ⟨2, 0, 0⟩]⟩],
    rows := [⟨⟨0, 10, 0, 2⟩, .N⟩, ⟨⟨0, 10, 2, 4⟩, .FS⟩] }

theorem hpwl_can_increase :
    (match fromIspdCircuit kfBefore with
     | .ok s => match s.step (.insert 0 0 (-1)) with
       | .ok t =>
         -- value with frozen offsets: 10 → 8 (accepted); real HPWL: 10 → 14
         decide ((exportPlacement s kfBefore).hpwl = 10 ∧
                 (withOrientOf (exportPlacement t kfBefore) (exportPlacement s kfBefore)).hpwl = 8 ∧
                 (exportPlacement t kfBefore).hpwl = 14)
       | .error _ => false
     | .error _ => false) = true := by decide

/-! non-vacuity of `accepted_move_decreases`: on a two-cell row, with V = distance of cell 0 to
abscissa 9, the scan accepts swapping 0 and 1 -/
example :
    let c : Circuit := { cells := [⟨2, 2, 0, 0, .N, false, false, .ANY⟩, ⟨3, 2, 4, 0, .N, false, false, .ANY⟩],
                         nets := [], rows := [⟨⟨0, 10, 0, 2⟩, .N⟩] }
    let V : Value := fun x _ => (9 - x 0).natAbs
    (match fromIspdCircuit c with
     | .ok s => decide (Inv s) && (s.bestSwapChoice V 0 [0, 1] == some 1) &&
                (match s.swap 0 1 with | .ok t => decide (t.value V < s.value V) | .error _ => false)
     | .error _ => false) = true := by decide

end ColoVerif.C05
