import ColoVerif.Proofs.DetOpt
import ColoVerif.Proofs.DetOptHpwlDirty
import ColoVerif.Proofs.DetAccepted
import ColoVerif.Proofs.DetReorderPassHist
import ColoVerif.Proofs.DetReorderTotal
import ColoVerif.Proofs.DetSearchTotal
/-!
# C05 — detailed placement never worsens wirelength

Model: the acceptance rules of `DetailedPlacer` (Model/DetOpt.lean) over the `DetPlace` moves, and
the whole object `DetailedPlacer = (placement_, xtopo_, ytopo_)` (Model/DetIncr.lean): the two
`IncrNetModel`s of C09 built from the circuit at construction and told about every move through
`updateCellPos` exactly as `doSwap / doInsert / runShiftsOnCells / RowReordering::writeback` do.

* the first block is about *any* objective that depends on the cell positions only (`Value`);
* the `RowReordering` block is about the modelled enumeration itself (Model/DetReorder.lean: `addCells`,
  `runRegionChoice`, `runOrdering` with `std::next_permutation`, keep-best, `writeback`): every evaluated leaf is
  the objective of its own write-back, the pass never worsens the objective, on the coordinate vectors and on the
  two incremental net models alike (`reorder_leaf_faithful`, `reorder_not_worse`, `reorder_preserves_inv`,
  `reorder_window_on_object`, `reorder_window_registered`, `reorder_pass_accepted`);
* the search block is about the modelled candidate enumeration (Model/DetSearch.lean, RowNbh.lean): every move
  `runSwaps` / `runInserts` issue was chosen by the scan inside the `canSwap` / `canInsert` contract and the pass
  is an accepted history (`scan_calls_within_contract`, `search_pass_accepted`, `history_value_monotone`,
  `passes_never_fail`);
* the second block instantiates it with the real one: `value_eq_hpwl_if_orient_kept` (the maintained
  `value()` is `Circuit::hpwl()` of the exported circuit while the export has the orientations the
  models were built with), `optimiser_evaluates_circuit_value`, `hpwl_monotone_orient_kept`.

The property itself is **false on the tree** (known finding KF-C05-1): `Circuit::hpwl()` uses the
current orientation of every cell, `IncrNetModel` the one at construction; `hpwl_can_increase`
exhibits it, `hpwl_monotone_full_statement` stays a statement.
-/
namespace ColoVerif.C05
open ColoVerif ColoVerif.DetPlace ColoVerif.DetPlace.State

/-- the state after a swap is exactly the one `valueOnSwap` evaluated (x from `positionsOnSwap`,
y of the other cell), on an invariant state -/
theorem swap_value_eq (V : Value) {s t : State} (h : Inv s) {c1 c2 : Int}
    (hc1 : s.validCell c1) (hc2 : s.validCell c2) (e : s.swap c1 c2 = .ok t) :
    s.valueOnSwap V c1 c2 = some (t.value V) := by
  have hpos := swap_positions e
  -- swap succeeded, so canSwap said true and both cells are placed
  have hcan : s.canSwap c1 c2 = .ok true := by
    unfold State.swap at e
    split at e
    · cases e
    · cases e
    · assumption
  have hpl : s.row c1 ≠ -1 ∧ s.row c2 ≠ -1 ∧ c1 ≠ c2 := by
    unfold canSwap at hcan
    by_cases h1 : s.isPlaced c1 = true
    · by_cases h2 : s.isPlaced c2 = true
      · by_cases h3 : c1 = c2
        · simp [h1, h2, h3] at hcan
        · exact ⟨(isPlaced_iff s c1).1 h1, (isPlaced_iff s c2).1 h2, h3⟩
      · simp [h1, h2] at hcan
    · simp [h1] at hcan
  have y1 : s.y c1 = s.rowY (s.row c1) := by
    have := h.cell hc1; unfold CellOk at this; exact (this.2 hpl.1).2.2.2
  have y2 : s.y c2 = s.rowY (s.row c2) := by
    have := h.cell hc2; unfold CellOk at this; exact (this.2 hpl.2.1).2.2.2
  have ex : t.x = upd (upd s.x c1 (s.positionsOnSwap c1 c2).1.1) c2 (s.positionsOnSwap c1 c2).2.1 := by
    funext d
    rw [(hpos d).1]
    by_cases hd2 : d = c2
    · subst hd2; simp [upd, Ne.symm hpl.2.2]
    · by_cases hd1 : d = c1
      · subst hd1; simp [upd, hd2]
      · simp [upd, hd1, hd2]
  have py : (s.positionsOnSwap c1 c2).1.2 = s.y c2 ∧ (s.positionsOnSwap c1 c2).2.2 = s.y c1 := by
    unfold positionsOnSwap; split
    · exact ⟨rfl, rfl⟩
    · split <;> exact ⟨rfl, rfl⟩
  have ey : t.y = upd (upd s.y c1 (s.positionsOnSwap c1 c2).1.2) c2 (s.positionsOnSwap c1 c2).2.2 := by
    funext d
    rw [(hpos d).2, py.1, py.2, y1, y2]
    by_cases hd2 : d = c2
    · subst hd2; simp [upd, Ne.symm hpl.2.2]
    · by_cases hd1 : d = c1
      · subst hd1; simp [upd, hd2]
      · simp [upd, hd1, hd2]
  unfold valueOnSwap State.value
  rw [hcan, ex, ey]

/-- the state after an insert is exactly the one `valueOnInsert` evaluated -/
theorem insert_value_eq (V : Value) {s t : State} {c r p : Int} (e : s.insert c r p = .ok t) :
    s.valueOnInsert V c r p = some (t.value V) := by
  have hpos := insert_positions e
  have hcan : s.canInsert c r p = .ok true := by
    unfold State.insert at e
    split at e
    · cases e
    · cases e
    · assumption
  have ex : t.x = upd s.x c (s.positionOnInsert c r p).1 := by
    funext d; rw [(hpos d).1]; simp [upd]
  have ey : t.y = upd s.y c (s.positionOnInsert c r p).2 := by
    funext d; rw [(hpos d).2]; simp [upd]
  unfold valueOnInsert State.value
  rw [hcan, ex, ey]

/-- a swap performed by `bestSwap` / `bestSwapUpdate` strictly decreases the optimiser's value -/
theorem accepted_move_decreases (V : Value) {s t : State} (h : Inv s) {c b : Int} {cands : List Int}
    (hc : s.validCell c) (hb : s.validCell b)
    (hch : s.bestSwapChoice V c cands = some b) (e : s.swap c b = .ok t) :
    t.value V < s.value V := by
  obtain ⟨v, hv, hlt⟩ := scan_some (best := none) (by intro c hc; cases hc) hch b rfl
  rw [swap_value_eq V h hc hb e] at hv
  injection hv with hv
  omega

/-- the same for `bestInsert` -/
theorem accepted_insert_decreases (V : Value) {s t : State} {c r b : Int} {cands : List Int}
    (hch : s.bestInsertChoice V c r cands = some b) (e : s.insert c r b = .ok t) :
    t.value V < s.value V := by
  obtain ⟨v, hv, hlt⟩ := scan_some (best := none) (by intro c hc; cases hc) hch b rfl
  rw [insert_value_eq V e] at hv
  injection hv with hv
  omega

/-- the keep-best rule of `RowReordering` on a *given* list of evaluated leaves: either nothing is written
(the state is returned as it is — state equality, not only value), or the written leaf was evaluated
strictly below the value before the pass.  (`reorder_not_worse` below is about the leaves the modelled
enumeration really evaluates.) -/
theorem reorder_decision_not_worse (V : Value) (s : State) (cells : List Int) (leaves : List Leaf) :
    (s.reorderDecision V cells leaves = .ok s) ∨
    ∃ leaf, leaf ∈ leaves ∧ leaf.value < s.value V ∧
      s.reorderDecision V cells leaves = s.reorderWriteback cells leaf.regions := by
  unfold reorderDecision
  have spec := keepBest_spec (s.value V) leaves none (s.value V) (Int.le_refl _) (by intro l hl; cases hl)
  have mem : ∀ (ls : List Leaf) (b : Int) (l0 : Option Leaf), (∀ l, l0 = some l → l ∈ leaves) → (∀ l ∈ ls, l ∈ leaves) →
      ∀ l, (keepBest b ls l0).2 = some l → l ∈ leaves := by
    intro ls
    induction ls with
    | nil => intro b l0 h0 _ l hl; exact h0 l hl
    | cons x xs ih =>
      intro b l0 h0 hs l hl
      unfold keepBest at hl
      split at hl
      · exact ih _ _ (by intro l' hl'; injection hl' with hl'; exact hl' ▸ hs x (List.mem_cons_self ..))
          (fun l' hl' => hs l' (List.mem_cons_of_mem _ hl')) l hl
      · exact ih _ _ h0 (fun l' hl' => hs l' (List.mem_cons_of_mem _ hl')) l hl
  cases hk : (keepBest (s.value V) leaves none).2 with
  | none => exact Or.inl rfl
  | some leaf =>
    refine Or.inr ⟨leaf, mem leaves _ none (by intro l hl; cases hl) (fun l hl => hl) leaf hk, (spec.2 leaf hk).2, rfl⟩

/-- a history of moves each of which does not increase the value -/
inductive Monotone (V : Value) : State → State → Prop
  | refl (s) : Monotone V s s
  | step {s t u} : Monotone V s t → u.value V ≤ t.value V → Monotone V s u

/-- Value level, for any position-only objective: along any history of moves none of which increases
the value, the optimiser's value never increases.  The connection with `Circuit::hpwl()` is
`hpwl_monotone_orient_kept` (= `hpwl_monotone_partial`) below. -/
theorem value_monotone (V : Value) {s t : State} (m : Monotone V s t) : t.value V ≤ s.value V := by
  induction m with
  | refl => exact Int.le_refl _
  | step _ hle ih => exact Int.le_trans hle ih

/-- full strength (false on the tree, see `hpwl_can_increase`): the HPWL of the exported circuit
never increases along any history the optimiser performs -/
def hpwl_monotone_full_statement : Prop :=
  ∀ (c : Circuit) (s t : State) (ops : List Op), fromIspdCircuit c = .ok s → s.run ops = .ok t →
    (exportPlacement t c).hpwl ≤ (exportPlacement s c).hpwl

/-- the circuit with the positions of `a` and the orientations of `b`: what the incremental net
model "sees" when its offsets were frozen at `b` -/
def withOrientOf (a b : Circuit) : Circuit :=
  { a with cells := List.zipWith (fun ca cb => { ca with orient := cb.orient }) a.cells b.cells }

/-- KF-C05-1 witness: rows N / FS; cell 0 (SAME polarity) sits on the FS row with a pin at the
bottom (two nets to a fixed pin below the rows) and a pin at the top (one net to a fixed pin above).
Inserting it into the N row at the same x shortens the two lower nets by 2 each and, *with the pin
offsets frozen*, lengthens the upper one by 2: the optimiser's value drops from 10 to 8 and the move
is accepted.  But the cell is re-oriented FS → N, both pins flip vertically, and the real HPWL goes
from 10 to 14. -/
def kfBefore : Circuit :=
  { cells := [⟨2, 2, 4, 2, .FS, false, false, .SAME⟩, ⟨1, 1, 4, -3, .N, true, false, .ANY⟩,
              ⟨1, 1, 4, 4, .N, true, false, .ANY⟩],
    nets := [⟨1, 0, [⟨0, 0, 2⟩, ⟨1, 0, 0⟩]⟩, ⟨1, 0, [⟨0, 0, 2⟩, ⟨1, 0, 0⟩]⟩, ⟨1, 0, [⟨0, 0, 0⟩, ⟨2, 0, 0⟩]⟩],
    rows := [⟨⟨0, 10, 0, 2⟩, .N⟩, ⟨⟨0, 10, 2, 4⟩, .FS⟩] }

theorem hpwl_can_increase :
    (match fromIspdCircuit kfBefore with
     | .ok s => match s.step (.insert 0 0 (-1)) with
       | .ok t =>
         -- value with frozen offsets: 10 → 8 (accepted); real HPWL: 10 → 14
         decide ((exportPlacement s kfBefore).hpwl = 10 ∧
                 (withOrientOf (exportPlacement t kfBefore) (exportPlacement s kfBefore)).hpwl = 8 ∧
                 (exportPlacement t kfBefore).hpwl = 14)
       | .error _ => false
     | .error _ => false) = true := by decide

/-! ## the real objective: C09's incremental models inside `DetailedPlacer` -/

/-- **value() = hpwl().**  `p` is the `DetailedPlacer` object after any history of primitive moves from
its construction on circuit `c` (each move = the placement change followed by the `updateCellPos`
calls of the code).  If no cell of the exported circuit has another orientation than in `c` (the
orientations the two incremental models were built with), the incrementally maintained
`xtopo_.value() + ytopo_.value()` is `Circuit::hpwl()` of the exported circuit.  Uses C09:
`incr_inv` (through `IncrNet.Good`), `incr_init`, `detailed_value_is_hpwl`. -/
theorem value_eq_hpwl_if_orient_kept (c : Circuit) (p0 p : Placer) (ops : List Op)
    (h0 : Placer.init c = .ok p0) (hr : p0.run ops = .ok p)
    (hk : ∀ i, ((exportPlacement p.pl c).cell i).orient = (c.cell i).orient) :
    p.value = (exportPlacement p.pl c).hpwl := by
  obtain ⟨hs0, e0⟩ := init_sync h0
  obtain ⟨hs, er⟩ := run_sync ops p0 p hs0 hr
  rw [hs.value]
  exact circuitValue_eq_hpwl c p.pl hk (frame_fixed e0 (run_frame er))

/-- the flag printed by the driver and the harness (`Placer.orientKept`) is a sufficient form of the
hypothesis of `value_eq_hpwl_if_orient_kept` -/
theorem value_eq_hpwl_if_orientKept_flag (c : Circuit) (p0 p : Placer) (ops : List Op)
    (h0 : Placer.init c = .ok p0) (hr : p0.run ops = .ok p) (hk : p.orientKept c = true) :
    p.value = (exportPlacement p.pl c).hpwl :=
  value_eq_hpwl_if_orient_kept c p0 p ops h0 hr (orientKept_spec hk)

/-- **The glue is sound.**  After any history the placement component of the object is the `DetPlace`
model's state after the same history, both incremental models pass `IncrNetModel::check()`
(maintained bounds and value = from-scratch recomputation), and `value()` is the position-only
objective `circuitValue c` at the placement's positions — whatever happened to the orientations. -/
theorem placer_in_sync (c : Circuit) (p0 p : Placer) (ops : List Op)
    (h0 : Placer.init c = .ok p0) (hr : p0.run ops = .ok p) :
    fromIspdCircuit c = .ok p0.pl ∧ p0.pl.run ops = .ok p.pl ∧
    p.xt.consistent = true ∧ p.yt.consistent = true ∧
    p.value = p.pl.value (circuitValue c) := by
  obtain ⟨hs0, e0⟩ := init_sync h0
  obtain ⟨hs, er⟩ := run_sync ops p0 p hs0 hr
  refine ⟨e0, er, ?_, ?_, hs.value⟩
  · exact (C09.incr_inv p.xt hs.x.good []).2.2.1
  · exact (C09.incr_inv p.yt hs.y.good []).2.2.1

/-- **What the optimiser evaluates.**  On the object reached by any history, `valueOnSwap` /
`valueOnInsert` (update both models to the candidate positions, read `value()`, update back) return
the position-only objective at the candidate positions *and* leave the object exactly as it was
(state equality); hence `bestSwap` / `bestSwapUpdate` / `bestInsert` choose what the modelled
acceptance rule chooses for `circuitValue c`. -/
theorem optimiser_evaluates_circuit_value (c : Circuit) (p0 p : Placer) (ops : List Op)
    (h0 : Placer.init c = .ok p0) (hr : p0.run ops = .ok p) :
    (∀ c1 c2, p.pl.validCell c1 → p.pl.validCell c2 →
      (p.valueOnSwap c1 c2).1 = p.pl.valueOnSwap (circuitValue c) c1 c2 ∧ (p.valueOnSwap c1 c2).2 = p) ∧
    (∀ k r q, p.pl.validCell k →
      (p.valueOnInsert k r q).1 = p.pl.valueOnInsert (circuitValue c) k r q ∧ (p.valueOnInsert k r q).2 = p) ∧
    (∀ k cands, p.pl.validCell k → (∀ b ∈ cands, p.pl.validCell b) →
      p.bestSwapChoice k cands = p.pl.bestSwapChoice (circuitValue c) k cands) ∧
    (∀ k r cands, p.pl.validCell k →
      p.bestInsertChoice k r cands = p.pl.bestInsertChoice (circuitValue c) k r cands) := by
  have hs := (run_sync ops p0 p (init_sync h0).1 hr).1
  exact ⟨fun _ _ v1 v2 => valueOnSwap_eq hs v1 v2, fun _ _ _ v => valueOnInsert_eq hs v,
    fun _ _ vk vc => bestSwapChoice_eq hs vk vc, fun _ _ _ vk => bestInsertChoice_eq hs vk⟩

/-- **`RowReordering::run` repairs the models it dirtied.**  The enumeration leaves `xtopo_` / `ytopo_` at
the positions of the last evaluated leaf (`dirt`: arbitrary `updateCellPos` calls on registered cells).
Whatever they are, the pass ends in the object obtained from clean models; its placement component is
the modelled keep-best decision for the real objective; the object is in sync again; and when no leaf
was better it is *equal* to the object before the pass (state equality, not only value). -/
theorem reorder_pass_from_dirty_models (c : Circuit) (p0 p : Placer) (ops : List Op)
    (h0 : Placer.init c = .ok p0) (hr : p0.run ops = .ok p)
    (dirt : List (Int × Int × Int)) (cells : List Int) (leaves : List Leaf)
    (hd : ∀ m ∈ dirt, m.1 ∈ cells) (hv : ∀ k ∈ cells, p.pl.validCell k) (q : Placer)
    (e : p.reorderRun dirt cells leaves = .ok q) :
    p.reorderRun [] cells leaves = .ok q ∧
    p.pl.reorderDecision (circuitValue c) cells leaves = .ok q.pl ∧
    q.value = q.pl.value (circuitValue c) ∧
    ((keepBest p.value leaves none).2 = none → q = p) := by
  have hs := (run_sync ops p0 p (init_sync h0).1 hr).1
  unfold Placer.reorderRun at e ⊢
  unfold State.reorderDecision
  rw [← hs.value]
  cases hk : (keepBest p.value leaves none).2 with
  | none =>
    simp only [hk] at e ⊢
    rw [dirty_restore_eq hs dirt cells hd hv] at e
    injection e with e; subst e
    refine ⟨?_, rfl, hs.value, fun _ => rfl⟩
    rw [dirty_restore_eq hs [] cells (by simp) hv]
  | some leaf =>
    simp only [hk] at e ⊢
    obtain ⟨e', hq⟩ := dirty_writeback_eq hs dirt cells leaf.regions hd hv e
    exact ⟨e', (reorderWriteback_sync hs e').2, hq.value, fun h => by cases h⟩

/-- an accepted move is a (possibly empty) history of the `DetPlace` model and does not increase the
objective — strictly decreases it for swaps, inserts and written-back reorderings -/
theorem accepted_not_worse (V : Value) {s t : State} (h : Inv s) (a : Accepted V s t) :
    t.value V ≤ s.value V ∧ ∃ ops, s.run ops = .ok t := by
  cases a with
  | swap k b cands hch e =>
    refine ⟨?_, [.swap k b], by simp [State.run, e]⟩
    simp only [State.step] at e
    split at e
    · rename_i hg
      simp only [Bool.and_eq_true] at hg
      exact Int.le_of_lt (accepted_move_decreases V h ((liveCell_iff _ _).1 hg.1).1 ((liveCell_iff _ _).1 hg.2).1 hch e)
    · cases e
  | insert k r b cands hch e =>
    refine ⟨?_, [.insert k r b], by simp [State.run, e]⟩
    simp only [State.step] at e
    split at e
    · exact Int.le_of_lt (accepted_insert_decreases V hch e)
    · cases e
  | shift mv e hle => exact ⟨hle, [.shift mv], by simp [State.run, e]⟩
  | reorder w e =>
    rcases reorderWindow_not_worse V s t w e with rfl | ⟨hlt, cells, regions, e'⟩
    · exact ⟨Int.le_refl _, [], rfl⟩
    · exact ⟨Int.le_of_lt hlt, [.reorder cells regions], by simp [State.run, e']⟩

/-! ## `RowReordering`: the enumeration itself (Model/DetReorder.lean) -/

/-- **Every leaf `RowReordering` evaluates is evaluated on its own write-back.**  `rr0` is the object after
`addCells(window)`; its registered cells are distinct and non-negative.  Then for every leaf of the
enumeration (`runRegionChoice` / `runOrdering` with `std::next_permutation`, width and row-polarity tests,
positions packed from `minPos`): the value read at the leaf (`xtopo_.value() + ytopo_.value()` after the
`updateCellPos` calls of the enumeration) is the objective with the registered cells at the leaf's positions
(`FaithfulLeaf`), which is the objective of the placement `writeback` produces from that leaf whenever it
succeeds; the pass is the keep-best decision (strict `<`, started from the value before the pass) over these
leaves in evaluation order; no `next_permutation` loop runs out of the model's fuel and no `assert` of the
enumeration fires. -/
theorem reorder_leaf_faithful (V : Value) (s : State) (w : List Int) (rr0 : RowReord PS)
    (e0 : addCells s (RowReord.new (s.x, s.y)) w = .ok rr0) (hn : rr0.cells.Nodup) (hnn : ∀ c ∈ rr0.cells, 0 ≤ c) :
    (∀ leaf ∈ windowLeaves V s rr0, FaithfulLeaf V s leaf ∧
      ∀ cells t, s.reorderWriteback cells leaf.regions = .ok t → t.value V = leaf.value) ∧
    s.reorderWindow V w = s.reorderDecision V (sortDesc rr0.cells) (windowLeaves V s rr0) ∧
    (rr0.run (pureStore V) s).fuelOut = false ∧ (rr0.run (pureStore V) s).assertFail = rr0.assertFail := by
  obtain ⟨h1, h2, h3, h4⟩ := reorderWindow_decision V s w rr0 e0 hn hnn
  refine ⟨fun leaf hl => ⟨h2 leaf hl, fun cells t e => ?_⟩, h1, h3, h4⟩
  rw [reorderWriteback_value V e]
  exact (h2 leaf hl).symm

/-- **`RowReordering` never worsens the objective** — no hypothesis on the leaves, the window or the
placement: if `runReorderingOnCells(window)` returns normally, either the placement is exactly the one before
(state equality) or the objective strictly decreased.  (A write-back that succeeds forces the registered
cells to be distinct optimised cells, which is what `reorder_leaf_faithful` needs.) -/
theorem reorder_not_worse (V : Value) (s t : State) (w : List Int) (e : s.reorderWindow V w = .ok t) :
    t = s ∨ t.value V < s.value V := by
  rcases reorderWindow_not_worse V s t w e with h | ⟨h, _⟩
  · exact Or.inl h
  · exact Or.inr h

/-- **`RowReordering` keeps the invariant of C02**: the pass is the identity or one `reorder` write-back
of the `DetPlace` model (`inv_step_reorder`). -/
theorem reorder_preserves_inv (V : Value) {s t : State} (h : Inv s) (w : List Int) (e : s.reorderWindow V w = .ok t) :
    Inv t ∧ ∃ ops, s.run ops = .ok t := by
  rcases reorderWindow_not_worse V s t w e with rfl | ⟨_, cells, regions, e'⟩
  · exact ⟨h, [], rfl⟩
  · exact ⟨step_inv h e', [.reorder cells regions], by simp [State.run, e']⟩

/-- **The same on the real object.**  `p` is the `DetailedPlacer` reached by any history from its
construction on `c`; `runReorderingOnCells(window)` — the enumeration driving the two incremental net models
through `updateCellPos`, then `writeback` — returns `q`, the logged write-back `ops` (hook H3) and the window
report `info` (hook H3b).  If the registered cells are distinct valid cells (`Inv` + `addCells`:
Proofs/DetReorderReg.lean), then: its placement is the result of the pass on the coordinate vectors for the real
objective; `q` is in sync (`value()` = the objective of its placement); replaying the logged write-back on `p`
gives `q`; without improvement `q = p` (whole object) and nothing is logged; the reported number of leaves, best
value and decision are those of the enumeration of `reorder_leaf_faithful`, all of whose leaves are faithful. -/
theorem reorder_window_on_object (c : Circuit) (p0 p q : Placer) (ops0 : List Op) (w : List Int) (ops : List Op)
    (info : WindowInfo) (h0 : Placer.init c = .ok p0) (hr : p0.run ops0 = .ok p)
    (e : p.reorderWindow w = .ok (q, ops, info))
    (hreg : info.cells.Nodup ∧ ∀ k ∈ info.cells, p.pl.validCell k) :
    p.pl.reorderWindow (circuitValue c) w = .ok q.pl ∧ q.value = q.pl.value (circuitValue c) ∧
    p0.run (ops0 ++ ops) = .ok q ∧ (info.improvement = false → q = p ∧ ops = []) ∧
    info.fuelOut = false ∧ info.valueAfter = q.value ∧
    ∃ rr0 : RowReord PS, addCells p.pl (RowReord.new (p.pl.x, p.pl.y)) w = .ok rr0 ∧
      info.nbLeaves = (windowLeaves (circuitValue c) p.pl rr0).length ∧
      info.bestVal = (rr0.run (pureStore (circuitValue c)) p.pl).bestVal ∧
      info.improvement = (rr0.run (pureStore (circuitValue c)) p.pl).improvement ∧
      ∀ leaf ∈ windowLeaves (circuitValue c) p.pl rr0, FaithfulLeaf (circuitValue c) p.pl leaf := by
  have hs := (run_sync ops0 p0 p (init_sync h0).1 hr).1
  obtain ⟨h1, h2, h3, h4, h5, h6, h7⟩ := reorderWindow_placer c p q w ops info hs e hreg
  exact ⟨h1, h2.value, run_append hr h3, h4, h5, h6, h7⟩

/-- **The hypothesis of `reorder_window_on_object` holds for the windows the code builds.**  On a placement
satisfying `Inv`, a window of distinct valid placed cells — such as the windows `runReorderingOnRows` cuts out
of `rowCells(rows)` (`reorderWindows_ok`, `rowsAbove_ok`) — makes `addCells` register distinct valid cells:
each region is a run of window cells linked by `cellNext`, two runs never meet. -/
theorem reorder_window_registered (p q : Placer) (w : List Int) (ops : List Op) (info : WindowInfo) (h : Inv p.pl)
    (hn : w.Nodup) (hw : ∀ k ∈ w, p.pl.validCell k ∧ p.pl.row k ≠ -1) (e : p.reorderWindow w = .ok (q, ops, info)) :
    info.cells.Nodup ∧ ∀ k ∈ info.cells, p.pl.validCell k :=
  windowOk_of_inv h hn hw q ops info e

/-- **`runReordering` as modelled is an accepted history — no hypothesis on the windows.**  `p` reached by any
history from the construction on `c`, its placement satisfying `Inv` with every optimised cell placed (C02:
`inv_init`, `inv_run`).  If the modelled `runReordering(maxNbRows, maxNbCells)` — rows `{row} ∪ rowsAbove(row)` of
`RowNeighbourhood(rows, maxNbRows − 1)`, cells of these rows sorted by (x, index), overlapping windows of
`maxNbCells` cells, `RowReordering` on each — returns `q` with the write-backs `ops`: `q` is reached from `p` by a
`History` of accepted moves for the real objective, it is in sync and satisfies `Inv`, and it is what replaying
`ops0 ++ ops` gives. -/
theorem reorder_pass_accepted (c : Circuit) (p0 p q : Placer) (ops0 : List Op) (a b : Int) (ops : List Op)
    (infos : List WindowInfo) (h0 : Placer.init c = .ok p0) (hr : p0.run ops0 = .ok p) (hi : Inv p.pl)
    (ha : p.pl.allPlaced = true) (e : p.runReordering a b = .ok (q, ops, infos)) :
    (∃ states, History (circuitValue c) p.pl states ∧ (p.pl :: states).getLast? = some q.pl) ∧
    q.value = q.pl.value (circuitValue c) ∧ p0.run (ops0 ++ ops) = .ok q ∧ Inv q.pl ∧ q.pl.allPlaced = true := by
  have hs := (run_sync ops0 p0 p (init_sync h0).1 hr).1
  obtain ⟨⟨hsq, hist⟩, hrun, hiq, haq⟩ := runReordering_reaches hs hi ((Lg.allPlaced_iff _).1 ha) e
  exact ⟨hist, hsq.value, run_append hr hrun, hiq, (Lg.allPlaced_iff _).2 haq⟩

/-! ## the candidate enumeration of the local search (Model/DetSearch.lean) -/

/-- **Every primitive the modelled scan issues is inside its contract.**  `runSwaps` / `runInserts` of the
whole-object model (row neighbourhoods of `RowNeighbourhood`, windows of `nbNeighbours` cells, the
`bestSwapUpdate` walks): whenever the pass returns, the moves it performed form a `SearchTrace` — each one
was chosen by the scan (`bestSwapChoice` / `bestInsertChoice`: last candidate strictly below `value()`) among
the candidates enumerated at that point, `canSwap` / `canInsert` answered true for it in the state it is
applied to, and the checked step went through.  With `Inv` (C02: `swap_never_throws`, `insert_never_throws`)
a move with these properties cannot throw. -/
theorem scan_calls_within_contract (p q : Placer) (a b : Int) (ops : List Op) :
    (p.runSwaps a b = .ok (q, ops) → SearchTrace p ops q) ∧
    (p.runInserts a b = .ok (q, ops) → SearchTrace p ops q) ∧
    (∀ k cands x, p.bestSwapChoice k cands = some x → x ∈ cands ∧ p.pl.canSwap k x = .ok true ∧
      (Inv p.pl → p.pl.liveCell k = true → p.pl.liveCell x = true → ∃ t, p.pl.step (.swap k x) = .ok t ∧ Inv t)) ∧
    (∀ k r cands x, p.bestInsertChoice k r cands = some x → x ∈ cands ∧ p.pl.canInsert k r x = .ok true ∧
      (Inv p.pl → p.pl.liveCell k = true → p.pl.siteOk r x = true → ∃ t, p.pl.step (.insert k r x) = .ok t ∧ Inv t)) := by
  refine ⟨runSwaps_trace, runInserts_trace, ?_, ?_⟩
  · intro k cands x h
    refine ⟨bestSwapChoice_mem h, bestSwapChoice_canSwap h, fun hi l1 l2 => ?_⟩
    obtain ⟨t, e⟩ := swap_succeeds hi l1 l2 (bestSwapChoice_canSwap h)
    have e' : p.pl.step (.swap k x) = .ok t := by simp only [State.step, l1, l2, Bool.and_self, if_true]; exact e
    exact ⟨t, e', step_inv hi e'⟩
  · intro k r cands x h
    refine ⟨bestInsertChoice_mem h, bestInsertChoice_canInsert h, fun hi l1 l2 => ?_⟩
    obtain ⟨t, e⟩ := insert_succeeds hi l1 l2 (bestInsertChoice_canInsert h)
    have e' : p.pl.step (.insert k r x) = .ok t := by simp only [State.step, l1, l2, Bool.and_self, if_true]; exact e
    exact ⟨t, e', step_inv hi e'⟩

/-- **The modelled passes never fail.**  `p` reached by any history from the construction on `c`, its
placement satisfying `Inv` with every optimised cell placed (C02: `inv_init`, `inv_run`).  Then `runSwaps(a, b)`
and `runInserts(a, b)` (for `nbNeighbours = b ≥ 0`) and `runReordering(a, b)` (any arguments) of the model return
normally — no C++ exception (`Err.runtime`: `canSwap`/`canInsert`/`canPlace`/`place`/`cellsBetween`), no
model-only guard, no fuel exhaustion: every scanned cell is a live cell of its row, every chosen move is
feasible and carried out (`swap_never_throws` / `insert_never_throws`), the `bestSwapUpdate` loops terminate
because `value() ≥ 0` strictly decreases and the row walk advances, `addCells` finds the end of every run, and
`place` accepts the kept leaf of `RowReordering` (the enumeration only recurses under the `allocatedWidth` and
row-polarity tests and packs from `minPos`).  `Inv` holds afterwards.  (`runShifts` is not covered: lemon.) -/
theorem passes_never_fail (c : Circuit) (p0 p : Placer) (ops0 : List Op) (a b : Int)
    (h0 : Placer.init c = .ok p0) (hr : p0.run ops0 = .ok p) (hi : Inv p.pl) (ha : p.pl.allPlaced = true) :
    (0 ≤ b → ∃ q ops, p.runSwaps a b = .ok (q, ops) ∧ Inv q.pl) ∧
    (0 ≤ b → ∃ q ops, p.runInserts a b = .ok (q, ops) ∧ Inv q.pl) ∧
    (∃ q ops infos, p.runReordering a b = .ok (q, ops, infos) ∧ Inv q.pl) := by
  have hs := (run_sync ops0 p0 p (init_sync h0).1 hr).1
  refine ⟨fun hb => ?_, fun hb => ?_, ?_⟩
  · obtain ⟨q, ops, e, hq, _, _⟩ := runSwaps_no_error c hs hi a hb
    exact ⟨q, ops, e, hq⟩
  · obtain ⟨q, ops, e, hq, _, _⟩ := runInserts_no_error hi a hb
    exact ⟨q, ops, e, hq⟩
  · obtain ⟨⟨q, ops, infos⟩, e⟩ := runReordering_total p a b hs hi ((Lg.allPlaced_iff _).1 ha)
    exact ⟨q, ops, infos, e, (runReordering_reaches hs hi ((Lg.allPlaced_iff _).1 ha) e).2.2.1⟩

/-- **The modelled search passes are accepted histories.**  `p` reached by any history from the construction
on `c`.  A pass `runSwaps(a, b)` or `runInserts(a, b)` of the model that returns `q` after performing `ops`:
`q` is reached from `p` by a `History` of accepted moves for the real objective (so
`hpwl_monotone_orient_kept` applies to it), it is in sync, and it is the object the replay of `ops0 ++ ops`
gives (so the pass can be followed by another one). -/
theorem search_pass_accepted (c : Circuit) (p0 p q : Placer) (ops0 : List Op) (a b : Int) (ops : List Op)
    (h0 : Placer.init c = .ok p0) (hr : p0.run ops0 = .ok p)
    (e : p.runSwaps a b = .ok (q, ops) ∨ p.runInserts a b = .ok (q, ops)) :
    (∃ states, History (circuitValue c) p.pl states ∧ (p.pl :: states).getLast? = some q.pl) ∧
    q.value = q.pl.value (circuitValue c) ∧ p0.run (ops0 ++ ops) = .ok q := by
  have hs := (run_sync ops0 p0 p (init_sync h0).1 hr).1
  have tr : SearchTrace p ops q := by
    rcases e with e | e
    · exact runSwaps_trace e
    · exact runInserts_trace e
  obtain ⟨hsq, hist⟩ := trace_history tr hs
  exact ⟨hist, hsq.value, run_append hr tr.run⟩

/-- **Value level, all inputs.**  Along any history of accepted moves from a placement satisfying `Inv`, the
optimiser's objective never increases and `Inv` is kept — whatever happens to the orientations (the
orientation caveat KF-C05-1 only concerns the step from the objective to `Circuit::hpwl()`). -/
theorem history_value_monotone (V : Value) {s : State} {states : List State} (h : Inv s) (hist : History V s states) :
    ∀ t, (s :: states).getLast? = some t → t.value V ≤ s.value V ∧ Inv t := by
  induction hist with
  | nil s => intro t ht; simp at ht; subst ht; exact ⟨Int.le_refl _, h⟩
  | cons a _ ih =>
    intro u hu
    obtain ⟨hle, ops, er⟩ := accepted_not_worse V h a
    obtain ⟨h1, h2⟩ := ih (run_inv h er) u (by simpa [List.getLast?_cons_cons] using hu)
    exact ⟨Int.le_trans h1 hle, h2⟩

/-- **C05 while orientations are kept.**  `c` is the legalized circuit handed to detailed placement,
`s0` the placement constructed from it.  Along any history of moves accepted by the optimiser's rules
for its real objective (`circuitValue c` — by `placer_in_sync` / `optimiser_evaluates_circuit_value`
what `value()`, `valueOnSwap`, `valueOnInsert` compute on the real object), if the export of every
state has the orientations of `c`, then the HPWL of the exported circuit never increases: every later
state is at most every earlier one (in particular at successive callbacks), all are at most the
initial one, and the initial one is the HPWL of the legalized circuit.
Assumed: `Inv s0` (C02: `inv_init`), per-shift `value' ≤ value` (inside `Accepted.shift`). -/
theorem hpwl_monotone_orient_kept (c : Circuit) (s0 : State) (states : List State)
    (h0 : fromIspdCircuit c = .ok s0) (hinv : Inv s0)
    (hist : History (circuitValue c) s0 states)
    (hk : ∀ t ∈ states, ∀ i, ((exportPlacement t c).cell i).orient = (c.cell i).orient) :
    List.Pairwise (fun a b => (exportPlacement b c).hpwl ≤ (exportPlacement a c).hpwl) (s0 :: states) ∧
    (exportPlacement s0 c).hpwl = c.hpwl := by
  refine ⟨?_, (init_value h0).2⟩
  -- generalise over the current state: reachable, invariant, orientations kept
  have key : ∀ (states : List State) (s : State), Inv s → Frame s0 s →
      (∀ i, ((exportPlacement s c).cell i).orient = (c.cell i).orient) →
      History (circuitValue c) s states →
      (∀ t ∈ states, ∀ i, ((exportPlacement t c).cell i).orient = (c.cell i).orient) →
      List.Pairwise (fun a b => (exportPlacement b c).hpwl ≤ (exportPlacement a c).hpwl) (s :: states) := by
    intro states
    induction states with
    | nil => intro s _ _ _ _ _; exact List.pairwise_singleton _ _
    | cons t rest ih =>
      intro s hi hf hks hh hkr
      cases hh with
      | cons a hrest =>
        obtain ⟨hle, ops, er⟩ := accepted_not_worse _ hi a
        have hft : Frame s0 t := hf.trans (run_frame er)
        have hkt := hkr t (List.mem_cons_self ..)
        have pw := ih t (run_inv hi er) hft hkt hrest (fun u hu => hkr u (List.mem_cons_of_mem _ hu))
        have es := circuitValue_eq_hpwl c s hks (frame_fixed h0 hf)
        have et := circuitValue_eq_hpwl c t hkt (frame_fixed h0 hft)
        have hst : (exportPlacement t c).hpwl ≤ (exportPlacement s c).hpwl := by rw [← es, ← et]; exact hle
        rw [List.pairwise_cons]
        refine ⟨?_, pw⟩
        intro u hu
        rcases List.mem_cons.1 hu with rfl | hu'
        · exact hst
        · exact Int.le_trans ((List.pairwise_cons.1 pw).1 u hu') hst
  exact key states s0 hinv (Frame.refl s0) (init_orient_kept h0) hist hk

/-- **C05 for a sequence of modelled passes, while orientations are kept.**  `q` is reached from the freshly
constructed placer by any sequence of passes — `search_pass_accepted`, `reorder_pass_accepted` and accepted
shifts compose by `Reaches.trans` — i.e. by a `History` for the real objective ending in `q`'s placement.  If
every state of it exports the orientations of `c`, the HPWL `q` exports is at most the legalized circuit's. -/
theorem passes_hpwl_not_worse (c : Circuit) (p0 q : Placer) (states : List State) (h0 : Placer.init c = .ok p0)
    (hinv : Inv p0.pl) (hist : History (circuitValue c) p0.pl states) (hlast : (p0.pl :: states).getLast? = some q.pl)
    (hk : ∀ t ∈ states, ∀ i, ((exportPlacement t c).cell i).orient = (c.cell i).orient) :
    (exportPlacement q.pl c).hpwl ≤ c.hpwl := by
  obtain ⟨hpw, hfirst⟩ := hpwl_monotone_orient_kept c p0.pl states (init_sync h0).2 hinv hist hk
  rw [← hfirst]
  cases states with
  | nil => simp at hlast; rw [← hlast]
  | cons t rest =>
    have hmem : q.pl ∈ t :: rest := by
      have : (t :: rest).getLast? = some q.pl := by simpa [List.getLast?_cons_cons] using hlast
      exact List.mem_of_getLast? this
    exact (List.pairwise_cons.1 hpw).1 _ hmem

/-- The proved part of `hpwl_monotone_full_statement` under the name DESIGN.md gives it: this *is*
`hpwl_monotone_orient_kept`.  Missing with respect to the full statement: histories in which a move
changes an orientation (there the statement is false: `hpwl_can_increase`, KF-C05-1); shift steps are
covered only under the per-step premise `value' ≤ value` (NetworkSimplex optimality, assumed); the
moves must be the ones the modelled acceptance rules choose (tied to the loops of the code by the
hook-H3 replay); `Inv s0` is C02's `inv_init`. -/
theorem hpwl_monotone_partial (c : Circuit) (s0 : State) (states : List State)
    (h0 : fromIspdCircuit c = .ok s0) (hinv : Inv s0)
    (hist : History (circuitValue c) s0 states)
    (hk : ∀ t ∈ states, ∀ i, ((exportPlacement t c).cell i).orient = (c.cell i).orient) :
    List.Pairwise (fun a b => (exportPlacement b c).hpwl ≤ (exportPlacement a c).hpwl) (s0 :: states) ∧
    (exportPlacement s0 c).hpwl = c.hpwl :=
  hpwl_monotone_orient_kept c s0 states h0 hinv hist hk

/-- KF-C05-1 on the whole object: on the same witness `bestInsert` — evaluating the *real* maintained
objective through `valueOnInsert` — accepts inserting cell 0 at the head of row 0; `value()` goes from
10 to 8, the orientation flag drops, and `Circuit.hpwl` of the export goes from 10 to 14.  So the
hypothesis of `hpwl_monotone_orient_kept` cannot be removed. -/
theorem hpwl_can_increase_on_object :
    (match Placer.init kfBefore with
     | .ok p => (p.bestInsertChoice 0 0 [-1] == some (-1)) && decide (p.value = 10) && p.orientKept kfBefore &&
       (match p.step (.insert 0 0 (-1)) with
        | .ok q => decide (q.value = 8 ∧ (exportPlacement q.pl kfBefore).hpwl = 14) && !q.orientKept kfBefore
        | .error _ => false)
     | .error _ => false) = true := by decide

/-! non-vacuity of `accepted_move_decreases`: on a two-cell row, with V = distance of cell 0 to
abscissa 9, the scan accepts swapping 0 and 1 -/
example :
    let c : Circuit := { cells := [⟨2, 2, 0, 0, .N, false, false, .ANY⟩, ⟨3, 2, 4, 0, .N, false, false, .ANY⟩],
                         nets := [], rows := [⟨⟨0, 10, 0, 2⟩, .N⟩] }
    let V : Value := fun x _ => (9 - x 0).natAbs
    (match fromIspdCircuit c with
     | .ok s => decide (Inv s) && (s.bestSwapChoice V 0 [0, 1] == some 1) &&
                (match s.swap 0 1 with | .ok t => decide (t.value V < s.value V) | .error _ => false)
     | .error _ => false) = true := by decide


/-! non-vacuity of the second block: cell 0 is tied to a fixed pin on its right; `bestSwap` (for the
real objective) accepts swapping it with its right neighbour; the history is accepted, no
orientation changes, the HPWL goes from 12 (the legalized circuit's) to 9 -/
def exC : Circuit :=
  { cells := [⟨2, 2, 0, 0, .N, false, false, .ANY⟩, ⟨3, 2, 4, 0, .N, false, false, .ANY⟩, ⟨1, 1, 12, 0, .N, true, false, .ANY⟩],
    nets := [⟨1, 0, [⟨0, 0, 0⟩, ⟨2, 0, 0⟩]⟩], rows := [⟨⟨0, 10, 0, 2⟩, .N⟩] }

example : ∃ s0 t, fromIspdCircuit exC = .ok s0 ∧ Inv s0 ∧ History (circuitValue exC) s0 [t] ∧
    (∀ i, ((exportPlacement t exC).cell i).orient = (exC.cell i).orient) ∧
    exC.hpwl = 12 ∧ (exportPlacement t exC).hpwl = 9 := by
  obtain ⟨s0, e0, hi, hch, hstep⟩ := ok_of_check (x := fromIspdCircuit exC)
    (P := fun s => Inv s ∧ s.bestSwapChoice (circuitValue exC) 0 [0, 1] = some 1 ∧
      checkOk (s.step (.swap 0 1)) (fun t =>
        (⟨t, IncrNet.xTopologyAll exC, IncrNet.yTopologyAll exC⟩ : Placer).orientKept exC = true ∧
        (exportPlacement t exC).hpwl = 9) = true) (by decide)
  obtain ⟨t, e1, hk, h9⟩ := ok_of_check hstep
  exact ⟨s0, t, e0, hi, .cons (.swap 0 1 [0, 1] hch e1) (.nil t), orientKept_spec hk, by decide, h9⟩

/-! non-vacuity of `value_eq_hpwl_if_orient_kept`: the object after the same swap -/
example : (match Placer.init exC with
    | .ok p0 => match p0.run [.swap 0 1] with
      | .ok p => p.orientKept exC && decide (p.value = 9)
      | .error _ => false
    | .error _ => false) = true := by decide

/-! non-vacuity of `reorder_pass_from_dirty_models`: a reordering pass over cells 1, 0 whose enumeration
left the models dirty; with a strictly better leaf (cell 1 at 0, cell 0 at 3: value 9 < 12) it is written
back and the object is in sync; with no better leaf both models are exactly the ones before the pass -/
example : (match Placer.init exC with
    | .ok p =>
      (match p.reorderRun [(0, 7, 0), (1, 1, 0)] [1, 0] [⟨9, [⟨0, -1, [(1, 0), (0, 3)]⟩]⟩] with
       | .ok q => decide (q.value = 9 ∧ (exportPlacement q.pl exC).hpwl = 9)
       | .error _ => false) &&
      (match p.reorderRun [(0, 7, 0)] [1, 0] [⟨12, []⟩] with
       | .ok q => decide (q.xt = p.xt ∧ q.yt = p.yt ∧ q.value = 12)
       | .error _ => false)
    | .error _ => false) = true := by decide

/-! non-vacuity of the `RowReordering` block: three movable cells 0, 1, 3 in one row, cell 0 tied to a fixed pin
on the right.  `addCells [0, 1, 3]` registers one region with the three (distinct, non-negative) cells; the
enumeration evaluates 5 leaves (the 6 orders minus the one `next_permutation` starts from); the pass returns a
strictly better placement (12 → 7); a one-cell window evaluates nothing and returns the placement unchanged. -/
def exR : Circuit :=
  { cells := [⟨2, 2, 0, 0, .N, false, false, .ANY⟩, ⟨3, 2, 4, 0, .N, false, false, .ANY⟩, ⟨1, 1, 12, 0, .N, true, false, .ANY⟩,
              ⟨2, 2, 7, 0, .N, false, false, .ANY⟩],
    nets := [⟨1, 0, [⟨0, 0, 0⟩, ⟨2, 0, 0⟩]⟩], rows := [⟨⟨0, 10, 0, 2⟩, .N⟩] }

example : (match fromIspdCircuit exR with
    | .ok s =>
      (match addCells s (RowReord.new (s.x, s.y)) [0, 1, 3] with
       | .ok rr0 => decide (rr0.cells.Nodup ∧ (∀ c ∈ rr0.cells, 0 ≤ c) ∧ rr0.regions.length = 1) &&
                    decide ((windowLeaves (circuitValue exR) s rr0).length = 5)
       | .error _ => false) &&
      (match s.reorderWindow (circuitValue exR) [0, 1, 3] with
       | .ok t => decide (s.value (circuitValue exR) = 12 ∧ t.value (circuitValue exR) = 7 ∧ Inv s ∧ Inv t)
       | .error _ => false) &&
      (match s.reorderWindow (circuitValue exR) [1] with
       | .ok t => decide (t.value (circuitValue exR) = 12 ∧ t.x 0 = s.x 0 ∧ t.x 1 = s.x 1 ∧ t.x 3 = s.x 3)
       | .error _ => false)
    | .error _ => false) = true := by decide +kernel

/-! non-vacuity of `reorder_window_on_object`: the same window on the whole object; the report of hook H3b
(5 leaves, best value 7, improvement) and the hypothesis on the registered cells -/
example : (match Placer.init exR with
    | .ok p =>
      (match p.reorderWindow [0, 1, 3] with
       | .ok (q, ops, info) =>
         decide (info.cells = [3, 1, 0] ∧ info.cells.Nodup ∧ (∀ k ∈ info.cells, p.pl.validCell k) ∧ info.nbLeaves = 5 ∧
                 info.bestVal = 7 ∧ info.improvement = true ∧ info.fuelOut = false ∧ info.assertFail = false ∧
                 q.value = 7 ∧ ops.length = 1)
       | .error _ => false)
    | .error _ => false) = true := by decide +kernel

/-! non-vacuity of `search_pass_accepted` / `scan_calls_within_contract`: `runSwaps(1, 1)` on `exC` performs the
swap of cells 0 and 1 (value 12 → 9) and `runInserts(1, 1)` an insertion -/
example : (match Placer.init exC with
    | .ok p =>
      (match p.runSwaps 1 1 with
       | .ok (q, ops) => decide (ops = [.swap 0 1] ∧ q.value = 9)
       | .error _ => false) &&
      (match p.runInserts 1 1 with
       | .ok (q, ops) => decide (ops.length = 1 ∧ q.value < 12)
       | .error _ => false)
    | .error _ => false) = true := by decide +kernel

/-! non-vacuity of `reorder_pass_accepted`: `runReordering(1, 3)` on `exR` (Inv, all placed) handles two windows
([0, 1, 3] and [1, 3]) and writes back one better order -/
example : (match Placer.init exR with
    | .ok p => decide (Inv p.pl) && p.pl.allPlaced &&
      (match p.runReordering 1 3 with
       | .ok (q, ops, infos) => decide (ops.length = 1 ∧ infos.length = 2 ∧ q.value = 7)
       | .error _ => false)
    | .error _ => false) = true := by decide +kernel

end ColoVerif.C05
