/-
C13 — the transportation solver returns a feasible minimum-cost plan; `toAssignment` gives each
source the sink receiving most of it.

All statements are about `ColoVerif.Transp` (Model/Transp.lean, Model/TranspCert.lean), the
definitions `drv_C13` executes against the C++ (`harness/h_C13.cpp`).

Float costs: `costsFromFloats_bound` (the fixed-point scaling of the `float` constructor, modelled operation
by operation with explicit binary64 rounding in Model/TranspFloat.lean, always produces costs within the
bound the solver needs), `ssp_optimal_float`, `float_optimality_gap` (what optimality in the scaled integer
costs means for the original real-valued costs), `float_precondition_needed`.

Everything is proved for all inputs of any size: `ssp_optimal` (the solver returns a feasible plan of
minimum cost on every well-formed problem), `ssp_terminates`, `ssp_feasible`, `ssp_assignment`,
`toAssignment_argmax`, `increaseCapacity_covers`, `cert_optimal`.  Helper lemmas:
`Proofs/TranspSsp2{Defs,Heap,Nonneg,Queue,Step,Walk,TreeA,TreeB,Tree,Inv,Update,Main,Solve,Witness}.lean`.
-/
import ColoVerif.Proofs.TranspCert
import ColoVerif.Proofs.Transp
import ColoVerif.Proofs.TranspSsp
import ColoVerif.Proofs.TranspSsp2Nonneg
import ColoVerif.Proofs.TranspSsp2Solve
import ColoVerif.Proofs.TranspSsp2Witness
import ColoVerif.Proofs.TranspFloatGap
import ColoVerif.Proofs.TranspFloatC07

namespace ColoVerif.C13
open ColoVerif.Transp

/-- **Optimality from a certificate (any size).**  If `checkCert` accepts the plan `x` with the
potentials `u` (sources), `v` (sinks), then `x` is feasible and no feasible plan is cheaper
(weak duality + complementary slackness; costs are the problem's integer costs). -/
theorem cert_optimal (p : Problem) (x : Mat) (u v : List Int) (h : checkCert p x u v = true) :
    Feasible p x ∧ ∀ y, Feasible p y → costOf p x ≤ costOf p y := by
  simp only [checkCert, Bool.and_eq_true] at h
  obtain ⟨⟨hp, hd⟩, hs⟩ := h
  have hx := (primalOk_iff p x).mp hp
  refine ⟨hx, fun y hy => ?_⟩
  rw [slack_tight p x u v hx hs]
  exact weak_duality p y u v hy hd

/-- what the driver prints as `cert ok`: the computed potentials are accepted, hence optimal -/
theorem certifies_optimal (p : Problem) (x : Mat) (h : certifies p x = true) :
    Feasible p x ∧ ∀ y, Feasible p y → costOf p x ≤ costOf p y := by
  simp only [certifies, Bool.and_eq_true] at h
  exact cert_optimal p x _ _ h.2

/-- non-vacuity of `cert_optimal`: a 2 sinks × 2 sources plan with its certificate -/
example : checkCert (Problem.make [2, 2] [2, 1] [[0, 3], [1, 1]]) [[2, 0], [0, 1]] [0, 1] [0, 0] = true := by
  decide

/-- **`toAssignment` = argmax with the code's tie-breaking (first maximum).**  For a plan without
negative entries in column `src`, the assigned sink is a valid index, receives at least as much of
`src` as every sink, and strictly more than every earlier sink. -/
theorem toAssignment_argmax (p : Problem) (src : Nat) (hs : src < p.nbSources) (hn : 0 < p.nbSinks)
    (h0 : ∀ i, i < p.nbSinks → 0 ≤ p.allocation i src) :
    p.toAssignment.length = p.nbSources ∧
    p.toAssignment.getD src 0 < p.nbSinks ∧
    (∀ i, i < p.nbSinks → p.allocation i src ≤ p.allocation (p.toAssignment.getD src 0) src) ∧
    (∀ i, i < p.toAssignment.getD src 0 → p.allocation i src < p.allocation (p.toAssignment.getD src 0) src) := by
  have e := toAssignmentOf_getD p.allocations p.nbSinks p.nbSources src hs
  have s := argmaxFrom_spec p.allocations src p.nbSinks hn h0
  refine ⟨by simp [Problem.toAssignment, Problem.toAssignmentOf], ?_⟩
  unfold Problem.toAssignment Problem.allocation
  rw [e]
  exact s

example : (Problem.mk [3, 3] [2, 2] [[0, 0], [0, 0]] [[1, 2], [1, 0]]).toAssignment = [0, 0] := by decide

/-- **`increaseCapacity` covers the demand.**  Afterwards total capacity ≥ total demand, no capacity
decreased, nothing else changed; when capacity was short the problem becomes exactly balanced. -/
theorem increaseCapacity_covers (p : Problem) (hn : 0 < p.nbSinks) :
    p.increaseCapacity.totalDemand ≤ p.increaseCapacity.totalCapacity ∧
    (∀ i, p.capacity i ≤ p.increaseCapacity.capacity i) ∧
    p.increaseCapacity.nbSinks = p.nbSinks ∧
    p.increaseCapacity.demands = p.demands ∧ p.increaseCapacity.costs = p.costs ∧
    p.increaseCapacity.allocations = p.allocations ∧
    (p.totalCapacity < p.totalDemand → p.increaseCapacity.totalCapacity = p.totalDemand) := by
  unfold Problem.increaseCapacity
  by_cases hm : p.missing ≤ 0
  · rw [if_pos hm]
    unfold Problem.missing at hm
    refine ⟨by omega, fun _ => le_refl _, rfl, rfl, rfl, rfl, fun h => by omega⟩
  · rw [if_neg hm]
    have hpos : 0 < p.missing := by omega
    obtain ⟨ha, hr0, hrn⟩ := tdiv_facts p.missing p.nbSinks hpos hn
    have hsum := incCaps_sum p.added (p.missing - p.added * (p.nbSinks : Int)) p.capacities 0
    have hcnt : min (max (p.missing - p.added * (p.nbSinks : Int) - ((0 : Nat) : Int)) 0) (p.capacities.length : Int)
        = p.missing - p.added * (p.nbSinks : Int) := by
      unfold Problem.added Problem.nbSinks at *
      push_cast; omega
    rw [hcnt] at hsum
    have htot : (Problem.incCaps p.added (p.missing - p.added * (p.nbSinks : Int)) 0 p.capacities).sum
        = p.totalDemand := by
      rw [hsum]; unfold Problem.missing Problem.totalCapacity Problem.nbSinks; ring
    refine ⟨?_, ?_, ?_, rfl, rfl, rfl, fun _ => ?_⟩
    · simp only [Problem.totalDemand, Problem.totalCapacity] at htot ⊢
      omega
    · intro i
      exact incCaps_getD _ _ ha p.capacities 0 i
    · simp [Problem.nbSinks, incCaps_length]
    · simpa [Problem.totalCapacity] using htot

example : (Problem.make [1, 1, 1] [4, 4] [[0, 0], [0, 0], [0, 0]]).increaseCapacity.capacities = [3, 3, 2] := by
  decide

/-! ### the solver

`WellFormed p` is the precondition of C13: `check()` passes (positive demands and capacities, consistent
sizes), total demand ≤ total capacity, and `3·|cost| < INT_MAX` for every stored (fixed-point) cost.
The last clause is what keeps every `sendingCost_ + cost` the solver forms below the `INT_MAX` sentinel
used by `bestSink`/`updateTree` (and, in the C++, what keeps `int` arithmetic from overflowing);
`costsFromIntegers` scales float costs to `|cost| ≤ INT_MAX/(4·nbSinks)`.  The driver evaluates
`costBoundOk` on every solved instance (`bound ok`).  It cannot be dropped: `ssp_cost_bound_needed`. -/

/-- the precondition of the universal theorems, in the executable form the driver evaluates -/
def WellFormed (p : Problem) : Prop :=
  p.check = true ∧ p.totalDemand ≤ p.totalCapacity ∧ costBoundOk p = true

/-- **Feasibility of every returned plan (all inputs, any size, any costs).**  Whenever the model of
`solve()` returns a result at all — i.e. no `assert` of the code failed, no `top()` of an empty queue /
index out of range / cycle in `sinkParent_` occurred and no loop ran out of fuel — the problem data is
unchanged and the plan is feasible: *every source is fully allocated*, *no sink exceeds its capacity*
and *no allocation is negative*.
(Flow conservation: column sums = amount sent so far, row sum + `remainingCapa_` = capacity,
`remainingCapa_ ≥ 0`, both walks along `sinkParent_` end at the same root.  Non-negativity: a
successful walk visits pairwise distinct sinks, so the second walk finds each sink's row and queues
as the first walk saw them; after `emplace` the top of a queue is the old top or the new source; the
amount moved is at most the allocation of every old top and at most the free capacity at the root.) -/
theorem ssp_feasible (p q : Problem) (hc : ∀ i, 0 ≤ p.capacity i) (hd : ∀ j, 0 ≤ p.demand j)
    (h : solve p = .ok q) :
    q.capacities = p.capacities ∧ q.demands = p.demands ∧ q.costs = p.costs ∧
    Feasible p q.allocations := by
  have hnn := solve_nonneg p q h
  unfold solve at h
  split at h; · exact absurd h (by simp)
  rename_i s hs
  injection h with h; subst h
  unfold run at hs
  have hi := runSources_inv p hd _ _ _ _ (initSt_inv p hc) hs
  refine ⟨rfl, rfl, rfl, fun i j _ _ => hnn i j, fun j hj => ?_, fun i _ => ?_⟩
  · have := hi.col j
    rw [count_sorted] at this
    simp only [hj, if_true] at this
    simpa using this
  · have h1 := hi.row i
    have h2 := hi.rem i
    simp only [] at h1 h2 ⊢
    omega

/-- **Termination / no failure (all well-formed inputs, any size).**  The model of `solve()` returns a
plan: no `assert` fails (`maxSent > 0`, `remainingCapa_[snk1] == 0`, `!queues_[sink][dst].empty()`,
`sent > 0`), `top()` is never taken on an empty queue, every index is in range, `sinkParent_` is acyclic
(each walk ends within `nbSinks` steps at a sink with free capacity), and no fuelled loop runs out:
`updateTree` makes at most `nbSinks·2³¹` rounds (`#open + Σ labels` decreases, labels stay in
`[0, INT_MAX]`), `sendSource(src)` at most `demand(src)` rounds, `updateSinkQueues` at most `size` pops. -/
theorem ssp_terminates (p : Problem) (h : WellFormed p) : ∃ q, solve p = .ok q := by
  obtain ⟨q, hq, _⟩ := solve_total p h.1 h.2.1 ((costBoundOk_iff p).mp h.2.2)
  exact ⟨q, hq⟩

/-- **C13 for the solver, universally (all well-formed inputs, any size).**  `solve()` returns a plan
with the problem data unchanged in which every source is fully allocated, no sink exceeds its capacity,
no allocation is negative, *and whose total cost is minimal among all feasible plans*.  The proof
maintains the successive-shortest-path invariant (`Good` in `Proofs/TranspSsp2Inv.lean`): the lazy
priority queues of every full sink are min-heaps holding every source present in the sink with its
moving cost and a live top (libstdc++ `make_heap/push_heap/pop_heap` proved to keep the heap property and
the contents); `sendingCost_` is a dual potential — non-negative, zero on sinks with free capacity, every
source sits only in sinks that are cheapest for it w.r.t. `cost + sendingCost_` —; tree edges are tight
and `sinkParent_` is acyclic; an augmentation along the tree keeps all reduced costs non-negative, the
lazily skipped `updateTree` is justified because an edge cost that did not go up is still tight, and
`updateTree` (label-correcting search) recomputes a potential that dominates the old one.  At the end
the potentials form a certificate accepted by the verified checker `checkCert`; optimality is then
`cert_optimal` (weak duality). -/
theorem ssp_optimal (p : Problem) (h : WellFormed p) :
    ∃ q, solve p = .ok q ∧ q.capacities = p.capacities ∧ q.demands = p.demands ∧ q.costs = p.costs ∧
      Feasible p q.allocations ∧ (∃ u v, checkCert p q.allocations u v = true) ∧
      ∀ y, Feasible p y → costOf p q.allocations ≤ costOf p y := by
  obtain ⟨q, hq, h1, h2, h3, hf, u, v, hcert⟩ := solve_total p h.1 h.2.1 ((costBoundOk_iff p).mp h.2.2)
  exact ⟨q, hq, h1, h2, h3, hf, ⟨u, v, hcert⟩, (cert_optimal p q.allocations u v hcert).2⟩

/-- **The derived assignment on the solver's plan.**  For every plan returned by `solve` the
non-negativity premise of `toAssignment_argmax` holds, so `toAssignment()` gives each source a valid
sink that receives at least as much of it as every sink, and strictly more than every earlier sink. -/
theorem ssp_assignment (p q : Problem) (hc : ∀ i, 0 ≤ p.capacity i) (hd : ∀ j, 0 ≤ p.demand j)
    (h : solve p = .ok q) (src : Nat) (hs : src < q.nbSources) (hn : 0 < q.nbSinks) :
    q.toAssignment.length = q.nbSources ∧
    q.toAssignment.getD src 0 < q.nbSinks ∧
    (∀ i, i < q.nbSinks → q.allocation i src ≤ q.allocation (q.toAssignment.getD src 0) src) ∧
    (∀ i, i < q.toAssignment.getD src 0 → q.allocation i src < q.allocation (q.toAssignment.getD src 0) src) := by
  obtain ⟨e1, e2, _, hf⟩ := ssp_feasible p q hc hd h
  refine toAssignment_argmax q src hs hn (fun i hi => hf.nonneg i src ?_ ?_)
  · unfold Problem.nbSinks at hi ⊢; rw [← e1]; exact hi
  · unfold Problem.nbSources at hs ⊢; rw [← e2]; exact hs

/-- non-vacuity of `WellFormed` (3 sinks × 3 sources, one source split between two sinks; the driver's
answer is `alloc 2 1 0 | 0 1 0 | 0 0 2`), hence of `solve p = .ok q` in `ssp_feasible` -/
example : WellFormed witnessPb := witness_hyps
example : ∃ q, solve witnessPb = .ok q := ssp_terminates _ witness_hyps

/-- **The bound on the costs cannot be dropped.**  With costs beyond `INT_MAX/3` (whose sums the C++
`int` arithmetic could not even form) the `INT_MAX` sentinel of `bestSink` is passed: on this
well-formed-but-for-the-bound 2 × 1 problem the model returns the plan `[[1],[0]]` although `[[0],[1]]`
is feasible and strictly cheaper.  (Evaluated by kernel reduction.) -/
theorem ssp_cost_bound_needed :
    ∃ p q y, p.check = true ∧ p.totalDemand ≤ p.totalCapacity ∧ solve p = .ok q ∧
      Feasible p y ∧ costOf p y < costOf p q.allocations :=
  ⟨bigCostPb, _, [[0], [1]], bigCost_hyps.1, bigCost_hyps.2, bigCost_solve,
    (primalOk_iff _ _).mp bigCost_better.1, bigCost_better.2⟩

/-- **Per-instance route to optimality (any costs).**  If on an instance the driver's verdict is
`cert ok` (`certifies` holds for the plan returned by the model, which the correspondence shows to be the
C++ plan entry by entry) then that plan is feasible and of minimum cost among all feasible plans.
Subsumed by `ssp_optimal` on well-formed inputs; it remains the only statement for instances that
violate the bound on the costs. -/
theorem ssp_optimal_of_cert (p q : Problem) (h : solve p = .ok q) (hcert : certifies q q.allocations = true) :
    Feasible p q.allocations ∧ ∀ y, Feasible p y → costOf p q.allocations ≤ costOf p y := by
  have e : q = { p with allocations := q.allocations } := by
    unfold solve at h
    split at h; · exact absurd h (by simp)
    injection h with h; subst h; rfl
  have hq := certifies_optimal q q.allocations hcert
  have f : ∀ y, Feasible q y ↔ Feasible p y := by
    intro y; rw [e]
    constructor <;> (intro hh; exact ⟨hh.nonneg, hh.demand, hh.capacity⟩)
  have c : ∀ y, costOf q y = costOf p y := by intro y; rw [e]; rfl
  exact ⟨(f _).mp hq.1, fun y hy => by rw [← c, ← c]; exact hq.2 y ((f y).mpr hy)⟩

/-- non-vacuity of `ssp_optimal_of_cert` (2 sinks × 1 source, evaluated by the kernel) -/
example : ∃ p q, solve p = .ok q ∧ certifies q q.allocations = true :=
  ⟨smallPb, _, small_solve, small_cert⟩

/-! ### float costs

`TransportationProblem(capacities, demands, const std::vector<std::vector<float>>& costs)` scales the costs
to fixed point (`costsFromIntegers`); `costsFromFloats` (Model/TranspFloat.lean) is that scaling over exact
rationals with every binary64 rounding explicit, and is what `drv_C13` executes against the C++ entry by
entry.  Its domain `floatCostsOk` (decidable; the driver prints `fdomain ok`): at most `2^31` sinks, every cost
`≤ FLT_MAX` and `≥ −nbSinks·maxVal` with `maxVal = max(1e-8f, largest cost)` — in particular every finite
non-negative matrix (`float_nonneg_in_domain`).  NaN / ±inf are outside (no rational counterpart). -/

/-- every finite non-negative cost matrix (values need not even be `float`s) is in the domain -/
theorem float_nonneg_in_domain (fc : List (List Rat)) (hn : fc.length ≤ 2147483648)
    (h : ∀ r, r ∈ fc → ∀ c, c ∈ r → 0 ≤ c ∧ c ≤ fcFltMax) : floatCostsOk fc = true :=
  (floatCostsOk_iff fc).mpr (floatCostsOk_of_nonneg fc hn h)

/-- **The fixed-point scaling respects the solver's cost bound, for all float inputs of the domain.**
Every stored cost satisfies `|cost| ≤ 2^29` (so the conversion `double → int` is defined and
`3·|cost| < INT_MAX`), i.e. `costBoundOk` — the hypothesis of `ssp_optimal` that used to be checked per
instance — holds for the problem built by the float constructor.  (All three binary64 divisions of
`conversionFactor_` stay in the normal range, relative error `2^-53` each; `n·maxVal·factor ≤
INT_MAX·(1+2^-53)²/4 < 2^29`; rounding is monotone and exact on `±2^29`.) -/
theorem costsFromFloats_bound (caps dems : List Int) (fc : List (List Rat)) (h : floatCostsOk fc = true) :
    costBoundOk (Problem.makeFloat caps dems fc) = true ∧
    ∀ i j, -536870912 ≤ (Problem.makeFloat caps dems fc).cost i j ∧
      (Problem.makeFloat caps dems fc).cost i j ≤ 536870912 := by
  have hf := (floatCostsOk_iff fc).mp h
  refine ⟨(costBoundOk_iff _).mpr (costsFromFloats_costBound caps dems fc hf), fun i j => ?_⟩
  have hcost : (Problem.makeFloat caps dems fc).cost i j = get2 (costsFromFloats fc) i j := rfl
  rw [hcost]
  by_cases hn1 : 1 ≤ fc.length
  · obtain ⟨a, b, _⟩ := costsFromFloats_entry fc hf hn1 i j
    exact ⟨a, b⟩
  · have : fc = [] := List.length_eq_zero_iff.mp (by omega)
    subst this
    have : get2 (costsFromFloats []) i j = 0 := by simp [costsFromFloats, scaleRows, get2]
    rw [this]; constructor <;> omega

/-- non-vacuity: a 2 × 2 matrix with a zero, a tie-free non-dyadic spread and a negative entry -/
example : floatCostsOk [[0, 1 / 3], [-(1 / 2), 1000000]] = true := by decide +kernel

/-- **C13 for the float constructor, universally.**  For every cost matrix of the domain, if `check()`
passes and the demand does not exceed the capacity, `solve()` on the problem built by the float constructor
returns a feasible plan of minimum total cost w.r.t. the stored (scaled integer) costs. -/
theorem ssp_optimal_float (caps dems : List Int) (fc : List (List Rat)) (hf : floatCostsOk fc = true)
    (hc : (Problem.makeFloat caps dems fc).check = true) (hd : dems.sum ≤ caps.sum) :
    ∃ q, solve (Problem.makeFloat caps dems fc) = .ok q ∧ q.capacities = caps ∧ q.demands = dems ∧
      q.costs = costsFromFloats fc ∧ Feasible (Problem.makeFloat caps dems fc) q.allocations ∧
      ∀ y, Feasible (Problem.makeFloat caps dems fc) y →
        costOf (Problem.makeFloat caps dems fc) q.allocations ≤ costOf (Problem.makeFloat caps dems fc) y := by
  obtain ⟨q, hq, h1, h2, h3, h4, _, h6⟩ :=
    ssp_optimal (Problem.makeFloat caps dems fc) ⟨hc, hd, (costsFromFloats_bound caps dems fc hf).1⟩
  exact ⟨q, hq, h1, h2, h3, h4, h6⟩

/-- non-vacuity of `ssp_optimal_float`'s hypotheses (2 sinks × 2 sources) -/
example : floatCostsOk [[0, 1 / 3], [1 / 2, 1 / 4]] = true ∧
    (Problem.makeFloat [2, 2] [1, 2] [[0, 1 / 3], [1 / 2, 1 / 4]]).check = true := by decide +kernel

/-- **The call sequence of `DensityLegalizer::reoptimize`** (`TransportationProblem solver(capacities, demands,
costs /* float */); solver.increaseCapacity(); solver.solve();`): for every cost matrix of the domain on which
the constructor's `check()` passes and there is a sink, `increaseCapacity()` makes the capacity cover the
demand, leaves the scaled costs alone, and `solve()` then returns a feasible plan of minimum cost w.r.t. them
— no further hypothesis. -/
theorem ssp_optimal_float_inc (caps dems : List Int) (fc : List (List Rat)) (hf : floatCostsOk fc = true)
    (hc : (Problem.makeFloat caps dems fc).check = true) (hn : 0 < caps.length) :
    (Problem.makeFloat caps dems fc).increaseCapacity.costs = costsFromFloats fc ∧
    ∃ q, solve (Problem.makeFloat caps dems fc).increaseCapacity = .ok q ∧
      Feasible (Problem.makeFloat caps dems fc).increaseCapacity q.allocations ∧
      ∀ y, Feasible (Problem.makeFloat caps dems fc).increaseCapacity y →
        costOf (Problem.makeFloat caps dems fc).increaseCapacity q.allocations
          ≤ costOf (Problem.makeFloat caps dems fc).increaseCapacity y := by
  have hn' : 0 < (Problem.makeFloat caps dems fc).nbSinks := hn
  obtain ⟨hcov, hmono, hns, hdems, hcosts, hallocs, _⟩ := increaseCapacity_covers (Problem.makeFloat caps dems fc) hn'
  obtain ⟨hcap, _⟩ := check_facts _ hc
  have hsrc : (Problem.makeFloat caps dems fc).increaseCapacity.nbSources = (Problem.makeFloat caps dems fc).nbSources := by
    unfold Problem.nbSources; rw [hdems]
  have hchk : (Problem.makeFloat caps dems fc).increaseCapacity.check = true := by
    have h := hc
    unfold Problem.check at h ⊢
    simp only [Bool.and_eq_true] at h ⊢
    obtain ⟨⟨⟨⟨⟨h1, _⟩, h3⟩, h4⟩, h5⟩, h6⟩ := h
    rw [hdems, hcosts, hallocs, hns, hsrc]
    refine ⟨⟨⟨⟨⟨h1, ?_⟩, h3⟩, h4⟩, h5⟩, h6⟩
    rw [List.all_eq_true]
    intro x hx
    obtain ⟨i, hi, e⟩ := List.getElem_of_mem hx
    have hi' : i < (Problem.makeFloat caps dems fc).nbSinks := by
      have : (Problem.makeFloat caps dems fc).increaseCapacity.nbSinks
          = (Problem.makeFloat caps dems fc).increaseCapacity.capacities.length := rfl
      omega
    have h1 := hcap i hi'
    have h2 := hmono i
    have e' : (Problem.makeFloat caps dems fc).increaseCapacity.capacity i = x := by
      unfold Problem.capacity
      rw [List.getD_eq_getElem?_getD, List.getElem?_eq_getElem hi, e]; rfl
    simp only [decide_eq_true_eq]
    omega
  have hcb : costBoundOk (Problem.makeFloat caps dems fc).increaseCapacity = true := by
    rw [costBoundOk_iff]
    intro i j hi hj
    have hb := (costBoundOk_iff _).mp (costsFromFloats_bound caps dems fc hf).1 i j (by rw [← hns]; exact hi)
      (by rw [← hsrc]; exact hj)
    unfold Problem.cost at hb ⊢
    rw [hcosts]; exact hb
  obtain ⟨q, hq, _, _, _, hfe, _, hopt⟩ := ssp_optimal _ ⟨hchk, hcov, hcb⟩
  exact ⟨hcosts, q, hq, hfe, hopt⟩

/-- **Optimality in the scaled costs vs. the original real-valued costs.**  The plan returned by `solve()`
is optimal for the stored integers `round(c·factor)`, not for the `c` themselves; each stored cost is within
`δ = 1/2 + 2^-24` of `c·factor` (`1/2` from `std::round`, `2^-24` from the binary64 product of a value below
`2^29`) and a feasible plan moves exactly `D = Σ demands` units.  Hence, in the exact real-valued objective
`realCostOf = Σ c[i][j]·x[i][j]`, the returned plan is within `2·δ·D/factor` of *every* feasible plan, and,
since `factor ≥ INT_MAX/(4·n·maxVal)·(1−2^-53)²`, within `2·D·(3/4)·(4·n·maxVal/INT_MAX)` — the tolerance the
direct oracle of `harness/h_C13.cpp` applies against the long-double brute-force optimum.  The gap is a
granularity effect only: it is at most `6·n/INT_MAX` of the trivial cost scale `D·maxVal`; plans whose real
costs differ by less may be ranked either way. -/
theorem float_optimality_gap (caps dems : List Int) (fc : List (List Rat)) (hf : floatCostsOk fc = true)
    (hn1 : 1 ≤ fc.length) (hc : (Problem.makeFloat caps dems fc).check = true) (hd : dems.sum ≤ caps.sum) :
    ∃ q, solve (Problem.makeFloat caps dems fc) = .ok q ∧
      ∀ y, Feasible (Problem.makeFloat caps dems fc) y →
        realCostOf fc caps.length dems.length q.allocations
          ≤ realCostOf fc caps.length dems.length y
            + 2 * fcDelta * ((dems.sum : Int) : Rat) / fcFactor (fcMaxVal fc) fc.length ∧
        realCostOf fc caps.length dems.length q.allocations
          ≤ realCostOf fc caps.length dems.length y
            + 2 * ((dems.sum : Int) : Rat) * (3 / 4) * (4 * (fc.length : Rat) * fcMaxVal fc / 2147483647) := by
  obtain ⟨q, hq, _, _, _, hfe, hopt⟩ := ssp_optimal_float caps dems fc hf hc hd
  have hF := (floatCostsOk_iff fc).mp hf
  have hD : 0 ≤ dems.sum := by
    have hall : ∀ d, d ∈ dems → 0 < d := by
      have h1 : (Problem.makeFloat caps dems fc).demands = dems := rfl
      simp only [Problem.check, Bool.and_eq_true, List.all_eq_true, decide_eq_true_eq, h1] at hc
      exact hc.1.1.1.1.1
    exact int_list_sum_nonneg dems (fun d hd' => le_of_lt (hall d hd'))
  refine ⟨q, hq, fun y hy => ⟨?_, ?_⟩⟩
  · exact float_gap caps dems fc hF hn1 _ y hfe hy (hopt y hy)
  · exact float_gap_ideal caps dems fc hF hn1 hD _ y hfe hy (hopt y hy)

/-- **Exact optimality in the real-valued costs does not hold** (so `float_optimality_gap` is the right shape of
statement): 3 sinks × 1 source with costs `3, 2, 2^40`.  `maxVal = 2^40` makes the factor `≈ 2^-11.6`, the costs
`3` and `2` are both stored as `0`, and `solve()` (evaluated by the kernel) puts the source into sink 0 at real
cost `3` although sink 1 costs `2`.  The difference `1` is within the gap bound `2·D·δ/factor ≈ 3073`. -/
theorem float_exact_optimality_fails :
    ∃ (fc : List (List Rat)) (q : Problem) (y : Mat), floatCostsOk fc = true ∧
      (Problem.makeFloat [1, 1, 1] [1] fc).check = true ∧ solve (Problem.makeFloat [1, 1, 1] [1] fc) = .ok q ∧
      primalOk (Problem.makeFloat [1, 1, 1] [1] fc) y = true ∧
      realCostOf fc 3 1 y < realCostOf fc 3 1 q.allocations :=
  ⟨[[3], [2], [1099511627776]],
   { Problem.makeFloat [1, 1, 1] [1] [[3], [2], [1099511627776]] with allocations := [[1], [0], [0]] },
   [[0], [1], [0]], by decide +kernel⟩

/-- **The lower bound on the costs cannot be dropped.**  `maxVal` ignores negative costs, so a finite
negative cost of large magnitude is scaled beyond the solver's bound: for the 1 × 2 matrix `[[1, −2]]`
(`maxVal = 1`, factor `INT_MAX/4`) the stored cost of `−2` is `−1073741824`, `3·|cost| > INT_MAX`.
(The conversion to `int` is still defined there; it becomes undefined from `−4·nbSinks·maxVal` on.) -/
theorem float_precondition_needed :
    ∃ fc : List (List Rat), (∀ r, r ∈ fc → ∀ c, c ∈ r → -fcFltMax ≤ c ∧ c ≤ fcFltMax) ∧
      floatCostsOk fc = false ∧ costBoundOk (Problem.makeFloat [2] [1, 1] fc) = false :=
  ⟨[[1, -2]], by decide +kernel, by decide +kernel, by decide +kernel⟩

/-- **One scaling for C07 and C13.**  C07's fault-checked model of the same function (`costsFromIntegersC`,
which reports an out-of-range `double → int` conversion as a fault and is tied to the C++ by `drv_C07`) returns
exactly `costsFromFloats` whenever it reports no fault. -/
theorem float_model_agrees_with_checked_model (fc : List (List Rat)) (m : Mat)
    (h : costsFromIntegersC fc = .ok m) : m = costsFromFloats fc :=
  costsFromIntegersC_eq fc m h

end ColoVerif.C13
