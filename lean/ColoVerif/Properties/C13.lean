import ColoVerif.Model.TranspCert
namespace ColoVerif.C13
open ColoVerif.Transp

end ColoVerif.C13
