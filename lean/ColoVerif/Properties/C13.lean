/-
C13 — the transportation solver returns a feasible minimum-cost plan; `toAssignment` gives each
source the sink receiving most of it.

All statements are about `ColoVerif.Transp` (Model/Transp.lean, Model/TranspCert.lean), the
definitions `drv_C13` executes against the C++ (`harness/h_C13.cpp`).
-/
import ColoVerif.Proofs.TranspCert
import ColoVerif.Proofs.Transp
import ColoVerif.Proofs.TranspSsp

namespace ColoVerif.C13
open ColoVerif.Transp

/-- **Optimality from a certificate (any size).**  If `checkCert` accepts the plan `x` with the
potentials `u` (sources), `v` (sinks), then `x` is feasible and no feasible plan is cheaper
(weak duality + complementary slackness; costs are the problem's integer costs). -/
theorem cert_optimal (p : Problem) (x : Mat) (u v : List Int) (h : checkCert p x u v = true) :
    Feasible p x ∧ ∀ y, Feasible p y → costOf p x ≤ costOf p y := by
  simp only [checkCert, Bool.and_eq_true] at h
  obtain ⟨⟨hp, hd⟩, hs⟩ := h
  have hx := (primalOk_iff p x).mp hp
  refine ⟨hx, fun y hy => ?_⟩
  rw [slack_tight p x u v hx hs]
  exact weak_duality p y u v hy hd

/-- what the driver prints as `cert ok`: the computed potentials are accepted, hence optimal -/
theorem certifies_optimal (p : Problem) (x : Mat) (h : certifies p x = true) :
    Feasible p x ∧ ∀ y, Feasible p y → costOf p x ≤ costOf p y := by
  simp only [certifies, Bool.and_eq_true] at h
  exact cert_optimal p x _ _ h.2

/-- non-vacuity of `cert_optimal`: a 2 sinks × 2 sources plan with its certificate -/
example : checkCert (Problem.make [2, 2] [2, 1] [[0, 3], [1, 1]]) [[2, 0], [0, 1]] [0, 1] [0, 0] = true := by
  decide

/-- **`toAssignment` = argmax with the code's tie-breaking (first maximum).**  For a plan without
negative entries in column `src`, the assigned sink is a valid index, receives at least as much of
`src` as every sink, and strictly more than every earlier sink. -/
theorem toAssignment_argmax (p : Problem) (src : Nat) (hs : src < p.nbSources) (hn : 0 < p.nbSinks)
    (h0 : ∀ i, i < p.nbSinks → 0 ≤ p.allocation i src) :
    p.toAssignment.length = p.nbSources ∧
    p.toAssignment.getD src 0 < p.nbSinks ∧
    (∀ i, i < p.nbSinks → p.allocation i src ≤ p.allocation (p.toAssignment.getD src 0) src) ∧
    (∀ i, i < p.toAssignment.getD src 0 → p.allocation i src < p.allocation (p.toAssignment.getD src 0) src) := by
  have e := toAssignmentOf_getD p.allocations p.nbSinks p.nbSources src hs
  have s := argmaxFrom_spec p.allocations src p.nbSinks hn h0
  refine ⟨by simp [Problem.toAssignment, Problem.toAssignmentOf], ?_⟩
  unfold Problem.toAssignment Problem.allocation
  rw [e]
  exact s

example : (Problem.mk [3, 3] [2, 2] [[0, 0], [0, 0]] [[1, 2], [1, 0]]).toAssignment = [0, 0] := by decide

/-- **`increaseCapacity` covers the demand.**  Afterwards total capacity ≥ total demand, no capacity
decreased, nothing else changed; when capacity was short the problem becomes exactly balanced. -/
theorem increaseCapacity_covers (p : Problem) (hn : 0 < p.nbSinks) :
    p.increaseCapacity.totalDemand ≤ p.increaseCapacity.totalCapacity ∧
    (∀ i, p.capacity i ≤ p.increaseCapacity.capacity i) ∧
    p.increaseCapacity.nbSinks = p.nbSinks ∧
    p.increaseCapacity.demands = p.demands ∧ p.increaseCapacity.costs = p.costs ∧
    p.increaseCapacity.allocations = p.allocations ∧
    (p.totalCapacity < p.totalDemand → p.increaseCapacity.totalCapacity = p.totalDemand) := by
  unfold Problem.increaseCapacity
  by_cases hm : p.missing ≤ 0
  · rw [if_pos hm]
    unfold Problem.missing at hm
    refine ⟨by omega, fun _ => le_refl _, rfl, rfl, rfl, rfl, fun h => by omega⟩
  · rw [if_neg hm]
    have hpos : 0 < p.missing := by omega
    obtain ⟨ha, hr0, hrn⟩ := tdiv_facts p.missing p.nbSinks hpos hn
    have hsum := incCaps_sum p.added (p.missing - p.added * (p.nbSinks : Int)) p.capacities 0
    have hcnt : min (max (p.missing - p.added * (p.nbSinks : Int) - ((0 : Nat) : Int)) 0) (p.capacities.length : Int)
        = p.missing - p.added * (p.nbSinks : Int) := by
      unfold Problem.added Problem.nbSinks at *
      push_cast; omega
    rw [hcnt] at hsum
    have htot : (Problem.incCaps p.added (p.missing - p.added * (p.nbSinks : Int)) 0 p.capacities).sum
        = p.totalDemand := by
      rw [hsum]; unfold Problem.missing Problem.totalCapacity Problem.nbSinks; ring
    refine ⟨?_, ?_, ?_, rfl, rfl, rfl, fun _ => ?_⟩
    · simp only [Problem.totalDemand, Problem.totalCapacity] at htot ⊢
      omega
    · intro i
      exact incCaps_getD _ _ ha p.capacities 0 i
    · simp [Problem.nbSinks, incCaps_length]
    · simpa [Problem.totalCapacity] using htot

example : (Problem.make [1, 1, 1] [4, 4] [[0, 0], [0, 0], [0, 0]]).increaseCapacity.capacities = [3, 3, 2] := by
  decide

/-! ### the solver -/

/-- **Universal statement of feasibility + termination (not proved for all inputs).**  On every
well-formed problem (`check()` passes) with total demand ≤ total capacity the model of `solve()` ends
without running out of fuel, without a failed `assert` and without undefined behaviour, and its plan
is feasible. -/
def ssp_feasible_full_statement : Prop :=
  ∀ p : Problem, p.check = true → p.totalDemand ≤ p.totalCapacity →
    ∃ q, solve p = .ok q ∧ Feasible q q.allocations

/-- the termination half on its own: every fuelled loop of the model ends before its fuel does -/
def ssp_terminates_full_statement : Prop :=
  ∀ p : Problem, p.check = true → p.totalDemand ≤ p.totalCapacity → ∃ q, solve p = .ok q

/-- **Flow conservation of `sendSource` (all inputs, any size).**  Whenever the model of `solve()`
returns a result at all — i.e. no `assert` of the code failed, no `top()` of an empty queue / index
out of range / cycle in `sinkParent_` occurred and no loop ran out of fuel — the problem data is
unchanged, *every source is fully allocated* and *no sink exceeds its capacity*.
(Invariant: column sums = amount sent so far, row sum + `remainingCapa_` = capacity,
`remainingCapa_ ≥ 0`; the amount moved along the parent chain is at most the free capacity at the
root, and both walks along `sinkParent_` end at the same root.)

Missing w.r.t. `ssp_feasible_full_statement`: (1) non-negativity of every entry — it needs the lazy
priority-queue invariant (`top()` has a positive allocation, at least the amount moved) and the
correctness of the libstdc++ heap operations; (2) that `solve` returns `.ok` (termination of
`updateTree`, acyclicity of `sinkParent_`, the `assert`s).  Both are established per explored
instance instead: the driver's answer `status ok` / `cert ok` (`checkCert` includes non-negativity)
is compared with the real code on every case, and the direct oracle checks them on the C++ output. -/
theorem ssp_feasible_partial (p q : Problem) (hc : ∀ i, 0 ≤ p.capacity i) (hd : ∀ j, 0 ≤ p.demand j)
    (h : solve p = .ok q) :
    q.capacities = p.capacities ∧ q.demands = p.demands ∧ q.costs = p.costs ∧
    (∀ j, j < p.nbSources → colSum q.allocations p.nbSinks j = p.demand j) ∧
    (∀ i, rowSum q.allocations p.nbSources i ≤ p.capacity i) := by
  unfold solve at h
  split at h; · exact absurd h (by simp)
  rename_i s hs
  injection h with h; subst h
  unfold run at hs
  have hi := runSources_inv p hd _ _ _ _ (initSt_inv p hc) hs
  refine ⟨rfl, rfl, rfl, fun j hj => ?_, fun i => ?_⟩
  · have := hi.col j
    rw [count_sorted] at this
    simp only [hj, if_true] at this
    simpa using this
  · have h1 := hi.row i
    have h2 := hi.rem i
    simp only [] at h1 h2 ⊢
    omega

/- Non-vacuity of `solve p = .ok q`: `solve` uses `List.mergeSort` and the well-founded `pushHeapLoop`,
which the kernel's `decide` does not unfold; the compiled driver answers `status ok` on every one of
the explored instances (≈70 000 per quick run, see evidence/C13.json). -/

/-- **Universal optimality (not proved for all inputs).** -/
def ssp_optimal_full_statement : Prop :=
  ∀ p : Problem, p.check = true → p.totalDemand ≤ p.totalCapacity →
    ∃ q, solve p = .ok q ∧ Feasible q q.allocations ∧ ∀ y, Feasible q y → costOf q q.allocations ≤ costOf q y

/-- **Per-instance route to optimality.**  If on an instance the driver's verdict is `cert ok`
(`certifies` holds for the plan returned by the model, which the correspondence shows to be the
C++ plan entry by entry) then that plan is feasible — non-negative included — and of minimum cost
among *all* feasible plans.  Optimality of every explored instance follows from this theorem, not
from comparison with another solver.  Missing w.r.t. `ssp_optimal_full_statement`: that
`certifies` holds for every input (the successive-shortest-path invariant: reduced costs stay
non-negative on the residual graph). -/
theorem ssp_optimal_partial (p q : Problem) (h : solve p = .ok q) (hcert : certifies q q.allocations = true) :
    Feasible p q.allocations ∧ ∀ y, Feasible p y → costOf p q.allocations ≤ costOf p y := by
  have e : q = { p with allocations := q.allocations } := by
    unfold solve at h
    split at h; · exact absurd h (by simp)
    injection h with h; subst h; rfl
  have hq := certifies_optimal q q.allocations hcert
  have f : ∀ y, Feasible q y ↔ Feasible p y := by
    intro y; rw [e]
    constructor <;> (intro hh; exact ⟨hh.nonneg, hh.demand, hh.capacity⟩)
  have c : ∀ y, costOf q y = costOf p y := by intro y; rw [e]; rfl
  exact ⟨(f _).mp hq.1, fun y hy => by rw [← c, ← c]; exact hq.2 y ((f y).mpr hy)⟩

end ColoVerif.C13
