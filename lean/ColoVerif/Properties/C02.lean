import ColoVerif.Proofs.DetPlaceFrame
import ColoVerif.Model.LegacyDetPlace
/-!
# C02 — detailed placement keeps the placement legal at every exposed state

Model: `ColoVerif.DetPlace` (Model/DetPlace.lean), the doubly linked row lists of
`DetailedPlacement` with the primitive moves of `DetailedPlacer` / `RowReordering`; tied to the C++
by the primitives stream and the history replay of `harness/h_C02.cpp`.

`Inv` = every test of `DetailedPlacement::check()` + symmetry of the links + orientation ≠ INVALID
+ y on the row + positive widths of optimised cells; it is decidable and evaluated by the driver on
every constructed instance (`init ok`).
-/
namespace ColoVerif.C02
open ColoVerif ColoVerif.DetPlace ColoVerif.DetPlace.State

/-- Clause "the state built from a circuit is consistent", proved part: whatever
`fromIspdCircuit` returns passed the model of the real `check()` (the constructor ends with it).
Missing for the full statement below: that the links written by the constructor are symmetric and
y/width/orientation are as `Inv` demands for every circuit of the domain (the driver evaluates the
decidable `Inv` on every explored instance instead). -/
theorem inv_init_partial (c : Circuit) (s : State) (e : fromIspdCircuit c = .ok s) : s.check = true := by
  unfold fromIspdCircuit at e
  split at e
  · cases e
  · unfold construct at e
    simp only at e
    split at e
    · cases e
    · split at e
      · cases e
      · split at e
        · rename_i hc; injection e with e; exact e ▸ hc
        · cases e

/-- full strength of the construction clause (not proved; `Dom` = movable cells have positive
placed width and a valid orientation) -/
def inv_init_full_statement : Prop :=
  ∀ (c : Circuit) (s : State),
    (∀ cl ∈ c.cells, ¬ cl.fixed → 0 < cl.placedWidth ∧ cl.orient ≠ Orient.INVALID) →
    fromIspdCircuit c = .ok s → Inv s ∧ s.allPlaced = true

/-- `unplace` of a placed cell keeps the invariant (pointer surgery included) -/
theorem inv_unplace {s : State} (h : Inv s) {c : Int} (hc : s.validCell c) (hp : s.row c ≠ -1) :
    Inv (s.unplace c) := unplace_inv h hc hp

/-- `place` of an unplaced optimised cell at a site of a valid row keeps the invariant whenever the
real `canPlace` test lets it through -/
theorem inv_place {s t : State} (h : Inv s) {c r p x : Int} (ok : PlaceOk s c r p)
    (e : s.place c r p x = .ok t) : Inv t := place_inv h ok e

/-- `swap` (all three branches: c2 before c1, c1 before c2, apart / different rows) -/
theorem inv_step_swap {s t : State} (h : Inv s) {c1 c2 : Int} (e : s.step (.swap c1 c2) = .ok t) : Inv t :=
  step_inv h e

/-- `insert` with the integer midpoint `Int.tdiv` -/
theorem inv_step_insert {s t : State} (h : Inv s) {c r p : Int} (e : s.step (.insert c r p) = .ok t) : Inv t :=
  step_inv h e

/-- `shift`: any simultaneous x update that the model's re-check accepts (the code trusts lemon) -/
theorem inv_step_shift {s t : State} (h : Inv s) {mv : List (Int × Int)} (e : s.step (.shift mv) = .ok t) : Inv t :=
  step_inv h e

/-- `RowReordering::writeback` with arbitrary regions, orders and positions -/
theorem inv_step_reorder {s t : State} (h : Inv s) {cells : List Int} {regions : List Region}
    (e : s.step (.reorder cells regions) = .ok t) : Inv t := step_inv h e

/-- every primitive move keeps the invariant -/
theorem inv_step {s t : State} (h : Inv s) {op : Op} (e : s.step op = .ok t) : Inv t := step_inv h e

/-- every state reachable by any sequence of moves (with arbitrary arguments) satisfies `Inv` -/
theorem inv_run {s t : State} (h : Inv s) {ops : List Op} (e : s.run ops = .ok t) : Inv t := run_inv h e

/-- cells that detailed placement does not optimise (width −1: fixed cells, multi-row cells,
macros) keep x, y and orientation along every history; widths never change -/
theorem ignored_frame {s t : State} {ops : List Op} (e : s.run ops = .ok t) :
    t.width = s.width ∧ ∀ d, s.isIgnored d = true → t.x d = s.x d ∧ t.y d = s.y d ∧ t.orient d = s.orient d := by
  have := run_frame e
  exact ⟨this.1, fun d hd => this.2 d (by simpa [isIgnored] using hd)⟩

/-- Legality read off the invariant, proved part: a placed cell is an optimised cell of positive
width, sits at its row's y in an allowed row with a valid orientation, does not overlap its
predecessor or successor and the first / last cell of a row is inside the row. -/
theorem inv_legal_partial {s : State} (h : Inv s) {c : Int} (hc : s.validCell c) (hp : s.row c ≠ -1) :
    s.validRow (s.row c) ∧ 0 < s.width c ∧ s.y c = s.rowY (s.row c) ∧ s.orient c ≠ Orient.INVALID ∧
    s.boundaryBefore c ≤ s.x c ∧ s.x c + s.width c ≤ s.boundaryAfter c := by
  have L := h.link hc
  have C := h.cell hc
  unfold LinkOk at L
  unfold CellOk at C
  have C2 := C.2 hp
  have C1 := C.1 C2.1
  refine ⟨h.placed_row hc hp, C1.2, C2.2.2.2, C1.1, ?_, ?_⟩
  · unfold boundaryBefore
    split
    · rename_i h1; exact ((L.2.2 hp).2.1 h1).2
    · rename_i h1; exact ((L.2.2 hp).1 h1).2.2.1
  · unfold boundaryAfter
    split
    · rename_i h1; exact ((L.2.2 hp).2.2.2 h1).2
    · rename_i h1; exact ((L.2.2 hp).2.2.1 h1).2.2.1

/-- full strength of the legality clause (not proved: needs the transitive order along the links —
any two cells of a row, not only neighbours — and the row ends for inner cells; supported by the
direct oracle `vc::checkLegal` in every callback and by `inv_legal_partial`) -/
def inv_legal_full_statement : Prop :=
  ∀ s : State, Inv s → s.allPlaced = true →
    ∀ c d : Int, s.validCell c → s.validCell d → c ≠ d → s.row c ≠ -1 → s.row d = s.row c →
      (s.x c + s.width c ≤ s.x d ∨ s.x d + s.width d ≤ s.x c) ∧
      s.rowMinX (s.row c) ≤ s.x c ∧ s.x c + s.width c ≤ s.rowMaxX (s.row c)

/-- the arithmetic fact behind `positionOnInsert` / `positionsOnSwap`: the C++ midpoint
(truncating division) of a site that is wide enough lies inside the site -/
theorem midpoint_in_site (b e w : Int) (h : b ≤ e - w) : b ≤ (b + e - w).tdiv 2 ∧ (b + e - w).tdiv 2 + w ≤ e := by
  rcases Int.le_total 0 (b + e - w) with hs | hs
  · rw [Int.tdiv_eq_ediv_of_nonneg hs]; omega
  · have e1 : (b + e - w).tdiv 2 = -((-(b + e - w)) / 2) := by
      have := Int.neg_tdiv (-(b + e - w)) 2
      rw [Int.neg_neg] at this
      rw [this, Int.tdiv_eq_ediv_of_nonneg (by omega)]
    rw [e1]; omega

/-- F2 on the pre-fix constructor (kept in Model/LegacyDetPlace.lean): it throws on a legal placement
over a fixed non-obstruction cell; the repaired one does not (corpus/C02/w1.txt replays it on the code) -/
theorem legacy_F2_witness :
    isOk (fromIspdCircuitLegacy witnessF2) = false ∧ isOk (fromIspdCircuit witnessF2) = true := legacy_F2_throws

/-- F18 on the pre-fix constructor: a turned two-row cell is optimised as a 4-wide single-row cell;
the repaired one ignores it (corpus/C02/w2.txt) -/
theorem legacy_F18_witness :
    (match fromIspdCircuitLegacy witnessF18 with | .ok s => s.width 0 | .error _ => 0) = 4 ∧
    (match fromIspdCircuit witnessF18 with | .ok s => s.width 0 | .error _ => 0) = -1 :=
  legacy_F18_optimises_two_row_cell

/-! non-vacuity: a concrete two-row state built by the model's constructor satisfies `Inv`, and a
history of all four kinds of moves runs on it -/
def tiny : Circuit :=
  { cells := [⟨2, 2, 0, 0, .N, false, false, .ANY⟩, ⟨3, 2, 4, 0, .N, false, false, .ANY⟩,
              ⟨2, 2, 1, 2, .FS, false, false, .SAME⟩, ⟨2, 4, 8, 0, .N, false, false, .ANY⟩],
    nets := [],
    rows := [⟨⟨0, 10, 0, 2⟩, .N⟩, ⟨⟨0, 10, 2, 4⟩, .FS⟩] }

def tinyOps : List Op :=
  [.swap 0 1, .insert 2 0 0, .shift [(2, 6)], .reorder [1, 0] [⟨0, -1, [(0, 0), (1, 2)]⟩]]

example : (match fromIspdCircuit tiny with
           | .ok s => decide (Inv s) && s.isIgnored 3 &&
                      (match s.run tinyOps with | .ok t => decide (Inv t) | .error _ => false)
           | .error _ => false) = true := by decide

end ColoVerif.C02
