import ColoVerif.Model.DetPlace
namespace ColoVerif.C02
open ColoVerif.DetPlace

theorem upd_read {α : Type} (f : Int → α) (i : Int) (a : α) : upd f i a i = a := upd_same f i a

end ColoVerif.C02
