import ColoVerif.Proofs.DetPlaceFrame
import ColoVerif.Proofs.DetPlaceInit
import ColoVerif.Proofs.DetPlaceInitOk
import ColoVerif.Proofs.DetPlaceLegal
import ColoVerif.Proofs.DetPlaceCan
import ColoVerif.Proofs.DetPlaceAfterLegalize
import ColoVerif.Model.LegacyLegalize
import ColoVerif.Model.LegacyDetPlace
import ColoVerif.Proofs.GeomTie
/-!
# C02 — detailed placement keeps the placement legal at every exposed state

Model: `ColoVerif.DetPlace` (Model/DetPlace.lean), the doubly linked row lists of
`DetailedPlacement` with the primitive moves of `DetailedPlacer` / `RowReordering`; tied to the C++
by the primitives stream and the history replay of `harness/h_C02.cpp`.

`Inv` = every test of `DetailedPlacement::check()` + symmetry of the links + orientation ≠ INVALID
+ y on the row + positive widths of optimised cells; it is decidable and the driver evaluates it
(`inv` → `inv true`) on every constructed instance and after every primitive / replayed move.

Theorems: `inv_init` (constructor ⇒ `Inv`, all placed), `fromCircuit_ok_of_legal` (constructor does not
fail on a legal circuit), `inv_step*` / `inv_run` (every move keeps `Inv`), `swap_never_throws` /
`insert_never_throws` (feasible moves are carried out), `ignored_frame`, `links_wf`, `inv_legal` (every state
reached from a legal circuit exports a legal circuit, C01's `Legal`).  `Legalize.DomL` / `LegalL` are
the verbatim copies of `C01.Dom` / `C01.Legal` (tied by `rfl` in Properties/C01.lean).
Helper lemmas: Proofs/DetPlace{Inv,Frame,Init,Rows,InitOk,Legal,Can}.lean.
-/
namespace ColoVerif.C02
open ColoVerif ColoVerif.DetPlace ColoVerif.DetPlace.State

/-- **Construction (full).**  For every circuit whose movable cells have a positive placed width and
a valid orientation: whatever `DetailedPlacement::fromIspdCircuit` returns satisfies `Inv` — the
links written by the constructor are symmetric, first/last cells are right, every placed cell is
inside its row segment at the row's y, in x order with its neighbours, in an allowed row with the
orientation the row demands — every optimised cell is placed, and the real `check()` passes.
(Proofs/DetPlaceInit.lean: `linkRow` establishes a `Chain` per row; the per-row cell lists of
`assignCells` are duplicate-free and disjoint, so later rows do not disturb earlier ones; geometry
from `locate`; the orientation facts are the ones the final `check()` tests along `rowCells`.) -/
theorem inv_init (c : Circuit) (s : State)
    (hd : ∀ cl ∈ c.cells, ¬ cl.fixed → 0 < cl.placedWidth ∧ cl.orient ≠ Orient.INVALID)
    (e : fromIspdCircuit c = .ok s) : Inv s ∧ s.allPlaced = true ∧ s.check = true := by
  obtain ⟨h1, h2⟩ := fromIspdCircuit_inv hd e
  obtain ⟨_, _, _, B⟩ := fromIspdCircuit_built e
  exact ⟨h1, h2, B.check⟩

/-- **"It never fails on a circuit that legalization alone accepts", constructor part (full).**
`Legalize.DomL` / `Legalize.LegalL` are C01's domain and legality (Properties/C01.lean ties
`C01.Dom = DomL`, `C01.Legal = LegalL` by `rfl`; `C01.legalize_legal` proves `LegalL` of everything
legalization returns).  `OrientLegal` is the orientation side of legality, which C01's `Legal` does
not contain (C04): a movable one-row cell lying in a row has the orientation this row demands for
its polarity.  Under these, `DetailedPlacement::fromIspdCircuit` — which looks every cell up in the
sorted free row segments, rejects overlaps and runs `check()` — returns normally.
(Proofs/DetPlaceRows.lean, DetPlaceInitOk.lean: a cell inside a free segment of `computeRows()` that
misses the multi-row cells lies in a free segment of `computeRows(multi-row cells)`; `upper_bound` on
the sorted disjoint segments finds it; cells sorted by x in one segment do not overlap because their
placements are disjoint; `check()` follows from the linking and `OrientLegal`.) -/
theorem fromCircuit_ok_of_legal (c : Circuit) (hd : Legalize.DomL c) (hl : Legalize.LegalL c) (ho : OrientLegal c) :
    ∃ s, fromIspdCircuit c = .ok s := fromIspdCircuit_ok c hd hl ho

/-- … and the state it returns satisfies `Inv` with every optimised cell placed (`inv_init`), when no
movable cell carries the INVALID orientation -/
theorem init_of_legal (c : Circuit) (hd : Legalize.DomL c) (hl : Legalize.LegalL c) (ho : OrientLegal c)
    (hv : ∀ cl ∈ c.cells, ¬ cl.fixed → cl.orient ≠ Orient.INVALID) :
    ∃ s, fromIspdCircuit c = .ok s ∧ Inv s ∧ s.allPlaced = true := by
  obtain ⟨s, e⟩ := fromIspdCircuit_ok c hd hl ho
  obtain ⟨h1, h2, _⟩ := inv_init c s (fun cl hcl hf => ⟨(hd.2.1 cl hcl (by simpa using hf)).1, hv cl hcl hf⟩) e
  exact ⟨s, e, h1, h2⟩

/-- **After a successful legalization the constructor never fails (full, no side condition).**  For
every circuit of C01's domain, every rounding of the ordering key and all parameters: if legalization
(`legalizeWith`, the function C01's theorems are about) returns `c'`, then `c'` is again in the domain,
legal (`C01.legalize_legal`), row-conform in its orientations and free of INVALID orientations (C04's
`legalizeWith_orient`), hence `DetailedPlacement::fromIspdCircuit c'` returns normally, with a state
that satisfies `Inv` and has every optimised cell placed. -/
theorem constructor_ok_after_legalize (rnd : Rat → Rat) (p : Legalize.Params) (c c' : Circuit) (hd : Legalize.DomL c)
    (h : Legalize.legalizeWith rnd p c = .ok c') :
    ∃ s, fromIspdCircuit c' = .ok s ∧ Inv s ∧ s.allPlaced = true :=
  init_of_legal c' (legalize_dom rnd p c c' hd h) (Legalize.legalizeWith_legal rnd p c c' hd h)
    (legalize_orientLegal rnd p c c' hd h) (legalize_noInvalid rnd p c c' hd h)

/-- `unplace` of a placed cell keeps the invariant (pointer surgery included) -/
theorem inv_unplace {s : State} (h : Inv s) {c : Int} (hc : s.validCell c) (hp : s.row c ≠ -1) :
    Inv (s.unplace c) := unplace_inv h hc hp

/-- `place` of an unplaced optimised cell at a site of a valid row keeps the invariant whenever the
real `canPlace` test lets it through -/
theorem inv_place {s t : State} (h : Inv s) {c r p x : Int} (ok : PlaceOk s c r p)
    (e : s.place c r p x = .ok t) : Inv t := place_inv h ok e

/-- `swap` (all three branches: c2 before c1, c1 before c2, apart / different rows) -/
theorem inv_step_swap {s t : State} (h : Inv s) {c1 c2 : Int} (e : s.step (.swap c1 c2) = .ok t) : Inv t :=
  step_inv h e

/-- `insert` with the integer midpoint `Int.tdiv` -/
theorem inv_step_insert {s t : State} (h : Inv s) {c r p : Int} (e : s.step (.insert c r p) = .ok t) : Inv t :=
  step_inv h e

/-- `shift`: any simultaneous x update that the model's re-check accepts (the code trusts lemon) -/
theorem inv_step_shift {s t : State} (h : Inv s) {mv : List (Int × Int)} (e : s.step (.shift mv) = .ok t) : Inv t :=
  step_inv h e

/-- `RowReordering::writeback` with arbitrary regions, orders and positions -/
theorem inv_step_reorder {s t : State} (h : Inv s) {cells : List Int} {regions : List Region}
    (e : s.step (.reorder cells regions) = .ok t) : Inv t := step_inv h e

/-- every primitive move keeps the invariant -/
theorem inv_step {s t : State} (h : Inv s) {op : Op} (e : s.step op = .ok t) : Inv t := step_inv h e

/-- every state reachable by any sequence of moves (with arbitrary arguments) satisfies `Inv` -/
theorem inv_run {s t : State} (h : Inv s) {ops : List Op} (e : s.run ops = .ok t) : Inv t := run_inv h e

/-- cells that detailed placement does not optimise (width −1: fixed cells, multi-row cells,
macros) keep x, y and orientation along every history; widths never change -/
theorem ignored_frame {s t : State} {ops : List Op} (e : s.run ops = .ok t) :
    t.width = s.width ∧ ∀ d, s.isIgnored d = true → t.x d = s.x d ∧ t.y d = s.y d ∧ t.orient d = s.orient d := by
  have := run_frame e
  exact ⟨this.1, fun d hd => this.2 d (by simpa [isIgnored] using hd)⟩

/-- **The linked representation is the list-of-lists view, after every move.**  In every state reached
by any history from a state satisfying `Inv`, for every row: `rowCells r` (the cells met by following
`cellNext_` from `rowFirstCell_[r]`, as `DetailedPlacement::rowCells` does) are exactly the valid cells
whose `cellRow_` is `r`, in increasing x without overlap.  So the pointer surgery of `place`/`unplace`
never loses, duplicates or misorders a cell. -/
theorem links_wf {s t : State} (h : Inv s) {ops : List Op} (e : s.run ops = .ok t) {r : Int} (hr : t.validRow r) :
    (∀ c, c ∈ t.rowCells r ↔ (t.validCell c ∧ t.row c = r)) ∧
    (t.rowCells r).Pairwise (fun a b => t.x a + t.width a ≤ t.x b) :=
  rowCells_spec (run_inv h e) hr

/-- Legality read off the invariant, cell by cell: a placed cell is an optimised cell of positive
width, sits at its row's y in an allowed row with a valid orientation, does not overlap its
predecessor or successor or *any other cell of its row* (transitivity of the order along the links,
`row_order`) and lies between the ends of its row segment (`row_bounds`, also for inner cells). -/
theorem inv_legal_cells {s : State} (h : Inv s) {c : Int} (hc : s.validCell c) (hp : s.row c ≠ -1) :
    s.validRow (s.row c) ∧ 0 < s.width c ∧ s.y c = s.rowY (s.row c) ∧ s.orient c ≠ Orient.INVALID ∧
    s.boundaryBefore c ≤ s.x c ∧ s.x c + s.width c ≤ s.boundaryAfter c ∧
    s.rowMinX (s.row c) ≤ s.x c ∧ s.x c + s.width c ≤ s.rowMaxX (s.row c) ∧
    ∀ d, s.validCell d → d ≠ c → s.row d = s.row c →
      s.x c + s.width c ≤ s.x d ∨ s.x d + s.width d ≤ s.x c := by
  have L := h.link hc
  have C := h.cell hc
  unfold LinkOk at L
  unfold CellOk at C
  have C2 := C.2 hp
  have C1 := C.1 C2.1
  have B := row_bounds h hc hp
  refine ⟨h.placed_row hc hp, C1.2, C2.2.2.2, C1.1, ?_, ?_, B.1, B.2,
    fun d hd hne hr => row_order h hc hd hp hr (Ne.symm hne)⟩
  · unfold boundaryBefore
    split
    · rename_i h1; exact ((L.2.2 hp).2.1 h1).2
    · rename_i h1; exact ((L.2.2 hp).1 h1).2.2.1
  · unfold boundaryAfter
    split
    · rename_i h1; exact ((L.2.2 hp).2.2.2 h1).2
    · rename_i h1; exact ((L.2.2 hp).2.2.1 h1).2.2.1

/-- **Legality of every exposed state (full).**  Let `c` be a circuit of C01's domain, legal in C01's
sense (what `C01.legalize_legal` proves of legalization's result), on which the constructor returned
`s0`, and let `s` be reached from `s0` by *any* history of the optimiser's moves (swap / insert /
checked shift / reorder write-back with arbitrary arguments) that the model accepts.  Then `s`
satisfies `Inv`, every optimised cell is placed, and the circuit that `exportPlacement` writes — what a
Detailed-step callback and the caller see — is legal in C01's sense: every row-high strip of every
movable cell inside one free segment of `computeRows`, no two movable cells intersecting; the cells
that are not optimised (multi-row cells, macros) sit exactly where the input has them.
(Proofs/DetPlaceLegal.lean: order along the links is transitive ⇒ cells of one row are apart and
inside the row's segment; segments of different rows are disjoint; the unoptimised movable cells were
obstacles when the segments were computed; the segments w.r.t. more obstacles lie inside the segments
of `computeRows()`; turn status, hence placed sizes, never change.) -/
theorem inv_legal (c : Circuit) (hd : Legalize.DomL c) (hl : Legalize.LegalL c)
    (hv : ∀ cl ∈ c.cells, ¬ cl.fixed → cl.orient ≠ Orient.INVALID)
    (s0 s : State) (e0 : fromIspdCircuit c = .ok s0) (ops : List Op) (e : s0.run ops = .ok s) :
    Inv s ∧ s.allPlaced = true ∧ Legalize.LegalL (exportPlacement s c) ∧
    (∀ (i : Nat) (cl : Cell), c.cells[i]? = some cl → cl.fixed = false → cl.placedHeight ≠ (Circuit.rowHeight c).getD 0 →
      (exportPlacement s c).cells[i]? = some cl) := by
  obtain ⟨i0, a0, _⟩ := inv_init c s0 (fun cl hcl hf => ⟨(hd.2.1 cl hcl (by simpa using hf)).1, hv cl hcl hf⟩) e0
  have hI := run_inv i0 e
  have hap := (Lg.allPlaced_iff s).2 (Lg.run_allPlaced ((Lg.allPlaced_iff s0).1 a0) e)
  obtain ⟨H, hrh, S⟩ := stateOf_of_run hd e0 e
  refine ⟨hI, hap, export_legal hd hl hrh S hI hap, ?_⟩
  intro i cl hg hf hh
  rw [hrh] at hh
  obtain ⟨a1, a2, a3⟩ := S.ign i cl hg (ispdWidth_multi hh)
  rw [export_get, hg]
  simp only [Option.map_some, Option.some.injEq]
  unfold newCell
  rw [a1, a2, a3, if_neg (by simp [hf])]

/-- **C02, end to end on the model.**  For every circuit of C01's domain on which legalization returns
`c'`: the constructor of detailed placement succeeds on `c'`, and every state reached from its state by
any accepted history of the optimiser's moves satisfies `Inv`, has every optimised cell placed and
exports a circuit that is legal in C01's sense, with the unoptimised movable cells exactly where
legalization put them. -/
theorem detailed_legal_after_legalize (rnd : Rat → Rat) (p : Legalize.Params) (c c' : Circuit) (hd : Legalize.DomL c)
    (h : Legalize.legalizeWith rnd p c = .ok c') :
    ∃ s0, fromIspdCircuit c' = .ok s0 ∧
      ∀ (ops : List Op) (s : State), s0.run ops = .ok s →
        Inv s ∧ s.allPlaced = true ∧ Legalize.LegalL (exportPlacement s c') ∧
        (∀ (i : Nat) (cl : Cell), c'.cells[i]? = some cl → cl.fixed = false →
          cl.placedHeight ≠ (Circuit.rowHeight c').getD 0 → (exportPlacement s c').cells[i]? = some cl) := by
  obtain ⟨s0, e0, _, _⟩ := constructor_ok_after_legalize rnd p c c' hd h
  exact ⟨s0, e0, fun ops s e => inv_legal c' (legalize_dom rnd p c c' hd h) (Legalize.legalizeWith_legal rnd p c c' hd h)
    (legalize_noInvalid rnd p c c' hd h) s0 s e0 ops e⟩

/-- the arithmetic fact behind `positionOnInsert` / `positionsOnSwap`: the C++ midpoint
(truncating division) of a site that is wide enough lies inside the site -/
theorem midpoint_in_site (b e w : Int) (h : b ≤ e - w) : b ≤ (b + e - w).tdiv 2 ∧ (b + e - w).tdiv 2 + w ≤ e :=
  midpoint_ok b e w h

/-- **`swap` never throws on a feasible move.**  On a state satisfying `Inv`, for optimised cells
`c1`, `c2`: if `canSwap` answers true, `swap` (unplace both, place both — the `canPlace` tests inside
`place` included) returns normally, in all three branches, and the new state satisfies `Inv`.  Hence
`step` never returns an error on a swap the optimiser found feasible. -/
theorem swap_never_throws {s : State} (h : Inv s) {c1 c2 : Int} (hl1 : s.liveCell c1 = true) (hl2 : s.liveCell c2 = true)
    (hcan : s.canSwap c1 c2 = .ok true) : ∃ t, s.step (.swap c1 c2) = .ok t ∧ Inv t := by
  obtain ⟨t, e⟩ := swap_succeeds h hl1 hl2 hcan
  have e' : s.step (.swap c1 c2) = .ok t := by simp only [step, hl1, hl2, Bool.and_self, if_true]; exact e
  exact ⟨t, e', step_inv h e'⟩

/-- **`insert` never throws on a feasible move** (site = a valid row and a predecessor that is −1 or a
placed cell of that row; the new abscissa is the `Int.tdiv` midpoint of the site, `midpoint_in_site`) -/
theorem insert_never_throws {s : State} (h : Inv s) {c r p : Int} (hl : s.liveCell c = true) (hs : s.siteOk r p = true)
    (hcan : s.canInsert c r p = .ok true) : ∃ t, s.step (.insert c r p) = .ok t ∧ Inv t := by
  obtain ⟨t, e⟩ := insert_succeeds h hl hs hcan
  have e' : s.step (.insert c r p) = .ok t := by simp only [step, hl, hs, Bool.and_self, if_true]; exact e
  exact ⟨t, e', step_inv h e'⟩

/-- F2 on the pre-fix constructor (kept in Model/LegacyDetPlace.lean): it throws on a legal placement
over a fixed non-obstruction cell; the repaired one does not (corpus/C02/w1.txt replays it on the code) -/
theorem legacy_F2_witness :
    isOk (fromIspdCircuitLegacy witnessF2) = false ∧ isOk (fromIspdCircuit witnessF2) = true := legacy_F2_throws

/-- F18 on the pre-fix constructor: a turned two-row cell is optimised as a 4-wide single-row cell;
the repaired one ignores it (corpus/C02/w2.txt) -/
theorem legacy_F18_witness :
    (match fromIspdCircuitLegacy witnessF18 with | .ok s => s.width 0 | .error _ => 0) = 4 ∧
    (match fromIspdCircuit witnessF18 with | .ok s => s.width 0 | .error _ => 0) = -1 :=
  legacy_F18_optimises_two_row_cell

/-! non-vacuity: a concrete two-row state built by the model's constructor satisfies `Inv`, and a
history of all four kinds of moves runs on it -/
def tiny : Circuit :=
  { cells := [⟨2, 2, 0, 0, .N, false, false, .ANY⟩, ⟨3, 2, 4, 0, .N, false, false, .ANY⟩,
              ⟨2, 2, 1, 2, .FS, false, false, .SAME⟩, ⟨2, 4, 8, 0, .N, false, false, .ANY⟩],
    nets := [],
    rows := [⟨⟨0, 10, 0, 2⟩, .N⟩, ⟨⟨0, 10, 2, 4⟩, .FS⟩] }

def tinyOps : List Op :=
  [.swap 0 1, .insert 2 0 0, .shift [(2, 6)], .reorder [1, 0] [⟨0, -1, [(0, 0), (1, 2)]⟩]]

-- non-vacuity of `inv_init`: `tiny` satisfies its hypothesis and the constructor accepts it
example : (∀ cl ∈ tiny.cells, ¬ cl.fixed → 0 < cl.placedWidth ∧ cl.orient ≠ Orient.INVALID) ∧
    isOk (fromIspdCircuit tiny) = true := by decide

example : (match fromIspdCircuit tiny with
           | .ok s => decide (Inv s) && s.isIgnored 3 &&
                      (match s.run tinyOps with | .ok t => decide (Inv t) | .error _ => false)
           | .error _ => false) = true := by decide

-- non-vacuity of `swap_never_throws` / `insert_never_throws`: feasible moves exist on `tiny`'s state
example : (match fromIspdCircuit tiny with
           | .ok s => s.liveCell 0 && s.liveCell 1 && s.liveCell 2 && s.siteOk 0 0 &&
                      (s.canSwap 0 1 == .ok true) && (s.canSwap 0 2 == .ok true) && (s.canInsert 2 0 0 == .ok true)
           | .error _ => false) = true := by decide

/-! non-vacuity of `inv_legal`: its hypotheses hold for the legalized `tiny` (legality by
`legalizeWith_legal`, see below) and the history `tinyOps` is accepted from the constructor's state of `tiny` -/

/-! non-vacuity of `fromCircuit_ok_of_legal` / `constructor_ok_after_legalize` / `detailed_legal_after_legalize`: legalization of `tiny`
(one two-row cell, three one-row cells, one of them with polarity SAME) succeeds; its result is in
the domain, legal (`legalizeWith_legal`), orientation-conform, and the constructor accepts it -/
instance (c : Circuit) : Decidable (Legalize.DomL c) := inferInstanceAs (Decidable (_ ∧ _ ∧ _ ∧ _))

example : Legalize.DomL tiny := by decide

example : (match Legalize.legalize LegacyLegalize.defaultParams tiny with
           | .ok c' => decide (Legalize.DomL c') && decide (OrientLegal c') &&
                       c'.cells.all (fun cl => cl.fixed || cl.orient != Orient.INVALID) &&
                       (match fromIspdCircuit c' with
                        | .ok s0 => isOk (s0.run tinyOps)   -- a history of all four kinds of moves is accepted
                        | .error _ => false)
           | .error _ => false) = true := by decide +kernel

-- … and what legalization returned is `LegalL` (C01), so `inv_legal` applies to it with `tinyOps`
example (c' : Circuit) (h : Legalize.legalize LegacyLegalize.defaultParams tiny = .ok c') : Legalize.LegalL c' :=
  Legalize.legalizeWith_legal _ _ tiny c' (by decide) h

/-- The shared geometry layer under `DetPlace.fromCircuit` is *translated from the C++ source*: the definitions
of `Gen/GeomFns.lean`, regenerated on every run from the clang AST of the bodies of `Rectangle(int,int,int,int)`,
`isTurn`, `Circuit::x / y / orientation / isFixed / placedWidth / placedHeight / placement` and of the loop of
`Circuit::rowHeight()` (`none` = throws), are equal as functions to the hand-written `Cell.*` / `Circuit.rowHeight`
the constructor model uses (cell widths, the standard-cell height test, obstacles).  A semantic change of one of
these bodies breaks this theorem. -/
theorem geometry_layer_translated :
    Gen.Geom.Rectangle_ctor = Rect.mk ∧
    Gen.Geom.isTurn = Orient.isTurn ∧
    Gen.Geom.Circuit_x = Cell.x ∧
    Gen.Geom.Circuit_y = Cell.y ∧
    Gen.Geom.Circuit_orientation = Cell.orient ∧
    Gen.Geom.Circuit_isFixed = Cell.fixed ∧
    Gen.Geom.Circuit_placedWidth = Cell.placedWidth ∧
    Gen.Geom.Circuit_placedHeight = Cell.placedHeight ∧
    Gen.Geom.Circuit_placement = Cell.placement ∧
    Gen.Geom.Circuit_rowHeight = Circuit.rowHeight :=
  ⟨GeomTie.gen_Rectangle_ctor_eq_model,
   GeomTie.gen_isTurn_eq_model,
   GeomTie.gen_Circuit_x_eq_model,
   GeomTie.gen_Circuit_y_eq_model,
   GeomTie.gen_Circuit_orientation_eq_model,
   GeomTie.gen_Circuit_isFixed_eq_model,
   GeomTie.gen_Circuit_placedWidth_eq_model,
   GeomTie.gen_Circuit_placedHeight_eq_model,
   GeomTie.gen_Circuit_placement_eq_model,
   GeomTie.gen_Circuit_rowHeight_eq_model⟩

end ColoVerif.C02
