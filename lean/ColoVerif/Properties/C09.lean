import ColoVerif.Model.Circuit
import ColoVerif.Model.OrientSpec
import ColoVerif.Model.IncrNet
import ColoVerif.Gen.OrientTables
import ColoVerif.Proofs.C09Hpwl
import ColoVerif.Proofs.IncrNetRun
import ColoVerif.Proofs.IncrNetPinOffsets
import ColoVerif.Proofs.IncrNetPlacer
import ColoVerif.Proofs.GeomTie
import ColoVerif.Proofs.CheckedHpwl
/-
C09 — wirelength is geometrically exact and incrementally consistent.

`Gen.*` is regenerated from the C++ on every run; `Circuit.*` and `IncrNet.*` are the
hand-written models executed by `drv_C09` against the real code.
-/
namespace ColoVerif.C09
open ColoVerif ColoVerif.OrientSpec

/-! ### the specification is a dihedral-group action -/

/-- The eight orientation matrices form a group of isometries: pairwise distinct, orthogonal
with determinant ±1, closed under product, containing the identity and all inverses
(transposes); rotations (N, W, S, E) have determinant 1 and mirrored ones −1. -/
theorem spec_is_dihedral_group :
    (∀ a ∈ Orient.eight, ∀ b ∈ Orient.eight, matrix a = matrix b → a = b) ∧
    (∀ a ∈ Orient.eight, (matrix a).mul (matrix a).transpose = Mat.one ∧
        ((matrix a).det = 1 ∨ (matrix a).det = -1)) ∧
    (∀ a ∈ Orient.eight, ∀ b ∈ Orient.eight, ∃ c ∈ Orient.eight, matrix c = (matrix a).mul (matrix b)) ∧
    (∀ a ∈ Orient.eight, ∃ c ∈ Orient.eight, matrix c = (matrix a).transpose) ∧
    matrix .N = Mat.one ∧
    (∀ a ∈ [Orient.N, .W, .S, .E], (matrix a).det = 1) ∧
    (∀ a ∈ [Orient.FN, .FS, .FW, .FE], (matrix a).det = -1) := by
  decide

/-- The alias enumerators of `CellOrientation` in coloquinte.hpp (R0, R90, R180, R270, MY, MX,
MX90, MY90 — regenerated from the header) name exactly the transformation the specification
assigns to the orientation they alias. -/
theorem spec_matches_header_aliases :
    Gen.orientAliases.length = 8 ∧ ∀ p ∈ Gen.orientAliases, named p.1 = some (matrix p.2) := by
  decide

/-! ### pin offsets and placed size -/

/-- For all eight orientations, every non-negative cell size and every pin offset (inside or
outside the outline) the code's `(pinXOffset, pinYOffset, placedWidth, placedHeight)` — the
functions *generated from the C++ source* — equal the geometric specification. -/
theorem pin_offset_geometric (o : Orient) (ho : o ∈ Orient.eight) (w h px py : Int) (hw : 0 ≤ w) (hh : 0 ≤ h) :
    (⟨Gen.pinXOffset o w h px py, Gen.pinYOffset o w h px py, Gen.placedWidth o w h, Gen.placedHeight o w h⟩ : Placed)
      = spec o w h px py := by
  cases o <;> simp [Orient.eight] at ho <;>
    simp [spec, matrix, Mat.apply, Mat.mul, Mat.one, rot90, mirrorX, mirrorY, lowerLeft, upperRight, cornerXs,
      cornerYs, min4, max4, Gen.pinXOffset, Gen.pinYOffset, Gen.placedWidth, Gen.placedHeight, Gen.isTurn,
      Gen.xFlipped, Gen.yFlipped] <;> omega

example : (3 : Int) ≥ 0 ∧ Orient.FE ∈ Orient.eight ∧
    spec .FE 3 2 (-5) 7 = ⟨2 - 7, 3 - (-5), 2, 3⟩ := by decide

/-- The hand-written shared model (`Circuit.pinXOffset`, …, the definitions the drivers execute)
agrees with the generated functions, hence with the specification. -/
theorem model_pin_offset_geometric (cl : Cell) (p : Pin) (ho : cl.orient ∈ Orient.eight) (hw : 0 ≤ cl.w) (hh : 0 ≤ cl.h) :
    (⟨Circuit.pinXOffset cl p, Circuit.pinYOffset cl p, cl.placedWidth, cl.placedHeight⟩ : Placed)
      = spec cl.orient cl.w cl.h p.xo p.yo := by
  rw [← pin_offset_geometric cl.orient ho cl.w cl.h p.xo p.yo hw hh]
  cases cl with
  | mk w h x y orient fixed obstruction pol =>
    cases orient <;>
      simp [Gen.placedWidth, Gen.placedHeight, Gen.pinXOffset, Gen.pinYOffset, Gen.isTurn, Gen.xFlipped,
        Gen.yFlipped, Cell.placedWidth, Cell.placedHeight, Circuit.pinXOffset, Circuit.pinYOffset,
        Orient.isTurn, Circuit.xFlipped, Circuit.yFlipped]

/-- The placed outline reported by the code, `Cell.placement`, is the image of `[0,w]×[0,h]`
under the orientation, translated to the cell position. -/
theorem placement_is_image (cl : Cell) (ho : cl.orient ∈ Orient.eight) (hw : 0 ≤ cl.w) (hh : 0 ≤ cl.h) :
    cl.placement =
      ⟨cl.x, cl.x + ((upperRight (matrix cl.orient) cl.w cl.h).1 - (lowerLeft (matrix cl.orient) cl.w cl.h).1),
       cl.y, cl.y + ((upperRight (matrix cl.orient) cl.w cl.h).2 - (lowerLeft (matrix cl.orient) cl.w cl.h).2)⟩ := by
  have h := model_pin_offset_geometric cl ⟨0, 0, 0⟩ ho hw hh
  simp only [spec, Placed.mk.injEq] at h
  simp [Cell.placement, h.2.2.1, h.2.2.2]

/-! ### Circuit::hpwl -/

theorem pinX_eq_spec (c : Circuit) (h : CellsOk c) (p : Pin) : c.pinX p = (specPin c p).1 := by
  have hc := cell_ok c h p.cell
  have := congrArg Placed.pinX (model_pin_offset_geometric (c.cell p.cell) p hc.1 hc.2.1 hc.2.2)
  simp only at this
  simp [Circuit.pinX, specPin, ← this]

theorem pinY_eq_spec (c : Circuit) (h : CellsOk c) (p : Pin) : c.pinY p = (specPin c p).2 := by
  have hc := cell_ok c h p.cell
  have := congrArg Placed.pinY (model_pin_offset_geometric (c.cell p.cell) p hc.1 hc.2.1 hc.2.2)
  simp only at this
  simp [Circuit.pinY, specPin, ← this]

/-- `Circuit::hpwl` is the sum over the nets of the half-perimeter of the bounding box of the
pin locations given by the orientation specification; `bboxHalfPerimeter` is `span xs + span ys`
where `span` is characterised (uniquely) by `IsSpan`: 0 for no point, otherwise `hi − lo` with
`lo`, `hi` attained and bounding.  Empty and single-pin nets contribute 0. -/
theorem hpwl_is_bbox_sum (c : Circuit) (h : CellsOk c) :
    c.hpwl = (c.nets.map fun n => bboxHalfPerimeter (n.pins.map (specPin c))).sum ∧
    (∀ l, IsSpan l (span l) ∧ ∀ v, IsSpan l v → v = span l) ∧
    bboxHalfPerimeter [] = 0 ∧ (∀ pt, bboxHalfPerimeter [pt] = 0) := by
  refine ⟨?_, fun l => ⟨span_isSpan l, fun v hv => isSpan_unique l v _ hv (span_isSpan l)⟩, by decide, ?_⟩
  · unfold Circuit.hpwl
    congr 1
    apply List.map_congr_left
    intro n _
    have hx : n.pins.map c.pinX = (n.pins.map (specPin c)).map (·.1) := by
      simp [List.map_map, Function.comp_def, pinX_eq_spec c h]
    have hy : n.pins.map c.pinY = (n.pins.map (specPin c)).map (·.2) := by
      simp [List.map_map, Function.comp_def, pinY_eq_spec c h]
    simp only [Circuit.netHpwl, hx, hy, lmax_lmin_span0, bboxHalfPerimeter]
  · intro pt; simp [bboxHalfPerimeter, span, maxOf, minOf]

example : CellsOk ⟨[⟨4, 2, 0, 0, .N, false, false, .ANY⟩, ⟨3, 2, 10, 5, .W, false, false, .ANY⟩],
    [⟨1, 0, [⟨0, 1, 1⟩, ⟨1, 0, 2⟩]⟩], []⟩ := by decide

/-- **The reported value is the mathematical one, as compiled.**  `Checked.hpwlC` is the expression
tree of `Circuit::hpwl()` with every `int` operation (pin offset `placedWidth − offs`, `x(cell) + offset`,
`maxX − minX`) and every `long long` accumulation checked for overflow (executed by `drv_C09` against the
real function under UBSan on the `h<k>` cases, coordinates up to ±8·10^8).  On `HpwlDom` — cell origins
within ±8·10^8, cell sizes and pin offsets within ±10^8, at most 2^30 nets — no operation overflows and
the result is the unbounded `Circuit.hpwl` of `hpwl_is_bbox_sum`.  The two extents of a net are added to
the 64-bit total separately: a net may be 1.2·10^9 wide and high (witness: `hpwlC = 2.4·10^9`), where an
`int` sum `width + height` taken first would overflow (`netHpwlSum32C`, not the code, faults there). -/
theorem hpwl_no_overflow (c : Circuit) (h : Checked.HpwlDom c) : Checked.hpwlC c = .ok c.hpwl :=
  Checked.hpwlC_ok c h

theorem hpwl_no_overflow_witness :
    Checked.HpwlDom Checked.diagonalWitness ∧
    Checked.hpwlC Checked.diagonalWitness = .ok 2400000000 ∧
    Checked.netHpwlSum32C Checked.diagonalWitness 0 (Checked.diagonalWitness.nets.getD 0 default)
      = .error (.intOverflow "width() + height()") :=
  ⟨Checked.diagonalWitness_in_dom, Checked.diagonalWitness_hpwl, Checked.hpwl_sum32_can_fault⟩

/-! ### the incremental model -/

open IncrNet in
/-- **Initial value.**  For every circuit and every list `cells` of selected cells (any subset,
any order; the other cells are folded into the pseudo-pins of the extra fixed cell, nets reduced
to at most one pin are dropped) the value of the freshly built x (resp. y) model is the 1-D
half-perimeter wirelength of the circuit: Σ over *all* nets of the extent of the pins' x (resp. y)
coordinates.  The built model is moreover well formed (its cell CSR is the exact transpose of its
net CSR) and consistent, so `incr_inv` applies to it. -/
theorem incr_init (c : Circuit) (cells : List Nat) :
    (xTopology c cells).value = (c.nets.map fun n => span (n.pins.map c.pinX)).sum ∧
    (yTopology c cells).value = (c.nets.map fun n => span (n.pins.map c.pinY)).sum ∧
    Good (xTopology c cells) ∧ Good (yTopology c cells) ∧
    (xTopology c cells).cellPos = cells.map (fun i => (c.cell i).x) ++ [0] ∧
    (yTopology c cells).cellPos = cells.map (fun i => (c.cell i).y) ++ [0] :=
  ⟨topology_value Circuit.pinXOffset (·.x) c cells, topology_value Circuit.pinYOffset (·.y) c cells,
   topology_Good _ _ c cells, topology_Good _ _ c cells,
   (topology_good Circuit.pinXOffset (·.x) c cells).2.2.2, (topology_good Circuit.pinYOffset (·.y) c cells).2.2.2⟩

open IncrNet in
/-- The two 1-D models together give `Circuit::hpwl` (what `DetailedPlacer::value()` reports),
for the full model and for every subset. -/
theorem detailed_value_is_hpwl (c : Circuit) (cells : List Nat) :
    (xTopology c cells).value + (yTopology c cells).value = c.hpwl := by
  obtain ⟨hx, hy, _⟩ := incr_init c cells
  rw [hx, hy]
  unfold Circuit.hpwl
  generalize c.nets = ns
  induction ns with
  | nil => rfl
  | cons n ns ih =>
    simp only [List.map_cons, List.sum_cons, Circuit.netHpwl, lmax_lmin_span0] at ih ⊢
    omega

open IncrNet in
/-- **Invariant.**  After *any* sequence of `updateCellPos(cell, pos)` calls on a good model
(in particular on every model built by `x/yTopology`, full or subset, see `incr_init`, and on
every model built through `IncrNetModelBuilder` from nets whose cells are in range) the
maintained `netMinMaxPos_` and `value_` equal their from-scratch recomputation
(`IncrNetModel::check()` passes), the value is the 1-D wirelength Σ over the nets of the extent
of the pin positions at the *current* cell positions, and these positions are the initial ones
overwritten by the updates in order.  Repeated cells in a net, repeated updates and updates of
out-of-range cells are covered. -/
theorem incr_inv (m : Model) (hm : Good m) (ops : List (Nat × Int)) :
    (run m ops).netMinMaxPos = (run m ops).computeAllMinMaxPos ∧
    (run m ops).value = (run m ops).computeValue ∧
    (run m ops).consistent = true ∧
    (run m ops).value = scratchValue (run m ops) ∧
    (run m ops).cellPos = applyOps m.cellPos ops ∧
    Good (run m ops) := by
  have hg := run_good m ops hm
  have hc := (inv_iff_consistent _).mp hg.inv
  refine ⟨hc.1, hc.2, ?_, good_value _ hg, ?_, hg⟩
  · unfold Model.consistent
    rw [← hc.1, ← hc.2]; simp
  · obtain ⟨X, Y, h⟩ := run_frame ops m
    rw [h]

open IncrNet in
/-- `incr_inv` instantiated: update sequences on the x and y models of a circuit (any subset). -/
theorem incr_inv_topology (c : Circuit) (cells : List Nat) (ops : List (Nat × Int)) :
    (run (xTopology c cells) ops).value = scratchValue (run (xTopology c cells) ops) ∧
    (run (yTopology c cells) ops).value = scratchValue (run (yTopology c cells) ops) ∧
    (run (xTopology c cells) ops).consistent = true ∧ (run (yTopology c cells) ops).consistent = true :=
  ⟨(incr_inv _ (topology_Good _ _ c cells) ops).2.2.2.1, (incr_inv _ (topology_Good _ _ c cells) ops).2.2.2.1,
   (incr_inv _ (topology_Good _ _ c cells) ops).2.2.1, (incr_inv _ (topology_Good _ _ c cells) ops).2.2.1⟩

open IncrNet in
/-- Models built directly with `IncrNetModelBuilder` (as the unit tests and `RowReordering` do)
are good whenever every pin's cell index is below the number of cells. -/
theorem builder_models_good (K : Nat) (Ls : List (List Pin1)) (pos : List Int) (hK : pos.length = K)
    (hrange : ∀ l ∈ Ls, ∀ p ∈ l, p.1 < K) : Good ((Ls.foldl Builder.addNet (Builder.new K)).build pos) :=
  builder_Good K Ls pos hK hrange

open IncrNet in
/-- **The cell→pin table is the exact transpose of the net→pin table, offsets included.**
`finalize` (counting sort) fills `cellNets_` and the parallel `cellPinOffsets_`: for every model built
by `x/yTopology` (all cells or any subset) and after any update sequence, the list of
`(pinNet(cell, i), cellPinOffset(cell, i))` for `i < nbCellPins(cell)` is — for *every* cell index —
exactly the list of `(net, offset)` of the pins of that cell in the net→pin table, in net order (then
pin order within the net); cells without pins and out-of-range indices get the empty list. -/
theorem cell_pin_table_is_transpose (c : Circuit) (cells : List Nat) (ops : List (Nat × Int)) (cell : Nat) :
    cellPinList (run (xTopology c cells) ops) cell
      = ((run (xTopology c cells) ops).allPins.filter (fun p => p.2.1 == cell)).map (fun p => (p.1, p.2.2)) ∧
    cellPinList (run (yTopology c cells) ops) cell
      = ((run (yTopology c cells) ops).allPins.filter (fun p => p.2.1 == cell)).map (fun p => (p.1, p.2.2)) :=
  ⟨run_wfOff _ ops (topology_wfOff _ _ c cells) cell, run_wfOff _ ops (topology_wfOff _ _ c cells) cell⟩

open IncrNet in
/-- … and for every model built directly with `IncrNetModelBuilder` from nets whose cells are in range. -/
theorem builder_cell_pin_table_is_transpose (K : Nat) (Ls : List (List Pin1)) (pos : List Int) (hK : pos.length = K)
    (hrange : ∀ l ∈ Ls, ∀ p ∈ l, p.1 < K) (ops : List (Nat × Int)) (cell : Nat) :
    cellPinList (run ((Ls.foldl Builder.addNet (Builder.new K)).build pos) ops) cell
      = ((run ((Ls.foldl Builder.addNet (Builder.new K)).build pos) ops).allPins.filter (fun p => p.2.1 == cell)).map
          (fun p => (p.1, p.2.2)) :=
  run_wfOff _ ops (builder_wfOff K Ls pos hK hrange) cell

open IncrNet in
/-- **`DetailedPlacer::value()`.**  The placer's two models (`PlacerModels.build` = its constructor,
`PlacerModels.updateCellPos` = `DetailedPlacer::updateCellPos(c, pos)`): right after construction
`value()` is `Circuit::hpwl` of the circuit; after ANY history of `updateCellPos(cell, (x, y))` both
models are consistent (`IncrNetModel::check()` passes), `value()` is the from-scratch wirelength
Σ nets (x-extent + y-extent) of the pin positions at the *current* cell positions, and those positions are
the circuit's positions overwritten by the updates in order. -/
theorem placer_value_is_incremental (c : Circuit) (ops : List (Nat × Int × Int)) :
    (PlacerModels.build c).value = c.hpwl ∧
    ((PlacerModels.build c).run ops).value
      = scratchValue ((PlacerModels.build c).run ops).x + scratchValue ((PlacerModels.build c).run ops).y ∧
    ((PlacerModels.build c).run ops).x.consistent = true ∧ ((PlacerModels.build c).run ops).y.consistent = true ∧
    ((PlacerModels.build c).run ops).x.cellPos
      = applyOps (c.cells.map (·.x) ++ [0]) (ops.map fun o => (o.1, o.2.1)) ∧
    ((PlacerModels.build c).run ops).y.cellPos
      = applyOps (c.cells.map (·.y) ++ [0]) (ops.map fun o => (o.1, o.2.2)) := by
  have hx := incr_inv (xTopologyAll c) (topology_Good _ _ c _) (ops.map fun o => (o.1, o.2.1))
  have hy := incr_inv (yTopologyAll c) (topology_Good _ _ c _) (ops.map fun o => (o.1, o.2.2))
  have hpx := (incr_init c (List.range c.cells.length)).2.2.2.2.1
  have hpy := (incr_init c (List.range c.cells.length)).2.2.2.2.2
  rw [cells_map_range] at hpx hpy
  refine ⟨detailed_value_is_hpwl c _, ?_, ?_, ?_, ?_, ?_⟩
  · show ((PlacerModels.build c).run ops).x.value + ((PlacerModels.build c).run ops).y.value = _
    rw [placer_run_x, placer_run_y]
    exact congr (congrArg _ hx.2.2.2.1) hy.2.2.2.1
  · rw [placer_run_x]; exact hx.2.2.1
  · rw [placer_run_y]; exact hy.2.2.1
  · rw [placer_run_x]; exact hx.2.2.2.2.1.trans (congrArg (fun l => applyOps l _) hpx)
  · rw [placer_run_y]; exact hy.2.2.2.2.1.trans (congrArg (fun l => applyOps l _) hpy)

/-- non-vacuity: a concrete good model (net with a repeated cell, a fixed-only net, a dropped
single-pin net; subset `[1]`), updated twice -/
example :
    let c : Circuit := ⟨[⟨4, 2, 0, 0, .N, false, false, .ANY⟩, ⟨3, 2, 10, 5, .W, false, false, .ANY⟩,
                         ⟨1, 1, -3, 7, .FE, true, true, .ANY⟩],
                        [⟨1, 0, [⟨0, 1, 1⟩, ⟨1, 0, 2⟩, ⟨2, 5, 5⟩, ⟨1, 1, 1⟩]⟩, ⟨1, 0, [⟨0, 0, 0⟩]⟩, ⟨1, 0, [⟨0, 0, 0⟩, ⟨2, 0, 0⟩]⟩], []⟩
    (IncrNet.yTopology c [1]).value = 13 ∧ (IncrNet.run (IncrNet.yTopology c [1]) [(0, 100), (0, -50)]).value = 61 := by
  decide

/-- The hand-written shared geometry `Circuit.hpwl`, `IncrNet.*` and the theorems above are stated in
(`Cell.placedWidth / placedHeight / placement`, `Circuit.pinXOffset / pinYOffset`, the accessors
`x / y / orientation`, `isTurn`, `Rect.mk`, and `Expand.cellArea` for `Circuit::area`) is *translated from the
C++ source*: the definitions of `Gen/GeomFns.lean`, regenerated on every run from the clang AST of the
whole bodies of these functions (not only their flip sets, as `Gen/OrientTables` does), are equal as
functions to the hand-written ones.  A semantic change of one of these bodies breaks this theorem. -/
theorem geometry_layer_translated :
    Gen.Geom.isTurn = Orient.isTurn ∧
    Gen.Geom.Circuit_x = Cell.x ∧ Gen.Geom.Circuit_y = Cell.y ∧ Gen.Geom.Circuit_orientation = Cell.orient ∧
    Gen.Geom.Circuit_placedWidth = Cell.placedWidth ∧ Gen.Geom.Circuit_placedHeight = Cell.placedHeight ∧
    Gen.Geom.Circuit_pinXOffset = Circuit.pinXOffset ∧ Gen.Geom.Circuit_pinYOffset = Circuit.pinYOffset ∧
    Gen.Geom.Rectangle_ctor = Rect.mk ∧ Gen.Geom.Circuit_placement = Cell.placement ∧
    Gen.Geom.Circuit_area = Expand.cellArea :=
  ⟨GeomTie.gen_isTurn_eq_model, GeomTie.gen_Circuit_x_eq_model, GeomTie.gen_Circuit_y_eq_model,
   GeomTie.gen_Circuit_orientation_eq_model, GeomTie.gen_Circuit_placedWidth_eq_model,
   GeomTie.gen_Circuit_placedHeight_eq_model, GeomTie.gen_Circuit_pinXOffset_eq_model,
   GeomTie.gen_Circuit_pinYOffset_eq_model, GeomTie.gen_Rectangle_ctor_eq_model,
   GeomTie.gen_Circuit_placement_eq_model, GeomTie.gen_Circuit_area_eq_model⟩

/-- The loops of `Circuit::hpwl()` itself are translated from the source: `Gen.Geom.Circuit_hpwl` (two nested
`List.foldl`s of named step functions generated from the clang AST of coloquinte.cpp: the `continue` on empty
nets, the INT_MAX / INT_MIN sentinels read from `std::numeric_limits<int>`, the `std::min/std::max` updates,
`ret += …`) equals the hand-written `Circuit.hpwl` whenever every pin position is a C++ `int`
(`GeomTie.PinsInInt`, decidable), in particular on `Checked.HpwlDom` (where `hpwl_no_overflow` shows that the
C++ arithmetic does not overflow either).  The hypothesis cannot be dropped: over unbounded `Int` a pin beyond
INT_MAX is clipped by the sentinel (example in `Proofs/GeomTie.lean`). -/
theorem geometry_loops_translated (c : Circuit) :
    (GeomTie.PinsInInt c → Gen.Geom.Circuit_hpwl c = c.hpwl) ∧
    (Checked.HpwlDom c → GeomTie.PinsInInt c) ∧
    (Checked.HpwlDom c → Gen.Geom.Circuit_hpwl c = c.hpwl) := by
  have hdom : Checked.HpwlDom c → GeomTie.PinsInInt c := by
    intro h n hn p hp
    have hx := (Checked.pinXC_ok c p (h.2 n hn p hp)).2
    have hy := (Checked.pinYC_ok c p (h.2 n hn p hp)).2
    omega
  exact ⟨GeomTie.gen_Circuit_hpwl_eq_model c, hdom, fun h => GeomTie.gen_Circuit_hpwl_eq_model c (hdom h)⟩

-- non-vacuity: a circuit in both domains (an empty net included), and the value the generated loops compute
example :
    let c : Circuit := ⟨[⟨4, 2, 0, 0, .N, false, false, .ANY⟩, ⟨3, 2, 10, 5, .W, false, false, .ANY⟩],
                        [⟨1, 0, [⟨0, 1, 1⟩, ⟨1, 0, 2⟩]⟩, ⟨1, 0, []⟩], []⟩
    Checked.HpwlDom c ∧ GeomTie.PinsInInt c ∧ Gen.Geom.Circuit_hpwl c = 13 := by decide

end ColoVerif.C09
