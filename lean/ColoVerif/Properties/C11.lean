import ColoVerif.Proofs.LegalizeIdem
/-
C11 — legalization does not move an already legal single-row placement.

All statements are about the definitions the driver `drv_C11` executes
(`Legalize.orderKey/keyLt/computeCellOrder/legalize`, `RowLeg.push/placementRev`).
-/
namespace ColoVerif.C11
open ColoVerif ColoVerif.Legalize ColoVerif.RowLeg

/-- **Order preservation (exact key).**  With `0 ≤ orderingWidth ≤ 1`, for two cells of one row
(same y, same height) of positive width with the first entirely left of the second
(`x₁ + w₁ ≤ x₂`), the pair `(key, index)` of the first is smaller in the order `std::stable_sort`
uses, for every `orderingY`, `orderingHeight` and whatever the indices.  Key computed exactly
(`rnd = id`), which is the property's own assumption on the float key. -/
theorem order_preserved (ww wy wh : Rat) (h0 : 0 ≤ ww) (h1 : ww ≤ 1) (c1 c2 : LCell) (i1 i2 : Nat)
    (hy : c1.ty = c2.ty) (hh : c1.h = c2.h) (hw1 : 0 < c1.w) (hw2 : 0 < c2.w) (hx : c1.tx + c1.w ≤ c2.tx) :
    keyLt (orderKey id ww wy wh c1, i1) (orderKey id ww wy wh c2, i2) = true := by
  have h := orderKey_lt_exact ww wy wh h0 h1 c1 c2 hy hh hw1 hw2 hx
  simp [keyLt, h]

/-- non-vacuity of `order_preserved` (two abutting cells, orderingWidth = 1/5) -/
example : keyLt (orderKey id (1/5) 0 (-1) ⟨4, 2, .ANY, 0, 0, .N⟩, 1) (orderKey id (1/5) 0 (-1) ⟨1, 2, .ANY, 4, 0, .N⟩, 0) = true :=
  order_preserved (1/5) 0 (-1) (by decide +kernel) (by decide +kernel) _ _ 1 0 rfl rfl (by decide) (by decide) (by decide)

/-- **Order preservation under rounding.**  For *any* monotone rounding of the key arithmetic that
is exact on 0, 1 and on the x/width of the two cells (binary32 is, for |v| ≤ 2^24), the key of the
left cell never exceeds the key of the right cell: the computed order can differ from the
left-to-right order only on an exact tie of the rounded keys (then the index decides). -/
theorem order_never_inverted_rounded (rnd : Rat → Rat) (hmono : ∀ a b, a ≤ b → rnd a ≤ rnd b)
    (r0 : rnd 0 = 0) (r1 : rnd 1 = 1) (ww wy wh : Rat) (h0 : 0 ≤ ww) (h1 : ww ≤ 1) (c1 c2 : LCell) (i1 i2 : Nat)
    (hy : c1.ty = c2.ty) (hh : c1.h = c2.h) (hw1 : 0 < c1.w) (hw2 : 0 < c2.w) (hx : c1.tx + c1.w ≤ c2.tx)
    (x1 : rnd (c1.tx : Rat) = c1.tx) (x2 : rnd (c2.tx : Rat) = c2.tx)
    (w1 : rnd (c1.w : Rat) = c1.w) (w2 : rnd (c2.w : Rat) = c2.w) :
    keyLt (orderKey rnd ww wy wh c2, i2) (orderKey rnd ww wy wh c1, i1) = true →
      orderKey rnd ww wy wh c1 = orderKey rnd ww wy wh c2 ∧ i2 < i1 := by
  have h := orderKey_le_rounded rnd hmono r0 r1 ww wy wh h0 h1 c1 c2 hy hh hw1 hw2 hx x1 x2 w1 w2
  intro hk
  simp only [keyLt, Bool.or_eq_true, decide_eq_true_eq, Bool.and_eq_true, beq_iff_eq] at hk
  rcases hk with hk | ⟨hk, hi⟩
  · exact absurd hk (not_lt.mpr h)
  · exact ⟨hk.symm, hi⟩

/-- **No conflict, no move (row legalizer).**  Pushing cells `(width, target)` whose targets are in
order, non-overlapping and inside `[b, e]` (`InOrder`) returns cost 0 at every push (hence at
every `getCost` query, which returns the same value) and `getPlacement` returns the targets. -/
theorem rowleg_no_conflict (b e : Int) (cs : List (Int × Int)) (h : InOrder e b cs) :
    (∀ c ∈ (pushAll (State.new b e) cs).1, c = 0) ∧
    placement (pushAll (State.new b e) cs).2 = cs.map Prod.snd := by
  have := pushAll_no_conflict cs (State.new b e) b [] (nc_new b e) h
  refine ⟨this.1, ?_⟩
  simp [placement, this.2]

/-- non-vacuity of `rowleg_no_conflict` -/
example : InOrder 10 0 [(4, 0), (1, 4), (2, 7)] := by simp [InOrder]

/-- positions-only legality of a single-row design, spelled out over `computeRows`: every movable
cell sits in one free segment with its bottom on the segment's `minY`, gets the orientation its
polarity demands there, and no two movable cells intersect. -/
def LegalSingleRow (c : Circuit) : Prop :=
  (∀ cl ∈ c.cells, cl.fixed = false →
    ∃ r ∈ c.computeRows, cl.y = r.rect.minY ∧ r.rect.minX ≤ cl.x ∧ cl.x + cl.placedWidth ≤ r.rect.maxX ∧
      (cl.pol = Polarity.ANY ∨ cellOrientationInRow cl.pol r.orient = cl.orient)) ∧
  (c.cells.filter fun cl => !cl.fixed).Pairwise fun a b => a.placement.intersects b.placement = false

/-- The circuit-level statement of C11 (not proved for all inputs; see `legalize_idempotent_partial`
and the differential harness): a legal placement of a design whose movable cells are all one row
high is a fixed point of `legalize` when `0 ≤ orderingWidth ≤ 1` (exact key). -/
def legalize_idempotent_full_statement : Prop :=
  ∀ (p : Params) (c : Circuit), p.check = true → 0 ≤ p.ow → p.ow ≤ 1 →
    (∀ cl ∈ c.cells, cl.fixed = false → 0 < cl.placedWidth ∧ Circuit.rowHeight c = some cl.placedHeight) →
    LegalSingleRow c → legalizeExact p c = .ok c

/-- **Idempotence, single-segment core (partial).**  For the cells of one free segment `[b, e]`
listed left to right (same y, same height, in order, non-overlapping, inside the segment) and
`0 ≤ orderingWidth ≤ 1`: (1) their exact ordering keys are strictly increasing, so
`computeCellOrder` visits them left to right, and (2) pushing them in that order into the
segment's `RowLegalizer` costs 0 each time and `getPlacement` returns their own positions.

Missing for `legalize_idempotent_full_statement`: that `sortKeys` is a sorted permutation (so (1)
transfers to `computeCellOrder`), that `AbacusLegalizer::placeCell` keeps a legal cell in its own
segment (cost 0 there, visited before any segment of larger y-distance, positive cost or no space
in the other segments of the same y — `abacus_keeps_own_row` of DESIGN §9), and the index plumbing
of `importLegalization`/`exportPlacement`.  These are supported by the C11 correspondence and
oracle streams (legal placements re-legalized on the real code and on this model), not by proof. -/
theorem legalize_idempotent_partial (b e : Int) (ww wy wh : Rat) (h0 : 0 ≤ ww) (h1 : ww ≤ 1) (ty hh : Int)
    (cs : List LCell) (hs : ∀ c ∈ cs, c.ty = ty ∧ c.h = hh)
    (h : InOrder e b (cs.map fun c => (c.w, c.tx))) :
    (cs.Pairwise fun c1 c2 => orderKey id ww wy wh c1 < orderKey id ww wy wh c2) ∧
    (∀ c ∈ (pushAll (State.new b e) (cs.map fun c => (c.w, c.tx))).1, c = 0) ∧
    placement (pushAll (State.new b e) (cs.map fun c => (c.w, c.tx))).2 = cs.map (·.tx) := by
  refine ⟨inOrder_pairwise e ww wy wh h0 h1 ty hh cs b hs h, ?_⟩
  have := rowleg_no_conflict b e _ h
  refine ⟨this.1, ?_⟩
  rw [this.2]
  simp [List.map_map, Function.comp_def]

/-- The witness of known finding KF-C11-1 (corpus/C11/kf1.json): one row `[0,10]`, two abutting
cells at x = 0 (width 4) and x = 4 (width 1), `orderingWidth = 2` (accepted by
`LegalizationParameters::check`). -/
def wideParams : Params := ⟨0, 2, -1, 0⟩
def wideCircuit : Circuit :=
  ⟨[⟨4, 2, 0, 0, .N, false, false, .ANY⟩, ⟨1, 2, 4, 0, .N, false, false, .ANY⟩], [], [⟨⟨0, 10, 0, 2⟩, .N⟩]⟩

def positions (c : Circuit) : List (Int × Int) := c.cells.map fun cl => (cl.x, cl.y)
def resultPositions : Except Err Circuit → Option (List (Int × Int))
  | .ok c => some (positions c)
  | .error _ => none

/-- **Idempotence fails outside the unit interval.**  The parameters pass the check, the placement
is legal, and both the binary32 model and the exact-key model move both cells
(keys 0+2·4 = 8 > 4+2·1 = 6 invert the order). -/
theorem idempotence_fails_wide_ordering :
    wideParams.check = true ∧ positions wideCircuit = [(0, 0), (4, 0)] ∧
    resultPositions (legalize wideParams wideCircuit) = some [(1, 0), (0, 0)] ∧
    resultPositions (legalizeExact wideParams wideCircuit) = some [(1, 0), (0, 0)] := by
  decide +kernel

end ColoVerif.C11
