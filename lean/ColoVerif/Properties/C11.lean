import ColoVerif.Proofs.LegalizeIdem
import ColoVerif.Proofs.LegalizeIdem2Circuit
import ColoVerif.Proofs.LegalizeIdem2Twice
import ColoVerif.Proofs.LegalizeF32
/-
C11 — legalization does not move an already legal single-row placement.

All statements are about the definitions the driver `drv_C11` executes
(`Legalize.orderKey/keyLt/computeCellOrder/legalize`, `RowLeg.push/placementRev`).
-/
namespace ColoVerif.C11
open ColoVerif ColoVerif.Legalize ColoVerif.RowLeg

/-- **Order preservation (exact key).**  With `0 ≤ orderingWidth ≤ 1`, for two cells of one row
(same y, same height) of positive width with the first entirely left of the second
(`x₁ + w₁ ≤ x₂`), the pair `(key, index)` of the first is smaller in the order `std::stable_sort`
uses, for every `orderingY`, `orderingHeight` and whatever the indices.  Key computed exactly
(`rnd = id`), which is the property's own assumption on the float key. -/
theorem order_preserved (ww wy wh : Rat) (h0 : 0 ≤ ww) (h1 : ww ≤ 1) (c1 c2 : LCell) (i1 i2 : Nat)
    (hy : c1.ty = c2.ty) (hh : c1.h = c2.h) (hw1 : 0 < c1.w) (hw2 : 0 < c2.w) (hx : c1.tx + c1.w ≤ c2.tx) :
    keyLt (orderKey id ww wy wh c1, i1) (orderKey id ww wy wh c2, i2) = true := by
  have h := orderKey_lt_exact ww wy wh h0 h1 c1 c2 hy hh hw1 hw2 hx
  simp [keyLt, h]

/-- non-vacuity of `order_preserved` (two abutting cells, orderingWidth = 1/5) -/
example : keyLt (orderKey id (1/5) 0 (-1) ⟨4, 2, .ANY, 0, 0, .N⟩, 1) (orderKey id (1/5) 0 (-1) ⟨1, 2, .ANY, 4, 0, .N⟩, 0) = true :=
  order_preserved (1/5) 0 (-1) (by decide +kernel) (by decide +kernel) _ _ 1 0 rfl rfl (by decide) (by decide) (by decide)

/-- **Order preservation under rounding.**  For *any* monotone rounding of the key arithmetic that
is exact on 0, 1 and on the x/width of the two cells (binary32 is, for |v| ≤ 2^24), the key of the
left cell never exceeds the key of the right cell: the computed order can differ from the
left-to-right order only on an exact tie of the rounded keys (then the index decides). -/
theorem order_never_inverted_rounded (rnd : Rat → Rat) (hmono : ∀ a b, a ≤ b → rnd a ≤ rnd b)
    (r0 : rnd 0 = 0) (r1 : rnd 1 = 1) (ww wy wh : Rat) (h0 : 0 ≤ ww) (h1 : ww ≤ 1) (c1 c2 : LCell) (i1 i2 : Nat)
    (hy : c1.ty = c2.ty) (hh : c1.h = c2.h) (hw1 : 0 < c1.w) (hw2 : 0 < c2.w) (hx : c1.tx + c1.w ≤ c2.tx)
    (x1 : rnd (c1.tx : Rat) = c1.tx) (x2 : rnd (c2.tx : Rat) = c2.tx)
    (w1 : rnd (c1.w : Rat) = c1.w) (w2 : rnd (c2.w : Rat) = c2.w) :
    keyLt (orderKey rnd ww wy wh c2, i2) (orderKey rnd ww wy wh c1, i1) = true →
      orderKey rnd ww wy wh c1 = orderKey rnd ww wy wh c2 ∧ i2 < i1 := by
  have h := orderKey_le_rounded rnd hmono r0 r1 ww wy wh h0 h1 c1 c2 hy hh hw1 hw2 hx x1 x2 w1 w2
  intro hk
  simp only [keyLt, Bool.or_eq_true, decide_eq_true_eq, Bool.and_eq_true, beq_iff_eq] at hk
  rcases hk with hk | ⟨hk, hi⟩
  · exact absurd hk (not_lt.mpr h)
  · exact ⟨hk.symm, hi⟩

/-- **No conflict, no move (row legalizer).**  Pushing cells `(width, target)` whose targets are in
order, non-overlapping and inside `[b, e]` (`InOrder`) returns cost 0 at every push (hence at
every `getCost` query, which returns the same value) and `getPlacement` returns the targets. -/
theorem rowleg_no_conflict (b e : Int) (cs : List (Int × Int)) (h : InOrder e b cs) :
    (∀ c ∈ (pushAll (State.new b e) cs).1, c = 0) ∧
    placement (pushAll (State.new b e) cs).2 = cs.map Prod.snd := by
  have := pushAll_no_conflict cs (State.new b e) b [] (nc_new b e) h
  refine ⟨this.1, ?_⟩
  simp [placement, this.2]

/-- non-vacuity of `rowleg_no_conflict` -/
example : InOrder 10 0 [(4, 0), (1, 4), (2, 7)] := by simp [InOrder]

/-- **The cell order is a sorted permutation.**  `computeCellOrder` returns a permutation of the cell
indices, listed in non-decreasing `(key, index)` order (`std::stable_sort` on the pairs), for every
rounding of the key. -/
theorem cell_order_sorted_perm (rnd : Rat → Rat) (ww wy wh : Rat) (cells : List LCell) :
    (computeCellOrder rnd ww wy wh cells).Perm (List.range cells.length) ∧
    (computeCellOrder rnd ww wy wh cells).Pairwise fun i j =>
      ¬ keyLt (orderKey rnd ww wy wh (cellAt cells j), j) (orderKey rnd ww wy wh (cellAt cells i), i) = true :=
  ⟨computeCellOrder_perm rnd ww wy wh cells, computeCellOrder_sorted rnd ww wy wh cells⟩

/-- **`placeCell` keeps a legal cell in its own segment.**  State of `AbacusLegalizer` (`SearchCtx`):
sorted rows of the cell's height, every row legalizer reachable by pushes that fit, and the cell `c`
lies in segment `k0` (`minY = c.ty`, ends inside, orientation not INVALID) to the right of
everything pushed there so far (the no-conflict invariant `NC` with `lo ≤ c.tx`), every other
segment of the same y lying entirely left or right of the cell.  Then the row search of
`placeCell` — upwards from `closestRow`, then downwards, with the early exit — returns exactly
`(bestRow, bestDist) = (k0, 0)` and the row legalizers unchanged: the own segment costs 0 and is
reached before any segment at non-zero y distance; the segments of the same y visited before it
cost > 0 or have no room, and `dist < bestDist` is strict, so later ties do not replace it. -/
theorem abacus_keeps_own_row (S : List Row) (legs : List RowLeg.State) (c : LCell) (k0 : Nat)
    (x : SearchCtx S legs c k0) :
    searchRows (abacusTry S c) S.length (startRow S c.ty) (legs, none) = (legs, some ⟨k0, 0⟩) :=
  x.search

/-- **The Abacus pass moves nothing** when every cell sits in a segment of the (sorted) rows with
the orientation it gets there and the cells of one y are visited left to right (`IdemOK`): all cells
are reported placed at their own x/y/orientation and `AbacusLegalizer::check` passes. -/
theorem abacus_pass_fixed (R : List Row) (H : Int) (cells : List LCell) (ok : IdemOK (sortRows R) H cells) :
    abacusRun R cells = .ok (cells.map fun c => ⟨c.tx, c.ty, c.torient, true⟩) :=
  abacusRun_fixed R H cells ok

/-- **Idempotence (flagship), for any rounding that keeps the left-to-right order.**
`c` in the C01 domain (`DomC`: the domain as the property spells it out, implied by the decidable
`C01.Dom` through `Legalize.domL_spelled`), all movable cells exactly one row high (`SingleRow`),
legal as C01 defines it over `computeRows` (`LegalC` = `C01.Legal` verbatim) and orientation-legal
(`OrientLegal`: no movable cell has orientation INVALID, and a cell already has the orientation
`cellOrientationInRow` prescribes in the free segment it sits in, if it prescribes one — C01's
`Legal` says nothing about orientations, and without this `legalize` re-orients the cell), parameters
accepted by `check`, and a key rounding `rnd` under which a cell entirely left of another one at the
same y sorts first (`KeyOrder`).  Then `legalize` returns the circuit itself: no position, no
orientation, nothing changes. -/
theorem legalize_idempotent_any_key (rnd : Rat → Rat) (p : Params) (c : Circuit) (hp : p.check = true)
    (hd : DomC c) (hs : SingleRow c) (hl : LegalC c) (ho : OrientLegal c) (hk : KeyOrder rnd p (movable c)) :
    legalizeWith rnd p c = .ok c :=
  legalizeWith_fixed rnd p c hp hd hs hl ho hk

/-- **Idempotence, exact key** (the property's own assumption on the float key), for every
`0 ≤ orderingWidth ≤ 1` and every accepted `orderingY`, `orderingHeight`. -/
theorem legalize_idempotent (p : Params) (c : Circuit) (hp : p.check = true) (h0 : 0 ≤ p.ow) (h1 : p.ow ≤ 1)
    (hd : DomC c) (hs : SingleRow c) (hl : LegalC c) (ho : OrientLegal c) :
    legalizeExact p c = .ok c :=
  legalizeWith_fixed id p c hp hd hs hl ho (keyOrder_exact p h0 h1 _)

/-- **Idempotence, binary32 key as compiled**, whenever the binary32 key of every movable cell equals
the exact key ("coordinates small enough that the float ordering key is exact").  Without that
hypothesis the statement is false for the compiled code: `orderingHeight` is unbounded, a large
`orderingHeight·h` term absorbs the x part of the key, ties are then broken by index and two cells
of a row are swapped. -/
theorem legalize_idempotent_binary32 (p : Params) (c : Circuit) (hp : p.check = true) (h0 : 0 ≤ p.ow) (h1 : p.ow ≤ 1)
    (hd : DomC c) (hs : SingleRow c) (hl : LegalC c) (ho : OrientLegal c)
    (hexact : ∀ lc ∈ movable c, orderKey f32 p.ow p.oy p.oh lc = orderKey id p.ow p.oy p.oh lc) :
    legalize p c = .ok c := by
  apply legalizeWith_fixed f32 p c hp hd hs hl ho
  intro i j hi hj hy hh hw1 hw2 hx
  rw [hexact _ (cellAt_mem _ i hi), hexact _ (cellAt_mem _ j hj)]
  exact keyOrder_exact p h0 h1 _ i j hi hj hy hh hw1 hw2 hx

/-- **Legalizing twice = legalizing once** (exact key, `0 ≤ orderingWidth ≤ 1`), for *arbitrary*
input positions: `c` in the C01 domain (`DomL` = `C01.Dom`, by `rfl` in Properties/C01.lean) with all
movable cells one row high.  If the first call returns `c'` then the second call returns `c'` again.
The first result is in the domain and single-row (sizes and turn status are kept), legal (C01's
`legalize_legal`) and orientation-legal (each cell carries the orientation `getOrientation` gave it
in the one free segment that contains it, and `evaluatePlacement` refused INVALID), so
`legalize_idempotent` applies to it. -/
theorem legalize_twice (p : Params) (c c' : Circuit) (h0 : 0 ≤ p.ow) (h1 : p.ow ≤ 1)
    (hd : DomL c) (hs : SingleRow c) (hfirst : legalizeExact p c = .ok c') :
    legalizeExact p c' = .ok c' :=
  legalizeWith_twice id p c c' hd hs hfirst (keyOrder_exact p h0 h1 _)

/-- the same for any rounding of the key (e.g. the compiled binary32 one) that keeps the
left-to-right order on the first result -/
theorem legalize_twice_any_key (rnd : Rat → Rat) (p : Params) (c c' : Circuit) (hd : DomL c) (hs : SingleRow c)
    (hfirst : legalizeWith rnd p c = .ok c') (hk : KeyOrder rnd p (movable c')) :
    legalizeWith rnd p c' = .ok c' :=
  legalizeWith_twice rnd p c c' hd hs hfirst hk

def positions (c : Circuit) : List (Int × Int) := c.cells.map fun cl => (cl.x, cl.y)
def resultPositions : Except Err Circuit → Option (List (Int × Int))
  | .ok c => some (positions c)
  | .error _ => none

/-! Non-vacuity of the idempotence theorems: a circuit with a split row (fixed obstruction at
x ∈ [4,6) of row 0), two rows of different orientation, polarised and unpolarised cells, two abutting
cells — it satisfies every hypothesis, and the parameters `orderingWidth = 1/5` are accepted. -/
def demoCircuit : Circuit :=
  ⟨[⟨2, 2, 4, 0, .N, true, true, .ANY⟩, ⟨3, 2, 1, 0, .N, false, false, .SAME⟩, ⟨2, 2, 6, 0, .FN, false, false, .ANY⟩,
    ⟨2, 2, 8, 0, .N, false, false, .ANY⟩, ⟨4, 2, 3, 2, .FS, false, false, .SAME⟩],
   [], [⟨⟨0, 10, 0, 2⟩, .N⟩, ⟨⟨0, 10, 2, 4⟩, .FS⟩]⟩
def demoParams : Params := ⟨0, 1/5, -1, 0⟩

theorem demo_rows : demoCircuit.computeRows = [⟨⟨0, 4, 0, 2⟩, .N⟩, ⟨⟨6, 10, 0, 2⟩, .N⟩, ⟨⟨0, 10, 2, 4⟩, .FS⟩] := by
  decide +kernel

example : demoParams.check = true ∧ 0 ≤ demoParams.ow ∧ demoParams.ow ≤ 1 := by decide +kernel

example : DomC demoCircuit ∧ SingleRow demoCircuit ∧ LegalC demoCircuit ∧ OrientLegal demoCircuit := by
  have hH : Circuit.rowHeight demoCircuit = some 2 := by decide
  refine ⟨⟨⟨2, by decide, hH, ?_⟩, by decide, by decide, by decide⟩, ?_, ⟨?_, by decide⟩, ?_⟩
  · intro cl hcl hf
    simp only [demoCircuit, List.mem_cons, List.not_mem_nil, or_false] at hcl
    rcases hcl with rfl | rfl | rfl | rfl | rfl
    · simp at hf
    all_goals exact ⟨by decide, 1, by decide, by decide⟩
  · intro cl hcl hf
    simp only [demoCircuit, List.mem_cons, List.not_mem_nil, or_false] at hcl
    rcases hcl with rfl | rfl | rfl | rfl | rfl
    · simp at hf
    all_goals decide
  · intro H hH' cl hcl hf k hk0 hk
    rw [hH] at hH'
    have : H = 2 := (Option.some.inj hH').symm
    subst this
    rw [demo_rows]
    simp only [demoCircuit, List.mem_cons, List.not_mem_nil, or_false] at hcl
    rcases hcl with rfl | rfl | rfl | rfl | rfl
    · simp at hf
    · have : k = 0 := by simp [Cell.placedHeight, Orient.isTurn] at hk; omega
      subst this
      exact ⟨⟨⟨0, 4, 0, 2⟩, .N⟩, by simp, by decide⟩
    · have : k = 0 := by simp [Cell.placedHeight, Orient.isTurn] at hk; omega
      subst this
      exact ⟨⟨⟨6, 10, 0, 2⟩, .N⟩, by simp, by decide⟩
    · have : k = 0 := by simp [Cell.placedHeight, Orient.isTurn] at hk; omega
      subst this
      exact ⟨⟨⟨6, 10, 0, 2⟩, .N⟩, by simp, by decide⟩
    · have : k = 0 := by simp [Cell.placedHeight, Orient.isTurn] at hk; omega
      subst this
      exact ⟨⟨⟨0, 10, 2, 4⟩, .FS⟩, by simp, by decide⟩
  · intro cl hcl hf
    rw [demo_rows]
    simp only [demoCircuit, List.mem_cons, List.not_mem_nil, or_false] at hcl
    rcases hcl with rfl | rfl | rfl | rfl | rfl
    · simp at hf
    all_goals decide

/-- the conclusion on the demo circuit, evaluated by the kernel on the executed model (binary32 and
exact key): positions unchanged -/
example : resultPositions (legalize demoParams demoCircuit) = some (positions demoCircuit) ∧
    resultPositions (legalizeExact demoParams demoCircuit) = some (positions demoCircuit) := by
  decide +kernel

/-- non-vacuity of `legalize_twice`: an illegal input of the domain (all cells piled up at the origin,
one polarised cell with the wrong orientation, a split row): the first call moves and re-orients
cells, the second call changes nothing -/
def pileCircuit : Circuit :=
  ⟨[⟨2, 2, 4, 0, .N, true, true, .ANY⟩, ⟨3, 2, 0, 0, .FN, false, false, .SAME⟩, ⟨2, 2, 0, 0, .FN, false, false, .ANY⟩,
    ⟨2, 2, 0, 0, .N, false, false, .ANY⟩, ⟨4, 2, 0, 0, .N, false, false, .OPPOSITE⟩],
   [], [⟨⟨0, 10, 0, 2⟩, .N⟩, ⟨⟨0, 10, 2, 4⟩, .FS⟩]⟩

example : DomL pileCircuit ∧ SingleRow pileCircuit := by
  constructor
  · unfold DomL; decide
  · unfold SingleRow; decide

def resultCells : Except Err Circuit → Option (List (Int × Int × Orient))
  | .ok c => some (c.cells.map fun cl => (cl.x, cl.y, cl.orient))
  | .error _ => none

def twice (p : Params) (c : Circuit) : Except Err Circuit :=
  match legalizeExact p c with
  | .ok c' => legalizeExact p c'
  | .error e => .error e

example : resultCells (legalizeExact demoParams pileCircuit)
      = some [(4, 0, .N), (0, 2, .FS), (0, 0, .FN), (2, 0, .N), (3, 2, .N)] ∧
    resultCells (twice demoParams pileCircuit) = resultCells (legalizeExact demoParams pileCircuit) := by
  decide +kernel

/-- non-vacuity of `abacus_keeps_own_row`: the context is satisfiable (fresh legalizers, one row) -/
example : SearchCtx [⟨⟨0, 10, 0, 2⟩, .N⟩] [RowLeg.State.new 0 10] ⟨3, 2, .ANY, 4, 0, .N⟩ 0 := by
  refine ⟨by decide, rfl, by simp [SortedBy], ?_, ?_, by decide, rfl, ⟨0, [], nc_new 0 10, by decide⟩, by decide,
    by decide, ?_⟩
  · intro k hk
    have : k = 0 := by simp at hk; omega
    subst this; rfl
  · intro k hk
    have : k = 0 := by simp at hk; omega
    subst this; exact ⟨[], 0, Reach.new⟩
  · intro k hk hne
    simp at hk; omega

/-- **Idempotence, single-segment core** (kept from the first round; subsumed by
`legalize_idempotent`).  For the cells of one free segment `[b, e]` listed left to right and
`0 ≤ orderingWidth ≤ 1`: their exact ordering keys are strictly increasing, pushing them in that
order costs 0 each time and `getPlacement` returns their own positions. -/
theorem legalize_idempotent_single_segment (b e : Int) (ww wy wh : Rat) (h0 : 0 ≤ ww) (h1 : ww ≤ 1) (ty hh : Int)
    (cs : List LCell) (hs : ∀ c ∈ cs, c.ty = ty ∧ c.h = hh)
    (h : InOrder e b (cs.map fun c => (c.w, c.tx))) :
    (cs.Pairwise fun c1 c2 => orderKey id ww wy wh c1 < orderKey id ww wy wh c2) ∧
    (∀ c ∈ (pushAll (State.new b e) (cs.map fun c => (c.w, c.tx))).1, c = 0) ∧
    placement (pushAll (State.new b e) (cs.map fun c => (c.w, c.tx))).2 = cs.map (·.tx) := by
  refine ⟨inOrder_pairwise e ww wy wh h0 h1 ty hh cs b hs h, ?_⟩
  have := rowleg_no_conflict b e _ h
  refine ⟨this.1, ?_⟩
  rw [this.2]
  simp [List.map_map, Function.comp_def]

/-- The witness of known finding KF-C11-1 (corpus/C11/kf1.json): one row `[0,10]`, two abutting
cells at x = 0 (width 4) and x = 4 (width 1), `orderingWidth = 2` (accepted by
`LegalizationParameters::check`). -/
def wideParams : Params := ⟨0, 2, -1, 0⟩
def wideCircuit : Circuit :=
  ⟨[⟨4, 2, 0, 0, .N, false, false, .ANY⟩, ⟨1, 2, 4, 0, .N, false, false, .ANY⟩], [], [⟨⟨0, 10, 0, 2⟩, .N⟩]⟩

/-- **Idempotence fails outside the unit interval.**  The parameters pass the check, the placement
is legal, and both the binary32 model and the exact-key model move both cells
(keys 0+2·4 = 8 > 4+2·1 = 6 invert the order). -/
theorem idempotence_fails_wide_ordering :
    wideParams.check = true ∧ positions wideCircuit = [(0, 0), (4, 0)] ∧
    resultPositions (legalize wideParams wideCircuit) = some [(1, 0), (0, 0)] ∧
    resultPositions (legalizeExact wideParams wideCircuit) = some [(1, 0), (0, 0)] := by
  decide +kernel

/-- A second way out of the property's assumption "the float key is exact", found while proving
`legalize_idempotent_binary32`: known finding KF-C11-2 (witness corpus/C11/kf2.json, replayed on the real
code on every run):
`orderingHeight` is not bounded by `LegalizationParameters::check`.  One row `[0,10]`, the cell at
x = 4 (width 1) listed before the cell at x = 0 (width 4), `orderingWidth = 1/2`,
`orderingHeight = 2^30`: in binary32 both keys round to 2^31 (the x and width terms are absorbed), the
tie is broken by index, and the compiled code swaps the cells although all coordinates are tiny and
`orderingWidth ∈ [0,1]`; with the exact key nothing moves (`legalize_idempotent`). -/
def tallParams : Params := ⟨0, 1/2, 1073741824, 0⟩
def tallCircuit : Circuit :=
  ⟨[⟨1, 2, 4, 0, .N, false, false, .ANY⟩, ⟨4, 2, 0, 0, .N, false, false, .ANY⟩], [], [⟨⟨0, 10, 0, 2⟩, .N⟩]⟩

theorem idempotence_binary32_needs_exact_key :
    tallParams.check = true ∧ 0 ≤ tallParams.ow ∧ tallParams.ow ≤ 1 ∧
    positions tallCircuit = [(4, 0), (0, 0)] ∧
    resultPositions (legalize tallParams tallCircuit) = some [(0, 0), (1, 0)] ∧
    resultPositions (legalizeExact tallParams tallCircuit) = some [(4, 0), (0, 0)] ∧
    orderKey f32 tallParams.ow tallParams.oy tallParams.oh ⟨1, 2, .ANY, 4, 0, .N⟩
      = orderKey f32 tallParams.ow tallParams.oy tallParams.oh ⟨4, 2, .ANY, 0, 0, .N⟩ := by
  decide +kernel

/-! ### binary32 rounding, and idempotence outside the KF-C11-2 class -/

/-- **binary32 rounding is monotone** (`f32`: the model's round-to-nearest-even binary32 rounding over
`Rat`, subnormals included, no overflow). -/
theorem f32_monotone (x y : Rat) (h : x ≤ y) : f32 x ≤ f32 y := f32_mono h

/-- **binary32 rounding is exact on the integers `|v| ≤ 2^24`** (cell coordinates and widths of the
property's domain, `|v| < 2^20`, are far inside). -/
theorem f32_exact_on_integers (v : Int) (hv : -16777216 ≤ v ∧ v ≤ 16777216) : f32 (v : Rat) = (v : Rat) :=
  f32_exact_int v hv

/-- **binary32 rounding is exact on dyadic rationals with at most 24 significant bits**: `m·2^k`,
`|m| ≤ 2^24`, down to the subnormal exponent `k ≥ −149`. -/
theorem f32_exact_on_dyadics (m k : Int) (hm : -16777216 ≤ m ∧ m ≤ 16777216) (hk : -149 ≤ k) :
    f32 ((m : Rat) * pow2 k) = (m : Rat) * pow2 k :=
  f32_exact_dyadic m k hm hk

/-- the bounds are tight and the rounding is not the identity: `2^24 + 1` rounds to `2^24` (tie to even),
`2^24 + 3` to `2^24 + 4`, `1/10` is not a binary32 value, `3·2^−149` is a (subnormal) one, `2^−150`
rounds to 0 (tie to even) -/
example : f32 16777217 = 16777216 ∧ f32 16777219 = 16777220 ∧ f32 (1 / 10) ≠ 1 / 10 ∧
    f32 (3 * pow2 (-149)) = 3 * pow2 (-149) ∧ f32 (pow2 (-150)) = 0 ∧ f32 (-(1 / 3)) = -f32 (1 / 3) := by
  decide +kernel

/-- **Order preservation in binary32.**  `order_never_inverted_rounded` instantiated with the compiled
rounding: for `0 ≤ orderingWidth ≤ 1`, two cells of one row with x and width `≤ 2^24` in absolute value,
the first entirely left of the second, *every* `orderingY` and `orderingHeight` (however large): the
binary32 key of the left cell never exceeds the key of the right one; the computed order differs from the
left-to-right order only on an exact tie of the rounded keys with inverted indices.  So under these
bounds the class of KF-C11-2 consists of index-inverted ties only. -/
theorem order_never_inverted_binary32 (ww wy wh : Rat) (h0 : 0 ≤ ww) (h1 : ww ≤ 1) (c1 c2 : LCell) (i1 i2 : Nat)
    (hy : c1.ty = c2.ty) (hh : c1.h = c2.h) (hw1 : 0 < c1.w) (hw2 : 0 < c2.w) (hx : c1.tx + c1.w ≤ c2.tx)
    (x1 : -16777216 ≤ c1.tx ∧ c1.tx ≤ 16777216) (x2 : -16777216 ≤ c2.tx ∧ c2.tx ≤ 16777216)
    (w1 : c1.w ≤ 16777216) (w2 : c2.w ≤ 16777216) :
    keyLt (orderKey f32 ww wy wh c2, i2) (orderKey f32 ww wy wh c1, i1) = true →
      orderKey f32 ww wy wh c1 = orderKey f32 ww wy wh c2 ∧ i2 < i1 :=
  order_never_inverted_rounded f32 (fun _ _ h => f32_mono h) f32_zero f32_one ww wy wh h0 h1 c1 c2 i1 i2 hy hh hw1 hw2 hx
    (f32_exact_int _ x1) (f32_exact_int _ x2) (f32_exact_int _ ⟨by omega, w1⟩) (f32_exact_int _ ⟨by omega, w2⟩)

/-- **The KF-C11-2 classifier is the negation of the order-keeping hypothesis.**  `kf2ClassSeg` is the
executable classifier the driver runs against the harness' own binary32 computation (op `kf2`): some cell
entirely left of another one *in the same free segment* has the larger rounded key, or the same key and
the larger index.  It is false exactly when `KeyOrderSeg` holds, which is all the idempotence proof needs
of the key (the visiting order of cells of different segments is irrelevant). -/
theorem kf2_class_iff_not_key_order (rnd : Rat → Rat) (p : Params) (R : List Row) (cells : List LCell) :
    kf2ClassSeg rnd p R cells = false ↔ KeyOrderSeg rnd p R cells :=
  kf2ClassSeg_false_iff rnd p R cells

/-- **Idempotence for any key rounding that keeps the left-to-right order inside every free segment**
(strengthens `legalize_idempotent_any_key`: pairs of cells of different segments need not be ordered). -/
theorem legalize_idempotent_any_key_seg (rnd : Rat → Rat) (p : Params) (c : Circuit) (hp : p.check = true)
    (hd : DomC c) (hs : SingleRow c) (hl : LegalC c) (ho : OrientLegal c)
    (hk : KeyOrderSeg rnd p c.computeRows (movable c)) :
    legalizeWith rnd p c = .ok c :=
  legalizeWith_fixed_seg rnd p c hp hd hs hl ho hk

/-- **Idempotence, binary32 key as compiled, outside the class of KF-C11-2.**  `0 ≤ orderingWidth ≤ 1`,
x and width of the movable cells `≤ 2^24` in absolute value (`SmallCoords`; the property says `< 2^20`),
every accepted `orderingY`/`orderingHeight`, and no two cells of one free segment, one entirely left of the
other, whose binary32 keys are *equal* with the left cell having the larger index (`NoInvertedTie`; by
`order_never_inverted_binary32` this is all that is left of the KF-C11-2 class under these bounds).  Then
the compiled `legalize` returns the circuit itself.  No exactness of the key is assumed: `f32` is monotone
and exact on the integer data, so rounding can merge keys but never invert them. -/
theorem legalize_idempotent_binary32_classified (p : Params) (c : Circuit) (hp : p.check = true)
    (h0 : 0 ≤ p.ow) (h1 : p.ow ≤ 1) (hd : DomC c) (hs : SingleRow c) (hl : LegalC c) (ho : OrientLegal c)
    (hsmall : SmallCoords (movable c)) (hnokf : NoInvertedTie p c.computeRows (movable c)) :
    legalize p c = .ok c :=
  legalizeWith_fixed_seg f32 p c hp hd hs hl ho (keyOrderSeg_f32_of_noInvertedTie p h0 h1 _ _ hsmall hnokf)

/-- **The same with the executable classifier** `kf2 p c = kf2ClassSeg f32 p c.computeRows (movable c)`
(whatever `orderingWidth` and the coordinate sizes): a legal single-row placement on which the classifier
is false is a fixed point of the compiled `legalize`.  For `orderingWidth ∉ [0,1]` (KF-C11-1) the class
also contains the strict inversions. -/
theorem legalize_idempotent_binary32_not_kf2 (p : Params) (c : Circuit) (hp : p.check = true)
    (hd : DomC c) (hs : SingleRow c) (hl : LegalC c) (ho : OrientLegal c) (hk : kf2 p c = false) :
    legalize p c = .ok c :=
  legalizeWith_fixed_seg f32 p c hp hd hs hl ho ((kf2ClassSeg_false_iff f32 p _ _).mp hk)

/-- legalizing twice = legalizing once for the compiled key when the first result is outside the class -/
theorem legalize_twice_binary32_not_kf2 (p : Params) (c c' : Circuit) (hd : DomL c) (hs : SingleRow c)
    (hfirst : legalize p c = .ok c') (hk : kf2 p c' = false) :
    legalize p c' = .ok c' :=
  legalizeWith_twice_seg f32 p c c' hd hs hfirst ((kf2ClassSeg_false_iff f32 p _ _).mp hk)

/-- non-vacuity: the demo circuit (hypotheses `DomC … OrientLegal` shown above) is outside the class, has
small coordinates and no inverted tie. -/
example : kf2 demoParams demoCircuit = false ∧ SmallCoords (movable demoCircuit) ∧
    NoInvertedTie demoParams demoCircuit.computeRows (movable demoCircuit) := by
  have h : kf2 demoParams demoCircuit = false := by decide +kernel
  refine ⟨h, by unfold SmallCoords; decide,
    noInvertedTie_of_keyOrderSeg _ _ _ ((kf2ClassSeg_false_iff f32 _ _ _).mp h)⟩

/-- a row `[0,10]` cut by a fixed obstruction at `[4,6)`, the cell of the right segment listed before the
cell of the left segment, `orderingHeight = 2^30` -/
def splitCircuit : Circuit :=
  ⟨[⟨2, 2, 4, 0, .N, true, true, .ANY⟩, ⟨2, 2, 7, 0, .N, false, false, .ANY⟩, ⟨2, 2, 1, 0, .N, false, false, .ANY⟩],
   [], [⟨⟨0, 10, 0, 2⟩, .N⟩]⟩

/-- The class on the witnesses.  The KF-C11-2 witness is inside the class for the binary32 key and outside
for the exact key; with the same `orderingHeight = 2^30` and the cells listed left to right the keys still
tie but the index order agrees: outside the class, and stable.  On `splitCircuit` the keys tie and the
indices are inverted, but the two cells sit in different free segments: inside the row-wide class
`kf2Class`, outside the classifier `kf2`, and the compiled `legalize` moves nothing. -/
theorem kf2_witness_in_class :
    kf2 tallParams tallCircuit = true ∧ kf2ClassSeg id tallParams tallCircuit.computeRows (movable tallCircuit) = false ∧
    kf2 tallParams ⟨tallCircuit.cells.reverse, [], tallCircuit.rows⟩ = false ∧
    resultPositions (legalize tallParams ⟨tallCircuit.cells.reverse, [], tallCircuit.rows⟩) = some [(0, 0), (4, 0)] ∧
    kf2Class f32 tallParams (movable splitCircuit) = true ∧ kf2 tallParams splitCircuit = false ∧
    resultPositions (legalize tallParams splitCircuit) = some (positions splitCircuit) := by
  decide +kernel

end ColoVerif.C11
