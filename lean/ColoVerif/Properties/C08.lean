import ColoVerif.Proofs.SchedProofs
import ColoVerif.Gen.InitTable
import ColoVerif.Proofs.InitOrderProofs
/-
C08 — placement is deterministic and independent of thread scheduling (the protocol part).

`Gen.Async.facts` is regenerated on every run from the AST of `GlobalPlacer::runLB` and from the
symbol tables of the library; `Model/Sched.lean` derives from it which locations every step of the
two-task protocol reads and writes.  The theorems below are about that derived protocol:
they break when an argument of std::async is passed through `std::ref`/a pointer, when the callee
stops being `const`, when both tasks are bound to the same object and write it, when a mutable
static or `mutable` member appears in the library, or when the launching thread reads a result
before joining.
Not covered here (see PARTIAL in tools/props/C08.py): the real memory accesses inside
`solveWithPenalty` (Eigen, allocator) — ThreadSanitizer build in the thorough tier.
-/
namespace ColoVerif.C08
open ColoVerif.Sched ColoVerif.Gen.Async

/-- The extracted facts are the expected ones: both launches use `std::launch::async`; the bound
objects are the addresses of two different members; the callee is a `const` member function; every
further argument is passed by value; the launching thread joins both futures before the callback
and executes no statement of unknown effect before the later of the two joins (what it does after
both joins - the finiteness checks of the results - is sequential and stays in the protocol as
`other` steps); no mutable static-storage object and no `mutable` member exists in the library. -/
theorem async_facts :
    facts.callX.policyAsync = true ∧ facts.callY.policyAsync = true ∧
    facts.callX.boundIsAddressOfMember = true ∧ facts.callY.boundIsAddressOfMember = true ∧
    facts.callX.boundVar ≠ facts.callY.boundVar ∧
    facts.callX.calleeConst = true ∧ facts.callY.calleeConst = true ∧
    (∀ a ∈ facts.callX.args ++ facts.callY.args, a.mode = .byValue) ∧
    getsPrecedeCallback facts = true ∧
    facts.mutableStatics.isEmpty = true ∧ facts.mutableMembers.isEmpty = true := by
  decide

/-- No two steps that are unordered by happens-before (program order, launch → task, task → get)
access a common location with at least one write — given the extracted facts. -/
theorem no_conflicting_access :
    ∀ s ∈ allSteps facts, ∀ t ∈ allSteps facts, s ≠ t → hb facts s t = false → hb facts t s = false →
      conflict (access facts s) (access facts t) = false := by
  decide

/-- The happens-before relation used above is exactly the order the scheduler enforces: `s` happens
before `t` iff `s` precedes `t` in every complete execution. -/
theorem hb_matches_scheduler :
    ∀ s ∈ allSteps facts, ∀ t ∈ allSteps facts, s ≠ t →
      (hb facts s t = true ↔ ∀ c ∈ completeRuns facts, beforeIn c.tr s t = true) := by
  decide

/-- Finite core of schedule independence (symbolic values): every complete execution of the
protocol found by the exhaustive walk ends in the state of the sequential schedule, which is
itself complete. -/
theorem complete_runs_canonical :
    (∀ c ∈ completeRuns facts, c.st = canonSymState facts) ∧
    ((runSched facts symF (canonSched facts) (symInit facts)).map (fun c => terminated facts c.p)) = some true := by
  decide

/-- **Schedule independence of one lower-bound step.**  For every value domain `V`, every meaning
`f` of the steps' computations, every initial state `σ` and every linearisation `sched` consistent
with happens-before (`runSched` succeeds) that is complete (`terminated`): the pair of results and
the whole final state equal those of the sequential schedule. -/
theorem lb_schedule_independent {V : Type} [Inhabited V] (f : Step → Loc → List V → V) (σ : Loc → V)
    (sched : List Tid) (c' : Cfg V)
    (h : runSched facts f sched (initCfg facts σ) = some c') (ht : terminated facts c'.p = true) :
    c'.st = canonState facts f σ := by
  rw [← initCfg_image f σ facts, runSched_image] at h
  cases hs : runSched facts symF sched (symInit facts) with
  | none => rw [hs] at h; cases h
  | some cs =>
    rw [hs] at h
    simp only [Option.map_some, Option.some.injEq] at h
    subst h
    have hlen : sched.length = totalSteps facts := by
      have h1 := runSched_sum facts symF sched _ _ hs
      have h2 := terminated_sum facts cs.p ht
      have h3 : (symInit facts).p.sum = 0 := rfl
      omega
    have hmem : cs ∈ completeRuns facts := by
      simp only [completeRuns, List.mem_filter]
      exact ⟨run_mem_explore facts sched _ _ _ hs (by omega), ht⟩
    have hc := complete_runs_canonical.1 cs hmem
    show cs.st.map (Val.eval f σ) = canonState facts f σ
    rw [hc]
    unfold canonState canonSymState
    rw [← initCfg_image f σ facts, runSched_image]
    cases runSched facts symF (canonSched facts) (symInit facts) with
    | none => rfl
    | some cc => rfl

/-- non-vacuity: the sequential schedule is a complete linearisation, for every `V`, `f`, `σ`. -/
theorem canonical_schedule_complete {V : Type} [Inhabited V] (f : Step → Loc → List V → V) (σ : Loc → V) :
    ∃ c, runSched facts f (canonSched facts) (initCfg facts σ) = some c ∧ terminated facts c.p = true := by
  rw [← initCfg_image f σ facts, runSched_image]
  have h := complete_runs_canonical.2
  cases hr : runSched facts symF (canonSched facts) (symInit facts) with
  | none => rw [hr] at h; cases h
  | some cc =>
    rw [hr] at h
    simp only [Option.map_some, Option.some.injEq] at h
    exact ⟨Cfg.image f σ cc, rfl, h⟩

/-- **Lifted over the number of lower-bound steps** (induction): whatever complete linearisation
each of the consecutive lower-bound steps follows, the state after the last one is the state the
sequential schedules produce. -/
theorem lb_steps_schedule_independent {V : Type} [Inhabited V] (f : Step → Loc → List V → V) :
    ∀ (scheds : List (List Tid)) (σ τ : Loc → V),
      lbSteps facts f scheds σ = some τ → τ = canonIter facts f scheds.length σ := by
  intro scheds
  induction scheds with
  | nil => intro σ τ h; simp [lbSteps] at h; simp [canonIter, h]
  | cons s ss ih =>
    intro σ τ h
    simp only [lbSteps] at h
    cases hl : lbStep facts f s σ with
    | none => rw [hl] at h; cases h
    | some τ1 =>
      rw [hl] at h
      have hτ1 : τ1 = canonStep facts f σ := by
        unfold lbStep at hl
        cases hr : runSched facts f s (initCfg facts σ) with
        | none => rw [hr] at hl; cases hl
        | some c =>
          rw [hr] at hl
          simp only [] at hl
          by_cases ht : terminated facts c.p = true
          · rw [if_pos ht] at hl
            cases hl
            unfold canonStep
            rw [lb_schedule_independent f σ s c hr ht]
          · rw [if_neg ht] at hl; cases hl
      subst hτ1
      simpa [canonIter] using ih _ _ h

/-! ## Definite initialisation of scalar members (static table + straight-line order model)

`Gen.InitTable.table` is regenerated on every run from the clang AST of all translation units of
src/place_global, src/place_detailed and src/coloquinte.cpp (`tools/gen/InitTable.py`): every scalar data member
of every class defined there (and of `Circuit`), every constructor and member function as a list of events about
the members of the object it runs on, and every place that creates an object of a class some constructor of
which leaves a member unset, together with what happens to that object afterwards (`lifecycles`, e.g.
`GlobalPlacer pl(circuit, params); pl.run(); pl.exportPlacement(circuit);` in `GlobalPlacer::place`, where `run`
calls `runInitialLB`, assigns `penalty_` / `approximationDistance_` / `penaltyCutoffDistance_`, and only then
reaches `runLB`, `computeIterationPerCellPenalty` and the H5 log that read them).
`Model/InitOrder.lean` walks the events keeping the set of members written on every path (`alt`: intersection;
`opaque` loops: reads checked, writes dropped; `ret`/`stop`).  Not path-sensitive; values are not modelled. -/
section InitTable
open ColoVerif.InitOrder ColoVerif.Gen.InitTable

/-- The generated table is well-formed: ids in range, every class with a member that some constructor leaves
unset has one lifecycle per construction site found in the analysed files, every lifecycle starts with the
construction. -/
theorem init_table_wellformed : tableWf table = true := by
  decide +kernel

/-- The column `ctorInit` of the table is what the walk computes from the constructors' event lists: a member
is marked constructor-initialised iff the class has a constructor and every constructor (other than copy / move)
writes it on every path before returning, without reading any member of the object too early. -/
theorem ctor_verdicts_recomputed :
    ∀ c ∈ table.classes, ∀ v ∈ c.members, v.ctorInit = ctorVerdict table c.ctors v.id := by
  have h : table.classes.all (classVerdictsOk table) = true := by decide +kernel
  intro c hc v hv
  have h1 := (List.all_eq_true.mp h) c hc
  have h2 := (List.all_eq_true.mp h1) v hv
  exact eq_of_beq h2

/-- **Every listed scalar member is written before it is read.**  For every class of the table and every scalar
member `v` of it: either every constructor initialises `v` (`ctorVerdict`, recomputed from the constructors'
events), or the class is `weak` and then every place that creates an object of it is a listed lifecycle
(`init_table_wellformed`) and in every lifecycle the walk - construction first, then the statements that touch
the object in source order, member functions inlined, `if` as meet, loop bodies as `opaque` - finds no read of a
member that is not written on every path before it (no early read, no recursion, no unknown function). -/
theorem members_initialised_before_read :
    (∀ c ∈ table.classes, ∀ v ∈ c.members,
        ctorVerdict table c.ctors v.id = true ∨
        (weak c = true ∧ (table.lifecycles.filter (fun l => l.cls == c.name)).length = c.sites)) ∧
    (∀ l ∈ table.lifecycles, (walk table l.events).bad = [] ∧ (walk table l.events).stuck = false) := by
  have hok : table.lifecycles.all (lifecycleOk table) = true := by decide +kernel
  have hwf : table.classes.all (fun c => !weak c || (table.lifecycles.filter (fun l => l.cls == c.name)).length == c.sites) = true := by
    decide +kernel
  refine ⟨?_, ?_⟩
  · intro c hc v hv
    have hv' := ctor_verdicts_recomputed c hc v hv
    cases hci : v.ctorInit with
    | true => left; rw [← hv', hci]
    | false =>
      right
      have hw : weak c = true := by
        simp only [weak, List.any_eq_true]
        exact ⟨v, hv, by simp [hci]⟩
      have h1 := (List.all_eq_true.mp hwf) c hc
      rw [hw] at h1
      exact ⟨hw, by simpa using h1⟩
  · intro l hl
    have h1 := (List.all_eq_true.mp hok) l hl
    simp only [lifecycleOk, clean, Bool.and_eq_true, List.isEmpty_iff, Bool.not_eq_true'] at h1
    exact h1

/-- non-vacuity: the table lists `GlobalPlacer` with the members that its constructor leaves unset, and the
lifecycle in `GlobalPlacer::place`. -/
example : (table.classes.any (fun c => c.name == "GlobalPlacer" && weak c) &&
           table.lifecycles.any (fun l => l.cls == "GlobalPlacer" && l.function == "GlobalPlacer::place")) = true := by
  decide +kernel

/-! ### negative witnesses: the walk is not trivially satisfied

A hand-written table of the shape of seeded change C08-m2: member 0 (`approximationDistance_`) is left unset by
the constructor (function 0), `run` (1) calls `runInitialLB` (2) first and assigns the member afterwards;
in `m2Bad` `runInitialLB` reads it, in `m2Good` only `runLB` (3, called after the assignment, inside the loop) does. -/
def m2Members : List MemberRow := [⟨"GlobalPlacer", "approximationDistance_", "float", .floating, "", 0⟩,
                                   ⟨"GlobalPlacer", "step_", "int", .integer, "", 0⟩]
def m2Classes : List ClassRow := [⟨"GlobalPlacer", "", 0, [⟨0, false, "", ""⟩, ⟨1, false, "", ""⟩], [0], 0, 1⟩]
def m2Life : List Lifecycle := [⟨"GlobalPlacer", "GlobalPlacer::place", "", 0, "pl", .localVar, [.call 0, .call 1]⟩]
def m2Fns (initialLB : List Ev) : List Fn :=
  [⟨"GlobalPlacer::GlobalPlacer", "", 0, []⟩,
   ⟨"GlobalPlacer::run", "", 0, [.call 2, .write 0, .write 1, .read 1, .opaque [.read 1, .call 3, .read 0, .write 0]]⟩,
   ⟨"GlobalPlacer::runInitialLB", "", 0, initialLB⟩,
   ⟨"GlobalPlacer::runLB", "", 0, [.read 0]⟩]
def m2Good : Table := ⟨m2Members, m2Fns [.write 1, .read 1, .opaque [.read 1]], m2Classes, m2Life⟩
def m2Bad : Table := ⟨m2Members, m2Fns [.read 0, .write 1, .read 1, .opaque [.read 1]], m2Classes, m2Life⟩

theorem walk_accepts_write_then_read : tableOk m2Good = true := by decide +kernel

/-- the C08-m2 shape is rejected, and the walk names the member -/
theorem walk_rejects_read_before_write :
    tableOk m2Bad = false ∧ m2Bad.lifecycles.map (earlyReads m2Bad) = [["GlobalPlacer::approximationDistance_"]] := by
  decide +kernel

/-- a write under a condition or inside a loop does not count (`alt` with an empty branch, `opaque`), a write in
both branches does; a write after an early `return` does not count for the caller; recursion is refused. -/
theorem walk_conservative_cases :
    (run [] 100 [.alt [.write 0] [], .read 0] start).bad = [0] ∧
    (run [] 100 [.opaque [.write 0], .read 0] start).bad = [0] ∧
    (run [] 100 [.alt [.write 0] [.write 0, .write 1], .read 0] start).bad = [] ∧
    (run [] 100 [.alt [.write 0] [.stop], .read 0] start).bad = [] ∧
    (run [⟨"f", "", 0, [.alt [.ret] [], .write 0]⟩] 100 [.call 0, .read 0] start).bad = [0] ∧
    (run [⟨"f", "", 0, [.write 0, .alt [.ret] [], .write 1]⟩] 100 [.call 0, .read 0, .read 1] start).bad = [1] ∧
    (run [⟨"f", "", 0, [.call 0]⟩] 100 [.call 0] start).stuck = true := by
  decide +kernel

/-! ### what the walk means: executions

`Proofs/InitOrderProofs.lean` gives the events a trace semantics (`Exec`: any branch at every `alt`, any number of
possibly interrupted runs of every `opaque` block, calls expanded) and proves the walk sound for it
(`exec_sound`, by induction over executions, for every function table).  Instantiated with the generated table: -/

/-- **In every execution of every lifecycle, every read of a scalar member is preceded by a write of it.** -/
theorem no_read_before_write_in_any_execution :
    ∀ l ∈ table.lifecycles, ∀ tr o, Exec table.fns l.events tr o → good [] tr := by
  intro l hl
  have h := (members_initialised_before_read.2 l hl)
  exact walk_sound table l.events (by simp [clean, h.1, h.2])

/-- A member marked `ctorInit` is written in every execution of every constructor of its class that returns, and
the constructor reads no member before writing it. -/
theorem ctor_initialised_in_every_execution :
    ∀ c ∈ table.classes, ∀ v ∈ c.members, v.ctorInit = true → ∀ f ∈ c.ctors,
      ∀ tr, Exec table.fns [.call f] tr .norm → v.id ∈ after [] tr ∧ good [] tr := by
  intro c hc v hv hci f hf
  have h1 := ctor_verdicts_recomputed c hc v hv
  rw [hci] at h1
  have h2 : c.ctors.all (fun f => definitelyWrites table f v.id) = true := by
    have := h1.symm
    simp only [ctorVerdict, Bool.and_eq_true] at this
    exact this.2
  exact definitelyWrites_sound table f v.id ((List.all_eq_true.mp h2) f hf)

/-- non-vacuity of the semantics: the accepted hand-written table has an execution (constructor, `run` with
`runInitialLB` inlined, loop not entered), and in the rejected one the same path reads member 0 first. -/
example : Exec m2Good.fns [.call 0, .call 1] [.w 1, .r 1, .w 0, .w 1, .r 1] .norm :=
  .callDone (o1 := .norm) (t1 := []) (t2 := [.w 1, .r 1, .w 0, .w 1, .r 1]) rfl .nil (by decide)
    (.callDone (o1 := .norm) (t1 := [.w 1, .r 1, .w 0, .w 1, .r 1]) (t2 := []) rfl
      (.callDone (o1 := .norm) (t1 := [.w 1, .r 1]) (t2 := [.w 0, .w 1, .r 1]) rfl
        (.write (.read (.opaqueDone .nil))) (by decide)
        (.write (.write (.read (.opaqueDone .nil)))))
      (by decide) .nil)

example : ∃ tr o, Exec m2Bad.fns [.call 0, .call 1] tr o ∧ ¬ good [] tr :=
  ⟨[.r 0, .w 1, .r 1, .w 0, .w 1, .r 1], .norm,
   .callDone (o1 := .norm) (t1 := []) (t2 := [.r 0, .w 1, .r 1, .w 0, .w 1, .r 1]) rfl .nil (by decide)
    (.callDone (o1 := .norm) (t1 := [.r 0, .w 1, .r 1, .w 0, .w 1, .r 1]) (t2 := []) rfl
      (.callDone (o1 := .norm) (t1 := [.r 0, .w 1, .r 1]) (t2 := [.w 0, .w 1, .r 1]) rfl
        (.read (.write (.read (.opaqueDone .nil)))) (by decide)
        (.write (.write (.read (.opaqueDone .nil)))))
      (by decide) .nil),
   by simp [good]⟩

end InitTable

end ColoVerif.C08
