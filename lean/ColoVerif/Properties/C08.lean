import ColoVerif.Proofs.SchedProofs
/-
C08 — placement is deterministic and independent of thread scheduling (the protocol part).

`Gen.Async.facts` is regenerated on every run from the AST of `GlobalPlacer::runLB` and from the
symbol tables of the library; `Model/Sched.lean` derives from it which locations every step of the
two-task protocol reads and writes.  The theorems below are about that derived protocol:
they break when an argument of std::async is passed through `std::ref`/a pointer, when the callee
stops being `const`, when both tasks are bound to the same object and write it, when a mutable
static or `mutable` member appears in the library, or when the launching thread reads a result
before joining.
Not covered here (see PARTIAL in tools/props/C08.py): the real memory accesses inside
`solveWithPenalty` (Eigen, allocator) — ThreadSanitizer build in the thorough tier.
-/
namespace ColoVerif.C08
open ColoVerif.Sched ColoVerif.Gen.Async

/-- The extracted facts are the expected ones: both launches use `std::launch::async`; the bound
objects are the addresses of two different members; the callee is a `const` member function; every
further argument is passed by value; the launching thread joins both futures before the callback
and executes no statement of unknown effect before the later of the two joins (what it does after
both joins - the finiteness checks of the results - is sequential and stays in the protocol as
`other` steps); no mutable static-storage object and no `mutable` member exists in the library. -/
theorem async_facts :
    facts.callX.policyAsync = true ∧ facts.callY.policyAsync = true ∧
    facts.callX.boundIsAddressOfMember = true ∧ facts.callY.boundIsAddressOfMember = true ∧
    facts.callX.boundVar ≠ facts.callY.boundVar ∧
    facts.callX.calleeConst = true ∧ facts.callY.calleeConst = true ∧
    (∀ a ∈ facts.callX.args ++ facts.callY.args, a.mode = .byValue) ∧
    getsPrecedeCallback facts = true ∧
    facts.mutableStatics.isEmpty = true ∧ facts.mutableMembers.isEmpty = true := by
  decide

/-- No two steps that are unordered by happens-before (program order, launch → task, task → get)
access a common location with at least one write — given the extracted facts. -/
theorem no_conflicting_access :
    ∀ s ∈ allSteps facts, ∀ t ∈ allSteps facts, s ≠ t → hb facts s t = false → hb facts t s = false →
      conflict (access facts s) (access facts t) = false := by
  decide

/-- The happens-before relation used above is exactly the order the scheduler enforces: `s` happens
before `t` iff `s` precedes `t` in every complete execution. -/
theorem hb_matches_scheduler :
    ∀ s ∈ allSteps facts, ∀ t ∈ allSteps facts, s ≠ t →
      (hb facts s t = true ↔ ∀ c ∈ completeRuns facts, beforeIn c.tr s t = true) := by
  decide

/-- Finite core of schedule independence (symbolic values): every complete execution of the
protocol found by the exhaustive walk ends in the state of the sequential schedule, which is
itself complete. -/
theorem complete_runs_canonical :
    (∀ c ∈ completeRuns facts, c.st = canonSymState facts) ∧
    ((runSched facts symF (canonSched facts) (symInit facts)).map (fun c => terminated facts c.p)) = some true := by
  decide

/-- **Schedule independence of one lower-bound step.**  For every value domain `V`, every meaning
`f` of the steps' computations, every initial state `σ` and every linearisation `sched` consistent
with happens-before (`runSched` succeeds) that is complete (`terminated`): the pair of results and
the whole final state equal those of the sequential schedule. -/
theorem lb_schedule_independent {V : Type} [Inhabited V] (f : Step → Loc → List V → V) (σ : Loc → V)
    (sched : List Tid) (c' : Cfg V)
    (h : runSched facts f sched (initCfg facts σ) = some c') (ht : terminated facts c'.p = true) :
    c'.st = canonState facts f σ := by
  rw [← initCfg_image f σ facts, runSched_image] at h
  cases hs : runSched facts symF sched (symInit facts) with
  | none => rw [hs] at h; cases h
  | some cs =>
    rw [hs] at h
    simp only [Option.map_some, Option.some.injEq] at h
    subst h
    have hlen : sched.length = totalSteps facts := by
      have h1 := runSched_sum facts symF sched _ _ hs
      have h2 := terminated_sum facts cs.p ht
      have h3 : (symInit facts).p.sum = 0 := rfl
      omega
    have hmem : cs ∈ completeRuns facts := by
      simp only [completeRuns, List.mem_filter]
      exact ⟨run_mem_explore facts sched _ _ _ hs (by omega), ht⟩
    have hc := complete_runs_canonical.1 cs hmem
    show cs.st.map (Val.eval f σ) = canonState facts f σ
    rw [hc]
    unfold canonState canonSymState
    rw [← initCfg_image f σ facts, runSched_image]
    cases runSched facts symF (canonSched facts) (symInit facts) with
    | none => rfl
    | some cc => rfl

/-- non-vacuity: the sequential schedule is a complete linearisation, for every `V`, `f`, `σ`. -/
theorem canonical_schedule_complete {V : Type} [Inhabited V] (f : Step → Loc → List V → V) (σ : Loc → V) :
    ∃ c, runSched facts f (canonSched facts) (initCfg facts σ) = some c ∧ terminated facts c.p = true := by
  rw [← initCfg_image f σ facts, runSched_image]
  have h := complete_runs_canonical.2
  cases hr : runSched facts symF (canonSched facts) (symInit facts) with
  | none => rw [hr] at h; cases h
  | some cc =>
    rw [hr] at h
    simp only [Option.map_some, Option.some.injEq] at h
    exact ⟨Cfg.image f σ cc, rfl, h⟩

/-- **Lifted over the number of lower-bound steps** (induction): whatever complete linearisation
each of the consecutive lower-bound steps follows, the state after the last one is the state the
sequential schedules produce. -/
theorem lb_steps_schedule_independent {V : Type} [Inhabited V] (f : Step → Loc → List V → V) :
    ∀ (scheds : List (List Tid)) (σ τ : Loc → V),
      lbSteps facts f scheds σ = some τ → τ = canonIter facts f scheds.length σ := by
  intro scheds
  induction scheds with
  | nil => intro σ τ h; simp [lbSteps] at h; simp [canonIter, h]
  | cons s ss ih =>
    intro σ τ h
    simp only [lbSteps] at h
    cases hl : lbStep facts f s σ with
    | none => rw [hl] at h; cases h
    | some τ1 =>
      rw [hl] at h
      have hτ1 : τ1 = canonStep facts f σ := by
        unfold lbStep at hl
        cases hr : runSched facts f s (initCfg facts σ) with
        | none => rw [hr] at hl; cases hl
        | some c =>
          rw [hr] at hl
          simp only [] at hl
          by_cases ht : terminated facts c.p = true
          · rw [if_pos ht] at hl
            cases hl
            unfold canonStep
            rw [lb_schedule_independent f σ s c hr ht]
          · rw [if_neg ht] at hl; cases hl
      subst hτ1
      simpa [canonIter] using ih _ _ h

end ColoVerif.C08
