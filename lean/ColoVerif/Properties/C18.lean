import ColoVerif.Model.Expand
namespace ColoVerif.C18
end ColoVerif.C18
