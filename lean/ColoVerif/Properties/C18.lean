import ColoVerif.Proofs.Expand
/-
C18 — cell expansion respects density caps and never touches fixed cells.

All theorems are about the definitions of `Model/Expand.lean`, which the driver `drv_C18` executes
against `Circuit::expandCellsToDensity`, `expandCellsByFactor`, `computeCellExpansion` and
`computeRowPlacementArea`.  They are over exact rationals: floating-point rounding is not modelled
(see `PARTIAL` in tools/props/C18.py).  `FrameCell a b` (Proofs/Expand.lean): `b` is `a` except possibly
for its width, and `b = a` when `a` is fixed.  `NonnegSizes`: movable cells have non-negative sizes (the
property's domain).  `expandCellsByFactor` is the repaired function (fixes/expand-by-factor-area.diff);
`legacy_byFactor_exceeds_cap` shows that the unrepaired one breaks the cap.
-/
namespace ColoVerif.C18
open ColoVerif ColoVerif.Expand

/-! ### frame -/

/-- `expandCellsToDensity` changes only widths of movable cells. -/
theorem expand_frame (c : Circuit) (target margin maxExp : Rat) :
    (expandCellsToDensity c target margin maxExp).rows = c.rows ∧
    (expandCellsToDensity c target margin maxExp).nets = c.nets ∧
    (expandCellsToDensity c target margin maxExp).cells.length = c.cells.length ∧
    ∀ i, FrameCell (c.cell i) ((expandCellsToDensity c target margin maxExp).cell i) := by
  unfold expandCellsToDensity
  split
  · exact ⟨rfl, rfl, rfl, fun i => FrameCell.refl _⟩
  · exact ⟨rfl, rfl, expandCells_length _ _ _ _, fun i => frame_expandCells _ _ _ _ i⟩

/-- `expandCellsByFactor` changes only widths of movable cells (and nothing when it throws). -/
theorem expand_frame_byFactor (c c' : Circuit) (efs : List Rat) (maxD margin ret : Rat)
    (h : expandCellsByFactor c efs maxD margin = some (c', ret)) :
    c'.rows = c.rows ∧ c'.nets = c.nets ∧ c'.cells.length = c.cells.length ∧
    ∀ i, FrameCell (c.cell i) (c'.cell i) := by
  unfold expandCellsByFactor at h
  split at h
  · simp at h
  · simp only [Option.some.injEq] at h
    unfold byFactorWith at h
    split at h
    · obtain ⟨rfl, _⟩ := Prod.mk.inj h
      exact ⟨rfl, rfl, rfl, fun i => FrameCell.refl _⟩
    · split at h
      · obtain ⟨rfl, _⟩ := Prod.mk.inj h
        exact ⟨rfl, rfl, rfl, fun i => FrameCell.refl _⟩
      · obtain ⟨rfl, _⟩ := Prod.mk.inj h
        exact ⟨rfl, rfl, applyFactors_length _ _, fun i => frame_applyFactors _ _ i⟩

/-! ### no-op when already dense -/

/-- No movable area, no row area, or density already at the target: nothing changes. -/
theorem noop_when_dense (c : Circuit) (target margin maxExp : Rat)
    (h : movableArea c.cells = 0 ∨ rowPlacementArea c margin = 0 ∨
      (movableArea c.cells : Rat) / (rowPlacementArea c margin : Rat) ≥ target) :
    expandCellsToDensity c target margin maxExp = c := by
  unfold expandCellsToDensity
  rw [if_pos (show densityNoop c target margin from h)]

theorem noop_when_dense_byFactor (c : Circuit) (efs : List Rat) (maxD margin : Rat)
    (hvalid : ¬ (efs.length ≠ c.cells.length ∨ efs.any (fun e => decide (e < minFactor)) = true))
    (h : movableArea c.cells = 0 ∨ rowPlacementArea c margin = 0 ∨ density c margin ≥ maxD) :
    expandCellsByFactor c efs maxD margin = some (c, 1) := by
  unfold expandCellsByFactor
  rw [if_neg hvalid]
  unfold byFactorWith
  by_cases h0 : movableArea c.cells = 0 ∨ rowPlacementArea c margin = 0
  · rw [if_pos h0]
  · rw [if_neg h0]
    have : density c margin ≥ maxD := by
      rcases h with h | h | h
      · exact absurd (Or.inl h) h0
      · exact absurd (Or.inr h) h0
      · exact h
    rw [if_pos this]

/-! ### expansion to a density: never narrower, carry bound -/

theorem maxRowWidth_nonneg (rows : List Row) : 0 ≤ maxRowWidth rows := by
  have : ∀ (l : List Row) (acc : Int), acc ≤ l.foldl (fun m r => max m r.rect.width) acc := by
    intro l
    induction l with
    | nil => intro acc; exact Int.le_refl _
    | cons r rs ih => intro acc; exact Int.le_trans (by omega) (ih (max acc r.rect.width))
  exact this rows 0

theorem factor_ge_one (c : Circuit) (target margin : Rat) (hA : 0 < movableArea c.cells)
    (hR : 0 < rowPlacementArea c margin) (hn : ¬ densityNoop c target margin) :
    1 ≤ densityFactor c target margin := by
  have hd : 0 < (movableArea c.cells : Rat) / (rowPlacementArea c margin : Rat) :=
    rat_div_pos (Rat.intCast_pos.mpr hA) (Rat.intCast_pos.mpr hR)
  have hlt : (movableArea c.cells : Rat) / (rowPlacementArea c margin : Rat) < target := by
    unfold densityNoop at hn
    exact Rat.not_le.mp (fun h => hn (Or.inr (Or.inr h)))
  unfold densityFactor
  have hne : (movableArea c.cells : Rat) / (rowPlacementArea c margin : Rat) ≠ 0 := by grind
  have h1 := Rat.mul_le_mul_of_nonneg_right (Rat.le_of_lt hlt) (Rat.le_of_lt (Rat.inv_pos.mpr hd))
  rw [Rat.mul_inv_cancel _ hne] at h1
  rw [Rat.div_def]
  exact h1

/-- A movable cell whose width does not exceed the cap `maxRowWidth * maxExpandedWidth` is not narrower
after `expandCellsToDensity` (positive movable and row area, non-negative `maxExpandedWidth`). -/
theorem expand_not_narrower (c : Circuit) (target margin maxExp : Rat) (hA : 0 < movableArea c.cells)
    (hR : 0 < rowPlacementArea c margin) (hx : 0 ≤ maxExp) (i : Nat)
    (hw : ((c.cell i).w : Rat) ≤ widthCap c maxExp) :
    (c.cell i).w ≤ ((expandCellsToDensity c target margin maxExp).cell i).w := by
  unfold expandCellsToDensity
  split
  · exact Int.le_refl _
  · rename_i hn
    have hcap : 0 ≤ widthCap c maxExp :=
      Rat.mul_nonneg (Rat.intCast_nonneg.mpr (maxRowWidth_nonneg c.rows)) hx
    exact expandCells_not_narrower _ _ (factor_ge_one c target margin hA hR hn) hcap c.cells 0 i
      (Rat.le_refl) hw

/-- With factors at least 1, `expandCellsByFactor` makes no movable cell (of non-negative width) narrower. -/
theorem expand_not_narrower_byFactor (c c' : Circuit) (efs : List Rat) (maxD margin ret : Rat)
    (h : expandCellsByFactor c efs maxD margin = some (c', ret)) (he : ∀ e ∈ efs, 1 ≤ e) (i : Nat)
    (hw : 0 ≤ (c.cell i).w) : (c.cell i).w ≤ (c'.cell i).w := by
  unfold expandCellsByFactor at h
  split at h
  · simp at h
  · simp only [Option.some.injEq] at h
    unfold byFactorWith at h
    split at h
    · obtain ⟨rfl, _⟩ := Prod.mk.inj h; exact Int.le_refl _
    · split at h
      · obtain ⟨rfl, _⟩ := Prod.mk.inj h; exact Int.le_refl _
      · rename_i hdens
        obtain ⟨rfl, _⟩ := Prod.mk.inj h
        apply applyFactors_not_narrower _ _ i _ hw
        unfold effectiveFactors
        split
        · rename_i hadj
          intro e' he'
          obtain ⟨e, hem, rfl⟩ := List.mem_map.mp he'
          have hd : density c margin < maxD := Rat.not_le.mp hdens
          have hρ : 0 < capRatio c maxD margin (expandedArea c.cells efs) := by
            unfold capRatio
            apply rat_div_pos <;> grind
          have h1 : (0 : Rat) ≤ (e - 1) * capRatio c maxD margin (expandedArea c.cells efs) :=
            Rat.mul_nonneg (by have := he e hem; grind) (Rat.le_of_lt hρ)
          unfold adjust
          grind
        · exact he

/-- Carry bound, per cell: after each cell touched by the loop the carried missing area is in `[0, h)`
for that cell's height `h`. -/
theorem carry_bound_step (factor cap missing : Rat) (cl : Cell) (hf : 0 ≤ factor) (hcap : 0 ≤ cap)
    (hm : 0 ≤ missing) (ha : active cl = true) :
    0 ≤ stepMissing factor cap missing cl ∧ stepMissing factor cap missing cl < (cl.h : Rat) := by
  unfold stepMissing
  rw [if_pos ha]
  exact newMissing_bounds factor cap missing cl hf hcap hm ha

/-- Carry bound, whole call (density below target, positive areas, non-negative sizes):
(1) the movable area afterwards is at most `target * rowArea`;
(2) if no touched cell hits the width cap, it is more than `target * rowArea - H` for every bound `H > 0`
    on the heights of the touched cells (e.g. the largest movable cell height). -/
theorem carry_bound (c : Circuit) (target margin maxExp : Rat) (hA : 0 < movableArea c.cells)
    (hR : 0 < rowPlacementArea c margin) (hx : 0 ≤ maxExp) (hsz : NonnegSizes c.cells)
    (hn : ¬ densityNoop c target margin) :
    ((movableArea (expandCellsToDensity c target margin maxExp).cells : Rat)
        ≤ target * (rowPlacementArea c margin : Rat)) ∧
    ((∀ cl ∈ c.cells, active cl = true → (cl.w : Rat) * densityFactor c target margin ≤ widthCap c maxExp) →
      ∀ H : Int, 0 < H → (∀ cl ∈ c.cells, active cl = true → cl.h ≤ H) →
        target * (rowPlacementArea c margin : Rat) - (H : Rat)
          < (movableArea (expandCellsToDensity c target margin maxExp).cells : Rat)) := by
  have hf1 := factor_ge_one c target margin hA hR hn
  have hf0 : (0 : Rat) ≤ densityFactor c target margin := Rat.le_trans (by decide) hf1
  have hcap : 0 ≤ widthCap c maxExp :=
    Rat.mul_nonneg (Rat.intCast_nonneg.mpr (maxRowWidth_nonneg c.rows)) hx
  have hAq : (0 : Rat) < (movableArea c.cells : Rat) := Rat.intCast_pos.mpr hA
  have hRq : (0 : Rat) < (rowPlacementArea c margin : Rat) := Rat.intCast_pos.mpr hR
  -- factor * A = target * R
  have hfa : densityFactor c target margin * (movableArea c.cells : Rat) = target * (rowPlacementArea c margin : Rat) := by
    unfold densityFactor
    have hAne : (movableArea c.cells : Rat) ≠ 0 := by grind
    have hRne : (rowPlacementArea c margin : Rat) ≠ 0 := by grind
    grind
  have hid := area_identity (densityFactor c target margin) (widthCap c maxExp) c.cells 0
  have hcells : (expandCellsToDensity c target margin maxExp).cells =
      expandCells (densityFactor c target margin) (widthCap c maxExp) 0 c.cells := by
    unfold expandCellsToDensity; rw [if_neg hn]
  rw [hcells]
  constructor
  · have hle := fracArea_le (densityFactor c target margin) (widthCap c maxExp) hf0 c.cells hsz
    have hfin := finalMissing_bounds (densityFactor c target margin) (widthCap c maxExp) hf0 hcap 1 c.cells 0
      (Rat.le_refl) (by decide)
    -- only non-negativity of the final carry is needed; it holds without any height bound
    have hnn : 0 ≤ finalMissing (densityFactor c target margin) (widthCap c maxExp) 0 c.cells := by
      have : ∀ (l : List Cell) (m : Rat), 0 ≤ m →
          0 ≤ finalMissing (densityFactor c target margin) (widthCap c maxExp) m l := by
        intro l
        induction l with
        | nil => intro m hm; simpa [finalMissing] using hm
        | cons cl rest ih =>
          intro m hm
          simp only [finalMissing]
          exact ih _ (stepMissing_nonneg _ _ m cl hf0 hcap hm)
      exact this c.cells 0 Rat.le_refl
    grind
  · intro hnocap H hH hHb
    have heq := fracArea_eq (densityFactor c target margin) (widthCap c maxExp) c.cells hsz hnocap
    have hfin := finalMissing_bounds (densityFactor c target margin) (widthCap c maxExp) hf0 hcap H c.cells 0
      (Rat.le_refl) (Rat.intCast_pos.mpr hH) hHb
    grind

/-! ### expansion by factors stays under the cap -/

/-- With factors at least 1, positive areas and non-negative sizes, the movable area after
`expandCellsByFactor` is at most `max (maxDensity * rowArea) (area before)`. -/
theorem byFactor_under_cap (c c' : Circuit) (efs : List Rat) (maxD margin ret : Rat)
    (h : expandCellsByFactor c efs maxD margin = some (c', ret)) (he : ∀ e ∈ efs, 1 ≤ e)
    (hA : 0 < movableArea c.cells) (hR : 0 < rowPlacementArea c margin) (hsz : NonnegSizes c.cells) :
    (movableArea c'.cells : Rat) ≤ max (maxD * (rowPlacementArea c margin : Rat)) (movableArea c.cells : Rat) := by
  have hAq : (0 : Rat) < (movableArea c.cells : Rat) := Rat.intCast_pos.mpr hA
  have hRq : (0 : Rat) < (rowPlacementArea c margin : Rat) := Rat.intCast_pos.mpr hR
  have hRne : (rowPlacementArea c margin : Rat) ≠ 0 := by grind
  unfold expandCellsByFactor at h
  split at h
  · simp at h
  · rename_i hvalid
    have hlen : c.cells.length = efs.length := by
      have : ¬ efs.length ≠ c.cells.length := fun hh => hvalid (Or.inl hh)
      simp at this; exact this.symm
    simp only [Option.some.injEq] at h
    unfold byFactorWith at h
    split at h
    · obtain ⟨rfl, _⟩ := Prod.mk.inj h; exact rat_le_max_right _ _
    · split at h
      · obtain ⟨rfl, _⟩ := Prod.mk.inj h; exact rat_le_max_right _ _
      · rename_i hdens
        obtain ⟨rfl, _⟩ := Prod.mk.inj h
        refine Rat.le_trans ?_ (rat_le_max_left _ _)
        have hd : density c margin < maxD := Rat.not_le.mp hdens
        have hdR : density c margin * (rowPlacementArea c margin : Rat) = (movableArea c.cells : Rat) := by
          unfold density; exact Rat.div_mul_cancel hRne
        simp only
        unfold effectiveFactors
        split
        · rename_i hadj
          -- adjusted: the expanded area of the adjusted factors is exactly maxD * R
          have hx : 0 < expandedArea c.cells efs / (rowPlacementArea c margin : Rat) - density c margin := by grind
          have hρ : 0 < capRatio c maxD margin (expandedArea c.cells efs) := by
            unfold capRatio; apply rat_div_pos <;> grind
          have hnn : ∀ e ∈ efs.map (adjust (capRatio c maxD margin (expandedArea c.cells efs))), 0 ≤ e := by
            intro e' he'
            obtain ⟨e, hem, rfl⟩ := List.mem_map.mp he'
            have h1 : (0 : Rat) ≤ (e - 1) * capRatio c maxD margin (expandedArea c.cells efs) :=
              Rat.mul_nonneg (by have := he e hem; grind) (Rat.le_of_lt hρ)
            unfold adjust; grind
          have hle := applyFactors_area_le c.cells _ hsz hnn (by simpa using hlen)
          rw [expandedArea_adjust _ c.cells efs hlen] at hle
          have hER : expandedArea c.cells efs / (rowPlacementArea c margin : Rat) * (rowPlacementArea c margin : Rat)
              = expandedArea c.cells efs := Rat.div_mul_cancel hRne
          have hxne : expandedArea c.cells efs / (rowPlacementArea c margin : Rat) - density c margin ≠ 0 := by grind
          have hkey : capRatio c maxD margin (expandedArea c.cells efs) *
              (expandedArea c.cells efs - (movableArea c.cells : Rat)) =
              maxD * (rowPlacementArea c margin : Rat) - (movableArea c.cells : Rat) := by
            unfold capRatio
            have : expandedArea c.cells efs - (movableArea c.cells : Rat) =
                (expandedArea c.cells efs / (rowPlacementArea c margin : Rat) - density c margin) *
                  (rowPlacementArea c margin : Rat) := by grind
            rw [this, ← Rat.mul_assoc, Rat.div_mul_cancel hxne]
            grind
          grind
        · rename_i hadj
          have hnn : ∀ e ∈ efs, (0 : Rat) ≤ e := fun e hem => Rat.le_trans (by decide) (he e hem)
          have hle := applyFactors_area_le c.cells efs hsz hnn hlen
          have hER : expandedArea c.cells efs / (rowPlacementArea c margin : Rat) ≤ maxD := Rat.not_lt.mp hadj
          have h2 := Rat.mul_le_mul_of_nonneg_right hER (Rat.le_of_lt hRq)
          rw [Rat.div_mul_cancel hRne] at h2
          exact Rat.le_trans hle h2

/-! ### expansion factors from a congestion map -/

/-- `computeCellExpansion` throws exactly on a negative fixed penalty or a penalty factor below 1; otherwise
it returns one factor per cell: 1 for a fixed cell; for a movable cell the factor is at least 1, at least
`(c-1)*penaltyFactor + fixedPenalty + 1` for every congested region (`c > 1`) its placement intersects, and
it is either 1 (only possible value when it intersects no congested region) or attained by such a region. -/
theorem cellExpansion_max (c : Circuit) (cmap : List (Rect × Rat)) (fp pf : Rat) :
    (computeCellExpansion c cmap fp pf = none ↔ (fp < 0 ∨ pf < 1)) ∧
    ∀ l, computeCellExpansion c cmap fp pf = some l →
      l.length = c.cells.length ∧
      ∀ i, i < c.cells.length →
        ((c.cell i).fixed = true → l.getD i 1 = 1) ∧
        ((c.cell i).fixed = false →
          1 ≤ l.getD i 1 ∧
          (∀ r cg, (r, cg) ∈ cmap → cg > 1 → r.intersects (c.cell i).placement = true →
            (cg - 1) * pf + fp + 1 ≤ l.getD i 1) ∧
          (l.getD i 1 = 1 ∨ ∃ r cg, (r, cg) ∈ cmap ∧ cg > 1 ∧ r.intersects (c.cell i).placement = true ∧
            l.getD i 1 = (cg - 1) * pf + fp + 1)) := by
  unfold computeCellExpansion
  constructor
  · split <;> simp_all
  · intro l hl
    split at hl
    · simp at hl
    · simp only [Option.some.injEq] at hl
      subst hl
      refine ⟨by simp, ?_⟩
      intro i hi
      have hget : (c.cells.map fun cl =>
          if cl.fixed then (1 : Rat) else regionMax cl.placement 1 (expansionMap cmap fp pf)).getD i 1 =
          (if (c.cell i).fixed then (1 : Rat) else regionMax (c.cell i).placement 1 (expansionMap cmap fp pf)) := by
        simp only [Circuit.cell, List.getD_eq_getElem?_getD, List.getElem?_map]
        rw [List.getElem?_eq_getElem hi]
        simp
      rw [hget]
      constructor
      · intro hf; simp [hf]
      · intro hf
        simp only [hf, Bool.false_eq_true, if_false]
        refine ⟨regionMax_ge_acc _ _ _, ?_, ?_⟩
        · intro r cg hm hc hint
          exact regionMax_ge_mem _ _ _ r _ ((mem_expansionMap cmap fp pf r _).mpr ⟨cg, hm, hc, rfl⟩) hint
        · rcases regionMax_attained (c.cell i).placement (expansionMap cmap fp pf) 1 with h | ⟨r, e, hm, hint, he⟩
          · exact Or.inl h
          · obtain ⟨cg, hcm, hc, rfl⟩ := (mem_expansionMap cmap fp pf r e).mp hm
            exact Or.inr ⟨r, cg, hcm, hc, hint, he⟩

/-! ### the unrepaired `expandCellsByFactor` breaks the cap; non-vacuity -/

/-- one movable cell 10 x 1 in a row 16 x 1, factor 19/16, maxDensity 85/128 -/
def witness : Circuit :=
  ⟨[⟨10, 1, 0, 0, .N, false, true, .ANY⟩], [], [⟨⟨0, 16, 0, 1⟩, .N⟩]⟩

/-- On the unrepaired tree (expanded area truncated to an integer) the cell is widened to 11, so the movable
area 11 exceeds `maxDensity * rowArea = 85/128 * 16 = 85/8`; the repaired function keeps the width 10. -/
theorem legacy_byFactor_exceeds_cap :
    ((LegacyExpand.expandCellsByFactor witness [19 / 16] (85 / 128) 0).map fun r => movableArea r.1.cells) = some 11 ∧
    rowPlacementArea witness 0 = 16 ∧ (85 / 128 : Rat) * ((16 : Int) : Rat) < ((11 : Int) : Rat) ∧
    ((expandCellsByFactor witness [19 / 16] (85 / 128) 0).map fun r => movableArea r.1.cells) = some 10 := by
  decide +kernel

-- the hypotheses of the quantitative theorems are satisfiable
example : 0 < movableArea witness.cells ∧ 0 < rowPlacementArea witness 0 ∧ ¬ densityNoop witness (3 / 4) 0 := by
  decide +kernel

example : NonnegSizes witness.cells := by
  intro cl hcl _
  simp [witness] at hcl
  subst hcl
  decide

end ColoVerif.C18
