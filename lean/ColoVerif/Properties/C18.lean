import ColoVerif.Proofs.Expand
import ColoVerif.Proofs.ExpandF
import ColoVerif.Proofs.ExpandFBound
import ColoVerif.Proofs.ExpandFAccum
import ColoVerif.Model.LegacyExpandF
/-
C18 — cell expansion respects density caps and never touches fixed cells.

Two models, both executed by the driver `drv_C18` against `Circuit::expandCellsToDensity`,
`expandCellsByFactor`, `computeCellExpansion` and `computeRowPlacementArea`:

* `Model/Expand.lean` (first part of this file): exact rationals, compared with the code on dyadic instances
  where no floating-point operation rounds.  `FrameCell a b` (Proofs/Expand.lean): `b` is `a` except possibly
  for its width, and `b = a` when `a` is fixed.  `NonnegSizes`: movable cells have non-negative sizes (the
  property's domain).  `expandCellsByFactor` is the repaired function (fixes/expand-by-factor-area.diff);
  `legacy_byFactor_exceeds_cap` shows that the unrepaired one breaks the cap.
* `Model/ExpandF.lean` (second part, theorems `…F…`): the functions as compiled, every `double` operation
  rounded by `F64.f64` and every `float` operation by `F64.f32'`, compared with the code on arbitrary
  arguments, result for result.  Frame, never narrower (for `expandCellsByFactor` after
  `fixes/c18-byfactor-wide-cells.diff`, every width; the unrepaired step is `Model/LegacyExpandF.lean` with
  `legacy_byFactorF_wide_witness`; acceptance threshold `0.999f`), utilisation of `expandCellsToDensity` with an explicit
  rounding slack, maximum rule of `computeCellExpansion` over the float-rounded region factors (independent of
  the order `std::sort` leaves the map in).  `byFactorF_utilisation_full_statement` is stated, its `float`-path
  part proved (`byFactorF_utilisation_partial`).
-/
namespace ColoVerif.C18
open ColoVerif ColoVerif.Expand

/-! ### frame -/

/-- `expandCellsToDensity` changes only widths of movable cells. -/
theorem expand_frame (c : Circuit) (target margin maxExp : Rat) :
    (expandCellsToDensity c target margin maxExp).rows = c.rows ∧
    (expandCellsToDensity c target margin maxExp).nets = c.nets ∧
    (expandCellsToDensity c target margin maxExp).cells.length = c.cells.length ∧
    ∀ i, FrameCell (c.cell i) ((expandCellsToDensity c target margin maxExp).cell i) := by
  unfold expandCellsToDensity
  split
  · exact ⟨rfl, rfl, rfl, fun i => FrameCell.refl _⟩
  · exact ⟨rfl, rfl, expandCells_length _ _ _ _, fun i => frame_expandCells _ _ _ _ i⟩

/-- `expandCellsByFactor` changes only widths of movable cells (and nothing when it throws). -/
theorem expand_frame_byFactor (c c' : Circuit) (efs : List Rat) (maxD margin ret : Rat)
    (h : expandCellsByFactor c efs maxD margin = some (c', ret)) :
    c'.rows = c.rows ∧ c'.nets = c.nets ∧ c'.cells.length = c.cells.length ∧
    ∀ i, FrameCell (c.cell i) (c'.cell i) := by
  unfold expandCellsByFactor at h
  split at h
  · simp at h
  · simp only [Option.some.injEq] at h
    unfold byFactorWith at h
    split at h
    · obtain ⟨rfl, _⟩ := Prod.mk.inj h
      exact ⟨rfl, rfl, rfl, fun i => FrameCell.refl _⟩
    · split at h
      · obtain ⟨rfl, _⟩ := Prod.mk.inj h
        exact ⟨rfl, rfl, rfl, fun i => FrameCell.refl _⟩
      · obtain ⟨rfl, _⟩ := Prod.mk.inj h
        exact ⟨rfl, rfl, applyFactors_length _ _, fun i => frame_applyFactors _ _ i⟩

/-! ### no-op when already dense -/

/-- No movable area, no row area, or density already at the target: nothing changes. -/
theorem noop_when_dense (c : Circuit) (target margin maxExp : Rat)
    (h : movableArea c.cells = 0 ∨ rowPlacementArea c margin = 0 ∨
      (movableArea c.cells : Rat) / (rowPlacementArea c margin : Rat) ≥ target) :
    expandCellsToDensity c target margin maxExp = c := by
  unfold expandCellsToDensity
  rw [if_pos (show densityNoop c target margin from h)]

theorem noop_when_dense_byFactor (c : Circuit) (efs : List Rat) (maxD margin : Rat)
    (hvalid : ¬ (efs.length ≠ c.cells.length ∨ efs.any (fun e => decide (e < minFactor)) = true))
    (h : movableArea c.cells = 0 ∨ rowPlacementArea c margin = 0 ∨ density c margin ≥ maxD) :
    expandCellsByFactor c efs maxD margin = some (c, 1) := by
  unfold expandCellsByFactor
  rw [if_neg hvalid]
  unfold byFactorWith
  by_cases h0 : movableArea c.cells = 0 ∨ rowPlacementArea c margin = 0
  · rw [if_pos h0]
  · rw [if_neg h0]
    have : density c margin ≥ maxD := by
      rcases h with h | h | h
      · exact absurd (Or.inl h) h0
      · exact absurd (Or.inr h) h0
      · exact h
    rw [if_pos this]

/-! ### expansion to a density: never narrower, carry bound -/

theorem maxRowWidth_nonneg (rows : List Row) : 0 ≤ maxRowWidth rows := by
  have : ∀ (l : List Row) (acc : Int), acc ≤ l.foldl (fun m r => max m r.rect.width) acc := by
    intro l
    induction l with
    | nil => intro acc; exact Int.le_refl _
    | cons r rs ih => intro acc; exact Int.le_trans (by omega) (ih (max acc r.rect.width))
  exact this rows 0

theorem factor_ge_one (c : Circuit) (target margin : Rat) (hA : 0 < movableArea c.cells)
    (hR : 0 < rowPlacementArea c margin) (hn : ¬ densityNoop c target margin) :
    1 ≤ densityFactor c target margin := by
  have hd : 0 < (movableArea c.cells : Rat) / (rowPlacementArea c margin : Rat) :=
    rat_div_pos (Rat.intCast_pos.mpr hA) (Rat.intCast_pos.mpr hR)
  have hlt : (movableArea c.cells : Rat) / (rowPlacementArea c margin : Rat) < target := by
    unfold densityNoop at hn
    exact Rat.not_le.mp (fun h => hn (Or.inr (Or.inr h)))
  unfold densityFactor
  have hne : (movableArea c.cells : Rat) / (rowPlacementArea c margin : Rat) ≠ 0 := by grind
  have h1 := Rat.mul_le_mul_of_nonneg_right (Rat.le_of_lt hlt) (Rat.le_of_lt (Rat.inv_pos.mpr hd))
  rw [Rat.mul_inv_cancel _ hne] at h1
  rw [Rat.div_def]
  exact h1

/-- A movable cell whose width does not exceed the cap `maxRowWidth * maxExpandedWidth` is not narrower
after `expandCellsToDensity` (positive movable and row area, non-negative `maxExpandedWidth`). -/
theorem expand_not_narrower (c : Circuit) (target margin maxExp : Rat) (hA : 0 < movableArea c.cells)
    (hR : 0 < rowPlacementArea c margin) (hx : 0 ≤ maxExp) (i : Nat)
    (hw : ((c.cell i).w : Rat) ≤ widthCap c maxExp) :
    (c.cell i).w ≤ ((expandCellsToDensity c target margin maxExp).cell i).w := by
  unfold expandCellsToDensity
  split
  · exact Int.le_refl _
  · rename_i hn
    have hcap : 0 ≤ widthCap c maxExp :=
      Rat.mul_nonneg (Rat.intCast_nonneg.mpr (maxRowWidth_nonneg c.rows)) hx
    exact expandCells_not_narrower _ _ (factor_ge_one c target margin hA hR hn) hcap c.cells 0 i
      (Rat.le_refl) hw

/-- With factors at least 1, `expandCellsByFactor` makes no movable cell (of non-negative width) narrower. -/
theorem expand_not_narrower_byFactor (c c' : Circuit) (efs : List Rat) (maxD margin ret : Rat)
    (h : expandCellsByFactor c efs maxD margin = some (c', ret)) (he : ∀ e ∈ efs, 1 ≤ e) (i : Nat)
    (hw : 0 ≤ (c.cell i).w) : (c.cell i).w ≤ (c'.cell i).w := by
  unfold expandCellsByFactor at h
  split at h
  · simp at h
  · simp only [Option.some.injEq] at h
    unfold byFactorWith at h
    split at h
    · obtain ⟨rfl, _⟩ := Prod.mk.inj h; exact Int.le_refl _
    · split at h
      · obtain ⟨rfl, _⟩ := Prod.mk.inj h; exact Int.le_refl _
      · rename_i hdens
        obtain ⟨rfl, _⟩ := Prod.mk.inj h
        apply applyFactors_not_narrower _ _ i _ hw
        unfold effectiveFactors
        split
        · rename_i hadj
          intro e' he'
          obtain ⟨e, hem, rfl⟩ := List.mem_map.mp he'
          have hd : density c margin < maxD := Rat.not_le.mp hdens
          have hρ : 0 < capRatio c maxD margin (expandedArea c.cells efs) := by
            unfold capRatio
            apply rat_div_pos <;> grind
          have h1 : (0 : Rat) ≤ (e - 1) * capRatio c maxD margin (expandedArea c.cells efs) :=
            Rat.mul_nonneg (by have := he e hem; grind) (Rat.le_of_lt hρ)
          unfold adjust
          grind
        · exact he

/-- Carry bound, per cell: after each cell touched by the loop the carried missing area is in `[0, h)`
for that cell's height `h`. -/
theorem carry_bound_step (factor cap missing : Rat) (cl : Cell) (hf : 0 ≤ factor) (hcap : 0 ≤ cap)
    (hm : 0 ≤ missing) (ha : active cl = true) :
    0 ≤ stepMissing factor cap missing cl ∧ stepMissing factor cap missing cl < (cl.h : Rat) := by
  unfold stepMissing
  rw [if_pos ha]
  exact newMissing_bounds factor cap missing cl hf hcap hm ha

/-- Carry bound, whole call (density below target, positive areas, non-negative sizes):
(1) the movable area afterwards is at most `target * rowArea`;
(2) if no touched cell hits the width cap, it is more than `target * rowArea - H` for every bound `H > 0`
    on the heights of the touched cells (e.g. the largest movable cell height). -/
theorem carry_bound (c : Circuit) (target margin maxExp : Rat) (hA : 0 < movableArea c.cells)
    (hR : 0 < rowPlacementArea c margin) (hx : 0 ≤ maxExp) (hsz : NonnegSizes c.cells)
    (hn : ¬ densityNoop c target margin) :
    ((movableArea (expandCellsToDensity c target margin maxExp).cells : Rat)
        ≤ target * (rowPlacementArea c margin : Rat)) ∧
    ((∀ cl ∈ c.cells, active cl = true → (cl.w : Rat) * densityFactor c target margin ≤ widthCap c maxExp) →
      ∀ H : Int, 0 < H → (∀ cl ∈ c.cells, active cl = true → cl.h ≤ H) →
        target * (rowPlacementArea c margin : Rat) - (H : Rat)
          < (movableArea (expandCellsToDensity c target margin maxExp).cells : Rat)) := by
  have hf1 := factor_ge_one c target margin hA hR hn
  have hf0 : (0 : Rat) ≤ densityFactor c target margin := Rat.le_trans (by decide) hf1
  have hcap : 0 ≤ widthCap c maxExp :=
    Rat.mul_nonneg (Rat.intCast_nonneg.mpr (maxRowWidth_nonneg c.rows)) hx
  have hAq : (0 : Rat) < (movableArea c.cells : Rat) := Rat.intCast_pos.mpr hA
  have hRq : (0 : Rat) < (rowPlacementArea c margin : Rat) := Rat.intCast_pos.mpr hR
  -- factor * A = target * R
  have hfa : densityFactor c target margin * (movableArea c.cells : Rat) = target * (rowPlacementArea c margin : Rat) := by
    unfold densityFactor
    have hAne : (movableArea c.cells : Rat) ≠ 0 := by grind
    have hRne : (rowPlacementArea c margin : Rat) ≠ 0 := by grind
    grind
  have hid := area_identity (densityFactor c target margin) (widthCap c maxExp) c.cells 0
  have hcells : (expandCellsToDensity c target margin maxExp).cells =
      expandCells (densityFactor c target margin) (widthCap c maxExp) 0 c.cells := by
    unfold expandCellsToDensity; rw [if_neg hn]
  rw [hcells]
  constructor
  · have hle := fracArea_le (densityFactor c target margin) (widthCap c maxExp) hf0 c.cells hsz
    have hfin := finalMissing_bounds (densityFactor c target margin) (widthCap c maxExp) hf0 hcap 1 c.cells 0
      (Rat.le_refl) (by decide)
    -- only non-negativity of the final carry is needed; it holds without any height bound
    have hnn : 0 ≤ finalMissing (densityFactor c target margin) (widthCap c maxExp) 0 c.cells := by
      have : ∀ (l : List Cell) (m : Rat), 0 ≤ m →
          0 ≤ finalMissing (densityFactor c target margin) (widthCap c maxExp) m l := by
        intro l
        induction l with
        | nil => intro m hm; simpa [finalMissing] using hm
        | cons cl rest ih =>
          intro m hm
          simp only [finalMissing]
          exact ih _ (stepMissing_nonneg _ _ m cl hf0 hcap hm)
      exact this c.cells 0 Rat.le_refl
    grind
  · intro hnocap H hH hHb
    have heq := fracArea_eq (densityFactor c target margin) (widthCap c maxExp) c.cells hsz hnocap
    have hfin := finalMissing_bounds (densityFactor c target margin) (widthCap c maxExp) hf0 hcap H c.cells 0
      (Rat.le_refl) (Rat.intCast_pos.mpr hH) hHb
    grind

/-! ### expansion by factors stays under the cap -/

/-- With factors at least 1, positive areas and non-negative sizes, the movable area after
`expandCellsByFactor` is at most `max (maxDensity * rowArea) (area before)`. -/
theorem byFactor_under_cap (c c' : Circuit) (efs : List Rat) (maxD margin ret : Rat)
    (h : expandCellsByFactor c efs maxD margin = some (c', ret)) (he : ∀ e ∈ efs, 1 ≤ e)
    (hA : 0 < movableArea c.cells) (hR : 0 < rowPlacementArea c margin) (hsz : NonnegSizes c.cells) :
    (movableArea c'.cells : Rat) ≤ max (maxD * (rowPlacementArea c margin : Rat)) (movableArea c.cells : Rat) := by
  have hAq : (0 : Rat) < (movableArea c.cells : Rat) := Rat.intCast_pos.mpr hA
  have hRq : (0 : Rat) < (rowPlacementArea c margin : Rat) := Rat.intCast_pos.mpr hR
  have hRne : (rowPlacementArea c margin : Rat) ≠ 0 := by grind
  unfold expandCellsByFactor at h
  split at h
  · simp at h
  · rename_i hvalid
    have hlen : c.cells.length = efs.length := by
      have : ¬ efs.length ≠ c.cells.length := fun hh => hvalid (Or.inl hh)
      simp at this; exact this.symm
    simp only [Option.some.injEq] at h
    unfold byFactorWith at h
    split at h
    · obtain ⟨rfl, _⟩ := Prod.mk.inj h; exact rat_le_max_right _ _
    · split at h
      · obtain ⟨rfl, _⟩ := Prod.mk.inj h; exact rat_le_max_right _ _
      · rename_i hdens
        obtain ⟨rfl, _⟩ := Prod.mk.inj h
        refine Rat.le_trans ?_ (rat_le_max_left _ _)
        have hd : density c margin < maxD := Rat.not_le.mp hdens
        have hdR : density c margin * (rowPlacementArea c margin : Rat) = (movableArea c.cells : Rat) := by
          unfold density; exact Rat.div_mul_cancel hRne
        simp only
        unfold effectiveFactors
        split
        · rename_i hadj
          -- adjusted: the expanded area of the adjusted factors is exactly maxD * R
          have hx : 0 < expandedArea c.cells efs / (rowPlacementArea c margin : Rat) - density c margin := by grind
          have hρ : 0 < capRatio c maxD margin (expandedArea c.cells efs) := by
            unfold capRatio; apply rat_div_pos <;> grind
          have hnn : ∀ e ∈ efs.map (adjust (capRatio c maxD margin (expandedArea c.cells efs))), 0 ≤ e := by
            intro e' he'
            obtain ⟨e, hem, rfl⟩ := List.mem_map.mp he'
            have h1 : (0 : Rat) ≤ (e - 1) * capRatio c maxD margin (expandedArea c.cells efs) :=
              Rat.mul_nonneg (by have := he e hem; grind) (Rat.le_of_lt hρ)
            unfold adjust; grind
          have hle := applyFactors_area_le c.cells _ hsz hnn (by simpa using hlen)
          rw [expandedArea_adjust _ c.cells efs hlen] at hle
          have hER : expandedArea c.cells efs / (rowPlacementArea c margin : Rat) * (rowPlacementArea c margin : Rat)
              = expandedArea c.cells efs := Rat.div_mul_cancel hRne
          have hxne : expandedArea c.cells efs / (rowPlacementArea c margin : Rat) - density c margin ≠ 0 := by grind
          have hkey : capRatio c maxD margin (expandedArea c.cells efs) *
              (expandedArea c.cells efs - (movableArea c.cells : Rat)) =
              maxD * (rowPlacementArea c margin : Rat) - (movableArea c.cells : Rat) := by
            unfold capRatio
            have : expandedArea c.cells efs - (movableArea c.cells : Rat) =
                (expandedArea c.cells efs / (rowPlacementArea c margin : Rat) - density c margin) *
                  (rowPlacementArea c margin : Rat) := by grind
            rw [this, ← Rat.mul_assoc, Rat.div_mul_cancel hxne]
            grind
          grind
        · rename_i hadj
          have hnn : ∀ e ∈ efs, (0 : Rat) ≤ e := fun e hem => Rat.le_trans (by decide) (he e hem)
          have hle := applyFactors_area_le c.cells efs hsz hnn hlen
          have hER : expandedArea c.cells efs / (rowPlacementArea c margin : Rat) ≤ maxD := Rat.not_lt.mp hadj
          have h2 := Rat.mul_le_mul_of_nonneg_right hER (Rat.le_of_lt hRq)
          rw [Rat.div_mul_cancel hRne] at h2
          exact Rat.le_trans hle h2

/-! ### expansion factors from a congestion map -/

/-- `computeCellExpansion` throws exactly on a negative fixed penalty or a penalty factor below 1; otherwise
it returns one factor per cell: 1 for a fixed cell; for a movable cell the factor is at least 1, at least
`(c-1)*penaltyFactor + fixedPenalty + 1` for every congested region (`c > 1`) its placement intersects, and
it is either 1 (only possible value when it intersects no congested region) or attained by such a region. -/
theorem cellExpansion_max (c : Circuit) (cmap : List (Rect × Rat)) (fp pf : Rat) :
    (computeCellExpansion c cmap fp pf = none ↔ (fp < 0 ∨ pf < 1)) ∧
    ∀ l, computeCellExpansion c cmap fp pf = some l →
      l.length = c.cells.length ∧
      ∀ i, i < c.cells.length →
        ((c.cell i).fixed = true → l.getD i 1 = 1) ∧
        ((c.cell i).fixed = false →
          1 ≤ l.getD i 1 ∧
          (∀ r cg, (r, cg) ∈ cmap → cg > 1 → r.intersects (c.cell i).placement = true →
            (cg - 1) * pf + fp + 1 ≤ l.getD i 1) ∧
          (l.getD i 1 = 1 ∨ ∃ r cg, (r, cg) ∈ cmap ∧ cg > 1 ∧ r.intersects (c.cell i).placement = true ∧
            l.getD i 1 = (cg - 1) * pf + fp + 1)) := by
  unfold computeCellExpansion
  constructor
  · split <;> simp_all
  · intro l hl
    split at hl
    · simp at hl
    · simp only [Option.some.injEq] at hl
      subst hl
      refine ⟨by simp, ?_⟩
      intro i hi
      have hget : (c.cells.map fun cl =>
          if cl.fixed then (1 : Rat) else regionMax cl.placement 1 (expansionMap cmap fp pf)).getD i 1 =
          (if (c.cell i).fixed then (1 : Rat) else regionMax (c.cell i).placement 1 (expansionMap cmap fp pf)) := by
        simp only [Circuit.cell, List.getD_eq_getElem?_getD, List.getElem?_map]
        rw [List.getElem?_eq_getElem hi]
        simp
      rw [hget]
      constructor
      · intro hf; simp [hf]
      · intro hf
        simp only [hf, Bool.false_eq_true, if_false]
        refine ⟨regionMax_ge_acc _ _ _, ?_, ?_⟩
        · intro r cg hm hc hint
          exact regionMax_ge_mem _ _ _ r _ ((mem_expansionMap cmap fp pf r _).mpr ⟨cg, hm, hc, rfl⟩) hint
        · rcases regionMax_attained (c.cell i).placement (expansionMap cmap fp pf) 1 with h | ⟨r, e, hm, hint, he⟩
          · exact Or.inl h
          · obtain ⟨cg, hcm, hc, rfl⟩ := (mem_expansionMap cmap fp pf r e).mp hm
            exact Or.inr ⟨r, cg, hcm, hc, hint, he⟩

/-! ### the unrepaired `expandCellsByFactor` breaks the cap; non-vacuity -/

/-- one movable cell 10 x 1 in a row 16 x 1, factor 19/16, maxDensity 85/128 -/
def witness : Circuit :=
  ⟨[⟨10, 1, 0, 0, .N, false, true, .ANY⟩], [], [⟨⟨0, 16, 0, 1⟩, .N⟩]⟩

/-- On the unrepaired tree (expanded area truncated to an integer) the cell is widened to 11, so the movable
area 11 exceeds `maxDensity * rowArea = 85/128 * 16 = 85/8`; the repaired function keeps the width 10. -/
theorem legacy_byFactor_exceeds_cap :
    ((LegacyExpand.expandCellsByFactor witness [19 / 16] (85 / 128) 0).map fun r => movableArea r.1.cells) = some 11 ∧
    rowPlacementArea witness 0 = 16 ∧ (85 / 128 : Rat) * ((16 : Int) : Rat) < ((11 : Int) : Rat) ∧
    ((expandCellsByFactor witness [19 / 16] (85 / 128) 0).map fun r => movableArea r.1.cells) = some 10 := by
  decide +kernel

-- the hypotheses of the quantitative theorems are satisfiable
example : 0 < movableArea witness.cells ∧ 0 < rowPlacementArea witness 0 ∧ ¬ densityNoop witness (3 / 4) 0 := by
  decide +kernel

example : NonnegSizes witness.cells := by
  intro cl hcl _
  simp [witness] at hcl
  subst hcl
  decide

/-! ## The binary64/binary32-exact model (`Model/ExpandF.lean`)

The theorems below are about `ExpandF.*`: the same four functions with every `double` operation rounded by
`F64.f64` and every `float` operation by `F64.f32'` (IEEE-754 round-to-nearest-even over exact rationals),
which the driver executes against the real code on arbitrary (non-dyadic) arguments, result for result.
The functions are total; `ExpandF.densityGuard` / `byFactorGuard` / `cellExpansionGuard` are the decidable
domains on which they are the compiled code (finite values, conversions to `int`/`long long` in range).
A hypothesis of the form `… ≠ 0`, `isI32 …`, `cellsGuard …` below is a conjunct of the corresponding guard. -/

/-! ### frame (all inputs) -/

/-- `expandCellsToDensity`, with rounding: only the widths of movable cells change. -/
theorem expandF_frame (c : Circuit) (target margin maxExp : Rat) :
    (ExpandF.expandCellsToDensity c target margin maxExp).rows = c.rows ∧
    (ExpandF.expandCellsToDensity c target margin maxExp).nets = c.nets ∧
    (ExpandF.expandCellsToDensity c target margin maxExp).cells.length = c.cells.length ∧
    ∀ i, FrameCell (c.cell i) ((ExpandF.expandCellsToDensity c target margin maxExp).cell i) := by
  unfold ExpandF.expandCellsToDensity ExpandF.toDensityWith
  split
  · exact ⟨rfl, rfl, rfl, fun i => FrameCell.refl _⟩
  · exact ⟨rfl, rfl, ExpandF.expandCells_length _ _ _ _, fun i => ExpandF.frame_expandCells _ _ _ _ i⟩

/-- `expandCellsByFactor`, with rounding: only the widths of movable cells change (nothing when it throws). -/
theorem byFactorF_frame (c c' : Circuit) (efs : List Rat) (maxD margin ret : Rat)
    (h : ExpandF.expandCellsByFactor c efs maxD margin = some (c', ret)) :
    c'.rows = c.rows ∧ c'.nets = c.nets ∧ c'.cells.length = c.cells.length ∧
    ∀ i, FrameCell (c.cell i) (c'.cell i) := by
  unfold ExpandF.expandCellsByFactor at h
  split at h
  · simp at h
  · simp only [Option.some.injEq] at h
    unfold ExpandF.byFactorWith at h
    split at h
    · obtain ⟨rfl, _⟩ := Prod.mk.inj h
      exact ⟨rfl, rfl, rfl, fun i => FrameCell.refl _⟩
    · obtain ⟨rfl, _⟩ := Prod.mk.inj h
      exact ⟨rfl, rfl, ExpandF.applyFactors_length _ _, fun i => ExpandF.frame_applyFactors _ _ i⟩

/-- no-op when already dense, with rounding: the test is on the rounded quotient `(double)A / (double)R`. -/
theorem noopF_when_dense (c : Circuit) (target margin maxExp : Rat)
    (h : movableArea c.cells = 0 ∨ ExpandF.rowPlacementArea c margin = 0 ∨ ExpandF.density c margin ≥ target) :
    ExpandF.expandCellsToDensity c target margin maxExp = c := by
  unfold ExpandF.expandCellsToDensity ExpandF.toDensityWith
  rw [if_pos (show ExpandF.noopOf _ _ target from h)]

theorem noopF_when_dense_byFactor (c : Circuit) (efs : List Rat) (maxD margin : Rat)
    (hvalid : ExpandF.factorsRejected c efs = false)
    (h : movableArea c.cells = 0 ∨ ExpandF.rowPlacementArea c margin = 0 ∨ ExpandF.density c margin ≥ maxD) :
    ExpandF.expandCellsByFactor c efs maxD margin = some (c, 1) := by
  unfold ExpandF.expandCellsByFactor ExpandF.byFactorWith
  rw [if_neg (by simp [hvalid]), if_pos (show ExpandF.noopOf _ _ maxD from h)]

/-! ### never narrower -/

/-- With rounding: a movable cell whose width does not exceed the (rounded) cap
`(double)maxRowWidth * maxExpandedWidth` is not narrower after `expandCellsToDensity`.  Transfer of
`expand_not_narrower` by monotonicity of `f64`: `density < target` gives a rounded factor `≥ 1`, hence
`f64 (w·factor) ≥ w`.  No sign condition on `maxExpandedWidth` is needed.  `hd` (the rounded density is not
0, a conjunct of `densityGuard`) excludes a quotient that underflows. -/
theorem expandF_not_narrower (c : Circuit) (target margin maxExp : Rat) (hA : 0 < movableArea c.cells)
    (hR : 0 < ExpandF.rowPlacementArea c margin) (hd : ExpandF.density c margin ≠ 0) (i : Nat)
    (hsz : ExpandF.isI32 (c.cell i).w = true)
    (hw : ((c.cell i).w : Rat) ≤ ExpandF.widthCap c maxExp) :
    (c.cell i).w ≤ ((ExpandF.expandCellsToDensity c target margin maxExp).cell i).w := by
  unfold ExpandF.expandCellsToDensity ExpandF.toDensityWith
  split
  · exact Int.le_refl _
  · rename_i hn
    have hpos := ExpandF.densityOf_pos (le_of_lt hA) (le_of_lt hR) hd
    exact ExpandF.expandCells_not_narrower _ _ (ExpandF.factorOf_ge_one _ _ target hpos hn) c.cells 0 i
      (ExpandF.abs53_of_abs31 (ExpandF.isI32_abs hsz)) hw

/-- With rounding and factors at least 1: `expandCellsByFactor` (after `fixes/c18-byfactor-wide-cells.diff`)
makes no cell narrower, whatever its width: every applied factor, adjusted or not, is at least 1 after rounding,
and the width update keeps at least the old width for such a factor.  (Up to `2^24` the float product alone is
already at least the width, `ExpandF.applyOne_eq_of_small`; above, see `legacy_byFactorF_wide_witness`.) -/
theorem byFactorF_not_narrower (c c' : Circuit) (efs : List Rat) (maxD margin ret : Rat)
    (h : ExpandF.expandCellsByFactor c efs maxD margin = some (c', ret)) (he : ∀ e ∈ efs, 1 ≤ e) (i : Nat) :
    (c.cell i).w ≤ (c'.cell i).w := by
  unfold ExpandF.expandCellsByFactor at h
  split at h
  · simp at h
  · simp only [Option.some.injEq] at h
    unfold ExpandF.byFactorWith at h
    split at h
    · obtain ⟨rfl, _⟩ := Prod.mk.inj h; exact Int.le_refl _
    · rename_i hn
      obtain ⟨rfl, _⟩ := Prod.mk.inj h
      have hd : ExpandF.densityOf (movableArea c.cells) (ExpandF.rowPlacementArea c margin) < maxD := by
        unfold ExpandF.noopOf at hn
        exact not_le.mp (fun hh => hn (Or.inr (Or.inr hh)))
      exact ExpandF.applyFactors_not_narrower _ _ i (ExpandF.effectiveOf_mem_ge_one efs maxD _ _ hd he)

/-- The repair is invisible to the rational model `Model/Expand.lean`: for a width `w ≥ 0` and a factor
`e ≥ 1` the exact product truncates to at least `w`, so `std::max(newW, w)` is `newW`. -/
theorem byFactor_repair_noop_exact (w : Int) (e : Rat) (hw : 0 ≤ w) (he : 1 ≤ e) :
    max (truncRat ((w : Rat) * e)) w = truncRat ((w : Rat) * e) := by
  have hq : (0 : Rat) ≤ (w : Rat) := by exact_mod_cast hw
  have h2 : (w : Rat) ≤ (w : Rat) * e := by nlinarith
  exact max_eq_left (le_truncRat w _ (le_trans hq h2) h2)

/-- What holds for every ACCEPTED factor vector (`e ≥ 0.999f`, so also for factors in `[0.999f, 1)`): every
applied factor is at least `0.999f` after the ratio adjustment and all roundings, hence a movable cell of
width `w ≥ 0` ends at least `(int) f32' (f32' w · 0.999f)` wide.  (Sharp: see `byFactorF_below_one_witness`.) -/
theorem byFactorF_width_lower_bound (c c' : Circuit) (efs : List Rat) (maxD margin ret : Rat)
    (h : ExpandF.expandCellsByFactor c efs maxD margin = some (c', ret)) (i : Nat) (hi : i < c.cells.length)
    (hfx : (c.cell i).fixed = false) (hw : 0 ≤ (c.cell i).w) :
    (c'.cell i).w = (c.cell i).w ∨
    truncRat (ExpandF.scaledF (c.cell i).w ExpandF.minFactor) ≤ (c'.cell i).w := by
  unfold ExpandF.expandCellsByFactor at h
  split at h
  · simp at h
  · rename_i hrej
    simp only [ExpandF.factorsRejected, Bool.or_eq_true, decide_eq_true_eq, List.any_eq_true, not_or,
      not_exists, not_and, ne_eq, not_not, not_lt] at hrej
    obtain ⟨hlen, hmin⟩ := hrej
    simp only [Option.some.injEq] at h
    unfold ExpandF.byFactorWith at h
    split at h
    · obtain ⟨rfl, _⟩ := Prod.mk.inj h; exact Or.inl rfl
    · rename_i hn
      obtain ⟨rfl, _⟩ := Prod.mk.inj h
      right
      have hd : ExpandF.densityOf (movableArea c.cells) (ExpandF.rowPlacementArea c margin) < maxD := by
        unfold ExpandF.noopOf at hn
        exact not_le.mp (fun hh => hn (Or.inr (Or.inr hh)))
      have hge := ExpandF.effectiveOf_mem_ge_min efs maxD _ (ExpandF.expandedDensityOf
        (ExpandF.expandedArea 0 c.cells efs) (ExpandF.rowPlacementArea c margin)) hd (fun e he => hmin e he)
      have hl : i < (ExpandF.effectiveOf efs maxD
          (ExpandF.densityOf (movableArea c.cells) (ExpandF.rowPlacementArea c margin))
          (ExpandF.expandedDensityOf (ExpandF.expandedArea 0 c.cells efs)
            (ExpandF.rowPlacementArea c margin))).length := by
        unfold ExpandF.effectiveOf
        split
        · simp only [List.length_map]; omega
        · omega
      exact ExpandF.applyFactors_ge ExpandF.minFactor (by decide +kernel) c.cells _ i hge hw hl hfx

/-- one movable cell 1000 x 1 in a row 4000 x 1 -/
def witnessBelowOne : Circuit :=
  ⟨[⟨1000, 1, 0, 0, .N, false, true, .ANY⟩], [], [⟨⟨0, 4000, 0, 1⟩, .N⟩]⟩

/-- The acceptance threshold is `0.999f`, not 1: the factor `0.999f` is accepted and makes the 1000-wide
cell 999 wide (replayed on the real code as case `w2`); the bound of `byFactorF_width_lower_bound` is
attained (a factor below 1 is not raised by the repair).  Factors below 1 are outside the property's domain ("factor vectors >= 1"). -/
theorem byFactorF_below_one_witness :
    ((ExpandF.expandCellsByFactor witnessBelowOne [ExpandF.minFactor] 1 0).map fun r => r.1.cells.map (·.w))
      = some [999] ∧
    truncRat (ExpandF.scaledF 1000 ExpandF.minFactor) = 999 ∧
    ExpandF.byFactorGuard witnessBelowOne [ExpandF.minFactor] 1 0 = true := by
  decide +kernel

/-- one movable cell (2^24+1) x 1 in a row 2^26 x 1 -/
def witnessWide : Circuit :=
  ⟨[⟨16777217, 1, 0, 0, .N, false, true, .ANY⟩], [], [⟨⟨0, 67108864, 0, 1⟩, .N⟩]⟩

/-- Before `fixes/c18-byfactor-wide-cells.diff` never-narrower was false above `2^24`: with the factor
exactly `1.0f` a cell of width `2^24 + 1` became `2^24` wide, because `cellWidth_[i] *= expansion[i]` converts
the width to `float` first; the repaired function keeps the width (replayed on the real code as case `w3`). -/
theorem legacy_byFactorF_wide_witness :
    ((LegacyExpandF.expandCellsByFactor witnessWide [1] 1 0).map fun r => r.1.cells.map (·.w))
      = some [16777216] ∧
    ((ExpandF.expandCellsByFactor witnessWide [1] 1 0).map fun r => r.1.cells.map (·.w)) = some [16777217] ∧
    ExpandF.byFactorGuard witnessWide [1] 1 0 = true := by
  decide +kernel

-- non-vacuity of `expandF_not_narrower` / `byFactorF_not_narrower`
example : 0 < movableArea witness.cells ∧ 0 < ExpandF.rowPlacementArea witness 0 ∧
    ExpandF.density witness 0 ≠ 0 ∧ ExpandF.isI32 (witness.cell 0).w = true ∧
    ((witness.cell 0).w : Rat) ≤ ExpandF.widthCap witness 1 ∧
    ExpandF.densityGuard witness (3 / 4) 0 1 = true ∧
    (ExpandF.expandCellsToDensity witness (3 / 4) 0 1).cells.map (·.w) = [12] := by
  decide +kernel

example : ((ExpandF.expandCellsByFactor witness [19 / 16] (85 / 128) 0).map fun r => r.1.cells.map (·.w))
    = some [10] := by decide +kernel

/-! ### utilisation after `expandCellsToDensity`, with an explicit rounding slack -/

/-- **Not above the target beyond rounding.**  On the domain of the model (`densityGuard`), density below the
target, positive areas, non-negative sizes, `maxExpandedWidth ≥ 0`: after `expandCellsToDensity` *as compiled*
the movable area is at most

  `target · rowArea · (1 + 2^-50)  +  (number of cells touched) · 2^-51 · H`

for every bound `H` on the heights of the touched cells.  The relative term covers the roundings of
`(double)cellArea`, `(double)rowArea`, the density, the factor and `w * expansionFactor`
(`(1+u)³/(1−u)² ≤ 1+2^-50`, `u = 2^-53`); the absolute term the roundings of `h * (fracW - newW)` and
`missingArea += …` (at most `4u·H` per cell; `fracW - newW` and every `missingArea -= h` are exact).  With
exact arithmetic this is `carry_bound` (1): `≤ target · rowArea`. -/
theorem expandF_utilisation (c : Circuit) (target margin maxExp : Rat)
    (hg : ExpandF.densityGuard c target margin maxExp = true)
    (hA : 0 < movableArea c.cells) (hR : 0 < ExpandF.rowPlacementArea c margin) (hx : 0 ≤ maxExp)
    (hsz : NonnegSizes c.cells) (hn : ¬ ExpandF.densityNoop c target margin)
    (H : Int) (hH0 : 0 ≤ H) (hH : ∀ cl ∈ c.cells, active cl = true → cl.h ≤ H) :
    (movableArea (ExpandF.expandCellsToDensity c target margin maxExp).cells : Rat) ≤
      target * (ExpandF.rowPlacementArea c margin : Rat) * (1 + (2 : Rat) ^ (-50 : Int)) +
      ((c.cells.filter active).length : Rat) * ((2 : Rat) ^ (-51 : Int) * (H : Rat)) := by
  have hn' : ¬ ExpandF.noopOf (movableArea c.cells) (ExpandF.rowPlacementArea c margin) target := hn
  -- the conjuncts of the guard
  simp only [ExpandF.densityGuard, ExpandF.toDensityGuardWith, Bool.and_eq_true, Bool.or_eq_true,
    decide_eq_true_eq] at hg
  obtain ⟨⟨⟨⟨hsizes, _⟩, _⟩, _⟩, ⟨_, hR64⟩, hrest⟩ := hg
  rcases hrest with hno | ⟨⟨⟨hd, _⟩, _⟩, hcg⟩
  · exact absurd hno hn'
  have hsz32 : ∀ cl ∈ c.cells, |cl.w| ≤ 2 ^ 31 ∧ |cl.h| ≤ 2 ^ 31 := by
    intro cl hcl
    have := (List.all_eq_true.mp hsizes) cl hcl
    simp only [Bool.and_eq_true] at this
    exact ⟨ExpandF.isI32_abs this.1, ExpandF.isI32_abs this.2⟩
  -- factor and cap
  have hdpos := ExpandF.densityOf_pos (le_of_lt hA) (le_of_lt hR) hd
  have hF1 := ExpandF.factorOf_ge_one _ _ target hdpos hn'
  have hcap0 : 0 ≤ ExpandF.widthCap c maxExp := by
    unfold ExpandF.widthCap
    exact F64.f64_nonneg (mul_nonneg (ExpandF.d_nonneg (maxRowWidth_nonneg c.rows)) hx)
  have hcapfix : F64.f64 (ExpandF.widthCap c maxExp) = ExpandF.widthCap c maxExp := by
    unfold ExpandF.widthCap; exact F64.f64_idem _
  have hcells : (ExpandF.expandCellsToDensity c target margin maxExp).cells =
      ExpandF.expandCells (ExpandF.factorOf (movableArea c.cells) (ExpandF.rowPlacementArea c margin) target)
        (ExpandF.widthCap c maxExp) 0 c.cells := by
    unfold ExpandF.expandCellsToDensity ExpandF.toDensityWith; rw [if_neg hn']
  rw [hcells]
  obtain ⟨hloop, hfin⟩ := ExpandF.loop_bound _ _ H (by linarith) hcap0 hcapfix c.cells 0 (le_refl _)
    (by exact_mod_cast hH0) hcg (fun cl hcl => (hsz32 cl hcl).2) hH
  have hfa := ExpandF.fracArea_le _ (ExpandF.widthCap c maxExp) hF1 c.cells hsz (fun cl hcl => (hsz32 cl hcl).1)
  have hfl := ExpandF.factor_le _ _ target hA hR (ExpandF.isI64_abs hR64) hd hn'
  have hnum := ExpandF.slack_numeric
  have hu := F64.z2_pos (-53)
  have hu1 : (2 : Rat) ^ (-53 : Int) < 1 := by rw [F64.two_zpow_neg53]; norm_num
  have ht0 : 0 < target := by
    unfold ExpandF.noopOf at hn'
    have : ExpandF.densityOf (movableArea c.cells) (ExpandF.rowPlacementArea c margin) < target :=
      not_le.mp (fun h => hn' (Or.inr (Or.inr h)))
    linarith
  have hRq : (0 : Rat) < (ExpandF.rowPlacementArea c margin : Rat) := by exact_mod_cast hR
  have hAq : (0 : Rat) < (movableArea c.cells : Rat) := by exact_mod_cast hA
  unfold ExpandF.stepSlack at hloop
  generalize ExpandF.factorOf (movableArea c.cells) (ExpandF.rowPlacementArea c margin) target = F at *
  generalize (movableArea (ExpandF.expandCells F (ExpandF.widthCap c maxExp) 0 c.cells) : Rat) = area' at *
  generalize ExpandF.finalMissing F (ExpandF.widthCap c maxExp) 0 c.cells = fin at *
  generalize ExpandF.fracArea F (ExpandF.widthCap c maxExp) c.cells = fa at *
  generalize ((c.cells.filter active).length : Rat) * ((2 : Rat) ^ (-51 : Int) * (H : Rat)) = slack at *
  generalize (ExpandF.rowPlacementArea c margin : Rat) = R at *
  generalize (movableArea c.cells : Rat) = A at *
  generalize (2 : Rat) ^ (-50 : Int) = v at *
  generalize (2 : Rat) ^ (-53 : Int) = u at *
  -- X = area' − slack ≤ F (1+u) A, and F A (1−u)² ≤ (1+u)² t R, (1+u)³ ≤ (1+v)(1−u)²
  have hX : area' - slack ≤ F * (1 + u) * A := by linarith
  have hpos : 0 < (1 - u) ^ 2 := by have : 0 < 1 - u := by linarith
                                    exact pow_pos this 2
  have h1 : (area' - slack) * (1 - u) ^ 2 ≤ F * (1 + u) * A * (1 - u) ^ 2 :=
    mul_le_mul_of_nonneg_right hX (le_of_lt hpos)
  have h2 : F * (1 + u) * A * (1 - u) ^ 2 ≤ (1 + u) * ((1 + u) ^ 2 * target * R) := by
    have := mul_le_mul_of_nonneg_left hfl (show (0 : Rat) ≤ 1 + u by linarith)
    linarith
  have htR : 0 ≤ target * R := le_of_lt (mul_pos ht0 hRq)
  have h3 : (1 + u) * ((1 + u) ^ 2 * target * R) ≤ (1 + v) * (1 - u) ^ 2 * (target * R) := by
    have := mul_le_mul_of_nonneg_right hnum htR
    linarith
  have h4 : (area' - slack) * (1 - u) ^ 2 ≤ (target * R * (1 + v)) * (1 - u) ^ 2 := by linarith
  have := le_of_mul_le_mul_right h4 hpos
  linarith

-- non-vacuity: the hypotheses of `expandF_utilisation` hold on the witness (target 3/4, one cell of height 1)
example : ExpandF.densityGuard witness (3 / 4) 0 1 = true ∧ 0 < movableArea witness.cells ∧
    0 < ExpandF.rowPlacementArea witness 0 ∧ ¬ ExpandF.densityNoop witness (3 / 4) 0 ∧
    (∀ cl ∈ witness.cells, active cl = true → cl.h ≤ 1) := by
  refine ⟨by decide +kernel, by decide +kernel, by decide +kernel, by decide +kernel, ?_⟩
  intro cl hcl _
  simp [witness] at hcl
  subst hcl
  decide

/-! ### utilisation after `expandCellsByFactor`: full statement and the proved part -/

/-- **Not above the cap beyond rounding**, full statement (NOT proved; supported by the exact model/code
correspondence on arbitrary arguments and by the direct oracle): for factors at least 1, widths at most `2^24`,
the movable area after `expandCellsByFactor` as compiled is at most `max(maxDensity·rowArea, area before)` up to
a relative `2^-22` (two `float` roundings per cell: the adjusted factor and the product) and an absolute
`n·2^-50·Σ eᵢ·areaᵢ` (the `double` accumulation of `expandedArea`, which the ratio adjustment divides by). -/
def byFactorF_utilisation_full_statement : Prop :=
  ∀ (c c' : Circuit) (efs : List Rat) (maxD margin ret : Rat),
    ExpandF.byFactorGuard c efs maxD margin = true →
    ExpandF.expandCellsByFactor c efs maxD margin = some (c', ret) → (∀ e ∈ efs, 1 ≤ e) →
    0 < movableArea c.cells → 0 < ExpandF.rowPlacementArea c margin → NonnegSizes c.cells →
    (∀ cl ∈ c.cells, cl.fixed = false → cl.w ≤ 2 ^ 24) →
    (movableArea c'.cells : Rat) ≤
      max (maxD * (ExpandF.rowPlacementArea c margin : Rat)) (movableArea c.cells : Rat) *
        (1 + (2 : Rat) ^ (-22 : Int)) +
      (c.cells.length : Rat) * (2 : Rat) ^ (-50 : Int) * expandedArea c.cells efs

/-- The proved part of `byFactorF_utilisation_full_statement` — the `float` path
`cellWidth_[i] *= expansion[i]`: for every accepted factor vector (so also factors in `[0.999f, 1)`),
non-negative sizes and widths at most `2^24`, either nothing changes or the movable area afterwards is at most
`(1 + 2^-24) · Σ e'ᵢ·areaᵢ` (exact sum) over the factors `e'` that are actually applied
(`ExpandF.effectiveFactors`: the given ones, or their ratio-adjusted, `float`-rounded versions, each at least 1
when the given one is — `byFactorF_not_narrower` — and at least `0.999f` in any case).
MISSING: the bound of `Σ e'ᵢ·areaᵢ` by `maxDensity·rowArea` through the `double` computations of `expandedArea`,
`expandedDensity` and `ratio` (in exact arithmetic: `byFactor_under_cap`). -/
theorem byFactorF_utilisation_partial (c c' : Circuit) (efs : List Rat) (maxD margin ret : Rat)
    (h : ExpandF.expandCellsByFactor c efs maxD margin = some (c', ret)) (hsz : NonnegSizes c.cells)
    (hw : ∀ cl ∈ c.cells, cl.fixed = false → cl.w ≤ 2 ^ 24) :
    c' = c ∨
    ((movableArea c'.cells : Rat) ≤ (1 + (2 : Rat) ^ (-24 : Int)) *
        expandedArea c.cells (ExpandF.effectiveFactors c efs maxD margin) ∧
      ∀ e ∈ ExpandF.effectiveFactors c efs maxD margin, ExpandF.minFactor ≤ e) := by
  unfold ExpandF.expandCellsByFactor at h
  split at h
  · simp at h
  · rename_i hrej
    simp only [ExpandF.factorsRejected, Bool.or_eq_true, decide_eq_true_eq, List.any_eq_true, not_or,
      not_exists, not_and, ne_eq, not_not, not_lt] at hrej
    obtain ⟨hlen, hmin⟩ := hrej
    simp only [Option.some.injEq] at h
    unfold ExpandF.byFactorWith at h
    split at h
    · obtain ⟨rfl, _⟩ := Prod.mk.inj h; exact Or.inl rfl
    · rename_i hn
      obtain ⟨rfl, _⟩ := Prod.mk.inj h
      right
      have hd : ExpandF.densityOf (movableArea c.cells) (ExpandF.rowPlacementArea c margin) < maxD := by
        unfold ExpandF.noopOf at hn
        exact not_le.mp (fun hh => hn (Or.inr (Or.inr hh)))
      have hge : ∀ e ∈ ExpandF.effectiveFactors c efs maxD margin, ExpandF.minFactor ≤ e :=
        ExpandF.effectiveOf_mem_ge_min efs maxD _ _ hd (fun e he => hmin e he)
      have hl : c.cells.length = (ExpandF.effectiveFactors c efs maxD margin).length := by
        unfold ExpandF.effectiveFactors ExpandF.effectiveOf
        split
        · simp only [List.length_map]; omega
        · omega
      refine ⟨?_, hge⟩
      exact ExpandF.applyFactors_area_le c.cells _ hsz
        (fun e he => le_trans (by decide +kernel : (1 / 2 : Rat) ≤ ExpandF.minFactor) (hge e he)) hw hl

/-- The same float-path bound for ANY non-negative width (cells wider than `2^24` included, where `(float)w`
rounds as well): area after ≤ `(1 + 2^-24)² · Σ e'ᵢ·areaᵢ`; the `std::max` of the repair costs nothing because
`w ≤ w·e'` for `e' ≥ 1`.  Same missing part as `byFactorF_utilisation_partial`. -/
theorem byFactorF_utilisation_partial_any_width (c c' : Circuit) (efs : List Rat) (maxD margin ret : Rat)
    (h : ExpandF.expandCellsByFactor c efs maxD margin = some (c', ret)) (hsz : NonnegSizes c.cells) :
    c' = c ∨
    (movableArea c'.cells : Rat) ≤ (1 + (2 : Rat) ^ (-24 : Int)) ^ 2 *
        expandedArea c.cells (ExpandF.effectiveFactors c efs maxD margin) := by
  unfold ExpandF.expandCellsByFactor at h
  split at h
  · simp at h
  · rename_i hrej
    simp only [ExpandF.factorsRejected, Bool.or_eq_true, decide_eq_true_eq, List.any_eq_true, not_or,
      not_exists, not_and, ne_eq, not_not, not_lt] at hrej
    obtain ⟨hlen, hmin⟩ := hrej
    simp only [Option.some.injEq] at h
    unfold ExpandF.byFactorWith at h
    split at h
    · obtain ⟨rfl, _⟩ := Prod.mk.inj h; exact Or.inl rfl
    · rename_i hn
      obtain ⟨rfl, _⟩ := Prod.mk.inj h
      right
      have hd : ExpandF.densityOf (movableArea c.cells) (ExpandF.rowPlacementArea c margin) < maxD := by
        unfold ExpandF.noopOf at hn
        exact not_le.mp (fun hh => hn (Or.inr (Or.inr hh)))
      have hge : ∀ e ∈ ExpandF.effectiveFactors c efs maxD margin, ExpandF.minFactor ≤ e :=
        ExpandF.effectiveOf_mem_ge_min efs maxD _ _ hd (fun e he => hmin e he)
      have hl : c.cells.length = (ExpandF.effectiveFactors c efs maxD margin).length := by
        unfold ExpandF.effectiveFactors ExpandF.effectiveOf
        split
        · simp only [List.length_map]; omega
        · omega
      exact ExpandF.applyFactors_area_le_any c.cells _ hsz
        (fun e he => le_trans (by decide +kernel : (1 / 2 : Rat) ≤ ExpandF.minFactor) (hge e he)) hl

/-- Accumulation error of `expandedArea += (double)e * (double)area(i)` (lower side, the one the cap needs):
for non-negative sizes and factors at least 1/2 (every accepted factor is at least `0.999f`) the accumulated
`double` is at least the exact sum `Σ eᵢ·areaᵢ` times `(1−2^-53)^(4n)` — four roundings per cell — and it is
0 or at least 1/4 (never subnormal). -/
theorem byFactorF_expandedArea_error (cells : List Cell) (efs : List Rat) (hsz : NonnegSizes cells)
    (he : ∀ e ∈ efs, 1 / 2 ≤ e) :
    expandedArea cells efs * (1 - (2 : Rat) ^ (-53 : Int)) ^ (4 * cells.length) ≤
      ExpandF.expandedArea 0 cells efs ∧
    (ExpandF.expandedArea 0 cells efs = 0 ∨ 1 / 4 ≤ ExpandF.expandedArea 0 cells efs) :=
  ExpandF.expandedArea_lower cells efs hsz he

/-- **The by-factor cap with rounding, branch without ratio adjustment** (`expandedDensity ≤ maxDensity` as
computed): for every accepted factor vector, non-negative sizes of any width, positive areas, `rowArea ≤ 2^63`,
either nothing changes or

  `area after · (1−2^-53)^(4n+1)  ≤  (1+2^-24)² · (1+2^-53) · maxDensity · rowArea`      (`n` = number of cells)

— the `double` path (`4n` roundings of the accumulation, one of the quotient, one of `(double)rowArea`) and the
`float` path (two roundings per cell) chained.  MISSING for `byFactorF_utilisation_full_statement`: the branch
in which the factors are scaled by `ratio`. -/
theorem byFactorF_cap_unadjusted (c c' : Circuit) (efs : List Rat) (maxD margin ret : Rat)
    (h : ExpandF.expandCellsByFactor c efs maxD margin = some (c', ret)) (hsz : NonnegSizes c.cells)
    (hA : 0 < movableArea c.cells) (hR : 0 < ExpandF.rowPlacementArea c margin)
    (hR63 : ExpandF.isI64 (ExpandF.rowPlacementArea c margin) = true)
    (hun : ¬ ExpandF.expandedDensity c efs margin > maxD) :
    c' = c ∨
    (movableArea c'.cells : Rat) * (1 - (2 : Rat) ^ (-53 : Int)) ^ (4 * c.cells.length + 1) ≤
      (1 + (2 : Rat) ^ (-24 : Int)) ^ 2 * (1 + (2 : Rat) ^ (-53 : Int)) * maxD *
        (ExpandF.rowPlacementArea c margin : Rat) := by
  unfold ExpandF.expandCellsByFactor at h
  split at h
  · simp at h
  · rename_i hrej
    simp only [ExpandF.factorsRejected, Bool.or_eq_true, decide_eq_true_eq, List.any_eq_true, not_or,
      not_exists, not_and, ne_eq, not_not, not_lt] at hrej
    obtain ⟨hlen, hmin⟩ := hrej
    simp only [Option.some.injEq] at h
    unfold ExpandF.byFactorWith at h
    split at h
    · obtain ⟨rfl, _⟩ := Prod.mk.inj h; exact Or.inl rfl
    · rename_i hn
      obtain ⟨rfl, _⟩ := Prod.mk.inj h
      right
      have hhalf : ∀ e ∈ efs, (1 : Rat) / 2 ≤ e := fun e he =>
        le_trans (by decide +kernel : (1 / 2 : Rat) ≤ ExpandF.minFactor) (hmin e he)
      have hd : ExpandF.densityOf (movableArea c.cells) (ExpandF.rowPlacementArea c margin) < maxD := by
        unfold ExpandF.noopOf at hn
        exact not_le.mp (fun hh => hn (Or.inr (Or.inr hh)))
      have hd0 := ExpandF.densityOf_nonneg (le_of_lt hA) (le_of_lt hR)
      have hmaxD : 0 ≤ maxD := by linarith
      have hed : ExpandF.expandedDensityOf (ExpandF.expandedArea 0 c.cells efs)
          (ExpandF.rowPlacementArea c margin) ≤ maxD := not_lt.mp hun
      have heff : ExpandF.effectiveOf efs maxD
          (ExpandF.densityOf (movableArea c.cells) (ExpandF.rowPlacementArea c margin))
          (ExpandF.expandedDensityOf (ExpandF.expandedArea 0 c.cells efs)
            (ExpandF.rowPlacementArea c margin)) = efs := by
        unfold ExpandF.effectiveOf; rw [if_neg (not_lt.mpr hed)]
      simp only [heff]
      have h1 := ExpandF.applyFactors_area_le_any c.cells efs hsz hhalf (by omega)
      obtain ⟨h2, hE⟩ := ExpandF.expandedArea_lower c.cells efs hsz hhalf
      have h3 := ExpandF.expandedDensityOf_lower _ _ hE hR (ExpandF.isI64_abs hR63)
      obtain ⟨b1, _, b3⟩ := ExpandF.dR_bounds _ hR (ExpandF.isI64_abs hR63)
      have hu := F64.z2_pos (-53)
      have hu1 := ExpandF.u53_lt_one
      have hε := F64.z2_pos (-24)
      have hk : (0 : Rat) ≤ (1 + (2 : Rat) ^ (-24 : Int)) ^ 2 := sq_nonneg _
      have hP : (0 : Rat) ≤ (1 - (2 : Rat) ^ (-53 : Int)) ^ (4 * c.cells.length) :=
        pow_nonneg (by linarith) _
      rw [pow_succ]
      generalize (1 - (2 : Rat) ^ (-53 : Int)) ^ (4 * c.cells.length) = P at *
      generalize ExpandF.expandedArea 0 c.cells efs = E at *
      generalize ExpandF.expandedDensityOf E (ExpandF.rowPlacementArea c margin) = ed at *
      generalize ExpandF.d (ExpandF.rowPlacementArea c margin) = dR at *
      generalize (ExpandF.rowPlacementArea c margin : Rat) = R at *
      generalize (movableArea (ExpandF.applyFactors c.cells efs) : Rat) = area' at *
      generalize expandedArea c.cells efs = S at *
      generalize (1 + (2 : Rat) ^ (-24 : Int)) ^ 2 = k at *
      generalize (2 : Rat) ^ (-53 : Int) = u at *
      have hr : 0 ≤ 1 - u := by linarith
      have s1 : area' * P * (1 - u) ≤ k * S * P * (1 - u) :=
        mul_le_mul_of_nonneg_right (mul_le_mul_of_nonneg_right h1 hP) hr
      have s2 : k * (S * P) * (1 - u) ≤ k * E * (1 - u) :=
        mul_le_mul_of_nonneg_right (mul_le_mul_of_nonneg_left h2 hk) hr
      have s3 : k * (E * (1 - u)) ≤ k * (ed * dR) := mul_le_mul_of_nonneg_left h3 hk
      have s4 : k * (ed * dR) ≤ k * (maxD * dR) :=
        mul_le_mul_of_nonneg_left (mul_le_mul_of_nonneg_right hed (by linarith)) hk
      have s5 : k * (maxD * dR) ≤ k * (maxD * (R * (1 + u))) :=
        mul_le_mul_of_nonneg_left (mul_le_mul_of_nonneg_left b3 hmaxD) hk
      have e1 : k * S * P * (1 - u) = k * (S * P) * (1 - u) := by ring
      have e2 : k * E * (1 - u) = k * (E * (1 - u)) := by ring
      have e3 : k * (maxD * (R * (1 + u))) = k * (1 + u) * maxD * R := by ring
      linarith
/-- **The by-factor cap with rounding, ratio-adjusted branch, up to the computed ratio** (partial).  For `float`
factors `1 ≤ e ≤ 2^53` (the property's quantifier: factor vectors ≥ 1), non-negative sizes of any width, in the
branch `expandedDensity > maxDensity`: either nothing changes or

  `area after ≤ (1+2^-24)³·(1+2^-53)² · (A + ρ·(S − A))`

with `A` the movable area before, `S = Σ eᵢ·areaᵢ` (exact) and `ρ = ExpandF.ratioOf …` the `double` ratio the code
computes (`0 ≤ ρ ≤ 1`): `e - 1.0` is exact, the product by `ρ`, the sum, the narrowing to `float`, `(float)w`
and the `float` product round once each.  MISSING for `byFactorF_utilisation_full_statement`: that the computed
`ρ` satisfies `ρ·(S − A) ≤ maxDensity·rowArea − A` up to rounding (two-sided bound of the accumulated
`expandedArea`, of `density` and of the two differences); in exact arithmetic this is `byFactor_under_cap`. -/
theorem byFactorF_cap_adjusted_partial (c c' : Circuit) (efs : List Rat) (maxD margin ret : Rat)
    (h : ExpandF.expandCellsByFactor c efs maxD margin = some (c', ret)) (hsz : NonnegSizes c.cells)
    (hfl : ∀ e ∈ efs, F64.f64 e = e ∧ 1 ≤ e ∧ e ≤ 2 ^ 53)
    (hadj : ExpandF.expandedDensity c efs margin > maxD) :
    c' = c ∨
    (movableArea c'.cells : Rat) ≤
      (1 + (2 : Rat) ^ (-24 : Int)) ^ 2 * ((1 + (2 : Rat) ^ (-53 : Int)) ^ 2 * (1 + (2 : Rat) ^ (-24 : Int))) *
        ((movableArea c.cells : Rat) +
          ExpandF.ratioOf maxD (ExpandF.density c margin) (ExpandF.expandedDensity c efs margin) *
            (expandedArea c.cells efs - (movableArea c.cells : Rat))) := by
  unfold ExpandF.expandCellsByFactor at h
  split at h
  · simp at h
  · rename_i hrej
    simp only [ExpandF.factorsRejected, Bool.or_eq_true, decide_eq_true_eq, List.any_eq_true, not_or,
      not_exists, not_and, ne_eq, not_not, not_lt] at hrej
    obtain ⟨hlen, _⟩ := hrej
    simp only [Option.some.injEq] at h
    unfold ExpandF.byFactorWith at h
    split at h
    · obtain ⟨rfl, _⟩ := Prod.mk.inj h; exact Or.inl rfl
    · rename_i hn
      obtain ⟨rfl, _⟩ := Prod.mk.inj h
      right
      have hd : ExpandF.density c margin < maxD := by
        unfold ExpandF.noopOf at hn
        exact not_le.mp (fun hh => hn (Or.inr (Or.inr hh)))
      obtain ⟨r0, _⟩ := ExpandF.ratioOf_bounds maxD _ _ hd hadj
      have heff : ExpandF.effectiveOf efs maxD
          (ExpandF.densityOf (movableArea c.cells) (ExpandF.rowPlacementArea c margin))
          (ExpandF.expandedDensityOf (ExpandF.expandedArea 0 c.cells efs)
            (ExpandF.rowPlacementArea c margin)) =
          efs.map (ExpandF.adjust (ExpandF.ratioOf maxD (ExpandF.density c margin)
            (ExpandF.expandedDensity c efs margin))) := by
        unfold ExpandF.effectiveOf
        have hadj' : ExpandF.expandedDensityOf (ExpandF.expandedArea 0 c.cells efs)
            (ExpandF.rowPlacementArea c margin) > maxD := hadj
        rw [if_pos hadj']
        rfl
      simp only [heff]
      have hhalf : ∀ e' ∈ efs.map (ExpandF.adjust (ExpandF.ratioOf maxD (ExpandF.density c margin)
          (ExpandF.expandedDensity c efs margin))), (1 : Rat) / 2 ≤ e' := by
        intro e' he'
        obtain ⟨e, hem, rfl⟩ := List.mem_map.mp he'
        have := ExpandF.adjust_ge_one _ e r0 (hfl e hem).2.1
        linarith
      have h1 := ExpandF.applyFactors_area_le_any c.cells _ hsz hhalf (by simp only [List.length_map]; omega)
      have h2 := ExpandF.expandedArea_adjust_le _ r0 c.cells efs hsz hfl (by omega)
      have hk : (0 : Rat) ≤ (1 + (2 : Rat) ^ (-24 : Int)) ^ 2 := sq_nonneg _
      have h3 := mul_le_mul_of_nonneg_left h2 hk
      rw [← mul_assoc] at h3
      exact le_trans h1 h3

-- non-vacuity of `byFactorF_cap_adjusted_partial`: the witness with maxDensity 85/128 is in the adjusted branch
example : (∀ e ∈ [(19 / 16 : Rat)], F64.f64 e = e ∧ 1 ≤ e ∧ e ≤ 2 ^ 53) ∧
    ExpandF.expandedDensity witness [19 / 16] 0 > 85 / 128 ∧
    ¬ ExpandF.noopOf (movableArea witness.cells) (ExpandF.rowPlacementArea witness 0) (85 / 128) := by
  refine ⟨?_, by decide +kernel, by decide +kernel⟩
  intro e he
  simp at he
  subst he
  decide +kernel

-- non-vacuity of `byFactorF_cap_unadjusted`: the witness with maxDensity 1 is expanded (10 -> 11) without adjustment
example : ExpandF.isI64 (ExpandF.rowPlacementArea witness 0) = true ∧
    ¬ ExpandF.expandedDensity witness [19 / 16] 0 > 1 ∧
    ((ExpandF.expandCellsByFactor witness [19 / 16] 1 0).map fun r => r.1.cells.map (·.w)) = some [11] := by
  decide +kernel

example : NonnegSizes witness.cells ∧ (∀ cl ∈ witness.cells, cl.fixed = false → cl.w ≤ 2 ^ 24) ∧
    ¬ ExpandF.noopOf (movableArea witness.cells) (ExpandF.rowPlacementArea witness 0) (85 / 128) ∧
    ((ExpandF.expandCellsByFactor witness [19 / 16] (85 / 128) 0).map fun r => r.1.cells.map (·.w)) = some [10] ∧
    ExpandF.effectiveFactors witness [19 / 16] (85 / 128) 0 ≠ [19 / 16] := by
  refine ⟨?_, ?_, by decide +kernel, by decide +kernel, by decide +kernel⟩
  · intro cl hcl _
    simp [witness] at hcl
    subst hcl
    decide
  · intro cl hcl _
    simp [witness] at hcl
    subst hcl
    decide

/-! ### expansion factors from a congestion map -/

/-- `computeCellExpansion` with rounding: it throws exactly on a negative fixed penalty or a penalty factor
below 1; otherwise one factor per cell: 1 for a fixed cell; for a movable cell the factor is at least 1, at
least the float-rounded region factor `regionFactor fp pf cg = f32' (f64 (f32' (f32' (f32' (cg−1)·pf) + fp) + 1))`
of every congested region (`cg > 1`) its placement intersects, and it is either 1 (the only possible value when
it intersects no congested region) or attained by such a region: the maximum of the rounded factors. -/
theorem cellExpansionF_max (c : Circuit) (cmap : List (Rect × Rat)) (fp pf : Rat) :
    (ExpandF.computeCellExpansion c cmap fp pf = none ↔ (fp < 0 ∨ pf < 1)) ∧
    ∀ l, ExpandF.computeCellExpansion c cmap fp pf = some l →
      l.length = c.cells.length ∧
      ∀ i, i < c.cells.length →
        ((c.cell i).fixed = true → l.getD i 1 = 1) ∧
        ((c.cell i).fixed = false →
          1 ≤ l.getD i 1 ∧
          (∀ r cg, (r, cg) ∈ cmap → cg > 1 → r.intersects (c.cell i).placement = true →
            ExpandF.regionFactor fp pf cg ≤ l.getD i 1) ∧
          (l.getD i 1 = 1 ∨ ∃ r cg, (r, cg) ∈ cmap ∧ cg > 1 ∧ r.intersects (c.cell i).placement = true ∧
            l.getD i 1 = ExpandF.regionFactor fp pf cg)) := by
  unfold ExpandF.computeCellExpansion
  constructor
  · split <;> simp_all
  · intro l hl
    split at hl
    · simp at hl
    · simp only [Option.some.injEq] at hl
      subst hl
      refine ⟨by simp, ?_⟩
      intro i hi
      have hget : (c.cells.map fun cl =>
          if cl.fixed then (1 : Rat) else regionMax cl.placement 1 (ExpandF.sortedMap cmap fp pf)).getD i 1 =
          (if (c.cell i).fixed then (1 : Rat)
            else regionMax (c.cell i).placement 1 (ExpandF.sortedMap cmap fp pf)) := by
        simp only [Circuit.cell, List.getD_eq_getElem?_getD, List.getElem?_map]
        rw [List.getElem?_eq_getElem hi]
        simp
      rw [hget]
      constructor
      · intro hf; simp [hf]
      · intro hf
        simp only [hf, Bool.false_eq_true, if_false]
        refine ⟨regionMax_ge_acc _ _ _, ?_, ?_⟩
        · intro r cg hm hc hint
          exact regionMax_ge_mem _ _ _ r _ ((ExpandF.mem_sortedMap cmap fp pf r _).mpr ⟨cg, hm, hc, rfl⟩) hint
        · rcases regionMax_attained (c.cell i).placement (ExpandF.sortedMap cmap fp pf) 1 with
            h | ⟨r, e, hm, hint, he⟩
          · exact Or.inl h
          · obtain ⟨cg, hcm, hc, rfl⟩ := (ExpandF.mem_sortedMap cmap fp pf r e).mp hm
            exact Or.inr ⟨r, cg, hcm, hc, hint, he⟩

/-- The `std::sort` of the expansion map is unobservable: whatever order the (unstable) sort leaves the
regions in — any permutation `m` of the unsorted map — the maximum a cell takes over it is the one of the model. -/
theorem cellExpansionF_order_independent (place : Rect) (cmap : List (Rect × Rat)) (fp pf : Rat)
    (m : List (Rect × Rat)) (hm : m.Perm (ExpandF.expansionMap cmap fp pf)) :
    regionMax place 1 m = regionMax place 1 (ExpandF.sortedMap cmap fp pf) :=
  ExpandF.regionMax_perm place (hm.trans (ExpandF.sortedMap_perm cmap fp pf).symm) 1

/-- The rounded region factor is at least 1 and monotone in the congestion value, so "the largest factor
among the intersected congested regions" is the factor of the largest congestion among them. -/
theorem regionFactorF_ge_one_and_monotone (fp pf : Rat) (hfp : 0 ≤ fp) (hpf : 1 ≤ pf) :
    (∀ cg, 1 < cg → 1 ≤ ExpandF.regionFactor fp pf cg) ∧
    (∀ c₁ c₂, c₁ ≤ c₂ → ExpandF.regionFactor fp pf c₁ ≤ ExpandF.regionFactor fp pf c₂) :=
  ⟨fun cg h => ExpandF.regionFactor_ge_one fp pf cg hfp (by linarith) (le_of_lt h),
   fun _ _ h => ExpandF.regionFactor_mono fp pf (by linarith) h⟩

-- the float factor differs from the rational one: 1/3-congestion over 1 with penalty factor 1.1f
example : ExpandF.regionFactor 0 (11 / 10) (4 / 3) ≠ (4 / 3 - 1) * (11 / 10) + 0 + 1 := by decide +kernel

end ColoVerif.C18
