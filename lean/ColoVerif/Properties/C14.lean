import ColoVerif.Model.LegacyTransp1d
import ColoVerif.Proofs.Transp1dCert
import ColoVerif.Proofs.Transp1dUnsplit
/-!
# C14 — one-dimensional transportation is optimal and its rounding is memory-safe

All statements are about `ColoVerif.Transp1d.{solve, assign, balanceDemand}` — the functions the
driver `drv_C14` executes against `Transportation1d::{solve, assign, balanceDemand}`.
The model's only unbounded loop (`while` in `Transportation1dSolver::push`) runs on the fuel
`loopFuel = 2 * nbSinks + events.size() + 3`, which `Proofs/Transp1dTerm.lean` proves sufficient on
the whole domain: the theorems below are unconditional ("never errors" includes `outOfFuel`).
-/
namespace ColoVerif.C14
open ColoVerif.Transp1d

/-- the domain of C14: consistent sizes, non-negative supplies and demands, supply ≤ demand
(exactly what `Transportation1d::check()` accepts) -/
def InDomain (pb : Problem) : Prop :=
  pb.s.length = pb.u.length ∧ pb.d.length = pb.v.length ∧
  (∀ x ∈ pb.s, 0 ≤ x) ∧ (∀ x ∈ pb.d, 0 ≤ x) ∧ pb.s.sum ≤ pb.d.sum

/-- FULL (weak duality + complementary slackness).  A plan that passes the decidable check
`certOk` for some potentials `al` (sources) / `be ≥ 0` (sinks) on the line —
`al i - be j ≤ |u i - v j|` everywhere, equality wherever the plan ships, sinks with positive
potential saturated — costs no more than any valid plan of the same problem. -/
theorem cert_optimal_1d (pb : Problem) (plan plan' : Plan) (al be : List Int)
    (hc : certOk pb plan al be = true) (hv : validPlan pb plan' = true) :
    planCost pb plan ≤ planCost pb plan' :=
  cert_optimal_core pb plan plan' al be hc hv

/-- non-vacuity: the certificate of the plan returned for u=[0,3], v=[1,2], s=[2,1], d=[2,2] -/
example : solve ⟨[0, 3], [1, 2], [2, 1], [2, 2]⟩ = .ok [(0, 0, 2), (1, 1, 1)] ∧
    certOk ⟨[0, 3], [1, 2], [2, 1], [2, 2]⟩ [(0, 0, 2), (1, 1, 1)] [1, 1] [0, 0] = true := by decide

/-- The universal optimality statement of C14 (not proved for all inputs; see `t1d_optimal_partial`). -/
def t1d_optimal_full_statement : Prop :=
  ∀ (pb : Problem) (plan plan' : Plan), InDomain pb → solve pb = .ok plan →
    validPlan pb plan' = true → validPlan pb plan = true ∧ planCost pb plan ≤ planCost pb plan'

/-- PARTIAL (per-instance certificate route).  Whenever the plan returned by `solve` passes
`certOk` for some potentials, it is a valid plan of minimum cost.  The driver computes potentials
(untrusted Bellman–Ford) and evaluates this very `certOk` on every `cert` op (`cert ok`).  Missing
for `t1d_optimal_full_statement`: that such potentials exist for every input. -/
theorem t1d_optimal_partial (pb : Problem) (plan plan' : Plan) (al be : List Int)
    (_hs : solve pb = .ok plan) (hc : certOk pb plan al be = true)
    (hv : validPlan pb plan' = true) :
    validPlan pb plan = true ∧ planCost pb plan ≤ planCost pb plan' := by
  refine ⟨?_, cert_optimal_core pb plan plan' al be hc hv⟩
  simp only [certOk, Bool.and_eq_true] at hc
  exact hc.1.1.1.1

/-- The universal validity statement of C14: on its domain `solve` returns (given enough fuel it
does not fail, and whenever it returns) a plan that meets every supply exactly, exceeds no demand
and has positive entries in range. -/
def t1d_valid_full_statement : Prop :=
  ∀ (pb : Problem), InDomain pb → ∃ plan, solve pb = .ok plan ∧ validPlan pb plan = true

/-- PARTIAL.  Proved for all inputs of the domain: on the sorted zero-free instance handed to the
solver, the sweep + `flushPositions` never index out of range and return one position per source
such that the sources' intervals `[S i + p i, S (i+1) + p i]` on the cumulative-demand axis lie
inside `[0, D.back()]`, in order and without overlap — the representation `computeSolution` reads
the plan from (entry `(i,j)` = length of the overlap of source interval `i` with sink interval
`[D j, D (j+1)]`).  Missing for `t1d_valid_full_statement`: the two-pointer merge of
`computeSolution` (row sums = interval lengths, column sums ≤ sink lengths) and the index renaming
of `convertSolutionBack`; both are covered by the direct oracle on every generated case and by
`validPlan` inside every `cert ok`. -/
theorem t1d_valid_partial (pb : Problem) (h : InDomain pb) :
    ∃ p, run (sortedSolver pb) = .ok p ∧ p.length = (sortedSolver pb).u.length ∧
        (∀ i, i < (sortedSolver pb).u.length → 0 ≤ p.getD i 0 ∧
          (sortedSolver pb).S.getD (i + 1) 0 + p.getD i 0
            ≤ (sortedSolver pb).D.getD (sortedSolver pb).v.length 0) ∧
        (∀ i, i + 1 < (sortedSolver pb).u.length →
          (sortedSolver pb).S.getD (i + 1) 0 + p.getD i 0
            ≤ (sortedSolver pb).S.getD (i + 1) 0 + p.getD (i + 1) 0) := by
  obtain ⟨p, e, _, h1, h2, h3⟩ := run_geometry pb ((checkOk_iff pb).mpr h)
  exact ⟨p, e, h1, h2, h3⟩

/-- `solve`/`assign` really run the sweep on `sortedSolver pb` (ties `t1d_valid_partial` to them). -/
theorem t1d_solver_instance (pb : Problem) (h : InDomain pb) :
    mkSorter pb = .ok ⟨ord pb.u pb.s, ord pb.v pb.d⟩ ∧
    convert ⟨ord pb.u pb.s, ord pb.v pb.d⟩ pb = .ok (sortedSolver pb) :=
  ⟨mkSorter_ok pb h.1 h.2.1, convert_ok pb h.1 h.2.1⟩

/-- The statement of C14 about unsplit sources. -/
def t1d_unsplit_kept_full_statement : Prop :=
  ∀ (pb : Problem) (plan : Plan) (a : List Nat) (i j : Nat), InDomain pb →
    solve pb = .ok plan → assign pb = .ok a → i < pb.u.length → 0 < pb.s.getD i 0 →
    (∀ e ∈ plan, e.1 = i → e.2.1 = j) → pb.v.getD (a.getD i 0) 0 = pb.v.getD j 0

/-- PARTIAL (complete at the level of the instance handed to the solver).  For every input of the
domain, with `p` the positions returned by `run` on `sortedSolver pb` (see `t1d_solver_instance`)
and `a` the result of `computeAssignment`: a source `k` whose interval `[S k + p k, S (k+1) + p k]`
lies inside sink `j`'s interval `[D j, D (j+1)]` — i.e. a source the plan read off these positions
does not split — is assigned exactly sink `j`.
Missing for `t1d_unsplit_kept_full_statement`: "single plan entry ⇒ interval containment" (needs
the merge of `computeSolution`) and the renaming by `srcOrder`/`snkOrder` in
`convertSolutionBack`/`convertAssignmentBack`; the direct oracle checks the full statement on
every generated case. -/
theorem t1d_unsplit_kept_partial (pb : Problem) (h : InDomain pb)
    (p : List Int) (a : List Nat) (hrun : run (sortedSolver pb) = .ok p)
    (ha : computeAssignment (sortedSolver pb) p = .ok a) (k j : Nat)
    (hk : k < (sortedSolver pb).u.length) (hj : j < (sortedSolver pb).v.length)
    (h1 : (sortedSolver pb).D.getD j 0 ≤ (sortedSolver pb).S.getD k 0 + p.getD k 0)
    (h2 : (sortedSolver pb).S.getD (k + 1) 0 + p.getD k 0 ≤ (sortedSolver pb).D.getD (j + 1) 0) :
    a.getD k 0 = j :=
  computeAssignment_unsplit pb ((checkOk_iff pb).mpr h) p a hrun ha k j hk hj h1 h2

/-- non-vacuity: u=[0,3], v=[1,2], s=[2,1], d=[2,2]: positions [0,0]... source 0 inside sink 0 -/
example : run (sortedSolver ⟨[0, 3], [1, 2], [2, 1], [2, 2]⟩) = .ok [0, 0] ∧
    computeAssignment (sortedSolver ⟨[0, 3], [1, 2], [2, 1], [2, 2]⟩) [0, 0] = .ok [0, 1] := by decide

/-- the single rounding step: the walk stops at the unique sink containing the position -/
theorem t1d_round_step (d : List Int) (hpos : ∀ x ∈ d, 0 < x) (pos : Int)
    (cs j cs' : Nat) (rest' : List Int)
    (e : walk pos ((prefixFrom 0 d).drop (cs + 1)) cs = .ok (cs', rest'))
    (hstart : (prefixFrom 0 d).getD cs 0 ≤ pos) (hj : j < d.length)
    (h1 : (prefixFrom 0 d).getD j 0 ≤ pos) (h2 : pos < (prefixFrom 0 d).getD (j + 1) 0) :
    cs' = j ∧ rest' = (prefixFrom 0 d).drop (j + 1) :=
  walk_unique d hpos pos cs j cs' rest' e hstart hj h1 h2

example : walk 4 ((prefixFrom 0 [2, 3, 1]).drop 1) 0 = .ok (1, [5, 6]) := by decide

/-- FULL.  `balanceDemand` succeeds whenever there is a sink (or nothing to do), changes only the
demands, never decreases one, leaves a problem with supply ≤ demand, and is the identity when
supply ≤ demand already. -/
theorem balanceDemand_covers (pb : Problem) (hs : pb.s.length = pb.u.length)
    (hd : pb.d.length = pb.v.length) (hm : 0 < pb.v.length ∨ pb.s.sum ≤ pb.d.sum) :
    ∃ pb', balanceDemand pb = .ok pb' ∧ pb'.u = pb.u ∧ pb'.v = pb.v ∧ pb'.s = pb.s ∧
      pb'.d.length = pb.d.length ∧ pb'.s.sum ≤ pb'.d.sum ∧
      (∀ j, pb.d.getD j 0 ≤ pb'.d.getD j 0) ∧ (pb.s.sum ≤ pb.d.sum → pb' = pb) :=
  balanceDemand_spec pb hs hd hm

example : balanceDemand ⟨[3, 1], [0, 5], [4, 1], [1, 1]⟩ = .ok ⟨[3, 1], [0, 5], [4, 1], [3, 2]⟩ := by
  decide

/-- FULL (after F10's repair), for ALL inputs of the domain — zero supplies and zero demands
included: `assign` never errors — no out-of-range access anywhere (sorter, sweep, flush, rounding
walk, mapping back) and the `while` loop of `push` terminates within the fuel the model passes
(`Err.outOfFuel` impossible) —, returns exactly one entry per source, and — as soon as some sink
has positive demand — every entry names a sink of positive demand. -/
theorem t1d_assign_safe (pb : Problem) (h : InDomain pb) :
    ∃ a, assign pb = .ok a ∧ a.length = pb.u.length ∧
      ((∃ j, j < pb.v.length ∧ 0 < pb.d.getD j 0) → ∀ k ∈ a, k < pb.v.length ∧ 0 < pb.d.getD k 0) :=
  assign_total pb ((checkOk_iff pb).mpr h)

/-- FULL.  Termination of the sweep: on every instance whose prefix sums are monotone with total
supply ≤ total demand (`Solver.Dom`; `sortedSolver_dom`: every instance the sorter builds from an
input of the domain), the `while` loop of `push`, started with `loopFuel` from a state satisfying
the sweep invariants, ends normally with its condition false. -/
theorem t1d_push_terminates (sv : Solver) (dom : sv.Dom) (i : Nat) (hi : i < sv.u.length) (st : St)
    (inv : Inv sv st) (ei : EvInv st)
    (hJ : sv.D.getD st.lastOcc 0 - sv.S.getD i 0 ≤ st.lastPosition) :
    ∃ st', push sv i st = .ok st' ∧ Inv sv st' ∧ EvInv st' ∧
      sv.D.getD st'.lastOcc 0 - sv.S.getD (i + 1) 0 ≤ st'.lastPosition ∧
      st'.lastPosition ≤ sv.D.getD (st'.lastOcc + 1) 0 - sv.S.getD (i + 1) 0 := by
  obtain ⟨st', e, k1, _, k3, k4, k5⟩ := push_total sv dom i hi st inv ei hJ
  exact ⟨st', e, k1, k3, k4, k5⟩

/-- non-vacuity, and the F10 witness on the repaired model -/
example : assign ⟨[0, 1], [0, 1], [0, 1], [0, 1]⟩ = .ok [1, 1] := by decide

/-- Before the repair of F10 (`Model/LegacyTransp1d.lean`): with u=[0,1], s=[0,1] the write
`ret[srcOrder[0]]` is out of range — the heap overflow ASan reports on the unrepaired tree. -/
theorem assign_oob_with_zero_supply :
    assignLegacy ⟨[0, 1], [0, 1], [0, 1], [0, 1]⟩ = .error Err.indexOutOfRange := by decide

end ColoVerif.C14
