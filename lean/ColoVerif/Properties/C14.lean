import ColoVerif.Model.LegacyTransp1d
import ColoVerif.Proofs.Transp1dCert
import ColoVerif.Proofs.Transp1dKept
import ColoVerif.Proofs.Transp1dBalanced
import ColoVerif.Proofs.Transp1dOptMain
import ColoVerif.Proofs.Transp1dOptLocal
import ColoVerif.Proofs.Transp1dChecksMain
/-!
# C14 — one-dimensional transportation is optimal and its rounding is memory-safe

All statements are about `ColoVerif.Transp1d.{solve, assign, balanceDemand}` — the functions the
driver `drv_C14` executes against `Transportation1d::{solve, assign, balanceDemand}`.
The model's only unbounded loop (`while` in `Transportation1dSolver::push`) runs on the fuel
`loopFuel = 2 * nbSinks + events.size() + 3`, which `Proofs/Transp1dTerm.lean` proves sufficient on
the whole domain: the theorems below are unconditional ("never errors" includes `outOfFuel`).
The last section is about `solveFull` (`Model/Transp1dChecks.lean`): `solve()` together with the
self-checks it runs (`check`, `solver.check`, `checkSolutionValid`, `checkSolutionOptimal`), which
the driver executes on every case (`full`) and, on malformed inputs and mutated plans, check by
check (`chk`, `schk`, `val`, `opt`), including which exception is thrown.
-/
namespace ColoVerif.C14
open ColoVerif.Transp1d

/-- the domain of C14: consistent sizes, non-negative supplies and demands, supply ≤ demand
(exactly what `Transportation1d::check()` accepts) -/
def InDomain (pb : Problem) : Prop :=
  pb.s.length = pb.u.length ∧ pb.d.length = pb.v.length ∧
  (∀ x ∈ pb.s, 0 ≤ x) ∧ (∀ x ∈ pb.d, 0 ≤ x) ∧ pb.s.sum ≤ pb.d.sum

/-- non-vacuity of the domain, zeros included -/
example : InDomain ⟨[0, 1], [0, 1], [0, 1], [0, 1]⟩ :=
  (checkOk_iff _).mp (by decide)

/-! ## validity -/

/-- FULL.  For every input of the domain `solve` never errors (no out-of-range access, no
`outOfFuel`) and returns a valid plan: every entry is in range and positive, every source ships
exactly its supply, no sink receives more than its demand. -/
theorem t1d_valid (pb : Problem) (h : InDomain pb) :
    ∃ plan, solve pb = .ok plan ∧ validPlan pb plan = true :=
  solve_valid pb ((checkOk_iff pb).mpr h)

/-- the same, with `validPlan` unfolded -/
theorem t1d_valid_unfolded (pb : Problem) (h : InDomain pb) :
    ∃ plan, solve pb = .ok plan ∧
      (∀ e ∈ plan, e.1 < pb.u.length ∧ e.2.1 < pb.v.length ∧ 0 < e.2.2) ∧
      (∀ i, i < pb.u.length → rowSum plan i = pb.s.getD i 0) ∧
      (∀ j, j < pb.v.length → colSum plan j ≤ pb.d.getD j 0) := by
  obtain ⟨plan, e, hv⟩ := t1d_valid pb h
  obtain ⟨h1, h2, h3⟩ := (validPlan_iff pb plan).mp hv
  refine ⟨plan, e, ?_, h2, h3⟩
  intro x hx
  have := List.all_eq_true.mp h1 x hx
  simpa [Bool.and_eq_true, and_assoc] using this

/-- non-vacuity (unsorted positions, a zero supply, a zero demand, slack) -/
example : solve ⟨[5, 0, 3], [4, 9, 1], [2, 0, 1], [2, 0, 3]⟩ = .ok [(2, 2, 1), (0, 0, 2)] ∧
    validPlan ⟨[5, 0, 3], [4, 9, 1], [2, 0, 1], [2, 0, 3]⟩ [(2, 2, 1), (0, 0, 2)] = true := by decide

/-- FULL.  Geometry behind the plan: on the sorted zero-free instance handed to the solver
(`t1d_solver_instance`), the sweep + `flushPositions` return one position per source such that the
sources' intervals `[S i + p i, S (i+1) + p i]` on the cumulative-demand axis lie inside
`[0, D.back()]`, in order and without overlap. -/
theorem t1d_positions (pb : Problem) (h : InDomain pb) :
    ∃ p, run (sortedSolver pb) = .ok p ∧ p.length = (sortedSolver pb).u.length ∧
        (∀ i, i < (sortedSolver pb).u.length → 0 ≤ p.getD i 0 ∧
          (sortedSolver pb).S.getD (i + 1) 0 + p.getD i 0
            ≤ (sortedSolver pb).D.getD (sortedSolver pb).v.length 0) ∧
        (∀ i, i + 1 < (sortedSolver pb).u.length →
          (sortedSolver pb).S.getD (i + 1) 0 + p.getD i 0
            ≤ (sortedSolver pb).S.getD (i + 1) 0 + p.getD (i + 1) 0) := by
  obtain ⟨p, e, _, h1, h2, h3⟩ := run_geometry pb ((checkOk_iff pb).mpr h)
  exact ⟨p, e, h1, h2, h3⟩

/-- `solve`/`assign` really run the sweep on `sortedSolver pb` -/
theorem t1d_solver_instance (pb : Problem) (h : InDomain pb) :
    mkSorter pb = .ok ⟨ord pb.u pb.s, ord pb.v pb.d⟩ ∧
    convert ⟨ord pb.u pb.s, ord pb.v pb.d⟩ pb = .ok (sortedSolver pb) :=
  ⟨mkSorter_ok pb h.1 h.2.1, convert_ok pb h.1 h.2.1⟩

/-- FULL.  The plan is read off the positions exactly: on the instance handed to the solver,
`computeSolution` ships from source `i` to sink `j` the length of the overlap of the intervals
`[S i + p i, S (i+1) + p i]` and `[D j, D (j+1)]`. -/
theorem t1d_plan_is_overlap (pb : Problem) (h : InDomain pb) :
    ∃ p plan, run (sortedSolver pb) = .ok p ∧ computeSolution (sortedSolver pb) p = .ok plan ∧
      ∀ i j, i < (sortedSolver pb).u.length → j < (sortedSolver pb).v.length →
        cellSum plan i j = ov (sortedSolver pb) p i j := by
  obtain ⟨p, plan, e1, _, e2, post⟩ := computeSolution_spec pb ((checkOk_iff pb).mpr h)
  exact ⟨p, plan, e1, e2, post.cell⟩

/-! ## optimality -/

/-- FULL (weak duality + complementary slackness).  A plan that passes the decidable check
`certOk` for some potentials `al` (sources) / `be ≥ 0` (sinks) on the line —
`al i - be j ≤ |u i - v j|` everywhere, equality wherever the plan ships, sinks with positive
potential saturated — costs no more than any valid plan of the same problem. -/
theorem cert_optimal_1d (pb : Problem) (plan plan' : Plan) (al be : List Int)
    (hc : certOk pb plan al be = true) (hv : validPlan pb plan' = true) :
    planCost pb plan ≤ planCost pb plan' :=
  cert_optimal_core pb plan plan' al be hc hv

/-- non-vacuity: the certificate of the plan returned for u=[0,3], v=[1,2], s=[2,1], d=[2,2] -/
example : solve ⟨[0, 3], [1, 2], [2, 1], [2, 2]⟩ = .ok [(0, 0, 2), (1, 1, 1)] ∧
    certOk ⟨[0, 3], [1, 2], [2, 1], [2, 2]⟩ [(0, 0, 2), (1, 1, 1)] [1, 1] [0, 0] = true := by decide

/-- FULL under exact balance.  For every input of the domain with total supply = total demand
(what `balanceDemand` produces whenever supply exceeds demand) `solve` returns a valid plan of
minimum total distance cost.  Proof: the flushed positions are all 0, the plan is the monotone
coupling, and an explicit Kantorovich potential on the integer line (slope `-sign` of the net
supply to the left, `Proofs/Transp1dBalanced.lean`) passes `certOk` — for every such input. -/
theorem t1d_optimal_balanced (pb : Problem) (h : InDomain pb) (hbal : pb.s.sum = pb.d.sum) :
    ∃ plan, solve pb = .ok plan ∧ validPlan pb plan = true ∧
      ∀ plan', validPlan pb plan' = true → planCost pb plan ≤ planCost pb plan' :=
  solve_optimal_balanced pb ((checkOk_iff pb).mpr h) hbal

/-- FULL.  `balanceDemand` followed by `solve` on an instance whose supply is at least its demand
(sizes consistent, non-negative entries, at least one sink): the balanced problem is in the domain,
exactly balanced, and `solve` returns a valid plan of minimum cost for it. -/
theorem t1d_balance_then_solve_optimal (pb : Problem) (hs : pb.s.length = pb.u.length)
    (hd : pb.d.length = pb.v.length) (hsn : ∀ x ∈ pb.s, 0 ≤ x) (hdn : ∀ x ∈ pb.d, 0 ≤ x)
    (hm : 0 < pb.v.length) (hdef : pb.d.sum ≤ pb.s.sum) :
    ∃ pb' plan, balanceDemand pb = .ok pb' ∧ InDomain pb' ∧ pb'.s.sum = pb'.d.sum ∧
      solve pb' = .ok plan ∧ validPlan pb' plan = true ∧
      ∀ plan', validPlan pb' plan' = true → planCost pb' plan ≤ planCost pb' plan' := by
  obtain ⟨pb', plan, h1, h2, h3, h4, h5, h6⟩ := balance_then_solve_optimal pb hs hd hsn hdn hm hdef
  exact ⟨pb', plan, h1, (checkOk_iff pb').mp h2, h3, h4, h5, h6⟩

/-- non-vacuity: supply 5 > demand 2 -/
example : balanceDemand ⟨[3, 1], [0, 5], [4, 1], [1, 1]⟩ = .ok ⟨[3, 1], [0, 5], [4, 1], [3, 2]⟩ ∧
    solve ⟨[3, 1], [0, 5], [4, 1], [3, 2]⟩ = .ok [(1, 0, 1), (0, 0, 2), (0, 1, 2)] := by decide

/-- the certificate itself exists for every balanced input -/
theorem t1d_cert_exists_balanced (pb : Problem) (h : InDomain pb) (hbal : pb.s.sum = pb.d.sum) :
    ∃ plan al be, solve pb = .ok plan ∧ certOk pb plan al be = true :=
  solve_cert_balanced pb ((checkOk_iff pb).mpr h) hbal

/-- non-vacuity: a balanced instance with unsorted positions, a zero supply and a split source -/
example : InDomain ⟨[7, 0, 2], [1, 9, 4], [3, 0, 2], [2, 2, 1]⟩ ∧
    ([3, 0, 2] : List Int).sum = ([2, 2, 1] : List Int).sum ∧
    solve ⟨[7, 0, 2], [1, 9, 4], [3, 0, 2], [2, 2, 1]⟩ = .ok [(2, 0, 2), (0, 2, 1), (0, 1, 2)] :=
  ⟨(checkOk_iff _).mp (by decide), by decide, by decide⟩

/-- FULL — the optimality clause of C14.  For every input of the domain (slack or exact balance,
unsorted and duplicate positions, zero supplies and demands) `solve` never errors and returns a
valid plan of minimum total distance cost among all valid plans.
Proof (`Proofs/Transp1dOpt*.lean`), for total supply < total demand: (1) loop invariants of the
slope-events sweep — the event queue encodes the marginal cost of pushing the last run of touching
sources to the left (`LoopInv.iev`), that cost is non-negative and non-increasing in the position,
every decision `pushToNewSink`/`pushToLastSink` keeps the marginal costs of pushing any suffix of the
run to the right non-negative; (2) hence the flushed positions satisfy the optimality conditions
`Kkt` of the position problem (`t1d_positions_kkt`); (3) `Kkt` yields sink prices that form a dual
certificate on the sorted instance (Monge property and quasi-convexity of `|u i - v j|`,
`t1d_kkt_dual`); (4) the certificate is carried back through the sorter's renaming to `certOk` on
the original problem (potential on the line `ψ x = min_j (be j + |x - v j|)`), and weak duality
(`cert_optimal_1d`) concludes.  Exact balance is `t1d_optimal_balanced`. -/
theorem t1d_optimal (pb : Problem) (h : InDomain pb) :
    ∃ plan, solve pb = .ok plan ∧ validPlan pb plan = true ∧
      ∀ plan', validPlan pb plan' = true → planCost pb plan ≤ planCost pb plan' :=
  solve_optimal pb ((checkOk_iff pb).mpr h)

/-- non-vacuity: an instance with slack, unsorted positions, a zero supply and a zero demand -/
example : InDomain ⟨[5, 0, 3], [4, 9, 1], [2, 0, 1], [2, 0, 3]⟩ ∧
    solve ⟨[5, 0, 3], [4, 9, 1], [2, 0, 1], [2, 0, 3]⟩ = .ok [(2, 2, 1), (0, 0, 2)] :=
  ⟨(checkOk_iff _).mp (by decide), by decide⟩

/-- FULL.  The dual certificate exists for every input of the domain: the plan returned by `solve`
passes the decidable check `certOk` for suitable potentials. -/
theorem t1d_cert_exists (pb : Problem) (h : InDomain pb) :
    ∃ plan al be, solve pb = .ok plan ∧ certOk pb plan al be = true :=
  solve_cert pb ((checkOk_iff pb).mpr h)

/-- FULL (soundness of the per-instance check of the driver's `loc` op).  If the positions returned
by the sweep on the instance handed to the solver pass the decidable interval certificate
`ivCertOk` for some sink prices, the plan returned by `solve` has minimum cost.  (Redundant with
`t1d_optimal`; the driver evaluates `ivCertOk` with closed-formula prices on every case, which ties
the executed model to steps 2-4 of the proof instance by instance.) -/
theorem t1d_local_cert_sound (pb : Problem) (h : InDomain pb)
    (hloc : ∀ p, run (sortedSolver pb) = .ok p → ∃ be, ivCertOk (sortedSolver pb) p be = true) :
    ∃ plan, solve pb = .ok plan ∧ validPlan pb plan = true ∧
      ∀ plan', validPlan pb plan' = true → planCost pb plan ≤ planCost pb plan' := by
  have hv := (checkOk_iff pb).mpr h
  refine solve_optimal_of_glob pb hv (fun p e => ?_)
  obtain ⟨be, hb⟩ := hloc p e
  exact ⟨_, ivCert_glob (sortedSolver pb) p (sortedSolver_dom pb hv).Dmono _
    ((ivCertOk_iff (sortedSolver pb) p be).mp hb)⟩

/-- non-vacuity: positions and prices of u=[5,0,3], v=[4,9,1], s=[2,0,1], d=[2,0,3] -/
example : run (sortedSolver ⟨[5, 0, 3], [4, 9, 1], [2, 0, 1], [2, 0, 3]⟩) = .ok [2, 2] ∧
    ivCertOk (sortedSolver ⟨[5, 0, 3], [4, 9, 1], [2, 0, 1], [2, 0, 3]⟩) [2, 2] [0, 1] = true := by decide

/-- FULL (step 2 of `t1d_optimal`).  With total supply < total demand, the positions returned by the
sweep + `flushPositions` on the instance handed to the solver satisfy the optimality conditions of
the position problem: for every run of touching sources, pushing any prefix of it to the left or
any suffix of it to the right does not decrease the cost (whenever there is room), and the first /
last source of a run does not prefer an earlier / later sink. -/
theorem t1d_positions_kkt (pb : Problem) (h : InDomain pb) (hsl : pb.s.sum < pb.d.sum) (p : List Int)
    (e : run (sortedSolver pb) = .ok p) : Kkt (sortedSolver pb) p := by
  have hv := (checkOk_iff pb).mpr h
  have sd := sortedSolver_swDom pb hv
  have hslack := sortedSolver_strict_slack pb hv hsl
  have hm : 0 < (sortedSolver pb).v.length := by
    by_cases h0 : (sortedSolver pb).v.length = 0
    · have hD0 : (sortedSolver pb).D.getD 0 0 = 0 := by rw [sd.si.eD]; exact prefixFrom_zero 0 _
      have hS0 : (sortedSolver pb).S.getD 0 0 = 0 := by rw [sd.si.eS]; exact prefixFrom_zero 0 _
      have := sd.dom.Smono 0 (sortedSolver pb).u.length (Nat.zero_le _) (Nat.le_refl _)
      rw [h0] at hslack
      omega
    · omega
  exact (run_kkt (sortedSolver pb) sd hm hslack p e).2

/-- FULL (step 3 of `t1d_optimal`).  On a sorted zero-free instance with strict slack, positions
that satisfy `Kkt` admit sink prices `be ≥ 0` — zero on every sink that is not completely covered —
for which every source is, prices included, cheapest in each sink it overlaps. -/
theorem t1d_kkt_dual (sv : Solver) (q : List Int) (dom : PosDom sv q) (kkt : Kkt sv q) :
    ∃ be : Nat → Int, GlobCert sv q be :=
  kkt_glob sv q dom kkt

/-- non-vacuity: one source of size 1 at the left wall, one sink of size 2 -/
example : PosDom (mkSolver [0] [0] [1] [2]) [0] ∧ Kkt (mkSolver [0] [0] [1] [2]) [0] := kkt_example

/-- FULL (one iteration of the `while` loop of `push`).  The loop invariant of the sweep — among
others: the cumulated slope of the events at positions `≥ x` equals the marginal cost of pushing
the current run of touching sources to the left at `x` — is preserved by `pushOnce`. -/
theorem t1d_pushOnce_invariant (sv : Solver) (sd : SwDom sv) (i : Nat) (st st' : St)
    (inv : LoopInv sv i st) (hc : Overflow sv i st) (e : pushOnce sv i st = .ok st') :
    LoopInv sv i st' :=
  pushOnce_loopInv sv sd i st st' inv hc e

/-- non-vacuity of the sweep invariants: they hold in the initial state of every instance of the
domain that has a sink -/
example (pb : Problem) (h : InDomain pb) (hm : 0 < (sortedSolver pb).v.length) :
    SwDom (sortedSolver pb) ∧ SweepInv (sortedSolver pb) St.init :=
  ⟨sortedSolver_swDom pb ((checkOk_iff pb).mpr h),
    sweepInv_init _ hm (sortedSolver_swDom pb ((checkOk_iff pb).mpr h))⟩

/-! ## rounding -/

/-- FULL (after F10's repair), for ALL inputs of the domain — zero supplies and zero demands
included: `assign` never errors — no out-of-range access anywhere (sorter, sweep, flush, rounding
walk, mapping back) and the `while` loop of `push` terminates within the fuel the model passes
(`Err.outOfFuel` impossible) —, returns exactly one entry per source, and — as soon as some sink
has positive demand — every entry names a sink of positive demand. -/
theorem t1d_assign_safe (pb : Problem) (h : InDomain pb) :
    ∃ a, assign pb = .ok a ∧ a.length = pb.u.length ∧
      ((∃ j, j < pb.v.length ∧ 0 < pb.d.getD j 0) → ∀ k ∈ a, k < pb.v.length ∧ 0 < pb.d.getD k 0) :=
  assign_total pb ((checkOk_iff pb).mpr h)

/-- non-vacuity, and the F10 witness on the repaired model -/
example : assign ⟨[0, 1], [0, 1], [0, 1], [0, 1]⟩ = .ok [1, 1] := by decide

/-- FULL.  Termination of the sweep: on every instance whose prefix sums are monotone with total
supply ≤ total demand (`Solver.Dom`; `sortedSolver_dom`: every instance the sorter builds from an
input of the domain), `push` — whose `while` loop runs on `loopFuel` — started from a state
satisfying the sweep invariants ends normally, with the loop condition false and the invariants
re-established for the next source. -/
theorem t1d_push_terminates (sv : Solver) (dom : sv.Dom) (i : Nat) (hi : i < sv.u.length) (st : St)
    (inv : Inv sv st) (ei : EvInv st)
    (hJ : sv.D.getD st.lastOcc 0 - sv.S.getD i 0 ≤ st.lastPosition) :
    ∃ st', push sv i st = .ok st' ∧ Inv sv st' ∧ EvInv st' ∧
      sv.D.getD st'.lastOcc 0 - sv.S.getD (i + 1) 0 ≤ st'.lastPosition ∧
      st'.lastPosition ≤ sv.D.getD (st'.lastOcc + 1) 0 - sv.S.getD (i + 1) 0 := by
  obtain ⟨st', e, k1, _, k3, k4, k5⟩ := push_total sv dom i hi st inv ei hJ
  exact ⟨st', e, k1, k3, k4, k5⟩

/-- non-vacuity: the hypotheses hold for the initial state of every instance of the domain -/
example (pb : Problem) (h : InDomain pb) (hm : 0 < (sortedSolver pb).v.length) :
    (sortedSolver pb).Dom ∧ Inv (sortedSolver pb) St.init ∧ EvInv St.init :=
  ⟨sortedSolver_dom pb ((checkOk_iff pb).mpr h), ⟨hm, hm, Int.le_refl _, by simp [St.init]⟩,
    ⟨by simp [St.init, SortedEv], by simp [St.init]⟩⟩

/-- FULL, strong form.  A source of positive supply that the plan returned by `solve` does not
split — all its plan entries name the same sink `j` — is assigned exactly `j` by `assign`. -/
theorem t1d_unsplit_kept (pb : Problem) (h : InDomain pb) (plan : Plan) (a : List Nat) (i j : Nat)
    (hs : solve pb = .ok plan) (ha : assign pb = .ok a) (hi : i < pb.u.length)
    (hpos : 0 < pb.s.getD i 0) (hsingle : ∀ e ∈ plan, e.1 = i → e.2.1 = j) :
    a.getD i 0 = j :=
  solve_assign_unsplit pb ((checkOk_iff pb).mpr h) plan a hs ha i j hi hpos hsingle

/-- FULL, in the words of the property: such a source is sent to the plan's sink, or to another
sink at the same position (the first alternative always holds, by `t1d_unsplit_kept`). -/
theorem t1d_unsplit_kept_position (pb : Problem) (h : InDomain pb) (plan : Plan) (a : List Nat)
    (i j : Nat) (hs : solve pb = .ok plan) (ha : assign pb = .ok a) (hi : i < pb.u.length)
    (hpos : 0 < pb.s.getD i 0) (hsingle : ∀ e ∈ plan, e.1 = i → e.2.1 = j) :
    a.getD i 0 = j ∨ pb.v.getD (a.getD i 0) 0 = pb.v.getD j 0 :=
  Or.inl (t1d_unsplit_kept pb h plan a i j hs ha hi hpos hsingle)

/-- non-vacuity: u=[5,0,3], v=[4,9,1], s=[2,0,1], d=[2,0,3]: sources 0 and 2 are unsplit
(plan entries (0,0,2) and (2,2,1)) and are assigned sinks 0 and 2; the zero-supply source 1
gets the default sink -/
example : solve ⟨[5, 0, 3], [4, 9, 1], [2, 0, 1], [2, 0, 3]⟩ = .ok [(2, 2, 1), (0, 0, 2)] ∧
    assign ⟨[5, 0, 3], [4, 9, 1], [2, 0, 1], [2, 0, 3]⟩ = .ok [0, 2, 2] := by decide

/-- FULL, at the level of the instance handed to the solver: a source `k` whose interval
`[S k + p k, S (k+1) + p k]` lies inside sink `j`'s interval `[D j, D (j+1)]` is assigned `j`
by `computeAssignment` (used by `t1d_unsplit_kept`). -/
theorem t1d_unsplit_contained (pb : Problem) (h : InDomain pb)
    (p : List Int) (a : List Nat) (hrun : run (sortedSolver pb) = .ok p)
    (ha : computeAssignment (sortedSolver pb) p = .ok a) (k j : Nat)
    (hk : k < (sortedSolver pb).u.length) (hj : j < (sortedSolver pb).v.length)
    (h1 : (sortedSolver pb).D.getD j 0 ≤ (sortedSolver pb).S.getD k 0 + p.getD k 0)
    (h2 : (sortedSolver pb).S.getD (k + 1) 0 + p.getD k 0 ≤ (sortedSolver pb).D.getD (j + 1) 0) :
    a.getD k 0 = j :=
  computeAssignment_unsplit pb ((checkOk_iff pb).mpr h) p a hrun ha k j hk hj h1 h2

/-- non-vacuity: u=[0,3], v=[1,2], s=[2,1], d=[2,2]: positions [0,0]... source 0 inside sink 0 -/
example : run (sortedSolver ⟨[0, 3], [1, 2], [2, 1], [2, 2]⟩) = .ok [0, 0] ∧
    computeAssignment (sortedSolver ⟨[0, 3], [1, 2], [2, 1], [2, 2]⟩) [0, 0] = .ok [0, 1] := by decide

/-- the single rounding step: the walk stops at the unique sink containing the position -/
theorem t1d_round_step (d : List Int) (hpos : ∀ x ∈ d, 0 < x) (pos : Int)
    (cs j cs' : Nat) (rest' : List Int)
    (e : walk pos ((prefixFrom 0 d).drop (cs + 1)) cs = .ok (cs', rest'))
    (hstart : (prefixFrom 0 d).getD cs 0 ≤ pos) (hj : j < d.length)
    (h1 : (prefixFrom 0 d).getD j 0 ≤ pos) (h2 : pos < (prefixFrom 0 d).getD (j + 1) 0) :
    cs' = j ∧ rest' = (prefixFrom 0 d).drop (j + 1) :=
  walk_unique d hpos pos cs j cs' rest' e hstart hj h1 h2

example : walk 4 ((prefixFrom 0 [2, 3, 1]).drop 1) 0 = .ok (1, [5, 6]) := by decide

/-! ## balanceDemand -/

/-- FULL.  `balanceDemand` succeeds whenever there is a sink (or nothing to do), changes only the
demands, never decreases one, leaves a problem with supply ≤ demand, and is the identity when
supply ≤ demand already. -/
theorem balanceDemand_covers (pb : Problem) (hs : pb.s.length = pb.u.length)
    (hd : pb.d.length = pb.v.length) (hm : 0 < pb.v.length ∨ pb.s.sum ≤ pb.d.sum) :
    ∃ pb', balanceDemand pb = .ok pb' ∧ pb'.u = pb.u ∧ pb'.v = pb.v ∧ pb'.s = pb.s ∧
      pb'.d.length = pb.d.length ∧ pb'.s.sum ≤ pb'.d.sum ∧
      (∀ j, pb.d.getD j 0 ≤ pb'.d.getD j 0) ∧ (pb.s.sum ≤ pb.d.sum → pb' = pb) :=
  balanceDemand_spec pb hs hd hm

example : balanceDemand ⟨[3, 1], [0, 5], [4, 1], [1, 1]⟩ = .ok ⟨[3, 1], [0, 5], [4, 1], [3, 2]⟩ := by
  decide

/-! ## the self-checks of `solve()` -/

/-- FULL.  The input checks accept every input of the domain: `Transportation1d::check()` on the
problem, and `Transportation1dSolver::check()` (base check, sizes of the prefix sums, `checkSorted`,
`checkNonZeroCapacities`) on the instance the sorter hands to the solver. -/
theorem checks_accept_valid_input (pb : Problem) (h : InDomain pb) :
    checkInput pb = .ok () ∧ solverCheck (sortedSolver pb) 0 = .ok () :=
  ⟨(checkInput_ok_iff pb).mpr ((checkOk_iff pb).mpr h), sortedSolver_check pb ((checkOk_iff pb).mpr h)⟩

/-- FULL.  `Transportation1d::check()` accepts exactly the domain of C14 (for every input, sizes
of the four vectors arbitrary). -/
theorem checks_accept_iff_in_domain (pb : Problem) : checkInput pb = .ok () ↔ InDomain pb :=
  (checkInput_ok_iff pb).trans (checkOk_iff pb)

/-- non-vacuity (zeros, unsorted positions) -/
example : checkInput ⟨[5, 0, 3], [4, 9, 1], [2, 0, 1], [2, 0, 3]⟩ = .ok () ∧
    solverCheck (sortedSolver ⟨[5, 0, 3], [4, 9, 1], [2, 0, 1], [2, 0, 3]⟩) 0 = .ok () := by decide

/-- FULL.  For every input of the domain the two solution checks accept the plan `solve()` computes
on the instance handed to the solver: `checkSolutionValid` (the plan is valid) and
`checkSolutionOptimal` (no chain of moves to neighbouring sinks ending in a sink with spare capacity
has positive gain; derived from the dual certificate behind `t1d_optimal`: the running gain of a
scan from `snk` to `nxt` is at most `be nxt - be snk ≤ 0`; with exact balance no sink has spare
capacity).  Entries of `gainRight`/`gainLeft` are read only for sinks that receive something: the
`LLONG_MIN` sentinel (F11) never enters the arithmetic (`CkErr.sentinel` is an error). -/
theorem solve_passes_own_checks (pb : Problem) (h : InDomain pb) :
    ∃ p sol, run (sortedSolver pb) = .ok p ∧ computeSolution (sortedSolver pb) p = .ok sol ∧
      checkSolutionValid (sortedSolver pb).toProblem sol = .ok () ∧
      checkSolutionOptimal (sortedSolver pb) sol = .ok () := by
  obtain ⟨p, sol, h1, h2, h3, h4, _⟩ := solve_own_checks pb ((checkOk_iff pb).mpr h)
  exact ⟨p, sol, h1, h2, h3, h4⟩

/-- non-vacuity: positions [2,2] and plan of u=[5,0,3], v=[4,9,1], s=[2,0,1], d=[2,0,3] -/
example : computeSolution (sortedSolver ⟨[5, 0, 3], [4, 9, 1], [2, 0, 1], [2, 0, 3]⟩) [2, 2]
      = .ok [(0, 0, 1), (1, 1, 2)] ∧
    checkSolutionOptimal (sortedSolver ⟨[5, 0, 3], [4, 9, 1], [2, 0, 1], [2, 0, 3]⟩)
      [(0, 0, 1), (1, 1, 2)] = .ok () := by decide

/-- FULL.  `solve()` with all its self-checks never throws on an input of the domain (no
`std::runtime_error` from any check, no out-of-range access, no sentinel arithmetic, no fuel
exhaustion) and returns exactly the plan of `solve` — which is valid and of minimum cost. -/
theorem solveFull_never_throws (pb : Problem) (h : InDomain pb) :
    ∃ plan, solveFull pb = .ok plan ∧ solve pb = .ok plan ∧ validPlan pb plan = true ∧
      ∀ plan', validPlan pb plan' = true → planCost pb plan ≤ planCost pb plan' := by
  obtain ⟨plan, e1, e2⟩ := solveFull_ok pb ((checkOk_iff pb).mpr h)
  obtain ⟨plan', e3, hv, ho⟩ := t1d_optimal pb h
  rw [e2] at e3
  cases e3
  exact ⟨plan, e1, e2, hv, ho⟩

example : solveFull ⟨[5, 0, 3], [4, 9, 1], [2, 0, 1], [2, 0, 3]⟩ = .ok [(2, 2, 1), (0, 0, 2)] := by
  decide

/-- FULL.  The checks only ever add exceptions: whenever `solveFull` returns, `solve` returns the
same plan (for every input). -/
theorem solveFull_refines_solve (pb : Problem) (plan : Plan) (h : solveFull pb = .ok plan) :
    solve pb = .ok plan :=
  solveFull_refines pb plan h

/-! ### the error branches, class by class -/

/-- FULL.  Outside the domain `check()` — hence `solve()` — throws (`std::runtime_error`; never an
out-of-range access, whatever the sizes of the four vectors). -/
theorem checks_reject_outside_domain (pb : Problem) (h : ¬ InDomain pb) :
    (∃ s, checkInput pb = .error (.thrown s)) ∧ (∃ s, solveFull pb = .error (.thrown s)) :=
  ⟨checkInput_rejects pb (fun hv => h ((checkOk_iff pb).mp hv)),
    solveFull_rejects pb (fun hv => h ((checkOk_iff pb).mp hv))⟩

/-- FULL.  Supplies whose number differs from the number of sources: "Inconsistant supplies". -/
theorem checks_reject_supply_size (pb : Problem) (h : pb.s.length ≠ pb.u.length) :
    checkInput pb = .error (.thrown .supSize) :=
  checkInput_supSize pb h

/-- FULL.  Demands whose number differs from the number of sinks: "Inconsistant demands". -/
theorem checks_reject_demand_size (pb : Problem) (hs : pb.s.length = pb.u.length)
    (h : pb.d.length ≠ pb.v.length) : checkInput pb = .error (.thrown .demSize) :=
  checkInput_demSize pb hs h

/-- FULL.  A negative supply: "Supplies must be non-negative". -/
theorem checks_reject_negative_supply (pb : Problem) (hs : pb.s.length = pb.u.length)
    (hd : pb.d.length = pb.v.length) (h : ∃ x ∈ pb.s, x < 0) :
    checkInput pb = .error (.thrown .supNeg) :=
  checkInput_supNeg pb hs hd h

/-- FULL.  A negative demand (supplies non-negative): "Demands must be non-negative". -/
theorem checks_reject_negative_demand (pb : Problem) (hs : pb.s.length = pb.u.length)
    (hd : pb.d.length = pb.v.length) (hsn : ∀ x ∈ pb.s, 0 ≤ x) (h : ∃ x ∈ pb.d, x < 0) :
    checkInput pb = .error (.thrown .demNeg) :=
  checkInput_demNeg pb hs hd hsn h

/-- FULL.  Total demand below total supply — in particular no sink but a positive supply: "The
supply should be no larger than the demand". -/
theorem checks_reject_excess_supply (pb : Problem) (hs : pb.s.length = pb.u.length)
    (hd : pb.d.length = pb.v.length) (hsn : ∀ x ∈ pb.s, 0 ≤ x) (hdn : ∀ x ∈ pb.d, 0 ≤ x)
    (h : pb.d.sum < pb.s.sum) : checkInput pb = .error (.thrown .supGtDem) :=
  checkInput_supGtDem pb hs hd hsn hdn h

/-- non-vacuity of the five classes (the last one: an empty sink side) -/
example : checkInput ⟨[0, 1], [0], [1], [2]⟩ = .error (.thrown .supSize) ∧
    checkInput ⟨[0], [0], [1], [2, 1]⟩ = .error (.thrown .demSize) ∧
    checkInput ⟨[0, 1], [0], [1, -1], [2]⟩ = .error (.thrown .supNeg) ∧
    checkInput ⟨[0], [0, 1], [1], [2, -1]⟩ = .error (.thrown .demNeg) ∧
    checkInput ⟨[0], [], [1], []⟩ = .error (.thrown .supGtDem) := by decide

/-- FULL.  `Transportation1dSolver::check()` on a solver built directly from an input of the domain
(no sorter in front) rejects unsorted source positions … -/
theorem checks_reject_unsorted_sources (pb : Problem) (h : InDomain pb) (i : Nat)
    (hi : i + 1 < pb.u.length) (hlt : pb.u.getD (i + 1) 0 < pb.u.getD i 0) :
    solverCheck (mkSolver pb.u pb.v pb.s pb.d) 0 = .error (.thrown .srcUnsorted) :=
  solverCheck_srcUnsorted _ (mkSolver_wf _ _ _ _ h.1 h.2.1)
    ((checkInput_ok_iff pb).mpr ((checkOk_iff pb).mpr h)) i hi hlt

/-- … unsorted sink positions (sources sorted) … -/
theorem checks_reject_unsorted_sinks (pb : Problem) (h : InDomain pb)
    (hus : List.Pairwise (fun a b => a ≤ b) pb.u) (j : Nat)
    (hj : j + 1 < pb.v.length) (hlt : pb.v.getD (j + 1) 0 < pb.v.getD j 0) :
    solverCheck (mkSolver pb.u pb.v pb.s pb.d) 0 = .error (.thrown .snkUnsorted) :=
  solverCheck_snkUnsorted _ (mkSolver_wf _ _ _ _ h.1 h.2.1)
    ((checkInput_ok_iff pb).mpr ((checkOk_iff pb).mpr h)) hus j hj hlt

/-- … a zero supply (positions sorted) … -/
theorem checks_reject_zero_supply (pb : Problem) (h : InDomain pb)
    (hus : List.Pairwise (fun a b => a ≤ b) pb.u) (hvs : List.Pairwise (fun a b => a ≤ b) pb.v)
    (h0 : (0 : Int) ∈ pb.s) :
    solverCheck (mkSolver pb.u pb.v pb.s pb.d) 0 = .error (.thrown .supZero) :=
  solverCheck_supZero _ (mkSolver_wf _ _ _ _ h.1 h.2.1)
    ((checkInput_ok_iff pb).mpr ((checkOk_iff pb).mpr h)) hus hvs h0

/-- … and a zero demand (positions sorted, supplies positive). -/
theorem checks_reject_zero_demand (pb : Problem) (h : InDomain pb)
    (hus : List.Pairwise (fun a b => a ≤ b) pb.u) (hvs : List.Pairwise (fun a b => a ≤ b) pb.v)
    (hsp : ∀ x ∈ pb.s, 0 < x) (h0 : (0 : Int) ∈ pb.d) :
    solverCheck (mkSolver pb.u pb.v pb.s pb.d) 0 = .error (.thrown .demZero) :=
  solverCheck_demZero _ (mkSolver_wf _ _ _ _ h.1 h.2.1)
    ((checkInput_ok_iff pb).mpr ((checkOk_iff pb).mpr h)) hus hvs hsp h0

/-- non-vacuity of the four classes -/
example : solverCheck (mkSolver [1, 0] [0, 1] [1, 1] [1, 1]) 0 = .error (.thrown .srcUnsorted) ∧
    solverCheck (mkSolver [0, 1] [1, 0] [1, 1] [1, 1]) 0 = .error (.thrown .snkUnsorted) ∧
    solverCheck (mkSolver [0, 1] [0, 1] [0, 1] [1, 1]) 0 = .error (.thrown .supZero) ∧
    solverCheck (mkSolver [0, 1] [0, 1] [1, 1] [0, 2]) 0 = .error (.thrown .demZero) := by decide

/-- FULL.  `checkSolutionValid` accepts exactly the valid plans: with consistent sizes and entries in
range it returns normally iff every amount is positive, every supply is met exactly and no demand is
exceeded; otherwise it throws (never an index error). -/
theorem checkSolutionValid_accepts_iff (pb : Problem) (hs : pb.s.length = pb.u.length)
    (hd : pb.d.length = pb.v.length) (sol : Plan)
    (hr : ∀ e ∈ sol, e.1 < pb.u.length ∧ e.2.1 < pb.v.length) :
    (checkSolutionValid pb sol = .ok () ↔ validPlan pb sol = true) ∧
    (validPlan pb sol ≠ true → ∃ s, checkSolutionValid pb sol = .error (.thrown s)) := by
  refine ⟨⟨fun h => ?_, checkSolutionValid_ok pb hs hd sol⟩, checkSolutionValid_rejects pb hs hd sol hr⟩
  by_cases hv : validPlan pb sol = true
  · exact hv
  · obtain ⟨s, e⟩ := checkSolutionValid_rejects pb hs hd sol hr hv
    rw [e] at h
    cases h

/-- non-vacuity: a non-positive amount, an unmet supply, an exceeded demand -/
example : checkSolutionValid ⟨[0, 1], [0, 1], [1, 1], [1, 1]⟩ [(0, 0, 1), (1, 1, 1), (1, 0, 0)]
      = .error (.thrown .allocNonPos) ∧
    checkSolutionValid ⟨[0, 1], [0, 1], [1, 1], [1, 1]⟩ [(0, 0, 1)] = .error (.thrown .supNotMet) ∧
    checkSolutionValid ⟨[0, 1], [0, 1], [1, 1], [1, 1]⟩ [(0, 0, 1), (1, 0, 1)]
      = .error (.thrown .demExceeded) := by decide

/-- The error branches of `checkSolutionOptimal` are reachable: a valid plan that ships to the far
sink although the near one has spare capacity is flagged, to the right and to the left (the
correspondence stream exercises both on mutated plans on every run). -/
theorem checks_reject_improving_moves :
    checkSolutionOptimal (mkSolver [5] [0, 5] [1] [1, 1]) [(0, 0, 1)]
      = .error (.thrown .improvingRight) ∧
    checkSolutionOptimal (mkSolver [0] [0, 5] [1] [1, 1]) [(0, 1, 1)]
      = .error (.thrown .improvingLeft) := by decide

/-! ## the defect repaired by F10 -/

/-- Before the repair of F10 (`Model/LegacyTransp1d.lean`): with u=[0,1], s=[0,1] the write
`ret[srcOrder[0]]` is out of range — the heap overflow ASan reports on the unrepaired tree. -/
theorem assign_oob_with_zero_supply :
    assignLegacy ⟨[0, 1], [0, 1], [0, 1], [0, 1]⟩ = .error Err.indexOutOfRange := by decide

end ColoVerif.C14
