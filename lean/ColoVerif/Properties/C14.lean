import ColoVerif.Model.LegacyTransp1d
import ColoVerif.Proofs.Transp1dCert
import ColoVerif.Proofs.Transp1dKept
import ColoVerif.Proofs.Transp1dBalanced
/-!
# C14 — one-dimensional transportation is optimal and its rounding is memory-safe

All statements are about `ColoVerif.Transp1d.{solve, assign, balanceDemand}` — the functions the
driver `drv_C14` executes against `Transportation1d::{solve, assign, balanceDemand}`.
The model's only unbounded loop (`while` in `Transportation1dSolver::push`) runs on the fuel
`loopFuel = 2 * nbSinks + events.size() + 3`, which `Proofs/Transp1dTerm.lean` proves sufficient on
the whole domain: the theorems below are unconditional ("never errors" includes `outOfFuel`).
-/
namespace ColoVerif.C14
open ColoVerif.Transp1d

/-- the domain of C14: consistent sizes, non-negative supplies and demands, supply ≤ demand
(exactly what `Transportation1d::check()` accepts) -/
def InDomain (pb : Problem) : Prop :=
  pb.s.length = pb.u.length ∧ pb.d.length = pb.v.length ∧
  (∀ x ∈ pb.s, 0 ≤ x) ∧ (∀ x ∈ pb.d, 0 ≤ x) ∧ pb.s.sum ≤ pb.d.sum

/-- non-vacuity of the domain, zeros included -/
example : InDomain ⟨[0, 1], [0, 1], [0, 1], [0, 1]⟩ :=
  (checkOk_iff _).mp (by decide)

/-! ## validity -/

/-- FULL.  For every input of the domain `solve` never errors (no out-of-range access, no
`outOfFuel`) and returns a valid plan: every entry is in range and positive, every source ships
exactly its supply, no sink receives more than its demand. -/
theorem t1d_valid (pb : Problem) (h : InDomain pb) :
    ∃ plan, solve pb = .ok plan ∧ validPlan pb plan = true :=
  solve_valid pb ((checkOk_iff pb).mpr h)

/-- the same, with `validPlan` unfolded -/
theorem t1d_valid_unfolded (pb : Problem) (h : InDomain pb) :
    ∃ plan, solve pb = .ok plan ∧
      (∀ e ∈ plan, e.1 < pb.u.length ∧ e.2.1 < pb.v.length ∧ 0 < e.2.2) ∧
      (∀ i, i < pb.u.length → rowSum plan i = pb.s.getD i 0) ∧
      (∀ j, j < pb.v.length → colSum plan j ≤ pb.d.getD j 0) := by
  obtain ⟨plan, e, hv⟩ := t1d_valid pb h
  obtain ⟨h1, h2, h3⟩ := (validPlan_iff pb plan).mp hv
  refine ⟨plan, e, ?_, h2, h3⟩
  intro x hx
  have := List.all_eq_true.mp h1 x hx
  simpa [Bool.and_eq_true, and_assoc] using this

/-- non-vacuity (unsorted positions, a zero supply, a zero demand, slack) -/
example : solve ⟨[5, 0, 3], [4, 9, 1], [2, 0, 1], [2, 0, 3]⟩ = .ok [(2, 2, 1), (0, 0, 2)] ∧
    validPlan ⟨[5, 0, 3], [4, 9, 1], [2, 0, 1], [2, 0, 3]⟩ [(2, 2, 1), (0, 0, 2)] = true := by decide

/-- FULL.  Geometry behind the plan: on the sorted zero-free instance handed to the solver
(`t1d_solver_instance`), the sweep + `flushPositions` return one position per source such that the
sources' intervals `[S i + p i, S (i+1) + p i]` on the cumulative-demand axis lie inside
`[0, D.back()]`, in order and without overlap. -/
theorem t1d_positions (pb : Problem) (h : InDomain pb) :
    ∃ p, run (sortedSolver pb) = .ok p ∧ p.length = (sortedSolver pb).u.length ∧
        (∀ i, i < (sortedSolver pb).u.length → 0 ≤ p.getD i 0 ∧
          (sortedSolver pb).S.getD (i + 1) 0 + p.getD i 0
            ≤ (sortedSolver pb).D.getD (sortedSolver pb).v.length 0) ∧
        (∀ i, i + 1 < (sortedSolver pb).u.length →
          (sortedSolver pb).S.getD (i + 1) 0 + p.getD i 0
            ≤ (sortedSolver pb).S.getD (i + 1) 0 + p.getD (i + 1) 0) := by
  obtain ⟨p, e, _, h1, h2, h3⟩ := run_geometry pb ((checkOk_iff pb).mpr h)
  exact ⟨p, e, h1, h2, h3⟩

/-- `solve`/`assign` really run the sweep on `sortedSolver pb` -/
theorem t1d_solver_instance (pb : Problem) (h : InDomain pb) :
    mkSorter pb = .ok ⟨ord pb.u pb.s, ord pb.v pb.d⟩ ∧
    convert ⟨ord pb.u pb.s, ord pb.v pb.d⟩ pb = .ok (sortedSolver pb) :=
  ⟨mkSorter_ok pb h.1 h.2.1, convert_ok pb h.1 h.2.1⟩

/-- FULL.  The plan is read off the positions exactly: on the instance handed to the solver,
`computeSolution` ships from source `i` to sink `j` the length of the overlap of the intervals
`[S i + p i, S (i+1) + p i]` and `[D j, D (j+1)]`. -/
theorem t1d_plan_is_overlap (pb : Problem) (h : InDomain pb) :
    ∃ p plan, run (sortedSolver pb) = .ok p ∧ computeSolution (sortedSolver pb) p = .ok plan ∧
      ∀ i j, i < (sortedSolver pb).u.length → j < (sortedSolver pb).v.length →
        cellSum plan i j = ov (sortedSolver pb) p i j := by
  obtain ⟨p, plan, e1, _, e2, post⟩ := computeSolution_spec pb ((checkOk_iff pb).mpr h)
  exact ⟨p, plan, e1, e2, post.cell⟩

/-! ## optimality -/

/-- FULL (weak duality + complementary slackness).  A plan that passes the decidable check
`certOk` for some potentials `al` (sources) / `be ≥ 0` (sinks) on the line —
`al i - be j ≤ |u i - v j|` everywhere, equality wherever the plan ships, sinks with positive
potential saturated — costs no more than any valid plan of the same problem. -/
theorem cert_optimal_1d (pb : Problem) (plan plan' : Plan) (al be : List Int)
    (hc : certOk pb plan al be = true) (hv : validPlan pb plan' = true) :
    planCost pb plan ≤ planCost pb plan' :=
  cert_optimal_core pb plan plan' al be hc hv

/-- non-vacuity: the certificate of the plan returned for u=[0,3], v=[1,2], s=[2,1], d=[2,2] -/
example : solve ⟨[0, 3], [1, 2], [2, 1], [2, 2]⟩ = .ok [(0, 0, 2), (1, 1, 1)] ∧
    certOk ⟨[0, 3], [1, 2], [2, 1], [2, 2]⟩ [(0, 0, 2), (1, 1, 1)] [1, 1] [0, 0] = true := by decide

/-- FULL under exact balance.  For every input of the domain with total supply = total demand
(what `balanceDemand` produces whenever supply exceeds demand) `solve` returns a valid plan of
minimum total distance cost.  Proof: the flushed positions are all 0, the plan is the monotone
coupling, and an explicit Kantorovich potential on the integer line (slope `-sign` of the net
supply to the left, `Proofs/Transp1dBalanced.lean`) passes `certOk` — for every such input. -/
theorem t1d_optimal_balanced (pb : Problem) (h : InDomain pb) (hbal : pb.s.sum = pb.d.sum) :
    ∃ plan, solve pb = .ok plan ∧ validPlan pb plan = true ∧
      ∀ plan', validPlan pb plan' = true → planCost pb plan ≤ planCost pb plan' :=
  solve_optimal_balanced pb ((checkOk_iff pb).mpr h) hbal

/-- FULL.  `balanceDemand` followed by `solve` on an instance whose supply is at least its demand
(sizes consistent, non-negative entries, at least one sink): the balanced problem is in the domain,
exactly balanced, and `solve` returns a valid plan of minimum cost for it. -/
theorem t1d_balance_then_solve_optimal (pb : Problem) (hs : pb.s.length = pb.u.length)
    (hd : pb.d.length = pb.v.length) (hsn : ∀ x ∈ pb.s, 0 ≤ x) (hdn : ∀ x ∈ pb.d, 0 ≤ x)
    (hm : 0 < pb.v.length) (hdef : pb.d.sum ≤ pb.s.sum) :
    ∃ pb' plan, balanceDemand pb = .ok pb' ∧ InDomain pb' ∧ pb'.s.sum = pb'.d.sum ∧
      solve pb' = .ok plan ∧ validPlan pb' plan = true ∧
      ∀ plan', validPlan pb' plan' = true → planCost pb' plan ≤ planCost pb' plan' := by
  obtain ⟨pb', plan, h1, h2, h3, h4, h5, h6⟩ := balance_then_solve_optimal pb hs hd hsn hdn hm hdef
  exact ⟨pb', plan, h1, (checkOk_iff pb').mp h2, h3, h4, h5, h6⟩

/-- non-vacuity: supply 5 > demand 2 -/
example : balanceDemand ⟨[3, 1], [0, 5], [4, 1], [1, 1]⟩ = .ok ⟨[3, 1], [0, 5], [4, 1], [3, 2]⟩ ∧
    solve ⟨[3, 1], [0, 5], [4, 1], [3, 2]⟩ = .ok [(1, 0, 1), (0, 0, 2), (0, 1, 2)] := by decide

/-- the certificate itself exists for every balanced input -/
theorem t1d_cert_exists_balanced (pb : Problem) (h : InDomain pb) (hbal : pb.s.sum = pb.d.sum) :
    ∃ plan al be, solve pb = .ok plan ∧ certOk pb plan al be = true :=
  solve_cert_balanced pb ((checkOk_iff pb).mpr h) hbal

/-- non-vacuity: a balanced instance with unsorted positions, a zero supply and a split source -/
example : InDomain ⟨[7, 0, 2], [1, 9, 4], [3, 0, 2], [2, 2, 1]⟩ ∧
    ([3, 0, 2] : List Int).sum = ([2, 2, 1] : List Int).sum ∧
    solve ⟨[7, 0, 2], [1, 9, 4], [3, 0, 2], [2, 2, 1]⟩ = .ok [(2, 0, 2), (0, 2, 1), (0, 1, 2)] :=
  ⟨(checkOk_iff _).mp (by decide), by decide, by decide⟩

/-- The universal optimality statement of C14 (proved under exact balance: `t1d_optimal_balanced`;
with slack only per instance: `t1d_optimal_partial`). -/
def t1d_optimal_full_statement : Prop :=
  ∀ (pb : Problem), InDomain pb → ∃ plan, solve pb = .ok plan ∧ validPlan pb plan = true ∧
    ∀ plan', validPlan pb plan' = true → planCost pb plan ≤ planCost pb plan'

/-- PARTIAL (per-instance certificate route, needed only when total demand exceeds total supply).
For every input of the domain `solve` returns a valid plan, and whenever that plan passes `certOk`
for some potentials it has minimum cost among all valid plans.  The driver computes potentials
(untrusted Bellman–Ford) and evaluates this very `certOk` on the model's plan on every `cert` op
(`cert ok`); the harness compares the real plan's cost with an independent exact optimum.
Missing for `t1d_optimal_full_statement`: that such potentials exist for every input *with slack*
(i.e. the correctness of the event sweep as an optimiser of the positions). -/
theorem t1d_optimal_partial (pb : Problem) (h : InDomain pb) :
    ∃ plan, solve pb = .ok plan ∧ validPlan pb plan = true ∧
      ∀ al be, certOk pb plan al be = true →
        ∀ plan', validPlan pb plan' = true → planCost pb plan ≤ planCost pb plan' := by
  obtain ⟨plan, e, hv⟩ := t1d_valid pb h
  exact ⟨plan, e, hv, fun al be hc plan' hv' => cert_optimal_core pb plan plan' al be hc hv'⟩

/-! ## rounding -/

/-- FULL (after F10's repair), for ALL inputs of the domain — zero supplies and zero demands
included: `assign` never errors — no out-of-range access anywhere (sorter, sweep, flush, rounding
walk, mapping back) and the `while` loop of `push` terminates within the fuel the model passes
(`Err.outOfFuel` impossible) —, returns exactly one entry per source, and — as soon as some sink
has positive demand — every entry names a sink of positive demand. -/
theorem t1d_assign_safe (pb : Problem) (h : InDomain pb) :
    ∃ a, assign pb = .ok a ∧ a.length = pb.u.length ∧
      ((∃ j, j < pb.v.length ∧ 0 < pb.d.getD j 0) → ∀ k ∈ a, k < pb.v.length ∧ 0 < pb.d.getD k 0) :=
  assign_total pb ((checkOk_iff pb).mpr h)

/-- non-vacuity, and the F10 witness on the repaired model -/
example : assign ⟨[0, 1], [0, 1], [0, 1], [0, 1]⟩ = .ok [1, 1] := by decide

/-- FULL.  Termination of the sweep: on every instance whose prefix sums are monotone with total
supply ≤ total demand (`Solver.Dom`; `sortedSolver_dom`: every instance the sorter builds from an
input of the domain), `push` — whose `while` loop runs on `loopFuel` — started from a state
satisfying the sweep invariants ends normally, with the loop condition false and the invariants
re-established for the next source. -/
theorem t1d_push_terminates (sv : Solver) (dom : sv.Dom) (i : Nat) (hi : i < sv.u.length) (st : St)
    (inv : Inv sv st) (ei : EvInv st)
    (hJ : sv.D.getD st.lastOcc 0 - sv.S.getD i 0 ≤ st.lastPosition) :
    ∃ st', push sv i st = .ok st' ∧ Inv sv st' ∧ EvInv st' ∧
      sv.D.getD st'.lastOcc 0 - sv.S.getD (i + 1) 0 ≤ st'.lastPosition ∧
      st'.lastPosition ≤ sv.D.getD (st'.lastOcc + 1) 0 - sv.S.getD (i + 1) 0 := by
  obtain ⟨st', e, k1, _, k3, k4, k5⟩ := push_total sv dom i hi st inv ei hJ
  exact ⟨st', e, k1, k3, k4, k5⟩

/-- non-vacuity: the hypotheses hold for the initial state of every instance of the domain -/
example (pb : Problem) (h : InDomain pb) (hm : 0 < (sortedSolver pb).v.length) :
    (sortedSolver pb).Dom ∧ Inv (sortedSolver pb) St.init ∧ EvInv St.init :=
  ⟨sortedSolver_dom pb ((checkOk_iff pb).mpr h), ⟨hm, hm, Int.le_refl _, by simp [St.init]⟩,
    ⟨by simp [St.init, SortedEv], by simp [St.init]⟩⟩

/-- FULL, strong form.  A source of positive supply that the plan returned by `solve` does not
split — all its plan entries name the same sink `j` — is assigned exactly `j` by `assign`. -/
theorem t1d_unsplit_kept (pb : Problem) (h : InDomain pb) (plan : Plan) (a : List Nat) (i j : Nat)
    (hs : solve pb = .ok plan) (ha : assign pb = .ok a) (hi : i < pb.u.length)
    (hpos : 0 < pb.s.getD i 0) (hsingle : ∀ e ∈ plan, e.1 = i → e.2.1 = j) :
    a.getD i 0 = j :=
  solve_assign_unsplit pb ((checkOk_iff pb).mpr h) plan a hs ha i j hi hpos hsingle

/-- FULL, in the words of the property: such a source is sent to the plan's sink, or to another
sink at the same position (the first alternative always holds, by `t1d_unsplit_kept`). -/
theorem t1d_unsplit_kept_position (pb : Problem) (h : InDomain pb) (plan : Plan) (a : List Nat)
    (i j : Nat) (hs : solve pb = .ok plan) (ha : assign pb = .ok a) (hi : i < pb.u.length)
    (hpos : 0 < pb.s.getD i 0) (hsingle : ∀ e ∈ plan, e.1 = i → e.2.1 = j) :
    a.getD i 0 = j ∨ pb.v.getD (a.getD i 0) 0 = pb.v.getD j 0 :=
  Or.inl (t1d_unsplit_kept pb h plan a i j hs ha hi hpos hsingle)

/-- non-vacuity: u=[5,0,3], v=[4,9,1], s=[2,0,1], d=[2,0,3]: sources 0 and 2 are unsplit
(plan entries (0,0,2) and (2,2,1)) and are assigned sinks 0 and 2; the zero-supply source 1
gets the default sink -/
example : solve ⟨[5, 0, 3], [4, 9, 1], [2, 0, 1], [2, 0, 3]⟩ = .ok [(2, 2, 1), (0, 0, 2)] ∧
    assign ⟨[5, 0, 3], [4, 9, 1], [2, 0, 1], [2, 0, 3]⟩ = .ok [0, 2, 2] := by decide

/-- FULL, at the level of the instance handed to the solver: a source `k` whose interval
`[S k + p k, S (k+1) + p k]` lies inside sink `j`'s interval `[D j, D (j+1)]` is assigned `j`
by `computeAssignment` (used by `t1d_unsplit_kept`). -/
theorem t1d_unsplit_contained (pb : Problem) (h : InDomain pb)
    (p : List Int) (a : List Nat) (hrun : run (sortedSolver pb) = .ok p)
    (ha : computeAssignment (sortedSolver pb) p = .ok a) (k j : Nat)
    (hk : k < (sortedSolver pb).u.length) (hj : j < (sortedSolver pb).v.length)
    (h1 : (sortedSolver pb).D.getD j 0 ≤ (sortedSolver pb).S.getD k 0 + p.getD k 0)
    (h2 : (sortedSolver pb).S.getD (k + 1) 0 + p.getD k 0 ≤ (sortedSolver pb).D.getD (j + 1) 0) :
    a.getD k 0 = j :=
  computeAssignment_unsplit pb ((checkOk_iff pb).mpr h) p a hrun ha k j hk hj h1 h2

/-- non-vacuity: u=[0,3], v=[1,2], s=[2,1], d=[2,2]: positions [0,0]... source 0 inside sink 0 -/
example : run (sortedSolver ⟨[0, 3], [1, 2], [2, 1], [2, 2]⟩) = .ok [0, 0] ∧
    computeAssignment (sortedSolver ⟨[0, 3], [1, 2], [2, 1], [2, 2]⟩) [0, 0] = .ok [0, 1] := by decide

/-- the single rounding step: the walk stops at the unique sink containing the position -/
theorem t1d_round_step (d : List Int) (hpos : ∀ x ∈ d, 0 < x) (pos : Int)
    (cs j cs' : Nat) (rest' : List Int)
    (e : walk pos ((prefixFrom 0 d).drop (cs + 1)) cs = .ok (cs', rest'))
    (hstart : (prefixFrom 0 d).getD cs 0 ≤ pos) (hj : j < d.length)
    (h1 : (prefixFrom 0 d).getD j 0 ≤ pos) (h2 : pos < (prefixFrom 0 d).getD (j + 1) 0) :
    cs' = j ∧ rest' = (prefixFrom 0 d).drop (j + 1) :=
  walk_unique d hpos pos cs j cs' rest' e hstart hj h1 h2

example : walk 4 ((prefixFrom 0 [2, 3, 1]).drop 1) 0 = .ok (1, [5, 6]) := by decide

/-! ## balanceDemand -/

/-- FULL.  `balanceDemand` succeeds whenever there is a sink (or nothing to do), changes only the
demands, never decreases one, leaves a problem with supply ≤ demand, and is the identity when
supply ≤ demand already. -/
theorem balanceDemand_covers (pb : Problem) (hs : pb.s.length = pb.u.length)
    (hd : pb.d.length = pb.v.length) (hm : 0 < pb.v.length ∨ pb.s.sum ≤ pb.d.sum) :
    ∃ pb', balanceDemand pb = .ok pb' ∧ pb'.u = pb.u ∧ pb'.v = pb.v ∧ pb'.s = pb.s ∧
      pb'.d.length = pb.d.length ∧ pb'.s.sum ≤ pb'.d.sum ∧
      (∀ j, pb.d.getD j 0 ≤ pb'.d.getD j 0) ∧ (pb.s.sum ≤ pb.d.sum → pb' = pb) :=
  balanceDemand_spec pb hs hd hm

example : balanceDemand ⟨[3, 1], [0, 5], [4, 1], [1, 1]⟩ = .ok ⟨[3, 1], [0, 5], [4, 1], [3, 2]⟩ := by
  decide

/-! ## the defect repaired by F10 -/

/-- Before the repair of F10 (`Model/LegacyTransp1d.lean`): with u=[0,1], s=[0,1] the write
`ret[srcOrder[0]]` is out of range — the heap overflow ASan reports on the unrepaired tree. -/
theorem assign_oob_with_zero_supply :
    assignLegacy ⟨[0, 1], [0, 1], [0, 1], [0, 1]⟩ = .error Err.indexOutOfRange := by decide

end ColoVerif.C14
