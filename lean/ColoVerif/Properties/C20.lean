import ColoVerif.Model.Ispd
import ColoVerif.Model.LegacyIspd
import ColoVerif.Model.BindingRules
import ColoVerif.Gen.Bindings
import ColoVerif.Proofs.Ispd
import ColoVerif.Model.IspdText
import ColoVerif.Model.LegacyIspdText
import ColoVerif.Proofs.IspdText
import ColoVerif.Proofs.IspdTextAux
/-
C20 — file export and Python layer are faithful to the circuit.

* `Ispd.write` is `Circuit::exportIspd` (src/export.cpp), `Ispd.read` is `Circuit.read_ispd`
  (pycoloquinte/coloquinte.py); both are tied to the code by the two halves of `harness/h_C20.cpp`.
* `Ispd.Text.writeText` is the exact *text* of the four data files (and `auxText` of the `.aux` file) that
  export.cpp emits, `Ispd.Text.readText` is coloquinte.py's line-by-line tokenisation and parsing, `Ispd.Text.readIspd`
  adds `_read_aux`/`_open_file` on a file system, `writePlacementText`/`loadPlacement` are `write_placement`/
  `load_placement`; tied by whole-file text comparison and by the reader run on exported, record-mutated and
  text-mutated files (harness/h_C20.cpp + harness/c20_reader.py).
* `Gen.Bindings` is regenerated from pycoloquinte/module.cpp and src/coloquinte.hpp on every run.
-/
namespace ColoVerif.C20
open ColoVerif ColoVerif.Ispd

/-- Exact form of the round trip: on the format's domain the reader succeeds and returns the
circuit itself, up to the three things the format does not carry (obstruction flags, row
polarities — recomputed from the heights —, net weights). -/
theorem roundtrip_exact (c : Circuit) (h : inDomain c = true) :
    ∃ rh, c.rowHeight = some rh ∧ rh ≠ 0 ∧ read (write c) = .ok (expected c rh) := by
  simp only [inDomain, Bool.and_eq_true] at h
  obtain ⟨⟨⟨hc, hr⟩, hn⟩, hh⟩ := h
  cases hrh : c.rowHeight with
  | none => simp [hrh] at hh
  | some rh =>
    simp only [hrh, bne_iff_ne, ne_eq] at hh
    exact ⟨rh, rfl, hh, read_write c rh hc hr hn hrh hh⟩

/-- **Round trip.**  For every circuit in the format's domain (`inDomain`: the eight proper
orientations for cells and rows, no empty net, pins on existing cells with
`|2·offset − size| < 2·10^5` — implied by sizes and offsets below 10^5 —, at least one row, uniform
non-zero row height), reading back what was exported succeeds and reproduces cell sizes, fixed
flags, positions, orientations, net connectivity, pin offsets, row rectangles and row orientations. -/
theorem roundtrip (c : Circuit) (h : inDomain c = true) :
    ∃ c', read (write c) = .ok c' ∧ Agree c c' := by
  obtain ⟨rh, _, _, hr⟩ := roundtrip_exact c h
  exact ⟨_, hr, agree_expected c rh⟩

/-- … hence the same wirelength (`Circuit.hpwl` is `Circuit::hpwl`). -/
theorem roundtrip_hpwl (c : Circuit) (h : inDomain c = true) :
    ∃ c', read (write c) = .ok c' ∧ c'.hpwl = c.hpwl := by
  obtain ⟨c', hr, ha⟩ := roundtrip c h
  exact ⟨c', hr, hpwl_agree ha⟩

/-- The wirelength depends only on the fields that `Agree` lists (so "hence" above is literal). -/
theorem agree_hpwl (c c' : Circuit) (a : Agree c c') : c'.hpwl = c.hpwl := hpwl_agree a

/-- The magnitude condition of `inDomain` covers the advertised case: a pin that lies inside its
(unrotated) cell, the cell being smaller than 10^5 in both directions.  (Sizes below 10^5 alone
are *not* enough for a pin far outside its cell: `offset − size/2` may then need seven digits.) -/
theorem pin_inside_small_cell_ok (c : Circuit) (p : Pin) (hc : p.cell < c.cells.length)
    (hw : (c.cell p.cell).w < 100000) (hh : (c.cell p.cell).h < 100000)
    (hx : 0 ≤ p.xo ∧ p.xo ≤ (c.cell p.cell).w) (hy : 0 ≤ p.yo ∧ p.yo ≤ (c.cell p.cell).h) :
    pinOk c p = true := by
  simp only [pinOk, Bool.and_eq_true, decide_eq_true_eq]
  refine ⟨⟨hc, ?_⟩, ?_⟩ <;> omega

/-- non-vacuity: circuits with turned / flipped cells, alternating rows and nets are in the domain -/
example : inDomain Legacy.witnessPins = true := by decide
example : inDomain Legacy.witnessRows = true := by decide
example : inDomain ⟨[⟨3, 5, -7, 2, .FE, true, false, .NW⟩, ⟨99999, 1, 0, 0, .W, false, true, .ANY⟩],
    [⟨1, 0, [⟨0, -2, 7⟩, ⟨1, 99999, 0⟩, ⟨1, 0, -3⟩]⟩], [⟨⟨-5, 20, 0, 3⟩, .FS⟩, ⟨⟨0, 9, 3, 6⟩, .S⟩]⟩ = true := by decide

/-- The magnitude bound of the domain is needed: with an offset of 100001 on a cell of width 1 the
value 100000.5 is printed with six digits as `100000`, and the reader's `round(0.5 + 100000)` gives
100000 (ties to even). -/
theorem precision_bound_needed :
    (read (write ⟨[⟨1, 1, 0, 0, .N, false, true, .ANY⟩], [⟨1, 0, [⟨0, 100001, 0⟩]⟩], [⟨⟨0, 10, 0, 1⟩, .N⟩]⟩)).toOption.map
      (fun c' => c'.nets.map (fun n => n.pins.map (·.xo))) = some [[100000]] := by
  decide +kernel

/-! ### Text level -/

open ColoVerif.Ispd.Text in
/-- Full statement: the text-level reader on the exported text is the record-level reader on the exported
records, for every circuit.  What is missing in `text_refines_records_partial`: pin offsets whose printed form
needs rounding to six digits or scientific notation (`fmtG6` beyond `|2·offset − size| < 2·10^5`), where
`float()` of the printed text is tied to `fmt6` only by the `big` correspondence stream. -/
def text_refines_records_full_statement : Prop :=
  ∀ c : Circuit, readText (writeText c) = read (write c)

open ColoVerif.Ispd.Text in
/-- **Text level refines record level.**  For every circuit whose pin offsets print with at most six
significant digits (no other hypothesis: any orientation, any rows, pins on missing cells, empty nets …),
coloquinte.py's tokenisation and number parsing, run on the exact text export.cpp writes, gives what
`Ispd.read` gives on the records `Ispd.write` — the same circuit or the same Python exception. -/
theorem text_refines_records_partial (c : Circuit) (h : printable c = true) :
    readText (writeText c) = read (write c) := readText_write c h

open ColoVerif.Ispd.Text in
/-- **Round trip at text level.**  On the format's domain, reading the exported *text* back succeeds and
reproduces cell sizes, fixed flags, positions, orientations, connectivity, pin offsets, row rectangles and
row orientations. -/
theorem roundtrip_text (c : Circuit) (h : inDomain c = true) :
    ∃ c', readText (writeText c) = .ok c' ∧ Agree c c' := by
  rw [readText_write c (printable_of_inDomain c h)]
  exact roundtrip c h

open ColoVerif.Ispd.Text in
/-- … and the same wirelength. -/
theorem roundtrip_text_hpwl (c : Circuit) (h : inDomain c = true) :
    ∃ c', readText (writeText c) = .ok c' ∧ c'.hpwl = c.hpwl := by
  obtain ⟨c', hr, ha⟩ := roundtrip_text c h
  exact ⟨c', hr, hpwl_agree ha⟩

open ColoVerif.Ispd.Text in
/-- **Round trip through the files.**  `read_ispd("<pre>.aux")` — and `read_ispd("<pre>")`, which appends
`.aux` — on the five files that `exportIspd("<pre>")` leaves behind selects the four data files through the
`.aux` file and reproduces the circuit, for every prefix — absolute, relative with a directory part, or bare —
whose base name has no white space and whose directory part does not end in a doubled `/`. -/
theorem roundtrip_files (pre : Line) (c : Circuit) (hp : goodPrefix pre = true) (h : inDomain c = true) :
    (∃ c', readIspd (exportFS pre c) .exists_ (pre ++ ".aux".toList) = .ok c' ∧ Agree c c') ∧
    (∃ c', readIspd (exportFS pre c) .missing pre = .ok c' ∧ Agree c c') := by
  rw [readIspd_exportFS pre c hp, readIspd_exportFS_missing pre c hp]
  exact ⟨roundtrip_text c h, roundtrip_text c h⟩

open ColoVerif.Ispd.Text in
/-- F18 (before the fix): `exportIspd("out/d")` wrote `out/d.nodes …` into `out/d.aux`, and the reader joins
these names to the directory of the `.aux` file once more (`out/out/d.nodes`):
`RuntimeError("Could not find file …")`.  With the fixed writer the same prefix reads back. -/
theorem relative_prefix_with_directory_lost :
    readIspd (Legacy.exportFS "out/d".toList Ispd.Legacy.witnessRows) .exists_ "out/d.aux".toList = .error .runtime ∧
    (readIspd (exportFS "out/d".toList Ispd.Legacy.witnessRows) .exists_ "out/d.aux".toList).toOption.isSome = true ∧
    inDomain Ispd.Legacy.witnessRows = true := by
  decide +kernel

open ColoVerif.Ispd.Text in
/-- **Number formatting.**  What `operator<<` prints for an `int` is read back by `int()`; what it prints at
the default precision for the half-integer `k/2` is read back exactly by `float()` as long as
`|k| < 2·10^5` (six significant digits). -/
theorem number_format_exact :
    (∀ i : Int, pyInt (showInt i) = .ok i) ∧
    (∀ k : Int, k.natAbs < 200000 → pyFloat (fmtG6 k) = .ok ((k : Rat) / 2)) := by
  refine ⟨pyInt_showInt, fun k hk => ?_⟩
  rw [pyFloat_fmtG6 k hk, fmt6, if_pos hk]

open ColoVerif.Ispd.Text in
/-- **`load_placement(write_placement(c))`.**  With pairwise distinct cell names that are single tokens not
starting with `#`, and proper orientations, loading the placement file written from `c` into any circuit `c0`
with the same number of cells succeeds and gives every cell the position and orientation it has in `c`;
sizes, flags, nets and rows of `c0` are untouched (`/FIXED` markers are written for fixed cells and ignored
on reading). -/
theorem load_write_placement (nm : List String) (c c0 : Circuit) (hnd : nm.Nodup)
    (hok : ∀ s ∈ nm, nameOk s.toList) (hlen : nm.length = c.cells.length) (hlen0 : c0.cells.length = c.cells.length)
    (hc : c.cells.all (fun cl => isProper cl.orient) = true) :
    ∃ c', loadPlacement nm (writePlacementText (nm.map String.toList) c) c0 = .ok c' ∧
      c'.cells.map (fun cl => (cl.x, cl.y, cl.orient)) = c.cells.map (fun cl => (cl.x, cl.y, cl.orient)) ∧
      c'.cells.map (fun cl => (cl.w, cl.h, cl.fixed, cl.obstruction, cl.pol)) =
        c0.cells.map (fun cl => (cl.w, cl.h, cl.fixed, cl.obstruction, cl.pol)) ∧
      c'.nets = c0.nets ∧ c'.rows = c0.rows := by
  refine ⟨_, loadPlacement_writePlacement nm c c0 hnd hok hlen hlen0 hc, ?_, ?_, rfl, rfl⟩
  · exact (setPlacement_maps c0.cells c.cells hlen0).1
  · exact (setPlacement_maps c0.cells c.cells hlen0).2

/-- non-vacuity: the text-level hypotheses hold for the names export.cpp gives (`o0`, `o1`), for an absolute
prefix, a bare one and relative ones with directory parts -/
example : Ispd.Text.printable Legacy.witnessPins = true ∧ Ispd.Text.goodPrefix "/tmp/x/d".toList = true ∧
    Ispd.Text.goodPrefix "d".toList = true ∧ Ispd.Text.goodPrefix "out/d".toList = true ∧
    Ispd.Text.goodPrefix "a/b c/d".toList = true ∧ Ispd.Text.goodPrefix "/d".toList = true ∧
    Ispd.Text.goodPrefix "out//d".toList = false ∧ Ispd.Text.goodPrefix "out/d e".toList = false := by decide
example : [cellName 0, cellName 1].Nodup ∧ ∀ s ∈ [cellName 0, cellName 1], Ispd.Text.nameOk s.toList := by
  refine ⟨by decide, ?_⟩
  intro s hs
  simp only [List.mem_cons, List.not_mem_nil, or_false] at hs
  rcases hs with rfl | rfl
  · exact ⟨Ispd.Text.free_of_all (by decide), 'o', ['0'], by decide, by decide⟩
  · exact ⟨Ispd.Text.free_of_all (by decide), 'o', ['1'], by decide, by decide⟩
example : Ispd.Text.loadPlacement [cellName 0, cellName 1]
      (Ispd.Text.writePlacementText [Ispd.Text.cellTok 0, Ispd.Text.cellTok 1] Legacy.witnessPins)
      { Legacy.witnessPins with cells := Legacy.witnessPins.cells.map fun cl => { cl with x := 9, orient := .FW } }
    = .ok Legacy.witnessPins := by decide +kernel

/-! ### Bindings -/

open ColoVerif.Gen ColoVerif.BindingRules in
/-- **Bindings.**  Every Python-visible enum value is bound to the enumerator of the same name of
its own enum; every attribute to the member of its own class whose camelCase is the snake_case
name; every property to getter `name` (or `computeName`) and setter `setName`; every method to the
method `name` (`__str__`/`__repr__` to `toString`); type names are identical (except
`NetModel` = `NetModelOption`). -/
theorem bindings_faithful :
    Bindings.enumValues.all enumValueOk = true ∧
    Bindings.enums.all typeNameOk = true ∧
    Bindings.classes.all typeNameOk = true ∧
    Bindings.attributes.all attributeOk = true ∧
    Bindings.roProperties.all roPropertyOk = true ∧
    Bindings.rwProperties.all rwPropertyOk = true ∧
    Bindings.methods.all methodOk = true ∧
    Bindings.lambdas.all lambdaOk = true := by
  decide

open ColoVerif.Gen ColoVerif.BindingRules in
/-- module.cpp cannot be compiled here (no pybind11), so the name lookup the compiler would do is
replayed on the typed AST of src/coloquinte.hpp: every bound C++ entity is a declared enumerator /
public data member / public method of the named scope. -/
theorem bindings_declared :
    Bindings.enumValues.all (fun (_, _, s, c) => declaredIn Bindings.declared "enumerator" s c) = true ∧
    Bindings.attributes.all (fun (_, _, c, m) => declaredIn Bindings.declared "field" c m) = true ∧
    Bindings.roProperties.all (fun (_, _, c, g) => declaredIn Bindings.declared "method" c g) = true ∧
    Bindings.rwProperties.all (fun (_, _, c, g, d, s) =>
      declaredIn Bindings.declared "method" c g && declaredIn Bindings.declared "method" d s) = true ∧
    Bindings.methods.all (fun (_, _, c, f) => declaredIn Bindings.declared "method" c f) = true ∧
    Bindings.lambdas.all (fun (_, _, c, f) => declaredIn Bindings.declared "method" c f) = true := by
  decide

/-! ### What was wrong before the `fix:` commits (witnesses on the legacy writer / table) -/

/-- F16: `Siteorient : 1` — the FS row of an N/FS pair comes back as N. -/
theorem rows_orientation_lost :
    (read (Legacy.writeF16 Legacy.witnessRows)).toOption.map (fun c' => c'.rows.map (·.orient)) = some [.N, .N] ∧
    Legacy.witnessRows.rows.map (·.orient) = [.N, .FS] := by
  decide +kernel

/-- F17: oriented offsets were exported; a pin at (1,0) of a 4x2 cell oriented S is read back at
(3,2) and the wirelength of the re-read circuit differs. -/
theorem rotated_pin_offset_wrong :
    (read (Legacy.writeF17 Legacy.witnessPins)).toOption.map
        (fun c' => (c'.nets.map (fun n => n.pins.map (fun p => (p.xo, p.yo))), c'.hpwl)) = some ([[(3, 2), (0, 0)]], 1) ∧
    Legacy.witnessPins.hpwl = 5 := by
  decide +kernel

open ColoVerif.BindingRules in
/-- F15: `.value("NW", CellRowPolarity::ANY)` and `.value("SE", CellRowPolarity::ANY)` break the rule. -/
theorem legacy_polarity_bindings_wrong :
    enumValueOk ("CellRowPolarity", "NW", "CellRowPolarity", "ANY") = false ∧
    enumValueOk ("CellRowPolarity", "SE", "CellRowPolarity", "ANY") = false := by
  decide

end ColoVerif.C20
