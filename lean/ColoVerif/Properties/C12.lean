import ColoVerif.Proofs.RowLegOpt
import ColoVerif.Model.LegacyRowLeg
/-
C12 — the single-row legalizer `RowLegalizer` is order-preserving, feasible,
optimal and reports exact costs.  Property theorems only; the vocabulary
(`Op`, `run`, `Fits`, `cells`, `pushCostSum`, `Legal`, `dispCost`) is in
`Model/RowLegSpec.lean`, helper lemmas in `Proofs/RowLeg*.lean`.
-/
namespace ColoVerif.C12
open ColoVerif.RowLeg

theorem new_empty (b e : Int) : placement (State.new b e) = [] := by
  simp [placement, placementRev, State.new, runMin, cumRev]

/-- **Feasibility.**  After any sequence of pushes that fit (positive width,
`width ≤ remainingSpace()`), with cost queries interleaved anywhere,
`getPlacement` lists the pushed cells in push order (`widths` are exactly the
pushed widths) and the placement is `Legal`: `b ≤ x₀`, `xᵢ + wᵢ ≤ xᵢ₊₁`,
`x_last + w_last ≤ e`. -/
theorem rowleg_feasible (b e : Int) (hbe : b ≤ e) (ops : List Op) (hf : Fits (State.new b e) ops) :
    widths (run (State.new b e) ops) = (cells ops).map Prod.fst ∧
    Legal e b (widths (run (State.new b e) ops)) (placement (run (State.new b e) ops)) := by
  have hr := run_reach b e ops [] 0 _ Reach.new hf
  refine ⟨?_, reach_legal hr hbe⟩
  have hi := reach_inv hr
  simp [widths, hi.widths]

/-- Feasibility, read cell by cell (no assumption on `b`, `e`): one position per
pushed cell, in push order; each cell lies inside `[b, e - width]` and ends
before the next one starts. -/
theorem rowleg_feasible_pointwise (b e : Int) (ops : List Op) (hf : Fits (State.new b e) ops) :
    (placement (run (State.new b e) ops)).length = (cells ops).length ∧
    ∀ (i : Nat) (x w t : Int), (placement (run (State.new b e) ops))[i]? = some x →
      (cells ops)[i]? = some (w, t) →
      b ≤ x ∧ x + w ≤ e ∧ ∀ x', (placement (run (State.new b e) ops))[i + 1]? = some x' → x + w ≤ x' := by
  have hr := run_reach b e ops [] 0 _ Reach.new hf
  have := reach_pointwise hr
  simp only [List.append_nil, List.reverse_reverse] at this
  exact this

/-- **Purity of cost queries.**  On every reachable state `getCost` leaves the
state unchanged (popping a prefix of the sorted queue and pushing it back is the
identity). -/
theorem getCost_pure (b e : Int) (ops : List Op) (hf : Fits (State.new b e) ops) (w t : Int) :
    (getCost (run (State.new b e) ops) w t).2 = run (State.new b e) ops :=
  getCost_state _ w t (reach_inv (run_reach b e ops [] 0 _ Reach.new hf)).sorted

/-- **Prediction = push.**  In every state the predicted cost is the cost `push` reports. -/
theorem getCost_eq_push (s : State) (w t : Int) : (getCost s w t).1 = (push s w t).1 := rfl

/-- Consequently cost queries can be dropped from any history. -/
theorem run_cost_irrelevant (b e : Int) (ops : List Op) (hf : Fits (State.new b e) ops) (w t : Int) :
    run (State.new b e) (ops ++ [Op.cost w t]) = run (State.new b e) ops := by
  rw [run_append]
  exact getCost_pure b e ops hf w t

/-- **Optimality (flagship).**  After any sequence of pushes that fit (cost queries
interleaved anywhere), the placement returned by `getPlacement` minimises the total
width-weighted displacement `Σ wᵢ·|xᵢ − tᵢ|` among ALL ordered non-overlapping placements
`ys` of the pushed cells inside the segment (`Legal e b widths ys`, integer positions). -/
theorem rowleg_optimal (b e : Int) (ops : List Op) (hf : Fits (State.new b e) ops)
    (ys : List Int) (hl : Legal e b ((cells ops).map Prod.fst) ys) :
    dispCost (cells ops) (placement (run (State.new b e) ops)) ≤ dispCost (cells ops) ys := by
  have hr := run_reach b e ops [] 0 _ Reach.new hf
  have := reach_optimal_fwd hr ys (by simpa using hl)
  simpa using this

/-- **Exact cost sum.**  The costs reported by the pushes sum exactly to the cost of the
returned placement — which by `rowleg_optimal` is the minimum. -/
theorem cost_sum_exact (b e : Int) (ops : List Op) (hf : Fits (State.new b e) ops) :
    pushCostSum (State.new b e) ops = dispCost (cells ops) (placement (run (State.new b e) ops)) := by
  have hr := run_reach b e ops [] 0 _ Reach.new hf
  have := reach_exact_fwd hr
  simp only [List.append_nil, List.reverse_reverse, Int.zero_add] at this
  exact this.symm

/-- Both together: the reported costs sum to the minimum over all legal placements. -/
theorem cost_sum_is_minimum (b e : Int) (ops : List Op) (hf : Fits (State.new b e) ops)
    (ys : List Int) (hl : Legal e b ((cells ops).map Prod.fst) ys) :
    pushCostSum (State.new b e) ops ≤ dispCost (cells ops) ys := by
  rw [cost_sum_exact b e ops hf]
  exact rowleg_optimal b e ops hf ys hl

/-- Each predicted cost is the exact increase of the optimum: after a cost query, the
predicted value plus the costs reported so far is the minimum cost of the row with the
queried cell appended (if it fits). -/
theorem getCost_is_marginal_optimum (b e : Int) (ops : List Op) (hf : Fits (State.new b e) ops)
    (w t : Int) (hw : 0 < w) (hfit : w ≤ (run (State.new b e) ops).remaining)
    (ys : List Int) (hl : Legal e b ((cells ops).map Prod.fst ++ [w]) ys) :
    pushCostSum (State.new b e) ops + (getCost (run (State.new b e) ops) w t).1
      ≤ dispCost (cells ops ++ [(w, t)]) ys := by
  have hf' : Fits (State.new b e) (ops ++ [Op.push w t]) := fits_append _ _ _ hf ⟨hw, hfit, trivial⟩
  have := cost_sum_is_minimum b e (ops ++ [Op.push w t]) hf' ys (by simpa [cells_append, cells] using hl)
  rw [pushCostSum_append] at this
  simpa [cells_append, cells, pushCostSum, getCost_eq_push] using this

/-- `clear` brings every reachable state back to the initial one, so all theorems above
also cover histories that contain `clear` (they apply to the part after the last `clear`). -/
theorem clear_resets (b e : Int) (ops : List Op) (hf : Fits (State.new b e) ops) :
    (run (State.new b e) ops).clear = State.new b e := by
  have hi := reach_inv (run_reach b e ops [] 0 _ Reach.new hf)
  have hb := hi.hb
  have he := hi.he
  generalize run (State.new b e) ops = s at hb he
  subst hb he
  rfl

/-- **The defect of the unrepaired code (F8).**  Row `[0,4]`, pushes `(2,2)`, `(1,-3)`,
`(1,-3)`: the pre-fix cost function reports costs summing to 16 although the
placement it returns costs 15; the repaired function reports 15. -/
theorem cost_sum_drifts :
    (Legacy.pushAll (State.new 0 4) [(2, 2), (1, -3), (1, -3)]).1 = 16 ∧
    placement (Legacy.pushAll (State.new 0 4) [(2, 2), (1, -3), (1, -3)]).2 = [0, 2, 3] ∧
    dispCost [(2, 2), (1, -3), (1, -3)] [0, 2, 3] = 15 ∧
    pushCostSum (State.new 0 4) [.push 2 2, .push 1 (-3), .push 1 (-3)] = 15 ∧
    placement (run (State.new 0 4) [.push 2 2, .push 1 (-3), .push 1 (-3)]) = [0, 2, 3] := by
  decide

/-! Non-vacuity: the hypotheses are satisfiable with cells actually pushed against both ends. -/
example : Fits (State.new 0 4) [.push 2 2, .cost 1 0, .push 1 (-3), .cost 3 7, .push 1 (-3)] := by decide
example : placement (run (State.new 0 4) [.push 2 2, .cost 1 0, .push 1 (-3), .cost 3 7, .push 1 (-3)])
    = [0, 2, 3] := by decide
example : Legal 4 0 [2, 1, 1] [0, 2, 3] := by decide
example : ¬ Legal 4 0 [2, 1, 1] [0, 1, 3] := by decide
/-- the hypotheses of `getCost_is_marginal_optimum` are satisfiable -/
example : (0:Int) < 1 ∧ 1 ≤ (run (State.new 0 4) [.push 2 2, .push 1 (-3)]).remaining ∧
    Legal 4 0 ((cells [.push 2 2, .push 1 (-3)]).map Prod.fst ++ [1]) [0, 2, 3] := by decide
/-- a competitor of `rowleg_optimal` that is legal and strictly worse than the optimum (15) -/
example : Legal 6 0 ((cells [.push 2 2, .push 1 (-3), .push 1 (-3)]).map Prod.fst) [0, 2, 5] ∧
    dispCost (cells [.push 2 2, .push 1 (-3), .push 1 (-3)]) [0, 2, 5] = 17 ∧
    pushCostSum (State.new 0 6) [.push 2 2, .push 1 (-3), .push 1 (-3)] = 15 := by decide

end ColoVerif.C12
