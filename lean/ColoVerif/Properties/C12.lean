import ColoVerif.Model.RowLeg
namespace ColoVerif.C12
open ColoVerif.RowLeg

theorem new_empty (b e : Int) : placement (State.new b e) = [] := by
  simp [placement, placementRev, State.new, runMin, cumRev]

end ColoVerif.C12
