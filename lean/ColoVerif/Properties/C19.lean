import ColoVerif.Gen.Api
import ColoVerif.Gen.Params
import ColoVerif.Gen.ApiExpansion
import ColoVerif.Proofs.BusyLemmas
import ColoVerif.Proofs.ApiExpansion
import ColoVerif.Model.LegacyBusy
/-
C19 — invalid inputs are refused with an error, not undefined behaviour.

About `Gen.Params` (check predicates, constructor event lists, default table) and `Gen.Api`
(setter skeletons, placer entry points), regenerated from the sources on every run; the driver
`drv_C19` evaluates the same definitions on the op lines of `harness/h_C19.cpp`.
-/
namespace ColoVerif.C19
open ColoVerif.ApiIR ColoVerif.Busy ColoVerif.Gen

/-! ### effort -/

/-- For every integer effort, every parameter constructor (the seven records; nested constructors
inlined) either throws before any array index / assertion that depends on the effort, or all of them
are in range: it ends `ok` or `threw`, never in an out-of-bounds read or an assertion failure. -/
theorem effort_checked_before_use :
    ∀ c ∈ Params.ctorIR, ∀ e : Int, runCtor e c.2 = .ok ∨ runCtor e c.2 = .threw := by
  intro c hc e
  have key : ∀ c ∈ Params.ctorIR, safeFrom none c.2 = true := by decide
  exact runCtor_safeFrom e c.2 none (key c hc) (by intro a b h; cases h)

/-- `ColoquinteParameters(effort)` refuses every effort outside 1..9 … -/
theorem effort_out_of_range_refused :
    ∀ c ∈ Params.ctorIR, c.1 = "ColoquinteParameters" → ∀ e : Int, (e < 1 ∨ e > 9) → runCtor e c.2 = .threw := by
  intro c hc hn e he
  have key : ∀ c ∈ Params.ctorIR, c.1 = "ColoquinteParameters" → checksFirst 1 9 c.2 = true := by decide
  exact runCtor_checksFirst e 1 9 he c.2 (key c hc hn)

/-- … and every record accepts every effort 1..9. -/
theorem effort_in_range_accepted :
    ∀ c ∈ Params.ctorIR, ∀ e ∈ [1, 2, 3, 4, 5, 6, 7, 8, 9], runCtor e c.2 = .ok := by decide

/-- all seven constructors were translated -/
theorem ctors_translated :
    Params.ctorIR.map (·.1) = ["PenaltyParameters", "ContinuousModelParameters", "RoughLegalizationParameters",
      "GlobalPlacerParameters", "LegalizationParameters", "DetailedPlacerParameters", "ColoquinteParameters"] := by decide

/-- The default parameters of every effort 1..9, as built by the compiled code (exact values read
back from the binary), pass `ColoquinteParameters::check()` (which runs all seven checks). -/
theorem defaults_pass_check :
    (Params.defaults.map (·.1) = [1, 2, 3, 4, 5, 6, 7, 8, 9]) ∧
    ∀ row ∈ Params.defaults, Params.ColoquinteParameters.check row.2 = true := by
  constructor
  · decide
  · decide +kernel

/-! ### every parameter field is policed by the check, or listed here

Round 6 found a field the check never looked at (`roughLegalization.sideMargin`, fix 07db192): a negative value put cells
outside the rows, a huge one overflowed an `int`.  The fields that `check()` does not constrain are now part of the
specification, and the translated check must refuse an absurd value of every other field. -/

/-- The parameter fields no `check()` constrains — written by hand: two enums and a flag (every value of the C++ type is
meaningful), the seed, `coarseningLimit` (only scales a distance threshold in `DensityLegalizer::runCoarsening`: any value,
negative included, leaves the grid fully coarsened and then fully refined) and `orderingHeight` (known finding KF-C11-2). -/
def unpolicedFields : List String :=
  ["global.continuousModel.netModel", "global.roughLegalization.costModel",
   "global.roughLegalization.unidimensionalTransport", "global.roughLegalization.coarseningLimit",
   "legalization.orderingHeight", "seed"]

/-- the effort-3 defaults with field `i` replaced by `v` are refused by `ColoquinteParameters::check()` -/
def refusedWith (i : Nat) (v : Rat) : Bool :=
  match Params.defaults.find? (fun e => e.1 == 3) with
  | some e => !(Params.ColoquinteParameters.ofList (e.2.toList.set i v)).check
  | none => false

/-- **Every field of `ColoquinteParameters` is policed or listed**: for each of the translated fields, either it is one
of the six `unpolicedFields`, or the translated `check()` refuses the effort-3 defaults with that single field set to
−10⁹ or to 10⁹.  A field added without a check, or a check that is removed (as `sideMargin`'s was missing), breaks this. -/
theorem every_parameter_field_policed_or_listed :
    ∀ i ∈ List.range Params.fieldNames.length,
      (Params.fieldNames.getD i "" ∈ unpolicedFields) ∨ refusedWith i (-1000000000) = true ∨ refusedWith i 1000000000 = true := by
  decide +kernel

/-- … and the list is tight: none of the six listed fields is refused at either extreme (so the list does not hide a
policed field), and the unmodified defaults are accepted (so a refusal is due to the one field). -/
theorem unpoliced_fields_are_unpoliced :
    (∀ i ∈ List.range Params.fieldNames.length, Params.fieldNames.getD i "" ∈ unpolicedFields →
      refusedWith i (-1000000000) = false ∧ refusedWith i 1000000000 = false) ∧
    refusedWith Params.fieldNames.length 0 = false ∧ unpolicedFields.all (· ∈ Params.fieldNames) = true := by
  decide +kernel

/-! ### rejected parameters: nothing happens before `params.check()` -/

/-- Members that are reset at the start of every placement call and have no getter; writing them is
not an observable modification.  Part of the specification, written by hand. -/
def bookkeeping : List String := ["write:hasCellSizeUpdate_", "write:hasNetUpdate_"]

/-- In each placer entry point, with parameters that `check()` rejects, the call throws and
everything executed before is at most a reset of the bookkeeping flags: no observable member is
written, no algorithm is started, no callback can have run (`DetailedPlacer::place` starts with a call
of `DetailedPlacer::legalize`, which is followed into). -/
theorem rejected_before_work :
    ∀ f ∈ Api.placerEntries,
      (runEntry Api.placerEntries false f.body).1 = true ∧
      ∀ w ∈ (runEntry Api.placerEntries false f.body).2, w ∈ bookkeeping := by decide

/-- The public placement calls do nothing but take the in-use guard (of either kind: clearing or
re-entrant — which one is C10's matter) and call the corresponding placer entry point. -/
theorem entries_translated :
    Api.placerEntries.map (·.name) = ["GlobalPlacer::place", "DetailedPlacer::legalize", "DetailedPlacer::place"] ∧
    (∀ f ∈ Api.placementCalls, guardedCall f.body = true) ∧
    Api.placementCalls.map (·.body.drop 1) =
      [[.call "GlobalPlacer::place"], [.call "DetailedPlacer::legalize"], [.call "DetailedPlacer::place"]] := by decide

/-! ### vector lengths -/

/-- setters whose (first) argument must have one element per cell — hand-written specification -/
def lengthChecked : List String :=
  ["setCellX", "setCellY", "setCellIsFixed", "setCellIsObstruction", "setCellOrientation", "setCellRowPolarity",
   "setCellWidth", "setCellHeight", "setSolution"]

def lenCond : Cond := .not (.eq (.size 0) .nbCells)
def weightsLenCond : Cond := .not (.eq (.size 0) .nbNets)

theorem length_setters_translated : ∀ n ∈ "setNetWeights" :: lengthChecked, (lookup Api.setters n).isSome = true := by decide

/-- A vector whose length differs from the number of cells is refused by each of these setters, with
the circuit unchanged, busy or not. -/
theorem setters_length_checked :
    ∀ f ∈ Api.setters, f.name ∈ lengthChecked → ∀ (env : Env) (st : St),
      (env.arg 0).len ≠ env.nbCells → exec noCall env f.body st = ⟨.thrown, st, []⟩ := by
  intro f hf hn env st hne
  have key : ∀ f ∈ Api.setters, f.name ∈ lengthChecked → lenCond ∈ preConds f.body := by decide
  exact exec_preConds noCall env f.body st ⟨lenCond, key f hf hn, by simp [lenCond, Cond.eval, Expr.eval, hne]⟩

theorem net_weights_length_checked :
    ∀ f ∈ Api.setters, f.name = "setNetWeights" → ∀ (env : Env) (st : St),
      (env.arg 0).len ≠ env.nbNets → exec noCall env f.body st = ⟨.thrown, st, []⟩ := by
  intro f hf hn env st hne
  have key : ∀ f ∈ Api.setters, f.name = "setNetWeights" → weightsLenCond ∈ preConds f.body := by decide
  exact exec_preConds noCall env f.body st ⟨weightsLenCond, key f hf hn, by simp [weightsLenCond, Cond.eval, Expr.eval, hne]⟩

/-! ### nets -/

/-- `addNet(cells, xOffsets, yOffsets)`: offsets of a different length than the cells, or a pin cell
outside the circuit, are refused with the circuit unchanged. -/
theorem nets_validated_addNet :
    ∀ f ∈ Api.setters, f.name = "addNet" → ∀ (env : Env) (st : St),
      ((env.arg 0).len ≠ (env.arg 1).len ∨ (env.arg 0).len ≠ (env.arg 2).len ∨
        ∃ c ∈ (env.arg 0).vals, c < 0 ∨ env.nbCells ≤ c) →
      exec noCall env f.body st = ⟨.thrown, st, []⟩ := by
  intro f hf hn env st hbad
  have key : ∀ f ∈ Api.setters, f.name = "addNet" →
      (Cond.or (.not (.eq (.size 0) (.size 1))) (.not (.eq (.size 0) (.size 2)))) ∈ preConds f.body ∧
      pinOutOfRange 0 ∈ preConds f.body := by decide
  obtain ⟨k1, k2⟩ := key f hf hn
  rcases hbad with h | h | h
  · exact exec_preConds noCall env f.body st ⟨_, k1, by (have h' := h; (try simp at h'); simp [Cond.eval, Expr.eval, h'])⟩
  · exact exec_preConds noCall env f.body st ⟨_, k1, by (have h' := h; (try simp at h'); simp [Cond.eval, Expr.eval, h'])⟩
  · exact exec_preConds noCall env f.body st ⟨_, k2, (pinOutOfRange_eval env 0).mpr h⟩

/-- `setNets(limits, cells, xOffsets, yOffsets, weights)`: empty limits, limits not starting at 0 or
not sorted, a last limit different from the number of cells / x offsets / y offsets, a non-empty
weight vector whose length is not the number of nets, or a pin cell outside the circuit are refused
with the circuit unchanged.  (With these excluded, `netLimits_` is a non-decreasing sequence from 0
to the common length of the three pin vectors, so every net is a valid slice of them.) -/
theorem nets_validated_setNets :
    ∀ f ∈ Api.setters, f.name = "setNets" → ∀ (env : Env) (st : St),
      ((env.arg 0).len = 0 ∨ (env.arg 0).vals.headD 0 ≠ 0 ∨ sortedInts (env.arg 0).vals = false ∨
        (env.arg 0).vals.getLastD 0 ≠ (env.arg 1).len ∨ (env.arg 0).vals.getLastD 0 ≠ (env.arg 2).len ∨
        (env.arg 0).vals.getLastD 0 ≠ (env.arg 3).len ∨
        ((env.arg 0).len ≠ (env.arg 4).len + 1 ∧ (env.arg 4).len ≠ 0) ∨
        ∃ c ∈ (env.arg 1).vals, c < 0 ∨ env.nbCells ≤ c) →
      exec noCall env f.body st = ⟨.thrown, st, []⟩ := by
  intro f hf hn env st hbad
  have key : ∀ f ∈ Api.setters, f.name = "setNets" →
      (Cond.or (.or (.empty 0) (.not (.eq (.front 0) (.lit 0)))) (.not (.sorted 0))) ∈ preConds f.body ∧
      (Cond.or (.or (.not (.eq (.back 0) (.size 1))) (.not (.eq (.back 0) (.size 2)))) (.not (.eq (.back 0) (.size 3))))
        ∈ preConds f.body ∧
      (Cond.and (.not (.eq (.size 0) (.add (.size 4) (.lit 1)))) (.not (.empty 4))) ∈ preConds f.body ∧
      pinOutOfRange 1 ∈ preConds f.body := by decide
  obtain ⟨k1, k2, k3, k4⟩ := key f hf hn
  rcases hbad with h | h | h | h | h | h | h | h
  · exact exec_preConds noCall env f.body st ⟨_, k1, by (have h' := h; (try simp at h'); simp [Cond.eval, Expr.eval, h'])⟩
  · exact exec_preConds noCall env f.body st ⟨_, k1, by (have h' := h; (try simp at h'); simp [Cond.eval, Expr.eval, h'])⟩
  · exact exec_preConds noCall env f.body st ⟨_, k1, by (have h' := h; (try simp at h'); simp [Cond.eval, Expr.eval, h'])⟩
  · exact exec_preConds noCall env f.body st ⟨_, k2, by (have h' := h; (try simp at h'); simp [Cond.eval, Expr.eval, h'])⟩
  · exact exec_preConds noCall env f.body st ⟨_, k2, by (have h' := h; (try simp at h'); simp [Cond.eval, Expr.eval, h'])⟩
  · exact exec_preConds noCall env f.body st ⟨_, k2, by (have h' := h; (try simp at h'); simp [Cond.eval, Expr.eval, h'])⟩
  · exact exec_preConds noCall env f.body st ⟨_, k3, by (have h1 := h.1; have h2 := h.2; (try simp at h1 h2); simp [Cond.eval, Expr.eval, h1, h2])⟩
  · exact exec_preConds noCall env f.body st ⟨_, k4, (pinOutOfRange_eval env 1).mpr h⟩

/-! Non-vacuity: concrete refused calls. -/
example : ∃ f ∈ Api.setters, f.name = "setNets" := by decide
example : ∃ f ∈ Api.setters, f.name ∈ lengthChecked := by decide
example : (⟨3, 0, [⟨2, [0, 5], 0⟩, ⟨2, [], 0⟩, ⟨2, [], 0⟩, ⟨0, [], 0⟩]⟩ : Env).arg 0 |>.vals |>.any (fun c => decide (c < 0 ∨ (3 : Int) ≤ c)) := by decide

/-! ### the rest of the public surface: expansion API, Disruption methods, constructor

`Gen.ApiExpansion` (regenerated from `src/coloquinte.cpp` on every run) holds, for each public non-const
method of `Circuit` that is not in `Gen.Api`, its validation prefix (the `throwIf`s reached before anything
else) and the members the remainder may write.  binary32 values are the integers `x · 2^149`. -/

/-- the binary32 value `m · 2^e` in the representation of the tables — hand-written -/
def f32 (m e : Int) : Int := m * 2 ^ (e + 149).toNat

/-- `0.999f` = 16760439 · 2⁻²⁴, the tolerance below the documented minimum 1 of an expansion factor -/
def factorBound : Int := f32 16760439 (-24)
/-- `1.0f` -/
def oneF : Int := f32 1 0

theorem expansion_translated :
    ApiExpansion.validated.map (·.name) =
      ["expandCellsToDensity", "expandCellsByFactor", "meanDisruption", "rmsDisruption", "maxDisruption"] ∧
    ApiExpansion.constValidated.map (·.name) = ["computeCellExpansion"] ∧
    ApiExpansion.constructors.map (·.name) = ["Circuit"] ∧
    ApiExpansion.floatScale = 149 ∧
    (∀ f ∈ ApiExpansion.validated ++ ApiExpansion.constValidated, checksThenStraight f.body = true) := by decide

/-- `expandCellsByFactor(expansionFactor, maxDensity, rowSideMargin)`: a factor vector whose length is not
the number of cells is refused before any member of the circuit is written. -/
theorem expansion_length_checked :
    ∀ f ∈ ApiExpansion.validated, f.name = "expandCellsByFactor" → ∀ (env : Env) (st : St),
      (env.arg 0).len ≠ env.nbCells → exec noCall env f.body st = ⟨.thrown, st, []⟩ := by
  intro f hf hn env st hne
  have key : ∀ f ∈ ApiExpansion.validated, f.name = "expandCellsByFactor" → lenCondAt 0 ∈ preConds f.body := by decide
  exact exec_preConds noCall env f.body st ⟨_, key f hf hn, lenCondAt_eval env 0 hne⟩

/-- … and so is a vector with a factor below `0.999f`. -/
theorem expansion_factor_checked :
    ∀ f ∈ ApiExpansion.validated, f.name = "expandCellsByFactor" → ∀ (env : Env) (st : St),
      (∃ x ∈ (env.arg 0).vals, x < factorBound) → exec noCall env f.body st = ⟨.thrown, st, []⟩ := by
  intro f hf hn env st hbad
  have key : ∀ f ∈ ApiExpansion.validated, f.name = "expandCellsByFactor" →
      Cond.anyElem 0 (.lt .elem (.lit factorBound)) ∈ preConds f.body := by decide
  exact exec_preConds noCall env f.body st ⟨_, key f hf hn, (anyBelow_eval env 0 factorBound).mpr hbad⟩

/-- These two are the only refusals of `expandCellsByFactor`: it throws iff the length is wrong or some
factor is below `0.999f` (factors in `[0.999f, 1)` are accepted although the documentation asks for at
least 1; `maxDensity` and `rowSideMargin` are not validated at all). -/
theorem expansion_refused_iff :
    ∀ f ∈ ApiExpansion.validated, f.name = "expandCellsByFactor" → ∀ (env : Env) (st : St),
      ((exec noCall env f.body st).out = .thrown ↔
        ((env.arg 0).len ≠ env.nbCells ∨ ∃ x ∈ (env.arg 0).vals, x < factorBound)) := by
  intro f hf hn env st
  have key : ∀ f ∈ ApiExpansion.validated, f.name = "expandCellsByFactor" →
      preConds f.body = [lenCondAt 0, Cond.anyElem 0 (.lt .elem (.lit factorBound))] ∧
      checksThenStraight f.body = true := by decide
  obtain ⟨k1, k2⟩ := key f hf hn
  rw [exec_thrown_iff noCall env f.body st k2, k1]
  constructor
  · rintro ⟨c, hm, hc⟩
    simp only [List.mem_cons, List.mem_nil_iff, or_false] at hm
    rcases hm with rfl | rfl
    · left
      intro heq
      simp [lenCondAt, Cond.eval, Expr.eval, heq] at hc
    · right; exact (anyBelow_eval env 0 factorBound).mp hc
  · rintro (h | h)
    · exact ⟨_, by simp, lenCondAt_eval env 0 h⟩
    · exact ⟨_, by simp, (anyBelow_eval env 0 factorBound).mpr h⟩

/-- `computeCellExpansion(congestionMap, fixedPenalty, penaltyFactor)` (const) refuses exactly
`fixedPenalty < 0` and `penaltyFactor < 1`, before anything else. -/
theorem cell_expansion_params_checked :
    ∀ f ∈ ApiExpansion.constValidated, f.name = "computeCellExpansion" → ∀ (env : Env) (st : St),
      (((env.arg 1).ival < 0 ∨ (env.arg 2).ival < oneF) → exec noCall env f.body st = ⟨.thrown, st, []⟩) ∧
      ((exec noCall env f.body st).out = .thrown ↔ ((env.arg 1).ival < 0 ∨ (env.arg 2).ival < oneF)) := by
  intro f hf hn env st
  have key : ∀ f ∈ ApiExpansion.constValidated, f.name = "computeCellExpansion" →
      preConds f.body = [Cond.or (.lt (.param 1) (.lit 0)) (.lt (.param 2) (.lit oneF))] ∧
      checksThenStraight f.body = true ∧ assigned f.body = [] := by decide
  obtain ⟨k1, k2, _⟩ := key f hf hn
  have ev : Cond.eval env 0 (Cond.or (.lt (.param 1) (.lit 0)) (.lt (.param 2) (.lit oneF))) = true ↔
      ((env.arg 1).ival < 0 ∨ (env.arg 2).ival < oneF) := by
    simp only [Cond.eval, Expr.eval, Bool.or_eq_true]
    constructor
    · rintro (h | h)
      · exact Or.inl (of_decide_eq_true h)
      · exact Or.inr (of_decide_eq_true h)
    · rintro (h | h)
      · exact Or.inl (decide_eq_true h)
      · exact Or.inr (decide_eq_true h)
  constructor
  · intro h
    exact exec_preConds noCall env f.body st ⟨_, by rw [k1]; simp, ev.mpr h⟩
  · rw [exec_thrown_iff noCall env f.body st k2, k1]
    constructor
    · rintro ⟨c, hm, hc⟩
      simp only [List.mem_cons, List.mem_nil_iff, or_false] at hm
      subst hm
      exact ev.mp hc
    · intro h
      exact ⟨_, by simp, ev.mpr h⟩

/-- `meanDisruption / rmsDisruption / maxDisruption (a, b, costModel)`: a solution whose length is not the
number of cells is refused first (the test is in the private `allDistances` they start with). -/
theorem disruption_lengths_checked :
    ∀ f ∈ ApiExpansion.validated, f.name ∈ ["meanDisruption", "rmsDisruption", "maxDisruption"] →
      ∀ (env : Env) (st : St), ((env.arg 0).len ≠ env.nbCells ∨ (env.arg 1).len ≠ env.nbCells) →
        exec noCall env f.body st = ⟨.thrown, st, []⟩ := by
  intro f hf hn env st hbad
  have key : ∀ f ∈ ApiExpansion.validated, f.name ∈ ["meanDisruption", "rmsDisruption", "maxDisruption"] →
      Cond.or (lenCondAt 0) (lenCondAt 1) ∈ preConds f.body ∧ assigned f.body = [] := by decide
  refine exec_preConds noCall env f.body st ⟨_, (key f hf hn).1, ?_⟩
  rcases hbad with h | h
  · simp [Cond.eval, lenCondAt_eval env 0 h]
  · simp [Cond.eval, lenCondAt_eval env 1 h]

/-- `expandCellsToDensity(targetDensity, rowSideMargin, maxExpandedWidth)` validates nothing: no argument
is ever refused (a target outside (0,1), a negative margin or a negative maximum width included); the only
member it may write is `cellWidth_`, and the same holds for `expandCellsByFactor`. -/
theorem density_expansion_unvalidated :
    (∀ f ∈ ApiExpansion.validated, f.name = "expandCellsToDensity" → preConds f.body = [] ∧
      ∀ (env : Env) (st : St), (exec noCall env f.body st).out = .normal) ∧
    (∀ f ∈ ApiExpansion.validated, ∀ m ∈ assigned f.body, m = "cellWidth_") := by
  constructor
  · intro f hf hn
    have key : ∀ f ∈ ApiExpansion.validated, f.name = "expandCellsToDensity" →
        preConds f.body = [] ∧ checksThenStraight f.body = true := by decide
    obtain ⟨k1, k2⟩ := key f hf hn
    refine ⟨k1, fun env st => exec_checksThenStraight noCall env f.body st k2 ?_⟩
    rw [k1]; intro c hc; cases hc
  · decide

/-- `Circuit(int nbCells)` with a negative count: the first statement is `cellWidth_.resize(nbCells)`,
where the count converted to `size_type` exceeds `max_size()` and `std::vector::resize` throws
`std::length_error` — before any member is written (the translator emits that library fact as the leading
`throwIf`; the harness observes the real exception class for negative counts down to `INT_MIN`). -/
theorem constructor_negative_count_refused :
    ApiExpansion.publicConstructors = [["int"]] ∧
    ∀ f ∈ ApiExpansion.constructors, ∀ (env : Env) (st : St), (env.arg 0).ival < 0 →
      exec noCall env f.body st = ⟨.thrown, st, []⟩ := by
  refine ⟨by decide, ?_⟩
  intro f hf env st hneg
  have key : ∀ f ∈ ApiExpansion.constructors, Cond.lt (.param 0) (.lit 0) ∈ preConds f.body := by decide
  exact exec_preConds noCall env f.body st ⟨_, key f hf, by simp [Cond.eval, Expr.eval, hneg]⟩

/-! ### the table is the whole surface -/

/-- (name, arity) of everything the tables cover -/
def coveredMutators : List (String × Nat) :=
  Api.setters.map (fun f => (f.name, f.params.length)) ++
  Api.placementCalls.map (fun f => (f.name, f.params.length)) ++
  ApiExpansion.effortWrappers.map (fun w => (w.1, 1)) ++
  ApiExpansion.validated.map (fun f => (f.name, f.params.length))

/-- The public non-const methods of `Circuit` found in the class definition are exactly the methods of the
tables (by name and arity): a new public mutator, or a new overload of an old one, breaks this theorem until
it is translated.  The `(int effort)` wrappers consist of calls of wrappers and placement calls only. -/
theorem every_public_mutator_covered :
    (∀ m ∈ ApiExpansion.publicMutators, m ∈ coveredMutators) ∧
    (∀ m ∈ coveredMutators, m ∈ ApiExpansion.publicMutators) ∧
    (∀ w ∈ ApiExpansion.effortWrappers, ∀ c ∈ w.2,
      c ∈ ApiExpansion.effortWrappers.map (fun w => (w.1, 1)) ∨
      c ∈ Api.placementCalls.map (fun f => (f.name, f.params.length))) := by decide

/-- vector parameters that must have one element per cell — hand-written specification -/
def perCellVectors : List (String × Nat) :=
  lengthChecked.map (fun n => (n, 0)) ++
  [("expandCellsByFactor", 0), ("meanDisruption", 0), ("meanDisruption", 1), ("rmsDisruption", 0),
   ("rmsDisruption", 1), ("maxDisruption", 0), ("maxDisruption", 1)]

/-- the other vector parameters of public methods — hand-written: rows (any number), pins of one net /
of all nets and net limits (`nets_validated_*`), one weight per net (`net_weights_length_checked`),
additional obstacles and congestion regions (any number) -/
def otherVectors : List (String × Nat) :=
  [("setRows", 0), ("addNet", 0), ("addNet", 1), ("addNet", 2), ("setNets", 0), ("setNets", 1), ("setNets", 2),
   ("setNets", 3), ("setNets", 4), ("setNetWeights", 0), ("computeRows", 0), ("computeCellExpansion", 0)]

/-- Every vector-typed parameter of a public method of `Circuit` is classified, and every per-cell one is
length-checked: a vector whose length differs from the number of cells is refused by the method with the
circuit unchanged — setters, expansion and Disruption methods alike. -/
theorem per_cell_vectors_refused :
    (∀ v ∈ ApiExpansion.vectorParams, (v.1, v.2.2) ∈ perCellVectors ∨ (v.1, v.2.2) ∈ otherVectors) ∧
    (∀ p ∈ perCellVectors, ∃ f ∈ Api.setters ++ ApiExpansion.validated, f.name = p.1) ∧
    ∀ p ∈ perCellVectors, ∀ f ∈ Api.setters ++ ApiExpansion.validated, f.name = p.1 → ∀ (env : Env) (st : St),
      (env.arg p.2).len ≠ env.nbCells → exec noCall env f.body st = ⟨.thrown, st, []⟩ := by
  refine ⟨by decide, by decide, ?_⟩
  intro p hp f hf hn env st hne
  have key : ∀ p ∈ perCellVectors, ∀ f ∈ Api.setters ++ ApiExpansion.validated, f.name = p.1 →
      ∃ c ∈ preConds f.body, hasDisjunct (lenCondAt p.2) c = true := by decide
  obtain ⟨c, hm, hd⟩ := key p hp f hf hn
  exact exec_preConds noCall env f.body st ⟨c, hm, hasDisjunct_eval env 0 _ c hd (lenCondAt_eval env p.2 hne)⟩

/-! Non-vacuity. -/
example : ∃ f ∈ ApiExpansion.validated, f.name = "expandCellsByFactor" := by decide
example : ∃ f ∈ ApiExpansion.constValidated, f.name = "computeCellExpansion" := by decide
example : ∃ f ∈ ApiExpansion.constructors, f.name = "Circuit" := by decide
-- 0.9989f < 0.999f ≤ 1.0f in the representation of the tables
example : f32 16758761 (-24) < factorBound ∧ factorBound < oneF := by decide
-- a refused call of each kind: 3 cells; two factors / three factors one of which is 0.5f / fixedPenalty = -2⁻¹⁴⁹
example : ((⟨3, 0, [⟨2, [oneF, oneF], 0⟩]⟩ : Env).arg 0).len ≠ (⟨3, 0, [⟨2, [oneF, oneF], 0⟩]⟩ : Env).nbCells := by decide
example : ∃ x ∈ ((⟨3, 0, [⟨3, [oneF, f32 1 (-1), oneF], 0⟩]⟩ : Env).arg 0).vals, x < factorBound := by decide
example : ((⟨3, 0, [⟨1, [], 0⟩, ⟨0, [], -1⟩, ⟨0, [], oneF⟩]⟩ : Env).arg 1).ival < 0 := by decide

end ColoVerif.C19
