import ColoVerif.Gen.Api
import ColoVerif.Gen.Params
import ColoVerif.Proofs.BusyLemmas
import ColoVerif.Model.LegacyBusy
/-
C19 — invalid inputs are refused with an error, not undefined behaviour.

About `Gen.Params` (check predicates, constructor event lists, default table) and `Gen.Api`
(setter skeletons, placer entry points), regenerated from the sources on every run; the driver
`drv_C19` evaluates the same definitions on the op lines of `harness/h_C19.cpp`.
-/
namespace ColoVerif.C19
open ColoVerif.ApiIR ColoVerif.Busy ColoVerif.Gen

/-! ### effort -/

/-- For every integer effort, every parameter constructor (the seven records; nested constructors
inlined) either throws before any array index / assertion that depends on the effort, or all of them
are in range: it ends `ok` or `threw`, never in an out-of-bounds read or an assertion failure. -/
theorem effort_checked_before_use :
    ∀ c ∈ Params.ctorIR, ∀ e : Int, runCtor e c.2 = .ok ∨ runCtor e c.2 = .threw := by
  intro c hc e
  have key : ∀ c ∈ Params.ctorIR, safeFrom none c.2 = true := by decide
  exact runCtor_safeFrom e c.2 none (key c hc) (by intro a b h; cases h)

/-- `ColoquinteParameters(effort)` refuses every effort outside 1..9 … -/
theorem effort_out_of_range_refused :
    ∀ c ∈ Params.ctorIR, c.1 = "ColoquinteParameters" → ∀ e : Int, (e < 1 ∨ e > 9) → runCtor e c.2 = .threw := by
  intro c hc hn e he
  have key : ∀ c ∈ Params.ctorIR, c.1 = "ColoquinteParameters" → checksFirst 1 9 c.2 = true := by decide
  exact runCtor_checksFirst e 1 9 he c.2 (key c hc hn)

/-- … and every record accepts every effort 1..9. -/
theorem effort_in_range_accepted :
    ∀ c ∈ Params.ctorIR, ∀ e ∈ [1, 2, 3, 4, 5, 6, 7, 8, 9], runCtor e c.2 = .ok := by decide

/-- all seven constructors were translated -/
theorem ctors_translated :
    Params.ctorIR.map (·.1) = ["PenaltyParameters", "ContinuousModelParameters", "RoughLegalizationParameters",
      "GlobalPlacerParameters", "LegalizationParameters", "DetailedPlacerParameters", "ColoquinteParameters"] := by decide

/-- The default parameters of every effort 1..9, as built by the compiled code (exact values read
back from the binary), pass `ColoquinteParameters::check()` (which runs all seven checks). -/
theorem defaults_pass_check :
    (Params.defaults.map (·.1) = [1, 2, 3, 4, 5, 6, 7, 8, 9]) ∧
    ∀ row ∈ Params.defaults, Params.ColoquinteParameters.check row.2 = true := by
  constructor
  · decide
  · decide +kernel

/-! ### rejected parameters: nothing happens before `params.check()` -/

/-- Members that are reset at the start of every placement call and have no getter; writing them is
not an observable modification.  Part of the specification, written by hand. -/
def bookkeeping : List String := ["write:hasCellSizeUpdate_", "write:hasNetUpdate_"]

/-- In each placer entry point, with parameters that `check()` rejects, the call throws and
everything executed before is at most a reset of the bookkeeping flags: no observable member is
written, no algorithm is started, no callback can have run (`DetailedPlacer::place` starts with a call
of `DetailedPlacer::legalize`, which is followed into). -/
theorem rejected_before_work :
    ∀ f ∈ Api.placerEntries,
      (runEntry Api.placerEntries false f.body).1 = true ∧
      ∀ w ∈ (runEntry Api.placerEntries false f.body).2, w ∈ bookkeeping := by decide

/-- The public placement calls do nothing but take the in-use guard (of either kind: clearing or
re-entrant — which one is C10's matter) and call the corresponding placer entry point. -/
theorem entries_translated :
    Api.placerEntries.map (·.name) = ["GlobalPlacer::place", "DetailedPlacer::legalize", "DetailedPlacer::place"] ∧
    (∀ f ∈ Api.placementCalls, guardedCall f.body = true) ∧
    Api.placementCalls.map (·.body.drop 1) =
      [[.call "GlobalPlacer::place"], [.call "DetailedPlacer::legalize"], [.call "DetailedPlacer::place"]] := by decide

/-! ### vector lengths -/

/-- setters whose (first) argument must have one element per cell — hand-written specification -/
def lengthChecked : List String :=
  ["setCellX", "setCellY", "setCellIsFixed", "setCellIsObstruction", "setCellOrientation", "setCellRowPolarity",
   "setCellWidth", "setCellHeight", "setSolution"]

def lenCond : Cond := .not (.eq (.size 0) .nbCells)
def weightsLenCond : Cond := .not (.eq (.size 0) .nbNets)

theorem length_setters_translated : ∀ n ∈ "setNetWeights" :: lengthChecked, (lookup Api.setters n).isSome = true := by decide

/-- A vector whose length differs from the number of cells is refused by each of these setters, with
the circuit unchanged, busy or not. -/
theorem setters_length_checked :
    ∀ f ∈ Api.setters, f.name ∈ lengthChecked → ∀ (env : Env) (st : St),
      (env.arg 0).len ≠ env.nbCells → exec noCall env f.body st = ⟨.thrown, st, []⟩ := by
  intro f hf hn env st hne
  have key : ∀ f ∈ Api.setters, f.name ∈ lengthChecked → lenCond ∈ preConds f.body := by decide
  exact exec_preConds noCall env f.body st ⟨lenCond, key f hf hn, by simp [lenCond, Cond.eval, Expr.eval, hne]⟩

theorem net_weights_length_checked :
    ∀ f ∈ Api.setters, f.name = "setNetWeights" → ∀ (env : Env) (st : St),
      (env.arg 0).len ≠ env.nbNets → exec noCall env f.body st = ⟨.thrown, st, []⟩ := by
  intro f hf hn env st hne
  have key : ∀ f ∈ Api.setters, f.name = "setNetWeights" → weightsLenCond ∈ preConds f.body := by decide
  exact exec_preConds noCall env f.body st ⟨weightsLenCond, key f hf hn, by simp [weightsLenCond, Cond.eval, Expr.eval, hne]⟩

/-! ### nets -/

/-- `addNet(cells, xOffsets, yOffsets)`: offsets of a different length than the cells, or a pin cell
outside the circuit, are refused with the circuit unchanged. -/
theorem nets_validated_addNet :
    ∀ f ∈ Api.setters, f.name = "addNet" → ∀ (env : Env) (st : St),
      ((env.arg 0).len ≠ (env.arg 1).len ∨ (env.arg 0).len ≠ (env.arg 2).len ∨
        ∃ c ∈ (env.arg 0).vals, c < 0 ∨ env.nbCells ≤ c) →
      exec noCall env f.body st = ⟨.thrown, st, []⟩ := by
  intro f hf hn env st hbad
  have key : ∀ f ∈ Api.setters, f.name = "addNet" →
      (Cond.or (.not (.eq (.size 0) (.size 1))) (.not (.eq (.size 0) (.size 2)))) ∈ preConds f.body ∧
      pinOutOfRange 0 ∈ preConds f.body := by decide
  obtain ⟨k1, k2⟩ := key f hf hn
  rcases hbad with h | h | h
  · exact exec_preConds noCall env f.body st ⟨_, k1, by (have h' := h; (try simp at h'); simp [Cond.eval, Expr.eval, h'])⟩
  · exact exec_preConds noCall env f.body st ⟨_, k1, by (have h' := h; (try simp at h'); simp [Cond.eval, Expr.eval, h'])⟩
  · exact exec_preConds noCall env f.body st ⟨_, k2, (pinOutOfRange_eval env 0).mpr h⟩

/-- `setNets(limits, cells, xOffsets, yOffsets, weights)`: empty limits, limits not starting at 0 or
not sorted, a last limit different from the number of cells / x offsets / y offsets, a non-empty
weight vector whose length is not the number of nets, or a pin cell outside the circuit are refused
with the circuit unchanged.  (With these excluded, `netLimits_` is a non-decreasing sequence from 0
to the common length of the three pin vectors, so every net is a valid slice of them.) -/
theorem nets_validated_setNets :
    ∀ f ∈ Api.setters, f.name = "setNets" → ∀ (env : Env) (st : St),
      ((env.arg 0).len = 0 ∨ (env.arg 0).vals.headD 0 ≠ 0 ∨ sortedInts (env.arg 0).vals = false ∨
        (env.arg 0).vals.getLastD 0 ≠ (env.arg 1).len ∨ (env.arg 0).vals.getLastD 0 ≠ (env.arg 2).len ∨
        (env.arg 0).vals.getLastD 0 ≠ (env.arg 3).len ∨
        ((env.arg 0).len ≠ (env.arg 4).len + 1 ∧ (env.arg 4).len ≠ 0) ∨
        ∃ c ∈ (env.arg 1).vals, c < 0 ∨ env.nbCells ≤ c) →
      exec noCall env f.body st = ⟨.thrown, st, []⟩ := by
  intro f hf hn env st hbad
  have key : ∀ f ∈ Api.setters, f.name = "setNets" →
      (Cond.or (.or (.empty 0) (.not (.eq (.front 0) (.lit 0)))) (.not (.sorted 0))) ∈ preConds f.body ∧
      (Cond.or (.or (.not (.eq (.back 0) (.size 1))) (.not (.eq (.back 0) (.size 2)))) (.not (.eq (.back 0) (.size 3))))
        ∈ preConds f.body ∧
      (Cond.and (.not (.eq (.size 0) (.add (.size 4) (.lit 1)))) (.not (.empty 4))) ∈ preConds f.body ∧
      pinOutOfRange 1 ∈ preConds f.body := by decide
  obtain ⟨k1, k2, k3, k4⟩ := key f hf hn
  rcases hbad with h | h | h | h | h | h | h | h
  · exact exec_preConds noCall env f.body st ⟨_, k1, by (have h' := h; (try simp at h'); simp [Cond.eval, Expr.eval, h'])⟩
  · exact exec_preConds noCall env f.body st ⟨_, k1, by (have h' := h; (try simp at h'); simp [Cond.eval, Expr.eval, h'])⟩
  · exact exec_preConds noCall env f.body st ⟨_, k1, by (have h' := h; (try simp at h'); simp [Cond.eval, Expr.eval, h'])⟩
  · exact exec_preConds noCall env f.body st ⟨_, k2, by (have h' := h; (try simp at h'); simp [Cond.eval, Expr.eval, h'])⟩
  · exact exec_preConds noCall env f.body st ⟨_, k2, by (have h' := h; (try simp at h'); simp [Cond.eval, Expr.eval, h'])⟩
  · exact exec_preConds noCall env f.body st ⟨_, k2, by (have h' := h; (try simp at h'); simp [Cond.eval, Expr.eval, h'])⟩
  · exact exec_preConds noCall env f.body st ⟨_, k3, by (have h1 := h.1; have h2 := h.2; (try simp at h1 h2); simp [Cond.eval, Expr.eval, h1, h2])⟩
  · exact exec_preConds noCall env f.body st ⟨_, k4, (pinOutOfRange_eval env 1).mpr h⟩

/-! Non-vacuity: concrete refused calls. -/
example : ∃ f ∈ Api.setters, f.name = "setNets" := by decide
example : ∃ f ∈ Api.setters, f.name ∈ lengthChecked := by decide
example : (⟨3, 0, [⟨2, [0, 5], 0⟩, ⟨2, [], 0⟩, ⟨2, [], 0⟩, ⟨0, [], 0⟩]⟩ : Env).arg 0 |>.vals |>.any (fun c => decide (c < 0 ∨ (3 : Int) ≤ c)) := by decide

end ColoVerif.C19
