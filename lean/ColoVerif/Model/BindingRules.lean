/-
Naming rules that the pybind11 table of pycoloquinte/module.cpp has to follow (C20).  They were
read off the bindings that are evidently right (`"cell_is_fixed"` ↦ `cellIsFixed` /
`setCellIsFixed`, `"max_nb_steps"` ↦ `maxNbSteps`, `"N"` ↦ `CellOrientation::N`, …); the
legitimate exceptions are listed explicitly.  Everything is structurally recursive over
`List Char`, so the kernel can `decide` it.  Core Lean only.
-/
namespace ColoVerif.BindingRules

def camelAux : Bool → List Char → List Char
  | _, [] => []
  | up, c :: cs => if c = '_' then camelAux true cs else (if up then c.toUpper else c) :: camelAux false cs

/-- `snake_case` ↦ `snakeCase` -/
def camel (s : String) : List Char := camelAux false s.toList
/-- `snake_case` ↦ `SnakeCase` -/
def pascal (s : String) : List Char := camelAux true s.toList

/-- `.value("P", S::C)` inside `py::enum_<E>`: the enumerator of the same name, of that enum -/
def enumValueOk : String × String × String × String → Bool
  | (e, p, s, c) => s == e && p == c

/-- Python type names: identical, except that the C++ enum `NetModelOption` is exported as `NetModel`
(`coloquinte.py` and the documentation use that name; the C++ class `NetModel` is not exported) -/
def typeNameOk : String × String → Bool
  | (py, cpp) => py == cpp || (py, cpp) == ("NetModel", "NetModelOption")

/-- `.def_readwrite("p", &C::m)` in class S: member of S whose camelCase is `p` -/
def attributeOk : String × String × String × String → Bool
  | (s, p, c, m) => c == s && m.toList == camel p

/-- `.def_property_readonly("p", &C::g)`: getter `p` or `computeP` -/
def roPropertyOk : String × String × String × String → Bool
  | (s, p, c, g) => c == s && (g.toList == camel p || g.toList == "compute".toList ++ pascal p)

/-- `.def_property("p", &C::g, &D::s)`: getter `p`, setter `setP` -/
def rwPropertyOk : String × String × String × String × String × String → Bool
  | (s, p, c, g, d, st) => c == s && d == s && g.toList == camel p && st.toList == "set".toList ++ pascal p

/-- `.def("name", &C::f)`: method `name`; `__str__` and `__repr__` are both `toString` -/
def methodOk : String × String × String × String → Bool
  | (s, p, c, f) => c == s && (f.toList == camel p || ((p == "__str__" || p == "__repr__") && f == "toString"))

/-- `.def("name", [](C &self, …){ self.f(…) })`: a wrapper around method `name` of the bound class -/
def lambdaOk : String × String × String × String → Bool
  | (s, p, c, f) => c == s && f.toList == camel p

/-- the C++ entity that a binding refers to is declared (public) in coloquinte.hpp -/
def declaredIn (decl : List (String × String × String)) (kind : String) (scope name : String) : Bool :=
  decl.contains (scope, name, kind)

end ColoVerif.BindingRules
