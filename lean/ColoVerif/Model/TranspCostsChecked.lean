import ColoVerif.Model.F64
import ColoVerif.Model.TranspCert
import ColoVerif.Model.TranspRunChecked
/-
The floating-point side of the general transportation of the rough legalizer, over exact rationals
(`Model/F64.lean`: IEEE-754 binary32 / binary64 round-to-nearest-even, `std::round`, `sqrtf`):

  DensityLegalizer::reoptimize (density_legalizer.cpp)
      float cost = distance(bx - cx, by - cy);                         float -, every bin × every cell
  DensityLegalizer::distance(x, y)
      float d = norm(x, y, params_.costModel);                         utils/norm.hpp, six models, all in float
      float val = d * (1.0f + (float)params_.quadraticPenaltyFactor * d);
  TransportationProblem::costsFromIntegers (transportation.cpp, the `float` constructor)
      maxVal = max(1.0e-8f, all costs)                                  float compare
      conversionFactor_ = (double)INT_MAX / maxVal;  /= 4.0;  /= costs.size();        double /
      costs_[i][j] = std::round(costs[i][j] * conversionFactor_);       double *, std::round, double -> int

Floating-point arithmetic itself never is undefined behaviour; the conversion `double -> int` of the last
line is (`-fsanitize=float-cast-overflow`) when the rounded value is outside the `int` range, or NaN.  The
rational model has no infinities or NaNs: a rounded `float` intermediate beyond `FLT_MAX` is reported as
`Fault.intOverflow` at the site where it arises, because in the C++ every such overflow makes the cost of
that (bin, cell) pair `inf` or `NaN` (`inf·0 = NaN` when the penalty factor is 0), and a non-finite cost
always dies in the conversion: an infinite `maxVal` makes the factor 0 and `inf·0 = NaN`; a NaN cost is
skipped by `std::max`, stays NaN when multiplied and `std::round(NaN)` converted to `int` is undefined.
(x86-64 baseline: `float` expressions are evaluated in `float`, `FLT_EVAL_METHOD = 0`, no FMA contraction.)
-/
namespace ColoVerif.Transp
open ColoVerif.Checked ColoVerif.F64

/-- `coloquinte::LegalizationModel` -/
inductive CostModel
  | L1 | L2 | LInf | L1Squared | L2Squared | LInfSquared
deriving Repr, DecidableEq, Inhabited

def CostModel.ofCode : Nat → CostModel
  | 0 => .L1 | 1 => .L2 | 2 => .LInf | 3 => .L1Squared | 4 => .L2Squared | _ => .LInfSquared

/-- `FLT_MAX = (2^24 − 1)·2^104` -/
def fltMax : Rat := 340282346638528859811704183484516925440

def rabs (q : Rat) : Rat := if q < 0 then -q else q
def rmax (a b : Rat) : Rat := if a < b then b else a

/-- a `float` result: the rounded value, or the fault standing for `±inf` -/
def fin32 (site : String) (q : Rat) : Except Fault Rat :=
  if rabs (f32' q) ≤ fltMax then .ok (f32' q) else .error (.intOverflow site)

/-- `computeNorm<float>(x, y, leg)` of utils/norm.hpp -/
def normC (m : CostModel) (x y : Rat) : Except Fault Rat :=
  match m with
  | .L1 => fin32 "norm L1: std::abs(x) + std::abs(y) is inf" (rabs x + rabs y)
  | .L2 =>
    andThen (fin32 "norm L2: x * x is inf" (x * x)) fun xx =>
    andThen (fin32 "norm L2: y * y is inf" (y * y)) fun yy =>
    andThen (fin32 "norm L2: x * x + y * y is inf" (xx + yy)) fun s => .ok (f32sqrt s)
  | .LInf => .ok (rmax (rabs x) (rabs y))
  | .L1Squared =>
    andThen (fin32 "norm L1Squared: std::abs(x) + std::abs(y) is inf" (rabs x + rabs y)) fun z =>
    fin32 "norm L1Squared: z * z is inf" (z * z)
  | .L2Squared =>
    andThen (fin32 "norm L2Squared: x * x is inf" (x * x)) fun xx =>
    andThen (fin32 "norm L2Squared: y * y is inf" (y * y)) fun yy =>
    fin32 "norm L2Squared: x * x + y * y is inf" (xx + yy)
  | .LInfSquared => fin32 "norm LInfSquared: z * z is inf" (rmax (rabs x) (rabs y) * rmax (rabs x) (rabs y))

/-- `DensityLegalizer::distance(x, y)`; `qf` is `(float)params_.quadraticPenaltyFactor` -/
def distanceC (m : CostModel) (qf : Rat) (x y : Rat) : Except Fault Rat :=
  andThen (normC m x y) fun d =>
  andThen (fin32 "distance: (float)quadraticPenaltyFactor * d is inf" (qf * d)) fun qd =>
  andThen (fin32 "distance: 1.0f + q * d is inf" (1 + qd)) fun f =>
  fin32 "distance: d * (1.0f + q * d) is inf" (d * f)

/-- one entry of the cost matrix of `reoptimize`: `distance(bx - cx, by - cy)` -/
def binCellCostC (m : CostModel) (qf : Rat) (bx bY cx cy : Rat) : Except Fault Rat :=
  andThen (fin32 "reoptimize: bx - cx is inf" (bx - cx)) fun dx =>
  andThen (fin32 "reoptimize: by - cy is inf" (bY - cy)) fun dy => distanceC m qf dx dy

def mapC {α β : Type} (f : α → Except Fault β) : List α → Except Fault (List β)
  | [] => .ok []
  | a :: as =>
    match f a with
    | .error e => .error e
    | .ok b =>
      match mapC f as with
      | .error e => .error e
      | .ok bs => .ok (b :: bs)

/-- the cost matrix `costs[bin][cell]` of `reoptimize` -/
def reoptCostsC (m : CostModel) (qf : Rat) (bins cells : List (Rat × Rat)) : Except Fault (List (List Rat)) :=
  mapC (fun b => mapC (fun c => binCellCostC m qf b.1 b.2 c.1 c.2) cells) bins

/-! ### `costsFromIntegers` -/

/-- `1.0e-8f` -/
def epsF : Rat := 11258999 / 1125899906842624

/-- `maxVal`: the largest cost, at least `1.0e-8f` -/
def maxValOf (fc : List (List Rat)) : Rat :=
  fc.foldl (fun m r => r.foldl (fun m d => rmax d m) m) epsF

/-- `conversionFactor_` for `n = costs.size()` rows -/
def convFactor (maxVal : Rat) (n : Nat) : Rat :=
  f64 (f64 (f64 (2147483647 / maxVal) / 4) / (n : Rat))

/-- `costs_[i][j] = std::round(costs[i][j] * conversionFactor_)`: the `double → int` conversion -/
def toFixedC (cf : Rat) (c : Rat) : Except Fault Int :=
  chk32 "costsFromIntegers: (int) std::round(costs[i][j] * conversionFactor_)" (roundAway (f64 (c * cf)))

/-- `TransportationProblem::costsFromIntegers(costs)` on finite `float` costs -/
def costsFromIntegersC (fc : List (List Rat)) : Except Fault Mat :=
  mapC (fun r => mapC (toFixedC (convFactor (maxValOf fc) fc.length)) r) fc

/-! ### the transportation of `DensityLegalizer::reoptimize` -/

/-- outcome of the sequence: the assignment, or the `std::runtime_error` of `check()` -/
inductive Outcome
  | assignment (a : List Nat)
  | throwRuntimeError
deriving Repr, DecidableEq

/-- `TransportationProblem solver(capacities, demands, costs /* float */); solver.increaseCapacity();
solver.solve(); assignment = solver.toAssignment();` -/
def reoptTransportC (asr : Bool) (caps dems : List Int) (fc : List (List Rat)) : Except Fault Outcome :=
  match costsFromIntegersC fc with
  | .error f => .error f
  | .ok costs =>
    if (Problem.make caps dems costs).check then
      match assignC asr (Problem.make caps dems costs) with
      | .error f => .error f
      | .ok a => .ok (.assignment a)
    else .ok .throwRuntimeError

/-- the same with the `int` cost constructor (public API, used by the beyond-domain stream) -/
def intTransportC (asr : Bool) (caps dems : List Int) (costs : Mat) : Except Fault Outcome :=
  if (Problem.make caps dems costs).check then
    match assignC asr (Problem.make caps dems costs) with
    | .error f => .error f
    | .ok a => .ok (.assignment a)
  else .ok .throwRuntimeError

/-- the C07 domain of `increaseCapacity(); solve(); toAssignment()` as a decidable predicate: `check()`
passes, there is a sink, `costBoundOk` (C13), no negative cost, totals at most `2^61` -/
def assignDomOk (p : Problem) : Bool :=
  p.check && decide (0 < p.nbSinks) && costBoundOk p &&
  allTo p.nbSinks (fun i => allTo p.nbSources (fun j => decide (0 ≤ p.cost i j))) &&
  decide (p.totalCapacity ≤ 2305843009213693952) && decide (p.totalDemand ≤ 2305843009213693952)

end ColoVerif.Transp
