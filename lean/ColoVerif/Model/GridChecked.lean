import ColoVerif.Model.Grid
import ColoVerif.Model.CoresChecked
/-
Checked twins of the integer bookkeeping of the hierarchical density grid
(src/place_global/density_grid.{hpp,cpp}), for C07.  Same conventions as the other `*Checked` files
(`Model/Checked.lean`): every `int` operation through an `…I32` primitive, every `long long` operation
through an `…I64` primitive, every `assert` through `assertC`, every `operator[]` through an index check,
in `Except Fault`.  The unbounded models are those of `Model/Grid.lean` (used by C16).  Core Lean only.

`DensityGrid(binSize, regions)` (`DGrid.ofRegionsC`), in program order:

    placementArea_ = computePlacementArea(regions);           // min / max only
    updateBinsToSize(binSize):
      binsX = std::max(1, placementArea_.width() / maxSize);  // int - int, int / int
      binsY = std::max(1, placementArea_.height() / maxSize);
      binLimitX_ = computeSubdivisions(minX, maxX, binsX);    // `Checked.subdivisionsC`
      binLimitY_ = computeSubdivisions(minY, maxY, binsY);
      updateBinCenters():   0.5f * (binLimitX_[i] + binLimitX_[i + 1])    // the SUM is int + int (`centerSumsC`)
      updateBinCapacity():  long long w = binLimitX_[i + 1] - binLimitX_[i];   // int - int, then widened
                            assert(w >= 0); assert(h >= 0); binCapacity_[i][j] = w * h;   (`sizeCapC`)
    updateBinCapacity(regions):
      binCapacity_[i][j] += Rectangle::intersection(reg, region(i, j)).area()      (`binCapOfC`)
        region(i, j) = Rectangle(binLimitX(i), binLimitX(i + 1), …)   // assert(x <= nbBinsX()); binLimitX_[x]
        area() = (long long)width() * (long long)height()             // two int subtractions, one 64-bit product
    check():  assert(binLimitX_[i] <= binLimitX_[i + 1]) …            // the size assertions hold by construction

What is NOT modelled here: the `float` halves of `updateBinCenters` (`0.5f * sum`) and of
`DensityGrid::fromIspdCircuit` (`sideMargin * minCellHeight`, `sizeFactor * minCellHeight`: float
products converted to `int`; `Model/Grid.lean` models their values, their float→int conversions are
sanitizer-monitored only), `groupCenterX/Y`, `spreadCoordX/Y`, `simpleCoordX/Y`.

Loops: the C++ iterates regions in the outer loop and bins in the inner one; the twin evaluates bin by
bin.  The fault/no-fault status and the values are those of the program-order evaluation; the fault
*named* need not be the first in program order (as for the other twins, see tools/props/C07.py).

For `refineX/refineY/coarsenX/coarsenY` the twin performs, in loop order, the assertion, the `int` level
arithmetic and every index computation of the loop and of `updateCellToBin()` (`xLimits_[lvl]`,
`parentX_[lvl][i]`, `binCells_[p][j]`, `newCells[p][j]`, `cellBinX_[c]`), and returns the unbounded
model's state when all of them are in range (the vectors the loop fills are those of the model by
construction).  The allocation assertions of `HierarchicalDensityPlacement::check()` are exactly C16's
`AllocInv` (proved there); of its two `long long` accumulations the usage one is `usageSumC` below (the
capacity one sums the same `binCapacity(BinGroup)` values the driver evaluates through `groupCapacityC`).
-/
namespace ColoVerif.Grid
open ColoVerif.Checked

/-! ### generic loops -/

/-- a loop that computes one value per element; the first fault stops it -/
def mapC {α β : Type} (f : α → Except Fault β) : List α → Except Fault (List β)
  | [] => .ok []
  | a :: as => andThen (f a) fun v => andThen (mapC f as) fun vs => .ok (v :: vs)

/-- a loop that only checks -/
def forAllC {α : Type} (f : α → Except Fault Unit) : List α → Except Fault Unit
  | [] => .ok ()
  | a :: as => andThen (f a) fun _ => forAllC f as

/-- `for (v : l) acc += v;` on a `long long` accumulator -/
def sumC (site : String) : List Int → Int → Except Fault Int
  | [], acc => .ok acc
  | v :: vs, acc => andThen (addI64 site acc v) fun a => sumC site vs a

/-- `t[i][j]` on a vector of vectors of integers -/
def index2C (site : String) (t : List (List Int)) (i j : Nat) : Except Fault Int :=
  if i < t.length ∧ j < (t.getD i []).length then .ok ((t.getD i []).getD j 0)
  else .error (.indexOutOfRange site)

/-- `lim[i + 1]` with an `int` index -/
def idx1C (site : String) (lim : List Int) (i : Nat) : Except Fault Int :=
  andThen (addI32 site (i : Int) 1) fun k => indexC site lim k

/-! ### `Rectangle` -/

/-- `Rectangle::area()` -/
def areaC (r : Rect) : Except Fault Int :=
  andThen (subI32 "Rectangle::width: maxX - minX" r.maxX r.minX) fun w =>
  andThen (subI32 "Rectangle::height: maxY - minY" r.maxY r.minY) fun h =>
  mulI64 "Rectangle::area: (long long)width() * (long long)height()" w h

/-- `if (reg.intersects(binReg)) … Rectangle::intersection(reg, binReg).area()` (comparisons, `std::max` /
`std::min`, then `area()`) -/
def interAreaC (reg bin : Rect) : Except Fault Int :=
  if reg.intersects bin then areaC (Rect.intersection reg bin) else .ok 0

/-! ### `DensityGrid` -/

/-- `binLimitX(x)`: `assert(x <= nbBinsX()); return binLimitX_[x];` (`nbBinsX()` is `binX_.size()`, one less
than the number of limits) -/
def binLimitC (asr : Bool) (lim : List Int) (x : Int) : Except Fault Int :=
  andThen (assertC asr "DensityGrid::binLimit: x <= nbBins()" (decide (x ≤ ((lim.length - 1 : Nat) : Int)))) fun _ =>
  indexC "DensityGrid::binLimit: binLimit_[x]" lim x

/-- `region(i, j)` -/
def regionOfC (asr : Bool) (limX limY : List Int) (i j : Nat) : Except Fault Rect :=
  andThen (binLimitC asr limX (i : Int)) fun x0 =>
  andThen (addI32 "DensityGrid::region: i + 1" (i : Int) 1) fun i1 =>
  andThen (binLimitC asr limX i1) fun x1 =>
  andThen (binLimitC asr limY (j : Int)) fun y0 =>
  andThen (addI32 "DensityGrid::region: j + 1" (j : Int) 1) fun j1 =>
  andThen (binLimitC asr limY j1) fun y1 => .ok ⟨x0, x1, y0, y1⟩

/-- `binCapacity_[i][j]` after `updateBinCapacity(regions)`: reset to 0, then one `+=` per region -/
def binCapOfC (asr : Bool) (limX limY : List Int) (regions : List Rect) (i j : Nat) : Except Fault Int :=
  andThen (regionOfC asr limX limY i j) fun bin =>
  andThen (mapC (fun reg => interAreaC reg bin) regions) fun areas =>
  sumC "updateBinCapacity: binCapacity_[i][j] += intersection.area()" areas 0

/-- `updateBinCapacity(regions)` -/
def capacitiesC (asr : Bool) (limX limY : List Int) (regions : List Rect) : Except Fault (List (List Int)) :=
  mapC (fun i => mapC (fun j => binCapOfC asr limX limY regions i j) (List.range (limY.length - 1)))
    (List.range (limX.length - 1))

/-- the integer half of `updateBinCenters()`: `binLimit_[i] + binLimit_[i + 1]`, unbounded -/
def centerSums (lim : List Int) : List Int :=
  (List.range (lim.length - 1)).map fun i => lim.getD i 0 + lim.getD (i + 1) 0

/-- `binLimit_[i] + binLimit_[i + 1]` in `int` -/
def centerSumsC (lim : List Int) : Except Fault (List Int) :=
  mapC (fun (i : Nat) =>
    andThen (indexC "updateBinCenters: binLimit_[i]" lim (i : Int)) fun a =>
    andThen (idx1C "updateBinCenters: binLimit_[i + 1]" lim i) fun b =>
    addI32 "updateBinCenters: binLimit_[i] + binLimit_[i + 1]" a b) (List.range (lim.length - 1))

/-- one bin of `updateBinCapacity()`: `w * h`, unbounded -/
def sizeCap (limX limY : List Int) (i j : Nat) : Int :=
  (limX.getD (i + 1) 0 - limX.getD i 0) * (limY.getD (j + 1) 0 - limY.getD j 0)

/-- one bin of `updateBinCapacity()` -/
def sizeCapC (asr : Bool) (limX limY : List Int) (i j : Nat) : Except Fault Int :=
  andThen (idx1C "updateBinCapacity: binLimitX_[i + 1]" limX i) fun x1 =>
  andThen (indexC "updateBinCapacity: binLimitX_[i]" limX (i : Int)) fun x0 =>
  andThen (subI32 "updateBinCapacity: binLimitX_[i + 1] - binLimitX_[i]" x1 x0) fun w =>
  andThen (idx1C "updateBinCapacity: binLimitY_[j + 1]" limY j) fun y1 =>
  andThen (indexC "updateBinCapacity: binLimitY_[j]" limY (j : Int)) fun y0 =>
  andThen (subI32 "updateBinCapacity: binLimitY_[j + 1] - binLimitY_[j]" y1 y0) fun h =>
  andThen (assertC asr "updateBinCapacity: w >= 0" (decide (w ≥ 0))) fun _ =>
  andThen (assertC asr "updateBinCapacity: h >= 0" (decide (h ≥ 0))) fun _ =>
  mulI64 "updateBinCapacity: w * h" w h

/-- `updateBinCapacity()` -/
def sizeCapsC (asr : Bool) (limX limY : List Int) : Except Fault (List (List Int)) :=
  mapC (fun i => mapC (fun j => sizeCapC asr limX limY i j) (List.range (limY.length - 1)))
    (List.range (limX.length - 1))

/-- `assert(binLimit_[i] <= binLimit_[i + 1])` for every `i` (`DensityGrid::check`) -/
def adjLe : List Int → Bool
  | a :: b :: rest => decide (a ≤ b) && adjLe (b :: rest)
  | _ => true

/-- `std::max(1, extent / maxSize)` with `extent = max - min` in `int` -/
def nbBinsForC (site : String) (mx mn maxSize : Int) : Except Fault Int :=
  andThen (subI32 ("Rectangle::" ++ site ++ ": max - min") mx mn) fun ext =>
  andThen (divI32 ("updateBinsToSize: placementArea_." ++ site ++ "() / maxSize") ext maxSize) fun q =>
  .ok (max 1 q)

/-- the constructor once `placementArea_` is known -/
def ofAreaC (asr : Bool) (binSize : Int) (a : Rect) (regions : List Rect) : Except Fault DGrid :=
  andThen (nbBinsForC "width" a.maxX a.minX binSize) fun bx =>
  andThen (nbBinsForC "height" a.maxY a.minY binSize) fun by' =>
  andThen (Checked.subdivisionsC asr a.minX a.maxX bx) fun lx =>
  andThen (Checked.subdivisionsC asr a.minY a.maxY by') fun ly =>
  andThen (centerSumsC lx) fun _ =>
  andThen (centerSumsC ly) fun _ =>
  andThen (sizeCapsC asr lx ly) fun _ =>
  andThen (capacitiesC asr lx ly regions) fun cap =>
  andThen (assertC asr "DensityGrid::check: binLimitX_[i] <= binLimitX_[i + 1]" (adjLe lx)) fun _ =>
  andThen (assertC asr "DensityGrid::check: binLimitY_[i] <= binLimitY_[i + 1]" (adjLe ly)) fun _ =>
  .ok ⟨lx, ly, cap⟩

/-- `DensityGrid(binSize, regions)` -/
def DGrid.ofRegionsC (asr : Bool) (binSize : Int) (regions : List Rect) : Except Fault DGrid :=
  ofAreaC asr binSize (computePlacementArea regions) regions

/-- `ret += binCapacity_[i][j]` for `j` in `js`, on the running total -/
def accBinsC (site : String) (cap : List (List Int)) (i : Nat) : List Nat → Int → Except Fault Int
  | [], acc => .ok acc
  | j :: js, acc =>
    andThen (index2C site cap i j) fun v => andThen (addI64 site acc v) fun a => accBinsC site cap i js a

/-- the double loop `for i in is, for j in js: ret += binCapacity_[i][j]` -/
def accGridC (site : String) (cap : List (List Int)) (js : List Nat) : List Nat → Int → Except Fault Int
  | [], acc => .ok acc
  | i :: is, acc => andThen (accBinsC site cap i js acc) fun a => accGridC site cap js is a

/-- `DensityGrid::totalCapacity()` -/
def DGrid.totalCapacityC (g : DGrid) : Except Fault Int :=
  accGridC "totalCapacity: ret += binCapacity_[i][j]" g.cap (List.range g.nbY) (List.range g.nbX) 0

/-- `DensityGrid::binCapacity(x, y)` -/
def DGrid.binCapacityC (g : DGrid) (i j : Nat) : Except Fault Int :=
  index2C "binCapacity: binCapacity_[x][y]" g.cap i j

/-- `DensityGrid::binCapacity(BinGroup)` -/
def DGrid.groupCapacityC (g : DGrid) (x0 x1 y0 y1 : Nat) : Except Fault Int :=
  accGridC "binCapacity(BinGroup): ret += binCapacity_[i][j]" g.cap (List.range' y0 (y1 - y0))
    (List.range' x0 (x1 - x0)) 0

/-! ### `HierarchicalDensityPlacement`: demands and usage -/

/-- `demands.push_back(circuit.area(i))`: the `long long` product narrowed to the `int` element type -/
def cellDemandOfC (cl : Cell) : Except Fault Int :=
  if cl.fixed then .ok 0 else
  andThen (mulI64 "Circuit::area: (long long)cellWidth_ * (long long)cellHeight_" cl.w cl.h) fun a =>
  narrowI32 "fromIspdCircuit: demands.push_back(circuit.area(i)) (long long -> int)" a

/-- the demand vector of `HierarchicalDensityPlacement::fromIspdCircuit` / `updateCellDemand(circuit)` -/
def circuitDemandsC (c : Circuit) : Except Fault (List Int) := mapC cellDemandOfC c.cells

/-- `cellDemand(c)`: `assert(c < nbCells()); return cellDemand_[c];` -/
def cellDemandC (asr : Bool) (demand : List Int) (c : Nat) : Except Fault Int :=
  andThen (assertC asr "cellDemand: c < nbCells()" (decide (c < demand.length))) fun _ =>
  indexC "cellDemand: cellDemand_[c]" demand (c : Int)

/-- `binCells(x, y)`: `binCells_[x][y]` -/
def binCellsC (bins : Bins) (x y : Nat) : Except Fault (List Nat) :=
  if x < bins.length ∧ y < (bins.getD x []).length then .ok (cellsAt bins x y)
  else .error (.indexOutOfRange "binCells: binCells_[x][y]")

namespace HState

/-- `totalDemand()` -/
def totalDemandC (s : HState) : Except Fault Int := sumC "totalDemand: ret += demand" s.demand 0

/-- `binUsage(x, y)` -/
def binUsageC (asr : Bool) (s : HState) (x y : Nat) : Except Fault Int :=
  andThen (binCellsC s.bins x y) fun cs =>
  andThen (mapC (fun c => cellDemandC asr s.demand c) cs) fun ds =>
  sumC "binUsage: usage += cellDemand(c)" ds 0

/-- `check()`: `usage += binUsage(i, j)` over the current view, then `assert(usage == totalDemand())` -/
def usageSumC (asr : Bool) (s : HState) : Except Fault Int :=
  andThen (mapC (fun i => mapC (fun j => binUsageC asr s i j) (List.range s.nbY)) (List.range s.nbX)) fun us =>
  andThen (sumC "check: usage += binUsage(i, j)" us.flatten 0) fun usage =>
  andThen (totalDemandC s) fun td =>
  andThen (assertC asr "check: usage == totalDemand()" (decide (usage = td))) fun _ => .ok usage

/-! ### levels -/

/-- `xLimits_[lvl]` / `parentX_[lvl]` with an `int` level -/
def levelC (site : String) (h : Hier) (lv : Int) : Except Fault Nat :=
  if 0 ≤ lv ∧ lv.toNat < h.limits.length ∧ lv.toNat < h.parents.length then .ok lv.toNat
  else .error (.indexOutOfRange site)

/-- `parentX_[lvl][i]` -/
def parC (site : String) (par : List Nat) (i : Nat) : Except Fault Nat :=
  if i < par.length then .ok (par.getD i 0) else .error (.indexOutOfRange site)

/-- `binCells_[x][y]` / `newCells[x][y]` in range -/
def binIdxC (site : String) (nx : Nat) (ny : Nat → Nat) (x y : Nat) : Except Fault Unit :=
  if x < nx ∧ y < ny x then .ok () else .error (.indexOutOfRange site)

/-- `updateCellToBin()`: `cellBinX_[c] = i; cellBinY_[c] = j;` for every cell of the table -/
def updateCellToBinC (s : HState) : Except Fault Unit :=
  forAllC (fun c => if c < s.nbCells then .ok () else .error (.indexOutOfRange "updateCellToBin: cellBinX_[c]")) s.flat

/-- `refineX()` -/
def refineXC (asr : Bool) (s : HState) : Except Fault HState :=
  andThen (assertC asr "refineX: levelX_ >= 1" (decide (s.levelX ≥ 1))) fun _ =>
  andThen (subI32 "refineX: levelX_--" (s.levelX : Int) 1) fun lv =>
  andThen (levelC "refineX: xLimits_[levelX_]" s.hx lv) fun lvl =>
  andThen (forAllC (fun i => forAllC (fun j =>
      andThen (parC "refineX: parentX_[levelX_][i]" (s.hx.par lvl) i) fun p =>
      binIdxC "refineX: binCells_[p][j]" s.bins.length (fun x => (s.bins.getD x []).length) p j)
    (List.range s.nbY)) (List.range (s.hx.nbBins lvl))) fun _ =>
  andThen (updateCellToBinC s.refineX) fun _ => .ok s.refineX

/-- `refineY()` -/
def refineYC (asr : Bool) (s : HState) : Except Fault HState :=
  andThen (assertC asr "refineY: levelY_ >= 1" (decide (s.levelY ≥ 1))) fun _ =>
  andThen (subI32 "refineY: levelY_--" (s.levelY : Int) 1) fun lv =>
  andThen (levelC "refineY: yLimits_[levelY_]" s.hy lv) fun lvl =>
  andThen (forAllC (fun i => forAllC (fun j =>
      andThen (parC "refineY: parentY_[levelY_][j]" (s.hy.par lvl) j) fun p =>
      binIdxC "refineY: binCells_[i][p]" s.bins.length (fun x => (s.bins.getD x []).length) i p)
    (List.range (s.hy.nbBins lvl))) (List.range s.nbX)) fun _ =>
  andThen (updateCellToBinC s.refineY) fun _ => .ok s.refineY

/-- `coarsenX()` -/
def coarsenXC (asr : Bool) (s : HState) : Except Fault HState :=
  andThen (addI32 "coarsenX: levelX_ + 1" (s.levelX : Int) 1) fun lv =>
  andThen (assertC asr "coarsenX: levelX_ + 1 < nbLevelX()" (decide (lv < (s.hx.nbLevels : Int)))) fun _ =>
  andThen (levelC "coarsenX: xLimits_[levelX_ + 1]" s.hx lv) fun up =>
  andThen (levelC "coarsenX: parentX_[levelX_]" s.hx (s.levelX : Int)) fun cur =>
  andThen (forAllC (fun i => forAllC (fun j =>
      andThen (parC "coarsenX: parentX_[levelX_][i]" (s.hx.par cur) i) fun p =>
      andThen (binIdxC "coarsenX: binCells_[i][j]" s.bins.length (fun x => (s.bins.getD x []).length) i j) fun _ =>
      binIdxC "coarsenX: newCells[p][j]" (s.hx.nbBins up) (fun _ => s.nbY) p j)
    (List.range s.nbY)) (List.range s.nbX)) fun _ =>
  andThen (updateCellToBinC s.coarsenX) fun _ => .ok s.coarsenX

/-- `coarsenY()` -/
def coarsenYC (asr : Bool) (s : HState) : Except Fault HState :=
  andThen (addI32 "coarsenY: levelY_ + 1" (s.levelY : Int) 1) fun lv =>
  andThen (assertC asr "coarsenY: levelY_ + 1 < nbLevelY()" (decide (lv < (s.hy.nbLevels : Int)))) fun _ =>
  andThen (levelC "coarsenY: yLimits_[levelY_ + 1]" s.hy lv) fun up =>
  andThen (levelC "coarsenY: parentY_[levelY_]" s.hy (s.levelY : Int)) fun cur =>
  andThen (forAllC (fun i => forAllC (fun j =>
      andThen (parC "coarsenY: parentY_[levelY_][j]" (s.hy.par cur) j) fun p =>
      andThen (binIdxC "coarsenY: binCells_[i][j]" s.bins.length (fun x => (s.bins.getD x []).length) i j) fun _ =>
      binIdxC "coarsenY: newCells[i][p]" s.nbX (fun _ => s.hy.nbBins up) i p)
    (List.range s.nbY)) (List.range s.nbX)) fun _ =>
  andThen (updateCellToBinC s.coarsenY) fun _ => .ok s.coarsenY

end HState

end ColoVerif.Grid
