import ColoVerif.Model.Spread
import ColoVerif.Model.F64
/-
C06 — `spreadCells` and `HierarchicalDensityPlacement::spreadCoordX/Y`
(src/place_global/density_grid.cpp) AS COMPILED: every `float` operation is the exact rational
operation followed by `fl = F64.f32'` (= `Legalize.f32`, IEEE-754 binary32 round-to-nearest-even with
gradual underflow and no overflow to infinity: the users stay finite).

Target: x86-64, SSE scalar single precision, `FLT_EVAL_METHOD = 0`, no FMA instruction available
(neither /repo's build files nor the harness pass `-march`/`-mfma`), hence no contraction: each C++
operator is one rounding, in source order:

  std::accumulate(demands.begin(), demands.end(), 0.0f)   left to right, `fl (acc + d)`
  1.0f / sum                                               `fl (1 / sum)`
  0.5f * curDemand * invTotalDemand                        `fl (fl (1/2 * d) * inv)`
  dem += h                                                 `fl (dem + h)`
  dem * maxCoord + (1.0f - dem) * minCoord                 `fl (fl (dem * hi) + fl (fl (1 - dem) * lo))`
  std::min(std::max(coord, minCoord), maxCoord)            comparisons only (exact) — the clamp added by
                                                           fixes/c06-spread-clamp.diff; the function before
                                                           that fix is `Model/LegacySpreadF.lean`
  (float) int   (cellDemand, binLimit, placementArea)      `fl (n : Rat)`
  std::min(std::max(t, areaMin), areaMax)                  comparisons only (exact)

`std::sort` on `pair<float,int>` is the `sortedOrder` of `Model/Spread.lean` (keys pairwise distinct).
Signed zeros are not distinguished (the value `-0.0f` is the rational `0`); NaN/inf inputs are outside
the model.  Core Lean only; facts are in `Proofs/SpreadF*.lean`.
-/
namespace ColoVerif.SpreadF
open ColoVerif.Spread (Bin View sortedOrder scatter firstLim lastLim)

/-- one binary32 rounding -/
def fl (q : Rat) : Rat := ColoVerif.F64.f32' q

/-- `std::accumulate(demands.begin(), demands.end(), 0.0f)` -/
def addF (a d : Rat) : Rat := fl (a + d)
def sumF (l : List Rat) : Rat := l.foldl addF 0

/-- `0.5f * curDemand * invTotalDemand` (left to right) -/
def halfShareF (demands : List Rat) (inv : Rat) (c : Nat) : Rat :=
  fl (fl ((1 / 2) * demands.getD c 0) * inv)

/-- `float coord = dem * maxCoord + (1.0f - dem) * minCoord` -/
def coordRawF (dem lo hi : Rat) : Rat := fl (fl (dem * hi) + fl (fl (1 - dem) * lo))

/-- `std::min(std::max(coord, minCoord), maxCoord)`: `max(a,b) = a < b ? b : a`, `min(a,b) = b < a ? b : a` -/
def clampBin (lo hi v : Rat) : Rat :=
  if hi < (if v < lo then lo else v) then hi else (if v < lo then lo else v)

/-- the value written to `coords[c]` -/
def coordAtF (dem lo hi : Rat) : Rat := clampBin lo hi (coordRawF dem lo hi)

/-- One iteration of the loop over `order`; the state is `(dem, coords)`. -/
def spreadStepF (demands : List Rat) (inv lo hi : Rat) (st : Rat × List Rat) (e : Rat × Nat) :
    Rat × List Rat :=
  if demands.getD e.2 0 ≤ 0 then st
  else
    (fl (fl (st.1 + halfShareF demands inv e.2) + halfShareF demands inv e.2),
     st.2.set e.2 (coordAtF (fl (st.1 + halfShareF demands inv e.2)) lo hi))

def spreadLoopF (demands : List Rat) (inv lo hi : Rat) (order : List (Rat × Nat))
    (st : Rat × List Rat) : Rat × List Rat :=
  order.foldl (spreadStepF demands inv lo hi) st

/-- `invTotalDemand` (`1/0 = 0` where the C++ gets `inf`; it is only used for a cell of positive
demand, and then the sum is positive) -/
def invF (demands : List Rat) : Rat := fl (1 / sumF demands)

/-- `spreadCells(targets, demands, minCoord, maxCoord)` on binary32 arguments -/
def spreadCellsF (targets demands : List Rat) (lo hi : Rat) : List Rat :=
  (spreadLoopF demands (invF demands) lo hi (sortedOrder targets)
    (0, List.replicate targets.length 0)).2

/-- the per-bin coordinates computed inside the `(i, j)` iteration of `spreadCoordX/Y`:
`binDemands.push_back(cellDemand(c))` and the two `binLimit` arguments convert `int` to `float` -/
def binCoordsF (target : List Rat) (demand : List Int) (b : Bin) : List Rat :=
  spreadCellsF (b.cells.map fun c => target.getD c 0) (b.cells.map fun c => fl (demand.getD c 0 : Rat))
    (fl (b.lo : Rat)) (fl (b.hi : Rat))

def binStepF (target : List Rat) (demand : List Int) (ret : List Rat) (b : Bin) : List Rat :=
  scatter ret b.cells (binCoordsF target demand b)

/-- `std::min(std::max(t, areaMin), areaMax)` with `float areaMin = placementArea().minX` -/
def clampF (areaMin areaMax : Int) (t : Rat) : Rat :=
  if fl (areaMax : Rat) < (if t < fl (areaMin : Rat) then fl (areaMin : Rat) else t) then fl (areaMax : Rat)
  else (if t < fl (areaMin : Rat) then fl (areaMin : Rat) else t)

def initCoordsF (nbCells : Nat) (areaMin areaMax : Int) (target : List Rat) : List Rat :=
  (List.range nbCells).map fun c => clampF areaMin areaMax (target.getD c 0)

/-- `spreadCoordX/Y(target)` given the bins in loop order and the extent of `placementArea()` -/
def spreadCoordF (nbCells : Nat) (areaMin areaMax : Int) (bins : List Bin) (target : List Rat)
    (demand : List Int) : List Rat :=
  bins.foldl (binStepF target demand) (initCoordsF nbCells areaMin areaMax target)

def spreadCoordXF (v : View) (nbCells : Nat) (target : List Rat) (demand : List Int) : List Rat :=
  spreadCoordF nbCells (firstLim v.limX) (lastLim v.limX) v.binsX target demand
def spreadCoordYF (v : View) (nbCells : Nat) (target : List Rat) (demand : List Int) : List Rat :=
  spreadCoordF nbCells (firstLim v.limY) (lastLim v.limY) v.binsY target demand

end ColoVerif.SpreadF
