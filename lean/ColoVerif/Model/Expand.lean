import ColoVerif.Model.Freespace
/-
Cell expansion (src/coloquinte.cpp): `Circuit::computeRowPlacementArea`,
`Circuit::expandCellsToDensity`, `Circuit::expandCellsByFactor`, `Circuit::computeCellExpansion`.

Numbers: C++ `int`/`long long` are `Int`; `double`/`float` values are exact rationals (`Rat`) and every
floating-point operation is modelled by the exact rational operation — so the model equals the code on
inputs where no floating-point operation rounds (that is what the exact part of the C18 correspondence
stream checks), and differs by floating-point rounding elsewhere.  Conversions `(int)x`, `(long long)x`
and the compound assignments `w -= <double>` / `cellWidth_[i] *= <float>` truncate toward zero
(`truncRat`).

`expandCellsByFactor` is the function *after* the repair `fixes/expand-by-factor-area.diff`
(the expanded area is accumulated as a `double`); the function of the unrepaired tree, which
accumulates it in a truncating `long long`, is `ColoVerif.LegacyExpand.expandCellsByFactor`.
-/
namespace ColoVerif
namespace Expand

/-- `(int) q`, `(long long) q` for a finite floating-point value: truncation toward zero -/
def truncRat (q : Rat) : Int := Int.tdiv q.num q.den

/-- `Circuit::area(i)` -/
def cellArea (cl : Cell) : Int := cl.w * cl.h

/-- the loop body of `computeRowPlacementArea` for one free row segment -/
def segArea (margin : Rat) (r : Row) : Int :=
  if 0 < truncRat ((r.rect.width : Rat) - 2 * margin * (r.rect.height : Rat))
  then truncRat ((r.rect.width : Rat) - 2 * margin * (r.rect.height : Rat)) * r.rect.height
  else 0

/-- `Circuit::computeRowPlacementArea(rowSideMargin)` -/
def rowPlacementArea (c : Circuit) (margin : Rat) : Int :=
  ((c.computeRows []).map (segArea margin)).sum

/-- total area of the movable cells -/
def movableArea (cells : List Cell) : Int :=
  ((cells.filter fun cl => !cl.fixed).map cellArea).sum

/-- `maxRowWidth` of `expandCellsToDensity`: over the raw rows, starting from 0 -/
def maxRowWidth (rows : List Row) : Int := rows.foldl (fun m r => max m r.rect.width) 0

/-- number of iterations of `while (missingArea >= h) { ++newW; missingArea -= h; }` for `h > 0` -/
def carryCount (h : Int) (missing : Rat) : Int :=
  if missing < (h : Rat) then 0 else (missing / (h : Rat)).floor

/-- is this cell touched by the expansion loop of `expandCellsToDensity`? -/
def active (cl : Cell) : Bool := !cl.fixed && decide (0 < cl.h) && decide (0 < cl.w)

/-- `fracW` after the cap -/
def fracW (factor cap : Rat) (cl : Cell) : Rat :=
  if (cl.w : Rat) * factor > cap then cap else (cl.w : Rat) * factor

/-- `missingArea` right after `missingArea += h * (fracW - newW)` -/
def missingAdd (factor cap missing : Rat) (cl : Cell) : Rat :=
  missing + (cl.h : Rat) * (fracW factor cap cl - (truncRat (fracW factor cap cl) : Rat))

/-- new width of an active cell -/
def newWidth (factor cap missing : Rat) (cl : Cell) : Int :=
  truncRat (fracW factor cap cl) + carryCount cl.h (missingAdd factor cap missing cl)

/-- carried `missingArea` after an active cell -/
def newMissing (factor cap missing : Rat) (cl : Cell) : Rat :=
  missingAdd factor cap missing cl -
    (carryCount cl.h (missingAdd factor cap missing cl) : Rat) * (cl.h : Rat)

/-- one iteration of the expansion loop: (carried missing area, cell) ↦ the same afterwards -/
def stepMissing (factor cap missing : Rat) (cl : Cell) : Rat :=
  if active cl then newMissing factor cap missing cl else missing

def stepCell (factor cap missing : Rat) (cl : Cell) : Cell :=
  if active cl then { cl with w := newWidth factor cap missing cl } else cl

/-- the expansion loop of `expandCellsToDensity` -/
def expandCells (factor cap : Rat) : Rat → List Cell → List Cell
  | _, [] => []
  | m, cl :: rest => stepCell factor cap m cl :: expandCells factor cap (stepMissing factor cap m cl) rest

/-- carried missing area after the whole loop -/
def finalMissing (factor cap : Rat) : Rat → List Cell → Rat
  | m, [] => m
  | m, cl :: rest => finalMissing factor cap (stepMissing factor cap m cl) rest

/-- does `expandCellsToDensity` return early? -/
def densityNoop (c : Circuit) (target margin : Rat) : Prop :=
  movableArea c.cells = 0 ∨ rowPlacementArea c margin = 0 ∨
  (movableArea c.cells : Rat) / (rowPlacementArea c margin : Rat) ≥ target

instance (c : Circuit) (target margin : Rat) : Decidable (densityNoop c target margin) := by
  unfold densityNoop; exact inferInstance

/-- `expansionFactor = targetDensity / density` -/
def densityFactor (c : Circuit) (target margin : Rat) : Rat :=
  target / ((movableArea c.cells : Rat) / (rowPlacementArea c margin : Rat))

/-- `maxCellWidth = maxRowWidth * maxExpandedWidth` -/
def widthCap (c : Circuit) (maxExpandedWidth : Rat) : Rat := (maxRowWidth c.rows : Rat) * maxExpandedWidth

/-- `Circuit::expandCellsToDensity(targetDensity, rowSideMargin, maxExpandedWidth)` -/
def expandCellsToDensity (c : Circuit) (target margin maxExpandedWidth : Rat) : Circuit :=
  if densityNoop c target margin then c
  else { c with cells := expandCells (densityFactor c target margin) (widthCap c maxExpandedWidth) 0 c.cells }

/-! ### `expandCellsByFactor` -/

/-- `0.999f` -/
def minFactor : Rat := 16760439 / 16777216

/-- exact `Σ expansionFactor[i] * area(i)` over the movable cells -/
def expandedArea : List Cell → List Rat → Rat
  | cl :: cells, e :: es => (if cl.fixed then 0 else e * (cellArea cl : Rat)) + expandedArea cells es
  | _, _ => 0

/-- `cellWidth_[i] *= expansion[i]` for the movable cells -/
def applyFactors : List Cell → List Rat → List Cell
  | cl :: cells, e :: es =>
    (if cl.fixed then cl else { cl with w := truncRat ((cl.w : Rat) * e) }) :: applyFactors cells es
  | cells, _ => cells

/-- `e = 1.0 + (e - 1.0) * ratio` -/
def adjust (ratio e : Rat) : Rat := 1 + (e - 1) * ratio

/-- `density = cellArea / rowArea` -/
def density (c : Circuit) (margin : Rat) : Rat :=
  (movableArea c.cells : Rat) / (rowPlacementArea c margin : Rat)

/-- `ratio = (maxDensity - density) / (expandedDensity - density)` -/
def capRatio (c : Circuit) (maxDensity margin expanded : Rat) : Rat :=
  (maxDensity - density c margin) / (expanded / (rowPlacementArea c margin : Rat) - density c margin)

/-- the vector `expansion` that is finally applied -/
def effectiveFactors (c : Circuit) (efs : List Rat) (maxDensity margin expanded : Rat) : List Rat :=
  if expanded / (rowPlacementArea c margin : Rat) > maxDensity then
    efs.map (adjust (capRatio c maxDensity margin expanded))
  else efs

/-- result of `expandCellsByFactor` given the value of `expandedArea` (so that the repaired and the legacy
function share everything else): new circuit and returned ratio -/
def byFactorWith (c : Circuit) (efs : List Rat) (maxDensity margin : Rat) (expanded : Rat) : Circuit × Rat :=
  if movableArea c.cells = 0 ∨ rowPlacementArea c margin = 0 then (c, 1)
  else if density c margin ≥ maxDensity then (c, 1)
  else
    ({ c with cells := applyFactors c.cells (effectiveFactors c efs maxDensity margin expanded) },
     (expanded / (rowPlacementArea c margin : Rat)) / density c margin)

/-- `Circuit::expandCellsByFactor(expansionFactor, maxDensity, rowSideMargin)`; `none` = throws -/
def expandCellsByFactor (c : Circuit) (efs : List Rat) (maxDensity margin : Rat) : Option (Circuit × Rat) :=
  if efs.length ≠ c.cells.length ∨ efs.any (fun e => decide (e < minFactor)) then none
  else some (byFactorWith c efs maxDensity margin (expandedArea c.cells efs))

/-! ### `computeCellExpansion` -/

/-- the expansion map: congested regions (`c > 1`) with `(c - 1) * penaltyFactor + fixedPenalty + 1`.
(The C++ then sorts the map; the only use is a maximum over it, so the order is unobservable.) -/
def expansionMap (cmap : List (Rect × Rat)) (fixedPenalty penaltyFactor : Rat) : List (Rect × Rat) :=
  (cmap.filter fun rc => decide (rc.2 > 1)).map fun rc => (rc.1, (rc.2 - 1) * penaltyFactor + fixedPenalty + 1)

/-- inner loop: maximum of 1 and the factors of the regions the placement intersects -/
def regionMax (place : Rect) : Rat → List (Rect × Rat) → Rat
  | acc, [] => acc
  | acc, (r, e) :: rest => regionMax place (if r.intersects place then max acc e else acc) rest

/-- `Circuit::computeCellExpansion(congestionMap, fixedPenalty, penaltyFactor)`; `none` = throws -/
def computeCellExpansion (c : Circuit) (cmap : List (Rect × Rat)) (fixedPenalty penaltyFactor : Rat) :
    Option (List Rat) :=
  if fixedPenalty < 0 ∨ penaltyFactor < 1 then none
  else some (c.cells.map fun cl =>
    if cl.fixed then 1 else regionMax cl.placement 1 (expansionMap cmap fixedPenalty penaltyFactor))

end Expand

namespace LegacyExpand
open Expand

/-- `expandedArea += expansionFactor[i] * area(i)` with `long long expandedArea`: the sum is truncated
after every cell (unrepaired tree) -/
def expandedAreaTrunc : Int → List Cell → List Rat → Int
  | acc, cl :: cells, e :: es =>
    expandedAreaTrunc (if cl.fixed then acc else truncRat ((acc : Rat) + e * (cellArea cl : Rat))) cells es
  | acc, _, _ => acc

/-- `Circuit::expandCellsByFactor` of the unrepaired tree -/
def expandCellsByFactor (c : Circuit) (efs : List Rat) (maxDensity margin : Rat) : Option (Circuit × Rat) :=
  if efs.length ≠ c.cells.length ∨ efs.any (fun e => decide (e < minFactor)) then none
  else some (byFactorWith c efs maxDensity margin (expandedAreaTrunc 0 c.cells efs : Int))

end LegacyExpand
end ColoVerif
