import ColoVerif.Model.F64
import ColoVerif.Model.Transp1d
/-
The scaling `DensityLegalizer::improveXTransport / improveYTransport` (src/place_global/
density_legalizer.cpp) apply before calling `Transportation1d`:

    float factor = 1.0e8 / placementArea().width();             // double division, converted to float
    v.push_back(std::round(factor * binX(i, j)));               // float product, std::round(float), -> long long
    u.push_back(std::round(factor * cellTargetX(c)));
    s.push_back(cellDemand(c));   d.push_back(std::max(binCapacity(i, j), binUsage(i, j)));

over exact rationals, with the binary32 / binary64 rounding of `Model/F64.lean` (no overflow to
infinity, finite inputs).  The conversion `float → long long` is exact when the value is in range
(it is, see `Proofs/CheckedTransp1dScale.lean`) and undefined otherwise.  Core Lean only.
-/
namespace ColoVerif.Transp1d
open ColoVerif.F64

/-- `float factor = 1.0e8 / width` -/
def scaleFactor (width : Int) : Rat := f32' (f64 ((100000000 : Rat) / (width : Rat)))

/-- `(long long) std::round(factor * x)` for `float factor, x` -/
def scalePos (factor x : Rat) : Int := roundAway (f32' (factor * x))

/-- the instance `improveXTransport` hands to `Transportation1d` for one line of bins: cell targets,
bin centres (floats, as exact rationals), cell demands, bin capacities -/
def scaledProblem (width : Int) (targets centres : List Rat) (demands caps : List Int) : Problem :=
  ⟨targets.map (scalePos (scaleFactor width)), centres.map (scalePos (scaleFactor width)), demands, caps⟩

end ColoVerif.Transp1d
