import ColoVerif.Model.Ispd
/-
ISPD / Bookshelf export and re-import at *text level* (C20).

A file is the list of its lines (`Line = List Char`, without the terminating "\n").

* `nodesText`/`plText`/`netsText`/`sclText`/`auxText` are the exact texts that `exportIspdNodes`/`Place`/
  `Nets`/`Rows`/`Aux` of src/export.cpp emit (header lines, blank lines, tabs, `terminal`, `: N`,
  `NetDegree : d n<i>`, `\to<c> I : x y`, the `CoreRow Horizontal … End` blocks); numbers are
  printed as `operator<<` prints them: `showInt` for `int`, `fmtG6` for the `double` half-integers
  (default precision 6, `%g`).
* `readNodesT`/`readNetsT`/`readPlaceT`/`readRowsT` are `_read_nodes`/`_read_nets`/`_read_place`/
  `_read_rows` of pycoloquinte/coloquinte.py, statement by statement: `line.strip()`, blank and
  `#` lines skipped, the first `UCLA` line skipped, `startswith` dispatch, `_parse_num_line`,
  `replace(":", " ")`, `split()`, which token is read at which position, `int()`/`float()`,
  and the Python exception each failing statement raises.
* `auxPath`/`auxSelect`/`openFile`/`readIspd` are `_read_aux`, `_open_file` (plain files only) and
  `Circuit.read_ispd` on a file system given as a partial map from paths to texts.
* `writePlacementText`/`loadPlacement` are `Circuit.write_placement`/`Circuit.load_placement`.

Not modelled: compressed files (`Err.compressed`), Unicode digits / `_` separators / `inf`/`nan`
in `float()`, `os.path.normpath` beyond trailing slashes, text encodings.

Core Lean only; every function is structurally recursive so that `decide` can run it.
-/
namespace ColoVerif.Ispd.Text
open ColoVerif ColoVerif.Ispd

abbrev Line := List Char

/-- results can be compared by `decide` (non-vacuity examples, witnesses) -/
instance decEqResult {α : Type} [DecidableEq α] : DecidableEq (Except Err α) := fun a b =>
  match a, b with
  | .ok x, .ok y => if h : x = y then isTrue (by rw [h]) else isFalse (fun e => h (Except.ok.inj e))
  | .error x, .error y => if h : x = y then isTrue (by rw [h]) else isFalse (fun e => h (Except.error.inj e))
  | .ok _, .error _ => isFalse (fun e => by cases e)
  | .error _, .ok _ => isFalse (fun e => by cases e)

/-! ## `str` primitives -/

/-- `str.isspace()` on one code point (what `strip()` and `split()` use) -/
def isWs (c : Char) : Bool :=
  c.toNat == 32 || (9 ≤ c.toNat && c.toNat ≤ 13) || (28 ≤ c.toNat && c.toNat ≤ 31) || c.toNat == 0x85 ||
  c.toNat == 0xa0 || c.toNat == 0x1680 || (0x2000 ≤ c.toNat && c.toNat ≤ 0x200a) || c.toNat == 0x2028 ||
  c.toNat == 0x2029 || c.toNat == 0x202f || c.toNat == 0x205f || c.toNat == 0x3000

/-- separators of `line.replace(":", " ").split()` -/
def isWsC (c : Char) : Bool := isWs c || c == ':'

def isDig (c : Char) : Bool := 48 ≤ c.toNat && c.toNat ≤ 57
def digitVal (c : Char) : Nat := c.toNat - 48

def lstrip (l : Line) : Line := l.dropWhile isWs

def rstrip : Line → Line
  | [] => []
  | c :: cs => if (rstrip cs).isEmpty && isWs c then [] else c :: rstrip cs

/-- `line.strip()` -/
def strip (l : Line) : Line := rstrip (lstrip l)

def splitGo (p : Char → Bool) : Line → Line → List Line
  | acc, [] => if acc.isEmpty then [] else [acc.reverse]
  | acc, c :: cs =>
    if p c then (if acc.isEmpty then splitGo p [] cs else acc.reverse :: splitGo p [] cs)
    else splitGo p (c :: acc) cs

/-- maximal runs of characters that are not separators -/
def splitBy (p : Char → Bool) (l : Line) : List Line := splitGo p [] l

/-- `line.split()` -/
def split (l : Line) : List Line := splitBy isWs l

/-- `line.replace(":", " ")` -/
def replaceColon (l : Line) : Line := l.map (fun c => if c == ':' then ' ' else c)

/-- `line.startswith(p)` -/
def startsWith (p : String) (l : Line) : Bool := p.toList.isPrefixOf l

/-- `name.endswith(s)` -/
def endsWith (s : String) (l : Line) : Bool := s.toList.reverse.isPrefixOf l.reverse

/-- `s.lower()` (ASCII) -/
def lower (l : Line) : Line := l.map Char.toLower

/-! ## `int()`, `float()` and `operator<<` -/

/-- digits after the first one: `_` is allowed between two digits -/
def natGo : Nat → Line → Option Nat
  | acc, [] => some acc
  | acc, c :: cs =>
    if isDig c then natGo (acc * 10 + digitVal c) cs
    else if c == '_' then
      match cs with
      | [] => none
      | d :: ds => if isDig d then natGo (acc * 10 + digitVal d) ds else none
    else none

def pyNat : Line → Option Nat
  | [] => none
  | c :: cs => if isDig c then natGo (digitVal c) cs else none

def pyIntCore : Line → Option Int
  | [] => none
  | c :: cs =>
    if c == '-' then (pyNat cs).map (fun n => -(n : Int))
    else if c == '+' then (pyNat cs).map (fun n => (n : Int))
    else (pyNat (c :: cs)).map (fun n => (n : Int))

/-- `int(s)`: surrounding white space is ignored, optional sign, decimal digits (`ValueError` otherwise) -/
def pyInt (s : Line) : Except Err Int :=
  match pyIntCore (strip s) with
  | some v => pure v
  | none => throw .valueError

def digitsNat (ds : Line) : Nat := ds.foldl (fun a c => a * 10 + digitVal c) 0

/-- the fractional part `.ddd` (if any): its digits and what follows -/
def fracPart : Line → Line × Line
  | [] => ([], [])
  | c :: t => if c == '.' then (t.takeWhile isDig, t.dropWhile isDig) else ([], c :: t)

def scale10 (q : Rat) (e : Int) : Rat :=
  if e ≥ 0 then q * ((10 ^ e.toNat : Nat) : Rat) else q / ((10 ^ (-e).toNat : Nat) : Rat)

/-- unsigned decimal literal `ddd[.ddd][e[±]dd]` with its exact value -/
def pyFloatAbs (r : Line) : Option Rat :=
  if ((r.takeWhile isDig).isEmpty && (fracPart (r.dropWhile isDig)).1.isEmpty) then none
  else
    match (fracPart (r.dropWhile isDig)).2 with
    | [] => some ((digitsNat (r.takeWhile isDig ++ (fracPart (r.dropWhile isDig)).1) : Rat) /
                  ((10 ^ (fracPart (r.dropWhile isDig)).1.length : Nat) : Rat))
    | c :: t =>
      if c == 'e' || c == 'E' then
        match pyIntCore t with
        | some e => some (scale10 ((digitsNat (r.takeWhile isDig ++ (fracPart (r.dropWhile isDig)).1) : Rat) /
                                   ((10 ^ (fracPart (r.dropWhile isDig)).1.length : Nat) : Rat)) e)
        | none => none
      else none

def pyFloatCore : Line → Option Rat
  | [] => none
  | c :: cs =>
    if c == '-' then (pyFloatAbs cs).map (fun q => -q)
    else if c == '+' then pyFloatAbs cs
    else pyFloatAbs (c :: cs)

/-- `float(s)`: the exact value of the decimal literal (binary64 rounding is not modelled: the values at
hand — half-integers and decimal fractions with few digits below 2^53 — are exact or rounded the same
way on both sides of the comparison) -/
def pyFloat (s : Line) : Except Err Rat :=
  match pyFloatCore (strip s) with
  | some v => pure v
  | none => throw .valueError

def showNat (n : Nat) : Line := Nat.toDigits 10 n

/-- `f << i` for an `int` -/
def showInt (i : Int) : Line := if i < 0 then '-' :: showNat i.natAbs else showNat i.toNat

/-- six-digit decimal mantissa of `a/2` (`a ≥ 200000`), round-half-even on the exact value -/
def round6 (a : Nat) : Nat :=
  let d := (Nat.toDigits 10 (a / 2)).length
  let u := 2 * 10 ^ (d - 6)
  let q := a / u
  let r := a % u
  if 2 * r < u then q else if 2 * r > u then q + 1 else if q % 2 = 0 then q else q + 1

def stripZeros (l : Line) : Line := (l.reverse.dropWhile (· == '0')).reverse

def twoDigits (n : Nat) : Line := if n < 10 then '0' :: showNat n else showNat n

/-- `f << v` for the `double` `v = k/2` at the default `precision(6)` (`%g`): at most six significant
digits, fixed notation while the decimal exponent is below 6, scientific `d.ddddde+XX` from 10^6 on,
trailing zeros (and a trailing point) removed. -/
def fmtG6 (k : Int) : Line :=
  (if k < 0 then ['-'] else []) ++
  (if k.natAbs < 200000 then
     showNat (k.natAbs / 2) ++ (if k.natAbs % 2 = 1 then ['.', '5'] else [])
   else
     let d := (showNat (k.natAbs / 2)).length
     let m := showNat (round6 k.natAbs)             -- six digits, or "1000000"
     let x := d - 1 + (m.length - 6)                -- decimal exponent after rounding
     if x < 6 then m
     else
       let frac := stripZeros ((m.drop 1).take 5)
       m.take 1 ++ (if frac.isEmpty then [] else '.' :: frac) ++ ['e', '+'] ++ twoDigits x)

/-! ## The writer: `Circuit::exportIspd` (src/export.cpp) -/

def cellTok (i : Nat) : Line := 'o' :: showNat i
def netTok (i : Nat) : Line := 'n' :: showNat i

/-- `"\to" << i << "\t" << w << "\t" << h [<< "\tterminal"] << "\n"` -/
def nodeLine (i : Nat) (cl : Cell) : Line :=
  '\t' :: (cellTok i ++ '\t' :: (showInt cl.w ++ '\t' :: (showInt cl.h ++ (if cl.fixed then "\tterminal".toList else []))))

def nodeLinesFrom : Nat → List Cell → List Line
  | _, [] => []
  | k, cl :: cs => nodeLine k cl :: nodeLinesFrom (k + 1) cs

def nodesText (c : Circuit) : List Line :=
  "UCLA nodes 1.0".toList :: [] ::
  ("NumNodes : ".toList ++ showInt c.cells.length) ::
  ("NumTerminals : ".toList ++ showInt (c.cells.countP (·.fixed))) ::
  nodeLinesFrom 0 c.cells

/-- `"o" << i << "\t" << x << "\t" << y << "\t: " << toString(orientation) << "\n"` -/
def plLine (i : Nat) (cl : Cell) : Line :=
  cellTok i ++ '\t' :: (showInt cl.x ++ '\t' :: (showInt cl.y ++ '\t' :: ':' :: ' ' :: (orientToString cl.orient).toList))

def plLinesFrom : Nat → List Cell → List Line
  | _, [] => []
  | k, cl :: cs => plLine k cl :: plLinesFrom (k + 1) cs

def plText (c : Circuit) : List Line :=
  "UCLA pl 1.0".toList :: [] :: plLinesFrom 0 c.cells

/-- `"\to" << c << " I : " << x << " " << y << "\n"` with `x = xo - 0.5 * w` -/
def pinLine (c : Circuit) (p : Pin) : Line :=
  '\t' :: (cellTok p.cell ++ ' ' :: 'I' :: ' ' :: ':' :: ' ' ::
    (fmtG6 (2 * p.xo - (c.cell p.cell).w) ++ ' ' :: fmtG6 (2 * p.yo - (c.cell p.cell).h)))

/-- `"NetDegree : " << deg << " n" << i << "\n"` -/
def netDegreeLine (i : Nat) (n : Net) : Line :=
  "NetDegree : ".toList ++ (showInt n.pins.length ++ ' ' :: netTok i)

def netLinesFrom (c : Circuit) : Nat → List Net → List Line
  | _, [] => []
  | k, n :: ns => (netDegreeLine k n :: n.pins.map (pinLine c)) ++ netLinesFrom c (k + 1) ns

def netsText (c : Circuit) : List Line :=
  "UCLA nets 1.0".toList :: [] ::
  ("NumNets : ".toList ++ showInt c.nets.length) ::
  ("NumPins : ".toList ++ showInt (totalPins c.nets)) :: [] ::
  netLinesFrom c 0 c.nets

def rowLines (r : Row) : List Line :=
  [ "CoreRow Horizontal".toList,
    "  Coordinate    : ".toList ++ showInt r.rect.minY,
    "  Height        : ".toList ++ showInt r.rect.height,
    "  Sitewidth     : 1".toList,
    "  Sitespacing   : 1".toList,
    "  Siteorient    : ".toList ++ (orientToString r.orient).toList,
    "  Sitesymmetry  : 1".toList,
    "  SubrowOrigin  : ".toList ++ (showInt r.rect.minX ++ ("     NumSites : ".toList ++ showInt r.rect.width)),
    "End".toList ]

def rowBlocks : List Row → List Line
  | [] => []
  | r :: rs => rowLines r ++ rowBlocks rs

def sclText (c : Circuit) : List Line :=
  "UCLA scl 1.0".toList :: [] :: ("NumRows : ".toList ++ showInt c.rows.length) :: [] :: rowBlocks c.rows

/-- `os.path.basename`, and `filename.substr(filename.find_last_of('/') + 1)` of export.cpp -/
def basename (p : Line) : Line := (p.reverse.takeWhile (· != '/')).reverse

/-- `"RowBasedPlacement : " << base << ".nodes " << base << ".nets " << base << ".pl " << base << ".scl" << endl`
with `base` the part of the export prefix after its last `/` (after the F18 fix: names relative to the
directory of the `.aux` file) -/
def auxText (pre : Line) : List Line :=
  ["RowBasedPlacement : ".toList ++ (basename pre ++ (".nodes ".toList ++ (basename pre ++ (".nets ".toList ++
    (basename pre ++ (".pl ".toList ++ (basename pre ++ ".scl".toList)))))))]

/-- the four data files -/
structure TextFiles where
  nodes : List Line
  nets : List Line
  pl : List Line
  scl : List Line
deriving Repr, DecidableEq, Inhabited

def writeText (c : Circuit) : TextFiles := ⟨nodesText c, netsText c, plText c, sclText c⟩

/-- both coordinates of `offset - size/2` need at most six significant digits (`|2·offset − size| < 2·10^5`:
the magnitude part of `Ispd.pinOk`) -/
def pinPrintable (c : Circuit) (p : Pin) : Bool :=
  decide ((2 * p.xo - (c.cell p.cell).w).natAbs < 200000) && decide ((2 * p.yo - (c.cell p.cell).h).natAbs < 200000)

def printable (c : Circuit) : Bool := c.nets.all (fun n => n.pins.all (pinPrintable c))

/-! ## The reader: pycoloquinte/coloquinte.py -/

/-- `_parse_num_line`: `line.split(":")` must have two parts; `int(tokens[1].strip())` -/
def parseNumLine (l : Line) : Except Err Int :=
  match l.dropWhile (· != ':') with
  | [] => throw .runtime
  | _ :: b => if b.contains ':' then throw .runtime else pyInt b

/-- what the common prologue of the three line loops decides -/
inductive Prologue
  | skip          -- blank line, comment, or the first `UCLA` line
  | first         -- the first `UCLA` line (sets `first_line_found`)
  | content (l : Line)
deriving Repr, DecidableEq

def prologue (first : Bool) (line : Line) : Prologue :=
  if (strip line).isEmpty then .skip
  else if startsWith "#" (strip line) then .skip
  else if startsWith "UCLA" (strip line) && !first then .first
  else .content (strip line)

/-! ### `_read_nodes` -/

abbrev NodeTuple := String × Int × Int × Bool × Bool   -- name, width, height, fixed, obstruction

structure NodesSt where
  nbNodes : Option Int
  nbTerminals : Option Int
  first : Bool
  nodes : List NodeTuple
deriving Repr, DecidableEq

def nodeOfVals : List Line → Except Err NodeTuple
  | [] => throw .indexError   -- unreachable: the stripped line is not empty
  | name :: rest =>
    match rest with
    | w :: h :: _ =>
      match pyInt w with
      | .error e => .error e
      | .ok wv =>
        match pyInt h with
        | .error e => .error e
        | .ok hv => .ok (String.ofList name, wv, hv, rest.contains "terminal".toList, true)
    | _ => .ok (String.ofList name, 0, 0, rest.contains "terminal".toList, false)

def nodesContent (st : NodesSt) (l : Line) : Except Err NodesSt :=
  if startsWith "NumNodes" l then
    if st.nbNodes.isSome then .error .assertion
    else match parseNumLine l with
      | .error e => .error e
      | .ok v => .ok { st with nbNodes := some v }
  else if startsWith "NumTerminals" l then
    if st.nbTerminals.isSome then .error .assertion
    else match parseNumLine l with
      | .error e => .error e
      | .ok v => .ok { st with nbTerminals := some v }
  else
    match nodeOfVals (split l) with
    | .error e => .error e
    | .ok nd => .ok { st with nodes := st.nodes ++ [nd] }

def nodesStep (st : NodesSt) (line : Line) : Except Err NodesSt :=
  match prologue st.first line with
  | .skip => .ok st
  | .first => .ok { st with first := true }
  | .content l => nodesContent st l

def nodesLoop : NodesSt → List Line → Except Err NodesSt
  | st, [] => .ok st
  | st, l :: ls =>
    match nodesStep st l with
    | .error e => .error e
    | .ok st' => nodesLoop st' ls

def nodesFinish (st : NodesSt) : Except Err Nodes := do
  checkCount st.nbNodes st.nodes.length
  checkCount st.nbTerminals (st.nodes.countP (·.2.2.2.1))
  pure ⟨st.nodes.map (·.1), st.nodes.map (·.2.1), st.nodes.map (·.2.2.1), st.nodes.map (·.2.2.2.1),
        st.nodes.map (·.2.2.2.2)⟩

def readNodesT (lines : List Line) : Except Err Nodes :=
  match nodesLoop ⟨none, none, false, []⟩ lines with
  | .error e => .error e
  | .ok st => nodesFinish st

/-! ### `_read_nets` -/

abbrev RawNet := Int × List (Nat × Rat × Rat)

structure NetsSt where
  nbNets : Option Int
  nbPins : Option Int
  first : Bool
  nets : List RawNet
deriving Repr, DecidableEq

/-- `nets[-1][2].append(pin)` -/
def appendPin : List RawNet → Nat × Rat × Rat → Except Err (List RawNet)
  | [], _ => .error .indexError
  | [n], p => .ok [(n.1, n.2 ++ [p])]
  | n :: m :: rest, p =>
    match appendPin (m :: rest) p with
    | .error e => .error e
    | .ok r => .ok (n :: r)

/-- the pin line once split: `cell, direction, x, y = vals` or `cell, direction = vals` -/
def pinOfVals (names : List String) (vals : List Line) : Except Err (Nat × Rat × Rat) :=
  match vals with
  | [cell, _, x, y] =>
    match pyFloat x with
    | .error e => .error e
    | .ok xv =>
      match pyFloat y with
      | .error e => .error e
      | .ok yv =>
        match lookup (String.ofList cell) names with
        | none => .error .assertion
        | some i => .ok (i, xv, yv)
  | [cell, _] =>
    match lookup (String.ofList cell) names with
    | none => .error .assertion
    | some i => .ok (i, 0, 0)
  | _ => .error .assertion

/-- `vals = line.split(); assert 2 <= len(vals) <= 3; net_degree = int(vals[1])` -/
def degreeOfVals : List Line → Except Err Int
  | [_, d] => pyInt d
  | [_, d, _] => pyInt d
  | _ => .error .assertion

def netsContent (names : List String) (st : NetsSt) (l : Line) : Except Err NetsSt :=
  if startsWith "NumNets" l then
    if st.nbNets.isSome then .error .assertion
    else match parseNumLine l with
      | .error e => .error e
      | .ok v => .ok { st with nbNets := some v }
  else if startsWith "NumPins" l then
    if st.nbPins.isSome then .error .assertion
    else match parseNumLine l with
      | .error e => .error e
      | .ok v => .ok { st with nbPins := some v }
  else if startsWith "NetDegree" (replaceColon l) then
    match degreeOfVals (split (replaceColon l)) with
    | .error e => .error e
    | .ok d => .ok { st with nets := st.nets ++ [(d, [])] }
  else
    match pinOfVals names (split (replaceColon l)) with
    | .error e => .error e
    | .ok p =>
      match appendPin st.nets p with
      | .error e => .error e
      | .ok ns => .ok { st with nets := ns }

def netsStep (names : List String) (st : NetsSt) (line : Line) : Except Err NetsSt :=
  match prologue st.first line with
  | .skip => .ok st
  | .first => .ok { st with first := true }
  | .content l => netsContent names st l

def netsLoop (names : List String) : NetsSt → List Line → Except Err NetsSt
  | st, [] => .ok st
  | st, l :: ls =>
    match netsStep names st l with
    | .error e => .error e
    | .ok st' => netsLoop names st' ls

/-- what `_read_nets` does after its line loop (the same statements as the tail of `Ispd.readNets`) -/
def netsFinish (nbNets nbPins : Option Int) (nd : Nodes) (raw : List RawNet) : Except Err (List (List Pin)) := do
  let total ← checkDegrees raw
  checkCount nbNets raw.length
  match nbPins with
  | none => pure ()
  | some k => if total = k then pure () else throw .assertion
  pure (raw.map fun n => n.2.map (mkPin nd))

def readNetsT (lines : List Line) (nd : Nodes) : Except Err (List (List Pin)) :=
  match netsLoop nd.names ⟨none, none, false, []⟩ lines with
  | .error e => .error e
  | .ok st => netsFinish st.nbNets st.nbPins nd st.nets

/-! ### `_read_place` -/

/-- `assert len(vals) >= 3; cell, x, y, orient = vals[:4]; assert cell in name_dir; int(x); int(y);
orientation` -/
def placeOfVals (names : List String) (st : Place) (vals : List Line) : Except Err Place :=
  match vals with
  | cell :: x :: y :: rest =>
    match rest with
    | [] => .error .valueError           -- not enough values to unpack
    | orient :: _ =>
      match lookup (String.ofList cell) names with
      | none => .error .assertion
      | some i =>
        match pyInt x with
        | .error e => .error e
        | .ok xv =>
          match pyInt y with
          | .error e => .error e
          | .ok yv =>
            match orientOfName (String.ofList orient) with
            | none => .error .runtime
            | some o => .ok ⟨st.xs.set i xv, st.ys.set i yv, st.os.set i (some o)⟩
  | _ => .error .assertion

def placeLoop (names : List String) : Bool → Place → List Line → Except Err Place
  | _, st, [] => .ok st
  | first, st, l :: ls =>
    match prologue first l with
    | .skip => placeLoop names first st ls
    | .first => placeLoop names true st ls
    | .content t =>
      match placeOfVals names st (split (replaceColon t)) with
      | .error e => .error e
      | .ok st' => placeLoop names first st' ls

def readPlaceT (lines : List Line) (names : List String) : Except Err Place :=
  placeLoop names false ⟨List.replicate names.length 0, List.replicate names.length 0,
                          List.replicate names.length none⟩ lines

/-! ### `_read_rows` -/

/-- first pass: `NumRows` may appear once (its value is never used) -/
def numRowsPass : Option Int → List Line → Except Err (Option Int)
  | nb, [] => .ok nb
  | nb, l :: ls =>
    if startsWith "NumRows" (strip l) then
      if nb.isSome then .error .assertion
      else match parseNumLine (strip l) with
        | .error e => .error e
        | .ok v => numRowsPass (some v) ls
    else numRowsPass nb ls

/-- `row_descs[-1].extend(tokens)` -/
def extendLast : List (List Line) → List Line → List (List Line)
  | [], _ => []
  | [d], t => [d ++ t]
  | d :: e :: rest, t => d :: extendLast (e :: rest) t

/-- second pass: the token lists of the `CoreRow … End` blocks -/
def rowDescs : Bool → List (List Line) → List Line → List (List Line)
  | _, ds, [] => ds
  | inRow, ds, l :: ls =>
    if startsWith "CoreRow" (strip l) then rowDescs true (ds ++ [[]]) ls
    else if startsWith "End" (strip l) then rowDescs false ds ls
    else if inRow then rowDescs inRow (extendLast ds (split (replaceColon (strip l)))) ls
    else rowDescs inRow ds ls

structure RowAcc where
  minX : Option Int
  minY : Option Int
  width : Option Int
  height : Option Int
  siteWidth : Int
  orient : Orient
deriving Repr, DecidableEq

/-- one iteration of `for i in range(1, len(desc))` with `key = desc[i-1]`, `val = desc[i]` -/
def rowScanStep (a : RowAcc) (key val : Line) : Except Err RowAcc :=
  if lower key = "coordinate".toList then
    match pyInt val with | .error e => .error e | .ok v => .ok { a with minY := some v }
  else if lower key = "subroworigin".toList then
    match pyInt val with | .error e => .error e | .ok v => .ok { a with minX := some v }
  else if lower key = "numsites".toList then
    match pyInt val with | .error e => .error e | .ok v => .ok { a with width := some v }
  else if lower key = "height".toList then
    match pyInt val with | .error e => .error e | .ok v => .ok { a with height := some v }
  else if lower key = "sitewidth".toList then
    match pyInt val with | .error e => .error e | .ok v => .ok { a with siteWidth := v }
  else if lower key = "siteorient".toList then
    match orientOfName (String.ofList val) with
    | some o => .ok { a with orient := o }
    | none => .ok a
  else .ok a

def rowScan : RowAcc → List Line → Except Err RowAcc
  | a, [] => .ok a
  | a, k :: tl =>
    match tl with
    | [] => .ok a
    | v :: _ =>
      match rowScanStep a k v with
      | .error e => .error e
      | .ok a' => rowScan a' tl

/-- `width *= site_width` (TypeError on `None`), the four asserts, `Row(Rectangle(…), orient)` -/
def rowOfAcc (a : RowAcc) : Except Err Row :=
  match a.width with
  | none => .error .typeError
  | some w =>
    match a.minX, a.minY, a.height with
    | some x, some y, some h => .ok ⟨⟨x, x + w * a.siteWidth, y, y + h⟩, a.orient⟩
    | _, _, _ => .error .assertion

def rowsOfDescs : List (List Line) → Except Err (List Row)
  | [] => .ok []
  | d :: ds =>
    match rowScan ⟨none, none, none, none, 1, .N⟩ d with
    | .error e => .error e
    | .ok a =>
      match rowOfAcc a with
      | .error e => .error e
      | .ok r =>
        match rowsOfDescs ds with
        | .error e => .error e
        | .ok rs => .ok (r :: rs)

def readRowsT (lines : List Line) : Except Err (List Row) :=
  match numRowsPass none lines with
  | .error e => .error e
  | .ok _ => rowsOfDescs (rowDescs false [] lines)

/-! ### `Circuit.read_ispd` on the four texts -/

def readText (t : TextFiles) : Except Err Circuit := do
  let nd ← readNodesT t.nodes
  let nets ← readNetsT t.nets nd
  let pl ← readPlaceT t.pl nd.names
  let rows ← readRowsT t.scl
  assemble nd nets pl rows

/-! ## `.aux` selection, `_open_file`, and the whole `read_ispd` on a file system -/

/-- a file system: the regular files (path ↦ text); directories are given to `auxPath` directly -/
abbrev FS := Line → Option (List Line)

/-- what `os.path.isdir` / `os.listdir` / `os.path.exists` say about the argument of `read_ispd` -/
inductive PathKind
  | dir (entries : List Line)
  | exists_
  | missing
deriving Repr, DecidableEq

/-- `os.path.dirname` (POSIX): the head up to the last `/`, trailing slashes removed unless it is all slashes -/
def dropTrailingSlashes (l : Line) : Line := (l.reverse.dropWhile (· == '/')).reverse

def dirname (p : Line) : Line :=
  let head := (p.reverse.dropWhile (· != '/')).reverse     -- up to and including the last '/'
  if head.all (· == '/') then head else dropTrailingSlashes head

/-- `os.path.join(a, b)` (POSIX, two arguments) -/
def pathJoin (a b : Line) : Line :=
  if startsWith "/" b then b
  else if a.isEmpty || endsWith "/" a then a ++ b
  else a ++ '/' :: b

/-- the path of the `.aux` file that `_read_aux` opens (`os.path.normpath` is modelled for trailing
slashes only) -/
def auxPath (kind : PathKind) (filename : Line) : Except Err Line :=
  match kind with
  | .dir entries =>
    match entries.filter (endsWith ".aux") with
    | [one] => .ok (pathJoin filename one)
    | [] => .error .runtime
    | all =>
      if all.contains (basename (dropTrailingSlashes filename) ++ ".aux".toList)
      then .ok (pathJoin filename (basename (dropTrailingSlashes filename) ++ ".aux".toList))
      else .error .runtime
  | .exists_ => .ok filename
  | .missing => .ok (filename ++ ".aux".toList)

def exactlyOne : List Line → Except Err Line
  | [x] => .ok x
  | _ => .error .runtime

/-- the four data files named in the `.aux` text: every whitespace-separated token of every line,
filtered by suffix, exactly one of each kind, relative to the directory of the `.aux` file;
order of the result: nodes, nets, pl, scl -/
def auxSelect (auxFile : Line) (lines : List Line) : Except Err (Line × Line × Line × Line) :=
  let files := (lines.map split).flatten
  match exactlyOne (files.filter (endsWith ".nodes")) with
  | .error e => .error e
  | .ok n =>
    match exactlyOne (files.filter (endsWith ".nets")) with
    | .error e => .error e
    | .ok e =>
      match exactlyOne (files.filter (endsWith ".pl")) with
      | .error e => .error e
      | .ok p =>
        match exactlyOne (files.filter (endsWith ".scl")) with
        | .error e => .error e
        | .ok s => .ok (pathJoin (dirname auxFile) n, pathJoin (dirname auxFile) e,
                        pathJoin (dirname auxFile) p, pathJoin (dirname auxFile) s)

/-- `_open_file(name)` in read mode, plain files only: a compressed name, or a compressed sibling of a
missing file, is outside the model -/
def openFile (fs : FS) (name : Line) : Except Err (List Line) :=
  if endsWith ".gz" name || endsWith ".xz" name || endsWith ".lzma" name then .error .compressed
  else
    match fs name with
    | some t => .ok t
    | none =>
      if (fs (name ++ ".gz".toList)).isSome || (fs (name ++ ".xz".toList)).isSome || (fs (name ++ ".lzma".toList)).isSome
      then .error .compressed else .error .runtime

/-- `Circuit.read_ispd(filename)` -/
def readIspd (fs : FS) (kind : PathKind) (filename : Line) : Except Err Circuit := do
  let auxFile ← auxPath kind filename
  let auxLines ← match fs auxFile with
    | some t => pure t
    | none => throw .fileNotFound
  let (n, e, p, s) ← auxSelect auxFile auxLines
  let nd ← (openFile fs n) >>= readNodesT
  let nets ← (openFile fs e) >>= (readNetsT · nd)
  let pl ← (openFile fs p) >>= (readPlaceT · nd.names)
  let rows ← (openFile fs s) >>= readRowsT
  assemble nd nets pl rows

/-- the files that `Circuit::exportIspd(pre)` leaves behind -/
def exportFS (pre : Line) (c : Circuit) : FS := fun path =>
  if path = pre ++ ".aux".toList then some (auxText pre)
  else if path = pre ++ ".nodes".toList then some (nodesText c)
  else if path = pre ++ ".pl".toList then some (plText c)
  else if path = pre ++ ".nets".toList then some (netsText c)
  else if path = pre ++ ".scl".toList then some (sclText c)
  else none

/-- the directory part of a prefix, reversed (`[]`, or starting with the last `/`), is one that
`os.path.dirname` + `os.path.join` put back in front of a base name unchanged: empty, the root `/`, or
ending in a single `/` -/
def goodDir : Line → Bool
  | [] => true
  | [_] => true
  | _ :: c :: _ => c != '/'

/-- prefixes for which the `.aux` file written by `exportIspdAux` leads the reader back to the four data
files: no white space in the base name (the `.aux` line is split at white space) and a directory part —
absolute or relative, or none — without a doubled `/` at its end (the model compares paths as strings) -/
def goodPrefix (pre : Line) : Bool :=
  (basename pre).all (fun c => !isWs c) && goodDir (pre.reverse.dropWhile (· != '/'))

/-! ## `Circuit.write_placement` / `Circuit.load_placement` (Python side) -/

/-- `print(f"{name}\t{x}\t{y}\t: {orient}", file=f)` with `orient += " /FIXED"` for fixed cells -/
def solLine (name : Line) (cl : Cell) : Line :=
  name ++ '\t' :: (showInt cl.x ++ '\t' :: (showInt cl.y ++ '\t' :: ':' :: ' ' ::
    ((orientToString cl.orient).toList ++ (if cl.fixed then " /FIXED".toList else []))))

def solLines : List Line → List Cell → List Line
  | name :: ns, cl :: cs => solLine name cl :: solLines ns cs
  | _, _ => []

/-- the text `write_placement` prints (`self._cell_name` = `names`; a cell whose orientation has no
Python name would raise instead) -/
def writePlacementText (names : List Line) (c : Circuit) : List Line :=
  "UCLA pl 1.0".toList :: "# Created by Coloquinte".toList :: "# https://github.com/Coloquinte/PlaceRoute".toList :: [] ::
  solLines names c.cells

def setPlacement : List Cell → List Int → List Int → List Orient → List Cell
  | cl :: cs, x :: xs, y :: ys, o :: os => { cl with x := x, y := y, orient := o } :: setPlacement cs xs ys os
  | _, _, _, _ => []

/-- `load_placement(filename)`: `_read_place(filename, self._cell_name)`, then the three setters
(a cell without a line holds `None`: TypeError from the third one, the first two having been applied —
the partial update is not observable here) -/
def loadPlacement (names : List String) (lines : List Line) (c : Circuit) : Except Err Circuit :=
  match readPlaceT lines names with
  | .error e => .error e
  | .ok pl =>
    if pl.xs.length ≠ c.cells.length then .error .runtime
    else match allSome pl.os with
      | .error e => .error e
      | .ok os => .ok { c with cells := setPlacement c.cells pl.xs pl.ys os }

end ColoVerif.Ispd.Text
