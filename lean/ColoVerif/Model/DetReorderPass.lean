import ColoVerif.Model.DetReorder
import ColoVerif.Model.DetSearch
/-
`DetailedPlacer::runReordering(maxNbRows, maxNbCells)` and `runReorderingOnRows` (place_detailed.cpp):
which windows of cells are handed to `RowReordering` (Model/DetReorder.lean), in which order.

  runReordering(maxNbRows, maxNbCells)   if (maxNbCells < 2) return;
                                         RowNeighbourhood rowsNeighbours(rows, maxNbRows - 1);
                                         for row: rows = {row} ∪ rowsAbove(row); runReorderingOnRows(rows, maxNbCells)
                                         (the final `check()` is C02's business)
  runReorderingOnRows(rows, maxNbCells)  cells = rowCells(rows) — all cells of the rows sorted by (x, index),
                                         taken ONCE, before the first window;
                                         overlap = min(maxNbCells / 2, 10);
                                         for (start = 0; start < size; start += maxNbCells - overlap)
                                           runReorderingOnCells(cells[start, min(start + maxNbCells, size)))

Note `RowNeighbourhood(rows, 0)` (maxNbRows = 1) still reports one row above when the next row in
`orderAbove` order overlaps in x (the `nbFound >= nbNeighbourRows` test comes after the push): with
`reorderingNbRows = 1` the windows span two rows.  Modelled as it is (Model/RowNbh.lean).
-/
namespace ColoVerif.DetPlace

/-- result of a reordering pass: the object, the write-backs performed (hook H3 `h_reorder`), one
report per window (hook H3b `h_window`) -/
abbrev ReorderPass := Except Err (Placer × List Op × List WindowInfo)

/-- the windows of `runReorderingOnRows`: `for (start = 0; start < size; start += step)` -/
def windowsFrom (cells : List Int) (maxNbCells step : Nat) : Nat → Nat → List (List Int)
  | 0, _ => []
  | fuel + 1, start =>
    if start < cells.length then
      ((cells.drop start).take maxNbCells) :: windowsFrom cells maxNbCells step fuel (start + step)
    else []

/-- the windows for `maxNbCells ≥ 2` (then `step = maxNbCells - min(maxNbCells / 2, 10) ≥ 1`) -/
def reorderWindows (cells : List Int) (maxNbCells : Int) : List (List Int) :=
  windowsFrom cells maxNbCells.toNat (maxNbCells - min (maxNbCells.tdiv 2) 10).toNat (cells.length + 1) 0

namespace Placer

/-- the loop over the windows -/
def reorderWindowsLoop : Placer → List (List Int) → ReorderPass
  | p, [] => .ok (p, [], [])
  | p, w :: ws =>
    match p.reorderWindow w with
    | .error e => .error e
    | .ok r =>
      match reorderWindowsLoop r.1 ws with
      | .error e => .error e
      | .ok r' => .ok (r'.1, r.2.1 ++ r'.2.1, r.2.2 :: r'.2.2)

/-- `runReorderingOnRows(rows, maxNbCells)` -/
def runReorderingOnRows (p : Placer) (rows : List Int) (maxNbCells : Int) : ReorderPass :=
  p.reorderWindowsLoop (reorderWindows (p.pl.rowCellsSorted rows) maxNbCells)

/-- the loop over the rows -/
def reorderRowsLoop (nbh : RowNbh) (maxNbCells : Int) : Placer → List Int → ReorderPass
  | p, [] => .ok (p, [], [])
  | p, r :: rs =>
    match p.runReorderingOnRows (r :: nbh.rowsAbove r) maxNbCells with
    | .error e => .error e
    | .ok x =>
      match reorderRowsLoop nbh maxNbCells x.1 rs with
      | .error e => .error e
      | .ok x' => .ok (x'.1, x.2.1 ++ x'.2.1, x.2.2 ++ x'.2.2)

/-- `runReordering(maxNbRows, maxNbCells)` -/
def runReordering (p : Placer) (maxNbRows maxNbCells : Int) : ReorderPass :=
  if maxNbCells < 2 then .ok (p, [], [])
  else reorderRowsLoop (RowNbh.ofRows p.pl.rows (maxNbRows - 1)) maxNbCells p (State.intsUpTo p.pl.nRows)

end Placer
end ColoVerif.DetPlace

/-! ### `runShifts`: which cells every `runShiftsOnCells` call is given

The solver (lemon NetworkSimplex) is not modelled; the windows are:

  runShifts(nbRows, maxNbCells)        if (nbRows < 2) return; RowNeighbourhood rowsNeighbours(rows, nbRows / 2);
                                       for (r = 0; r < nbRows(); r += nbRows / 2)
                                         runShiftsOnRows({r} ∪ rowsBelow(r) ∪ rowsAbove(r), maxNbCells)
  runShiftsOnRows(rows, maxNbCells)    the same windows as `runReorderingOnRows` (`reorderWindows`), over
                                       `rowCells(rows)` taken once, *before* the first window of the group —
                                       but after the shifts of the previous groups (they change the abscissas
                                       the cells are sorted by)
-/
namespace ColoVerif.DetPlace

/-- the row groups of `runShifts(nbRows, ·)`, in order (none when `nbRows < 2`) -/
def shiftRowGroups (rows : List Row) (nbRows : Int) : List (List Int) :=
  if nbRows < 2 then []
  else
    ((State.intsUpTo rows.length).filter fun r => r % (nbRows.tdiv 2) == 0).map fun r =>
      r :: ((RowNbh.ofRows rows (nbRows.tdiv 2)).rowsBelow r ++ (RowNbh.ofRows rows (nbRows.tdiv 2)).rowsAbove r)

/-- the windows of one group on the placement as it is when the group starts -/
def State.shiftWindows (s : State) (group : List Int) (maxNbCells : Int) : List (List Int) :=
  reorderWindows (s.rowCellsSorted group) maxNbCells

end ColoVerif.DetPlace
