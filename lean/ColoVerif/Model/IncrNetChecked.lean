import ColoVerif.Model.IncrNet
import ColoVerif.Model.Checked
/-
Checked (C++-typed) restatement of the integer arithmetic of `IncrNetModel`
(src/place_detailed/incr_net_model.{hpp,cpp}) for C07.

Every function below evaluates the same expression tree as the C++ source, one
operation at a time, in `Except Fault`; the C++ static type of each sub-expression
selects the primitive:

* `computeNetMinMaxPos(net)`: `int pinPos = cellPos_[c] + netPinOffset(net, j)` is
  `int + int` (`addI32`); `std::min/std::max` against the `INT_MAX/INT_MIN` sentinels
  cannot fault.
* `computeValue()`: `ret += minMaxPos.second - minMaxPos.first` — the subtraction is
  `int - int` (`subI32`; it overflows for an empty net, `INT_MIN - INT_MAX`), the result
  is converted to `long long` and added in `long long` (`addI64`).
* `recomputeNet(net)`: `int oldValue = second - first; int newValue = second - first;
  value_ += newValue - oldValue` — three `int - int`, then `long long += int`.
* `xTopology/yTopology(circuit, cells)`: `int pos = circuit.x(cell) + offset` is
  `int + int` for every pin of a cell outside the selection.

Index arithmetic (the CSR construction of `finalize`, `addNet`) is on `Nat` as in the
unbounded model `Model/IncrNet.lean` and is reused unchanged; the offsets handed in by the
caller (`Circuit::pinXOffset`, which itself computes `placedWidth - offs`) are a parameter
(`off`) exactly as in the unbounded `topology`.
-/
namespace ColoVerif.IncrNet
open ColoVerif ColoVerif.Checked

/-! ### computeNetMinMaxPos -/

/-- the `for j < nbNetPins(net)` loop of `computeNetMinMaxPos(net)` over the remaining pins,
with the running `minPos`, `maxPos` -/
def minMaxLoopC (cellPos : List Int) : List Pin1 → Int → Int → Except Fault (Int × Int)
  | [], mn, mx => .ok (mn, mx)
  | p :: ps, mn, mx =>
    match addI32 "computeNetMinMaxPos: cellPos_[c] + netPinOffset" (cellPos.getD p.1 0) p.2 with
    | .error f => .error f
    | .ok v => minMaxLoopC cellPos ps (min v mn) (max v mx)

/-- `computeNetMinMaxPos(net)` -/
def Model.computeNetMinMaxPosC (m : Model) (net : Nat) : Except Fault (Int × Int) :=
  minMaxLoopC m.cellPos (m.netPins net) intMax intMin

/-- the `for net < nbNets()` loop of `computeNetMinMaxPos()` over the remaining nets -/
def allMinMaxLoopC (m : Model) : List Nat → Except Fault (List (Int × Int))
  | [] => .ok []
  | n :: ns =>
    match m.computeNetMinMaxPosC n with
    | .error f => .error f
    | .ok v =>
      match allMinMaxLoopC m ns with
      | .error f => .error f
      | .ok r => .ok (v :: r)

/-- `computeNetMinMaxPos()` -/
def Model.computeAllMinMaxPosC (m : Model) : Except Fault (List (Int × Int)) :=
  allMinMaxLoopC m (List.range m.nbNets)

/-! ### computeValue -/

/-- the `for net < nbNets()` loop of `computeValue()` over the remaining nets, `acc` = `ret` -/
def valueLoopC (mm : List (Int × Int)) : List Nat → Int → Except Fault Int
  | [], acc => .ok acc
  | n :: ns, acc =>
    match subI32 "computeValue: minMaxPos.second - minMaxPos.first" (mm.getD n (0, 0)).2 (mm.getD n (0, 0)).1 with
    | .error f => .error f
    | .ok d =>
      match addI64 "computeValue: ret += …" acc d with
      | .error f => .error f
      | .ok a => valueLoopC mm ns a

/-- `computeValue()` (reads `netMinMaxPos_`) -/
def Model.computeValueC (m : Model) : Except Fault Int :=
  valueLoopC m.netMinMaxPos (List.range m.nbNets) 0

/-! ### recomputeNet / updateCellPos -/

/-- `recomputeNet(net)` -/
def Model.recomputeNetC (m : Model) (net : Nat) : Except Fault Model :=
  match m.computeNetMinMaxPosC net with
  | .error f => .error f
  | .ok nw =>
    match subI32 "recomputeNet: oldMinMaxPos.second - oldMinMaxPos.first"
        (m.netMinMaxPos.getD net (0, 0)).2 (m.netMinMaxPos.getD net (0, 0)).1 with
    | .error f => .error f
    | .ok oldValue =>
      match subI32 "recomputeNet: newMinMaxPos.second - newMinMaxPos.first" nw.2 nw.1 with
      | .error f => .error f
      | .ok newValue =>
        match subI32 "recomputeNet: newValue - oldValue" newValue oldValue with
        | .error f => .error f
        | .ok d =>
          match addI64 "recomputeNet: value_ += …" m.value d with
          | .error f => .error f
          | .ok v => .ok { m with netMinMaxPos := m.netMinMaxPos.set net nw, value := v }

/-- the `for i < nbCellPins(cell)` loop of `updateCellPos` over the remaining nets of the cell;
stops at the first fault -/
def recomputeLoopC : List Nat → Model → Except Fault Model
  | [], m => .ok m
  | n :: ns, m =>
    match m.recomputeNetC n with
    | .error f => .error f
    | .ok m' => recomputeLoopC ns m'

/-- `updateCellPos(cell, pos)` -/
def Model.updateCellPosC (m : Model) (cell : Nat) (pos : Int) : Except Fault Model :=
  recomputeLoopC (m.cellNetList cell) (m.setPos cell pos)

/-! ### finalize / build -/

/-- the counting-sort half of `finalize()` (index arithmetic only; the same code as in
`Model.finalize`) -/
def Model.finalizeCsr (m : Model) : Model :=
  { m with cellLimits := m.computeCellLimits
           cellNets := (m.allPins.foldl fillStep
              ⟨m.computeCellLimits, List.replicate m.nbPins 0, List.replicate m.nbPins 0⟩).cellNets
           cellPinOffsets := (m.allPins.foldl fillStep
              ⟨m.computeCellLimits, List.replicate m.nbPins 0, List.replicate m.nbPins 0⟩).cellPinOffsets }

/-- `finalize()` -/
def Model.finalizeC (m : Model) : Except Fault Model :=
  match m.finalizeCsr.computeAllMinMaxPosC with
  | .error f => .error f
  | .ok mm =>
    match Model.computeValueC { m.finalizeCsr with netMinMaxPos := mm } with
    | .error f => .error f
    | .ok v => .ok { m.finalizeCsr with netMinMaxPos := mm, value := v }

/-- `IncrNetModelBuilder::build(pos)` -/
def Builder.buildC (b : Builder) (pos : List Int) : Except Fault Model :=
  Model.finalizeC { cellPos := pos, netLimits := b.netLimits, netCells := b.netCells, netPinOffsets := b.netPinOffsets
                    cellLimits := [], cellNets := [], cellPinOffsets := [], netMinMaxPos := [], value := 0 }

/-! ### xTopology / yTopology -/

/-- absolute positions of the pins on cells outside the selection, in pin order:
`int pos = circuit.x(cell) + offset` -/
def fixedPositionsC (site : String) (off : Cell → Pin → Int) (pos : Cell → Int) (c : Circuit) (cells : List Nat) :
    List Pin → Except Fault (List Int)
  | [] => .ok []
  | p :: ps =>
    match cellIndex cells p.cell with
    | some _ => fixedPositionsC site off pos c cells ps
    | none =>
      match addI32 site (pos (c.cell p.cell)) (off (c.cell p.cell) p) with
      | .error f => .error f
      | .ok v =>
        match fixedPositionsC site off pos c cells ps with
        | .error f => .error f
        | .ok r => .ok (v :: r)

/-- the pin list handed to `addNet` for one circuit net -/
def reducedNetC (site : String) (off : Cell → Pin → Int) (pos : Cell → Int) (c : Circuit) (cells : List Nat) (n : Net) :
    Except Fault (List Pin1) :=
  match fixedPositionsC site off pos c cells n.pins with
  | .error f => .error f
  | .ok fx => .ok (selectedPins off c cells n ++ pseudoPins cells.length fx)

/-- the `for i < circuit.nbNets()` loop over the remaining nets -/
def addNetsC (site : String) (off : Cell → Pin → Int) (pos : Cell → Int) (c : Circuit) (cells : List Nat) :
    List Net → Builder → Except Fault Builder
  | [], b => .ok b
  | n :: ns, b =>
    match reducedNetC site off pos c cells n with
    | .error f => .error f
    | .ok l => addNetsC site off pos c cells ns (b.addNet l)

/-- common body of `xTopology(circuit, cells)` and `yTopology(circuit, cells)`; `site` names the
`int + int` of the fixed pins -/
def topologySiteC (site : String) (off : Cell → Pin → Int) (pos : Cell → Int) (c : Circuit) (cells : List Nat) :
    Except Fault Model :=
  match addNetsC site off pos c cells c.nets (Builder.new (cells.length + 1)) with
  | .error f => .error f
  | .ok b => b.buildC (cells.map (fun i => pos (c.cell i)) ++ [0])

/-- `topology` with the site string of `xTopology` -/
def topologyC (off : Cell → Pin → Int) (pos : Cell → Int) (c : Circuit) (cells : List Nat) : Except Fault Model :=
  topologySiteC "xTopology: circuit.x(cell) + offset" off pos c cells

/-- `IncrNetModel::xTopology(circuit, cells)` -/
def xTopologyC (c : Circuit) (cells : List Nat) : Except Fault Model := topologyC Circuit.pinXOffset (·.x) c cells
/-- `IncrNetModel::yTopology(circuit, cells)` -/
def yTopologyC (c : Circuit) (cells : List Nat) : Except Fault Model :=
  topologySiteC "yTopology: circuit.y(cell) + offset" Circuit.pinYOffset (·.y) c cells
/-- `IncrNetModel::xTopology(circuit)` -/
def xTopologyAllC (c : Circuit) : Except Fault Model := xTopologyC c (List.range c.cells.length)
/-- `IncrNetModel::yTopology(circuit)` -/
def yTopologyAllC (c : Circuit) : Except Fault Model := yTopologyC c (List.range c.cells.length)

end ColoVerif.IncrNet
