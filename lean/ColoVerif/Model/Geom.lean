/-
Shared geometry: rectangles, orientations, polarities (src/coloquinte.hpp,
src/parameters.cpp).  Core Lean only.
-/
namespace ColoVerif

structure Rect where
  minX : Int
  maxX : Int
  minY : Int
  maxY : Int
deriving Repr, DecidableEq, Inhabited

namespace Rect
def width (r : Rect) : Int := r.maxX - r.minX
def height (r : Rect) : Int := r.maxY - r.minY
def area (r : Rect) : Int := r.width * r.height
/-- `Rectangle::intersects` -/
def intersects (a o : Rect) : Bool :=
  a.minX < o.maxX && o.minX < a.maxX && a.minY < o.maxY && o.minY < a.maxY
/-- `Rectangle::contains` -/
def contains (a o : Rect) : Bool :=
  a.minX ≤ o.minX && a.maxX ≥ o.maxX && a.minY ≤ o.minY && a.maxY ≥ o.maxY
/-- `Rectangle::intersection` -/
def intersection (a b : Rect) : Rect :=
  ⟨max a.minX b.minX, min a.maxX b.maxX, max a.minY b.minY, min a.maxY b.maxY⟩
end Rect

/-- `CellOrientation` (numeric values 0..9 as in the header). -/
inductive Orient
  | N | S | W | E | FN | FS | FW | FE | INVALID | UNKNOWN
deriving Repr, DecidableEq, Inhabited

namespace Orient
def code : Orient → Nat
  | N => 0 | S => 1 | W => 2 | E => 3 | FN => 4 | FS => 5 | FW => 6 | FE => 7 | INVALID => 8 | UNKNOWN => 9
def ofCode : Nat → Orient
  | 0 => N | 1 => S | 2 => W | 3 => E | 4 => FN | 5 => FS | 6 => FW | 7 => FE | 8 => INVALID | _ => UNKNOWN
def all : List Orient := [N, S, W, E, FN, FS, FW, FE, INVALID, UNKNOWN]
def eight : List Orient := [N, S, W, E, FN, FS, FW, FE]
def name : Orient → String
  | N => "N" | S => "S" | W => "W" | E => "E" | FN => "FN" | FS => "FS" | FW => "FW" | FE => "FE"
  | INVALID => "INVALID" | UNKNOWN => "UNKNOWN"
/-- `isTurn` -/
def isTurn : Orient → Bool
  | E | W | FW | FE => true
  | _ => false
/-- `oppositeRowOrientation` -/
def opposite : Orient → Orient
  | N => FS | S => FN | E => FW | W => FE | FN => S | FS => N | FE => W | FW => E
  | _ => INVALID
end Orient

/-- `CellRowPolarity` (numeric values 0..4). -/
inductive Polarity
  | ANY | SAME | OPPOSITE | NW | SE
deriving Repr, DecidableEq, Inhabited

namespace Polarity
def code : Polarity → Nat
  | ANY => 0 | SAME => 1 | OPPOSITE => 2 | NW => 3 | SE => 4
def ofCode : Nat → Polarity
  | 0 => ANY | 1 => SAME | 2 => OPPOSITE | 3 => NW | _ => SE
def all : List Polarity := [ANY, SAME, OPPOSITE, NW, SE]
end Polarity

open Orient in
/-- `cellOrientationInRow` -/
def cellOrientationInRow (p : Polarity) (row : Orient) : Orient :=
  match p with
  | .ANY => UNKNOWN
  | .OPPOSITE => row.opposite
  | .SAME => row
  | .NW => if row == FN || row == N || row == FW || row == W then row else INVALID
  | .SE => if row == FS || row == S || row == FE || row == E then row else INVALID

/-- `struct Row : Rectangle` -/
structure Row where
  rect : Rect
  orient : Orient
deriving Repr, DecidableEq, Inhabited

end ColoVerif
