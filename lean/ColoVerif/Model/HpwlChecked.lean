import ColoVerif.Model.PinOffsetChecked
/-
Checked twin of `Circuit::hpwl()` (src/coloquinte.cpp): the same expression tree, one C++ operation
at a time, in `Except Fault`.

    long long ret = 0;
    for (net) {
      if (nbPinsNet(net) == 0) continue;
      int minX = INT_MAX, maxX = INT_MIN, minY = INT_MAX, maxY = INT_MIN;
      for (pin) {
        int px = x(cell) + pinXOffset(net, pin);      // int + int
        int py = y(cell) + pinYOffset(net, pin);
        minX = std::min(px, minX); …
      }
      ret += (maxX - minX);                            // int - int, then widened and added in 64 bits
      ret += (maxY - minY);
    }

The two extents are subtracted in `int` and added to the 64-bit total SEPARATELY: a net whose width and
height each fit an `int` never faults even when their sum does not (that an `int` sum of the two would
fault there is `Checked.netHpwlSum32C` below, the shape a "tidy-up" into `box.width() + box.height()`
produces; it is not the code, and `hpwl_sum32_can_fault` (Proofs/CheckedHpwl.lean) is the witness).
Core Lean only.
-/
namespace ColoVerif.Checked
open ColoVerif

/-- `x(cell) + pinXOffset(net, pin)` -/
def pinXC (c : Circuit) (p : Pin) : Except Fault Int :=
  andThen (pinXOffsetC (c.cell p.cell) p) fun o =>
    addI32 "hpwl: x(cell) + pinXOffset(net, pin)" (c.cell p.cell).x o

/-- `y(cell) + pinYOffset(net, pin)` -/
def pinYC (c : Circuit) (p : Pin) : Except Fault Int :=
  andThen (pinYOffsetC (c.cell p.cell) p) fun o =>
    addI32 "hpwl: y(cell) + pinYOffset(net, pin)" (c.cell p.cell).y o

/-- the pin loop: every coordinate, in pin order, or the first fault -/
def mapPinsC (f : Pin → Except Fault Int) : List Pin → Except Fault (List Int)
  | [] => .ok []
  | p :: ps => andThen (f p) fun v => andThen (mapPinsC f ps) fun vs => .ok (v :: vs)

/-- one iteration of the net loop on the running 64-bit total -/
def netHpwlC (c : Circuit) (acc : Int) (n : Net) : Except Fault Int :=
  match n.pins with
  | [] => .ok acc
  | ps =>
    andThen (mapPinsC (pinXC c) ps) fun xs =>
    andThen (mapPinsC (pinYC c) ps) fun ys =>
    andThen (subI32 "hpwl: maxX - minX" (Circuit.lmax 0 xs) (Circuit.lmin 0 xs)) fun dx =>
    andThen (addI64 "hpwl: ret += (maxX - minX)" acc dx) fun acc1 =>
    andThen (subI32 "hpwl: maxY - minY" (Circuit.lmax 0 ys) (Circuit.lmin 0 ys)) fun dy =>
    addI64 "hpwl: ret += (maxY - minY)" acc1 dy

def hpwlLoopC (c : Circuit) : Int → List Net → Except Fault Int
  | acc, [] => .ok acc
  | acc, n :: ns => andThen (netHpwlC c acc n) fun acc' => hpwlLoopC c acc' ns

/-- checked `Circuit::hpwl()` -/
def hpwlC (c : Circuit) : Except Fault Int := hpwlLoopC c 0 c.nets

/-- NOT the code: the extents of one net summed in `int` before widening
(`ret += box.width() + box.height()`); kept to state precisely why the code adds them separately -/
def netHpwlSum32C (c : Circuit) (acc : Int) (n : Net) : Except Fault Int :=
  match n.pins with
  | [] => .ok acc
  | ps =>
    andThen (mapPinsC (pinXC c) ps) fun xs =>
    andThen (mapPinsC (pinYC c) ps) fun ys =>
    andThen (subI32 "maxX - minX" (Circuit.lmax 0 xs) (Circuit.lmin 0 xs)) fun dx =>
    andThen (subI32 "maxY - minY" (Circuit.lmax 0 ys) (Circuit.lmin 0 ys)) fun dy =>
    andThen (addI32 "width() + height()" dx dy) fun s =>
    addI64 "ret += width() + height()" acc s

end ColoVerif.Checked
