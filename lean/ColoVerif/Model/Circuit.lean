import ColoVerif.Model.Geom
/-
The `Circuit` record and its pure accessors (src/coloquinte.{hpp,cpp}).
Cells, nets and rows are lists; cell indices are `Nat`.
-/
namespace ColoVerif

structure Cell where
  w : Int
  h : Int
  x : Int
  y : Int
  orient : Orient
  fixed : Bool
  obstruction : Bool
  pol : Polarity
deriving Repr, DecidableEq, Inhabited

structure Pin where
  cell : Nat
  xo : Int
  yo : Int
deriving Repr, DecidableEq, Inhabited

structure Net where
  /-- weight = wMant * 2^wExp (a binary32 value, kept exact) -/
  wMant : Int
  wExp : Int
  pins : List Pin
deriving Repr, DecidableEq, Inhabited

structure Circuit where
  cells : List Cell
  nets : List Net
  rows : List Row
deriving Repr, DecidableEq, Inhabited

namespace Cell
/-- `Circuit::placedWidth` -/
def placedWidth (c : Cell) : Int := if c.orient.isTurn then c.h else c.w
/-- `Circuit::placedHeight` -/
def placedHeight (c : Cell) : Int := if c.orient.isTurn then c.w else c.h
/-- `Circuit::placement` -/
def placement (c : Cell) : Rect := ⟨c.x, c.x + c.placedWidth, c.y, c.y + c.placedHeight⟩
end Cell

namespace Circuit
def cell (c : Circuit) (i : Nat) : Cell := c.cells.getD i default

def xFlipped : Orient → Bool
  | .S | .W | .FN | .FE => true
  | _ => false
def yFlipped : Orient → Bool
  | .S | .E | .FS | .FE => true
  | _ => false

/-- `Circuit::pinXOffset` for a pin on cell `cl` -/
def pinXOffset (cl : Cell) (p : Pin) : Int :=
  let offs := if cl.orient.isTurn then p.yo else p.xo
  if xFlipped cl.orient then cl.placedWidth - offs else offs

/-- `Circuit::pinYOffset` -/
def pinYOffset (cl : Cell) (p : Pin) : Int :=
  let offs := if cl.orient.isTurn then p.xo else p.yo
  if yFlipped cl.orient then cl.placedHeight - offs else offs

def pinX (c : Circuit) (p : Pin) : Int := (c.cell p.cell).x + pinXOffset (c.cell p.cell) p
def pinY (c : Circuit) (p : Pin) : Int := (c.cell p.cell).y + pinYOffset (c.cell p.cell) p

/-- minimum of a non-empty list, `d` for the empty one -/
def lmin (d : Int) : List Int → Int
  | [] => d
  | x :: xs => xs.foldl min x
def lmax (d : Int) : List Int → Int
  | [] => d
  | x :: xs => xs.foldl max x

/-- half-perimeter of one net (0 for an empty net) -/
def netHpwl (c : Circuit) (n : Net) : Int :=
  let xs := n.pins.map c.pinX
  let ys := n.pins.map c.pinY
  (lmax 0 xs - lmin 0 xs) + (lmax 0 ys - lmin 0 ys)

/-- `Circuit::hpwl` -/
def hpwl (c : Circuit) : Int := (c.nets.map c.netHpwl).sum

/-- `Circuit::computePlacementArea` -/
def placementArea (c : Circuit) : Rect :=
  match c.rows with
  | [] => ⟨0, 0, 0, 0⟩
  | rs => ⟨lmin 0 (rs.map (·.rect.minX)), lmax 0 (rs.map (·.rect.maxX)),
           lmin 0 (rs.map (·.rect.minY)), lmax 0 (rs.map (·.rect.maxY))⟩

/-- `Circuit::rowHeight` (`none` = throws) -/
def rowHeight (c : Circuit) : Option Int :=
  match c.rows with
  | [] => none
  | r :: rs => if rs.all (fun r' => r'.rect.height == r.rect.height) then some r.rect.height else none

end Circuit
end ColoVerif
