import ColoVerif.Model.Busy
/-
Size semantics of the public mutating API of `Circuit` (C10: "the circuit is internally consistent").

* The circuit is abstracted to `Sz`: the length of every member vector (by member name) and the last
  element of `netLimits_` (`nbPins()`); `SSt` adds the in-use flag.
* `tools/gen/ApiSizes.py` regenerates, from the same AST as `Gen/Api.lean`, the *sized* skeleton of every
  setter, of the constructor and of the expansion API: the statements of `Model/ApiIR.lean` where each
  `.assign member` carries what the write does to the length of the member (`Eff`): `member = arg`
  -> the length of the argument, `push_back` -> +1, `insert(end, arg…)` -> + the length of the argument,
  `clear`/`resize(e)` -> 0 / e, `member[i] = …` -> unchanged, a scalar -> no length.
  `SStmt.erase` forgets the effect: the erased tables are the tables of `Gen/Api.lean` / `Gen/ApiExpansion.lean`
  (theorem `C10.sized_tables_erase_to_api`).
* `execS` is `Busy.exec` on sizes: the `throwIf`/`returnIf` conditions are evaluated with `nbCells()`,
  `nbNets()` read from the size state itself (`envOf`), exceptions propagate, guards restore the flag.
* A stage of a placement call is an arbitrary trace `STr`: callbacks running any setters with any arguments
  and nested placement calls, to any depth, and *writes of the placer itself*, each of a kind (`WKind`)
  found by `tools/gen/WriteSets.py`: `element` (`member[i] = …`: the length cannot change) or `whole`.
* `SizesConsistent` is the invariant: every per-cell vector has `nbCells()` entries and the nets are a
  well-formed CSR shape.
Core Lean only.
-/
namespace ColoVerif.BusySizes
open ColoVerif.ApiIR ColoVerif.Busy

/-- A length (or, for `netLimits_`, a last element) after a write, in terms of the call's arguments and
the sizes before the write. -/
inductive LExpr where
  | lit (n : Int)
  | argSize (i : Nat)         -- `arg_i.size()`
  | argBack (i : Nat)         -- `arg_i.back()`
  | param (i : Nat)           -- a scalar `int` parameter
  | self                      -- the length of the written member before the write
  | member (m : String)       -- `m.size()` of another member, now
  | lastOld                   -- `netLimits_.back()` before the write
  | add (a b : LExpr)
  deriving Repr, DecidableEq

/-- What a write does to the length of the written member. -/
inductive Eff where
  | setLen (e : LExpr)              -- a vector: assigned / resized / cleared / appended to; the new length
  | setLenLast (e l : LExpr)        -- the same for `netLimits_`, with its new last element
  | elem                            -- elements are overwritten in place: the length is unchanged
  | scalar                          -- not a vector
  | anyLen                          -- a vector whose new length the sizes do not determine (`rows_` built in a loop)
  deriving Repr, DecidableEq

inductive SStmt where
  | ctl (s : Stmt)                  -- any statement of the IR that is not a write
  | write (m : String) (e : Eff)    -- `.assign m` with its effect on the length
  deriving Repr, DecidableEq

structure SFn where
  name : String
  params : List String
  body : List SStmt
  deriving Repr

def SStmt.erase : SStmt → Stmt
  | .ctl s => s
  | .write m _ => .assign m

/-- the view of a sized function that is compared with the tables of `Gen/Api.lean` -/
def SFn.erased (f : SFn) : String × List String × List Stmt := (f.name, f.params, f.body.map SStmt.erase)

def FnDef.view (f : FnDef) : String × List String × List Stmt := (f.name, f.params, f.body)

def lookupS (tbl : List SFn) (name : String) : Option SFn := tbl.find? (fun f => f.name == name)

/-- the name of the CSR limits vector, whose last element is tracked -/
def limits : String := "netLimits_"

/-- A written `netLimits_` comes with its new last element, and only `netLimits_` does; a `.ctl` never hides
a write. -/
def SStmt.wf : SStmt → Bool
  | .ctl (.assign _) => false
  | .ctl _ => true
  | .write m (.setLenLast _ _) => m == limits
  | .write m _ => m != limits

/-! ### states -/

structure Sz where
  len : String → Int          -- `member.size()`
  last : Int                  -- `netLimits_.back()`

def Sz.set (s : Sz) (m : String) (v : Int) : Sz := { s with len := fun k => if k = m then v else s.len k }

def Sz.nbCells (s : Sz) : Int := s.len "cellWidth_"
def Sz.nbNets (s : Sz) : Int := s.len "netLimits_" - 1
def Sz.nbPins (s : Sz) : Int := s.last

/-- the per-cell member vectors of `Circuit` other than `cellWidth_` (which defines `nbCells()`) -/
def perCellMembers : List String :=
  ["cellHeight_", "cellIsFixed_", "cellIsObstruction_", "cellRowPolarity_", "cellX_", "cellY_", "cellOrientation_"]

/-- the per-pin member vectors -/
def perPinMembers : List String := ["pinCells_", "pinXOffsets_", "pinYOffsets_"]

/-- every member vector whose length the invariant speaks about -/
def trackedMembers : List String := "cellWidth_" :: perCellMembers ++ ["netLimits_", "netWeights_"] ++ perPinMembers

/-- **The circuit's vectors are consistent**: every per-cell vector has `nbCells()` entries; `netLimits_` is
not empty, there is one weight per net, and the three per-pin vectors have `nbPins() = netLimits_.back()` entries. -/
structure SizesConsistent (s : Sz) : Prop where
  height : s.len "cellHeight_" = s.nbCells
  fixed : s.len "cellIsFixed_" = s.nbCells
  obstruction : s.len "cellIsObstruction_" = s.nbCells
  polarity : s.len "cellRowPolarity_" = s.nbCells
  x : s.len "cellX_" = s.nbCells
  y : s.len "cellY_" = s.nbCells
  orientation : s.len "cellOrientation_" = s.nbCells
  limits : 1 ≤ s.len "netLimits_"
  weights : s.len "netWeights_" = s.nbNets
  pinCells : s.len "pinCells_" = s.nbPins
  pinX : s.len "pinXOffsets_" = s.nbPins
  pinY : s.len "pinYOffsets_" = s.nbPins

/-- executable form of `SizesConsistent` -/
def Sz.consistent (s : Sz) : Bool :=
  perCellMembers.all (fun m => s.len m == s.nbCells) && decide (1 ≤ s.len "netLimits_") &&
  (s.len "netWeights_" == s.nbNets) && perPinMembers.all (fun m => s.len m == s.nbPins)

/-- a freshly default-constructed `Circuit` object, before the constructor body runs: every vector empty -/
def Sz.empty : Sz := ⟨fun _ => 0, 0⟩

structure SSt where
  inUse : Bool
  sz : Sz

structure SRes where
  out : Outcome
  st : SSt

/-! ### semantics -/

/-- `nbCells()` and `nbNets()` as the conditions of a call see them: read from the size state -/
def envOf (s : Sz) (args : List Arg) : Env := ⟨s.nbCells, s.nbNets, args⟩

/-- the `i`-th actual argument (`Env.arg` of `envOf s args`, which does not depend on `s`) -/
def argAt (args : List Arg) (i : Nat) : Arg := args.getD i ⟨0, [], 0⟩

def LExpr.eval (args : List Arg) (s : Sz) (m : String) : LExpr → Int
  | .lit n => n
  | .argSize i => (argAt args i).len
  | .argBack i => (argAt args i).vals.getLastD 0
  | .param i => (argAt args i).ival
  | .self => s.len m
  | .member k => s.len k
  | .lastOld => s.last
  | .add a b => LExpr.eval args s m a + LExpr.eval args s m b

/-- `free`: the length a vector gets when the sizes do not determine it (`anyLen`) -/
def applyEff (args : List Arg) (free : Int) (m : String) (s : Sz) : Eff → Sz
  | .setLen e => s.set m (e.eval args s m)
  | .setLenLast e l => { s.set m (e.eval args s m) with last := l.eval args s m }
  | .elem => s
  | .scalar => s
  | .anyLen => s.set m free

def SRes.andThen (r : SRes) (k : SSt → SRes) : SRes :=
  match r.out with
  | .normal => k r.st
  | _ => r

def SRes.restore (r : SRes) (b : Bool) : SRes := ⟨r.out, { r.st with inUse := b }⟩

/-- `Busy.exec` on sizes. -/
def execS (onCall : String → SSt → SRes) (args : List Arg) (free : Int) : List SStmt → SSt → SRes
  | [], st => ⟨.normal, st⟩
  | .write m e :: rest, st => execS onCall args free rest { st with sz := applyEff args free m st.sz e }
  | .ctl (.throwIf c) :: rest, st =>
    if Cond.eval (envOf st.sz args) 0 c then ⟨.thrown, st⟩ else execS onCall args free rest st
  | .ctl (.returnIf c) :: rest, st =>
    if Cond.eval (envOf st.sz args) 0 c then ⟨.returned, st⟩ else execS onCall args free rest st
  | .ctl .checkNotInUse :: rest, st => if st.inUse then ⟨.thrown, st⟩ else execS onCall args free rest st
  | .ctl (.assign _) :: _, st => ⟨.stuck, st⟩
  | .ctl (.setInUse b) :: rest, st => execS onCall args free rest { st with inUse := b }
  | .ctl (.call f) :: rest, st => (onCall f st).andThen (fun s => execS onCall args free rest s)
  | .ctl .scopeGuard :: rest, st => (execS onCall args free rest { st with inUse := true }).restore false
  | .ctl .restoreGuard :: rest, st => (execS onCall args free rest { st with inUse := true }).restore st.inUse
  | .ctl .ret :: _, st => ⟨.returned, st⟩
  | .ctl (.assertC c) :: rest, st =>
    if Cond.eval (envOf st.sz args) 0 c then execS onCall args free rest st else ⟨.aborted, st⟩
  | .ctl .paramsCheck :: rest, st => execS onCall args free rest st
  | .ctl (.pure _) :: rest, st => execS onCall args free rest st

def noCallS : String → SSt → SRes := fun _ st => ⟨.stuck, st⟩

/-- one call of a setter (or of the constructor, or of an expansion method): its name and its actual arguments -/
structure SCall where
  name : String
  args : List Arg
  free : Int := 0

def runFnS (tbl : List SFn) (sc : SCall) (st : SSt) : SRes :=
  match lookupS tbl sc.name with
  | some f => execS noCallS sc.args sc.free f.body st
  | none => ⟨.stuck, st⟩

/-- how the placer itself writes a member -/
inductive WKind where
  | element      -- `circuit.member[i] = …`
  | whole        -- `circuit.member = …`
  deriving Repr, DecidableEq

/-- What a stage does, as a trace (`Busy.Tr` plus the writes of the placer). -/
inductive STr where
  | done (throws : Bool)
  | setter (sc : SCall) (k : STr)
  | nested (name : String) (inner : STr) (k : STr)
  | cbEnd (throws : Bool) (k : STr)
  | write (m : String) (kind : WKind) (newLen : Int) (k : STr)   -- the placer writes member `m`

/-- after an action inside a callback: an exception is absorbed (caught, or `cbEnd true` follows) -/
def SRes.absorbThen (r : SRes) (k : SSt → SRes) : SRes :=
  match r.out with
  | .aborted => r
  | .stuck => r
  | _ => k r.st

/-- a placement call (body from `Gen.Api.placementCalls`) whose `call` statements behave as `stage` -/
def runCallS (pcs : List FnDef) (name : String) (stage : SSt → SRes) (st : SSt) : SRes :=
  match lookup pcs name with
  | some f => execS (fun _ s => stage s) [] 0 (f.body.map SStmt.ctl) st
  | none => ⟨.stuck, st⟩

/-- the effect on the sizes of a write by the placer: an element write cannot change a length -/
def applyW (s : Sz) (m : String) : WKind → Int → Sz
  | .element, _ => s
  | .whole, n => s.set m n

/-- A stage behaving as the trace `t`; `ws` = the (member, kind) pairs the placers may write. -/
def runSTr (tbl : List SFn) (pcs : List FnDef) (ws : List (String × WKind)) : STr → SSt → SRes
  | .done thr, st => ⟨if thr then .thrown else .normal, st⟩
  | .setter sc k, st => (runFnS tbl sc st).absorbThen (fun s => runSTr tbl pcs ws k s)
  | .nested name inner k, st =>
    (runCallS pcs name (fun s => runSTr tbl pcs ws inner s) st).absorbThen (fun s => runSTr tbl pcs ws k s)
  | .cbEnd thr k, st => if thr then ⟨.thrown, st⟩ else runSTr tbl pcs ws k st
  | .write m kind n k, st =>
    if ws.contains (m, kind) then runSTr tbl pcs ws k { st with sz := applyW st.sz m kind n } else ⟨.stuck, st⟩

/-- One call of the public API. -/
inductive ApiCall where
  | setter (sc : SCall)                       -- a `Circuit` setter
  | expansion (sc : SCall)                    -- `expandCellsToDensity` / `expandCellsByFactor`
  | placement (name : String) (stage : STr)   -- `placeGlobal` / `legalize` / `placeDetailed`, its stage doing `stage`

/-- the tables a history runs against -/
structure Tables where
  setters : List SFn
  expansion : List SFn
  placement : List FnDef
  placerWrites : List (String × WKind)

def runApi (T : Tables) : ApiCall → SSt → SRes
  | .setter sc, st => runFnS T.setters sc st
  | .expansion sc, st => runFnS T.expansion sc st
  | .placement name t, st => runCallS T.placement name (fun s => runSTr T.setters T.placement T.placerWrites t s) st

/-- A history: the calls one after the other, each on the circuit the previous one left — however it ended
(return, exception caught by the caller). -/
def runHistory (T : Tables) : List ApiCall → SSt → SSt
  | [], st => st
  | c :: rest, st => runHistory T rest (runApi T c st).st

/-- the constructor: its body on a default-constructed object -/
def runCtorS (ctors : List SFn) (sc : SCall) : SRes := runFnS ctors sc ⟨false, Sz.empty⟩

/-- a vector argument has a non-negative `size()` -/
def ArgsOk (args : List Arg) : Prop := ∀ a ∈ args, 0 ≤ a.len

def STr.argsOk : STr → Prop
  | .done _ => True
  | .setter sc k => ArgsOk sc.args ∧ k.argsOk
  | .nested _ inner k => inner.argsOk ∧ k.argsOk
  | .cbEnd _ k => k.argsOk
  | .write _ _ _ k => k.argsOk

def ApiCall.argsOk : ApiCall → Prop
  | .setter sc => ArgsOk sc.args
  | .expansion sc => ArgsOk sc.args
  | .placement _ t => t.argsOk

/-! ### the size clauses of `Circuit::check()` -/

/-- The clauses of `Circuit::check()` that compare sizes, in source order, as (holds-when-violated, text):
`check()` throws iff one of them is true.  (The remaining clause, `netLimits_.front() != 0`, is about a value.) -/
def checkSizeClauses (s : Sz) : List (Bool × String) := [
  (s.len "cellWidth_" != s.nbCells, "cellWidth_.size() != nbCells()"),
  (s.len "cellHeight_" != s.nbCells, "cellHeight_.size() != nbCells()"),
  (s.len "cellIsFixed_" != s.nbCells, "cellIsFixed_.size() != nbCells()"),
  (s.len "cellIsObstruction_" != s.nbCells, "cellIsObstruction_.size() != nbCells()"),
  (s.len "cellX_" != s.nbCells, "cellX_.size() != nbCells()"),
  (s.len "cellY_" != s.nbCells, "cellY_.size() != nbCells()"),
  (s.len "cellOrientation_" != s.nbCells, "cellOrientation_.size() != nbCells()"),
  (s.len "netLimits_" == 0, "netLimits_.empty()"),
  (s.len "netWeights_" != s.nbNets, "netWeights_.size() != nbNets()"),
  (s.len "pinCells_" != s.nbPins, "pinCells_.size() != nbPins()"),
  (s.len "pinXOffsets_" != s.nbPins, "pinXOffsets_.size() != nbPins()"),
  (s.len "pinYOffsets_" != s.nbPins, "pinYOffsets_.size() != nbPins()")]

/-- One clause of `Circuit::check()` as `tools/gen/ApiSizes.py` reads it: `check()` throws iff one holds. -/
inductive CheckClause where
  | sizeNe (m g : String)            -- `(int)m.size() != g()`, g one of nbCells/nbNets/nbPins
  | isEmpty (m : String)             -- `m.empty()`
  | frontNe (m : String) (n : Int)   -- `m.front() != n`: about a value, not a size
  deriving Repr, DecidableEq

/-- the value of an inline size getter (`Gen.ApiSizes.getters`) on the sizes -/
def getterVal (getters : List (String × LExpr)) (s : Sz) (g : String) : Int :=
  match getters.find? (fun p => p.1 == g) with
  | some p => p.2.eval [] s ""
  | none => 0

/-- whether a size clause holds (`none`: the clause is about a value) -/
def CheckClause.fires (getters : List (String × LExpr)) (s : Sz) : CheckClause → Option Bool
  | .sizeNe m g => some (s.len m != getterVal getters s g)
  | .isEmpty m => some (s.len m == 0)
  | .frontNe _ _ => none

/-! ### line protocol (driver) -/

/-- the members whose lengths the harness reports, in this order, followed by `netLimits_.back()` -/
def reported : List String := trackedMembers ++ ["rows_"]

def Sz.ofList (xs : List Int) : Sz :=
  ⟨fun k => (((reported.zip xs).find? (fun p => p.1 == k)).map (·.2)).getD 0, xs.getD reported.length 0⟩

def Sz.toList (s : Sz) : List Int := reported.map s.len ++ [s.last]

end ColoVerif.BusySizes
