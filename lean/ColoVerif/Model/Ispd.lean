import ColoVerif.Model.Circuit
/-
ISPD / Bookshelf export and re-import at *record level* (C20).

* `write`  models `Circuit::exportIspd` (src/export.cpp: exportIspdNodes / Place / Nets / Rows).
* `read`   models `Circuit.read_ispd` of pycoloquinte/coloquinte.py
           (`_read_nodes`, `_read_nets`, `_read_place`, `_read_rows`, then the calls made on the
           bound C++ `Circuit`: setters, `add_net`, `row_height`, polarity loop, `check`).

A *record* is what one logical line of a file carries once it has been split into tokens.  The text
itself — what `operator<<` prints, and the reader's `strip()`/`split()`/`replace(":", " ")`/`int()`/
`float()` — is modelled in Model/IspdText.lean, which refines this file (`C20.text_refines_records_partial`).
Pin offsets in `.nets` are exact rationals: the C++ writes `offset - 0.5 * size` as a `double` with the
default stream precision of 6 significant digits (`fmt6` is the value of the text `Text.fmtG6`), the reader
parses it with `float()` (exact on the values at hand).

Core Lean only.
-/
namespace ColoVerif.Ispd

/-- The Python exception classes that `read_ispd` can end with. -/
inductive Err
  | assertion      -- `assert …`                       (AssertionError)
  | runtime        -- `raise RuntimeError`, or a C++ `std::runtime_error` through the binding
  | typeError      -- a `None` orientation reaching the bound setter (TypeError)
  | zeroDivision   -- `cell_heights[i] % row_height` with a zero row height
  | valueError     -- `int("x")`, `float("x")`, `a, b, c, d = vals[:4]` with three tokens (text level only)
  | indexError     -- `nets[-1]` before any `NetDegree` line (text level only)
  | fileNotFound   -- `open(aux)` on a missing file (FileNotFoundError; file level only)
  | compressed     -- a `.gz`/`.xz`/`.lzma` name reached `_open_file`: outside the model
deriving Repr, DecidableEq, Inhabited

def Err.name : Err → String
  | .assertion => "AssertionError"
  | .runtime => "RuntimeError"
  | .typeError => "TypeError"
  | .zeroDivision => "ZeroDivisionError"
  | .valueError => "ValueError"
  | .indexError => "IndexError"
  | .fileNotFound => "FileNotFoundError"
  | .compressed => "unmodelled-compressed-file"

/-! ## Records -/

/-- `.nodes`:  `<name> <w> <h> [terminal]` -/
structure NodeRec where
  name : String
  w : Int
  h : Int
  terminal : Bool
deriving Repr, DecidableEq, Inhabited

/-- `.pl`:  `<name> <x> <y> : <orientation> [/FIXED]` -/
structure PlRec where
  name : String
  x : Int
  y : Int
  orient : String
  /-- a fifth token (`/FIXED`); the C++ never writes it, the reader ignores it (`vals[:4]`) -/
  fixedMarker : Bool
deriving Repr, DecidableEq, Inhabited

/-- `.nets` pin line:  `<cell> I : <dx> <dy>`, offsets relative to the centre of the unrotated cell -/
structure PinRec where
  cell : String
  dx : Rat
  dy : Rat
deriving Repr, DecidableEq, Inhabited

/-- `.nets`:  `NetDegree : <degree> <name>` followed by the pin lines -/
structure NetRec where
  degree : Int
  name : String
  pins : List PinRec
deriving Repr, DecidableEq, Inhabited

/-- `.scl`: one `CoreRow … End` block -/
structure RowRec where
  coordinate : Int
  height : Int
  sitewidth : Int
  origin : Int
  numsites : Int
  siteorient : String
deriving Repr, DecidableEq, Inhabited

structure Files where
  numNodes : Option Int
  numTerminals : Option Int
  nodes : List NodeRec
  pl : List PlRec
  numNets : Option Int
  numPins : Option Int
  nets : List NetRec
  numRows : Option Int
  rows : List RowRec
deriving Repr, DecidableEq, Inhabited

/-! ## Writer (`Circuit::exportIspd`) -/

def cellName (i : Nat) : String := "o" ++ toString i
def netName (i : Nat) : String := "n" ++ toString i

/-- `toString(CellOrientation)` of src/parameters.cpp -/
def orientToString : Orient → String
  | .N => "N" | .S => "S" | .E => "E" | .W => "W" | .FN => "FN" | .FS => "FS" | .FE => "FE" | .FW => "FW"
  | .INVALID => "INVALID" | .UNKNOWN => "UnknownCellOrientation"

/-- Result of `f << v` (default `precision(6)`, `%g`) read back exactly, for the half-integer
`v = k/2`: six significant digits, ties to even (glibc rounds the exact decimal expansion). -/
def fmt6 (k : Int) : Rat :=
  if k.natAbs < 200000 then (k : Rat) / 2
  else
    let a := k.natAbs
    let d := (Nat.toDigits 10 (a / 2)).length
    let u := 2 * 10 ^ (d - 6)
    let q := a / u
    let r := a % u
    let q' := if 2 * r < u then q else if 2 * r > u then q + 1 else if q % 2 = 0 then q else q + 1
    (((if k < 0 then -1 else 1) * ((q' * u : Nat) : Int) : Int) : Rat) / 2

def writeNodesFrom : Nat → List Cell → List NodeRec
  | _, [] => []
  | k, cl :: cs => ⟨cellName k, cl.w, cl.h, cl.fixed⟩ :: writeNodesFrom (k + 1) cs

def writePlFrom : Nat → List Cell → List PlRec
  | _, [] => []
  | k, cl :: cs => ⟨cellName k, cl.x, cl.y, orientToString cl.orient, false⟩ :: writePlFrom (k + 1) cs

/-- `x = pinXOffsets_[p] - 0.5 * cellWidth_[c]` (after the F17 fix: the stored, unoriented offsets) -/
def writePin (c : Circuit) (p : Pin) : PinRec :=
  ⟨cellName p.cell, fmt6 (2 * p.xo - (c.cell p.cell).w), fmt6 (2 * p.yo - (c.cell p.cell).h)⟩

def writeNetsFrom (c : Circuit) : Nat → List Net → List NetRec
  | _, [] => []
  | k, n :: ns => ⟨n.pins.length, netName k, n.pins.map (writePin c)⟩ :: writeNetsFrom c (k + 1) ns

/-- after the F16 fix: `Siteorient : toString(orientation)` -/
def writeRow (r : Row) : RowRec :=
  ⟨r.rect.minY, r.rect.height, 1, r.rect.minX, r.rect.width, orientToString r.orient⟩

def totalPins : List Net → Nat
  | [] => 0
  | n :: ns => n.pins.length + totalPins ns

def write (c : Circuit) : Files where
  numNodes := some c.cells.length
  numTerminals := some (c.cells.countP (·.fixed))
  nodes := writeNodesFrom 0 c.cells
  pl := writePlFrom 0 c.cells
  numNets := some c.nets.length
  numPins := some (totalPins c.nets)
  nets := writeNetsFrom c 0 c.nets
  numRows := some c.rows.length
  rows := c.rows.map writeRow

/-! ## Reader (`coloquinte.py`) -/

/-- `name_dir = dict((name, i) for i, name in enumerate(cell_names))`: the last index wins -/
def lookup (s : String) : List String → Option Nat
  | [] => none
  | n :: ns =>
    match lookup s ns with
    | some j => some (j + 1)
    | none => if n = s then some 0 else none

/-- `if nb is not None: assert n == nb` -/
def checkCount (hdr : Option Int) (n : Nat) : Except Err Unit :=
  match hdr with
  | none => pure ()
  | some k => if k = (n : Int) then pure () else throw .assertion

/-- what `_read_nodes` returns (cells with fewer than three tokens are not representable here) -/
structure Nodes where
  names : List String
  widths : List Int
  heights : List Int
  fixed : List Bool
  obstruction : List Bool
deriving Repr, DecidableEq

def readNodes (f : Files) : Except Err Nodes := do
  checkCount f.numNodes f.nodes.length
  checkCount f.numTerminals (f.nodes.countP (·.terminal))
  pure ⟨f.nodes.map (·.name), f.nodes.map (·.w), f.nodes.map (·.h), f.nodes.map (·.terminal),
        f.nodes.map (fun _ => true)⟩

/-- Python 3 `round()` on an exactly represented value: nearest integer, ties to even -/
def roundHalfEven (q : Rat) : Int :=
  if q - (q.floor : Rat) < 1 / 2 then q.floor
  else if q - (q.floor : Rat) > 1 / 2 then q.floor + 1
  else if q.floor % 2 = 0 then q.floor else q.floor + 1

/-- first pass of `_read_nets` over the pins of one net: `assert cell in name_dir` -/
def resolvePins (names : List String) : List PinRec → Except Err (List (Nat × Rat × Rat))
  | [] => pure []
  | p :: ps =>
    match lookup p.cell names with
    | none => throw .assertion
    | some i => do
      let rest ← resolvePins names ps
      pure ((i, p.dx, p.dy) :: rest)

def resolveNets (names : List String) : List NetRec → Except Err (List (Int × List (Nat × Rat × Rat)))
  | [] => pure []
  | n :: ns => do
    let ps ← resolvePins names n.pins
    let rest ← resolveNets names ns
    pure ((n.degree, ps) :: rest)

/-- `if net_degree != len(pins): raise RuntimeError`; returns `total_pins` -/
def checkDegrees : List (Int × List (Nat × Rat × Rat)) → Except Err Int
  | [] => pure 0
  | (d, ps) :: rest =>
    if d ≠ (ps.length : Int) then throw .runtime
    else do
      let t ← checkDegrees rest
      pure (d + t)

/-- `int(round(cell_x_offset[cell] + x))` with `cell_x_offset = 0.5 * width` -/
def mkPin (nd : Nodes) (p : Nat × Rat × Rat) : Pin :=
  ⟨p.1, roundHalfEven (((nd.widths.getD p.1 0 : Int) : Rat) / 2 + p.2.1),
        roundHalfEven (((nd.heights.getD p.1 0 : Int) : Rat) / 2 + p.2.2)⟩

/-- `_read_nets` (one entry per net: its pins) -/
def readNets (f : Files) (nd : Nodes) : Except Err (List (List Pin)) := do
  let raw ← resolveNets nd.names f.nets
  let total ← checkDegrees raw
  checkCount f.numNets raw.length
  match f.numPins with
  | none => pure ()
  | some k => if total = k then pure () else throw .assertion
  pure (raw.map fun n => n.2.map (mkPin nd))

/-- `CellOrientation.__members__` as bound in module.cpp: the eight proper orientations -/
def orientOfName (s : String) : Option Orient :=
  Orient.eight.find? (fun o => orientToString o = s)

structure Place where
  xs : List Int
  ys : List Int
  os : List (Option Orient)
deriving Repr, DecidableEq

def readPlaceStep (names : List String) (st : Place) (r : PlRec) : Except Err Place :=
  match lookup r.name names with
  | none => throw .assertion
  | some i =>
    match orientOfName r.orient with
    | none => throw .runtime
    | some o => pure ⟨st.xs.set i r.x, st.ys.set i r.y, st.os.set i (some o)⟩

def readPlaceLoop (names : List String) : Place → List PlRec → Except Err Place
  | st, [] => pure st
  | st, r :: rs => do
    let st' ← readPlaceStep names st r
    readPlaceLoop names st' rs

/-- `_read_place` -/
def readPlace (f : Files) (names : List String) : Except Err Place :=
  readPlaceLoop names ⟨List.replicate names.length 0, List.replicate names.length 0,
                       List.replicate names.length none⟩ f.pl

/-- one block of `_read_rows`: `width *= site_width`, `Row(Rectangle(min_x, min_x + width, min_y,
min_y + height), orient)`; an unrecognised `Siteorient` token leaves the default `N` -/
def readRow (r : RowRec) : Row :=
  ⟨⟨r.origin, r.origin + r.numsites * r.sitewidth, r.coordinate, r.coordinate + r.height⟩,
   (orientOfName r.siteorient).getD .N⟩

/-- `ret.cell_orientation = cell_orient`: a cell without a `.pl` line still holds `None` -/
def allSome : List (Option Orient) → Except Err (List Orient)
  | [] => pure []
  | none :: _ => throw .typeError
  | some o :: rest => do
    let r ← allSome rest
    pure (o :: r)

/-- `Circuit::rowHeight` through the binding: throws `std::runtime_error` → `RuntimeError` -/
def rowHeightOf (rows : List Row) : Except Err Int :=
  match rows with
  | [] => throw .runtime
  | r :: rs => if rs.all (fun r' => r'.rect.height == r.rect.height) then pure r.rect.height else throw .runtime

/-- the polarity loop at the end of `read_ispd` (`%` is Python's floored modulo) -/
def polarityOf (rowHeight : Int) (h : Int) : Polarity :=
  if h > 4 * rowHeight then .ANY
  else if Int.fmod h rowHeight ≠ 0 then .NW
  else .SAME

def mkCells (rh : Int) : List Int → List Int → List Bool → List Bool → List Int → List Int → List Orient → List Cell
  | w :: ws, h :: hs, f :: fs, ob :: obs, x :: xs, y :: ys, o :: os =>
    ⟨w, h, x, y, o, f, ob, polarityOf rh h⟩ :: mkCells rh ws hs fs obs xs ys os
  | _, _, _, _, _, _, _ => []

/-- `add_net(cells, pins_x, pins_y)` with the default weight 1.0; `Circuit::addNet` drops empty nets -/
def addNets (nets : List (List Pin)) : List Net :=
  (nets.filter (fun ps => !ps.isEmpty)).map fun ps => ⟨1, 0, ps⟩

/-- the tail of `read_ispd` once the four files have been read: the calls on the bound `Circuit`
(shared by the record-level and the text-level reader) -/
def assemble (nd : Nodes) (nets : List (List Pin)) (pl : Place) (rows : List Row) : Except Err Circuit := do
  let os ← allSome pl.os
  let rh ← rowHeightOf rows
  if rh = 0 ∧ nd.heights.any (fun h => !decide (h > 4 * rh)) then throw .zeroDivision
  pure ⟨mkCells rh nd.widths nd.heights nd.fixed nd.obstruction pl.xs pl.ys os, addNets nets, rows⟩

/-- `Circuit.read_ispd` -/
def read (f : Files) : Except Err Circuit := do
  let nd ← readNodes f
  let nets ← readNets f nd
  let pl ← readPlace f nd.names
  assemble nd nets pl (f.rows.map readRow)

/-! ## The format's domain and what a round trip is expected to give -/

/-- one of the eight orientations that `CellOrientation.__members__` knows -/
def isProper : Orient → Bool
  | .INVALID | .UNKNOWN => false
  | _ => true

/-- the pin's cell exists, and `offset - size/2` has at most six significant digits (guaranteed
when sizes and offsets are below 10^5 in magnitude: `|2·offset − size| < 2·10^5`) -/
def pinOk (c : Circuit) (p : Pin) : Bool :=
  decide (p.cell < c.cells.length) &&
  decide ((2 * p.xo - (c.cell p.cell).w).natAbs < 200000) &&
  decide ((2 * p.yo - (c.cell p.cell).h).natAbs < 200000)

/-- Circuits that the text format can carry: proper orientations for cells and rows, no empty net,
pins on existing cells with offsets printable in six digits, at least one row, uniform non-zero
row height. -/
def inDomain (c : Circuit) : Bool :=
  c.cells.all (fun cl => isProper cl.orient) &&
  c.rows.all (fun r => isProper r.orient) &&
  c.nets.all (fun n => !n.pins.isEmpty && n.pins.all (pinOk c)) &&
  (match c.rowHeight with
   | some rh => rh != 0
   | none => false)

/-- what `read_ispd` makes of the data the format does not carry: every cell is an obstruction,
polarity is derived from the height, every net has weight 1 -/
def expected (c : Circuit) (rh : Int) : Circuit :=
  ⟨c.cells.map (fun cl => ⟨cl.w, cl.h, cl.x, cl.y, cl.orient, cl.fixed, true, polarityOf rh cl.h⟩),
   c.nets.map (fun n => ⟨1, 0, n.pins⟩), c.rows⟩

/-- `c'` carries the same data as `c` in every field the property names. -/
structure Agree (c c' : Circuit) : Prop where
  widths : c'.cells.map (·.w) = c.cells.map (·.w)
  heights : c'.cells.map (·.h) = c.cells.map (·.h)
  fixedFlags : c'.cells.map (·.fixed) = c.cells.map (·.fixed)
  xs : c'.cells.map (·.x) = c.cells.map (·.x)
  ys : c'.cells.map (·.y) = c.cells.map (·.y)
  orientations : c'.cells.map (·.orient) = c.cells.map (·.orient)
  /-- net connectivity: same nets, same pin cells, in the same order -/
  connectivity : c'.nets.map (fun n => n.pins.map (·.cell)) = c.nets.map (fun n => n.pins.map (·.cell))
  /-- pin offsets (of the unrotated cell) -/
  pinOffsets : c'.nets.map (fun n => n.pins.map (fun p => (p.xo, p.yo))) = c.nets.map (fun n => n.pins.map (fun p => (p.xo, p.yo)))
  /-- row rectangles and row orientations -/
  rows : c'.rows = c.rows

end ColoVerif.Ispd
