import ColoVerif.Model.RowLeg
/-
Statement vocabulary for C12 (core Lean only): operation sequences on the
`RowLegalizer` model, the class of competing placements and the displacement
cost.  Nothing here is executed by the driver; everything is defined on top of
the definitions the driver executes (`push`, `getCost`, `placement`).
-/
namespace ColoVerif.RowLeg

/-- One call made by a client of `RowLegalizer`. -/
inductive Op where
  | push (w t : Int)
  | cost (w t : Int)
deriving Repr, DecidableEq

/-- State after the call. -/
def step (s : State) : Op → State
  | .push w t => (push s w t).2
  | .cost w t => (getCost s w t).2

/-- State after a sequence of calls. -/
def run (s : State) : List Op → State
  | [] => s
  | o :: os => run (step s o) os

/-- The callers' guarantee: every pushed cell has positive width and fits in the
remaining space (`remainingSpace() >= width`).  Cost queries are unconstrained. -/
def Fits (s : State) : List Op → Prop
  | [] => True
  | .push w t :: os => 0 < w ∧ w ≤ s.remaining ∧ Fits (step s (.push w t)) os
  | .cost w t :: os => Fits (step s (.cost w t)) os

/-- `(width, target)` of the pushed cells, in push order. -/
def cells : List Op → List (Int × Int)
  | [] => []
  | .push w t :: os => (w, t) :: cells os
  | .cost _ _ :: os => cells os

/-- Sum of the values returned by the `push` calls of the sequence. -/
def pushCostSum (s : State) : List Op → Int
  | [] => 0
  | .push w t :: os => (push s w t).1 + pushCostSum (step s (.push w t)) os
  | .cost w t :: os => pushCostSum (step s (.cost w t)) os

/-- `Legal e lo ws xs`: the cells of widths `ws` placed at `xs` (same order) are
inside `[lo, e]`, ordered and non-overlapping: `lo ≤ x₀`, `xᵢ + wᵢ ≤ xᵢ₊₁`,
`x_last + w_last ≤ e`. -/
def Legal (e : Int) : Int → List Int → List Int → Prop
  | lo, [], [] => lo ≤ e
  | lo, w :: ws, x :: xs => lo ≤ x ∧ Legal e (x + w) ws xs
  | _, _, _ => False

/-- `Σ wᵢ·|xᵢ − tᵢ|` for cells `(wᵢ, tᵢ)` placed at `xᵢ`. -/
def dispCost : List (Int × Int) → List Int → Int
  | (w, t) :: cs, x :: xs => w * ((x - t).natAbs : Int) + dispCost cs xs
  | _, _ => 0

instance Fits.dec : (s : State) → (ops : List Op) → Decidable (Fits s ops)
  | _, [] => isTrue trivial
  | s, .push w t :: os =>
    have := Fits.dec (step s (.push w t)) os
    inferInstanceAs (Decidable (0 < w ∧ w ≤ s.remaining ∧ Fits (step s (.push w t)) os))
  | s, .cost w t :: os => Fits.dec (step s (.cost w t)) os

instance Legal.dec (e : Int) : (lo : Int) → (ws xs : List Int) → Decidable (Legal e lo ws xs)
  | lo, [], [] => inferInstanceAs (Decidable (lo ≤ e))
  | lo, w :: ws, x :: xs =>
    have := Legal.dec e (x + w) ws xs
    inferInstanceAs (Decidable (lo ≤ x ∧ Legal e (x + w) ws xs))
  | _, [], _ :: _ => isFalse (by simp [Legal])
  | _, _ :: _, [] => isFalse (by simp [Legal])

end ColoVerif.RowLeg
