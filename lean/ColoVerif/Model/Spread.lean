import ColoVerif.Model.Geom
/-
C06 — model of the pieces of global placement that decide where an upper-bound
placement ends up and what is exported (core Lean only; `Rat` instead of `float`).

  src/place_global/density_grid.cpp   spreadCells (file-local), HierarchicalDensityPlacement::
                                      spreadCoordX/Y, simpleCoordX/Y, DensityGrid::fromIspdCircuit,
                                      computePlacementArea, updateBinsToSize
  src/utils/helpers.hpp               computeSubdivisions
  src/place_global/place_global.cpp   blendPlacement (file-local), GlobalPlacer::exportPlacement

Every arithmetic expression is the C++ one, evaluated in `Rat` instead of single precision
(that difference is the *partial* clause of C06; the correspondence harness measures it).
`std::sort` on `pair<float,int>` is modelled by `List.mergeSort` with the lexicographic order:
the keys are pairwise distinct (the second component is the index), so every correct sort
returns the same list.
-/
namespace ColoVerif.Spread

/-! ### spreadCells -/

/-- `std::accumulate(demands.begin(), demands.end(), 0.0f)` -/
def sumRat (l : List Rat) : Rat := l.foldl (· + ·) 0

/-- `order.emplace_back(targets[i], i)` for `i = k, k+1, …` -/
def indexed : List Rat → Nat → List (Rat × Nat)
  | [], _ => []
  | t :: ts, k => (t, k) :: indexed ts (k + 1)

/-- `operator<` / `≤` of `std::pair<float,int>` as a Boolean "not after" relation -/
def pairLe (a b : Rat × Nat) : Bool :=
  decide (a.1 < b.1) || (decide (a.1 = b.1) && decide (a.2 ≤ b.2))

/-- `order` after `std::sort` -/
def sortedOrder (targets : List Rat) : List (Rat × Nat) :=
  (indexed targets 0).mergeSort pairLe

/-- `0.5f * curDemand * invTotalDemand` -/
def halfShare (demands : List Rat) (inv : Rat) (c : Nat) : Rat :=
  (1 / 2) * demands.getD c 0 * inv

/-- the coordinate written for cell `c` when the running share is `dem` (already advanced by
one half share): `dem * maxCoord + (1.0f - dem) * minCoord` -/
def coordAt (dem lo hi : Rat) : Rat := dem * hi + (1 - dem) * lo

/-- One iteration of the loop over `order`; the state is `(dem, coords)`. -/
def spreadStep (demands : List Rat) (inv lo hi : Rat) (st : Rat × List Rat) (e : Rat × Nat) :
    Rat × List Rat :=
  if demands.getD e.2 0 ≤ 0 then st
  else
    (st.1 + halfShare demands inv e.2 + halfShare demands inv e.2,
     st.2.set e.2 (coordAt (st.1 + halfShare demands inv e.2) lo hi))

/-- the loop of `spreadCells` over an arbitrary order list -/
def spreadLoop (demands : List Rat) (inv lo hi : Rat) (order : List (Rat × Nat))
    (st : Rat × List Rat) : Rat × List Rat :=
  order.foldl (spreadStep demands inv lo hi) st

/-- `spreadCells(targets, demands, minCoord, maxCoord)`.  (`1 / 0 = 0` in `Rat` where the C++
gets `inf`; the value is only used for a cell of positive demand, and then — demands being
non-negative — the sum is positive.) -/
def spreadCells (targets demands : List Rat) (lo hi : Rat) : List Rat :=
  (spreadLoop demands (1 / sumRat demands) lo hi (sortedOrder targets)
    (0, List.replicate targets.length 0)).2

/-! ### spreadCoordX/Y, simpleCoordX/Y -/

/-- what one `(i, j)` iteration of `spreadCoordX/Y` sees: the bin's interval on the axis and the
cells allocated to the bin, in `binCells(i, j)` order -/
structure Bin where
  lo : Int
  hi : Int
  cells : List Nat
deriving Repr, Inhabited

/-- `ret[binCells(i, j)[k]] = coords[k]` for all `k` -/
def scatter : List Rat → List Nat → List Rat → List Rat
  | ret, c :: cs, v :: vs => scatter (ret.set c v) cs vs
  | ret, _, _ => ret

/-- the per-bin coordinates computed inside the `(i, j)` iteration -/
def binCoords (target : List Rat) (demand : List Int) (b : Bin) : List Rat :=
  spreadCells (b.cells.map fun c => target.getD c 0) (b.cells.map fun c => (demand.getD c 0 : Rat))
    b.lo b.hi

/-- body of the double loop of `spreadCoordX/Y` -/
def binStep (target : List Rat) (demand : List Int) (ret : List Rat) (b : Bin) : List Rat :=
  scatter ret b.cells (binCoords target demand b)

/-- `std::min(std::max(t, areaMin), areaMax)` -/
def clampTo (areaMin areaMax : Int) (t : Rat) : Rat :=
  if (areaMax : Rat) < (if t < (areaMin : Rat) then (areaMin : Rat) else t) then (areaMax : Rat)
  else (if t < (areaMin : Rat) then (areaMin : Rat) else t)

/-- the start value of `ret` in `spreadCoordX/Y`: every cell's target clamped to the placement
area (cells that are in no bin keep it) -/
def initCoords (nbCells : Nat) (areaMin areaMax : Int) (target : List Rat) : List Rat :=
  (List.range nbCells).map fun c => clampTo areaMin areaMax (target.getD c 0)

/-- `spreadCoordX/Y(target)` given the bins in loop order and the extent of `placementArea()`
on the axis -/
def spreadCoord (nbCells : Nat) (areaMin areaMax : Int) (bins : List Bin) (target : List Rat)
    (demand : List Int) : List Rat :=
  bins.foldl (binStep target demand) (initCoords nbCells areaMin areaMax target)

/-- body of the loops of `simpleCoordX/Y`: `0.5 * (binLimit(i+1) + binLimit(i))` -/
def simpleStep (ret : List Rat) (b : Bin) : List Rat :=
  b.cells.foldl (fun r c => r.set c ((1 / 2) * ((b.hi : Rat) + (b.lo : Rat)))) ret

def simpleCoord (nbCells : Nat) (bins : List Bin) : List Rat :=
  bins.foldl simpleStep (List.replicate nbCells 0)

/-- The current view of a `HierarchicalDensityPlacement`: bin limits on both axes and
`binCells_[i][j]`. -/
structure View where
  limX : List Int
  limY : List Int
  cells : List (List (List Nat))
deriving Repr, Inhabited

def View.nbBinsX (v : View) : Nat := v.limX.length - 1
def View.nbBinsY (v : View) : Nat := v.limY.length - 1
def View.binCells (v : View) (i j : Nat) : List Nat := (v.cells.getD i []).getD j []

/-- the `(i, j)` iterations of `spreadCoordX`, in loop order -/
def View.binsX (v : View) : List Bin :=
  (List.range v.nbBinsX).flatMap fun i => (List.range v.nbBinsY).map fun j =>
    ⟨v.limX.getD i 0, v.limX.getD (i + 1) 0, v.binCells i j⟩

/-- the `(i, j)` iterations of `spreadCoordY`, in loop order -/
def View.binsY (v : View) : List Bin :=
  (List.range v.nbBinsX).flatMap fun i => (List.range v.nbBinsY).map fun j =>
    ⟨v.limY.getD j 0, v.limY.getD (j + 1) 0, v.binCells i j⟩

/-- `placementArea()` seen through the view: the first and the last limit of an axis (every
view keeps the two outer limits of the grid) -/
def firstLim (l : List Int) : Int := l.head?.getD 0
def lastLim (l : List Int) : Int := l.getLast?.getD 0

def spreadCoordX (v : View) (nbCells : Nat) (target : List Rat) (demand : List Int) : List Rat :=
  spreadCoord nbCells (firstLim v.limX) (lastLim v.limX) v.binsX target demand
def spreadCoordY (v : View) (nbCells : Nat) (target : List Rat) (demand : List Int) : List Rat :=
  spreadCoord nbCells (firstLim v.limY) (lastLim v.limY) v.binsY target demand
def simpleCoordX (v : View) (nbCells : Nat) : List Rat := simpleCoord nbCells v.binsX
def simpleCoordY (v : View) (nbCells : Nat) : List Rat := simpleCoord nbCells v.binsY

/-! ### the grid: bins from the clipped rows -/

def intMax : Int := 2147483647
def intMin : Int := -2147483648

/-- C++ conversion of a non-integral value to `int`: truncation toward zero -/
def truncRat (q : Rat) : Int := Int.tdiv q.num q.den

/-- `minCellHeight` loop of `DensityGrid::fromIspdCircuit` -/
def minCellHeight (heights : List Int) : Int :=
  heights.foldl (fun m h => if h > 0 then min h m else m) intMax

/-- the row loop of `fromIspdCircuit`: rows not wider than twice the margin are dropped, the
others lose `margin` on each side -/
def clipRow (margin : Int) (r : Rect) : Option Rect :=
  if r.width ≤ 2 * margin then none else some ⟨r.minX + margin, r.maxX - margin, r.minY, r.maxY⟩

def clipRows (margin : Int) (rows : List Rect) : List Rect := rows.filterMap (clipRow margin)

def areaStep (a r : Rect) : Rect :=
  ⟨min r.minX a.minX, max r.maxX a.maxX, min r.minY a.minY, max r.maxY a.maxY⟩

/-- `DensityGrid::computePlacementArea` (also `Circuit::computePlacementArea` on the rows) -/
def computePlacementArea (regions : List Rect) : Rect :=
  if regions.isEmpty then ⟨0, 0, 0, 0⟩
  else regions.foldl areaStep ⟨intMax, intMin, intMax, intMin⟩

/-- `computeSubdivisions(min, max, number)` -/
def computeSubdivisions (mn mx : Int) (number : Nat) : List Int :=
  (List.range (number + 1)).map fun (i : Nat) => mn + Int.tdiv ((i : Int) * (mx - mn)) (number : Int)

/-- number of bins chosen by `updateBinsToSize` on one axis -/
def nbBinsFor (extent maxSize : Int) : Nat := (max 1 (Int.tdiv extent maxSize)).toNat

/-- the grid built by `DensityGrid(int binSize, regions)`: placement area and bin limits -/
structure Grid where
  area : Rect
  limX : List Int
  limY : List Int
deriving Repr, Inhabited

def mkGrid (binSize : Int) (regions : List Rect) : Grid :=
  { area := computePlacementArea regions
    limX := computeSubdivisions (computePlacementArea regions).minX (computePlacementArea regions).maxX
              (nbBinsFor (computePlacementArea regions).width binSize)
    limY := computeSubdivisions (computePlacementArea regions).minY (computePlacementArea regions).maxY
              (nbBinsFor (computePlacementArea regions).height binSize) }

/-- the regions handed to the `DensityGrid` constructor by `fromIspdCircuit`: the clipped rows;
when the margin removes every row, the unclipped free rows; when there is no free row at all,
the bounding box of the circuit's rows (if it has rows) -/
def gridRegions (margin : Int) (freeRows rows : List Rect) : List Rect :=
  if (clipRows margin freeRows).isEmpty then
    (if freeRows.isEmpty then (if rows.isEmpty then [] else [computePlacementArea rows]) else freeRows)
  else clipRows margin freeRows

/-- `DensityGrid::fromIspdCircuit(circuit, sizeFactor, sideMargin)` given the free rows
(`circuit.computeRows()`), the circuit's rows and the raw cell heights.  The two products are
single-precision in the code; the model is exact for factors whose product with the minimum
cell height is representable (the correspondence uses multiples of 1/8). -/
def gridFromRows (freeRows rows : List Rect) (heights : List Int) (sizeFactor sideMargin : Rat) : Grid :=
  mkGrid (truncRat (sizeFactor * minCellHeight heights))
    (gridRegions (truncRat (sideMargin * minCellHeight heights)) freeRows rows)

/-! ### blendPlacement, exportPlacement -/

/-- `blendPlacement(v1, v2, blending)` (the vectors have the same size in the code) -/
def blendPlacement (v1 v2 : List Rat) (blending : Rat) : List Rat :=
  if blending = 0 then v1
  else if blending = 1 then v2
  else List.zipWith (fun a b => (1 - blending) * a + blending * b) v1 v2

/-- `std::round` : nearest integer, halves away from zero -/
def roundHalfAway (q : Rat) : Int :=
  if 0 ≤ q then (q + 1 / 2).floor else -((-q + 1 / 2).floor)

/-- `std::round(place - 0.5 * placedSize)` -/
def exportCoord (place : Rat) (size : Int) : Int := roundHalfAway (place - (1 / 2) * (size : Rat))

/-- the loop of `exportPlacement(circuit, xplace, yplace)` on one axis: fixed cells keep their
coordinate, the others get the rounded lower-left corner -/
def exportAxis : List Bool → List Int → List Rat → List Int → List Int
  | f :: fs, o :: os, p :: ps, s :: ss =>
    (if f then o else exportCoord p s) :: exportAxis fs os ps ss
  | _, _, _, _ => []

/-- `GlobalPlacer::exportPlacement(circuit)` on one axis -/
def exportFinal (fixed : List Bool) (old : List Int) (lb ub : List Rat) (size : List Int)
    (exportBlending : Rat) : List Int :=
  exportAxis fixed old (blendPlacement lb ub exportBlending) size

/-- what the harness can observe: the bound on `|returned − ((1−β)·LB + β·UB)|` for exposed
(rounded) `LB`, `UB` -/
def blendBound (b : Rat) : Rat := ((if 1 - b < 0 then -(1 - b) else 1 - b) + (if b < 0 then -b else b) + 1) / 2

end ColoVerif.Spread
