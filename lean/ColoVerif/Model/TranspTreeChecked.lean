import ColoVerif.Model.Transp
import ColoVerif.Model.Checked
/-
Checked re-statement of the fixed-point cost arithmetic of
`TransportationSuccessiveShortestPath` (src/place_global/transportation.cpp): `CostType` is `int`.

  TransportationProblem::movingCost(src, snk1, snk2):  costs_[snk2][src] - costs_[snk1][src]          int - int
  bestSink(src):      CostType cost = sendingCost_[i] + pb_.cost(i, src);                              int + int, every sink i
  updateTree():       CostType newCost = movingCost(i, bestVisit) + sendingCost_[bestVisit];           int + int, every full sink i

(`sendingCost_` is initialised to `INT_MAX` for the full sinks: the sums are in range only because
of what the shortest-path search guarantees about the labels, see `Proofs/CheckedTranspTree.lean`.)
`movingCost(i, k)` reads `queues_[i][k].top()`: `top()` of an empty queue — reported by the unbounded
model as an error string — is an out-of-range access here.  The functions return what the unbounded
model of `Model/Transp.lean` returns, or the first fault.
-/
namespace ColoVerif.Transp
open ColoVerif.Checked

/-- an error of the unbounded model (`top()` of an empty queue, exhausted fuel) as a fault -/
def liftS {α : Type} : Except String α → Except Fault α
  | .ok a => .ok a
  | .error s => .error (.indexOutOfRange s)

/-- `TransportationProblem::movingCost(src, snk1, snk2)` -/
def movingCostC (p : Problem) (src snk1 snk2 : Nat) : Except Fault Int :=
  subI32 "movingCost: costs_[snk2][src] - costs_[snk1][src]" (p.cost snk2 src) (p.cost snk1 src)

/-- `bestSink(src)` -/
def bestSinkFromC (p : Problem) (sendCost : List Int) (src : Nat) : Nat → Nat → Nat → Int → Except Fault Nat
  | 0, _, ret, _ => .ok ret
  | k + 1, i, ret, bestCost =>
    match addI32 "bestSink: sendingCost_[i] + pb_.cost(i, src)" (sendCost.getD i 0) (p.cost i src) with
    | .error f => .error f
    | .ok c =>
      if c < bestCost then bestSinkFromC p sendCost src k (i + 1) i c
      else bestSinkFromC p sendCost src k (i + 1) ret bestCost

def bestSinkC (p : Problem) (sendCost : List Int) (src : Nat) : Except Fault Nat :=
  bestSinkFromC p sendCost src p.nbSinks 0 0 intMax

/-- relaxation loop of `updateTree` over the full sinks `i` -/
def relaxC (qs : Queues) (remCapa : List Int) (bv : Nat) : Nat → Nat → Tree → Except Fault Tree
  | 0, _, t => .ok t
  | k + 1, i, t =>
    if remCapa.getD i 0 > 0 then relaxC qs remCapa bv k (i + 1) t
    else
      match movingCostQ qs i bv with
      | .error e => .error (.indexOutOfRange e)
      | .ok mc =>
        match addI32 "updateTree: movingCost(i, bestVisit) + sendingCost_[bestVisit]" mc (t.sendCost.getD bv 0) with
        | .error f => .error f
        | .ok nc =>
          if nc < t.sendCost.getD i 0 then
            relaxC qs remCapa bv k (i + 1)
              { sendCost := t.sendCost.set i nc,
                parent := t.parent.set i (some bv),
                toVisit := t.toVisit.set i true }
          else relaxC qs remCapa bv k (i + 1) t

/-- the `while (true)` of `updateTree` -/
def treeLoopC (n : Nat) (qs : Queues) (remCapa : List Int) : Nat → Tree → Except Fault Tree
  | 0, _ => .error (.assertFailed "fuel: updateTree")
  | fuel + 1, t =>
    match pickVisit t n 0 none intMax with
    | none => .ok t
    | some bv =>
      match relaxC qs remCapa bv n 0 t with
      | .error e => .error e
      | .ok t' => treeLoopC n qs remCapa fuel { t' with toVisit := t'.toVisit.set bv false }

/-- `updateTree()` -/
def updateTreeC (p : Problem) (qs : Queues) (remCapa : List Int) : Except Fault Tree :=
  treeLoopC p.nbSinks qs remCapa (treeFuel p.nbSinks)
    { sendCost := remCapa.map (fun c => if c > 0 then 0 else intMax),
      parent := remCapa.map (fun _ => none),
      toVisit := remCapa.map (fun c => decide (c > 0)) }

end ColoVerif.Transp
