import ColoVerif.Model.ApiIR
/-
Operational semantics of the API skeletons of `Model/ApiIR.lean` (C10, C19).

* A circuit is abstracted to `St`: the in-use flag and the history of member writes (most recent
  first).  "The circuit is left equal" is `st' = st`: no member was written and the flag is as before.
* `exec` runs a statement list.  Exceptions (`thrown`) propagate; `scopeGuard` sets the flag,
  runs the rest of the function and clears the flag whatever the outcome (RAII destructor /
  catch-all + rethrow); `restoreGuard` does the same but puts back the value the flag had on entry
  (re-entrant guard).  `assertC` that fails gives `aborted` (assertion-enabled build).
* The body of a placement call contains `call stage`.  A stage is an arbitrary trace `Tr`: callback
  invocations, each running any sequence of `Circuit` setters (with any arguments) and of *nested
  placement calls* on the same circuit (whose own stage is again an arbitrary trace, to any depth); an
  exception of a setter or of a nested call is caught by the callback or not — both are traces
  (`cbEnd true` = the callback ends by throwing); after any prefix of callbacks the stage itself may
  throw (`done true`).
* Parameter constructors are event lists run by `runCtor`; placer entry points by `runEntry`.
Core Lean only.
-/
namespace ColoVerif.Busy
open ColoVerif.ApiIR

/-- Shape of one actual argument of a setter call. -/
structure Arg where
  len : Int            -- `size()` of a vector argument
  vals : List Int      -- its elements when they matter (pin cells, net limits), else `[]`
  ival : Int           -- value of a scalar argument
  deriving Repr

structure Env where
  nbCells : Int
  nbNets : Int
  args : List Arg
  deriving Repr

def Env.arg (e : Env) (i : Nat) : Arg := e.args.getD i ⟨0, [], 0⟩

def emptyEnv : Env := ⟨0, 0, []⟩

def Expr.eval (env : Env) (x : Int) : Expr → Int
  | .lit n => n
  | .size i => (env.arg i).len
  | .nbCells => env.nbCells
  | .nbNets => env.nbNets
  | .front i => (env.arg i).vals.headD 0
  | .back i => (env.arg i).vals.getLastD 0
  | .param i => (env.arg i).ival
  | .elem => x
  | .add a b => Expr.eval env x a + Expr.eval env x b

def sortedInts : List Int → Bool
  | a :: b :: rest => decide (a ≤ b) && sortedInts (b :: rest)
  | _ => true

def Cond.eval (env : Env) : Int → Cond → Bool
  | x, .lt a b => decide (Expr.eval env x a < Expr.eval env x b)
  | x, .le a b => decide (Expr.eval env x a ≤ Expr.eval env x b)
  | x, .eq a b => decide (Expr.eval env x a = Expr.eval env x b)
  | x, .or a b => Cond.eval env x a || Cond.eval env x b
  | x, .and a b => Cond.eval env x a && Cond.eval env x b
  | x, .not a => !Cond.eval env x a
  | _, .empty i => decide ((env.arg i).len = 0)
  | _, .sorted i => sortedInts (env.arg i).vals
  | _, .anyElem i c => (env.arg i).vals.any (fun y => Cond.eval env y c)

structure St where
  inUse : Bool
  writes : List String
  deriving DecidableEq, Repr

inductive Outcome where
  | normal | returned | thrown | aborted | stuck
  deriving DecidableEq, Repr

/-- Result of running a function body: how it ended, the state, and the observable log
(one line per setter invoked from a callback). -/
structure Res where
  out : Outcome
  st : St
  log : List String
  deriving DecidableEq, Repr

/-- sequencing after a call: continue only after a normal return -/
def Res.andThen (r : Res) (k : St → Res) : Res :=
  match r.out with
  | .normal => ⟨(k r.st).out, (k r.st).st, r.log ++ (k r.st).log⟩
  | _ => r

/-- leaving a guarded scope: the flag is cleared on every exit path -/
def Res.release (r : Res) : Res := ⟨r.out, { r.st with inUse := false }, r.log⟩

/-- leaving a re-entrant guarded scope: the flag gets back the value `b` it had on entry -/
def Res.restore (r : Res) (b : Bool) : Res := ⟨r.out, { r.st with inUse := b }, r.log⟩

def exec (onCall : String → St → Res) (env : Env) : List Stmt → St → Res
  | [], st => ⟨.normal, st, []⟩
  | .throwIf c :: rest, st => if Cond.eval env 0 c then ⟨.thrown, st, []⟩ else exec onCall env rest st
  | .returnIf c :: rest, st => if Cond.eval env 0 c then ⟨.returned, st, []⟩ else exec onCall env rest st
  | .checkNotInUse :: rest, st => if st.inUse then ⟨.thrown, st, []⟩ else exec onCall env rest st
  | .assign m :: rest, st => exec onCall env rest { st with writes := m :: st.writes }
  | .setInUse b :: rest, st => exec onCall env rest { st with inUse := b }
  | .call f :: rest, st => (onCall f st).andThen (fun s => exec onCall env rest s)
  | .scopeGuard :: rest, st => (exec onCall env rest { st with inUse := true }).release
  | .restoreGuard :: rest, st => (exec onCall env rest { st with inUse := true }).restore st.inUse
  | .ret :: _, st => ⟨.returned, st, []⟩
  | .assertC c :: rest, st => if Cond.eval env 0 c then exec onCall env rest st else ⟨.aborted, st, []⟩
  | .paramsCheck :: rest, st => exec onCall env rest st
  | .pure _ :: rest, st => exec onCall env rest st

/-- setters contain no calls; one that did would be `stuck` -/
def noCall : String → St → Res := fun _ st => ⟨.stuck, st, []⟩

structure SetterCall where
  name : String
  env : Env
  deriving Repr

/-- What a stage does, as a trace.  Everything between two `cbEnd`s happens inside one callback. -/
inductive Tr where
  | done (throws : Bool)                            -- the stage ends: by return, or by its own exception
  | setter (sc : SetterCall) (k : Tr)               -- (in a callback) a setter is called, then `k`
  | nested (name : String) (inner : Tr) (k : Tr)    -- (in a callback) a placement call on the same circuit whose stage does `inner`, then `k`
  | cbEnd (throws : Bool) (k : Tr)                  -- the callback ends: normally (the stage goes on with `k`) or by throwing
  deriving Repr

def showOutcome : Outcome → String
  | .normal => "ok"
  | .returned => "ok"
  | .thrown => "throw:runtime_error"
  | .aborted => "abort"
  | .stuck => "stuck"

/-- The line both sides print for a setter call: outcome and, for a refusal, the number of
member writes that happened before it. -/
def setterLine (name : String) (before : St) (r : Res) : String :=
  match r.out with
  | .thrown => "set " ++ name ++ " throw:runtime_error w=" ++ toString (r.st.writes.length - before.writes.length)
  | o => "set " ++ name ++ " " ++ showOutcome o

def runSetter (tbl : List FnDef) (sc : SetterCall) (st : St) : Res :=
  match lookup tbl sc.name with
  | some f => exec noCall sc.env f.body st
  | none => ⟨.stuck, st, []⟩

/-- how a call ended, as printed by both sides -/
def showEnd : Outcome → String
  | .normal => "ok"
  | .returned => "ok"
  | .thrown => "throw"
  | .aborted => "abort"
  | .stuck => "stuck"

/-- The line both sides print when a placement call has ended: how, and the in-use flag right after. -/
def endLine (r : Res) : String :=
  "end " ++ showEnd r.out ++ " inuse=" ++ (if r.st.inUse then "1" else "0")

/-- Inside a callback: after an action (setter, nested placement call) whose exception, if any, is
absorbed (the callback catches it, or ends by throwing — `cbEnd true` covers the latter), log `line`
and go on with `k`; an abort ends everything. -/
def Res.absorbThen (r : Res) (line : String) (k : St → Res) : Res :=
  match r.out with
  | .aborted => ⟨.aborted, r.st, r.log ++ [line]⟩
  | .stuck => ⟨.stuck, r.st, r.log ++ [line]⟩
  | _ => ⟨(k r.st).out, (k r.st).st, r.log ++ line :: (k r.st).log⟩

/-- Run a function of `pcs` whose `call` statements behave as `stage`. -/
def runCall (pcs : List FnDef) (name : String) (stage : St → Res) (st : St) : Res :=
  match lookup pcs name with
  | some f => exec (fun _ s => stage s) emptyEnv f.body st
  | none => ⟨.stuck, st, []⟩

/-- A stage behaving as the trace `t`; `tbl` = the setters, `pcs` = the placement calls (for nested calls). -/
def runTr (tbl pcs : List FnDef) : Tr → St → Res
  | .done thr, st => ⟨if thr then .thrown else .normal, st, []⟩
  | .setter sc k, st =>
    (runSetter tbl sc st).absorbThen (setterLine sc.name st (runSetter tbl sc st)) (fun s => runTr tbl pcs k s)
  | .nested name inner k, st =>
    (runCall pcs name (fun s => runTr tbl pcs inner s) st).absorbThen
      (endLine (runCall pcs name (fun s => runTr tbl pcs inner s) st)) (fun s => runTr tbl pcs k s)
  | .cbEnd thr k, st => if thr then ⟨.thrown, st, []⟩ else runTr tbl pcs k st

/-- A placement call with body `body`, its stage behaving as the trace `t`. -/
def execPlacement (tbl pcs : List FnDef) (body : List Stmt) (t : Tr) (st : St) : Res :=
  exec (fun _ s => runTr tbl pcs t s) emptyEnv body st

/-! ### static conditions used by the theorems (decidable on the generated tables) -/

/-- `checkNotInUse` is reached before any write, return or call: only `throwIf`s precede it. -/
def guardFirst : List Stmt → Bool
  | .checkNotInUse :: _ => true
  | .throwIf _ :: rest => guardFirst rest
  | _ => false

/-- the body starts by taking a scope guard (of either kind) -/
def guardedFirst : List Stmt → Bool
  | .scopeGuard :: _ => true
  | .restoreGuard :: _ => true
  | _ => false

/-- The conditions of the `throwIf`s that are reached before anything that writes, returns, asserts
or calls (the prefix of `throwIf`/`checkNotInUse` statements). -/
def preConds : List Stmt → List Cond
  | .throwIf c :: rest => c :: preConds rest
  | .checkNotInUse :: rest => preConds rest
  | _ => []

def assertFree : List Stmt → Bool
  | [] => true
  | .assertC _ :: _ => false
  | .call _ :: _ => false
  | _ :: rest => assertFree rest

/-! ### parameter constructors -/

inductive CtorOut where
  | ok | threw | ub | abort
  deriving DecidableEq, Repr

def runCtor (e : Int) : List CtorEv → CtorOut
  | [] => .ok
  | .effortCheck lo hi :: rest => if e < lo ∨ e > hi then .threw else runCtor e rest
  | .arrayIndex _ size off :: rest => if 0 ≤ e + off ∧ e + off < size then runCtor e rest else .ub
  | .assertRange lo hi :: rest => if lo ≤ e ∧ e ≤ hi then runCtor e rest else .abort
  | .enter _ :: rest => runCtor e rest
  | .leave _ :: rest => runCtor e rest

def showCtorOut : CtorOut → String
  | .ok => "ok"
  | .threw => "throw:runtime_error"
  | .ub => "sanitizer"
  | .abort => "abort"

/-- Abstract interpretation of a constructor: `known` is the interval the effort is known to lie in
after the checks passed so far; every index and assertion must be justified by it. -/
def safeFrom : Option (Int × Int) → List CtorEv → Bool
  | _, [] => true
  | none, .effortCheck lo hi :: rest => safeFrom (some (lo, hi)) rest
  | some (a, b), .effortCheck lo hi :: rest => safeFrom (some (max a lo, min b hi)) rest
  | some (a, b), .arrayIndex _ size off :: rest =>
    decide (0 ≤ a + off) && decide (b + off < size) && safeFrom (some (a, b)) rest
  | none, .arrayIndex _ _ _ :: _ => false
  | some (a, b), .assertRange lo hi :: rest => decide (lo ≤ a) && decide (b ≤ hi) && safeFrom (some (a, b)) rest
  | none, .assertRange _ _ :: _ => false
  | k, .enter _ :: rest => safeFrom k rest
  | k, .leave _ :: rest => safeFrom k rest

/-- the first event that does something is the range check `lo..hi` -/
def checksFirst (lo hi : Int) : List CtorEv → Bool
  | .effortCheck a b :: _ => decide (a = lo) && decide (b = hi)
  | .enter _ :: rest => checksFirst lo hi rest
  | .leave _ :: rest => checksFirst lo hi rest
  | _ => false

/-! ### placer entry points: what happens before `params.check()` -/

/-- Run a callee body with parameters that are valid or not; returns (rejected, work done before).
Calls are opaque algorithms here. -/
def runEntryLeaf (valid : Bool) : List Stmt → Bool × List String
  | [] => (false, [])
  | .paramsCheck :: rest => if valid then runEntryLeaf valid rest else (true, [])
  | .assign m :: rest => ((runEntryLeaf valid rest).1, ("write:" ++ m) :: (runEntryLeaf valid rest).2)
  | .call f :: rest => ((runEntryLeaf valid rest).1, ("algo:" ++ f) :: (runEntryLeaf valid rest).2)
  | .pure _ :: rest => runEntryLeaf valid rest
  | _ :: rest => ((runEntryLeaf valid rest).1, "other" :: (runEntryLeaf valid rest).2)

/-- Same, following calls to functions of `tbl` one level deep (`DetailedPlacer::place` starts by
calling `DetailedPlacer::legalize`). -/
def runEntry (tbl : List FnDef) (valid : Bool) : List Stmt → Bool × List String
  | [] => (false, [])
  | .paramsCheck :: rest => if valid then runEntry tbl valid rest else (true, [])
  | .assign m :: rest => ((runEntry tbl valid rest).1, ("write:" ++ m) :: (runEntry tbl valid rest).2)
  | .call f :: rest =>
    match lookup tbl f with
    | some g =>
      if (runEntryLeaf valid g.body).1 then (true, (runEntryLeaf valid g.body).2)
      else ((runEntry tbl valid rest).1, (runEntryLeaf valid g.body).2 ++ (runEntry tbl valid rest).2)
    | none => ((runEntry tbl valid rest).1, ("algo:" ++ f) :: (runEntry tbl valid rest).2)
  | .pure _ :: rest => runEntry tbl valid rest
  | _ :: rest => ((runEntry tbl valid rest).1, "other" :: (runEntry tbl valid rest).2)

end ColoVerif.Busy
