import ColoVerif.Model.Geom
/-
*Specification* of cell orientation (DEF/LEF semantics), independent of the code's flip tables:
an orientation is an element of the dihedral group D4 given by an integer 2×2 matrix generated
from two primitives (the quarter turn and the mirror about the y axis); the placed outline is the
image of `[0,w]×[0,h]`, translated so that its lower-left corner is the cell position; a pin's
location is the image of its offset under the same map.

  N = R0     W = R90 (counter-clockwise)     S = R180     E = R270
  FN = MY (mirror about the y axis, x ↦ −x)   FS = MX (y ↦ −y)
  FW = MX90 (MX, then rotate by 90°)           FE = MY90 (MY, then rotate by 90°)

(The same names are the alias enumerators of `CellOrientation` in coloquinte.hpp; the tie to them
is `C09.spec_matches_header_aliases`.)
-/
namespace ColoVerif.OrientSpec
open ColoVerif

/-- integer matrix `[[a, b], [c, d]]` acting on column vectors -/
structure Mat where
  a : Int
  b : Int
  c : Int
  d : Int
deriving Repr, DecidableEq, Inhabited

namespace Mat
def one : Mat := ⟨1, 0, 0, 1⟩
def mul (m n : Mat) : Mat :=
  ⟨m.a * n.a + m.b * n.c, m.a * n.b + m.b * n.d, m.c * n.a + m.d * n.c, m.c * n.b + m.d * n.d⟩
def det (m : Mat) : Int := m.a * m.d - m.b * m.c
def transpose (m : Mat) : Mat := ⟨m.a, m.c, m.b, m.d⟩
/-- image of the point `(x, y)` -/
def apply (m : Mat) (x y : Int) : Int × Int := (m.a * x + m.b * y, m.c * x + m.d * y)
end Mat

/-- quarter turn, counter-clockwise: `(x, y) ↦ (−y, x)` -/
def rot90 : Mat := ⟨0, -1, 1, 0⟩
/-- MY: mirror about the y axis, `(x, y) ↦ (−x, y)` -/
def mirrorY : Mat := ⟨-1, 0, 0, 1⟩
/-- MX: mirror about the x axis, `(x, y) ↦ (x, −y)` = R180 ∘ MY -/
def mirrorX : Mat := (rot90.mul rot90).mul mirrorY

/-- the linear part of an orientation (identity for the two non-orientations) -/
def matrix : Orient → Mat
  | .N => Mat.one
  | .W => rot90
  | .S => rot90.mul rot90
  | .E => rot90.mul (rot90.mul rot90)
  | .FN => mirrorY
  | .FS => mirrorX
  | .FW => rot90.mul mirrorX
  | .FE => rot90.mul mirrorY
  | .INVALID => Mat.one
  | .UNKNOWN => Mat.one

/-- the transformation a DEF/LEF orientation name denotes -/
def named : String → Option Mat
  | "R0" => some Mat.one
  | "R90" => some rot90
  | "R180" => some (rot90.mul rot90)
  | "R270" => some (rot90.mul (rot90.mul rot90))
  | "MY" => some mirrorY
  | "MX" => some mirrorX
  | "MX90" => some (rot90.mul mirrorX)
  | "MY90" => some (rot90.mul mirrorY)
  | _ => none

def min4 (a b c d : Int) : Int := min (min a b) (min c d)
def max4 (a b c d : Int) : Int := max (max a b) (max c d)

/-- x coordinates of the images of the four corners of `[0,w]×[0,h]` -/
def cornerXs (m : Mat) (w h : Int) : Int × Int × Int × Int :=
  ((m.apply 0 0).1, (m.apply w 0).1, (m.apply 0 h).1, (m.apply w h).1)
def cornerYs (m : Mat) (w h : Int) : Int × Int × Int × Int :=
  ((m.apply 0 0).2, (m.apply w 0).2, (m.apply 0 h).2, (m.apply w h).2)

/-- lower-left corner of the image of the outline (before translation) -/
def lowerLeft (m : Mat) (w h : Int) : Int × Int :=
  (min4 (cornerXs m w h).1 (cornerXs m w h).2.1 (cornerXs m w h).2.2.1 (cornerXs m w h).2.2.2,
   min4 (cornerYs m w h).1 (cornerYs m w h).2.1 (cornerYs m w h).2.2.1 (cornerYs m w h).2.2.2)
def upperRight (m : Mat) (w h : Int) : Int × Int :=
  (max4 (cornerXs m w h).1 (cornerXs m w h).2.1 (cornerXs m w h).2.2.1 (cornerXs m w h).2.2.2,
   max4 (cornerYs m w h).1 (cornerYs m w h).2.1 (cornerYs m w h).2.2.1 (cornerYs m w h).2.2.2)

/-- what an oriented cell looks like relative to its position (= lower-left corner of the
placed outline) -/
structure Placed where
  pinX : Int
  pinY : Int
  width : Int
  height : Int
deriving Repr, DecidableEq

/-- the specification: cell of unrotated size `w×h`, pin at unrotated offset `(px, py)` -/
def spec (o : Orient) (w h px py : Int) : Placed :=
  { pinX := ((matrix o).apply px py).1 - (lowerLeft (matrix o) w h).1
    pinY := ((matrix o).apply px py).2 - (lowerLeft (matrix o) w h).2
    width := (upperRight (matrix o) w h).1 - (lowerLeft (matrix o) w h).1
    height := (upperRight (matrix o) w h).2 - (lowerLeft (matrix o) w h).2 }

end ColoVerif.OrientSpec
