/-
Value semantics of the net part of `Circuit` (C10: "the circuit is internally consistent", the VALUE clauses
that the size semantics of `Model/BusySizes.lean` cannot express): the CSR arrays `netLimits_` / `pinCells_`
with the lengths of the offset and weight vectors, as written by the constructor, `Circuit::addNet` and
`Circuit::setNets` (src/coloquinte.cpp), branch for branch and in the order of the C++ statements.

* `init n`            `Circuit::Circuit(n)`: `netLimits_.push_back(0)`
* `addNet`            length test, pin-range loop, early return on an empty net, then the five appends
* `setNets`           the four validation blocks in source order, then the five assignments and the `resize`
* `setNetWeights`     the length test, then the assignment
* `Wf`                the value invariant: `netLimits_` non-empty, starts at 0, non-decreasing, ends at
                      `pinCells_.size()`; every pin names an existing cell; the per-pin vectors and the weights have
                      the lengths the limits imply (this part repeats `BusySizes.SizesConsistent` on the value state)
* the inline getters `nbNets`, `nbPins`, `nbPinsNet`, `pinCell` as total functions (`getD`), whose indices the
  theorems of `Properties/C10.lean` show to be in range in every `Wf` state.

The busy flag is not part of this state: a call made while the circuit is in use is refused before anything else
that writes (`busy_refuses`), and the driver only runs this model on calls made outside a placement call.
Core Lean only.
-/
namespace ColoVerif.NetsValue

structure Nets where
  nbCells : Int
  limits : List Int          -- `netLimits_`
  pins : List Int            -- `pinCells_`
  nx : Nat                   -- `pinXOffsets_.size()`
  ny : Nat                   -- `pinYOffsets_.size()`
  nw : Nat                   -- `netWeights_.size()`
  deriving Repr, DecidableEq

/-- `Circuit::Circuit(nbCells)` -/
def init (n : Int) : Nets := ⟨n, [0], [], 0, 0, 0⟩

/-- `for (int c : cells) if (c < 0 || c >= nbCells()) throw` passes -/
def pinsInRange (n : Int) (cells : List Int) : Bool := cells.all (fun c => decide (0 ≤ c) && decide (c < n))

/-- `std::is_sorted(begin, end)`: no element is smaller than its predecessor -/
def sortedB : List Int → Bool
  | [] => true
  | [_] => true
  | a :: b :: r => decide (a ≤ b) && sortedB (b :: r)

/-- `v.back()` of a non-empty vector (0 on the empty one, which no caller below reaches) -/
def back (l : List Int) : Int := l.getLastD 0

/-- `Circuit::addNet(cells, xOffsets, yOffsets, weight)` outside a placement call; `nxo`, `nyo` are the lengths of
the two offset arguments.  `none` = `std::runtime_error`, the circuit is as before. -/
def addNet (s : Nets) (cells : List Int) (nxo nyo : Nat) : Option Nets :=
  if cells.length ≠ nxo ∨ cells.length ≠ nyo then none
  else if pinsInRange s.nbCells cells = false then none
  else if cells.isEmpty then some s
  else some { s with limits := s.limits ++ [back s.limits + cells.length], pins := s.pins ++ cells,
                     nx := s.nx + nxo, ny := s.ny + nyo, nw := s.nw + 1 }

/-- `Circuit::setNets(limits, cells, xOffsets, yOffsets, weights)` outside a placement call; `nxo`, `nyo`, `nwt`
are the lengths of the offset and weight arguments. -/
def setNets (s : Nets) (limits cells : List Int) (nxo nyo nwt : Nat) : Option Nets :=
  if limits.isEmpty ∨ limits.head? ≠ some 0 ∨ sortedB limits = false then none
  else if back limits ≠ cells.length ∨ back limits ≠ nxo ∨ back limits ≠ nyo then none
  else if limits.length ≠ nwt + 1 ∧ nwt ≠ 0 then none
  else if pinsInRange s.nbCells cells = false then none
  else some { s with limits := limits, pins := cells, nx := nxo, ny := nyo, nw := limits.length - 1 }

/-- `Circuit::setNetWeights(w)` with `nwt = w.size()`: refused unless there is one weight per net -/
def setNetWeights (s : Nets) (nwt : Nat) : Option Nets :=
  if (nwt : Int) ≠ (s.limits.length : Int) - 1 then none else some { s with nw := nwt }

/-- one call of the public net API -/
inductive Op where
  | add (cells : List Int) (nxo nyo : Nat)
  | set (limits cells : List Int) (nxo nyo nwt : Nat)
  | weights (nwt : Nat)
  deriving Repr, DecidableEq

def apply? (s : Nets) : Op → Option Nets
  | .add c x y => addNet s c x y
  | .set l c x y w => setNets s l c x y w
  | .weights w => setNetWeights s w

/-- a refused call leaves the circuit as it was -/
def step (s : Nets) (o : Op) : Nets := (apply? s o).getD s

def run (s : Nets) (ops : List Op) : Nets := ops.foldl step s

/-! ### the inline getters -/

def nbNets (s : Nets) : Int := s.limits.length - 1
def nbPins (s : Nets) : Int := back s.limits
/-- `netLimits_[net + 1] - netLimits_[net]` -/
def nbPinsNet (s : Nets) (net : Nat) : Int := s.limits.getD (net + 1) 0 - s.limits.getD net 0
/-- the index `netLimits_[net] + i` read by `pinCell(net, i)`, `pinXOffset`, `pinYOffset` -/
def pinIndex (s : Nets) (net : Nat) (i : Nat) : Int := s.limits.getD net 0 + i
/-- `pinCells_[netLimits_[net] + i]`; `-1` stands for an out-of-bounds read -/
def pinCell (s : Nets) (net : Nat) (i : Nat) : Int := s.pins.getD (pinIndex s net i).toNat (-1)

/-! ### the invariant -/

/-- executable form of the invariant -/
def wfB (s : Nets) : Bool :=
  !s.limits.isEmpty && (s.limits.head? == some 0) && sortedB s.limits && (back s.limits == s.pins.length)
    && pinsInRange s.nbCells s.pins && (s.nx == s.pins.length) && (s.ny == s.pins.length)
    && (s.nw + 1 == s.limits.length)

structure Wf (s : Nets) : Prop where
  nonempty : s.limits ≠ []
  front : s.limits.head? = some 0
  sorted : sortedB s.limits = true
  backPins : back s.limits = s.pins.length
  inRange : pinsInRange s.nbCells s.pins = true
  xLen : s.nx = s.pins.length
  yLen : s.ny = s.pins.length
  wLen : s.nw + 1 = s.limits.length

end ColoVerif.NetsValue
