/-
The small intermediate representation into which `tools/gen/Api.py` and `tools/gen/Params.py`
translate the declarative parts of the C++ API (DESIGN.md section 2, tie T).  Types only; the
semantics is in `Model/Busy.lean`.  Core Lean only.
-/
namespace ColoVerif.ApiIR

/-- Integer expressions over the arguments of a setter (`arg` = position of the C++ parameter). -/
inductive Expr where
  | lit (n : Int)
  | size (arg : Nat)          -- `arg.size()`
  | nbCells                   -- `nbCells()`
  | nbNets                    -- `nbNets()`
  | front (arg : Nat)         -- `arg.front()`
  | back (arg : Nat)          -- `arg.back()`
  | param (arg : Nat)         -- a scalar (`int`/`bool`) parameter
  | elem                      -- the loop variable of the enclosing `anyElem`
  | add (a b : Expr)
  deriving Repr, DecidableEq

inductive Cond where
  | lt (a b : Expr)
  | le (a b : Expr)
  | eq (a b : Expr)
  | or (a b : Cond)
  | and (a b : Cond)
  | not (a : Cond)
  | empty (arg : Nat)                 -- `arg.empty()`
  | sorted (arg : Nat)                -- `std::is_sorted(arg.begin(), arg.end())`
  | anyElem (arg : Nat) (c : Cond)    -- `for (x : arg) if (c) …`: some element satisfies `c`
  deriving Repr, DecidableEq

/-- One statement of a function skeleton. -/
inductive Stmt where
  | throwIf (c : Cond)        -- `if (c) throw std::runtime_error(…);`
  | returnIf (c : Cond)       -- `if (c) return;`
  | checkNotInUse             -- `checkNotInUse();`  (= `if (isInUse_) throw …`, shape verified by the translator)
  | assign (member : String)  -- a write to that member of the circuit
  | setInUse (b : Bool)       -- plain `isInUse_ = b;`
  | call (name : String)      -- a call into the placer (may run callbacks, may throw)
  | scopeGuard                -- from here to the end of the function `isInUse_` is set; cleared on every exit
  | restoreGuard              -- same, but on every exit `isInUse_` gets back the value it had on entry (re-entrant guard)
  | ret                       -- `return;`
  | assertC (c : Cond)        -- `assert(c);`
  | paramsCheck               -- `params.check();`
  | pure (what : String)      -- no effect on the circuit (printing, timing)
  deriving Repr, DecidableEq

structure FnDef where
  name : String
  params : List String
  body : List Stmt
  deriving Repr

def lookup (tbl : List FnDef) (name : String) : Option FnDef :=
  tbl.find? (fun f => f.name == name)

/-- Events of a parameter constructor, in evaluation order (nested constructors inlined). -/
inductive CtorEv where
  | effortCheck (lo hi : Int)                          -- `if (effort < lo || effort > hi) throw`
  | arrayIndex (name : String) (size : Int) (offset : Int)  -- `name[effort + offset]`, `name` declared with `size` elements
  | assertRange (lo hi : Int)                          -- `assert(lo <= effort && effort <= hi)`
  | enter (rec : String)
  | leave (rec : String)
  deriving Repr, DecidableEq

/-- A `check()` body is a list of (condition under which it throws, message); it returns
normally iff no condition holds. -/
def checkPasses (items : List (Bool × String)) : Bool := items.all (fun it => !it.1)

/-- The message of the exception `check()` throws: that of the first condition that holds. -/
def firstFailure : List (Bool × String) → Option String
  | [] => none
  | (c, m) :: rest => if c then some m else firstFailure rest

end ColoVerif.ApiIR
