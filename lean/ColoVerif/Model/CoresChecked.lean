import ColoVerif.Model.RowLegChecked
import ColoVerif.Model.Freespace
/-
Checked models of the other integer cores of C07:

* `computeSubdivisions` (src/utils/helpers.hpp) — as repaired by
  fixes/c07-subdivisions-int-overflow.diff (`(long long)i * (max - min) / number`
  narrowed back to `int`); the pre-fix arithmetic is `Legacy.subdivAtC` in
  `Model/LegacyChecked.lean`.
* the cost arithmetic of `AbacusLegalizer::evaluatePlacement` / `placeCell`
  (src/place_detailed/abacus_legalizer.cpp) — as repaired by
  fixes/c11-abacus-cost-narrowing.diff (`long long dist`); the pre-fix `int dist` is
  `Legacy.evalPlacementC`.
* the integer arithmetic around `Row::freespace` / `Circuit::computeRows`
  (src/coloquinte.cpp): `Circuit::placement(i)` builds the obstacle rectangles with
  `x + placedWidth`, `y + placedHeight` (`int + int`); the interval subtraction itself
  (boost::polygon in the C++, `Freespace.freeIntervals` in the model) only compares and
  copies coordinates.
-/
namespace ColoVerif.Checked

/-! ### computeSubdivisions -/

/-- `min + (i * (max - min) / number)`, unbounded -/
def subdivAt (mn mx number i : Int) : Int := mn + Int.tdiv (i * (mx - mn)) number

/-- the `for` loop: `k` iterations left, current index `i` -/
def subdivLoop (mn mx number : Int) : Nat → Int → List Int
  | 0, _ => []
  | k + 1, i => subdivAt mn mx number i :: subdivLoop mn mx number k (i + 1)

/-- `computeSubdivisions(min, max, number)`, unbounded -/
def subdivisions (mn mx number : Int) : List Int := subdivLoop mn mx number (number + 1).toNat 0

/-- `min + static_cast<int>(static_cast<long long>(i) * (max - min) / number)` -/
def subdivAtC (mn mx number i : Int) : Except Fault Int := do
  let ext ← subI32 "computeSubdivisions: max - min" mx mn
  let prod ← mulI64 "computeSubdivisions: (long long)i * (max - min)" i ext
  let q ← divI64 "computeSubdivisions: … / number" prod number
  let qi ← narrowI32 "computeSubdivisions: static_cast<int>" q
  addI32 "computeSubdivisions: min + …" mn qi

def subdivLoopC (mn mx number : Int) : Nat → Int → Except Fault (List Int)
  | 0, _ => .ok []
  | k + 1, i =>
    match subdivAtC mn mx number i with
    | .error f => .error f
    | .ok v =>
      match subdivLoopC mn mx number k (i + 1) with
      | .error f => .error f
      | .ok r => .ok (v :: r)

/-- `computeSubdivisions` with its five assertions (`ret.size() == number + 1` holds by
construction of the loop and is not restated) -/
def subdivisionsC (asr : Bool) (mn mx number : Int) : Except Fault (List Int) := do
  assertC asr "computeSubdivisions: number >= 1" (decide (number ≥ 1))
  assertC asr "computeSubdivisions: max >= min" (decide (mx ≥ mn))
  let n1 ← addI32 "computeSubdivisions: number + 1" number 1
  let ret ← subdivLoopC mn mx number n1.toNat 0
  assertC asr "computeSubdivisions: ret.front() == min" (decide (ret.headD mn = mn))
  assertC asr "computeSubdivisions: ret.back() == max" (decide (ret.getLastD mx = mx))
  pure ret

/-! ### Abacus cost arithmetic -/

/-- `RowLegalizer::remainingSpace()`: `end_ - begin_ - usedSpace()` -/
def remainingC (s : RowLeg.State) : Except Fault Int := do
  let a ← subI32 "remainingSpace: end_ - begin_" s.e s.b
  subI32 "remainingSpace: … - usedSpace()" a s.used

/-- `AbacusLegalizer::evaluatePlacement(cell,row)` for a cell whose orientation is valid in
the row: `(ok, dist)` and the row legalizer afterwards -/
def evalPlacementC (asr : Bool) (s : RowLeg.State) (width target : Int) :
    Except Fault ((Bool × Int) × RowLeg.State) := do
  let rem ← remainingC s
  if rem < width then pure ((false, 0), s)
  else
    let r ← RowLeg.getCostC asr s width target
    pure ((true, r.1), r.2)

/-- `evaluatePlacement`, unbounded -/
def evalPlacement (s : RowLeg.State) (width target : Int) : (Bool × Int) × RowLeg.State :=
  if s.remaining < width then ((false, 0), s)
  else ((true, (RowLeg.getCost s width target).1), (RowLeg.getCost s width target).2)

/-- `long long yDist = cellWidth_[cell] * norm(0, rows_[row].minY - targetY, L1)` and
`long long dist = xDist + yDist` in `placeCell` -/
def placeCostC (width rowMinY targetY xDist : Int) : Except Fault Int := do
  let dy ← subI32 "placeCell: rows_[row].minY - targetY" rowMinY targetY
  -- norm(int,int) converts to long long first: |0| + |dy|
  let n ← addI64 "computeNorm<long long>: abs(x) + abs(y)" 0 (dy.natAbs : Int)
  let yd ← mulI64 "placeCell: cellWidth_[cell] * norm(…)" width n
  addI64 "placeCell: xDist + yDist" xDist yd

def placeCost (width rowMinY targetY xDist : Int) : Int := xDist + width * ((rowMinY - targetY).natAbs : Int)

/-- `placeCell` on a legalizer with a single row of the cell's height: evaluate, then push if
the cell fits -/
def placeCellC (asr : Bool) (s : RowLeg.State) (width target : Int) : Except Fault RowLeg.State := do
  let r ← evalPlacementC asr s width target
  if r.1.1 then
    let p ← RowLeg.pushC asr r.2 width target
    pure p.2
  else pure r.2

/-! ### obstacle rectangles for `Row::freespace` -/

/-- `Circuit::placement(i)`: `Rectangle(x, x + placedWidth, y, y + placedHeight)` -/
def placementC (c : Cell) : Except Fault Rect := do
  let x2 ← addI32 "Circuit::placement: x + placedWidth" c.x c.placedWidth
  let y2 ← addI32 "Circuit::placement: y + placedHeight" c.y c.placedHeight
  pure ⟨c.x, x2, c.y, y2⟩

def placementsC : List Cell → Except Fault (List Rect)
  | [] => .ok []
  | c :: cs =>
    match placementC c with
    | .error f => .error f
    | .ok r =>
      match placementsC cs with
      | .error f => .error f
      | .ok rs => .ok (r :: rs)

/-- `Circuit::computeRows()`: the obstacles are the placements of the fixed obstruction
cells; the interval subtraction copies and compares coordinates only -/
def computeRowsC (c : Circuit) : Except Fault (List Row) := do
  let obs ← placementsC (c.cells.filter fun cl => cl.fixed && cl.obstruction)
  pure (c.rows.flatMap fun r => r.freespace obs)

end ColoVerif.Checked
