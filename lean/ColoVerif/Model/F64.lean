import ColoVerif.Model.Legalize
/-
IEEE-754 round-to-nearest-even over exact rationals, generic in the precision, plus the two libm
functions the fixed-point cost scaling `TransportationProblem::costsFromIntegers`
(src/place_global/transportation.cpp) and the distance evaluation need: `std::round` (half away from
zero) and the correctly rounded binary32 square root.

* `fround prec emin q` : nearest number of the form `m·2^e` with `|m| ≤ 2^prec`, `e ≥ emin`
  (ties to the even `m`); the exponent range is unbounded above (no overflow to infinity: the users
  assume finite values) and gradual underflow below (`emin` = exponent of the smallest subnormal).
  `f64 = fround 53 (−1074)`, `f32' = fround 24 (−149)`; `f32'` is, by `rfl`, the `Legalize.f32` of
  `Model/Legalize.lean` (`Proofs/F64.lean`, `f32'_eq_f32`).
* `pow2` and `roundHalfEven` are those of `Model/Legalize.lean`.

Core Lean only.  Facts (sign, monotonicity, exactness, relative error) are in `Proofs/F64.lean`.
-/
namespace ColoVerif.F64
open ColoVerif.Legalize (pow2 roundHalfEven)

/-- exponent of the unit in the last place of the `prec`-bit number nearest to `a > 0`:
`2^(e+prec-1) ≤ a < 2^(e+prec)`, clamped below at `emin`.  The first guess from the bit lengths of
numerator and denominator is off by at most one. -/
def fexp (prec emin : Int) (a : Rat) : Int :=
  let e1 : Int := (Nat.log2 a.num.natAbs : Int) - (Nat.log2 a.den : Int) - (prec - 1)
  max (if a < pow2 (e1 + (prec - 1)) then e1 - 1 else e1) emin

/-- round to nearest, ties to even, to `prec` significant bits with ulp at least `2^emin` -/
def fround (prec emin : Int) (q : Rat) : Rat :=
  if q = 0 then 0
  else if q < 0 then
    -((roundHalfEven ((-q) / pow2 (fexp prec emin (-q))) : Rat) * pow2 (fexp prec emin (-q)))
  else (roundHalfEven (q / pow2 (fexp prec emin q)) : Rat) * pow2 (fexp prec emin q)

/-- IEEE-754 binary64 (`double`) rounding of an exact rational -/
def f64 (q : Rat) : Rat := fround 53 (-1074) q

/-- IEEE-754 binary32 (`float`) rounding of an exact rational -/
def f32' (q : Rat) : Rat := fround 24 (-149) q

/-- C `std::round` / `llround`: nearest integer, halfway cases away from zero -/
def roundAway (q : Rat) : Int :=
  if 0 ≤ q then (q + 1 / 2).floor else -((-q + 1 / 2).floor)

/-! ### correctly rounded binary32 square root -/

/-- Newton iteration for the integer square root, from a start above the root -/
def isqrtLoop (n : Nat) : Nat → Nat → Nat
  | 0, x => x
  | fuel + 1, x =>
    if (x + n / x) / 2 < x then isqrtLoop n fuel ((x + n / x) / 2) else x

/-- `⌊√n⌋` (start `2^(⌊log2 n⌋/2 + 1) > √n`; the iteration decreases strictly until it reaches the
root and converges quadratically, so the fuel is never exhausted) -/
def isqrt (n : Nat) : Nat :=
  if n = 0 then 0 else isqrtLoop n (n.log2 + 2) (2 ^ (n.log2 / 2 + 1))

/-- scaling exponent for `f32sqrt`: the least-ish `k` with `q·4^k ≥ 2^50`
(`2^(L-1) < q` for `L = log2 num − log2 den`, so `2k ≥ 51 − L` suffices) -/
def sqrtScale (q : Rat) : Int :=
  (52 - ((Nat.log2 q.num.natAbs : Int) - (Nat.log2 q.den : Int))) / 2

/-- `sqrtf`: the binary32 nearest to `√q` for `q ≥ 0` (0 for `q ≤ 0`).  With `t = q·4^k ≥ 2^50` and
`s = ⌊√t⌋ ≥ 2^25`, either `s² = t` and `√q = s/2^k` exactly, or `s < √t < s+1`; no binary32 value
and no midpoint of two consecutive binary32 values (scaled by `2^k`) lies strictly between two
consecutive integers `≥ 2^25` (in the subnormal range `k ≥ 151`, so the scaled midpoints
`2^(k−150)·j` are integers too), hence `√t` and `s + 1/2` round to the same value. -/
def f32sqrt (q : Rat) : Rat :=
  if q ≤ 0 then 0
  else
    let k := sqrtScale q
    let t := q * pow2 (2 * k)
    let s := isqrt t.floor.toNat
    if ((s * s : Nat) : Rat) = t then f32' ((s : Rat) * pow2 (-k))
    else f32' (((s : Rat) + 1 / 2) * pow2 (-k))

end ColoVerif.F64
