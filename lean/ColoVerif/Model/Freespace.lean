import ColoVerif.Model.Circuit
/-
`Row::freespace` and `Circuit::computeRows` (src/coloquinte.cpp).

The C++ uses boost::polygon: the row rectangle minus the obstacles, sliced into
rectangles, keeping only slabs as high as the row.  The model is 1-D interval
subtraction: an obstacle (normalised so that min ≤ max on both axes, which is
what the constructor of `boost::polygon::rectangle_data` does) *touches*
the row iff it has positive width and height and its open ranges meet the
row's; the result is the list, left to right, of the maximal sub-intervals of
`[minX, maxX)` that no touching obstacle meets, each with the row's y-range and
orientation.  (That boost behaves like this is what the C15 correspondence checks.)

Ill-formed rows, as the code treats them: the row rectangle goes through the same
boost constructor, so a row with `maxX < minX` is handled as `[maxX, minX)`; the
filter `newRow.height() == height()` compares with the *unnormalised* height
`maxY - minY`, so a row with `maxY ≤ minY` yields nothing.
-/
namespace ColoVerif

/-- obstacle with min/max put in order on both axes -/
def Rect.normalize (r : Rect) : Rect :=
  ⟨min r.minX r.maxX, max r.minX r.maxX, min r.minY r.maxY, max r.minY r.maxY⟩

namespace Freespace

/-- the x-interval (clipped to the row) that obstacle `o` removes from `row`, if any; `o` is read with
min/max put in order on both axes -/
def cut (row : Rect) (o : Rect) : Option (Int × Int) :=
  if min o.minX o.maxX < max o.minX o.maxX ∧ min o.minY o.maxY < max o.minY o.maxY ∧
     min o.minY o.maxY < row.maxY ∧ row.minY < max o.minY o.maxY ∧
     min o.minX o.maxX < row.maxX ∧ row.minX < max o.minX o.maxX then
    some (max (min o.minX o.maxX) row.minX, min (max o.minX o.maxX) row.maxX)
  else none

/-- insertion into a list of intervals sorted by lower end -/
def insertIv (iv : Int × Int) : List (Int × Int) → List (Int × Int)
  | [] => [iv]
  | j :: js => if iv.1 ≤ j.1 then iv :: j :: js else j :: insertIv iv js

def sortIvs (l : List (Int × Int)) : List (Int × Int) := l.foldr insertIv []

/-- sweep: `cur` is the first column not yet decided; cuts sorted by lower end -/
def sweep (hi : Int) : Int → List (Int × Int) → List (Int × Int)
  | cur, [] => if cur < hi then [(cur, hi)] else []
  | cur, (a, b) :: rest =>
    if cur < a then (cur, a) :: sweep hi (max cur b) rest else sweep hi (max cur b) rest

/-- free x-intervals of the row -/
def freeIntervals (row : Rect) (obstacles : List Rect) : List (Int × Int) :=
  if row.minX ≠ row.maxX ∧ row.minY < row.maxY then
    sweep (max row.minX row.maxX) (min row.minX row.maxX)
      (sortIvs (obstacles.filterMap (cut row.normalize)))
  else []

end Freespace

/-- `Row::freespace` -/
def Row.freespace (r : Row) (obstacles : List Rect) : List Row :=
  (Freespace.freeIntervals r.rect obstacles).map fun iv =>
    ⟨⟨iv.1, iv.2, r.rect.minY, r.rect.maxY⟩, r.orient⟩

/-- obstacles contributed by the circuit's cells: placements of fixed obstruction cells -/
def Circuit.obstacles (c : Circuit) : List Rect :=
  (c.cells.filter fun cl => cl.fixed && cl.obstruction).map Cell.placement

/-- `Circuit::computeRows(additionalObstacles)` -/
def Circuit.computeRows (c : Circuit) (extra : List Rect := []) : List Row :=
  c.rows.flatMap fun r => r.freespace (extra ++ c.obstacles)

end ColoVerif
