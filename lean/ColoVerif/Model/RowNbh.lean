import ColoVerif.Model.DetPlace
/-
Model of `coloquinte::RowNeighbourhood` (src/place_detailed/row_neighbourhood.{hpp,cpp}).

The four `std::vector<std::vector<int>>` members are lists of lists of row indices (`Int`, as the
C++ `int`), read with `[]` outside (the C++ would be out of bounds there).

`std::sort` is modelled by a stable insertion sort (`sortBy`).  `orderBelow` / `orderAbove` and the
two distance comparators of `buildLeftFrom` / `buildRightFrom` break ties by the row index, so they
are total orders on entries with distinct indices and the result does not depend on the algorithm.
`orderSide` (keys `(minY, minX)`) has no tie-break: for two rows with equal `(minY, minX)` the C++
result is unspecified (`std::sort` is not stable); the model keeps the original order there.

Quirks copied from the code:
* the scan of `rowsBelow` / `rowsAbove` tests `nbFound >= nbNeighbourRows` *after* looking at the
  entry, on every entry: with `nbNeighbourRows ≤ 0` exactly the first following entry is looked at
  (and pushed if it qualifies);
* `buildRowsSides` only looks at *consecutive* entries of the `(minY, minX)` order and never tests
  that they have the same `minY`: the last row of a line and the first row of the next line are
  "side" neighbours whenever `row2.minX >= row1.maxX`;
* `isLeft(row1, row2)` and `isRight(row2, row1)` are the same test (`row2.minX >= row1.maxX`);
* the distance in `buildRightFrom` uses the candidate's `maxX` (like `buildLeftFrom`) against the
  reference row's `maxX`;
* `keepFirstK(inds, nb)` with `nb < 0` would build a vector from an ill-formed iterator range (UB);
  the model uses `List.take nb.toNat` (= `[]`).
-/
namespace ColoVerif.DetPlace
open ColoVerif

/-- `RowNeighbourhood`: `rowsBelow_`, `rowsAbove_`, `rowsLeft_`, `rowsRight_` -/
structure RowNbh where
  below : List (List Int)
  above : List (List Int)
  left  : List (List Int)
  right : List (List Int)
deriving Repr, DecidableEq, Inhabited

namespace RowNbh

/-- an entry of `sortedRows`: `std::pair<int, Rectangle>` -/
abbrev Entry := Int × Rect

/-- `isBelow(r1, r2)` -/
def isBelow (r1 r2 : Rect) : Bool :=
  if r2.minY ≤ r1.minY then false
  else if r2.minX ≥ r1.maxX then false
  else if r2.maxX ≤ r1.minX then false
  else true

/-- `isAbove(r1, r2)` -/
def isAbove (r1 r2 : Rect) : Bool :=
  if r2.minY ≥ r1.minY then false
  else if r2.minX ≥ r1.maxX then false
  else if r2.maxX ≤ r1.minX then false
  else true

/-- `isLeft(r1, r2)` -/
def isLeft (r1 r2 : Rect) : Bool := decide (r2.minX ≥ r1.maxX)

/-- `isRight(r1, r2)` -/
def isRight (r1 r2 : Rect) : Bool := decide (r2.maxX ≤ r1.minX)

/-- `orderBelow` -/
def orderBelow (a b : Entry) : Bool :=
  decide (a.2.minY > b.2.minY) || (decide (a.2.minY = b.2.minY) && decide (a.1 < b.1))

/-- `orderAbove` -/
def orderAbove (a b : Entry) : Bool :=
  decide (a.2.minY < b.2.minY) || (decide (a.2.minY = b.2.minY) && decide (a.1 < b.1))

/-- `orderSide` -/
def orderSide (a b : Entry) : Bool :=
  decide (a.2.minY < b.2.minY) || (decide (a.2.minY = b.2.minY) && decide (a.2.minX < b.2.minX))

/-- insertion of `a` before the first element that is not strictly before it -/
def insertBy (lt : Entry → Entry → Bool) (a : Entry) : List Entry → List Entry
  | [] => [a]
  | b :: bs => if lt b a then b :: insertBy lt a bs else a :: b :: bs

/-- `std::sort(…, lt)` as a stable insertion sort -/
def sortBy (lt : Entry → Entry → Bool) (l : List Entry) : List Entry := l.foldr (insertBy lt) []

/-- `for i: sortedRows.emplace_back(i, rows[i])` -/
def entries (rows : List Rect) : List Entry := rows.zipIdx.map fun ri => (Int.ofNat ri.2, ri.1)

/-- `rows[c]` -/
def rectAt (rows : List Rect) (c : Int) : Rect := if c < 0 then default else rows.getD c.toNat default

/-- the inner loop `for j = i+1 …` of `rowsBelow` / `rowsAbove`: `test row2` is
`isBelow(row2, row1)` resp. `isAbove(row2, row1)`; the break test comes after the push -/
def scanFound (test : Rect → Bool) (nb : Int) : Int → List Entry → List Int
  | _, [] => []
  | found, e :: rest =>
    if test e.2 then
      if found + 1 ≥ nb then [e.1] else e.1 :: scanFound test nb (found + 1) rest
    else
      if found ≥ nb then [] else scanFound test nb found rest

/-- the outer loop: `(ind1, ret[ind1])` for every entry of `sortedRows` -/
def scanAll (rel : Rect → Rect → Bool) (nb : Int) : List Entry → List (Int × List Int)
  | [] => []
  | e :: rest => (e.1, scanFound (fun row2 => rel row2 e.2) nb 0 rest) :: scanAll rel nb rest

/-- `ret[i]` of a vector of `n` empty vectors after the assignments `ret[k] = v` of `assoc`
(every index is assigned at most once by the loops that produce `assoc`) -/
def collect (n : Nat) (assoc : List (Int × List Int)) : List (List Int) :=
  (State.intsUpTo n).map fun i => ((assoc.find? fun kv => kv.1 == i).map (·.2)).getD []

/-- the static `rowsBelow(rows, nbNeighbourRows)` -/
def buildBelow (rows : List Rect) (nb : Int) : List (List Int) :=
  collect rows.length (scanAll isBelow nb (sortBy orderBelow (entries rows)))

/-- the static `rowsAbove(rows, nbNeighbourRows)` -/
def buildAbove (rows : List Rect) (nb : Int) : List (List Int) :=
  collect rows.length (scanAll isAbove nb (sortBy orderAbove (entries rows)))

/-- `v[r]`, `[]` outside -/
def at_ (v : List (List Int)) (r : Int) : List Int := if r < 0 then [] else v.getD r.toNat []

/-- `rowsBelow(row)` -/
def rowsBelow (n : RowNbh) (r : Int) : List Int := at_ n.below r
/-- `rowsAbove(row)` -/
def rowsAbove (n : RowNbh) (r : Int) : List Int := at_ n.above r
/-- `rowsLeft(row)` -/
def rowsLeft (n : RowNbh) (r : Int) : List Int := at_ n.left r
/-- `rowsRight(row)` -/
def rowsRight (n : RowNbh) (r : Int) : List Int := at_ n.right r

/-- `std::abs` -/
def iabs (a : Int) : Int := if a < 0 then -a else a

/-- the comparator of `buildLeftFrom` (`rx = row.minX`) and of `buildRightFrom` (`rx = row.maxX`):
Manhattan distance from the candidate's `(maxX, minY)` to `(rx, ry)`, ties by index -/
def orderDist (rx ry : Int) (a b : Entry) : Bool :=
  decide (iabs (a.2.maxX - rx) + iabs (a.2.minY - ry) < iabs (b.2.maxX - rx) + iabs (b.2.minY - ry)) ||
  (decide (iabs (a.2.maxX - rx) + iabs (a.2.minY - ry) = iabs (b.2.maxX - rx) + iabs (b.2.minY - ry)) &&
   decide (a.1 < b.1))

/-- `candidates` of `buildLeftFrom` / `buildRightFrom` -/
def sideCandidates (below above : List (List Int)) (ind : Int) : List Int :=
  ind :: (at_ above ind ++ at_ below ind)

/-- `buildLeftFrom(row, rows, ind)` -/
def buildLeftFrom (below above : List (List Int)) (row : Rect) (rows : List Rect) (ind : Int) : List Int :=
  (sortBy (orderDist row.minX row.minY)
    (((sideCandidates below above ind).filter fun c => isLeft (rectAt rows c) row).map
      fun c => (c, rectAt rows c))).map (·.1)

/-- `buildRightFrom(row, rows, ind)` -/
def buildRightFrom (below above : List (List Int)) (row : Rect) (rows : List Rect) (ind : Int) : List Int :=
  (sortBy (orderDist row.maxX row.minY)
    (((sideCandidates below above ind).filter fun c => isRight (rectAt rows c) row).map
      fun c => (c, rectAt rows c))).map (·.1)

/-- `keepFirstK` -/
def keepFirstK (inds : List Int) (nb : Int) : List Int :=
  if (inds.length : Int) ≤ nb then inds else inds.take nb.toNat

/-- the assignments `rowsLeft_[ind2] = …` of the loop of `buildRowsSides` over consecutive entries -/
def leftAssoc (below above : List (List Int)) (rows : List Rect) (nb : Int) : List Entry → List (Int × List Int)
  | [] => []
  | [_] => []
  | e1 :: e2 :: rest =>
    if isLeft e1.2 e2.2 then
      (e2.1, keepFirstK (buildLeftFrom below above e2.2 rows e1.1) nb) :: leftAssoc below above rows nb (e2 :: rest)
    else leftAssoc below above rows nb (e2 :: rest)

/-- the assignments `rowsRight_[ind1] = …` -/
def rightAssoc (below above : List (List Int)) (rows : List Rect) (nb : Int) : List Entry → List (Int × List Int)
  | [] => []
  | [_] => []
  | e1 :: e2 :: rest =>
    if isRight e2.2 e1.2 then
      (e1.1, keepFirstK (buildRightFrom below above e1.2 rows e2.1) nb) :: rightAssoc below above rows nb (e2 :: rest)
    else rightAssoc below above rows nb (e2 :: rest)

/-- `RowNeighbourhood(const std::vector<Rectangle>&, int)` = `simpleSetup` -/
def build (rows : List Rect) (nb : Int) : RowNbh :=
  { below := buildBelow rows nb
    above := buildAbove rows nb
    left := collect rows.length
      (leftAssoc (buildBelow rows nb) (buildAbove rows nb) rows nb (sortBy orderSide (entries rows)))
    right := collect rows.length
      (rightAssoc (buildBelow rows nb) (buildAbove rows nb) rows nb (sortBy orderSide (entries rows))) }

/-- `RowNeighbourhood(const std::vector<Row>&, int)` -/
def ofRows (rows : List Row) (nb : Int) : RowNbh := build (rows.map (·.rect)) nb

/-- `nbRows()` -/
def nbRows (n : RowNbh) : Int := n.below.length

/-! ### sanity checks -/

/-- three stacked rows (given out of order: indices 0, 1, 2 are at y = 10, 0, 20) -/
def exStack : List Rect := [⟨0, 10, 10, 20⟩, ⟨0, 10, 0, 10⟩, ⟨0, 10, 20, 30⟩]

example : build exStack 1 = ⟨[[1], [], [0]], [[2], [0], []], [[], [], []], [[], [], []]⟩ := by decide
example : build exStack 2 = ⟨[[1], [], [0, 1]], [[2], [0, 2], []], [[], [], []], [[], [], []]⟩ := by decide
/-- the quirk: with `nbNeighbourRows = 0` the first following entry is still looked at -/
example : build exStack 0 = ⟨[[1], [], [0]], [[2], [0], []], [[], [], []], [[], [], []]⟩ := by decide
example : (build exStack 1).rowsBelow 2 = [0] ∧ (build exStack 1).rowsAbove 3 = [] ∧
    (build exStack 1).rowsAbove (-1) = [] := by decide

/-- two rows side by side -/
def exSide : List Rect := [⟨0, 10, 0, 10⟩, ⟨10, 20, 0, 10⟩]

example : build exSide 1 = ⟨[[], []], [[], []], [[], [0]], [[1], []]⟩ := by decide
/-- `keepFirstK` with `nb = 0` empties the side lists -/
example : build exSide 0 = ⟨[[], []], [[], []], [[], []], [[], []]⟩ := by decide

/-- a 2 × 2 grid: rows 0, 1 at y = 0 and rows 2, 3 at y = 10; the side candidates are the neighbour
and the rows above/below it that are entirely on that side -/
def exGrid : List Rect := [⟨0, 10, 0, 10⟩, ⟨10, 20, 0, 10⟩, ⟨0, 10, 10, 20⟩, ⟨10, 20, 10, 20⟩]

example : build exGrid 2 =
    ⟨[[], [], [0], [1]], [[2], [3], [], []], [[], [0, 2], [], [2, 0]], [[1, 3], [], [3, 1], []]⟩ := by decide

/-- the quirk of `buildRowsSides`: consecutive entries of the `(minY, minX)` order on different lines -/
example : build [⟨0, 10, 0, 10⟩, ⟨10, 20, 10, 20⟩] 1 = ⟨[[], []], [[], []], [[], [0]], [[1], []]⟩ := by decide

example : ofRows [⟨⟨0, 10, 0, 10⟩, .N⟩, ⟨⟨0, 10, 10, 20⟩, .FS⟩] 1 = ⟨[[], [0]], [[1], []], [[], []], [[], []]⟩ := by
  decide

end RowNbh
end ColoVerif.DetPlace
