import ColoVerif.Model.Busy
/-
Line-protocol helpers shared by the C10 and C19 drivers (not imported by any theorem file).

  set <name> <nbCells> <nbNets> <arg>*      arg ::= v <len> 0 | v <len> 1 <value>*len | i <value>
-/
namespace ColoVerif.BusyIO
open ColoVerif.Busy

def int! (s : String) : Int := s.toInt?.getD 0

/-- parse the argument shapes; `fuel` bounds the number of arguments -/
def parseArgs : Nat → List String → List Arg
  | 0, _ => []
  | fuel + 1, "v" :: len :: "0" :: rest => ⟨int! len, [], 0⟩ :: parseArgs fuel rest
  | fuel + 1, "v" :: len :: "1" :: rest =>
    ⟨int! len, (rest.take (int! len).toNat).map int!, 0⟩ :: parseArgs fuel (rest.drop (int! len).toNat)
  | fuel + 1, "i" :: v :: rest => ⟨0, [], int! v⟩ :: parseArgs fuel rest
  | _, _ => []

/-- `set <name> <nbCells> <nbNets> args…` (without the leading word) -/
def parseSetter : List String → Option SetterCall
  | name :: nc :: nn :: rest => some ⟨name, ⟨int! nc, int! nn, parseArgs rest.length rest⟩⟩
  | _ => none

/-- exact value `mant * 2^exp` -/
def ofMantExp (m e : Int) : Rat :=
  if e ≥ 0 then (m : Rat) * ((2 ^ e.toNat : Nat) : Rat) else (m : Rat) / ((2 ^ (-e).toNat : Nat) : Rat)

def pairsToRats : List String → List Rat
  | m :: e :: rest => ofMantExp (int! m) (int! e) :: pairsToRats rest
  | _ => []

/-- strip factors of two from an integer: (odd part, exponent) -/
def stripTwos : Nat → Int → Int → Int × Int
  | 0, m, e => (m, e)
  | fuel + 1, m, e => if m != 0 && m % 2 == 0 then stripTwos fuel (m / 2) (e + 1) else (m, e)

def log2Nat : Nat → Nat → Nat
  | 0, _ => 0
  | fuel + 1, n => if n ≤ 1 then 0 else 1 + log2Nat fuel (n / 2)

/-- the harness' `vc::exactDouble`: "<odd mantissa> <exponent>" ("0 0" for zero); the denominators
that occur are powers of two -/
def showExact (q : Rat) : String :=
  if q.num == 0 then "0 0"
  else if q.den == 1 then
    let (m, e) := stripTwos 2000 q.num 0
    toString m ++ " " ++ toString e
  else toString q.num ++ " " ++ toString (-(Int.ofNat (log2Nat 2000 q.den)))

end ColoVerif.BusyIO
