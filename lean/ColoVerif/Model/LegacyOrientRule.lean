import ColoVerif.Model.OrientRule
/-
Pre-fix behaviour kept for the machine-checked record (DESIGN section 2): before
`fix: c04-invalid-rows` detailed placement accepted every destination row.
-/
namespace ColoVerif.OrientRule
open ColoVerif

/-- detailed placement before `fix: c04-invalid-rows`: every row is accepted (kept for the
witness `C04.detailed_orient_fails_unfixed`) -/
def legacyRowAllowed (_pol : Polarity) (_rowOrient : Orient) : Bool := true

end ColoVerif.OrientRule
