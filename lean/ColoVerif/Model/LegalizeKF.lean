import ColoVerif.Model.Legalize
/-
Executable classifier of known finding KF-C11-2 (`rounded_ordering_keys_tie_or_invert`), the Lean
twin of `kf2Applies` in harness/h_C11.cpp: the driver `drv_C11` answers the op `kf2` with it (row-wide
variant `kf2Class`, then the classifier proper `kf2ClassSeg`, restricted to pairs of cells of one free
segment) and the harness prints what its own binary32 computation says, so the class the theorems talk
about is the class the harness classifies with.

A pair `(a, b)` of movable cells is *inverted* when `a` lies entirely left of `b` at the same y
(same height, positive widths) and `(key b, index b) < (key a, index a)` in the order
`std::stable_sort` uses, i.e. `key a > key b`, or `key a == key b` and `index a > index b`.
-/
namespace ColoVerif.Legalize

/-- one ordered pair of (cell, (key, index)) -/
def kf2Pair (a b : LCell × (Rat × Nat)) : Bool :=
  a.1.ty == b.1.ty && a.1.h == b.1.h && decide (0 < a.1.w) && decide (0 < b.1.w) &&
    decide (a.1.tx + a.1.w ≤ b.1.tx) && keyLt b.2 a.2

def kf2Any (items : List (LCell × (Rat × Nat))) : Bool :=
  items.any fun a => items.any fun b => kf2Pair a b

/-- some pair of movable cells of one row y is inverted by the key computed with rounding `rnd` -/
def kf2Class (rnd : Rat → Rat) (p : Params) (cells : List LCell) : Bool :=
  kf2Any (cells.zip (keyed rnd p.ow p.oy p.oh 0 cells))

/-- both cells lie inside the free segment `r` -/
def sameSegB (r : Row) (a b : LCell) : Bool :=
  r.rect.minY == a.ty && decide (r.rect.minX ≤ a.tx) && decide (a.tx + a.w ≤ r.rect.maxX) &&
    decide (r.rect.minX ≤ b.tx) && decide (b.tx + b.w ≤ r.rect.maxX)

def kf2PairSeg (rows : List Row) (a b : LCell × (Rat × Nat)) : Bool :=
  kf2Pair a b && rows.any fun r => sameSegB r a.1 b.1

def kf2AnySeg (rows : List Row) (items : List (LCell × (Rat × Nat))) : Bool :=
  items.any fun a => items.any fun b => kf2PairSeg rows a b

/-- **the KF-C11-2 classifier**: some pair of movable cells of one free segment of `rows` is inverted -/
def kf2ClassSeg (rnd : Rat → Rat) (p : Params) (rows : List Row) (cells : List LCell) : Bool :=
  kf2AnySeg rows (cells.zip (keyed rnd p.ow p.oy p.oh 0 cells))

/-- the classifier on a circuit, binary32 key as compiled, free segments = `computeRows` -/
def kf2 (p : Params) (c : Circuit) : Bool := kf2ClassSeg f32 p c.computeRows (movable c)

end ColoVerif.Legalize
