import ColoVerif.Model.Ispd
/-
The ISPD writer as it was *before* the `fix:` commits for F16 and F17 (kept only to carry the
machine-checked witnesses of what was wrong; the harness ties `Ispd.write`, not this file).
-/
namespace ColoVerif.Ispd.Legacy
open ColoVerif.Ispd

/-- pre-F16: `f << "  Siteorient    : 1\n"` -/
def writeRow (r : Row) : RowRec :=
  ⟨r.rect.minY, r.rect.height, 1, r.rect.minX, r.rect.width, "1"⟩

/-- pre-F17: `circuit.pinXOffset(i, j) - 0.5 * circuit.cellWidth_[c]` — the *oriented* offset minus
half of the *unrotated* size -/
def writePin (c : Circuit) (p : Pin) : PinRec :=
  ⟨cellName p.cell, fmt6 (2 * Circuit.pinXOffset (c.cell p.cell) p - (c.cell p.cell).w),
                    fmt6 (2 * Circuit.pinYOffset (c.cell p.cell) p - (c.cell p.cell).h)⟩

def writeNetsFrom (c : Circuit) : Nat → List Net → List NetRec
  | _, [] => []
  | k, n :: ns => ⟨n.pins.length, netName k, n.pins.map (writePin c)⟩ :: writeNetsFrom c (k + 1) ns

/-- `Circuit::exportIspd` before F16/F17 -/
def write (c : Circuit) : Files :=
  { Ispd.write c with nets := writeNetsFrom c 0 c.nets, rows := c.rows.map writeRow }

/-- only F16 unfixed -/
def writeF16 (c : Circuit) : Files :=
  { Ispd.write c with rows := c.rows.map writeRow }

/-- only F17 unfixed -/
def writeF17 (c : Circuit) : Files :=
  { Ispd.write c with nets := writeNetsFrom c 0 c.nets }

/-- two rows N / FS as produced by `Circuit::setupRows`, one cell -/
def witnessRows : Circuit :=
  ⟨[⟨2, 4, 0, 0, .N, false, true, .SAME⟩], [], [⟨⟨0, 10, 0, 4⟩, .N⟩, ⟨⟨0, 10, 4, 8⟩, .FS⟩]⟩

/-- a 4x2 cell oriented S with a pin at (1,0), connected to a pin at (0,0) of a fixed 0x0 cell at the origin -/
def witnessPins : Circuit :=
  ⟨[⟨4, 2, 0, 0, .S, false, true, .SAME⟩, ⟨0, 0, 0, 0, .N, true, true, .SAME⟩],
   [⟨1, 0, [⟨0, 1, 0⟩, ⟨1, 0, 0⟩]⟩],
   [⟨⟨0, 10, 0, 2⟩, .N⟩]⟩

end ColoVerif.Ispd.Legacy
