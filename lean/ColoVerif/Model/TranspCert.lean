/-
Optimality certificate for the transportation problem

    minimise   Σ_i Σ_j cost i j · x i j
    subject to Σ_i x i j = demand j  (every source fully allocated)
               Σ_j x i j ≤ capacity i (no sink over capacity),   x i j ≥ 0

`checkCert p x u v` decides primal feasibility of `x`, dual feasibility of the potentials
(`u j` per source, `v i ≥ 0` per sink, `u j − v i ≤ cost i j`) and complementary slackness.
`Properties/C13.lean` proves that an accepted certificate implies optimality (`cert_optimal`).

`potentials` *computes* candidate potentials from an allocation (Bellman–Ford on the residual
graph between sinks: `v i` = cheapest cost of moving one unit out of sink `i` to free capacity —
what `sendingCost_` stands for in the solver).  It is untrusted: only `checkCert`'s verdict counts.
-/
import ColoVerif.Model.Transp
namespace ColoVerif.Transp

/-- `∀ i < n, f i` as a Bool -/
def allTo : Nat → (Nat → Bool) → Bool
  | 0, _ => true
  | n + 1, f => allTo n f && f n

def rowSum (x : Mat) (m i : Nat) : Int := sumTo m (fun j => get2 x i j)
def colSum (x : Mat) (n j : Nat) : Int := sumTo n (fun i => get2 x i j)

/-- total cost of an allocation, in the problem's (fixed-point) integer costs -/
def costOf (p : Problem) (x : Mat) : Int :=
  sumTo p.nbSinks (fun i => sumTo p.nbSources (fun j => p.cost i j * get2 x i j))

/-- the matrix has exactly the problem's shape (the theorems do not need it; the harness does) -/
def shapeOk (p : Problem) (x : Mat) : Bool :=
  x.length == p.nbSinks && x.all (fun r => r.length == p.nbSources)

def primalOk (p : Problem) (x : Mat) : Bool :=
  allTo p.nbSinks (fun i => allTo p.nbSources (fun j => decide (0 ≤ get2 x i j))) &&
  allTo p.nbSources (fun j => decide (colSum x p.nbSinks j = p.demand j)) &&
  allTo p.nbSinks (fun i => decide (rowSum x p.nbSources i ≤ p.capacity i))

def dualOk (p : Problem) (u v : List Int) : Bool :=
  allTo p.nbSinks (fun i => decide (0 ≤ v.getD i 0)) &&
  allTo p.nbSinks (fun i => allTo p.nbSources (fun j => decide (u.getD j 0 - v.getD i 0 ≤ p.cost i j)))

def slackOk (p : Problem) (x : Mat) (u v : List Int) : Bool :=
  allTo p.nbSinks (fun i => allTo p.nbSources (fun j =>
    decide (get2 x i j = 0 ∨ u.getD j 0 - v.getD i 0 = p.cost i j))) &&
  allTo p.nbSinks (fun i => decide (v.getD i 0 = 0 ∨ rowSum x p.nbSources i = p.capacity i))

def checkCert (p : Problem) (x : Mat) (u v : List Int) : Bool :=
  primalOk p x && dualOk p u v && slackOk p x u v

/-! ### computing candidate potentials (untrusted) -/

def optMin : Option Int → Option Int → Option Int
  | none, b => b
  | a, none => a
  | some a, some b => some (min a b)

abbrev AMat := Array (Array Int)

def toAMat (m : Mat) : AMat := (m.map List.toArray).toArray

def aget (m : AMat) (i j : Nat) : Int := (m.getD i #[]).getD j 0

/-- cheapest cost of moving one unit of some source present in sink `i` over to sink `k` -/
def moveW (nSources : Nat) (c x : AMat) (i k : Nat) : Option Int :=
  (List.range nSources).foldl (fun acc j =>
    if aget x i j > 0 then optMin acc (some (aget c k j - aget c i j)) else acc) none

def bfRound (n : Nat) (w : Array (Array (Option Int))) (d : Array (Option Int)) : Array (Option Int) :=
  (Array.range n).map (fun i =>
    (List.range n).foldl (fun acc k =>
      match (w.getD i #[]).getD k none, d.getD k none with
      | some wik, some dk => optMin acc (some (wik + dk))
      | _, _ => acc) (d.getD i none))

def iter {α : Type} (f : α → α) : Nat → α → α
  | 0, a => a
  | n + 1, a => iter f n (f a)

/-- `(u, v)` -/
def potentials (p : Problem) (x : Mat) : List Int × List Int :=
  let n := p.nbSinks
  let m := p.nbSources
  let xa := toAMat x
  let ca := toAMat p.costs
  let free := (Array.range n).map (fun i =>
    decide ((List.range m).foldl (fun acc j => acc + aget xa i j) 0 < p.capacity i))
  let anyFree := free.any id
  let d0 : Array (Option Int) := free.map (fun f => if f || !anyFree then some 0 else none)
  let w := (Array.range n).map (fun i => (Array.range n).map (fun k => if i == k then none else moveW m ca xa i k))
  let d := iter (bfRound n w) n d0
  let v0 := d.map (fun o => o.getD 0)
  let shift := if anyFree then 0 else v0.foldl (fun a b => min a b) 0
  let v := v0.map (fun a => a - shift)
  let u := (List.range m).map (fun j =>
    ((List.range n).foldl (fun acc i => optMin acc (some (aget ca i j + v.getD i 0))) none).getD 0)
  (u, v.toList)

/-- `3·|cost| < INT_MAX` for every entry: the hypothesis of the universal theorems about `solve`
(`Properties/C13.lean`), evaluated by the driver on every solved instance (`bound ok`).  With it no sum
`sendingCost_ + cost` formed by the solver reaches the sentinel `INT_MAX`; `costsFromIntegers` scales
float costs to `|cost| ≤ INT_MAX/(4·nbSinks)`. -/
def costBoundOk (p : Problem) : Bool :=
  allTo p.nbSinks (fun i => allTo p.nbSources (fun j =>
    decide (3 * p.cost i j < intMax) && decide (-intMax < 3 * p.cost i j)))

/-- what the driver evaluates on every solved instance -/
def certifies (p : Problem) (x : Mat) : Bool :=
  shapeOk p x && checkCert p x (potentials p x).1 (potentials p x).2

end ColoVerif.Transp
