import ColoVerif.Model.Transp1d
/-
The self-checks of the one-dimensional transportation solver
(src/place_global/transportation_1d.cpp): `Transportation1d::check`, `checkSorted`,
`checkNonZeroCapacities`, `checkSolutionValid`, `Transportation1dSolver::check`,
`Transportation1dSolver::checkSolutionOptimal`, and `Transportation1d::solve()` WITH the calls of
these checks where the C++ makes them (`solveFull`).

Conventions (on top of those of `Model/Transp1d.lean`)
* every `throw std::runtime_error(msg)` is `CkErr.thrown site`, one `Site` per message, so the model
  predicts not only whether but also where the C++ throws; errors of the base model (out-of-range
  `operator[]`, fuel) are `CkErr.model e`.
* a `for` loop whose body is only `if (bad) throw` is `List.any` / a structural loop with
  bounds-checked reads (`cmpLoop`) when it indexes a second vector.
* `gainRight` / `gainLeft` are `std::vector<long long>` initialised with the sentinel
  `std::numeric_limits<long long>::min()`: here `List (Option Int)`, `none` = sentinel;
  `std::max(sentinel, g) = g` (`omax`).  Since the repair of F11 (`if (nxt + 1 < nbSinks())`,
  `if (nxt >= 1)`) the entries of the last / first sink are not read.  A sentinel that would enter
  arithmetic anyway (`gain += LLONG_MIN`: signed overflow, i.e. undefined behaviour, as soon as the
  running gain is negative) is reported as `CkErr.sentinel`; `Proofs/Transp1dChecks.lean` shows
  that this never happens inside `solve()`.
* the scans of `checkSolutionOptimal` reassign their loop variable (`snk = nxt - 1; break;`): the
  outer loops run on fuel `nbSinks + 1` (the variable moves by at least one per iteration; running
  out of fuel is `Err.outOfFuel` and proved impossible), the inner loops are structural.
Core Lean only (the driver executes these definitions).
-/
namespace ColoVerif.Transp1d

/-- the `throw std::runtime_error` sites, by message -/
inductive Site where
  /-- "Inconsistant source positions" (dead: `nbSources()` is `u.size()`) -/
  | srcPosSize
  /-- "Inconsistant sink positions" (dead: `nbSinks()` is `v.size()`) -/
  | snkPosSize
  /-- "Inconsistant supplies" -/
  | supSize
  /-- "Inconsistant demands" -/
  | demSize
  /-- "Supplies must be non-negative" -/
  | supNeg
  /-- "Demands must be non-negative" -/
  | demNeg
  /-- "The supply should be no larger than the demand" -/
  | supGtDem
  /-- "Inconsistant total supplies" -/
  | totSupSize
  /-- "Inconsistant total demands" -/
  | totDemSize
  /-- "Too many positions computed" -/
  | tooManyPos
  /-- "Source positions should be sorted" -/
  | srcUnsorted
  /-- "Sink positions should be sorted" -/
  | snkUnsorted
  /-- "Supplies must be non-zero" -/
  | supZero
  /-- "Demands must be non-zero" -/
  | demZero
  /-- "Allocation should be positive" -/
  | allocNonPos
  /-- "Supply is not met" -/
  | supNotMet
  /-- "Demand is not met" -/
  | demExceeded
  /-- "Found an improving right move" -/
  | improvingRight
  /-- "Found an improving left move" -/
  | improvingLeft
deriving Repr, DecidableEq, Inhabited

inductive CkErr where
  /-- `throw std::runtime_error` at the given site -/
  | thrown (s : Site)
  /-- an error of the base model: out-of-range `operator[]`, out of fuel -/
  | model (e : Err)
  /-- the `LLONG_MIN` sentinel of `gainRight`/`gainLeft` enters `gain += …` -/
  | sentinel
deriving Repr, DecidableEq, Inhabited

abbrev K := Except CkErr

def liftK {α : Type} (x : M α) : K α :=
  match x with
  | .ok a => .ok a
  | .error e => .error (.model e)

def throwAt {α : Type} (s : Site) : K α := .error (.thrown s)

/-! ### Transportation1d::check, checkSorted, checkNonZeroCapacities -/

/-- `Transportation1d::check()`, test by test in the order of the C++ -/
def checkInput (pb : Problem) : K Unit :=
  if pb.u.length ≠ pb.nbSources then throwAt .srcPosSize
  else if pb.v.length ≠ pb.nbSinks then throwAt .snkPosSize
  else if pb.s.length ≠ pb.nbSources then throwAt .supSize
  else if pb.d.length ≠ pb.nbSinks then throwAt .demSize
  else if pb.s.any (fun c => decide (c < 0)) then throwAt .supNeg
  else if pb.d.any (fun c => decide (c < 0)) then throwAt .demNeg
  else do
    let ts ← liftK (totalSupply pb)
    let td ← liftK (totalDemand pb)
    if td < ts then throwAt .supGtDem else pure ()

/-- `for (i = 0; i + 1 < n; ++i) if (l[i + 1] < l[i])` finds something -/
def hasDescent : List Int → Bool
  | a :: b :: r => decide (b < a) || hasDescent (b :: r)
  | _ => false

/-- `for (long long c : l) if (c == 0)` finds something -/
def hasZero (l : List Int) : Bool := l.any (fun c => decide (c = 0))

def Solver.toProblem (sv : Solver) : Problem := ⟨sv.u, sv.v, sv.s, sv.d⟩

/-- `Transportation1dSolver::check()` with `p.size() = pLen`: the base check, the sizes of the
prefix sums, `checkSorted()`, `checkNonZeroCapacities()` -/
def solverCheck (sv : Solver) (pLen : Nat) : K Unit := do
  checkInput sv.toProblem
  if sv.S.length ≠ sv.nbSources + 1 then throwAt .totSupSize
  else if sv.D.length ≠ sv.nbSinks + 1 then throwAt .totDemSize
  else if sv.nbSources < pLen then throwAt .tooManyPos
  else if hasDescent sv.u then throwAt .srcUnsorted
  else if hasDescent sv.v then throwAt .snkUnsorted
  else if hasZero sv.s then throwAt .supZero
  else if hasZero sv.d then throwAt .demZero
  else pure ()

/-! ### Transportation1d::checkSolutionValid -/

/-- `l[k] += a` -/
def addAt (l : List Int) (k : Nat) (a : Int) : M (List Int) := do
  let x ← get l k
  setAt l k (x + a)

/-- the loop over `alloc` of `checkSolutionValid`: `usedSupply[i] += a; usedDemand[j] += a;
if (a <= 0) throw` -/
def validLoop : Plan → List Int → List Int → K (List Int × List Int)
  | [], us, ud => pure (us, ud)
  | (i, j, a) :: es, us, ud => do
    let us' ← liftK (addAt us i a)
    let ud' ← liftK (addAt ud j a)
    if a ≤ 0 then throwAt .allocNonPos else validLoop es us' ud'

/-- `for (i = 0; i < n; ++i) if (bad(xs[i], ys[i])) throw`; `cnt = n - i` -/
def cmpLoop (bad : Int → Int → Bool) (site : Site) (xs ys : List Int) : Nat → Nat → K Unit
  | 0, _ => pure ()
  | cnt + 1, i => do
    let a ← liftK (get xs i)
    let b ← liftK (get ys i)
    if bad a b then throwAt site else cmpLoop bad site xs ys cnt (i + 1)

/-- `Transportation1d::checkSolutionValid(alloc)` -/
def checkSolutionValid (pb : Problem) (sol : Plan) : K Unit := do
  let r ← validLoop sol (List.replicate pb.nbSources 0) (List.replicate pb.nbSinks 0)
  cmpLoop (fun a b => decide (a ≠ b)) .supNotMet r.1 pb.s pb.nbSources 0
  cmpLoop (fun a b => decide (b < a)) .demExceeded r.2 pb.d pb.nbSinks 0

/-! ### Transportation1dSolver::checkSolutionOptimal -/

/-- `for (auto [i, j, a] : alloc) usedCap[j] += a` -/
def usedCapLoop : Plan → List Int → M (List Int)
  | [], uc => pure uc
  | (_, j, a) :: es, uc => do
    let uc' ← addAt uc j a
    usedCapLoop es uc'

/-- `std::max(old, g)` where `old` may be the sentinel `LLONG_MIN` -/
def omax (old : Option Int) (g : Int) : Int :=
  match old with
  | none => g
  | some x => max x g

/-- `if (j + 1 < nbSinks()) gainRight[j] = max(gainRight[j], cost(i, j) - cost(i, j + 1))` -/
def gainRightLoop (sv : Solver) : Plan → List (Option Int) → M (List (Option Int))
  | [], gr => pure gr
  | (i, j, _) :: es, gr =>
    if j + 1 < sv.nbSinks then do
      let c0 ← cost sv i j
      let c1 ← cost sv i (j + 1)
      let old ← get gr j
      let gr' ← setAt gr j (some (omax old (c0 - c1)))
      gainRightLoop sv es gr'
    else gainRightLoop sv es gr

/-- `if (j - 1 >= 0) gainLeft[j] = max(gainLeft[j], cost(i, j) - cost(i, j - 1))` -/
def gainLeftLoop (sv : Solver) : Plan → List (Option Int) → M (List (Option Int))
  | [], gl => pure gl
  | (i, j, _) :: es, gl =>
    if 1 ≤ j then do
      let c0 ← cost sv i j
      let c1 ← cost sv i (j - 1)
      let old ← get gl j
      let gl' ← setAt gl j (some (omax old (c0 - c1)))
      gainLeftLoop sv es gl'
    else gainLeftLoop sv es gl

/-- read an entry of `gainRight`/`gainLeft` into the running gain -/
def readGain (g : List (Option Int)) (k : Nat) : K Int :=
  match get g k with
  | .ok (some x) => .ok x
  | .ok none => .error .sentinel
  | .error e => .error (.model e)

/-- `for (nxt = …; nxt < nbSinks(); ++nxt)` of the right scan; `cnt = nbSinks() - nxt`.
`some nxt`: left by `break` at the first sink with spare capacity; `none`: ran to the end. -/
def rightInner (sv : Solver) (uc : List Int) (gr : List (Option Int)) :
    Nat → Nat → Int → K (Option Nat)
  | 0, _, _ => pure none
  | cnt + 1, nxt, gain => do
    let un ← liftK (get uc nxt)
    let dn ← liftK (get sv.d nxt)
    if un < dn then
      if 0 < gain then throwAt .improvingRight else pure (some nxt)
    else if nxt + 1 < sv.nbSinks then do
      let g ← readGain gr nxt
      rightInner sv uc gr cnt (nxt + 1) (gain + g)
    else rightInner sv uc gr cnt (nxt + 1) gain

/-- the value of `snk` at the next test of the outer loop of the right scan
(`snk = nxt - 1; break;` then `++snk`, or just `++snk`) -/
def nextRight (r : Option Nat) (snk : Nat) : Nat :=
  match r with
  | some nxt => nxt
  | none => snk + 1

/-- `for (snk = 0; snk + 1 < nbSinks(); ++snk)` -/
def rightOuter (sv : Solver) (uc : List Int) (gr : List (Option Int)) : Nat → Nat → K Unit
  | 0, _ => .error (.model .outOfFuel)
  | fuel + 1, snk =>
    if snk + 1 < sv.nbSinks then do
      let us ← liftK (get uc snk)
      if us = 0 then rightOuter sv uc gr fuel (snk + 1)
      else do
        let g ← readGain gr snk
        let r ← rightInner sv uc gr (sv.nbSinks - (snk + 1)) (snk + 1) g
        rightOuter sv uc gr fuel (nextRight r snk)
    else pure ()

/-- `for (nxt = snk - 1; nxt >= 0; --nxt)` of the left scan; the first argument is `nxt + 1` -/
def leftInner (sv : Solver) (uc : List Int) (gl : List (Option Int)) : Nat → Int → K (Option Nat)
  | 0, _ => pure none
  | nxt + 1, gain => do
    let un ← liftK (get uc nxt)
    let dn ← liftK (get sv.d nxt)
    if un < dn then
      if 0 < gain then throwAt .improvingLeft else pure (some nxt)
    else if 1 ≤ nxt then do
      let g ← readGain gl nxt
      leftInner sv uc gl nxt (gain + g)
    else leftInner sv uc gl nxt gain

/-- the value of `snk` at the next test of the outer loop of the left scan
(`snk = nxt + 1; break;` then `--snk`, or just `--snk`) -/
def nextLeft (r : Option Nat) (snk : Nat) : Nat :=
  match r with
  | some nxt => nxt
  | none => snk - 1

/-- `for (snk = nbSinks() - 1; snk >= 1; --snk)` -/
def leftOuter (sv : Solver) (uc : List Int) (gl : List (Option Int)) : Nat → Nat → K Unit
  | 0, _ => .error (.model .outOfFuel)
  | fuel + 1, snk =>
    if 1 ≤ snk then do
      let us ← liftK (get uc snk)
      if us = 0 then leftOuter sv uc gl fuel (snk - 1)
      else do
        let g ← readGain gl snk
        let r ← leftInner sv uc gl snk g
        leftOuter sv uc gl fuel (nextLeft r snk)
    else pure ()

/-- `Transportation1dSolver::checkSolutionOptimal(alloc)` -/
def checkSolutionOptimal (sv : Solver) (sol : Plan) : K Unit := do
  let uc ← liftK (usedCapLoop sol (List.replicate sv.nbSinks 0))
  let gr ← liftK (gainRightLoop sv sol (List.replicate sv.nbSinks none))
  let gl ← liftK (gainLeftLoop sv sol (List.replicate sv.nbSinks none))
  rightOuter sv uc gr (sv.nbSinks + 1) 0
  leftOuter sv uc gl (sv.nbSinks + 1) (sv.nbSinks - 1)

/-! ### Transportation1d::solve with its self-checks -/

/-- `Transportation1d::solve()`:
`check(); sorter; convert; solver.check(); solver.run(); computeSolution();
solver.checkSolutionValid(sol); solver.checkSolutionOptimal(sol); convertSolutionBack(sol)` -/
def solveFull (pb : Problem) : K Plan := do
  checkInput pb
  let so ← liftK (mkSorter pb)
  let sv ← liftK (convert so pb)
  solverCheck sv 0
  let p ← liftK (run sv)
  let sol ← liftK (computeSolution sv p)
  checkSolutionValid sv.toProblem sol
  checkSolutionOptimal sv sol
  liftK (convertSolutionBack so sol)

end ColoVerif.Transp1d
