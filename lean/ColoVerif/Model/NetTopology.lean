import ColoVerif.Model.NetAsm
import ColoVerif.Model.Circuit
import ColoVerif.Model.Legalize
/-
C17 — model of `NetModel::xTopology` / `NetModel::yTopology`
(/repo/src/place_global/net_model.cpp): how the `NetModel` net list is built from a `Circuit`.

For every circuit net `i` (in order) the code walks the pins: a pin on a *fixed* cell only
updates `minPos`/`maxPos` (`(float)(x(cell) + offset)`), a pin on a movable cell is pushed with
the offset `offset - 0.5f * placedWidth(cell)` (offset to the cell centre); then
`minPos = max(minPos, areaMin)`, `maxPos = min(maxPos, areaMax)` (placement area =
`Circuit::computePlacementArea`) and `ret.addNet(cells, offsets, minPos, maxPos, netWeight(i))`.
`addNet` is the model of `Model/NetAsm.lean` (`addNetWith`): it silently stores nothing for a
net without movable pin or with a single stored pin.

Floats are modelled over `Rat`, and every int → float conversion and every float operation of
these two functions is rounded with `Legalize.f32`, the binary32 round-to-nearest-even of
`Model/Legalize.lean` (the same definition the C11 ordering keys use): `(float)pos`,
`(float)areaMin`, and `offset - 0.5f * placedWidth` = `f32 (f32 offset − f32 (½ · f32 width))`
(usual arithmetic conversions: both `int`s are converted to `float`, the product and the difference
are rounded once each; x86-64/SSE, no FMA contraction).  The conversions are exact below 2^24 in
magnitude (`Proofs/NetTopologyF32.lean`) and round above.  `int pos = x(cell) + offset` is an
unbounded `Int` (overflow is C07's obligation).  `minPos = +inf`, `maxPos = -inf` (no fixed pin
seen yet) is `none`; the two are always set together.  Net weights are the exact binary32 values
`wMant * 2^wExp` of the shared `Circuit` record.  Core Lean only.
-/
namespace ColoVerif.NetTopology
open ColoVerif.NetAsm

/-- `xTopology` or `yTopology`. -/
inductive Axis where
  | x | y
  deriving Repr, DecidableEq

/-- `Circuit::netWeight(i)`: the exact value of the binary32 weight. -/
def netWeight (n : ColoVerif.Net) : Rat := (n.wMant : Rat) * (2 : Rat) ^ n.wExp

/-- `circuit.pinXOffset(i, j)` / `circuit.pinYOffset(i, j)`. -/
def pinOffset (a : Axis) (cl : Cell) (p : ColoVerif.Pin) : Int :=
  match a with
  | .x => Circuit.pinXOffset cl p
  | .y => Circuit.pinYOffset cl p

/-- `circuit.x(cell)` / `circuit.y(cell)`. -/
def cellPos (a : Axis) (cl : Cell) : Int :=
  match a with
  | .x => cl.x
  | .y => cl.y

/-- `circuit.placedWidth(cell)` / `circuit.placedHeight(cell)`. -/
def placedSize (a : Axis) (cl : Cell) : Int :=
  match a with
  | .x => cl.placedWidth
  | .y => cl.placedHeight

/-- `(float)v` for a C++ `int`: binary32 round-to-nearest-even. -/
def toFloat (v : Int) : Rat := Legalize.f32 (v : Rat)

/-- The integers binary32 represents exactly without further conditions: `|v| ≤ 2^24`. -/
def SmallInt (v : Int) : Prop := -16777216 ≤ v ∧ v ≤ 16777216

/-- `float areaMin = area.minX` / `float areaMax = area.maxX` of `circuit.computePlacementArea()`. -/
def areaMin (a : Axis) (c : Circuit) : Rat :=
  match a with
  | .x => toFloat c.placementArea.minX
  | .y => toFloat c.placementArea.minY

def areaMax (a : Axis) (c : Circuit) : Rat :=
  match a with
  | .x => toFloat c.placementArea.maxX
  | .y => toFloat c.placementArea.maxY

/-- `minPos = std::min(minPos, v); maxPos = std::max(maxPos, v)` where `none` is the initial
`(+inf, -inf)`. -/
def foldFixed (r : Option (Rat × Rat)) (v : Rat) : Option (Rat × Rat) :=
  match r with
  | none => some (v, v)
  | some (mn, mx) => some (rmin mn v, rmax mx v)

/-- State of the loop over the pins of one net: `(minPos, maxPos)` and `cells`/`offsets`. -/
structure PinAcc where
  range : Option (Rat × Rat)
  pins : List NetAsm.Pin
  deriving Repr, DecidableEq

/-- The pin pushed for a movable cell: `cells.push_back(cell);
offsets.push_back(offset - 0.5f * placedWidth(cell))`. -/
def movablePin (a : Axis) (c : Circuit) (p : ColoVerif.Pin) : NetAsm.Pin :=
  ((p.cell : Int),
    Legalize.f32 (toFloat (pinOffset a (c.cell p.cell) p)
      - Legalize.f32 ((1 / 2 : Rat) * toFloat (placedSize a (c.cell p.cell)))))

/-- `(float)pos` with `int pos = circuit.x(cell) + offset`. -/
def fixedPos (a : Axis) (c : Circuit) (p : ColoVerif.Pin) : Rat :=
  toFloat (cellPos a (c.cell p.cell) + pinOffset a (c.cell p.cell) p)

/-- Body of `for (int j = 0; j < circuit.nbPinsNet(i); ++j)`. -/
def pinStep (a : Axis) (c : Circuit) (acc : PinAcc) (p : ColoVerif.Pin) : PinAcc :=
  if (c.cell p.cell).fixed then ⟨foldFixed acc.range (fixedPos a c p), acc.pins⟩
  else ⟨acc.range, acc.pins ++ [movablePin a c p]⟩

/-- `minPos = std::max(minPos, areaMin); maxPos = std::min(maxPos, areaMax)` (infinite values stay
infinite, i.e. `none`). -/
def clampRange (a : Axis) (c : Circuit) (r : Option (Rat × Rat)) : Option (Rat × Rat) :=
  match r with
  | none => none
  | some (mn, mx) => some (rmax mn (areaMin a c), rmin mx (areaMax a c))

/-- The loop over the pins of one net. -/
def walkPins (a : Axis) (c : Circuit) (n : ColoVerif.Net) : PinAcc :=
  n.pins.foldl (pinStep a c) ⟨none, []⟩

/-- The arguments of the `ret.addNet(cells, offsets, minPos, maxPos, circuit.netWeight(i))` call
made for circuit net `n`. -/
def rawOf (a : Axis) (c : Circuit) (n : ColoVerif.Net) : RawNet :=
  ⟨netWeight n, (walkPins a c n).pins, clampRange a c (walkPins a c n).range⟩

/-- The sequence of `addNet` calls of `xTopology(circuit)` / `yTopology(circuit)`. -/
def rawNets (a : Axis) (c : Circuit) : List RawNet := c.nets.map (rawOf a c)

/-- `NetModel::xTopology(circuit)` / `NetModel::yTopology(circuit)`: the stored net list (the
model has `nbCells = circuit.nbCells()`); storage conversion of the weights from the translated
declaration, as in `NetAsm.build`. -/
def topology (a : Axis) (c : Circuit) : List NetAsm.Net := build (rawNets a c)

/-! ### Statement side: which circuit nets are kept, and what they must look like -/

/-- Number of pins of a circuit net that sit on movable cells. -/
def nbMovable (c : Circuit) (n : ColoVerif.Net) : Nat :=
  (n.pins.filter (fun p => !(c.cell p.cell).fixed)).length

/-- The net has a pin on a fixed cell. -/
def hasFixed (c : Circuit) (n : ColoVerif.Net) : Bool :=
  n.pins.any (fun p => (c.cell p.cell).fixed)

/-- A circuit net carries wirelength for the continuous solver iff it has a movable pin and
something else to pull it: a second movable pin or a fixed pin.  All other nets (no pin, fixed
cells only, a single dangling movable pin) are *degenerate*. -/
def IsKept (c : Circuit) (n : ColoVerif.Net) : Bool :=
  decide (1 ≤ nbMovable c n) && (decide (2 ≤ nbMovable c n) || hasFixed c n)

/-- Positions `(float)(x(cell) + offset)` of the pins of a net that sit on fixed cells. -/
def fixedPositions (a : Axis) (c : Circuit) (n : ColoVerif.Net) : List Rat :=
  (n.pins.filter (fun p => (c.cell p.cell).fixed)).map (fixedPos a c)

/-- `r` is `none` and `vs` is empty, or `r = some (min vs, max vs)`. -/
def RangeOf (vs : List Rat) (r : Option (Rat × Rat)) : Prop :=
  match r with
  | none => vs = []
  | some (mn, mx) => mn ∈ vs ∧ mx ∈ vs ∧ ∀ v ∈ vs, mn ≤ v ∧ v ≤ mx

/-- Pins of the stored net for circuit net `n`: the movable pins in order, then the clamped
extreme positions of the fixed pins (one pin if they coincide). -/
def storedPins (a : Axis) (c : Circuit) (n : ColoVerif.Net) : List NetAsm.Pin :=
  withFixed (rawOf a c n).pins (rawOf a c n).fixedMinMax

/-- The explicit index map from kept nets to circuit nets: indices (starting at `i`) of the
non-degenerate nets, in order. -/
def keptIdxFrom (c : Circuit) : Nat → List ColoVerif.Net → List Nat
  | _, [] => []
  | i, n :: ns => if IsKept c n then i :: keptIdxFrom c (i + 1) ns else keptIdxFrom c (i + 1) ns

/-- `keptIdx c`: the `k`-th net of the `NetModel` comes from circuit net `(keptIdx c)[k]`. -/
def keptIdx (c : Circuit) : List Nat := keptIdxFrom c 0 c.nets

/-- The nets of the documented quadratic at circuit level: each non-degenerate circuit net with
*its own* weight `Circuit::netWeight`. -/
def circuitNets (a : Axis) (c : Circuit) : List NetAsm.Net :=
  (c.nets.filter (IsKept c)).map (fun n => ⟨netWeight n, storedPins a c n⟩)

/-- The documented weighted quadratic of the initial (star) solve of a circuit along one axis:
a net with two stored pins costs `W (p0 - p1)²`, a larger net `(W/nb) Σ (p_i - x_star)²`, with
`W = Circuit::netWeight`. -/
def circuitQ (a : Axis) (c : Circuit) (x : Nat → Rat) : Rat :=
  Q0 x c.cells.length (circuitNets a c)

/-- Validity of the circuit as enforced by `Circuit::addNet`/`setNets` (pin cells in range) and
non-negative weights. -/
def CircuitOk (c : Circuit) : Prop :=
  ∀ n ∈ c.nets, 0 ≤ n.wMant ∧ ∀ p ∈ n.pins, p.cell < c.cells.length

end ColoVerif.NetTopology
