import ColoVerif.Model.Circuit
/-
C03 — the three functions through which the placement stages write into a `Circuit`
(`GlobalPlacer::exportPlacement(Circuit&, xplace, yplace)` in place_global.cpp,
`Legalizer::exportPlacement` in legalizer.cpp, `DetailedPlacement::exportPlacement` in
detailed_placement.cpp), modelled loop for loop over the shared `Circuit` record, and the
frame relation they are proved to respect.  Core Lean only (the driver links this file).

Conventions: C++ `int` is `Int`; the float/double arithmetic of the global export
(`std::round(xplace[i] - 0.5 * placedWidth(i))`) is modelled exactly over `Rat`
(`std::round` = round half away from zero); the correspondence harness only compares cases
where the double subtraction is exact.  Out-of-range vector reads (undefined behaviour in
C++, rejected by `assert`s in the assert-enabled build) read a default value here; the
frame theorems hold for *any* vectors, including such ones.
-/
namespace ColoVerif.Export

/-- `std::round` on an exact value: nearest integer, halves away from zero. -/
def roundHalfAway (q : Rat) : Int :=
  if 0 ≤ q then (q + 1 / 2).floor else -((-q + 1 / 2).floor)

/-- `circuit.cellX_[i] = x; circuit.cellY_[i] = y;` -/
def writeXY (x y : Int) (cl : Cell) : Cell := { cl with x := x, y := y }

/-- `circuit.cellX_[i] = x; circuit.cellY_[i] = y; circuit.cellOrientation_[i] = o;` -/
def writeXYO (x y : Int) (o : Orient) (cl : Cell) : Cell := { cl with x := x, y := y, orient := o }

/-- in-place update of cell `i` (no effect when `i` is out of range) -/
def updCell (c : Circuit) (i : Nat) (f : Cell → Cell) : Circuit :=
  { c with cells := c.cells.modify i f }

/-! ### `GlobalPlacer::exportPlacement(Circuit &circuit, xplace, yplace)`

```
for (int i = 0; i < circuit.nbCells(); ++i) {
  if (circuit.isFixed(i)) continue;
  circuit.cellX_[i] = std::round(xplace[i] - 0.5 * circuit.placedWidth(i));
  circuit.cellY_[i] = std::round(yplace[i] - 0.5 * circuit.placedHeight(i));
}
``` -/

def globalX (xs : List Rat) (cl : Cell) (i : Nat) : Int :=
  roundHalfAway (xs.getD i 0 - (1 / 2 : Rat) * (cl.placedWidth : Rat))

def globalY (ys : List Rat) (cl : Cell) (i : Nat) : Int :=
  roundHalfAway (ys.getD i 0 - (1 / 2 : Rat) * (cl.placedHeight : Rat))

/-- one iteration of the loop -/
def globalStep (xs ys : List Rat) (c : Circuit) (i : Nat) : Circuit :=
  if (c.cell i).fixed then c
  else updCell c i (writeXY (globalX xs (c.cell i) i) (globalY ys (c.cell i) i))

def exportGlobal (c : Circuit) (xs ys : List Rat) : Circuit :=
  (List.range c.cells.length).foldl (globalStep xs ys) c

/-! ### `Legalizer::exportPlacement(Circuit &circuit)`

```
int j = 0;
for (int i = 0; i < circuit.nbCells(); ++i) {
  if (circuit.cellIsFixed_[i]) continue;
  if (j >= nbCells()) throw std::runtime_error(...);
  if (isPlaced(j)) { cellX_[i] = cellX[j]; cellY_[i] = cellY[j]; cellOrientation_[i] = cellOrient[j]; }
  ++j;
}
``` -/

/-- the legalizer's result vectors (`cellToX_`, `cellToY_`, `cellToOrientation_`,
`cellIsPlaced_`) and its `nbCells()` -/
structure LegVectors where
  n : Nat
  x : List Int
  y : List Int
  orient : List Orient
  placed : List Bool
deriving Repr, Inhabited

/-- loop state: the circuit, the parallel index `j`, and whether the loop was left by `throw` -/
structure LegLoop where
  c : Circuit
  j : Nat
  thrown : Bool
deriving Repr, Inhabited

def legalStep (L : LegVectors) (s : LegLoop) (i : Nat) : LegLoop :=
  if s.thrown then s
  else if (s.c.cell i).fixed then s
  else if L.n ≤ s.j then { s with thrown := true }
  else if L.placed.getD s.j false then
    { s with c := updCell s.c i (writeXYO (L.x.getD s.j 0) (L.y.getD s.j 0) (L.orient.getD s.j default)),
             j := s.j + 1 }
  else { s with j := s.j + 1 }

def legalLoop (c : Circuit) (L : LegVectors) : LegLoop :=
  (List.range c.cells.length).foldl (legalStep L) ⟨c, 0, false⟩

/-- `(threw, circuit as the call leaves it)`: a throw leaves the writes made so far -/
def exportLegal (c : Circuit) (L : LegVectors) : Bool × Circuit :=
  ((legalLoop c L).thrown, (legalLoop c L).c)

/-! ### `DetailedPlacement::exportPlacement(Circuit &circuit)`

```
for (int i = 0; i < nbCells(); ++i) {
  int cell = cellIndex_[i];
  if (cell < 0) continue;
  if (circuit.isFixed(cell)) continue;
  circuit.cellX_[cell] = cellX(i); circuit.cellY_[cell] = cellY(i); circuit.cellOrientation_[cell] = cellOrientation(i);
}
``` -/

/-- `cellIndex_`, `cellX_`, `cellY_`, `cellOrientation_` of the `DetailedPlacement`
(`nbCells()` is the common length) -/
structure DetVectors where
  n : Nat
  cellIndex : List Int
  x : List Int
  y : List Int
  orient : List Orient
deriving Repr, Inhabited

def detailedStep (D : DetVectors) (c : Circuit) (i : Nat) : Circuit :=
  if D.cellIndex.getD i (-1) < 0 then c
  else if (c.cell (D.cellIndex.getD i (-1)).toNat).fixed then c
  else updCell c (D.cellIndex.getD i (-1)).toNat (writeXYO (D.x.getD i 0) (D.y.getD i 0) (D.orient.getD i default))

def exportDetailed (c : Circuit) (D : DetVectors) : Circuit :=
  (List.range D.n).foldl (detailedStep D) c

/-! ### Stages as sequences of exports

`writes_table_closed` (Properties/C03, over the table regenerated from the source) shows that
inside `src/place_global` and `src/place_detailed` the cell vectors of a `Circuit` are written
only by the export loops above (and their per-axis variants in `NetModel`/`IncrNetModel`, same
guard), so what a stage does to the circuit is a sequence of exports — one per callback
and one at the end; an exception cuts the sequence short (possibly inside the legalizer's
export, whose partial write is part of `exportLegal`). -/

inductive Write where
  | global (xs ys : List Rat)
  | legal (L : LegVectors)
  | detailed (D : DetVectors)

def Write.apply : Write → Circuit → Circuit
  | .global xs ys, c => exportGlobal c xs ys
  | .legal L, c => (exportLegal c L).2
  | .detailed D, c => exportDetailed c D

def Write.isGlobal : Write → Bool
  | .global _ _ => true
  | _ => false

def runWrites (ws : List Write) (c : Circuit) : Circuit := ws.foldl (fun c w => w.apply c) c

inductive Outcome where
  | returned
  | threw
deriving Repr, DecidableEq

/-- a placement stage (or a composition of stages): the writes it performed and how it ended -/
def runStage (ws : List Write) (o : Outcome) (c : Circuit) : Outcome × Circuit := (o, runWrites ws c)

/-! ### The frame relation -/

/-- cell `b` (after) agrees with cell `a` (before) on everything but `x`, `y` and — when
`orientFree` — `orient`; a fixed cell is unchanged. -/
def CellFrame (orientFree : Bool) (a b : Cell) : Prop :=
  b.w = a.w ∧ b.h = a.h ∧ b.fixed = a.fixed ∧ b.obstruction = a.obstruction ∧ b.pol = a.pol ∧
  (a.fixed = true → b = a) ∧ (orientFree = false → b.orient = a.orient)

/-- circuit `c'` agrees with `c` on nets (pins, offsets, weights), rows, number of cells, and
cell by cell as `CellFrame` says. -/
def Frame (orientFree : Bool) (c c' : Circuit) : Prop :=
  c'.nets = c.nets ∧ c'.rows = c.rows ∧ c'.cells.length = c.cells.length ∧
  ∀ i, CellFrame orientFree (c.cell i) (c'.cell i)

end ColoVerif.Export
