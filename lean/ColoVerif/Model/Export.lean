import ColoVerif.Model.Circuit
/-
C03 — the three functions through which the placement stages write into a `Circuit`
(`GlobalPlacer::exportPlacement(Circuit&, xplace, yplace)` in place_global.cpp,
`Legalizer::exportPlacement` in legalizer.cpp, `DetailedPlacement::exportPlacement` in
detailed_placement.cpp), modelled loop for loop over the shared `Circuit` record, and the
frame relation they are proved to respect; plus what calls them: `blendPlacement` and
`GlobalPlacer::exportPlacement(Circuit&) const` (binary32 blend of the LB/UB vectors), the callback
paths `GlobalPlacer::callback` / `DetailedPlacer::callback`, the bodies of `GlobalPlacer::place` /
`DetailedPlacer::place` as sequences of exports, and the `InUseGuard` wrappers of src/coloquinte.cpp.
Core Lean only (the driver links this file).

Conventions: C++ `int` is `Int`; the float/double arithmetic of the global export
(`std::round(xplace[i] - 0.5 * placedWidth(i))`) is modelled exactly over `Rat`
(`std::round` = round half away from zero); the correspondence harness only compares cases
where the double subtraction is exact.  Out-of-range vector reads (undefined behaviour in
C++, rejected by `assert`s in the assert-enabled build) read a default value here; the
frame theorems hold for *any* vectors, including such ones.
-/
namespace ColoVerif.Export

/-- `std::round` on an exact value: nearest integer, halves away from zero. -/
def roundHalfAway (q : Rat) : Int :=
  if 0 ≤ q then (q + 1 / 2).floor else -((-q + 1 / 2).floor)

/-- `circuit.cellX_[i] = x; circuit.cellY_[i] = y;` -/
def writeXY (x y : Int) (cl : Cell) : Cell := { cl with x := x, y := y }

/-- `circuit.cellX_[i] = x; circuit.cellY_[i] = y; circuit.cellOrientation_[i] = o;` -/
def writeXYO (x y : Int) (o : Orient) (cl : Cell) : Cell := { cl with x := x, y := y, orient := o }

/-- in-place update of cell `i` (no effect when `i` is out of range) -/
def updCell (c : Circuit) (i : Nat) (f : Cell → Cell) : Circuit :=
  { c with cells := c.cells.modify i f }

/-! ### `GlobalPlacer::exportPlacement(Circuit &circuit, xplace, yplace)`

```
for (int i = 0; i < circuit.nbCells(); ++i) {
  if (circuit.isFixed(i)) continue;
  circuit.cellX_[i] = std::round(xplace[i] - 0.5 * circuit.placedWidth(i));
  circuit.cellY_[i] = std::round(yplace[i] - 0.5 * circuit.placedHeight(i));
}
``` -/

def globalX (xs : List Rat) (cl : Cell) (i : Nat) : Int :=
  roundHalfAway (xs.getD i 0 - (1 / 2 : Rat) * (cl.placedWidth : Rat))

def globalY (ys : List Rat) (cl : Cell) (i : Nat) : Int :=
  roundHalfAway (ys.getD i 0 - (1 / 2 : Rat) * (cl.placedHeight : Rat))

/-- one iteration of the loop -/
def globalStep (xs ys : List Rat) (c : Circuit) (i : Nat) : Circuit :=
  if (c.cell i).fixed then c
  else updCell c i (writeXY (globalX xs (c.cell i) i) (globalY ys (c.cell i) i))

def exportGlobal (c : Circuit) (xs ys : List Rat) : Circuit :=
  (List.range c.cells.length).foldl (globalStep xs ys) c

/-! ### `blendPlacement`, `GlobalPlacer::exportPlacement(Circuit &) const`, `GlobalPlacer::callback`

```
std::vector<float> blendPlacement(v1, v2, float blending) {
  if (blending == 0.0f) return v1;
  if (blending == 1.0f) return v2;
  for (i < v1.size()) ret.push_back((1.0f - blending) * v1[i] + blending * v2[i]);
}
void GlobalPlacer::exportPlacement(Circuit &circuit) const {
  float w = params_.global.exportBlending;
  exportPlacement(circuit, blendPlacement(xPlacementLB_, xPlacementUB_, w), blendPlacement(yPlacementLB_, yPlacementUB_, w));
}
void GlobalPlacer::callback(PlacementStep step, xplace, yplace) {
  if (!callback_.has_value()) return;
  exportPlacement(circuit_, xplace, yplace);
  callback_.value()(step);
}
```
The blend is `float` arithmetic: x86-64/SSE evaluates it in binary32 (FLT_EVAL_METHOD = 0, no FMA
contraction in the build), so each of the two products, the difference `1.0f - blending` and the sum
is rounded once to nearest-even.  `f32` is that rounding on exact rationals (finite range: the placer
throws on non-finite or > 2^28 coordinates before any export, `checkFinitePlacement`). -/

/-- `2^e` for an integer exponent -/
def pow2 (e : Int) : Rat :=
  if 0 ≤ e then ((2 ^ e.toNat : Nat) : Rat) else 1 / ((2 ^ (-e).toNat : Nat) : Rat)

/-- nearest integer, ties to even (argument ≥ 0) -/
def roundHalfEven (r : Rat) : Int :=
  if r - (r.floor : Rat) < 1 / 2 then r.floor
  else if (1 : Rat) / 2 < r - (r.floor : Rat) then r.floor + 1
  else if r.floor % 2 = 0 then r.floor else r.floor + 1

/-- exponent of the unit in the last place of the binary32 nearest to `a > 0`:
`2^(e+23) ≤ a < 2^(e+24)`, clamped at the subnormal exponent −149 -/
def f32Exp (a : Rat) : Int :=
  max (if a < pow2 ((Nat.log2 a.num.natAbs : Int) - (Nat.log2 a.den : Int))
       then (Nat.log2 a.num.natAbs : Int) - (Nat.log2 a.den : Int) - 24
       else (Nat.log2 a.num.natAbs : Int) - (Nat.log2 a.den : Int) - 23) (-149)

/-- IEEE-754 binary32 round-to-nearest-even of an exact rational (finite range) -/
def f32 (q : Rat) : Rat :=
  if q = 0 then 0
  else if q < 0 then -((roundHalfEven ((-q) / pow2 (f32Exp (-q))) : Rat) * pow2 (f32Exp (-q)))
  else (roundHalfEven (q / pow2 (f32Exp q)) : Rat) * pow2 (f32Exp q)

/-- `(1.0f - blending) * a1 + blending * a2`, every operation rounded once -/
def blendEntry (b a1 a2 : Rat) : Rat := f32 (f32 (f32 (1 - b) * a1) + f32 (b * a2))

/-- `blendPlacement(v1, v2, blending)`; a `v2` shorter than `v1` (asserted against in C++) reads 0 -/
def blendPlacement (b : Rat) (v1 v2 : List Rat) : List Rat :=
  if b = 0 then v1
  else if b = 1 then v2
  else (List.range v1.length).map fun i => blendEntry b (v1.getD i 0) (v2.getD i 0)

/-- `params_.global.exportBlending`, `xPlacementLB_`, `xPlacementUB_`, `yPlacementLB_`, `yPlacementUB_` -/
structure GlobalVectors where
  w : Rat
  xLB : List Rat
  xUB : List Rat
  yLB : List Rat
  yUB : List Rat
deriving Repr, Inhabited

/-- `GlobalPlacer::exportPlacement(Circuit &circuit) const` -/
def exportGlobalBlend (c : Circuit) (G : GlobalVectors) : Circuit :=
  exportGlobal c (blendPlacement G.w G.xLB G.xUB) (blendPlacement G.w G.yLB G.yUB)

/-- `GlobalPlacer::callback(step, xplace, yplace)` as far as the circuit is concerned (the user's
callback itself is user code) -/
def globalCallback (hasCallback : Bool) (c : Circuit) (xs ys : List Rat) : Circuit :=
  if hasCallback then exportGlobal c xs ys else c

/-! ### `Legalizer::exportPlacement(Circuit &circuit)`

```
int j = 0;
for (int i = 0; i < circuit.nbCells(); ++i) {
  if (circuit.cellIsFixed_[i]) continue;
  if (j >= nbCells()) throw std::runtime_error(...);
  if (isPlaced(j)) { cellX_[i] = cellX[j]; cellY_[i] = cellY[j]; cellOrientation_[i] = cellOrient[j]; }
  ++j;
}
``` -/

/-- the legalizer's result vectors (`cellToX_`, `cellToY_`, `cellToOrientation_`,
`cellIsPlaced_`) and its `nbCells()` -/
structure LegVectors where
  n : Nat
  x : List Int
  y : List Int
  orient : List Orient
  placed : List Bool
deriving Repr, Inhabited

/-- loop state: the circuit, the parallel index `j`, and whether the loop was left by `throw` -/
structure LegLoop where
  c : Circuit
  j : Nat
  thrown : Bool
deriving Repr, Inhabited

def legalStep (L : LegVectors) (s : LegLoop) (i : Nat) : LegLoop :=
  if s.thrown then s
  else if (s.c.cell i).fixed then s
  else if L.n ≤ s.j then { s with thrown := true }
  else if L.placed.getD s.j false then
    { s with c := updCell s.c i (writeXYO (L.x.getD s.j 0) (L.y.getD s.j 0) (L.orient.getD s.j default)),
             j := s.j + 1 }
  else { s with j := s.j + 1 }

def legalLoop (c : Circuit) (L : LegVectors) : LegLoop :=
  (List.range c.cells.length).foldl (legalStep L) ⟨c, 0, false⟩

/-- `(threw, circuit as the call leaves it)`: a throw leaves the writes made so far -/
def exportLegal (c : Circuit) (L : LegVectors) : Bool × Circuit :=
  ((legalLoop c L).thrown, (legalLoop c L).c)

/-! ### `DetailedPlacement::exportPlacement(Circuit &circuit)`

```
for (int i = 0; i < nbCells(); ++i) {
  int cell = cellIndex_[i];
  if (cell < 0) continue;
  if (circuit.isFixed(cell)) continue;
  circuit.cellX_[cell] = cellX(i); circuit.cellY_[cell] = cellY(i); circuit.cellOrientation_[cell] = cellOrientation(i);
}
``` -/

/-- `cellIndex_`, `cellX_`, `cellY_`, `cellOrientation_` of the `DetailedPlacement`
(`nbCells()` is the common length) -/
structure DetVectors where
  n : Nat
  cellIndex : List Int
  x : List Int
  y : List Int
  orient : List Orient
deriving Repr, Inhabited

def detailedStep (D : DetVectors) (c : Circuit) (i : Nat) : Circuit :=
  if D.cellIndex.getD i (-1) < 0 then c
  else if (c.cell (D.cellIndex.getD i (-1)).toNat).fixed then c
  else updCell c (D.cellIndex.getD i (-1)).toNat (writeXYO (D.x.getD i 0) (D.y.getD i 0) (D.orient.getD i default))

def exportDetailed (c : Circuit) (D : DetVectors) : Circuit :=
  (List.range D.n).foldl (detailedStep D) c

/-- `DetailedPlacer::callback()`: `if (!callback_.has_value()) return; exportPlacement(circuit_); …` -/
def detailedCallback (hasCallback : Bool) (c : Circuit) (D : DetVectors) : Circuit :=
  if hasCallback then exportDetailed c D else c

/-! ### Stages as sequences of exports

`writes_table_closed` (Properties/C03, over the table regenerated from the source) shows that
inside `src/place_global` and `src/place_detailed` the cell vectors of a `Circuit` are written
only by the export loops above (and their per-axis variants in `NetModel`/`IncrNetModel`, same
guard), so what a stage does to the circuit is a sequence of exports — one per callback
and one at the end; an exception cuts the sequence short (possibly inside the legalizer's
export, whose partial write is part of `exportLegal`). -/

inductive Write where
  | global (xs ys : List Rat)
  | globalBlend (G : GlobalVectors)
  | legal (L : LegVectors)
  | detailed (D : DetVectors)

def Write.apply : Write → Circuit → Circuit
  | .global xs ys, c => exportGlobal c xs ys
  | .globalBlend G, c => exportGlobalBlend c G
  | .legal L, c => (exportLegal c L).2
  | .detailed D, c => exportDetailed c D

def Write.isGlobal : Write → Bool
  | .global _ _ => true
  | .globalBlend _ => true
  | _ => false

def runWrites (ws : List Write) (c : Circuit) : Circuit := ws.foldl (fun c w => w.apply c) c

inductive Outcome where
  | returned
  | threw
deriving Repr, DecidableEq

/-- a placement stage (or a composition of stages): the writes it performed and how it ended -/
def runStage (ws : List Write) (o : Outcome) (c : Circuit) : Outcome × Circuit := (o, runWrites ws c)

/-! ### The stage bodies and the wrappers of `Circuit`

`GlobalPlacer::place`: construct, `run()` (which calls `callback(step, x, y)` once per exposed
placement — LB after every solve, UB after every rough legalization and at penalty updates), then
`exportPlacement(circuit)`.  `DetailedPlacer::place`: `legalize` (one legalizer export, then the
user callback), construct, `run()` (one `callback()` per optimisation pass), `exportPlacement`. -/

/-- what `GlobalPlacer::place` does to the circuit when it returns -/
def placeGlobalBody (hasCallback : Bool) (exposed : List (List Rat × List Rat)) (G : GlobalVectors) (c : Circuit) : Circuit :=
  exportGlobalBlend (exposed.foldl (fun c p => globalCallback hasCallback c p.1 p.2) c) G

/-- what `DetailedPlacer::place` does to the circuit when it returns (the legalizer's export did not throw) -/
def placeDetailedBody (hasCallback : Bool) (L : LegVectors) (exposed : List DetVectors) (D : DetVectors) (c : Circuit) : Circuit :=
  exportDetailed (exposed.foldl (detailedCallback hasCallback) (exportLegal c L).2) D

/-- a `Circuit` together with its `isInUse_` flag -/
structure Guarded where
  inUse : Bool
  c : Circuit
deriving Repr, Inhabited

/-- `InUseGuard guard(isInUse_); <body>(*this, …);` — the three wrappers of src/coloquinte.cpp.  The
guard object lives for the whole function body; its destructor runs when the scope is left, by return or
by exception.  Two shapes (the translator accepts exactly these, `Kind.scoped` / `Kind.scopedRestore`):
`restores = false`: the constructor sets the flag, the destructor clears it;
`restores = true`: the constructor saves the flag and sets it, the destructor puts the saved value back
(a placement call made from a callback of another one does not release the circuit of the outer call). -/
def withInUseGuard (restores : Bool) (body : Circuit → Outcome × Circuit) (s : Guarded) : Outcome × Guarded :=
  ((body ({ s with inUse := true } : Guarded).c).1,
   { inUse := if restores then s.inUse else false, c := (body ({ s with inUse := true } : Guarded).c).2 })

/-! ### The frame relation -/

/-- cell `b` (after) agrees with cell `a` (before) on everything but `x`, `y` and — when
`orientFree` — `orient`; a fixed cell is unchanged. -/
def CellFrame (orientFree : Bool) (a b : Cell) : Prop :=
  b.w = a.w ∧ b.h = a.h ∧ b.fixed = a.fixed ∧ b.obstruction = a.obstruction ∧ b.pol = a.pol ∧
  (a.fixed = true → b = a) ∧ (orientFree = false → b.orient = a.orient)

/-- circuit `c'` agrees with `c` on nets (pins, offsets, weights), rows, number of cells, and
cell by cell as `CellFrame` says. -/
def Frame (orientFree : Bool) (c c' : Circuit) : Prop :=
  c'.nets = c.nets ∧ c'.rows = c.rows ∧ c'.cells.length = c.cells.length ∧
  ∀ i, CellFrame orientFree (c.cell i) (c'.cell i)

end ColoVerif.Export
