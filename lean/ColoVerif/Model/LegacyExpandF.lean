import ColoVerif.Model.ExpandF
/-
`Circuit::expandCellsByFactor` as compiled BEFORE `fixes/c18-byfactor-wide-cells.diff`: the width update was
`cellWidth_[i] *= expansion[i]` = `(int) f32' (f32' w · e)` with no lower bound, so a width above `2^24`
(not an exact `float`) could shrink even with a factor of exactly `1.0f`
(`ColoVerif.C18.legacy_byFactorF_wide_witness`).  Everything else is shared with `Model/ExpandF.lean`.
Core Lean only.
-/
namespace ColoVerif
namespace LegacyExpandF
open Expand ExpandF

/-- `cellWidth_[i] *= expansion[i]` for the movable cells (unrepaired tree) -/
def applyFactors : List Cell → List Rat → List Cell
  | cl :: cells, e :: es =>
    (if cl.fixed then cl else { cl with w := truncRat (scaledF cl.w e) }) :: applyFactors cells es
  | cells, _ => cells

def byFactorWith (c : Circuit) (efs : List Rat) (A R : Int) (E maxDensity : Rat) : Circuit × Rat :=
  if noopOf A R maxDensity then (c, 1)
  else ({ c with cells := (applyFactors c.cells
            (effectiveOf efs maxDensity (densityOf A R) (expandedDensityOf E R))) },
        F64.f64 (expandedDensityOf E R / densityOf A R))

/-- `Circuit::expandCellsByFactor` of the unrepaired tree; `none` = throws -/
def expandCellsByFactor (c : Circuit) (efs : List Rat) (maxDensity margin : Rat) : Option (Circuit × Rat) :=
  if factorsRejected c efs then none
  else some (byFactorWith c efs (movableArea c.cells) (ExpandF.rowPlacementArea c margin)
               (ExpandF.expandedArea 0 c.cells efs) maxDensity)

end LegacyExpandF
end ColoVerif
