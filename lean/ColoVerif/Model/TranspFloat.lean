import ColoVerif.Model.F64
import ColoVerif.Model.TranspCert
/-
The `float` constructor of `coloquinte::TransportationProblem` (src/place_global/transportation.cpp):
the fixed-point scaling `costsFromIntegers(const std::vector<std::vector<float>>& costs)`, operation by
operation, over exact rationals with the explicit IEEE-754 rounding of `Model/F64.lean`
(`f64 = fround 53 (−1074)`: binary64 round-to-nearest-even, gradual underflow; `roundAway = std::round`).

    float maxVal = 1.0e-8f;                                   // binary32 constant 11258999·2^-50
    for (auto& c : costs) for (float d : c)
      maxVal = std::max(d, maxVal);                           // float compare, no rounding: (d < maxVal) ? maxVal : d
    double maxLong = static_cast<double>(INT_MAX);            // 2147483647, exact
    conversionFactor_ = maxLong / maxVal;                     // float -> double exact, one binary64 division
    conversionFactor_ /= 4.0;                                 // binary64 division
    conversionFactor_ /= costs.size();                        // size_t -> double exact (< 2^53), binary64 division
    costs_[i][j] = std::round(costs[i][j] * conversionFactor_);
                       // float -> double exact, one binary64 product, std::round (half away from zero),
                       // implicit double -> int conversion (defined iff the value fits an int)

A finite `float` is an exact rational, so the inputs are `Rat`s; NaN and ±inf have no counterpart (they are
outside the domain: a NaN survives `std::max`, an infinite `maxVal` makes the factor 0 and `inf·0 = NaN`, and
`(int) NaN` is undefined).  Every intermediate of the scaling is a binary64 *normal* number on the domain
`FloatCostsOk` (proved in `Proofs/TranspFloat.lean`), so no overflow to infinity can occur and the unbounded
exponent range of `fround` is not a restriction.  (x86-64: `FLT_EVAL_METHOD = 0`, no FMA contraction is possible
here since no product feeds a sum.)

Core Lean only.  `drv_C13` executes `costsFromFloats`; the harness sends each cost as the bit pattern of
`(double) cost` (decoded exactly by `ratOfBits64`) and compares the scaled integer costs entry by entry.
-/
namespace ColoVerif.Transp
open ColoVerif.F64
open ColoVerif.Legalize (pow2)

/-- the `float` constant `1.0e-8f` = `0x322BCC77` = `11258999·2^-50` -/
def fcEps : Rat := 11258999 / 1125899906842624

/-- `std::max(d, maxVal)`, i.e. `(d < maxVal) ? maxVal : d` -/
def fcMax2 (d maxVal : Rat) : Rat := if d < maxVal then maxVal else d

/-- `maxVal` after the two loops -/
def fcMaxVal (fc : List (List Rat)) : Rat :=
  fc.foldl (fun m r => r.foldl (fun m d => fcMax2 d m) m) fcEps

/-- `conversionFactor_` for `maxVal` and `n = costs.size()`: three binary64 divisions -/
def fcFactor (maxVal : Rat) (n : Nat) : Rat :=
  f64 (f64 (f64 (2147483647 / maxVal) / 4) / (n : Rat))

/-- `std::round(c * conversionFactor_)` converted to `int` -/
def fcFixed (cf c : Rat) : Int := roundAway (f64 (c * cf))

/-- the final double loop, for the factor `cf` (computed once, as in the C++) -/
def scaleRows (cf : Rat) (fc : List (List Rat)) : Mat := fc.map (fun r => r.map (fcFixed cf))

/-- `TransportationProblem::costsFromIntegers(costs)` for finite `float` costs: the stored `costs_` -/
def costsFromFloats (fc : List (List Rat)) : Mat :=
  scaleRows (fcFactor (fcMaxVal fc) fc.length) fc

/-- the float constructor: `costsFromIntegers(costs); resetAllocations(); check();` -/
def Problem.makeFloat (caps dems : List Int) (fc : List (List Rat)) : Problem :=
  Problem.make caps dems (costsFromFloats fc)

/-- `FLT_MAX = (2^24 − 1)·2^104` -/
def fcFltMax : Rat := 340282346638528859811704183484516925440

/-- exact value of the finite IEEE-754 binary64 number with bit pattern `b` (sign, 11 exponent bits,
52 fraction bits; exponent field 0 = zero / subnormal).  Exponent field 2047 (inf / NaN) is outside the
domain; the driver refuses it (`finiteBits64`). -/
def ratOfBits64 (b : Nat) : Rat :=
  let e := b / 4503599627370496 % 2048
  let m := b % 4503599627370496
  let mag : Rat :=
    if e = 0 then (m : Rat) * pow2 (-1074)
    else ((4503599627370496 + m : Nat) : Rat) * pow2 ((e : Int) - 1075)
  if b / 9223372036854775808 % 2 = 1 then -mag else mag

def finiteBits64 (b : Nat) : Bool := b / 4503599627370496 % 2048 != 2047 && decide (b < 18446744073709551616)

/-! ### the real-valued objective (specification side of `float_optimality_gap`) -/

def sumToQ : Nat → (Nat → Rat) → Rat
  | 0, _ => 0
  | n + 1, f => sumToQ n f + f n

/-- `fc[i][j]` (0 outside) -/
def getQ2 (fc : List (List Rat)) (i j : Nat) : Rat := (fc.getD i []).getD j 0

/-- total cost of the plan `x` in the original real-valued costs: `Σ_i Σ_j fc[i][j] · x[i][j]` -/
def realCostOf (fc : List (List Rat)) (n m : Nat) (x : Mat) : Rat :=
  sumToQ n (fun i => sumToQ m (fun j => getQ2 fc i j * (get2 x i j : Rat)))

/-- every entry in `[lo, hi]` (the bounds are computed once) -/
def allBetween (lo hi : Rat) (fc : List (List Rat)) : Bool :=
  fc.all (fun r => r.all (fun c => decide (c ≤ hi) && decide (lo ≤ c)))

/-- the domain of the float constructor for C13, decidable: at most `2^31` rows; every cost at most
`FLT_MAX` (finite) and at least `−nbSinks·maxVal`, where `maxVal = max(1e-8f, largest cost)`.  All
non-negative finite matrices qualify.  (A negative cost is invisible to `maxVal`; the scaling keeps
`|cost|·factor` below `INT_MAX/3` only while `|cost| ≤ (4/3)·nbSinks·maxVal`, see
`C13.float_precondition_needed`.) -/
def floatCostsOk (fc : List (List Rat)) : Bool :=
  decide (fc.length ≤ 2147483648) && allBetween (-((fc.length : Rat) * fcMaxVal fc)) fcFltMax fc

end ColoVerif.Transp
