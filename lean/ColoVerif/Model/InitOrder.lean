/-
Definite initialisation of scalar data members (C08: a value that is read before it is written makes the
result depend on dead memory, i.e. on the history of the process).

`tools/gen/InitTable.py` translates every constructor, every member function and every place that creates an
object of the classes of src/place_global, src/place_detailed (and `Circuit`) into lists of events `Ev` about
the scalar members of ONE object (`*this`, or the local variable the object lives in).  This file gives the
events a meaning for the question "is member `m` definitely written before this read?" by a forward walk
that keeps the set of members written on every path so far:

* `read m`   the member is read (also: `+=`, `++`, address taken, bound to a reference, passed on);
* `write m`  plain assignment / mem-initialiser / default member initialiser;
* `call f`   a member function (or constructor) is called on the same object: its events are walked in place;
             its result set is the meet over its `ret`s and its end;
* `alt a b`  exactly one of the two lists runs (`if`/`else`; `[]` when there is no `else`; also writes and calls
             under `?:`, `&&`, `||`): afterwards only what BOTH wrote counts;
* `opaque b` the list runs zero or more times, possibly partially (loops, `switch`, `try`/`catch`, lambda bodies):
             its reads are checked against the set at entry (plus what the block itself wrote before), its
             writes do not count afterwards;
* `ret`      the function returns: the current set goes to the function's result, the rest of the block is not reached;
* `stop`     throw / break / continue: the rest of the block is not reached on this path.

The walk is not path-sensitive (no reasoning about conditions) and knows nothing about values.
Core Lean only.
-/
namespace ColoVerif.InitOrder

inductive MemberKind where
  | integer | floating | boolean | enumeration | pointer | reference
deriving Repr, DecidableEq

structure MemberRow where
  cls : String
  name : String
  type : String
  kind : MemberKind
  file : String
  line : Nat
deriving Repr

inductive Ev where
  | read (m : Nat)
  | write (m : Nat)
  | call (f : Nat)
  | alt (a b : List Ev)
  | opaque (body : List Ev)
  | ret
  | stop
deriving Repr

structure Fn where
  name : String
  file : String
  line : Nat
  events : List Ev
deriving Repr

/-- claimed verdict for one scalar member of a class: `ctorInit` = every constructor writes it before the
constructor returns; for the others the first function (in the order of the class's lifecycles, calls inlined)
that reads / writes it - informative -/
structure MemberVerdict where
  id : Nat
  ctorInit : Bool
  firstRead : String
  firstWrite : String
deriving Repr

structure ClassRow where
  name : String
  file : String
  line : Nat
  members : List MemberVerdict
  /-- function ids of the constructors that build an object from something other than an object of the
  same class (copy / move constructors copy every member) -/
  ctors : List Nat
  classTypeMembers : Nat
  /-- number of places in the analysed files that create an object of this class -/
  sites : Nat
deriving Repr

inductive LifeKind where
  /-- a local variable: construction, then every statement of the function that mentions it -/
  | localVar
  /-- a temporary / return value / sub-object: handed on right after construction (all members read) -/
  | handedOn
deriving Repr, DecidableEq

structure Lifecycle where
  cls : String
  function : String
  file : String
  line : Nat
  var : String
  kind : LifeKind
  events : List Ev
deriving Repr

structure Table where
  members : List MemberRow
  fns : List Fn
  classes : List ClassRow
  lifecycles : List Lifecycle
deriving Repr

/-! ### the walk -/

def nth {α : Type} : List α → Nat → Option α
  | [], _ => none
  | x :: _, 0 => some x
  | _ :: xs, n + 1 => nth xs n

def mem (m : Nat) : List Nat → Bool
  | [] => false
  | x :: xs => x == m || mem m xs

def inter (a b : List Nat) : List Nat := a.filter (fun x => mem x b)

/-- a set of definitely written members, or `none`: "this point is not reached" (top) -/
abbrev DSet := Option (List Nat)

def meet : DSet → DSet → DSet
  | none, b => b
  | a, none => a
  | some a, some b => some (inter a b)

structure St where
  /-- members written on every path to the current point -/
  cur : DSet
  /-- meet of the sets at the `ret`s passed so far in the current function (`none`: none yet) -/
  exits : DSet
  /-- members read while not definitely written, in walk order -/
  bad : List Nat
  /-- the walk ran out of fuel (recursion) or met an unknown function id -/
  stuck : Bool
deriving Repr

def step1 (s : St) (d : List Nat) : Ev → St
  | .read m => if mem m d then s else { s with bad := s.bad ++ [m] }
  | .write m => { s with cur := some (if mem m d then d else m :: d) }
  | .ret => { s with cur := none, exits := meet s.exits (some d) }
  | .stop => { s with cur := none }
  | _ => s

def run (fns : List Fn) : Nat → List Ev → St → St
  | 0, [], s => s
  | 0, _ :: _, s => { s with stuck := true }
  | _ + 1, [], s => s
  | fuel + 1, e :: rest, s =>
    match s.cur with
    | none => s
    | some d =>
      match e with
      | .call f =>
        match nth fns f with
        | none => { s with stuck := true }
        | some fn =>
          let r := run fns fuel fn.events { cur := some d, exits := none, bad := s.bad, stuck := s.stuck }
          run fns fuel rest { cur := meet r.cur r.exits, exits := s.exits, bad := r.bad, stuck := r.stuck }
      | .alt a b =>
        let ra := run fns fuel a { cur := some d, exits := none, bad := s.bad, stuck := s.stuck }
        let rb := run fns fuel b { cur := some d, exits := none, bad := ra.bad, stuck := ra.stuck }
        run fns fuel rest { cur := meet ra.cur rb.cur, exits := meet s.exits (meet ra.exits rb.exits), bad := rb.bad, stuck := rb.stuck }
      | .opaque body =>
        let r := run fns fuel body { cur := some d, exits := none, bad := s.bad, stuck := s.stuck }
        run fns fuel rest { cur := some d, exits := meet s.exits r.exits, bad := r.bad, stuck := r.stuck }
      | e => run fns fuel rest (step1 s d e)

def fuel0 : Nat := 100000

def start : St := { cur := some [], exits := none, bad := [], stuck := false }

def walk (t : Table) (evs : List Ev) : St := run t.fns fuel0 evs start

def clean (s : St) : Bool := s.bad.isEmpty && !s.stuck

/-- members written on every path through function `f` when it is entered with nothing written -/
def afterFn (t : Table) (f : Nat) : St := walk t [.call f]

def definitelyWrites (t : Table) (f m : Nat) : Bool :=
  let s := afterFn t f
  clean s && (match s.cur with | none => true | some d => mem m d)

/-- the verdict the walk gives for member `m` of a class with constructors `ctors` -/
def ctorVerdict (t : Table) (ctors : List Nat) (m : Nat) : Bool :=
  !ctors.isEmpty && ctors.all (fun f => definitelyWrites t f m)

def classVerdictsOk (t : Table) (c : ClassRow) : Bool :=
  c.members.all (fun v => v.ctorInit == ctorVerdict t c.ctors v.id)

/-- a class with a scalar member that some constructor leaves unset -/
def weak (c : ClassRow) : Bool := c.members.any (fun v => !v.ctorInit)

def lifecycleOk (t : Table) (l : Lifecycle) : Bool := clean (walk t l.events)

/-- members read too early in a lifecycle (for diagnostics: `#eval`) -/
def earlyReads (t : Table) (l : Lifecycle) : List String :=
  (walk t l.events).bad.map (fun m => match nth t.members m with
    | some r => r.cls ++ "::" ++ r.name
    | none => "?")

/-! ### well-formedness of a generated table -/

def evsWf (nm nf : Nat) : Nat → List Ev → Bool
  | 0, _ => false
  | _ + 1, [] => true
  | fuel + 1, e :: rest =>
    (match e with
     | .read m => decide (m < nm)
     | .write m => decide (m < nm)
     | .call f => decide (f < nf)
     | .alt a b => evsWf nm nf fuel a && evsWf nm nf fuel b
     | .opaque b => evsWf nm nf fuel b
     | .ret => true
     | .stop => true) && evsWf nm nf fuel rest

/-- ids are in range; every class with an unset member has exactly as many lifecycles as construction
sites; every lifecycle belongs to a listed class; every lifecycle starts with a call (the construction) -/
def tableWf (t : Table) : Bool :=
  t.fns.all (fun f => evsWf t.members.length t.fns.length fuel0 f.events) &&
  t.lifecycles.all (fun l => evsWf t.members.length t.fns.length fuel0 l.events) &&
  t.classes.all (fun c => c.members.all (fun v => decide (v.id < t.members.length)) &&
                         c.ctors.all (fun f => decide (f < t.fns.length))) &&
  t.classes.all (fun c => !weak c || (t.lifecycles.filter (fun l => l.cls == c.name)).length == c.sites) &&
  t.lifecycles.all (fun l => t.classes.any (fun c => c.name == l.cls && weak c)) &&
  t.lifecycles.all (fun l => match l.events with | .call _ :: _ => true | _ => false)

/-- everything the property theorem needs, as one Boolean -/
def tableOk (t : Table) : Bool :=
  tableWf t && t.classes.all (classVerdictsOk t) && t.lifecycles.all (lifecycleOk t)

end ColoVerif.InitOrder
