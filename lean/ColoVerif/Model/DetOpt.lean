import ColoVerif.Model.DetPlace
/-
Model of the acceptance rules of `DetailedPlacer` (place_detailed.cpp): `valueOnSwap`,
`valueOnInsert`, `bestSwap`, `bestInsert`, `bestSwapUpdate`, and `RowReordering`'s
"keep the best evaluated leaf or write nothing".

The value is a parameter: any function of the cell positions (x and y vectors).  That is what
`IncrNetModel::value()` is — pin offsets are frozen when the incremental model is built, so its
value depends on the current `cellPos` only (C09 relates it to `Circuit::hpwl`).
-/
namespace ColoVerif.DetPlace

/-- a position-only objective: `xtopo_.value() + ytopo_.value()` -/
abbrev Value := (Int → Int) → (Int → Int) → Int

namespace State

def value (V : Value) (s : State) : Int := V s.x s.y

/-- `valueOnSwap`: `none` = infeasible, otherwise the value with c1, c2 moved to `positionsOnSwap` -/
def valueOnSwap (V : Value) (s : State) (c1 c2 : Int) : Option Int :=
  match s.canSwap c1 c2 with
  | .ok true =>
    some (V (upd (upd s.x c1 (s.positionsOnSwap c1 c2).1.1) c2 (s.positionsOnSwap c1 c2).2.1)
            (upd (upd s.y c1 (s.positionsOnSwap c1 c2).1.2) c2 (s.positionsOnSwap c1 c2).2.2))
  | _ => none

/-- `valueOnInsert` -/
def valueOnInsert (V : Value) (s : State) (c r p : Int) : Option Int :=
  match s.canInsert c r p with
  | .ok true => some (V (upd s.x c (s.positionOnInsert c r p).1) (upd s.y c (s.positionOnInsert c r p).2))
  | _ => none

/-- the candidate loop of `bestSwap` / `bestSwapUpdate`: `bestValue` is never updated inside the
loop, so the *last* candidate that beats the current value wins -/
def scan (cur : Int) (eval : Int → Option Int) : List Int → Option Int → Option Int
  | [], best => best
  | cand :: rest, best =>
    match eval cand with
    | some v => if v < cur then scan cur eval rest (some cand) else scan cur eval rest best
    | none => scan cur eval rest best

/-- `bestSwap(c, candidates)`: the chosen candidate, if any -/
def bestSwapChoice (V : Value) (s : State) (c : Int) (cands : List Int) : Option Int :=
  scan (s.value V) (s.valueOnSwap V c) cands none

/-- `bestInsert(c, row, candidates)` -/
def bestInsertChoice (V : Value) (s : State) (c r : Int) (cands : List Int) : Option Int :=
  scan (s.value V) (s.valueOnInsert V c r) cands none

end State

/-- one evaluated leaf of `RowReordering::runOrdering`: its value and the regions (orders and
positions) that would be written back -/
structure Leaf where
  value : Int
  regions : List Region
deriving Repr, DecidableEq, Inhabited

/-- `bestVal_ / bestOrder_ / improvement_` after the enumeration: starts from the current value,
keeps a leaf only if it is strictly better than the best so far -/
def keepBest : Int → List Leaf → Option Leaf → Int × Option Leaf
  | best, [], l => (best, l)
  | best, leaf :: rest, l => if leaf.value < best then keepBest leaf.value rest (some leaf) else keepBest best rest l

/-- `RowReordering::run` + `writeback`: write the best leaf back, or leave the placement alone -/
def State.reorderDecision (V : Value) (s : State) (cells : List Int) (leaves : List Leaf) : Except Err State :=
  match (keepBest (s.value V) leaves none).2 with
  | none => .ok s
  | some leaf => s.reorderWriteback cells leaf.regions

end ColoVerif.DetPlace
