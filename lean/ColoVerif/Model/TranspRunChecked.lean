import ColoVerif.Model.TranspTreeChecked
/-
Checked twin of the whole `TransportationProblem::increaseCapacity(); solve()` sequence of
src/place_global/transportation.cpp — the call `DensityLegalizer::reoptimize` makes — carrying the C++
static type of every arithmetic sub-expression (`CostType = int`, `DemandType = long long`):

  increaseCapacity   totalDemand()/totalCapacity(): std::accumulate(.., 0LL)            long long +, every partial sum
                     missing = totalDemand() - totalCapacity()                          long long -
                     added = missing / nbSinks()                                        long long / (int -> long long)
                     capacities_[i] += added;  added * nbSinks();  missing - ..;  capacities_[i] += 1
  sortedSourcesByDemand   -pb_.demand(i)                                                 long long unary -
  bestSink           sendingCost_[i] + pb_.cost(i, src)                                 int +      (`bestSinkC`)
  sendSource(src)    remaining -= sent                                                  long long -
  sendSource(src, sink, quantity)
                     pb_.allocations_[snk1][sentSrc] += maxSent  (walk and root)         long long +
                     pb_.allocations_[snk1][sentSrc] -= maxSent                          long long -
                     remainingCapa_[snk1] -= maxSent                                     long long -
  updateDestQueues / initQueues    pb_.movingCost(src, sink, dst)                        int -
  updateTree         movingCost(i, bestVisit) + sendingCost_[bestVisit]                 int +      (`updateTreeC`)

Form of the twin.  The unbounded model (`Model/Transp.lean`) is the branch-for-branch model of the code,
including its `assert`s and the accesses that would be undefined (`top()` of an empty queue, an index out
of range, a cycle in `sinkParent_`), which it reports as `Except.error`.  A checked function evaluates the
very same values and additionally demands that every value the C++ stores in an `int` / `long long`
temporary is representable; loops keep their structure (the typed values are those of the intermediate
states), a loop-free stretch computes the unbounded step and then checks its typed intermediates.  A
checked function therefore returns `.ok r` iff the unbounded function returns `.ok r` and every typed
intermediate on the way fits, which is the observable the C07 streams compare (`fault` or the values);
when several intermediates of one stretch are out of range the fault named need not be the first in
program order.

`costsFromIntegers` (the `float` constructor) and `DensityLegalizer::distance` are in
`Model/TranspCostsChecked.lean`.
-/
namespace ColoVerif.Transp
open ColoVerif.Checked

/-- an error of the unbounded model as a fault: failed `assert`s by name, anything else (undefined
accesses, exhausted fuel of a loop that the C++ would not leave) as an out-of-range access -/
def faultOfMsg (s : String) : Fault :=
  if s.startsWith "assert" then .assertFailed s else .indexOutOfRange s

def liftE {α : Type} : Except String α → Except Fault α
  | .ok a => .ok a
  | .error s => .error (faultOfMsg s)

def movingCostSite : String := "movingCost: costs_[snk2][src] - costs_[snk1][src]"

/-- every `pb_.movingCost(src, sink, dst)`, `dst ≠ sink`, is a representable `int` -/
def destCostsFit (p : Problem) (sink src : Nat) : Bool :=
  (List.range p.nbSinks).all (fun dst => dst == sink || decide (fitsInt32 (p.movingCost src sink dst)))

/-- `updateDestQueues(sink, src)` -/
def updateDestQueuesC (p : Problem) (alloc : Mat) (qs : Queues) (sink src : Nat) : Except Fault Queues :=
  if get2 alloc sink src != 0 then .ok qs
  else if destCostsFit p sink src then liftE (updateDestQueues p alloc qs sink src)
  else .error (.intOverflow movingCostSite)

/-- `initQueues(sink)` -/
def initQueuesC (p : Problem) (alloc : Mat) (sink : Nat) : Except Fault (Array Heap) :=
  if ((List.range p.nbSources).filter (fun src => get2 alloc sink src != 0)).all (destCostsFit p sink) then
    .ok (initQueues p alloc sink)
  else .error (.intOverflow movingCostSite)

def allocAddSite : String := "sendSource: pb_.allocations_[snk1][sentSrc] += maxSent"
def allocSubSite : String := "sendSource: pb_.allocations_[snk1][sentSrc] -= maxSent"

/-- one round of the second `while` of `sendSource(src, sink, quantity)` -/
def sendStepC (p : Problem) (m : Int) (alloc : Mat) (qs : Queues) (snk1 snk2 sentSrc : Nat) : Except Fault Step :=
  if get2 alloc snk1 sentSrc != 0 || destCostsFit p snk1 sentSrc then
    match sendStep p m alloc qs snk1 snk2 sentSrc with
    | .error e => .error (faultOfMsg e)
    | .ok st =>
      match addI64 allocAddSite (get2 alloc snk1 sentSrc) m with
      | .error f => .error f
      | .ok _ =>
        match subI64 allocSubSite (get2 (add2 alloc snk1 sentSrc m) snk1 st.newSrc) m with
        | .error f => .error f
        | .ok _ => .ok st
  else .error (.intOverflow movingCostSite)

/-- the second walk of `sendSource(src, sink, quantity)` -/
def sendLoopC (p : Problem) (remCapa : List Int) (parent : List (Option Nat)) (m : Int) :
    Nat → Mat → Queues → Nat → Nat → Bool → Except Fault Walk
  | 0, _, _, _, _, _ => .error (faultOfMsg "cycle in sinkParent_")
  | fuel + 1, alloc, qs, snk1, sentSrc, nu =>
    match parent.getD snk1 none with
    | none => .ok ⟨alloc, qs, snk1, sentSrc, nu⟩
    | some snk2 =>
      if remCapa.getD snk1 0 != 0 then .error (faultOfMsg "assert: remainingCapa_[snk1] == 0")
      else
        match sendStepC p m alloc qs snk1 snk2 sentSrc with
        | .error e => .error e
        | .ok st => sendLoopC p remCapa parent m fuel st.alloc st.queues snk2 st.newSrc (nu || st.costUp)

/-- tail of `sendSource(src, sink, quantity)` -/
def finishSendC (p : Problem) (s : St) (queues : Queues) (root : Nat) (needUpdate : Bool) (alloc : Mat)
    (remCapa : List Int) (m : Int) : Except Fault (St × Int) :=
  match (if remCapa.getD root 0 == 0 then
            (match initQueuesC p alloc root with
             | .error f => .error f
             | .ok r => .ok (queues.setIfInBounds root r))
          else (.ok queues : Except Fault Queues)) with
  | .error f => .error f
  | .ok qs =>
    if needUpdate || remCapa.getD root 0 == 0 then
      match updateTreeC p qs remCapa with
      | .error e => .error e
      | .ok t => .ok ({ alloc := alloc, queues := qs, remCapa := remCapa, sendCost := t.sendCost, parent := t.parent }, m)
    else .ok ({ alloc := alloc, queues := qs, remCapa := remCapa, sendCost := s.sendCost, parent := s.parent }, m)

def remCapaSubSite : String := "sendSource: remainingCapa_[snk1] -= maxSent"

/-- `sendSource(src, sink, quantity)` -/
def sendSource3C (p : Problem) (s : St) (src sink : Nat) (quantity : Int) : Except Fault (St × Int) :=
  match maxSentLoop s.alloc s.queues s.parent (p.nbSinks + 1) sink quantity with
  | .error e => .error (faultOfMsg e)
  | .ok (ms, root) =>
    if min ms (s.remCapa.getD root 0) > 0 then
      match sendLoopC p s.remCapa s.parent (min ms (s.remCapa.getD root 0)) (p.nbSinks + 1)
              s.alloc s.queues sink src false with
      | .error e => .error e
      | .ok w =>
        match addI64 allocAddSite (get2 w.alloc w.root w.src) (min ms (s.remCapa.getD root 0)) with
        | .error f => .error f
        | .ok _ =>
          match add2? p.nbSinks p.nbSources w.alloc w.root w.src (min ms (s.remCapa.getD root 0)) with
          | none => .error (.indexOutOfRange "pb_.allocations_[snk1][sentSrc]")
          | some alloc =>
            if w.root < s.remCapa.length then
              match subI64 remCapaSubSite (s.remCapa.getD w.root 0) (min ms (s.remCapa.getD root 0)) with
              | .error f => .error f
              | .ok r =>
                finishSendC p s w.queues w.root w.needUpdate alloc (s.remCapa.set w.root r)
                  (min ms (s.remCapa.getD root 0))
            else .error (.indexOutOfRange "remainingCapa_[snk1]")
    else .error (faultOfMsg "assert: maxSent > 0 (root)")

/-- `sendSource(src)`: the `while (remaining > 0)` loop -/
def sendSourceLoopC (p : Problem) (src : Nat) : Nat → St → Int → Except Fault St
  | 0, s, remaining => if remaining > 0 then .error (faultOfMsg "fuel: sendSource") else .ok s
  | fuel + 1, s, remaining =>
    if remaining > 0 then
      match bestSinkC p s.sendCost src with
      | .error f => .error f
      | .ok sink =>
        match sendSource3C p s src sink remaining with
        | .error e => .error e
        | .ok (s', sent) =>
          if sent > 0 then
            match subI64 "sendSource: remaining -= sent" remaining sent with
            | .error f => .error f
            | .ok r => sendSourceLoopC p src fuel s' r
          else .error (faultOfMsg "assert: sent > 0")
    else .ok s

def sendSourceC (p : Problem) (s : St) (src : Nat) : Except Fault St :=
  sendSourceLoopC p src (p.demand src).toNat s (p.demand src)

def runSourcesC (p : Problem) : List Nat → St → Except Fault St
  | [], s => .ok s
  | src :: rest, s =>
    match sendSourceC p s src with
    | .error e => .error e
    | .ok s' => runSourcesC p rest s'

/-- `TransportationSuccessiveShortestPath::run()`; `sortedSourcesByDemand` negates every demand -/
def runC (p : Problem) : Except Fault St :=
  if p.demands.all (fun d => decide (fitsInt64 (-d))) then
    runSourcesC p (sortedSourcesByDemand p) (initSt p)
  else .error (.intOverflow "sortedSourcesByDemand: -pb_.demand(i)")

/-- `TransportationProblem::solve()` -/
def solveC (p : Problem) : Except Fault Problem :=
  match runC p with
  | .error e => .error e
  | .ok s => .ok { p with allocations := s.alloc }

/-! ### `increaseCapacity` -/

/-- `std::accumulate(first, last, 0LL)`: every partial sum is a `long long` -/
def accC (site : String) : List Int → Int → Except Fault Int
  | [], acc => .ok acc
  | x :: xs, acc =>
    match addI64 site acc x with
    | .error f => .error f
    | .ok a => accC site xs a

/-- the two loops `capacities_[i] += added` and `capacities_[i] += 1` (`i < rest`) -/
def incCapsFit (added rest : Int) : Nat → List Int → Bool
  | _, [] => true
  | i, c :: cs =>
    decide (fitsInt64 (c + added)) && (decide (¬ (i : Int) < rest) || decide (fitsInt64 (c + added + 1))) &&
      incCapsFit added rest (i + 1) cs

/-- `TransportationProblem::increaseCapacity()`; `asr = false` is a build with `NDEBUG` -/
def increaseCapacityC (asr : Bool) (p : Problem) : Except Fault Problem :=
  match accC "totalDemand: std::accumulate" p.demands 0 with
  | .error f => .error f
  | .ok td =>
    match accC "totalCapacity: std::accumulate" p.capacities 0 with
    | .error f => .error f
    | .ok tc =>
      match subI64 "increaseCapacity: totalDemand() - totalCapacity()" td tc with
      | .error f => .error f
      | .ok missing =>
        if missing ≤ 0 then .ok p
        else
          match divI64 "increaseCapacity: missing / nbSinks()" missing (p.nbSinks : Int) with
          | .error f => .error f
          | .ok added =>
            match mulI64 "increaseCapacity: added * nbSinks()" added (p.nbSinks : Int) with
            | .error f => .error f
            | .ok prod =>
              match subI64 "increaseCapacity: missing - added * nbSinks()" missing prod with
              | .error f => .error f
              | .ok rest =>
                match assertC asr "increaseCapacity: missing >= 0 && missing < nbSinks()"
                        (decide (0 ≤ rest) && decide (rest < (p.nbSinks : Int))) with
                | .error f => .error f
                | .ok _ =>
                  if incCapsFit added rest 0 p.capacities then
                    .ok { p with capacities := Problem.incCaps added rest 0 p.capacities }
                  else .error (.intOverflow "increaseCapacity: capacities_[i] += added")

/-- `solver.increaseCapacity(); solver.solve(); solver.toAssignment()` of `DensityLegalizer::reoptimize`
on an already constructed problem -/
def assignC (asr : Bool) (p : Problem) : Except Fault (List Nat) :=
  match increaseCapacityC asr p with
  | .error f => .error f
  | .ok p1 =>
    match solveC p1 with
    | .error f => .error f
    | .ok p2 => .ok p2.toAssignment

/-- the same on the unbounded model -/
def assign (p : Problem) : Except String (List Nat) :=
  match solve p.increaseCapacity with
  | .error e => .error e
  | .ok p2 => .ok p2.toAssignment

end ColoVerif.Transp
