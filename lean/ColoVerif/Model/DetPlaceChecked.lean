import ColoVerif.Model.DetPlace
import ColoVerif.Model.Checked
/-
Checked (typed) restatement of the integer arithmetic of `coloquinte::DetailedPlacement`
(src/place_detailed/detailed_placement.{hpp,cpp}) for C07 (core Lean only).

Every function below is the twin of the function of the same name (without the final `C`) in
`Model/DetPlace.lean`.  It evaluates the same expression tree, one C++ operation at a time, in
`Except Fault`:

* every `int` operation of the source goes through an `…I32` primitive of `Model/Checked.lean`
  whose site string quotes the C++ expression;
* every read or write `v[i]` of a per-cell / per-row vector goes through `cellIdxC` / `rowIdxC`
  (the accessors `cellX(c)`, `cellRow(c)`, `rowFirstCell(r)`, … carry an
  `assert(c >= 0 && c < nbCells())`; the raw `cellWidth_[c]`, `rows_[r]` do not: with or without
  `NDEBUG` an invalid index is a fault, reported as `indexOutOfRange`);
* the two `assert(isPlaced(c))` of `boundaryBefore(c)` / `boundaryAfter(c)` go through `assertC`
  (`asr = false` is a build with `NDEBUG`);
* `&&` and `||` short-circuit as in C++ (the right operand is evaluated only when needed).

A `throw std::runtime_error` of the library is *not* a fault: the functions that may throw return
`Except Fault (Except Err _)`; the outer layer is the C07 fault, the inner one the C++ exception.

The unbounded functions of `Model/DetPlace.lean` are the ones the correspondence stream executes;
`Proofs/CheckedDetPlace.lean` proves `checked = .ok unchecked` on the C07 domain.
-/
namespace ColoVerif.DetPlace
open ColoVerif.Checked

namespace State

/-- `v[c]` on a per-cell vector (size `nbCells()`) -/
def cellIdxC (s : State) (site : String) (c : Int) : Except Fault Unit :=
  if s.validCell c then .ok () else .error (.indexOutOfRange site)

/-- `v[r]` on a per-row vector (size `nbRows()`) -/
def rowIdxC (s : State) (site : String) (r : Int) : Except Fault Unit :=
  if s.validRow r then .ok () else .error (.indexOutOfRange site)

/-- `boundaryBefore(c)`:
`assert(isPlaced(c)); pred == -1 ? rows_[cellRow(c)].minX : cellX(pred) + cellWidth(pred)` -/
def boundaryBeforeC (s : State) (asr : Bool) (c : Int) : Except Fault Int := do
  s.cellIdxC "boundaryBefore: cellRow_[c]" c
  assertC asr "boundaryBefore: assert(isPlaced(c))" (s.isPlaced c)
  if s.pred c = -1 then do
    s.rowIdxC "boundaryBefore: rows_[cellRow(c)]" (s.row c)
    pure (s.rowMinX (s.row c))
  else do
    s.cellIdxC "boundaryBefore: cellX(pred)" (s.pred c)
    addI32 "boundaryBefore: cellX(pred) + cellWidth(pred)" (s.x (s.pred c)) (s.width (s.pred c))

/-- `boundaryAfter(c)`: `assert(isPlaced(c)); next == -1 ? rows_[cellRow(c)].maxX : cellX(next)` -/
def boundaryAfterC (s : State) (asr : Bool) (c : Int) : Except Fault Int := do
  s.cellIdxC "boundaryAfter: cellRow_[c]" c
  assertC asr "boundaryAfter: assert(isPlaced(c))" (s.isPlaced c)
  if s.next c = -1 then do
    s.rowIdxC "boundaryAfter: rows_[cellRow(c)]" (s.row c)
    pure (s.rowMaxX (s.row c))
  else do
    s.cellIdxC "boundaryAfter: cellX(next)" (s.next c)
    pure (s.x (s.next c))

/-- `boundaryBefore(row, c)` -/
def boundaryBeforeInC (s : State) (asr : Bool) (r c : Int) : Except Fault Int :=
  if c = -1 then do
    s.rowIdxC "boundaryBefore(row, c): rows_[row]" r
    pure (s.rowMaxX r)
  else s.boundaryBeforeC asr c

/-- `boundaryAfter(row, c)` -/
def boundaryAfterInC (s : State) (asr : Bool) (r c : Int) : Except Fault Int :=
  if c = -1 then do
    s.rowIdxC "boundaryAfter(row, c): rows_[row]" r
    pure (s.rowMinX r)
  else s.boundaryAfterC asr c

/-- `pred == -1 ? rowFirstCell(row) : cellNext(pred)` -/
def siteNextC (s : State) (site : String) (r p : Int) : Except Fault Int :=
  if p = -1 then do
    s.rowIdxC site r
    pure (s.rowFirst r)
  else do
    s.cellIdxC site p
    pure (s.next p)

/-- `siteBegin`: `pred == -1 ? rows_[row].minX : cellX(pred) + cellWidth(pred)` -/
def siteBeginC (s : State) (r p : Int) : Except Fault Int :=
  if p = -1 then do
    s.rowIdxC "siteBegin: rows_[row]" r
    pure (s.rowMinX r)
  else do
    s.cellIdxC "siteBegin: cellX(pred)" p
    addI32 "siteBegin: cellX(pred) + cellWidth(pred)" (s.x p) (s.width p)

/-- `siteEnd`: `next == -1 ? rows_[row].maxX : cellX(next)` -/
def siteEndC (s : State) (r p : Int) : Except Fault Int := do
  let n ← s.siteNextC "siteEnd: pred == -1 ? rowFirstCell(row) : cellNext(pred)" r p
  if n = -1 then do
    s.rowIdxC "siteEnd: rows_[row]" r
    pure (s.rowMaxX r)
  else do
    s.cellIdxC "siteEnd: cellX(next)" n
    pure (s.x n)

/-- `canPlace`: `x >= siteBegin(row, pred) && x + cellWidth(c) <= siteEnd(row, pred)` -/
def canPlaceC (s : State) (c r p x : Int) : Except Fault (Except Err Bool) := do
  s.cellIdxC "canPlace: isPlaced(c)" c
  if s.isPlaced c then pure (.error .runtime)
  else do
    s.rowIdxC "canPlace: isRowAllowed(c, row): rows_[row]" r
    if !s.isRowAllowed c r then pure (.ok false)
    else do
      let b ← s.siteBeginC r p
      if x ≥ b then do
        let xe ← addI32 "canPlace: x + cellWidth(c)" x (s.width c)
        let e ← s.siteEndC r p
        pure (.ok (decide (xe ≤ e)))
      else pure (.ok false)

/-- `canInsert`: `siteEnd(row, pred) - siteBegin(row, pred) >= cellWidth(c)` -/
def canInsertC (s : State) (c r p : Int) : Except Fault (Except Err Bool) := do
  s.cellIdxC "canInsert: isPlaced(c)" c
  if !s.isPlaced c then pure (.error .runtime)
  else if c = p then pure (.ok false)
  else if s.row c = r ∧ s.pred c = p then pure (.ok false)
  else do
    s.rowIdxC "canInsert: isRowAllowed(c, row): rows_[row]" r
    if !s.isRowAllowed c r then pure (.ok false)
    else do
      let e ← s.siteEndC r p
      let b ← s.siteBeginC r p
      let d ← subI32 "canInsert: siteEnd(row, pred) - siteBegin(row, pred)" e b
      pure (.ok (decide (d ≥ s.width c)))

/-- the tail of `canSwap` after the placed / identity tests:
`isRowAllowed` both ways, the neighbour shortcut, then
`e2 - b2 >= cellWidth(c1) && e1 - b1 >= cellWidth(c2)` -/
def canSwapTailC (s : State) (asr : Bool) (c1 c2 : Int) : Except Fault (Except Err Bool) := do
  s.rowIdxC "canSwap: isRowAllowed(c1, cellRow(c2)): rows_[row]" (s.row c2)
  if !s.isRowAllowed c1 (s.row c2) then pure (.ok false)
  else do
    s.rowIdxC "canSwap: isRowAllowed(c2, cellRow(c1)): rows_[row]" (s.row c1)
    if !s.isRowAllowed c2 (s.row c1) then pure (.ok false)
    else if s.pred c1 = c2 ∨ s.pred c2 = c1 then pure (.ok true)
    else do
      let b1 ← s.boundaryBeforeC asr c1
      let b2 ← s.boundaryBeforeC asr c2
      let e1 ← s.boundaryAfterC asr c1
      let e2 ← s.boundaryAfterC asr c2
      let d2 ← subI32 "canSwap: e2 - b2" e2 b2
      if d2 ≥ s.width c1 then do
        let d1 ← subI32 "canSwap: e1 - b1" e1 b1
        pure (.ok (decide (d1 ≥ s.width c2)))
      else pure (.ok false)

/-- `canSwap` -/
def canSwapC (s : State) (asr : Bool) (c1 c2 : Int) : Except Fault (Except Err Bool) := do
  s.cellIdxC "canSwap: isPlaced(c1)" c1
  if !s.isPlaced c1 then pure (.error .runtime)
  else do
    s.cellIdxC "canSwap: isPlaced(c2)" c2
    if !s.isPlaced c2 then pure (.error .runtime)
    else if c1 = c2 then pure (.ok false)
    else s.canSwapTailC asr c1 c2

/-- `positionOnInsert`: `(siteEnd(row, pred) - cellWidth(c) + siteBegin(row, pred)) / 2`
(left associative: `(e - w) + b`, then `/ 2`) -/
def positionOnInsertC (s : State) (c r p : Int) : Except Fault (Int × Int) := do
  let e ← s.siteEndC r p
  s.cellIdxC "positionOnInsert: cellWidth_[c]" c
  let a ← subI32 "positionOnInsert: siteEnd(row, pred) - cellWidth(c)" e (s.width c)
  let b ← s.siteBeginC r p
  let t ← addI32 "positionOnInsert: (siteEnd(row, pred) - cellWidth(c)) + siteBegin(row, pred)" a b
  let x ← divI32 "positionOnInsert: (…) / 2" t 2
  s.rowIdxC "positionOnInsert: rowY(row)" r
  pure (x, s.rowY r)

/-- `(boundaryBefore(c) + boundaryAfter(c) - cellWidth(d)) / 2`
(left associative: `(bb + ba) - w`, then `/ 2`) -/
def swapMidC (s : State) (asr : Bool) (c d : Int) : Except Fault Int := do
  let bb ← s.boundaryBeforeC asr c
  let ba ← s.boundaryAfterC asr c
  let t ← addI32 "positionsOnSwap: boundaryBefore(c) + boundaryAfter(c)" bb ba
  let u ← subI32 "positionsOnSwap: (boundaryBefore(c) + boundaryAfter(c)) - cellWidth(c')" t (s.width d)
  divI32 "positionsOnSwap: (…) / 2" u 2

/-- `positionsOnSwap` -/
def positionsOnSwapC (s : State) (asr : Bool) (c1 c2 : Int) :
    Except Fault ((Int × Int) × (Int × Int)) := do
  s.cellIdxC "positionsOnSwap: cellPos(c1)" c1
  s.cellIdxC "positionsOnSwap: cellPos(c2)" c2
  if s.pred c1 = c2 then do
    let x2 ← addI32 "positionsOnSwap: p2.x + cellWidth(c1)" (s.x c2) (s.width c1)
    pure ((s.x c2, s.y c2), (x2, s.y c1))
  else if s.pred c2 = c1 then do
    let x1 ← addI32 "positionsOnSwap: p1.x + cellWidth(c2)" (s.x c1) (s.width c2)
    pure ((x1, s.y c2), (s.x c1, s.y c1))
  else do
    let x1 ← s.swapMidC asr c2 c1
    let x2 ← s.swapMidC asr c1 c2
    pure ((x1, s.y c2), (x2, s.y c1))

/-- what `place` does with the answer of `canPlace` -/
def placeK (s : State) (c r p x : Int) : Except Err Bool → Except Err State
  | .error e => .error e
  | .ok false => .error .runtime
  | .ok true => .ok (s.placeRaw c r p x)

/-- `place`: all its arithmetic is in `canPlace`; the vector elements it writes
(`cellRow_[c]`, `rowFirstCell_[row]` / `cellNext_[pred]`, `rowLastCell_[row]` / `cellPred_[next]`,
`cellX_[c]`, `rows_[row]`) are the ones `canPlace` has read when it answers `true` -/
def placeC (s : State) (c r p x : Int) : Except Fault (Except Err State) := do
  let ok ← s.canPlaceC c r p x
  pure (s.placeK c r p x ok)

/-- `unplace`: no arithmetic; reads `cellRow(c)`, `cellPred(c)`, `cellNext(c)` and writes
`rowFirstCell_[row]` or `cellNext_[pred]`, `rowLastCell_[row]` or `cellPred_[next]` -/
def unplaceC (s : State) (c : Int) : Except Fault State := do
  s.cellIdxC "unplace: cellRow(c)" c
  (if s.pred c = -1 then s.rowIdxC "unplace: rowFirstCell_[row]" (s.row c)
   else s.cellIdxC "unplace: cellNext_[pred]" (s.pred c))
  (if s.next c = -1 then s.rowIdxC "unplace: rowLastCell_[row]" (s.row c)
   else s.cellIdxC "unplace: cellPred_[next]" (s.next c))
  pure (s.unplace c)

/-- `insert` after the `canInsert` test: `positionOnInsert`, `unplace`, `place` -/
def insertBodyC (s : State) (c r p : Int) : Except Fault (Except Err State) := do
  let pos ← s.positionOnInsertC c r p
  let u ← s.unplaceC c
  u.placeC c r p pos.1

/-- `insert` -/
def insertC (s : State) (c r p : Int) : Except Fault (Except Err State) := do
  let ok ← s.canInsertC c r p
  match ok with
  | .error e => pure (.error e)
  | .ok false => pure (.error .runtime)
  | .ok true => s.insertBodyC c r p

/-- `place(a, …); place(b, …);` — the second call runs only if the first did not throw -/
def place2C (s : State) (a ra pa xa b rb pb xb : Int) : Except Fault (Except Err State) := do
  let t ← s.placeC a ra pa xa
  match t with
  | .error e => pure (.error e)
  | .ok t => t.placeC b rb pb xb

/-- `swap` after the `canSwap` test: `positionsOnSwap`, two `unplace`, two `place` -/
def swapBodyC (s : State) (asr : Bool) (c1 c2 : Int) : Except Fault (Except Err State) := do
  let pos ← s.positionsOnSwapC asr c1 c2
  let u1 ← s.unplaceC c1
  let u2 ← u1.unplaceC c2
  if s.pred c1 = c2 then
    u2.place2C c1 (s.row c2) (s.pred c2) pos.1.1 c2 (s.row c1) c1 pos.2.1
  else if s.pred c2 = c1 then
    u2.place2C c2 (s.row c1) (s.pred c1) pos.2.1 c1 (s.row c2) c2 pos.1.1
  else
    u2.place2C c1 (s.row c2) (s.pred c2) pos.1.1 c2 (s.row c1) (s.pred c1) pos.2.1

/-- `swap` -/
def swapC (s : State) (asr : Bool) (c1 c2 : Int) : Except Fault (Except Err State) := do
  let ok ← s.canSwapC asr c1 c2
  match ok with
  | .error e => pure (.error e)
  | .ok false => pure (.error .runtime)
  | .ok true => s.swapBodyC asr c1 c2

/-- the model-only acceptance test of a shift (`fitsInSite`), typed:
`boundaryBefore(c) <= cellX(c) && cellX(c) + cellWidth(c) <= boundaryAfter(c)` -/
def fitsInSiteC (s : State) (asr : Bool) (c : Int) : Except Fault Bool := do
  let b ← s.boundaryBeforeC asr c
  if b ≤ s.x c then do
    let xe ← addI32 "fitsInSite: cellX(c) + cellWidth(c)" (s.x c) (s.width c)
    let a ← s.boundaryAfterC asr c
    pure (decide (xe ≤ a))
  else pure false

/-! ### `check()` -/

/-- the predecessor tests of the second loop of `check()`:
`cellRow(pc) != row`, `cellX(pc) + cellWidth(pc) > cellX(i)` / `rowFirstCell(row) != i`,
`cellX(i) < rows_[row].minX` -/
def checkPredC (s : State) (c : Int) : Except Fault Bool :=
  if s.pred c ≠ -1 then do
    s.cellIdxC "check: cellRow(pc)" (s.pred c)
    if s.row (s.pred c) == s.row c then do
      let e ← addI32 "check: cellX(pc) + cellWidth(pc)" (s.x (s.pred c)) (s.width (s.pred c))
      pure (decide (e ≤ s.x c))
    else pure false
  else do
    s.rowIdxC "check: rowFirstCell(row)" (s.row c)
    pure (s.rowFirst (s.row c) == c && decide (s.rowMinX (s.row c) ≤ s.x c))

/-- the successor tests of the second loop of `check()`:
`cellRow(nc) != row`, `cellX(i) + cellWidth(i) > cellX(nc)` / `rowLastCell(row) != i`,
`cellX(i) + cellWidth(i) > rows_[row].maxX` -/
def checkNextC (s : State) (c : Int) : Except Fault Bool :=
  if s.next c ≠ -1 then do
    s.cellIdxC "check: cellRow(nc)" (s.next c)
    if s.row (s.next c) == s.row c then do
      let e ← addI32 "check: cellX(i) + cellWidth(i) [successor]" (s.x c) (s.width c)
      pure (decide (e ≤ s.x (s.next c)))
    else pure false
  else do
    s.rowIdxC "check: rowLastCell(row)" (s.row c)
    if s.rowLast (s.row c) == c then do
      let e ← addI32 "check: cellX(i) + cellWidth(i) [row end]" (s.x c) (s.width c)
      pure (decide (e ≤ s.rowMaxX (s.row c)))
    else pure false

/-- one iteration of the second loop of `check()` (twin of `checkCell`) -/
def checkCellC (s : State) (c : Int) : Except Fault Bool := do
  s.cellIdxC "check: cellPred(i)" c
  if -1 ≤ s.row c ∧ s.row c < s.nRows then
    if s.row c = -1 then pure (s.pred c == -1 && s.next c == -1)
    else do
      let a ← s.checkPredC c
      if a then s.checkNextC c else pure false
  else pure false

end State

/-! ### constructor -/

/-- `locate`: the row tests of the constructor, `rect.maxX < x + width[i]` typed -/
def locateC (rows : List Row) (x y w : Int) : Except Fault (Except Err Nat) :=
  match findRow rows x y with
  | none => .ok (.error .runtime)
  | some r =>
    if (rows.getD r default).rect.minY ≠ y then .ok (.error .runtime)
    else if (rows.getD r default).rect.minX > x then .ok (.error .runtime)
    else do
      let e ← addI32 "DetailedPlacement: x + width[i]" x w
      pure (if (rows.getD r default).rect.maxX < e then .error .runtime else .ok r)

/-- `linkRow`: the overlap test of the constructor,
`cellX_[c1] + cellWidth_[c1] > cellX_[c2]` typed -/
def linkRowC (s : State) (r : Int) : List Int → Except Fault (Except Err State)
  | [] => .ok (.ok s)
  | [c] => .ok (.ok { s with row := upd s.row c r, rowLast := upd s.rowLast r c })
  | c1 :: c2 :: rest =>
    match addI32 "DetailedPlacement: cellX_[c1] + cellWidth_[c1]" (s.x c1) (s.width c1) with
    | .error f => .error f
    | .ok e =>
      if e > s.x c2 then .ok (.error .runtime)
      else linkRowC { s with row := upd s.row c1 r, next := upd s.next c1 c2, pred := upd s.pred c2 c1 } r (c2 :: rest)

end ColoVerif.DetPlace
